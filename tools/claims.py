"""Per-property claim texts for MANIFEST.json (read by gen_manifest.py)."""

NOTE_COMMON = (
    "Trusted: Lean 4.33 kernel; axioms propext / Classical.choice / Quot.sound only (printed per theorem into the evidence; "
    "no native_decide, no sorry); the hand-written model is tied to the code by this check's correspondence run on the explored "
    "cases only; harness (generators, canonicalisation, exact float->rational bridge). ")

CLAIMS = {
    "C01": (
        "Theorems (14): the model of estimate_markov_model (three label->index branches incl. the lookup-table relabelling, counting "
        "loop, row normalisation) equals the lagged-count spec for all trajectory sets and lags (model_meets_spec), entries in [0,1], "
        "row sums 0/1, pairs only inside one trajectory and at this lag. Correspondence: exhaustive small sets x 5 alphabets + random "
        "sets/forms/dtypes, every matrix entry compared exactly (IEEE division of integers), each real output judged by the Lean oracle "
        "Msm.holds.",
        "labels within the 32-bit guard of the lookup table (LabelGuard, stated in the theorem); IEEE division correctly rounded",
        "Lean proof by list induction + exact differential correspondence"),
    "C02": (
        "Theorems (17) on a heap model: separation invariant (private arrays never known to the caller) preserved by every op, report "
        "invariant under any sequence of reads and writes (isolated), decode-encode round trip through all three branches, lumped round "
        "trip under a consistent lumping, counters, re-construction identity. Correspondence: random op histories (accessors, writes "
        "into returned arrays and constructor arguments, re-construction) on real StateTraj/LumpedStateTraj objects, every returned "
        "value compared with the model trace.",
        "numpy aliasing is executed, not modelled; the caller reaches private arrays only through public accessors",
        "Lean invariant proof over op sequences + history differential"),
    "C03": (
        "Theorems (12): the Gauss-Jordan inverse of the model is proved correct; the model projection equals the Hummer-Szabo formula on "
        "Mathlib matrices; rows sum to 1, per-macrostate equilibrium sums are stationary, a singleton lumping gives the micro model (any "
        "label order), clipping + renormalising gives non-negative rows summing to 1. Correspondence: sampled ergodic chains x surjective "
        "lumpings x labels x lags x positive, entrywise within 1e-8 of the exact rational projection; TypeError iff not ergodic.",
        "floats compared by the tolerance 1e-8 of the property; np.linalg.inv / eig not modelled (exact rational model instead)",
        "Lean proof (Mathlib matrices, bridge to list model) + tolerance correspondence"),
    "C04": (
        "Theorems (12): Gauss-Jordan / stationary solver sound, stationary vector unique (certificate form and for the solver output), "
        "normalisation lemma, zero-extension of a closed class is stationary, allow_non_ergodic guard. Real outputs judged in exact "
        "rationals by Linalg.holdsPeq (sentence 1: unique aperiodic closed largest class -> exact pi within 1e-9; otherwise non-negative, "
        "sums to 1, stationary on its support).",
        "partial: the LAPACK eigen-solver is outside the model, its output is judged per input",
        "Lean proof of the algebra + exact-rational judge of the real output"),
    "C05": (
        "Theorems (25): length, labels, per-trajectory (set = map over members, errors included), tau=1, all runs >= tau, shortcut "
        "soundness, iterative = successive windows, idempotence, error iff no core, equivariance, and model_meets_spec: the model of the "
        "public API (index encoding, -1 sentinel, shortcut, stage schedule) equals the reference rule for every trajectory set. "
        "Correspondence: all trajectories over 3 labels up to length 7/10 x tau 1..5 x both modes x 3 alphabets through the public API + "
        "random ragged sets/forms.",
        "LabelGuard for the index encoding",
        "Lean proof (list induction) + exhaustive small-scope and random correspondence"),
    "C06": (
        "Theorems (30): automaton events = declarative spec events (sound and complete), per-trajectory concatenation, open events "
        "dropped, loop-erased path = chronological loop erasure from the last start frame, path shape (head/last/Nodup/adjacent), the "
        "dictionary partitions the events, sorted-merge intersection correct, rejection iff overlap/absent. Correspondence: all "
        "trajectories over 4 labels up to length 5/7 x all disjoint (S,F) + random sets + malformed stream.",
        "order inside a pathway bucket is free",
        "Lean proof + exhaustive small-scope and random correspondence"),
    "C07": (
        "Theorems (26): the inverse-CDF step maps exactly [c_{k-1},c_k) to position k; for the exact cumulative row each state gets an "
        "interval of length T_ij, zero-probability states are never sampled (also for any float matrix accepted by the oracle), every u "
        "in [0,1) is mapped, robustness to eps-perturbed breakpoints, chain length/head/prefix/determinism. Correspondence by exact "
        "coupling: the compiled generator is driven with chosen draws (breakpoints and their float neighbours, 0, 1-2^-53), the real "
        "cumulative matrix is judged against exact cumulative sums (n*2^-53).",
        "IEEE floats enter as exact dyadics; numba RNG state injection self-checked",
        "Lean proof over Q + exact coupling via RNG injection"),
    "C08": (
        "Theorems (16): waiting-time loop = histogram of the md events of the realised chain, transition-time loop = last-visit rule, "
        "histogram fold correct, list sorted and a permutation of the expansion, density integrates to 1 with edges k*tau. "
        "Correspondence by exact coupling (injected draws): list, density, edges and msm pathways must equal the model on the realised "
        "chain; the cumulative matrix is judged against the exact model.",
        "partial: the distributional clause (first-passage law of T) is a prose corollary of C07.step_interval and "
        "C08.wt_is_md_events, not formalised",
        "Lean proof of the event logic + exact coupling"),
    "C09": (
        "Theorems (5): time grid lemma (multiples of tau up to tmax, none beyond, empty iff tau>tmax), powers of sub-stochastic matrices "
        "stay in [0,1], curve shapes, reference grid predicate. Correspondence: plain and lumped sets, lag lists in any order, model "
        "curves vs exact rational powers (1e-9; 1e-6 for HS), reference values at the grid's own times vs exact estimates, flags vs "
        "exact predicates.",
        "partial: geomspace rounding of the reference grid is free in the property; the composition is checked, not proved",
        "Lean proof of grid/power lemmas + exact-rational judge"),
    "C10": (
        "Theorems (16): -tau/ln(lambda) positive and antitone on (0,1), complex case positive for |z|<1 and zero real part on the unit "
        "circle, the decision logic of the repaired code is admissible for what the property requires for every eigenvalue, oracle unfold "
        "lemmas. Real rows judged entry by entry (NaN / positive / value) from the eigenvalues the library solver returned; solver "
        "validated by residuals and ordering.",
        "partial: LAPACK validated per input; the numerical value of the logarithm is evaluated in floating point by the harness",
        "Lean proof (Mathlib Real.log / Complex.log) + per-entry judge"),
    "C11": (
        "Theorems (12): counts additive over sets, permutation invariant, cut law with the exact straddle count, state list / spec "
        "matrices / model estimate invariant under permutation; plus the per-trajectory theorems of C05/C06. Correspondence: ragged sets "
        "(length 1, shorter than the lag), permutations, every cut, over estimate / coring / waiting times / paths / similarity against the "
        "Lean models; implied timescales, CK test and cummat identical under permutation.",
        "as C01/C05/C06/C13",
        "Lean proof + metamorphic and model correspondence"),
    "C12": (
        "Theorems (9): exact sums permutation invariant; forward error bound for EVERY summation tree; (1+u)^N-1 < 1.2e-11 for N<=1e5; "
        "two schedules differ by < 1e-9. Correspondence: five configurations (JIT 16/1/2/3 threads, NUMBA_DISABLE_JIT=1) over the "
        "streams of C01/C03/C05/C06/C09/C10/C13 + utilities, each compared with the first and the first with the configuration-free Lean "
        "model; error kinds compared.",
        "partial: numba scheduler/typing executed, not modelled; the rounding model fl(a+b)=(a+b)(1+d) is an assumption",
        "Lean proof of the reduction-order bound + cross-configuration differential"),
    "C13": (
        "Theorems (26): merge count = n_ij, model = both contingency formulas, range [0,1], identical = 1, symmetric >= directed, swap "
        "symmetry, refinement <-> directed = 1, rename and joint frame-permutation invariance, flatness, rejection, compare_eq_spec. "
        "Correspondence: all labeling pairs of <=4/6 frames with <=3 states + random up to 1e5 frames, rare states, thread counts "
        "1,2,3,16; value within 1e-9 of the exact formula.",
        "tolerance 1e-9 justified by C12.two_schedules",
        "Lean proof + exhaustive small-scope and random correspondence"),
    "C14": (
        "Theorems (23): power entries positive iff walks exist (support only), ergodic => strongly connected and aperiodic (sound), and "
        "COMPLETE for every n: Wielandt's bound (primitive => the ((n-1)^2+1)-th power is positive) is proved in general; ergodic => "
        "fuzzy ergodic, trap extension, non-stochastic => neither, the mask marks maximal mutually reachable sets; stationary vector "
        "unique for irreducible matrices. Correspondence: every 0..2 count matrix n=2,3, Wielandt extremal matrices n=2..8, cycles, "
        "reducible structures, non-stochastic/non-square; judged by a graph oracle (classes, closedness, period) in Lean.",
        "inputs whose power entries are within a factor 10 of the 1e-8 threshold are skipped and counted",
        "Lean proof (incl. Wielandt's theorem) + exhaustive/random correspondence"),
    "C15": (
        "Theorems (27): shift_data = simultaneous substitution under the documented guard, swaps/cycles, structure preserved, "
        "rename_by_index = ranks with perm[renamed]=data, rename_by_population for ANY sorting permutation (ties free), unique. "
        "Correspondence: lists, 1-d/2-d (C and F order, transposed views), ragged containers, labels up to 1e6, "
        "partial/non-injective/duplicate maps.",
        "outside the documented guard nothing is demanded (counted)",
        "Lean proof + differential correspondence"),
    "C16": (
        "Theorems (14): read(write(hdr, tbl)) = tbl for every header text and both formats, digits/format/parse round trip, tokeniser "
        "inverse of join, header lines are comments, usecols sort-and-swap-back returns the requested order, limits split lengths and "
        "concatenation, rejection iff sums differ, dtype decision. Correspondence: real FILE BYTES = model text; model parse of real "
        "files = real reader; column permutations, nrows, limits compositions, dtype variants, hand-formatted files.",
        "partial: pandas/numpy tokenising and %-formatting modelled by contract and validated on every file",
        "Lean proof on a byte-level contract model + file differential"),
    "C17": (
        "Theorems (17): a strictly increasing relabelling leaves state ranks, index trajectories, counts and T unchanged; an injective "
        "relabelling permutes T consistently; coring, events, waiting times, pathways and similarities are equivariant/invariant (also "
        "through the public-API models). Correspondence: every applicable container form x dtypes (mixed widths, first array narrowest, "
        ">127 states) x function/method must give the single Lean-model answer; relabelled inputs.",
        "forms are definitional in the model (the harness converts); LabelGuard",
        "Lean proof of relabelling laws + representation differential"),
    "C18": (
        "Theorems (6) on the heap model: no non-write op changes any allocated array, accessor values are a function of the private "
        "contents, repeated access returns the same value after any constructor-free history. Correspondence: random call histories over "
        "~28 public functions on shared arguments (incl. a shared StateTraj and an unsorted lag ndarray) with reseeding of the Python, "
        "NumPy and compiled generators; argument snapshots and repeated calls. Static obligation: no function of the package writes through a "
        "parameter (alias analysis harness/argwrites.py over all 134 functions of the working tree, evidence static_checks).",
        "partial: the heap theorems are thin (analyses are readers in the model); the assurance is the history differential, the static argument-write analysis and, for the sampling kernels, the refinement theorems (result = function of arguments and draw stream)",
        "Lean invariant on the heap model + call-history differential + static argument-write analysis"),
    "C19": (
        "Theorems (5): chunking (flatten = list, none empty, all but last of size c, count = ceil), the cored file has one row per frame, "
        "limits are processed piece by piece (no cross-boundary coring), single-piece law. Correspondence: real commands through click "
        "CliRunner on generated files, outputs compared with the API on the loaded data and (coring) with the Lean file-plumbing model; "
        "_split_array vs TextIO.chunks exhaustively.",
        "partial: Gaussian values come from the API (C20), figures not modelled",
        "Lean proof of plumbing/chunking + CLI differential"),
    "C20": (
        "Theorems (11): filter linear, constants fixed, min/max bounds (convex combination), commutes with reversal for symmetric "
        "kernels, columns never mix, shape preserved; running mean length, w=1 identity, convolve(same) = documented centred window. "
        "Correspondence: real output within 1e-12(1+local |x|) of the exact rational weighted sum with the real filter's impulse response "
        "as weights; several sigmas per process.",
        "partial: kernel weights are a parameter (validated against exp(-k^2/2s^2) in Python)",
        "Lean proof + exact-rational correspondence"),
}
