"""pins — the CONTEXT of the translated functions that the translator does not read, pinned and compared on every run.

The translator turns function BODIES into Lean.  What a body means also depends on text outside it:
  * the decorators of the function (`@numba.njit`, `@numba.njit(parallel=True)`, `@property`, `@decorit.alias(..)`; a `fastmath=True`, a cache
    decorator or a missing `@property` changes behaviour without touching the body),
  * the module's import statements that bind a name the translated functions read (which function the name `intersect`, `tests.is_ergodic`, `linalg.left_eigenvalues` … is bound to — the translator
    resolves such names through its cross-reference table, i.e. by NAME),
  * other module-level bindings of such names (constants, aliases such as `estimator = _estimate_waiting_times`; a later re-binding that shadows an import),
  * for methods: the base classes of the class and its `__new__`.
`harness/pins.json` (generated once by `python3 harness/pins.py --write` on the unchanged tree, committed) records these texts for every file that
contains a translated function.  `check(repo)` compares the working tree with them; any difference is reported as a translator problem for the modules
generated from that file (→ the functions are "no longer translated", an undischarged obligation that starts the failing-input search).  Like the
rest of the translator this is a syntactic tie, not a theorem; a harmless edit (a new import) also trips it, which is the prescribed behaviour."""
import ast
import json
import os

HERE = os.path.dirname(os.path.abspath(__file__))
PINS = os.path.join(HERE, 'pins.json')


def translated_index():
    """{relfile: {(cls or None, function name), …}} and {relfile: [Gen module names]}"""
    import np2lean
    import py2lean
    idx, mods = {}, {}
    for rel, ns, funcs in py2lean.KERNELS:
        for name, _sig in funcs:
            idx.setdefault(rel, set()).add((None, name))
        mods.setdefault(rel, set()).add(ns)
    for rel, ns, cls, funcs in np2lean.NP_KERNELS:
        for name, _sig in funcs:
            idx.setdefault(rel, set()).add((cls, name))
        mods.setdefault(rel, set()).add(ns)
    return idx, mods


def context_of(path, wanted):
    """the pinned texts of one source file"""
    src = open(path).read()
    tree = ast.parse(src)
    out = {'imports': [], 'module_bindings': [], 'decorators': {}, 'classes': {}}
    # the free names the translated functions (and their decorators) read: only statements that bind one of them are pinned
    used = set()
    for n in tree.body:
        fns_ = []
        if isinstance(n, ast.FunctionDef) and (None, n.name) in wanted:
            fns_ = [n]
        elif isinstance(n, ast.ClassDef):
            fns_ = [m for m in n.body if isinstance(m, ast.FunctionDef) and ((n.name, m.name) in wanted or m.name == '__new__')]
            if fns_:
                for b in n.bases:
                    used |= {x.id for x in ast.walk(b) if isinstance(x, ast.Name)}
        for f in fns_:
            used |= {x.id for x in ast.walk(f) if isinstance(x, ast.Name)}

    def binds(st):
        names = set()
        for x in ast.walk(st):
            if isinstance(x, ast.Import):
                names |= {(a.asname or a.name.split('.')[0]) for a in x.names}
            elif isinstance(x, ast.ImportFrom):
                names |= {(a.asname or a.name) for a in x.names}
            elif isinstance(x, ast.Name) and isinstance(x.ctx, (ast.Store, ast.Del)):
                names.add(x.id)
        return names
    for n in tree.body:
        if isinstance(n, (ast.Import, ast.ImportFrom)):
            if binds(n) & used or any(a.name == '*' for a in n.names):
                out['imports'].append(ast.unparse(n))
        elif isinstance(n, (ast.Assign, ast.AugAssign, ast.AnnAssign, ast.Delete)):
            if binds(n) & used:
                out['module_bindings'].append(ast.unparse(n))
        elif isinstance(n, (ast.If, ast.Try, ast.With, ast.For, ast.While)):
            if binds(n) & used:
                out['module_bindings'].append(ast.unparse(n))       # conditional imports / bindings
        elif isinstance(n, ast.FunctionDef):
            if (None, n.name) in wanted:
                out['decorators'][n.name] = [ast.unparse(d) for d in n.decorator_list]
        elif isinstance(n, ast.ClassDef):
            mine = [m for (c, m) in wanted if c == n.name]
            if not mine:
                continue
            info = {'bases': [ast.unparse(b) for b in n.bases], 'keywords': [ast.unparse(k) for k in n.keywords],
                    'class_decorators': [ast.unparse(d) for d in n.decorator_list], 'new': None, 'class_bindings': []}
            for m in n.body:
                if isinstance(m, ast.FunctionDef):
                    if m.name == '__new__':
                        info['new'] = ast.unparse(m)
                    if m.name in mine:
                        out['decorators']['%s.%s' % (n.name, m.name)] = [ast.unparse(d) for d in m.decorator_list]
                elif isinstance(m, (ast.Assign, ast.AnnAssign)):
                    info['class_bindings'].append(ast.unparse(m))
            out['classes'][n.name] = info
    # functions listed more than once in the module (a later definition silently replaces an earlier one)
    names = [n.name for n in tree.body if isinstance(n, ast.FunctionDef)]
    out['duplicate_defs'] = sorted({x for x in names if names.count(x) > 1})
    return out


def snapshot(repo):
    idx, _mods = translated_index()
    snap = {}
    for rel, wanted in sorted(idx.items()):
        path = os.path.join(repo, 'src', 'msmhelper', rel)
        snap[rel] = context_of(path, wanted)
    # the package's re-export modules decide what `mh.msm.peq`, `mh.utils.unique`, `mh.md.estimate_paths` … are
    for rel in ('__init__.py', 'msm/__init__.py', 'md/__init__.py', 'utils/__init__.py', 'msm/utils/__init__.py', 'plot/__init__.py'):
        path = os.path.join(repo, 'src', 'msmhelper', rel)
        if os.path.exists(path):
            t = ast.parse(open(path).read())
            snap['reexports:' + rel] = [ast.unparse(n) for n in t.body if not (isinstance(n, ast.Expr) and isinstance(getattr(n, 'value', None), ast.Constant))]
    return snap


def check(repo):
    """{Gen module file name: [problem, …]} for every difference between the working tree and harness/pins.json"""
    pinned = json.load(open(PINS))
    _idx, mods = translated_index()
    try:
        now = snapshot(repo)
    except (OSError, SyntaxError) as e:
        return {'*': ['context snapshot failed: %r' % (e,)]}
    probs = {}

    def diff(a, b, what):
        if a == b:
            return []
        if isinstance(a, dict) and isinstance(b, dict):
            out = []
            for k in sorted(set(a) | set(b)):
                out += diff(a.get(k), b.get(k), '%s[%s]' % (what, k))
            return out
        if isinstance(a, list) and isinstance(b, list):
            gone = [x for x in a if x not in b]
            new = [x for x in b if x not in a]
            if not gone and not new:
                return ['%s: order changed' % what]
            return ['%s: pinned `%s` → now `%s`' % (what, ' | '.join(str(x)[:120] for x in gone) or '—', ' | '.join(str(x)[:120] for x in new) or '—')]
        return ['%s: pinned `%s` → now `%s`' % (what, str(a)[:160], str(b)[:160])]
    reexp = []
    for key in sorted(set(pinned) | set(now)):
        d = diff(pinned.get(key), now.get(key), key)
        if not d:
            continue
        if key.startswith('reexports:'):
            reexp += d
        else:
            for ns in sorted(mods.get(key, [])):
                probs.setdefault(ns + '.lean', []).extend('context of the translated functions changed — ' + x for x in d)
    if reexp:
        for nss in mods.values():
            for ns in nss:
                probs.setdefault(ns + '.lean', []).extend('package re-exports changed — ' + x for x in reexp)
    return probs


if __name__ == '__main__':
    import sys
    repo = '/repo'
    if '--repo' in sys.argv:
        repo = sys.argv[sys.argv.index('--repo') + 1]
    if '--write' in sys.argv:
        json.dump(snapshot(repo), open(PINS, 'w'), indent=1, sort_keys=True)
        print('wrote', PINS)
    else:
        p = check(repo)
        for k, v in sorted(p.items()):
            for x in v:
                print('PROBLEM %s: %s' % (k, x))
        sys.exit(1 if p else 0)
