/-
Refine/TimesEndLemmas.lean — helper definitions and lemmas for task RP28 (property C08, first sentence): the public msm waiting / transition
time estimators END TO END, i.e. the public wrapper (`Refine/TimesPublic.lean`) ∘ `_estimate_times` (`Refine/Times.lean`) ∘ the translated
compiled kernel (`Refine/Mcmc.lean`).

* `wtOracle us`, `ttOracle us` : the translated kernels (monad `PyR`, they consume draws) as ORACLES of the public wrappers (monad `Py`): run on
  the fixed stream `us`, the unused rest of the stream is dropped;
* `idxOf ss S` : the index list the wrapper hands to the kernel (`state_to_idx` of `np.unique(S)`);
* the oracles on a well-formed cumulative matrix (value, and error when the draws run out);
* facts about the histogram fold `foldl histInsert []` (its expansion is a rearrangement of the list, emptiness, total count);
* index space = label space: the automaton run with the index lists on the index chain is the automaton run with the ORIGINAL start / final
  lists on the chain of labels.

The theorems with docstrings are in `Refine/TimesEnd.lean`.
-/
import MsmVerif.Refine.TimesPublic
import MsmVerif.Refine.Mcmc
import MsmVerif.Props.C08

namespace MsmVerif.Refine.TimesEnd
open MsmVerif MsmVerif.Gen MsmVerif.Events
open MsmVerif.Refine.Times (dictI)
open MsmVerif.Refine.Mcmc (WF permI histI)

/-! ### definitions -/

/-- the type of `_get_cummat`'s answer: cumulative matrix and permutation -/
abbrev Cummat := List (List Rat) × List (List Int)

/-- the translated WAITING-time kernel as the kernel oracle of the public wrapper: run on the fixed stream of draws `us`; the rest of the
    stream is dropped -/
def wtOracle (us : List Rat) : Cummat → Int → List Int → List Int → Int → Py PyDict :=
  fun cm c S F steps => ((Gen.MsmTimescales.estimate_waiting_times cm c S F steps).run us).map (·.1)

/-- the translated TRANSITION-time kernel as the kernel oracle of the public wrapper -/
def ttOracle (us : List Rat) : Cummat → Int → List Int → List Int → Int → Py PyDict :=
  fun cm c S F steps => ((Gen.MsmTimescales.estimate_transition_times cm c S F steps).run us).map (·.1)

/-- the index list the wrapper computes from a list of state labels: `state_to_idx` of every element of `np.unique(S)` -/
def idxOf (ss S : List Int) : List Int := (sortDedup S).map (fun x => ((rank ss x : Nat) : Int))

/-- the realised chain of the event kernels as the integer list they see -/
def chainI (cum : List (List Rat)) (perm : List (List Nat)) (c steps : Nat) (us : List Rat) : List Int :=
  (Mcmc.realised cum perm c steps us).map Int.ofNat

/-! ### the oracles on a well-formed cumulative matrix -/

theorem wtOracle_ok {cum perm n} (h : WF cum perm n) (c steps : Nat) (hc : c < n) (S F : List Int)
    (us : List Rat) (hus : steps ≤ us.length) :
    wtOracle us (cum, permI perm) (c : Int) S F (steps : Int) = .ok (dictI (msmWtLoop S F (chainI cum perm c steps us))) := by
  unfold wtOracle
  rw [Mcmc.wt_loop_refines h c steps hc S F us hus]
  rfl

theorem ttOracle_ok {cum perm n} (h : WF cum perm n) (c steps : Nat) (hc : c < n) (S F : List Int)
    (us : List Rat) (hus : steps ≤ us.length) :
    ttOracle us (cum, permI perm) (c : Int) S F (steps : Int) = .ok (dictI (msmTtLoop S F (chainI cum perm c steps us))) := by
  unfold ttOracle
  rw [Mcmc.tt_loop_refines h c steps hc S F us hus]
  rfl

theorem wtOracle_exhausted {cum perm n} (h : WF cum perm n) (c steps : Nat) (hc : c < n) (S F : List Int)
    (us : List Rat) (hus : us.length < steps) :
    wtOracle us (cum, permI perm) (c : Int) S F (steps : Int) = .error .other := by
  unfold wtOracle
  rw [Mcmc.wt_loop_exhausted h c steps hc S F us hus]
  rfl

theorem ttOracle_exhausted {cum perm n} (h : WF cum perm n) (c steps : Nat) (hc : c < n) (S F : List Int)
    (us : List Rat) (hus : us.length < steps) :
    ttOracle us (cum, permI perm) (c : Int) S F (steps : Int) = .error .other := by
  unfold ttOracle
  rw [Mcmc.tt_loop_exhausted h c steps hc S F us hus]
  rfl

/-! ### the histogram fold -/

/-- `np.repeat(keys, values)` of the histogram of `l` is a rearrangement of `l` -/
theorem expand_hist_perm (l : List Nat) : (expand (l.foldl histInsert [])).Perm l := by
  rw [List.perm_iff_count]
  intro k
  rw [count_expand, cnt_foldl_histInsert l [] k (by simp), cnt_nil, Nat.zero_add]

theorem hist_eq_nil_iff (l : List Nat) : l.foldl histInsert [] = [] ↔ l = [] := by
  constructor
  · intro h
    have := (expand_hist_perm l).length_eq
    rw [h] at this
    exact List.length_eq_zero_iff.mp this.symm
  · rintro rfl; rfl

theorem sum_snd_eq_length_expand (h : List (Nat × Nat)) : (h.map (·.2)).sum = (expand h).length := by
  induction h with
  | nil => rfl
  | cons e h ih =>
    simp only [expand, List.map_cons, List.sum_cons, List.flatten_cons, List.length_append, List.length_replicate] at ih ⊢
    rw [ih]

/-- the counts of the histogram of `l` add up to the length of `l` -/
theorem sum_counts_hist (l : List Nat) : ((l.foldl histInsert []).map (·.2)).sum = l.length := by
  rw [sum_snd_eq_length_expand, (expand_hist_perm l).length_eq]

/-- the list form of the result, as a rearrangement: ascending, and a permutation of `lag ×` the list the histogram was built from -/
theorem histList_hist (l : List Nat) (lag : Nat) :
    (histList (l.foldl histInsert []) lag).Pairwise (· ≤ ·) ∧
      (histList (l.foldl histInsert []) lag).Perm (l.map (· * lag)) :=
  ⟨histList_pairwise _ lag, (histList_perm _ lag).trans ((expand_hist_perm l).map _)⟩

theorem pairwise_map_ofNat (l : List Nat) (h : l.Pairwise (· ≤ ·)) : (l.map Int.ofNat).Pairwise (· ≤ ·) := by
  rw [List.pairwise_map]
  exact h.imp (fun hab => Int.ofNat_le.mpr hab)

/-! ### index space = label space -/

/-- for an index `i` of the duplicate-free state list: `i` is in the index list of `S` iff the label `ss[i]` is in `S` -/
theorem idxOf_contains (ss S : List Int) (hnd : ss.Nodup) (i : Nat) (hi : i < ss.length) :
    (idxOf ss S).contains (i : Int) = S.contains (labelOf ss (i : Int)) := by
  have hl : labelOf ss (i : Int) = ss[i] := by
    unfold labelOf
    rw [Int.toNat_natCast, List.getD_eq_getElem?_getD, List.getElem?_eq_getElem hi]; rfl
  rw [hl, Bool.eq_iff_iff]
  simp only [List.contains_eq_mem, decide_eq_true_eq, idxOf, List.mem_map, mem_sortDedup]
  constructor
  · rintro ⟨x, hx, hxi⟩
    have hxi' : rank ss x = i := by omega
    have : ss[i] = x := by
      subst hxi'
      exact List.getElem_idxOf hi
    rw [this]; exact hx
  · intro h
    exact ⟨ss[i], h, by rw [rank_getElem hnd hi]⟩

theorem eventsFrom_idx_label (ss S F : List Int) (hnd : ss.Nodup) (xs : List Nat) (hxs : ∀ x ∈ xs, x < ss.length)
    (a : Auto) (k : Nat) :
    eventsFrom (idxOf ss S) (idxOf ss F) a k (xs.map Int.ofNat)
      = eventsFrom S F a k ((xs.map Int.ofNat).map (labelOf ss)) := by
  induction xs generalizing a k with
  | nil => rfl
  | cons x xs ih =>
    have hx := hxs x List.mem_cons_self
    have ih' := fun a k => ih (fun y hy => hxs y (List.mem_cons_of_mem _ hy)) a k
    simp only [List.map_cons, eventsFrom, autoStep]
    have e1 := idxOf_contains ss S hnd x hx
    have e2 := idxOf_contains ss F hnd x hx
    rw [show Int.ofNat x = (x : Int) from rfl, e1, e2]
    split <;> simp only [ih']

theorem ttFrom_idx_label (ss S F : List Int) (hnd : ss.Nodup) (xs : List Nat) (hxs : ∀ x ∈ xs, x < ss.length)
    (a : Auto) (k : Nat) :
    ttFrom (idxOf ss S) (idxOf ss F) a k (xs.map Int.ofNat)
      = ttFrom S F a k ((xs.map Int.ofNat).map (labelOf ss)) := by
  induction xs generalizing a k with
  | nil => rfl
  | cons x xs ih =>
    have hx := hxs x List.mem_cons_self
    have ih' := fun a k => ih (fun y hy => hxs y (List.mem_cons_of_mem _ hy)) a k
    simp only [List.map_cons, ttFrom]
    have e1 := idxOf_contains ss S hnd x hx
    have e2 := idxOf_contains ss F hnd x hx
    rw [show Int.ofNat x = (x : Int) from rfl, e1, e2]
    simp only [ih']

/-- every state of the realised chain is a valid index -/
theorem chainFrom_lt {cum perm n} (h : WF cum perm n) (s : Nat) (hs : s < n) (us : List Rat) :
    ∀ x ∈ Mcmc.chainFrom cum perm s us, x < n := by
  induction us generalizing s with
  | nil => simp [Mcmc.chainFrom]
  | cons u us ih =>
    intro x hx
    simp only [Mcmc.chainFrom, List.mem_cons] at hx
    have hlt := Mcmc.step_lt cum perm n h s hs u
    rcases hx with rfl | hx
    · exact hlt
    · exact ih _ hlt x hx

theorem realised_lt {cum perm n} (h : WF cum perm n) (c steps : Nat) (hc : c < n) (us : List Rat) :
    ∀ x ∈ Mcmc.realised cum perm c steps us, x < n :=
  chainFrom_lt h c hc _

/-! ### closed form of the list result; members of the index lists -/

theorem mergeSort_pairwise_nat (l : List Nat) : (l.mergeSort (· ≤ ·)).Pairwise (· ≤ ·) := by
  have := List.pairwise_mergeSort (le := fun (a b : Nat) => decide (a ≤ b))
    (by intro a b c; simp only [decide_eq_true_eq]; omega)
    (by intro a b; simp only [Bool.or_eq_true, decide_eq_true_eq]; omega) l
  exact this.imp (fun h => by simpa using h)

/-- closed form of the list result: the sorted list, times the lag time -/
theorem histList_hist_eq (l : List Nat) (lag : Nat) :
    histList (l.foldl histInsert []) lag = (l.mergeSort (· ≤ ·)).map (· * lag) := by
  rw [histList_eq]
  congr 1
  exact List.Perm.eq_of_pairwise (le := (· ≤ ·)) (fun _ _ _ _ h1 h2 => Nat.le_antisymm h1 h2)
    (mergeSort_pairwise_nat _) (mergeSort_pairwise_nat _)
    ((List.mergeSort_perm _ _).trans ((expand_hist_perm l).trans (List.mergeSort_perm _ _).symm))

/-- a member of the index list of `F ⊆ ss` is a natural number below `|ss|`, and its label is in `F` -/
theorem idxOf_mem (ss F : List Int) (hF : ∀ x ∈ F, x ∈ ss) (ci : Int) (h : ci ∈ idxOf ss F) :
    ∃ c : Nat, ci = (c : Int) ∧ c < ss.length ∧ labelOf ss ci ∈ F := by
  simp only [idxOf, List.mem_map, mem_sortDedup] at h
  obtain ⟨x, hx, rfl⟩ := h
  refine ⟨rank ss x, rfl, rank_lt (hF x hx), ?_⟩
  have hlt : List.idxOf x ss < ss.length := rank_lt (hF x hx)
  unfold labelOf rank
  rw [Int.toNat_natCast, List.getD_eq_getElem?_getD, List.getElem?_eq_getElem hlt, Option.getD_some,
    List.getElem_idxOf hlt]
  exact hx

/-- disjoint label sets have disjoint index lists -/
theorem idxOf_disjoint (ss S F : List Int) (hd : ∀ x ∈ S, x ∉ F) (hS : ∀ x ∈ S, x ∈ ss) :
    ∀ i ∈ idxOf ss S, i ∉ idxOf ss F := by
  intro i hi hi'
  simp only [idxOf, List.mem_map, mem_sortDedup] at hi hi'
  obtain ⟨x, hx, rfl⟩ := hi
  obtain ⟨y, hy, hxy⟩ := hi'
  have : x = y := rank_inj (hS x hx) (by omega)
  subst this
  exact hd x hx hy
/-! ### the density of the histogram of a list -/

theorem foldl_max_mem (l : List Nat) (a : Nat) : l.foldl max a = a ∨ l.foldl max a ∈ l := by
  induction l generalizing a with
  | nil => exact Or.inl rfl
  | cons y l ih =>
    rw [List.foldl_cons]
    rcases ih (max a y) with h | h
    · rw [h]
      rcases Nat.le_total a y with hay | hay
      · exact Or.inr (by rw [Nat.max_eq_right hay]; exact List.mem_cons_self)
      · exact Or.inl (Nat.max_eq_left hay)
    · exact Or.inr (List.mem_cons_of_mem _ h)

theorem foldl_max_congr (l1 l2 : List Nat) (h : ∀ x, x ∈ l1 ↔ x ∈ l2) : l1.foldl max 0 = l2.foldl max 0 := by
  apply Nat.le_antisymm
  · rcases foldl_max_mem l1 0 with h1 | h1
    · rw [h1]; exact Nat.zero_le _
    · exact (Events.foldl_max_ge l2 0).2 _ ((h _).mp h1)
  · rcases foldl_max_mem l2 0 with h1 | h1
    · rw [h1]; exact Nat.zero_le _
    · exact (Events.foldl_max_ge l1 0).2 _ ((h _).mpr h1)

/-- the largest key of the histogram of `l` is the largest element of `l` -/
theorem maxKey_hist (l : List Nat) : ((l.foldl histInsert []).map (·.1)).foldl max 0 = l.foldl max 0 :=
  foldl_max_congr _ _ (fun x => by rw [mem_keys_foldl_histInsert]; simp)

/-- **the density of the histogram of a non-empty list of durations `l`**, lag time `≥ 1`: it integrates to one; there is one bin per duration
    `0 … max l` and one edge more, the edges are the consecutive multiples of the lag time; bin `k` times the lag time is the fraction of the
    elements of `l` equal to `k`. -/
theorem density_hist (l : List Nat) (lag : Nat) (hlag : 0 < lag) (hl : l ≠ []) :
    (((histDensity (l.foldl histInsert []) lag).1).map (· * (lag : Rat))).sum = 1 ∧
    (histDensity (l.foldl histInsert []) lag).1.length = l.foldl max 0 + 1 ∧
    (histDensity (l.foldl histInsert []) lag).2 = (List.range (l.foldl max 0 + 2)).map (· * lag) ∧
    ∀ k, k ≤ l.foldl max 0 →
      ((histDensity (l.foldl histInsert []) lag).1)[k]?.map (· * (lag : Rat)) = some ((l.count k : Rat) / (l.length : Rat)) := by
  have hpos : 0 < ((l.foldl histInsert []).map (·.2)).sum := by
    rw [sum_counts_hist]; exact List.length_pos_iff.mpr hl
  refine ⟨C08.density _ lag hlag hpos, ?_, ?_, ?_⟩
  · rw [histDensity_eq]
    simp only [List.length_map, pts, List.length_range, maxKey, maxKey_hist]
  · rw [← maxKey_hist l]; exact (C08.density_shape _ lag).2.1
  · intro k hk
    rw [C08.density_bin _ lag k hlag (by rw [maxKey_hist]; exact hk), sum_counts_hist]
    have := cnt_foldl_histInsert l [] k (by simp)
    rw [cnt_nil, Nat.zero_add] at this
    unfold cnt at this
    rw [this]
end MsmVerif.Refine.TimesEnd
