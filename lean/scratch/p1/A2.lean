import MsmVerif.Model.Basic
namespace MsmVerif

/-! ### minimum? / maximum? -/

theorem foldl_min_le (l : List Int) (a : Int) :
    l.foldl min a ≤ a ∧ ∀ x ∈ l, l.foldl min a ≤ x := by
  induction l generalizing a with
  | nil => simp
  | cons y ys ih =>
    simp only [List.foldl_cons, List.mem_cons, forall_eq_or_imp]
    have h := ih (min a y)
    refine ⟨by omega, by omega, h.2⟩

theorem foldl_min_mem (l : List Int) (a : Int) :
    l.foldl min a = a ∨ l.foldl min a ∈ l := by
  induction l generalizing a with
  | nil => simp
  | cons y ys ih =>
    simp only [List.foldl_cons, List.mem_cons]
    rcases ih (min a y) with h | h
    · rw [h]; omega
    · exact Or.inr (Or.inr h)

theorem foldl_max_ge (l : List Int) (a : Int) :
    a ≤ l.foldl max a ∧ ∀ x ∈ l, x ≤ l.foldl max a := by
  induction l generalizing a with
  | nil => simp
  | cons y ys ih =>
    simp only [List.foldl_cons, List.mem_cons, forall_eq_or_imp]
    have h := ih (max a y)
    refine ⟨by omega, by omega, h.2⟩

theorem foldl_max_mem (l : List Int) (a : Int) :
    l.foldl max a = a ∨ l.foldl max a ∈ l := by
  induction l generalizing a with
  | nil => simp
  | cons y ys ih =>
    simp only [List.foldl_cons, List.mem_cons]
    rcases ih (max a y) with h | h
    · rw [h]; omega
    · exact Or.inr (Or.inr h)

theorem minimum?_spec {l : List Int} {m : Int} (h : minimum? l = some m) :
    m ∈ l ∧ ∀ x ∈ l, m ≤ x := by
  cases l with
  | nil => simp [minimum?] at h
  | cons y ys =>
    simp only [minimum?, Option.some.injEq] at h
    subst h
    have h1 := foldl_min_le ys y
    have h2 := foldl_min_mem ys y
    simp only [List.mem_cons, forall_eq_or_imp]
    exact ⟨h2, h1⟩

theorem maximum?_spec {l : List Int} {m : Int} (h : maximum? l = some m) :
    m ∈ l ∧ ∀ x ∈ l, x ≤ m := by
  cases l with
  | nil => simp [maximum?] at h
  | cons y ys =>
    simp only [maximum?, Option.some.injEq] at h
    subst h
    have h1 := foldl_max_ge ys y
    have h2 := foldl_max_mem ys y
    simp only [List.mem_cons, forall_eq_or_imp]
    exact ⟨h2, h1⟩

theorem minimum?_isSome {l : List Int} (h : l ≠ []) : ∃ m, minimum? l = some m := by
  cases l with
  | nil => exact absurd rfl h
  | cons y ys => exact ⟨_, rfl⟩

theorem maximum?_isSome {l : List Int} (h : l ≠ []) : ∃ m, maximum? l = some m := by
  cases l with
  | nil => exact absurd rfl h
  | cons y ys => exact ⟨_, rfl⟩

/-! ### wrap32 -/

theorem wrap32_of_range {v : Int} (h0 : -2147483648 ≤ v) (h1 : v < 2147483648) : wrap32 v = v := by
  unfold wrap32; omega

/-! ### assignAll -/

theorem assignAll_eq_foldl (ps : List (Int × Int)) (conv : List Int)
    (h : ∀ p ∈ ps, 0 ≤ p.1 ∧ p.1 < conv.length) :
    assignAll conv ps = some (ps.foldl (fun c p => c.set p.1.toNat p.2) conv) := by
  induction ps generalizing conv with
  | nil => rfl
  | cons p ps ih =>
    obtain ⟨o, v⟩ := p
    have hp := h (o, v) (List.mem_cons_self)
    simp only at hp
    simp only [assignAll, normIdx, hp.1, hp.2, if_true, List.foldl_cons]
    apply ih
    intro q hq
    simpa using h q (List.mem_cons_of_mem _ hq)

theorem getD_foldl_set (ps : List (Int × Int)) (conv : List Int) (i : Nat) (hi : i < conv.length) :
    (ps.foldl (fun c p => c.set p.1.toNat p.2) conv).getD i 0
      = ps.foldl (fun acc p => if p.1.toNat = i then p.2 else acc) (conv.getD i 0) := by
  induction ps generalizing conv with
  | nil => rfl
  | cons p ps ih =>
    simp only [List.foldl_cons]
    rw [ih _ (by simpa using hi)]
    congr 1
    simp only [List.getD_eq_getElem?_getD, List.getElem?_set]
    split
    · next h => subst h; simp [hi]
    · rfl

/-- `subst old new x` : `new[k]` for the LAST `k` with `old[k] = x` (pairs beyond the shorter list are
ignored), and `x` itself when `x` does not occur in `old`. -/
def subst (old new : List Int) (x : Int) : Int :=
  (old.zip new).foldl (fun acc p => if p.1 = x then p.2 else acc) x

theorem foldl_shift (old new : List Int) (off x a : Int) (hx : off ≤ x) (ho : ∀ o ∈ old, off ≤ o) :
    ((old.map (· - off)).zip (new.map (· - off))).foldl
        (fun acc p => if p.1.toNat = (x - off).toNat then p.2 else acc) (a - off)
      = (old.zip new).foldl (fun acc p => if p.1 = x then p.2 else acc) a - off := by
  induction old generalizing new a with
  | nil => simp
  | cons o os ih =>
    cases new with
    | nil => simp
    | cons n ns =>
      simp only [List.map_cons, List.zip_cons_cons, List.foldl_cons]
      have ho' := ho o List.mem_cons_self
      have : ((o - off).toNat = (x - off).toNat) ↔ o = x := by omega
      by_cases hox : o = x
      · simp only [hox, if_true]
        exact ih ns n (fun o' h' => ho o' (List.mem_cons_of_mem _ h'))
      · simp only [this, hox, if_false]
        exact ih ns a (fun o' h' => ho o' (List.mem_cons_of_mem _ h'))

theorem foldl_subst_mem (ps : List (Int × Int)) (x a : Int) :
    ps.foldl (fun acc p => if p.1 = x then p.2 else acc) a = a ∨
    ∃ p ∈ ps, ps.foldl (fun acc p => if p.1 = x then p.2 else acc) a = p.2 := by
  induction ps generalizing a with
  | nil => simp
  | cons p ps ih =>
    simp only [List.foldl_cons, List.mem_cons]
    rcases ih (if p.1 = x then p.2 else a) with h | ⟨q, hq, h⟩
    · rw [h]; split
      · exact Or.inr ⟨p, Or.inl rfl, rfl⟩
      · exact Or.inl rfl
    · exact Or.inr ⟨q, Or.inr hq, h⟩

theorem subst_eq_or_mem (old new : List Int) (x : Int) :
    subst old new x = x ∨ subst old new x ∈ new := by
  rcases foldl_subst_mem (old.zip new) x x with h | ⟨p, hp, h⟩
  · exact Or.inl h
  · right
    unfold subst
    rw [h]
    exact (List.of_mem_zip (a := p.1) (b := p.2) hp).2

/-- core form of `shiftFlat_eq_subst`, with the extrema named explicitly -/
theorem shiftFlat_eq_subst' {data old new : List Int} {dmin nmin dmax : Int}
    (hdmin : minimum? data = some dmin) (hnmin : minimum? new = some nmin)
    (hdmax : maximum? data = some dmax)
    (hlen : old.length = new.length)
    (hold : ∀ o ∈ old, min dmin nmin ≤ o ∧ o ≤ dmax)
    (h32 : ∀ x, x ∈ data ∨ x ∈ new → x - min dmin nmin < 2147483648) :
    shiftFlat data old new = .ok (data.map (subst old new)) := by
  have hdmin' := minimum?_spec hdmin
  have hnmin' := minimum?_spec hnmin
  have hdmax' := maximum?_spec hdmax
  unfold shiftFlat
  simp only [hdmin, hnmin, hdmax, hlen, ne_eq, not_true_eq_false, if_false]
  rw [assignAll_eq_foldl]
  · simp only [Except.ok.injEq]
    apply List.map_congr_left
    intro x hx
    have hx0 : min dmin nmin ≤ x := by have := hdmin'.2 x hx; omega
    have hx1 : x ≤ dmax := hdmax'.2 x hx
    rw [getD_foldl_set]
    · have hget : ((List.range (dmax - min dmin nmin + 1).toNat).map (fun (i : Nat) => (i : Int))).getD
          (x - min dmin nmin).toNat 0 = x - min dmin nmin := by
        rw [List.getD_eq_getElem?_getD, List.getElem?_map, List.getElem?_range (by omega)]
        simp only [Option.map_some, Option.getD_some]
        omega
      rw [hget, foldl_shift old new _ x x hx0 (fun o ho => (hold o ho).1)]
      show wrap32 (subst old new x - min dmin nmin) + min dmin nmin = subst old new x
      have hb : min dmin nmin ≤ subst old new x ∧ subst old new x - min dmin nmin < 2147483648 := by
        rcases subst_eq_or_mem old new x with h | h
        · rw [h]; exact ⟨hx0, h32 x (Or.inl hx)⟩
        · refine ⟨?_, h32 _ (Or.inr h)⟩
          have := hnmin'.2 _ h; omega
      rw [wrap32_of_range (by omega) hb.2]; omega
    · simp only [List.length_map, List.length_range]; omega
  · intro p hp
    simp only [List.length_map, List.length_range]
    obtain ⟨o, v⟩ := p
    have := (List.of_mem_zip hp).1
    simp only [List.mem_map] at this
    obtain ⟨o', ho', rfl⟩ := this
    have := hold o' ho'
    simp only
    omega

/-- `shift_data` is "replace by the lookup table": under the documented guard of the real code (data and
`new` non-empty, same number of old and new values, every old value between the table offset
`min (min data) (min new)` and `max data`) and if all values involved lie in a window `[lo, hi]` narrower
than `2^31` (so the `int32` cast is harmless), the result is `data.map (subst old new)`. -/
theorem shiftFlat_eq_subst {data old new : List Int} {lo hi : Int}
    (hdata : data ≠ []) (hnew : new ≠ []) (hlen : old.length = new.length)
    (hlow : ∀ o ∈ old, ∃ y, (y ∈ data ∨ y ∈ new) ∧ y ≤ o)
    (hhigh : ∀ o ∈ old, ∃ y ∈ data, o ≤ y)
    (hwin : ∀ x, x ∈ data ∨ x ∈ new → lo ≤ x ∧ x ≤ hi) (hrange : hi - lo < 2147483648) :
    shiftFlat data old new = .ok (data.map (subst old new)) := by
  obtain ⟨dmin, hdmin⟩ := minimum?_isSome hdata
  obtain ⟨nmin, hnmin⟩ := minimum?_isSome hnew
  obtain ⟨dmax, hdmax⟩ := maximum?_isSome hdata
  have hdmin' := minimum?_spec hdmin
  have hnmin' := minimum?_spec hnmin
  have hdmax' := maximum?_spec hdmax
  apply shiftFlat_eq_subst' hdmin hnmin hdmax hlen
  · intro o ho
    obtain ⟨y, hy, hyo⟩ := hlow o ho
    obtain ⟨z, hz, hoz⟩ := hhigh o ho
    have := hdmax'.2 z hz
    rcases hy with hy | hy
    · have := hdmin'.2 y hy; omega
    · have := hnmin'.2 y hy; omega
  · intro x hx
    have h1 := (hwin x hx).2
    have h2 := (hwin dmin (Or.inl hdmin'.1)).1
    have h3 := (hwin nmin (Or.inr hnmin'.1)).1
    omega

end MsmVerif
