/-
Refine/PeqTransfer.lean — task RP38 (properties C04 and C20): the laws of `Props/C04.lean` and `Props/C20.lean` stated DIRECTLY about the
TRANSLATED public functions
  * `Gen.MsmNorm.equilibrium_population` (LAPACK's eigen-solver an oracle `ext` with the contract `EigContract` / `EigOk` of `Refine/Peq.lean`),
  * `Gen.UtilsFiltering.runningmean`,
  * `Gen.UtilsGauss.gaussian_filter_1d/_2d/_3d` (the scipy filters oracles with the contract of `Refine/Gauss.lean`: on the inputs concerned
    they answer the model's `filt w` / `filtTable w`, `w` the weight vector belonging to `σ`),
obtained by combining the refinement theorems ("translated = model") with the property theorems ("the model satisfies the law").

Vocabulary: `vecMat p T` is the row-vector product `p T`; `restrict T mask` = `T[np.ix_(mask, mask)]`; `rowNormalizeQ` = `row_normalize_matrix`;
`embed v mask` = zero vector with `v` written to the marked positions; `isErgodic`, `ergodicMask`, `stationary` are the (decidable, executable)
model functions of `Model/Linalg.lean` (`isErgodic`/`ergodicMask` are themselves tied to the translated `is_ergodic`/`ergodic_mask` in
`Refine/Ergodic.lean`).
-/
import MsmVerif.Refine.Peq
import MsmVerif.Refine.Small
import MsmVerif.Refine.Gauss
import MsmVerif.Props.C04
import MsmVerif.Props.C20

namespace MsmVerif.Refine.PeqTransfer
open MsmVerif MsmVerif.Gen MsmVerif.Linalg MsmVerif.Msm MsmVerif.Filter MsmVerif.Refine.Peq

/-! ### helpers -/

/-- every entry of `|v| / Σ|v|` is non-negative -/
private theorem absNormalize_nonneg (v : Vec) : ∀ x ∈ absNormalize v, 0 ≤ x := by
  intro x hx
  rw [absNormalize_def, List.map_map] at hx
  obtain ⟨a, _, rfl⟩ := List.mem_map.mp hx
  have hs : 0 ≤ (v.map npAbs).sum := sum_nonneg_of_forall (by
    intro y hy
    obtain ⟨b, _, rfl⟩ := List.mem_map.mp hy
    rw [npAbs_eq_abs]; exact abs_nonneg b)
  show 0 ≤ npAbs a / (v.map npAbs).sum
  rw [npAbs_eq_abs]
  exact div_nonneg (abs_nonneg a) hs

private theorem ok_inj {ε α : Type} {a b : α} (h : (Except.ok a : Except ε α) = .ok b) : a = b := by
  injection h

/-! ### C04, sentence 1: an accepted ergodic matrix -/

/-- C04, ergodic case, existence part (no solver hypothesis): let `T` have non-negative entries and row sums `≤ 1`, let the model's
    `is_ergodic` accept it, and let the oracle answer correctly at `T` (`EigOk`: some non-zero exact left fixed vector, any sign, any scale).
    Then `equilibrium_population(T, allow)` raises nothing and returns a vector `p` with entries `≥ 0`, `Σ p = 1` and `p T = p`. -/
theorem peq_ergodic_probability (ext : Oracle) (T : Mat) (allow : Bool) (hok : EigOk ext T)
    (hnn : ∀ r ∈ T, ∀ x ∈ r, 0 ≤ x) (hrow : ∀ r ∈ T, r.sum ≤ 1) (herg : isErgodic T = true) :
    ∃ p : Vec, Gen.MsmNorm.equilibrium_population ext T allow = .ok p ∧
      (∀ x ∈ p, 0 ≤ x) ∧ p.sum = 1 ∧ vecMat p T = p := by
  have ht := isTmat_of_isErgodic herg
  have hT := WF_of_isTmat ht
  have hsq := isSquare_of_WF hT
  have hne : T ≠ [] := by
    intro h; have := two_le_of_isTmat ht; rw [h] at this; simp at this
  obtain ⟨vals, v, rest, hext, hl, hnz, hfix⟩ := hok
  refine ⟨absNormalize v, ?_, absNormalize_nonneg v, ?_, ?_⟩
  · exact peq_case_ergodic ext T allow (by rw [Ergodic.is_ergodic_refines T hne hsq, herg]) vals v rest hext
  · have h1 := abs_fixed hT hnn hrow hl hfix
    have h2 : (v.map npAbs).sum ≠ 0 := ne_of_gt (sum_abs_pos hnz)
    exact (C04.normalize T (v.map npAbs) h1 h2).2
  · have h1 := abs_fixed hT hnn hrow hl hfix
    have h2 : (v.map npAbs).sum ≠ 0 := ne_of_gt (sum_abs_pos hnz)
    exact (C04.normalize T (v.map npAbs) h1 h2).1

/-- C04, sentence 1 (ergodic case, the full law): let `T` have non-negative entries and rows summing to 1, let the model's `is_ergodic`
    accept it and let the exact solver succeed (`stationary T = some π`; evaluated per input).  Then for EVERY oracle satisfying the contract
    `EigContract`, `equilibrium_population(T, allow)` raises nothing and its result `π` is THE probability vector with `π T = π`:
    entries `≥ 0`, `Σ π = 1`, `π T = π`, and every `y` with `y T = y`, `Σ y = 1` equals `π`. -/
theorem peq_ergodic_law (ext : Oracle) (T : Mat) (π : Vec) (allow : Bool) (hcontract : EigContract ext)
    (hnn : ∀ r ∈ T, ∀ x ∈ r, 0 ≤ x) (hrow : ∀ r ∈ T, r.sum = 1)
    (herg : isErgodic T = true) (hπ : stationary T = some π) :
    Gen.MsmNorm.equilibrium_population ext T allow = .ok π ∧
      (∀ x ∈ π, 0 ≤ x) ∧ π.sum = 1 ∧ vecMat π T = π ∧ ∀ y : Vec, vecMat y T = y → y.sum = 1 → y = π := by
  have hm := peq_ergodic_model ext T π allow hcontract hnn hrow herg hπ
  have hs := C04.equilibrium_ergodic_sound T allow π herg hm.2
  refine ⟨hm.1, ?_, hs.2.1, hs.1, hs.2.2⟩
  -- non-negativity: the returned vector is `|v| / Σ|v|` for the oracle's `v`
  have ht := isTmat_of_isErgodic herg
  have hT := WF_of_isTmat ht
  have hlπ : π.length = T.length := by rw [← hs.1]; exact length_vecMat hT π
  have hok : EigOk ext T := hcontract.fixed T (isSquare_of_WF hT) (two_le_of_isTmat ht)
    ⟨π, hlπ, exists_ne_zero_of_sum_ne_zero (by rw [hs.2.1]; exact one_ne_zero), hs.1⟩
  obtain ⟨p, hp, hp0, _, _⟩ := peq_ergodic_probability ext T allow hok hnn (fun r hr => le_of_eq (hrow r hr)) herg
  rw [hm.1] at hp
  rw [ok_inj hp]
  exact hp0

-- non-vacuity: the hypotheses hold for `Peq.exT`, `Peq.exπ` (and some oracle satisfies the contract) …
example : (∀ r ∈ exT, ∀ x ∈ r, 0 ≤ x) ∧ (∀ r ∈ exT, r.sum = 1) ∧ isErgodic exT = true ∧ stationary exT = some exπ := by
  decide +kernel
example : ∃ ext : Oracle, EigContract ext := eigContract_satisfiable
-- … and for the concrete oracle `Peq.exOracle` (answer `(-2)·π`) the call evaluates to `π`, a probability vector fixed by `T`
example : Gen.MsmNorm.equilibrium_population exOracle exT false = .ok exπ ∧ (∀ x ∈ exπ, 0 ≤ x) ∧ exπ.sum = 1 ∧ vecMat exπ exT = exπ := by
  decide +kernel

/-! ### C04, the guard: a non-ergodic matrix with `allow_non_ergodic=False` is rejected -/

/-- C04, the guard: for a non-empty square matrix which the model's `is_ergodic` does not accept,
    `equilibrium_population(T, allow_non_ergodic=False)` raises `ValueError` — for ANY oracle (the solver is never called) — and no vector is
    returned. -/
theorem peq_rejected_law (ext : Oracle) (T : Mat) (hne : T ≠ []) (hsq : isSquare T = true) (h : isErgodic T = false) :
    Gen.MsmNorm.equilibrium_population ext T false = .error .value ∧
      ∀ p : Vec, Gen.MsmNorm.equilibrium_population ext T false ≠ .ok p := by
  have h1 := peq_refused ext T hne hsq h
  exact ⟨h1, fun p hp => by rw [h1] at hp; cases hp⟩

/-- C04, the guard for arbitrary rectangular input (a non-square array is never ergodic): `ValueError` with `allow_non_ergodic=False`. -/
theorem peq_rejected_rect_law (ext : Oracle) (T : Mat) (hrect : Gen.npRect T = true) (hne : T ≠ []) (h : isErgodic T = false) :
    Gen.MsmNorm.equilibrium_population ext T false = .error .value :=
  peq_refused_rect ext T hrect hne h

/-- C04, the guard as an equivalence: for a non-empty square matrix with non-negative entries and row sums `≤ 1` and an oracle satisfying the
    contract, `equilibrium_population(T, False)` raises `ValueError` EXACTLY when the matrix is not ergodic (provided the exact solver
    succeeds in the ergodic case, so that the result is then a vector). -/
theorem peq_rejected_iff (ext : Oracle) (T : Mat) (hcontract : EigContract ext) (hne : T ≠ []) (hsq : isSquare T = true)
    (hnn : ∀ r ∈ T, ∀ x ∈ r, 0 ≤ x) (hrow : ∀ r ∈ T, r.sum ≤ 1) (hsolve : isErgodic T = true → (stationary T).isSome = true) :
    Gen.MsmNorm.equilibrium_population ext T false = .error .value ↔ isErgodic T = false := by
  constructor
  · intro he
    cases herg : isErgodic T with
    | false => rfl
    | true =>
      obtain ⟨π, hπ⟩ := Option.isSome_iff_exists.mp (hsolve herg)
      rw [peq_ergodic_refines_le ext T π false hcontract hnn hrow herg hπ] at he
      cases he
  · exact peq_refused ext T hne hsq

-- non-vacuity: a periodic 2-state matrix is refused
example : ([[0, 1], [1, 0]] : Mat) ≠ [] ∧ isSquare [[0, 1], [1, 0]] = true ∧ isErgodic [[0, 1], [1, 0]] = false := by
  decide +kernel
example : Gen.MsmNorm.equilibrium_population (fun _ _ => .error .other) [[0, 1], [1, 0]] false = .error .value := by decide +kernel

/-! ### C04, sentence 2: other accepted matrices (`allow_non_ergodic=True`) -/

/-- C04, non-ergodic case with `allow_non_ergodic=True`: let `T` be non-empty, square, with non-negative entries, not ergodic, let
    `ergodic_mask` mark more than one state (`ergodicMask T = some mask`), and let the exact solver succeed on `T` restricted to the marked
    states and row-renormalised (`stationary (rowNormalizeQ (restrict T mask)) = some v₀`).  Then for every oracle satisfying the contract
    the call raises nothing and returns `p = embed v₀ mask` where
    * `p` has entries `≥ 0`, `Σ p = 1`, and `p` is zero outside the mask,
    * `v₀` (the marked entries of `p`) is THE probability vector that is stationary for the restricted, row-renormalised matrix:
      `v₀ M = v₀`, `Σ v₀ = 1`, and it is the only such vector. -/
theorem peq_nonergodic_law (ext : Oracle) (T : Mat) (hcontract : EigContract ext) (hne : T ≠ []) (hsq : isSquare T = true)
    (hnn : ∀ r ∈ T, ∀ x ∈ r, 0 ≤ x) (h : isErgodic T = false)
    (mask : List Bool) (hmask : ergodicMask T = some mask) (h1 : (restrict T mask).length ≠ 1)
    (v₀ : Vec) (hv₀ : stationary (rowNormalizeQ (restrict T mask)) = some v₀) :
    Gen.MsmNorm.equilibrium_population ext T true = .ok (embed v₀ mask) ∧
      (∀ x ∈ embed v₀ mask, 0 ≤ x) ∧ (embed v₀ mask).sum = 1 ∧
      (∀ i, mask.getD i false = false → (embed v₀ mask).getD i 0 = 0) ∧
      vecMat v₀ (rowNormalizeQ (restrict T mask)) = v₀ ∧ v₀.sum = 1 ∧
      (∀ y : Vec, vecMat y (rowNormalizeQ (restrict T mask)) = y → y.sum = 1 → y = v₀) := by
  have hW := WF_normRestrict T mask
  have hs := C04.stationary_sound (restrict T mask).length _ v₀ hW hv₀
  have hl0 : v₀.length = (restrict T mask).length := by rw [← hs.1]; exact length_vecMat hW v₀
  have hk := one_le_length_restrict hmask
  have hmk : mask.length = T.length := length_ergodicMask hmask
  have hok : EigOk ext (rowNormalizeQ (restrict T mask)) :=
    hcontract.fixed _ (isSquare_normRestrict T mask) (by rw [length_normRestrict]; omega)
      ⟨v₀, by rw [length_normRestrict]; exact hl0, exists_ne_zero_of_sum_ne_zero (by rw [hs.2]; exact one_ne_zero), hs.1⟩
  have hres := peq_nonergodic_refines_at ext T hne hsq hnn h mask hmask h1 v₀ hv₀ hok
  refine ⟨hres, ?_, ?_, fun i hi => getD_embed_of_not v₀ mask hi, hs.1, hs.2,
    fun y hy sy => C04.stationary_unique _ _ v₀ y hW hv₀ hy sy⟩
  · obtain ⟨vals, v, rest, hext, hl, _, _⟩ := hok
    rw [length_normRestrict] at hl
    have hpl := peq_nonergodic_plumbing ext T hne hsq h mask hmask h1 vals v rest hext hl
    rw [hres] at hpl
    rw [ok_inj hpl]
    exact absNormalize_nonneg _
  · rw [sum_embed v₀ mask (by rw [hl0, length_restrict, hmk]), hs.2]

/-- C04, non-ergodic case, stationarity for `T` itself: if in addition the marked set is closed under `T` (`T_ij = 0` from a marked to an
    unmarked state) and the marked rows of `T` sum to one, the returned vector `p` is a left fixed vector of `T`: `p T = p`
    (besides `Σ p = 1` and `p = 0` outside the mask). -/
theorem peq_nonergodic_stationary_law (ext : Oracle) (T : Mat) (hcontract : EigContract ext) (hne : T ≠ []) (hsq : isSquare T = true)
    (hnn : ∀ r ∈ T, ∀ x ∈ r, 0 ≤ x) (h : isErgodic T = false)
    (mask : List Bool) (hmask : ergodicMask T = some mask) (h1 : (restrict T mask).length ≠ 1)
    (v₀ : Vec) (hv₀ : stationary (rowNormalizeQ (restrict T mask)) = some v₀)
    (hclosed : ∀ i j, i < T.length → j < T.length → mask.getD i false = true → mask.getD j false = false → entry T i j = 0)
    (hrow : ∀ i, i < T.length → mask.getD i false = true → (T.getD i []).sum = 1) :
    ∃ p : Vec, Gen.MsmNorm.equilibrium_population ext T true = .ok p ∧
      vecMat p T = p ∧ p.sum = 1 ∧ ∀ i, mask.getD i false = false → p.getD i 0 = 0 := by
  have hm := peq_nonergodic_model ext T hcontract hne hsq hnn h mask hmask h1 v₀ hv₀
  exact ⟨embed v₀ mask, hm.1, C04.equilibrium_nonergodic_sound T.length T mask _ (WF_of_isSquare hsq) h hmask hclosed hrow hm.2⟩

-- non-vacuity: `Peq.exN` (states 0, 1 closed, state 2 leaks into them) with the oracle `Peq.exOracleN`
example : exN ≠ [] ∧ isSquare exN = true ∧ (∀ r ∈ exN, ∀ x ∈ r, 0 ≤ x) ∧ isErgodic exN = false ∧
    ergodicMask exN = some [true, true, false] ∧ (restrict exN [true, true, false]).length ≠ 1 ∧
    stationary (rowNormalizeQ (restrict exN [true, true, false])) = some [2/5, 3/5] := by decide +kernel
example : Gen.MsmNorm.equilibrium_population exOracleN exN true = .ok [2/5, 3/5, 0] ∧
    embed [2/5, 3/5] [true, true, false] = [2/5, 3/5, 0] ∧ vecMat [2/5, 3/5, 0] exN = [2/5, 3/5, 0] := by decide +kernel

/-! ### C20: `runningmean` -/

/-- C20, running mean, shape: for `1 ≤ w ≤ |x|` the call raises nothing and returns a series of the input's length. -/
theorem runningmean_length_law (x : List Rat) (w : Nat) (hw : 1 ≤ w) (hwx : w ≤ x.length) :
    ∃ r, Gen.UtilsFiltering.runningmean x (w : Int) = .ok r ∧ r.length = x.length :=
  ⟨_, Small.runningmean_refines x w hw hwx, C20.rm_len x w⟩

/-- C20, running mean, window 1 is the identity (for every non-empty series). -/
theorem runningmean_one_law (x : List Rat) (hx : x ≠ []) : Gen.UtilsFiltering.runningmean x 1 = .ok x := by
  have h := Small.runningmean_refines x 1 (Nat.le_refl 1) (List.length_pos_iff.mpr hx)
  rw [C20.rm_one] at h
  exact h

/-- C20, running mean, the documented window: for `1 ≤ w ≤ |x|` the call returns a series `r` of the input's length whose entry `i` is the sum
    of the samples `x[j]` at the positions `i - w/2 ≤ j ≤ i + (w-1)/2` that lie inside the series (zeros outside), divided by `w` —
    also at the borders. -/
theorem runningmean_window_law (x : List Rat) (w : Nat) (hw : 1 ≤ w) (hwx : w ≤ x.length) :
    ∃ r, Gen.UtilsFiltering.runningmean x (w : Int) = .ok r ∧ r.length = x.length ∧
      ∀ i, i < x.length → r.getD i 0 =
        (((List.range x.length).filter (fun (j : Nat) =>
            decide ((i : Int) - ((w / 2 : Nat) : Int) ≤ (j : Int)) && decide ((j : Int) ≤ (i : Int) + (((w - 1) / 2 : Nat) : Int)))).map
          (fun j => x.getD j 0)).sum / (w : Rat) := by
  refine ⟨_, Small.runningmean_documented x w hw hwx, ?_, ?_⟩
  · rw [← C20.rm_window x w hw hwx]; exact C20.rm_len x w
  · intro i hi
    unfold runningMeanDoc
    simp only [List.getD_eq_getElem?_getD, List.getElem?_map, List.getElem?_range hi, Option.map_some, Option.getD_some]

-- non-vacuity
example : Gen.UtilsFiltering.runningmean [1, 2, 3, 4] ((3 : Nat) : Int) = .ok [1, 2, 3, 7/3] := by
  rw [Small.runningmean_refines _ 3 (by decide) (by decide)]; decide +kernel
example : Gen.UtilsFiltering.runningmean [1, 2, 3, 4] 1 = .ok [1, 2, 3, 4] := runningmean_one_law _ (by decide)

/-! ### C20: `gaussian_filter` -/

section gauss
variable (f1 : List Rat → Rat → Py (List Rat)) (f2 : List (List Rat) → Rat → Py (List (List Rat)))

/-- C20, Gaussian filter, shape (1-d): with the filter contract at `x` the result has the input's length. -/
theorem gaussian_filter_1d_shape_law (w x : List Rat) (σ : Rat) (h1 : f1 x σ = .ok (filt w x)) :
    ∃ r, Gen.UtilsGauss.gaussian_filter_1d f1 f2 x σ = .ok r ∧ r.length = x.length :=
  ⟨_, (Gauss.gaussian_filter_1d_model f1 f2 w x σ h1).1, C20.filt_length w x⟩

/-- C20, Gaussian filter, linearity: with the filter contract (the 1-d scipy filter of width `σ` is the model's `filt w` on every series), for
    two series of equal length the filtered `a•x + b•y` is `a•(filtered x) + b•(filtered y)`; no call raises. -/
theorem gaussian_filter_1d_linear_law (w : List Rat) (σ : Rat) (h1 : ∀ z, f1 z σ = .ok (filt w z))
    (x y : List Rat) (a b : Rat) (hlen : x.length = y.length) :
    ∃ rx ry, Gen.UtilsGauss.gaussian_filter_1d f1 f2 x σ = .ok rx ∧ Gen.UtilsGauss.gaussian_filter_1d f1 f2 y σ = .ok ry ∧
      Gen.UtilsGauss.gaussian_filter_1d f1 f2 (List.zipWith (· + ·) (x.map (a * ·)) (y.map (b * ·))) σ
        = .ok (List.zipWith (· + ·) (rx.map (a * ·)) (ry.map (b * ·))) := by
  refine ⟨filt w x, filt w y, ?_, ?_, ?_⟩
  · rw [Gauss.gaussian_filter_1d_eq, h1]
  · rw [Gauss.gaussian_filter_1d_eq, h1]
  · rw [Gauss.gaussian_filter_1d_eq, h1, C20.linear w x y a b hlen]

/-- C20, Gaussian filter, constants: with weights summing to 1 a constant series is mapped to itself (up to the borders). -/
theorem gaussian_filter_1d_const_law (w : List Rat) (σ : Rat) (hw : w.sum = 1) (n : Nat) (c : Rat)
    (h1 : f1 (List.replicate n c) σ = .ok (filt w (List.replicate n c))) :
    Gen.UtilsGauss.gaussian_filter_1d f1 f2 (List.replicate n c) σ = .ok (List.replicate n c) := by
  rw [Gauss.gaussian_filter_1d_eq, h1, C20.const w hw n c]

/-- C20, Gaussian filter, no overshoot: with non-negative weights summing to 1 every output sample lies in any interval `[lo, hi]` that
    contains all input samples (in particular between the minimum and the maximum of the input). -/
theorem gaussian_filter_1d_minmax_law (w x : List Rat) (σ : Rat) (lo hi : Rat) (hw0 : ∀ v ∈ w, 0 ≤ v) (hw : w.sum = 1)
    (hx : ∀ v ∈ x, lo ≤ v ∧ v ≤ hi) (h1 : f1 x σ = .ok (filt w x)) :
    ∃ r, Gen.UtilsGauss.gaussian_filter_1d f1 f2 x σ = .ok r ∧ r.length = x.length ∧ ∀ y ∈ r, lo ≤ y ∧ y ≤ hi :=
  ⟨_, (Gauss.gaussian_filter_1d_model f1 f2 w x σ h1).1, C20.filt_length w x, C20.minmax w x lo hi hw0 hw hx⟩

/-- C20, Gaussian filter on a table (2-d array, filtering along axis 0), columns never mix and the shape is kept: with the filter contract
    at the rectangular table `t` the result `r` has the shape of `t` (same number of rows, row by row the same lengths) and column `j` of `r`
    is the 1-d filter of column `j` of `t` alone. -/
theorem gaussian_filter_2d_law (w : List Rat) (t : List (List Rat)) (σ : Rat) (h2 : f2 t σ = .ok (filtTable w t))
    (hrect : ∀ row ∈ t, row.length = (t.headD []).length) :
    ∃ r, Gen.UtilsGauss.gaussian_filter_2d f1 f2 t σ = .ok r ∧ r.length = t.length ∧ r.map List.length = t.map List.length ∧
      ∀ j, j < (t.headD []).length → column r j = filt w (column t j) := by
  have h := Gauss.gaussian_filter_2d_columns f1 f2 w t σ h2
  exact ⟨_, h.1, h.2.1, (C20.filtTable_shape w t hrect).2, h.2.2⟩

/-- C20, Gaussian filter on a table, no overshoot column by column: with non-negative weights summing to 1 every sample of column `j` of the
    result lies in any interval `[lo, hi]` containing all samples of column `j` of the input (the other columns do not matter). -/
theorem gaussian_filter_2d_column_minmax_law (w : List Rat) (t : List (List Rat)) (σ : Rat) (h2 : f2 t σ = .ok (filtTable w t))
    (hw0 : ∀ v ∈ w, 0 ≤ v) (hw : w.sum = 1) (j : Nat) (hj : j < (t.headD []).length) (lo hi : Rat)
    (hx : ∀ v ∈ column t j, lo ≤ v ∧ v ≤ hi) :
    ∃ r, Gen.UtilsGauss.gaussian_filter_2d f1 f2 t σ = .ok r ∧ ∀ y ∈ column r j, lo ≤ y ∧ y ≤ hi := by
  have h := Gauss.gaussian_filter_2d_columns f1 f2 w t σ h2
  refine ⟨_, h.1, ?_⟩
  rw [h.2.2 j hj]
  exact C20.minmax w _ lo hi hw0 hw hx

/-- C20, Gaussian filter, more than two dimensions: `ValueError`, nothing is filtered. -/
theorem gaussian_filter_3d_law (a : List (List (List Rat))) (σ : Rat) :
    Gen.UtilsGauss.gaussian_filter_3d f1 f2 a σ = .error .value :=
  Gauss.gaussian_filter_3d_rejects f1 f2 a σ

end gauss

-- non-vacuity: the stand-in filters of `Refine/Gauss.lean` (weights 1/4, 1/2, 1/4) satisfy the contract
example : (∀ z, Gauss.exF1 z 1 = .ok (filt [1/4, 1/2, 1/4] z)) ∧ ([1/4, 1/2, 1/4] : List Rat).sum = 1 ∧
    (∀ v ∈ ([1/4, 1/2, 1/4] : List Rat), 0 ≤ v) := ⟨fun _ => rfl, by decide +kernel, by decide +kernel⟩
example : Gen.UtilsGauss.gaussian_filter_1d Gauss.exF1 Gauss.exF2 [0, 4, 0] 1 = .ok [1, 2, 1] := by decide +kernel
example : Gen.UtilsGauss.gaussian_filter_2d Gauss.exF1 Gauss.exF2 [[0, 8], [4, 8], [0, 8]] 1 = .ok [[1, 8], [2, 8], [1, 8]] := by decide +kernel

end MsmVerif.Refine.PeqTransfer
