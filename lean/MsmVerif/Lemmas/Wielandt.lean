/-
Lemmas/Wielandt.lean — Wielandt's bound for boolean patterns on `n ≤ 3` vertices, by kernel enumeration.

`bpow p n k` is the `k`-th boolean power of an `n × n` pattern `p` (`bent (bpow p n k) i j` iff there is a walk of length
`k` from `i` to `j`, `bent_bpow_iff_walk`).  For every pattern the enumerated check `check n p` verifies
(a) `p⁶ = p¹²`, so every boolean power `p^k` equals one of `p⁰ … p¹¹` (and one of `p⁶ … p¹¹` when `k ≥ 12`), and
(b) each of `p¹ … p¹¹` that is all-true forces `p^K` all-true, `K = (n-1)² + 1`.
`check_spec` turns (a)+(b) into "all-true at some `k ≥ 1` ⇒ all-true at `K`"; the kernel evaluates `check` on all
2 + 16 + 512 patterns with `n = 1, 2, 3` (`decide +kernel`, the 512 patterns in 8 chunks by first row, ≈ 5 s each).
-/
import MsmVerif.Lemmas.Linalg

namespace MsmVerif.Linalg

abbrev BMat := List (List Bool)

/-- boolean product `q · p` of `n × n` patterns -/
def bmulStep (p : BMat) (n : Nat) (q : BMat) : BMat :=
  (List.range n).map (fun i => (List.range n).map (fun j => (List.range n).any (fun l => bent q i l && bent p l j)))
/-- boolean identity pattern -/
def bid (n : Nat) : BMat := (List.range n).map (fun i => (List.range n).map (fun j => i == j))
/-- `k`-th boolean power of the `n × n` pattern `p` -/
def bpow (p : BMat) (n : Nat) : Nat → BMat
  | 0 => bid n
  | k + 1 => bmulStep p n (bpow p n k)
/-- all `n × n` entries are `true` -/
def allTrue (n : Nat) (q : BMat) : Bool := (List.range n).all (fun i => (List.range n).all (fun j => bent q i j))

/-- `checkFrom p n pK f q`: for the `f` patterns `q, q·p, q·p², …`: all-true implies `pK` all-true -/
def checkFrom (p : BMat) (n : Nat) (pK : BMat) : Nat → BMat → Bool
  | 0, _ => true
  | f + 1, q => (!allTrue n q || allTrue n pK) && checkFrom p n pK f (bmulStep p n q)

/-- the enumerated check for one pattern: the boolean powers repeat (`p⁶ = p¹²`) and each of `p¹ … p¹¹` that is all-true
forces `p^K` all-true -/
def check (n : Nat) (p : BMat) : Bool :=
  (bpow p n 6 == bpow p n 12) && checkFrom p n (bpow p n (wielandtExp n)) 11 (bpow p n 1)

theorem bent_map_range (n : Nat) (f : Nat → Nat → Bool) {i j : Nat} (hi : i < n) (hj : j < n) :
    bent ((List.range n).map (fun i => (List.range n).map (fun j => f i j))) i j = f i j := by
  unfold bent
  rw [getD_map_range _ _ _ hi, getD_map_range _ _ _ hj]

theorem allTrue_iff (n : Nat) (q : BMat) : allTrue n q = true ↔ ∀ i j, i < n → j < n → bent q i j = true := by
  unfold allTrue
  simp only [List.all_eq_true, List.mem_range]
  exact ⟨fun h i j hi hj => h i hi j hj, fun h i hi j hj => h i j hi hj⟩

theorem bent_bpow_iff_walk {p : BMat} {n : Nat} (hp : p.length ≤ n) (k : Nat) {i j : Nat} (hi : i < n) (hj : j < n) :
    bent (bpow p n k) i j = true ↔ Walk p k i j := by
  induction k generalizing j with
  | zero =>
    unfold bpow bid Walk
    rw [bent_map_range n (fun i j => i == j) hi hj]
    simp
  | succ k ih =>
    unfold bpow bmulStep Walk
    rw [bent_map_range n _ hi hj]
    simp only [List.any_eq_true, List.mem_range, Bool.and_eq_true]
    constructor
    · rintro ⟨l, hl, h1, h2⟩
      exact ⟨l, (ih hl).mp h1, h2⟩
    · rintro ⟨l, h1, h2⟩
      have hl : l < n := Nat.lt_of_lt_of_le (bent_lt_length h2) hp
      exact ⟨l, hl, (ih hl).mpr h1, h2⟩

theorem bpow_shift {p : BMat} {n a b : Nat} (h : bpow p n a = bpow p n b) (d : Nat) :
    bpow p n (a + d) = bpow p n (b + d) := by
  induction d with
  | zero => exact h
  | succ d ih =>
    show bmulStep p n (bpow p n (a + d)) = bmulStep p n (bpow p n (b + d))
    rw [ih]

theorem bpow_reduce {p : BMat} {n a d : Nat} (hd : 0 < d) (h : bpow p n a = bpow p n (a + d)) (k : Nat) :
    ∃ k', k' < a + d ∧ (k' = k ∨ a ≤ k') ∧ bpow p n k = bpow p n k' := by
  induction k using Nat.strongRecOn with
  | _ k ih =>
    by_cases hk : k < a + d
    · exact ⟨k, hk, Or.inl rfl, rfl⟩
    · obtain ⟨k', h1, h2, h3⟩ := ih (k - d) (by omega)
      have e : bpow p n k = bpow p n (k - d) := by
        have := bpow_shift h (k - d - a)
        have e1 : a + d + (k - d - a) = k := by omega
        have e2 : a + (k - d - a) = k - d := by omega
        rw [e1, e2] at this
        exact this.symm
      refine ⟨k', h1, ?_, e.trans h3⟩
      rcases h2 with h2 | h2
      · right; omega
      · right; exact h2

theorem checkFrom_spec {p : BMat} {n : Nat} {pK : BMat} (f s : Nat)
    (h : checkFrom p n pK f (bpow p n s) = true) (t : Nat) (ht : t < f)
    (ha : allTrue n (bpow p n (s + t)) = true) : allTrue n pK = true := by
  induction f generalizing s t with
  | zero => omega
  | succ f ih =>
    unfold checkFrom at h
    simp only [Bool.and_eq_true, Bool.or_eq_true, Bool.not_eq_eq_eq_not, Bool.not_true] at h
    cases t with
    | zero =>
      rcases h.1 with h1 | h1
      · rw [Nat.add_zero, h1] at ha; cases ha
      · exact h1
    | succ t =>
      have h2 : checkFrom p n pK f (bpow p n (s + 1)) = true := h.2
      apply ih (s + 1) h2 t (by omega)
      have : s + 1 + t = s + (t + 1) := by omega
      rw [this]; exact ha

theorem check_spec {n : Nat} {p : BMat} (h : check n p = true) (k : Nat) (hk : 1 ≤ k)
    (ha : allTrue n (bpow p n k) = true) : allTrue n (bpow p n (wielandtExp n)) = true := by
  unfold check at h
  simp only [Bool.and_eq_true, beq_iff_eq] at h
  obtain ⟨k', h1, h2, h3⟩ := bpow_reduce (a := 6) (d := 6) (by omega) h.1 k
  rw [h3] at ha
  have hk' : 1 ≤ k' := by omega
  apply checkFrom_spec 11 1 h.2 (k' - 1) (by omega)
  have : 1 + (k' - 1) = k' := by omega
  rw [this]; exact ha

/-! ### enumeration of all patterns -/

/-- all lists of length `k` with entries from `xs` -/
def allListsOf {α : Type} (xs : List α) : Nat → List (List α)
  | 0 => [[]]
  | k + 1 => (allListsOf xs k).flatMap (fun l => xs.map (fun x => x :: l))

theorem mem_allListsOf {α : Type} (xs : List α) (l : List α) (h : ∀ x ∈ l, x ∈ xs) :
    l ∈ allListsOf xs l.length := by
  induction l with
  | nil => simp [allListsOf]
  | cons y ys ih =>
    show (y :: ys) ∈ (allListsOf xs ys.length).flatMap (fun l => xs.map (fun x => x :: l))
    simp only [List.mem_flatMap, List.mem_map]
    exact ⟨ys, ih (fun x hx => h x (List.mem_cons_of_mem _ hx)), y, h y (List.mem_cons_self), rfl⟩

theorem mem_bool (b : Bool) : b ∈ [false, true] := by cases b <;> simp

/-- all `n × n` patterns -/
def allMats (n : Nat) : List BMat := allListsOf (allListsOf [false, true] n) n

theorem mem_allMats {n : Nat} {p : BMat} (h1 : p.length = n) (h2 : ∀ r ∈ p, r.length = n) : p ∈ allMats n := by
  unfold allMats
  rw [← h1]
  apply mem_allListsOf
  intro r hr
  rw [h1, ← h2 r hr]
  exact mem_allListsOf _ _ (fun b _ => mem_bool b)


/-! ### the kernel enumeration -/

theorem rows3_eq : allListsOf [false, true] 3 =
    [[false, false, false], [true, false, false], [false, true, false], [true, true, false], [false, false, true], [true, false, true], [false, true, true], [true, true, true]] := by decide

/-- all `3 × 3` patterns with first row `r` pass the check -/
def chunkOK3 (r : List Bool) : Bool := (allListsOf (allListsOf [false, true] 3) 2).all (fun l => check 3 (r :: l))

theorem chunk3_0 : chunkOK3 [false, false, false] = true := by decide +kernel
theorem chunk3_1 : chunkOK3 [true, false, false] = true := by decide +kernel
theorem chunk3_2 : chunkOK3 [false, true, false] = true := by decide +kernel
theorem chunk3_3 : chunkOK3 [true, true, false] = true := by decide +kernel
theorem chunk3_4 : chunkOK3 [false, false, true] = true := by decide +kernel
theorem chunk3_5 : chunkOK3 [true, false, true] = true := by decide +kernel
theorem chunk3_6 : chunkOK3 [false, true, true] = true := by decide +kernel
theorem chunk3_7 : chunkOK3 [true, true, true] = true := by decide +kernel

theorem check_all3 : ∀ p ∈ allMats 3, check 3 p = true := by
  intro p hp
  unfold allMats at hp
  have hp' : p ∈ (allListsOf (allListsOf [false, true] 3) 2).flatMap
      (fun l => (allListsOf [false, true] 3).map (fun x => x :: l)) := hp
  simp only [List.mem_flatMap, List.mem_map] at hp'
  obtain ⟨l, hl, r, hr, rfl⟩ := hp'
  rw [rows3_eq] at hr
  simp only [List.mem_cons, List.not_mem_nil, or_false] at hr
  rcases hr with rfl | rfl | rfl | rfl | rfl | rfl | rfl | rfl
  · exact List.all_eq_true.mp chunk3_0 l hl
  · exact List.all_eq_true.mp chunk3_1 l hl
  · exact List.all_eq_true.mp chunk3_2 l hl
  · exact List.all_eq_true.mp chunk3_3 l hl
  · exact List.all_eq_true.mp chunk3_4 l hl
  · exact List.all_eq_true.mp chunk3_5 l hl
  · exact List.all_eq_true.mp chunk3_6 l hl
  · exact List.all_eq_true.mp chunk3_7 l hl

theorem check_all2 : (allMats 2).all (check 2) = true := by decide +kernel

theorem check_all1 : (allMats 1).all (check 1) = true := by decide +kernel

/-- **Wielandt's bound for `n ≤ 3`** (enumerated): if a boolean `n × n` pattern `p` with `n ≤ 3` has, for some `k ≥ 1`,
walks of length exactly `k` between all ordered pairs of vertices (it is primitive), then it has walks of length exactly
`K = (n-1)² + 1` between all ordered pairs. -/
theorem wielandt_n_le_3 {n : Nat} (hn : n ≤ 3) {p : BMat} (h1 : p.length = n) (h2 : ∀ r ∈ p, r.length = n)
    {k : Nat} (hk : 1 ≤ k) (hw : ∀ i j, i < n → j < n → Walk p k i j) :
    ∀ i j, i < n → j < n → Walk p (wielandtExp n) i j := by
  have hc : check n p = true := by
    have hm := mem_allMats h1 h2
    have h0 : n = 0 ∨ n = 1 ∨ n = 2 ∨ n = 3 := by omega
    rcases h0 with rfl | rfl | rfl | rfl
    · have : p = [] := List.eq_nil_of_length_eq_zero h1
      subst this; decide
    · exact List.all_eq_true.mp check_all1 p hm
    · exact List.all_eq_true.mp check_all2 p hm
    · exact check_all3 p hm
  have hle : p.length ≤ n := by omega
  have ha : allTrue n (bpow p n k) = true :=
    (allTrue_iff n _).mpr (fun i j hi hj => (bent_bpow_iff_walk hle k hi hj).mpr (hw i j hi hj))
  have := (allTrue_iff n _).mp (check_spec hc k hk ha)
  exact fun i j hi hj => (bent_bpow_iff_walk hle _ hi hj).mp (this i j hi hj)

end MsmVerif.Linalg
