/-
Driver/GenCodec.lean — JSON codec for running the TRANSLATED kernels (`MsmVerif/Gen/*.lean`) from the harness.
Used by the generated `Gen/<Module>Run.lean` drivers: `{"k": "<kernel>", "args": [...], "fuel": n, "draws": [...]}` per line,
answer `{"ok": value}` / `{"err": "Kind"}` (plus `"rest"`: number of unused draws for kernels that consume randomness).
-/
import MsmVerif.Driver.JsonUtil
import MsmVerif.Gen.PyRt

open Lean

namespace MsmVerif.GenCodec
open MsmVerif.J MsmVerif.Gen

class JCodec (α : Type) where
  dec : Json → Except String α
  enc : α → Json

instance : JCodec Int := ⟨int?, ofInt⟩
instance : JCodec Bool := ⟨bool?, Json.bool⟩
instance : JCodec Rat := ⟨rat?, ofRat⟩
instance {α : Type} [JCodec α] : JCodec (List α) :=
  ⟨fun j => do (← arr? j).mapM JCodec.dec, fun l => Json.arr (l.map JCodec.enc).toArray⟩
instance {α β : Type} [JCodec α] [JCodec β] : JCodec (α × β) :=
  ⟨fun j => do
      match (← arr? j) with
      | [a, b] => return (← JCodec.dec a, ← JCodec.dec b)
      | _ => throw "pair expected",
   fun p => Json.arr #[JCodec.enc p.1, JCodec.enc p.2]⟩

/-- `null` ↔ `none` (NaN of the complex / float values `Cx`) -/
instance {α : Type} [JCodec α] : JCodec (Option α) :=
  ⟨fun j => match j with
      | Json.null => pure none
      | _ => do return some (← JCodec.dec j),
   fun o => match o with
      | none => Json.null
      | some a => JCodec.enc a⟩

def encPy {α : Type} [JCodec α] : Py α → Json
  | .ok a => Json.mkObj [("ok", JCodec.enc a)]
  | .error e => Json.mkObj [("err", Json.str e.name)]

def encPyR {α : Type} [JCodec α] (draws : List Rat) (x : PyR α) : Json :=
  match x.run draws with
  | .ok (a, rest) => Json.mkObj [("ok", JCodec.enc a), ("rest", ofNat rest.length)]
  | .error e => Json.mkObj [("err", Json.str e.name)]

structure Req where
  k : String
  args : List Json
  fuel : Nat
  draws : List Rat
  oracle : Json := Json.null

def parseReq (j : Json) : Except String Req := do
  let k ← str? (← field j "k")
  let args ← arr? (← field j "args")
  let fuel ← match j.getObjVal? "fuel" with | .ok f => nat? f | .error _ => pure 0
  let draws ← match j.getObjVal? "draws" with | .ok d => rats? d | .error _ => pure []
  let oracle := match j.getObjVal? "oracle" with | .ok o => o | .error _ => Json.null
  return ⟨k, args, fuel, draws, oracle⟩

def errOfName (s : String) : Err :=
  if s == "ValueError" then .value else if s == "TypeError" then .type else if s == "IndexError" then .index
  else if s == "LagtimeError" then .lagtime else if s == "AssertionError" then .assertion else .other

/-- the error an oracle raised in the real run: `"oracle": {key ++ "_err": kind}` -/
def oracleErr (key : String) (r : Req) : Err :=
  match r.oracle.getObjVal? (key ++ "_err") with
  | .ok (Json.str e) => errOfName e
  | _ => .other

/-- stand-in for an ORACLE parameter of a translated function when it is RUN by the harness: the answer the real external
function gave on this input is supplied in the request (`"oracle": {key: value}`), or the kind of error it raised -/
def oracleVec (key : String) (r : Req) : List (List Rat) → Py (List Rat) := fun _ =>
  match r.oracle.getObjVal? key with
  | .ok j =>
    match (JCodec.dec j : Except String (List Rat)) with
    | .ok v => .ok v
    | .error _ => .error .other
  | .error _ => .error (oracleErr key r)

/-- stand-in for an oracle that is called several times: the request carries the table of (argument, answer) pairs the real
external function produced, `"oracle": {key: [[arg, answer], …]}` -/
def oracleTable (key : String) (r : Req) : List Rat → Py (List Int) := fun x =>
  match r.oracle.getObjVal? key with
  | .ok j =>
    match (JCodec.dec j : Except String (List (List Rat × List Int))) with
    | .ok tbl =>
      match tbl.find? (fun p => p.1 == x) with
      | some p => .ok p.2
      | none => .error .other
    | .error _ => .error .other
  | .error _ => .error .other

/-- stand-in for an oracle whose single answer is supplied in the request (`"oracle": {key: value}`, or `key_err`) -/
def oracleConst {α β : Type} [JCodec β] (key : String) (r : Req) : α → Py β := fun _ =>
  match r.oracle.getObjVal? key with
  | .ok j =>
    match (JCodec.dec j : Except String β) with
    | .ok v => .ok v
    | .error _ => .error .other
  | .error _ => .error (oracleErr key r)

/-- stand-in for an oracle of one integer argument that is called several times: `"oracle": {key: [[arg, answer], …]}` -/
def oracleTableInt {β : Type} [JCodec β] (key : String) (r : Req) : Int → Py β := fun x =>
  match r.oracle.getObjVal? key with
  | .ok j =>
    match (JCodec.dec j : Except String (List (Int × β))) with
    | .ok tbl =>
      match tbl.find? (fun p => p.1 == x) with
      | some p => .ok p.2
      | none => .error (oracleErr key r)
    | .error _ => .error .other
  | .error _ => .error (oracleErr key r)

/-- stand-in for an oracle of one argument of any decodable type that is called several times: `"oracle": {key: [[arg, answer], …]}`,
looked up by equality of the argument -/
def oracleTableKey {α β : Type} [JCodec α] [BEq α] [JCodec β] (key : String) (r : Req) : α → Py β := fun x =>
  match r.oracle.getObjVal? key with
  | .ok j =>
    match (JCodec.dec j : Except String (List (α × β))) with
    | .ok tbl =>
      match tbl.find? (fun p => p.1 == x) with
      | some p => .ok p.2
      | none => .error (oracleErr key r)
    | .error _ => .error .other
  | .error _ => .error (oracleErr key r)

/-- stand-in for an ELEMENT-WISE oracle on arrays of optional values (`np.log` on complex doubles with NaN): `"oracle": {key: [[z, f z], …]}`;
NaN is mapped to NaN, a value that is not in the table is an error -/
def oracleElemwise {α : Type} [JCodec α] [BEq α] (key : String) (r : Req) : List (Option α) → Py (List (Option α)) := fun xs =>
  match r.oracle.getObjVal? key with
  | .ok j =>
    match (JCodec.dec j : Except String (List (α × Option α))) with
    | .ok tbl =>
      xs.mapM (fun x => match x with
        | none => .ok none
        | some z => match tbl.find? (fun p => p.1 == z) with
          | some p => .ok p.2
          | none => .error .other)
    | .error _ => .error .other
  | .error _ => .error .other

/-- stand-in for the chain kernel that ECHOES what it was called with (so that the arguments built by the translated wrapper are
compared with what the real wrapper passed): `[start, steps] ++ ⌊1024·cummat + 1/2⌋ (row-major) ++ perm (row-major)` — rounded to the NEAREST 1/1024 so that a
float cumulative sum of 1 − 2⁻⁵³ and the exact sum 1 give the same code -/
def oracleEchoCummat (_key : String) (_r : Req) : (List (List Rat) × List (List Int)) → Int → Int → Py (List Int) := fun cm start steps =>
  .ok ([start, steps] ++ (cm.1.flatten.map (fun x => (x * 1024 + 1 / 2).floor)) ++ cm.2.flatten)

/-- the same for an oracle of two arguments -/
def oracleConst2 {α β ζ : Type} [JCodec ζ] (key : String) (r : Req) : α → β → Py ζ := fun _ _ =>
  match r.oracle.getObjVal? key with
  | .ok j =>
    match (JCodec.dec j : Except String ζ) with
    | .ok v => .ok v
    | .error _ => .error .other
  | .error _ => .error (oracleErr key r)

/-- the same for an oracle of three arguments -/
def oracleConst3 {α β γ ζ : Type} [JCodec ζ] (key : String) (r : Req) : α → β → γ → Py ζ := fun _ _ _ =>
  match r.oracle.getObjVal? key with
  | .ok j =>
    match (JCodec.dec j : Except String ζ) with
    | .ok v => .ok v
    | .error _ => .error .other
  | .error _ => .error (oracleErr key r)

/-- the same for an oracle of five arguments -/
def oracleConst5 {α β γ δ ε ζ : Type} [JCodec ζ] (key : String) (r : Req) : α → β → γ → δ → ε → Py ζ := fun _ _ _ _ _ =>
  match r.oracle.getObjVal? key with
  | .ok j =>
    match (JCodec.dec j : Except String ζ) with
    | .ok v => .ok v
    | .error _ => .error .other
  | .error _ => .error (oracleErr key r)

/-- stand-in for the eigen-solver oracle (called once): `"oracle": {key: [eigenvalues, eigenvectors]}`, or
`{key ++ "_err": kind}` when the real solver raised -/
def oracleEig (key : String) (r : Req) : List (List Rat) → Int → Py (List Rat × List (List Rat)) := fun _ _ =>
  match r.oracle.getObjVal? key with
  | .ok j =>
    match (JCodec.dec j : Except String (List Rat × List (List Rat))) with
    | .ok v => .ok v
    | .error _ => .error .other
  | .error _ => .error (oracleErr key r)

partial def loop (dispatch : Req → Except String Json) (h out : IO.FS.Stream) : IO Unit := do
  let line ← h.getLine
  if line.isEmpty then return ()
  let trimmed := line.trimAscii.toString
  if trimmed.isEmpty then loop dispatch h out else
  let reply : Json :=
    match Json.parse trimmed with
    | .error e => Json.mkObj [("driver_error", Json.str s!"parse: {e}")]
    | .ok j =>
      match parseReq j >>= dispatch with
      | .ok r => r
      | .error e => Json.mkObj [("driver_error", Json.str e)]
  out.putStrLn reply.compress
  loop dispatch h out

def runMain (dispatch : Req → Except String Json) : IO Unit := do
  let out ← IO.getStdout
  loop dispatch (← IO.getStdin) out
  out.flush

end MsmVerif.GenCodec
