/-
Model/Mcmc.lean — executable model of the Markov-chain sampling of `src/msmhelper/msm/timescales.py`
(`_propagate_MCMC_step`, `_propagate_MCMC`, `_get_cummat`, the event loops driven by a chain) and of
`utils/datasets.py::propagate_tmat`.  The uniform draws are an explicit argument.
-/
import MsmVerif.Model.Basic
import MsmVerif.Model.Msm
import MsmVerif.Model.Events

namespace MsmVerif.Mcmc
open MsmVerif.Msm

/-- index of the first maximal element (`np.argmax`) -/
def argmax : List Rat → Nat
  | [] => 0
  | x :: xs =>
    let rec go (best : Rat) (bi : Nat) (i : Nat) : List Rat → Nat
      | [] => bi
      | y :: ys => if best < y then go y i (i + 1) ys else go best bi (i + 1) ys
    go x 0 1 xs

/-- `_propagate_MCMC_step`: first column whose cumulative value exceeds `u` (strict), else the
`argmax` fallback.  `cum` is the cumulative row, `perm` the states in the same order. -/
def step (cum : List Rat) (perm : List Nat) (u : Rat) : Nat :=
  match (cum.zip perm).find? (fun cp => decide (u < cp.1)) with
  | some cp => cp.2
  | none => perm.getD (argmax cum) 0

/-- `_propagate_MCMC(cummat, start, steps)`: frame 0 is `start`, then `steps - 1` propagation steps -/
def chainFrom (cummat : List (List Rat)) (perm : List (List Nat)) : Nat → List Rat → List Nat
  | _, [] => []
  | s, u :: us =>
    let s' := step (cummat.getD s []) (perm.getD s []) u
    s' :: chainFrom cummat perm s' us

/-- the chain of `steps` frames; `us` must hold at least `steps - 1` draws (only that many are consumed) -/
def chain (cummat : List (List Rat)) (perm : List (List Nat)) (start steps : Nat) (us : List Rat) : List Nat :=
  if steps = 0 then [] else start :: chainFrom cummat perm start (us.take (steps - 1))

/-- realised states of the event loops: the state AFTER each of `steps` propagation steps (start excluded) -/
def realised (cummat : List (List Rat)) (perm : List (List Nat)) (start steps : Nat) (us : List Rat) : List Nat :=
  chainFrom cummat perm start (us.take steps)

/-! ### `_get_cummat` in exact arithmetic -/

/-- insertion into a list sorted by descending probability; ties keep any order (the real `argsort`
tie order is taken from the code's output and validated, never predicted) -/
def insertDesc (p : Rat × Nat) : List (Rat × Nat) → List (Rat × Nat)
  | [] => [p]
  | q :: qs => if q.1 < p.1 then p :: q :: qs else q :: insertDesc p qs

def sortDesc (row : List Rat) : List (Rat × Nat) :=
  (row.zip (List.range row.length)).foldr insertDesc []

def cumsum : List Rat → List Rat
  | [] => []
  | x :: xs => x :: (cumsum xs).map (· + x)

/-- cumulative row for a given visiting order `order` of the states of `row`: running sums, then forced to 1
from the last positive entry on (the repaired code), and the last column forced to 1 in any case -/
def cumRow (row : List Rat) (order : List Nat) : List Rat :=
  let ps := order.map (fun j => row.getD j 0)
  let cs := cumsum ps
  let npos := (row.filter (fun p => p != 0)).length
  let n := cs.length
  (List.range n).map (fun k =>
    if (npos ≠ 0 ∧ npos - 1 ≤ k) ∨ k + 1 = n then (1 : Rat) else cs.getD k 0)

def isPermOfRange (order : List Nat) (n : Nat) : Bool :=
  order.length == n && (List.range n).all (fun i => order.contains i)

def nonIncreasing : List Rat → Bool
  | [] => true
  | [_] => true
  | x :: y :: rest => decide (y ≤ x) && nonIncreasing (y :: rest)

/-- oracle for the real cumulative matrix of an estimated model `T` (exact rationals):
every row's permutation is a valid descending sort, and the breakpoints are within `n·2⁻⁵³` of the exact
cumulative sums with value exactly 1 from the last positive-probability column on. -/
def holdsCummat (T : RatMat) (cum : List (List Rat)) (perm : List (List Nat)) : Bool :=
  let n := T.length
  cum.length == n && perm.length == n &&
  (List.range n).all (fun i =>
    let row := T.getD i []
    let order := perm.getD i []
    let c := cum.getD i []
    isPermOfRange order n &&
    nonIncreasing (order.map (fun j => row.getD j 0)) &&
    c.length == n &&
    (let ex := cumRow row order
     (List.zip c ex).all (fun (a, b) =>
        if b == 1 then a == 1 else decide (absQ (a - b) ≤ (n : Rat) / 9007199254740992))))

/-- oracle for `propagate_tmat`'s cumulative matrix: identity permutation, running sums of the row-normalised
matrix within `n·2⁻⁵³`, no forcing -/
def holdsCumTmat (T : RatMat) (cum : List (List Rat)) (perm : List (List Nat)) : Bool :=
  let n := T.length
  let Tn := rowNormalizeQ T
  cum.length == n && perm.length == n &&
  (List.range n).all (fun i =>
    perm.getD i [] == List.range n &&
    (let ex := cumsum (Tn.getD i [])
     let c := cum.getD i []
     c.length == n &&
     (List.zip c ex).all (fun (a, b) => decide (absQ (a - b) ≤ (n : Rat) / 9007199254740992))))

/-- the interval of draws mapped to column `k` of a cumulative row: `[c_{k-1}, c_k)` -/
def intervalOf (cum : List Rat) (k : Nat) : Rat × Rat :=
  ((if k = 0 then 0 else cum.getD (k - 1) 0), cum.getD k 0)

/-- oracle for a propagated chain: `N` frames, frame 0 is the start label, all frames are labels of the
state list, and each move is the inverse-CDF step of the given cumulative matrix for the given draw -/
def holdsChain (cummat : List (List Rat)) (perm : List (List Nat)) (sts : List Int) (start steps : Nat)
    (us : List Rat) (obs : List Int) : Bool :=
  obs == (chain cummat perm start steps us).map (fun (i : Nat) => labelOf sts (i : Int))

end MsmVerif.Mcmc
