/-
Props/C12.lean — property theorems for C12 (`md/comparison.py`: sums accumulated in a schedule-dependent order by
numba's `prange`).  Helper lemmas live in Lemmas/Misc.lean.

Model (`Model/Float.lean`): a summation schedule is a binary `Tree` over the rational terms; `Tree.exact` is the exact
sum, `Tree.computed` the value obtained when every addition is rounded, `fl(a+b) = (a+b)(1+δ)`, with the relative error
`δ` stored at the node; `Tree.bounded u` says `|δ| ≤ u` at every node; `Tree.absSum` is `Σ|xᵢ|`, `Tree.depth` the longest
chain of additions, `Tree.leaves` the terms in order.  `Misc.uDouble = 2⁻⁵³` is the unit roundoff of IEEE doubles.
-/
import MsmVerif.Lemmas.Misc

namespace MsmVerif.C12
open MsmVerif MsmVerif.FloatModel MsmVerif.Misc

/-- a non-trivial schedule used for the non-vacuity examples: `((1/2 + 1) + 1/4)` with two rounding errors -/
private def demo : Tree := .node (.node (.leaf (1/2)) (.leaf 1) (1 / 2 ^ 54)) (.leaf (1/4)) (-(1 / 2 ^ 53))
/-- the same terms in another order and another association: `1/4 + (1 + 1/2)` -/
private def demo' : Tree := .node (.leaf (1/4)) (.node (.leaf 1) (.leaf (1/2)) (1 / 2 ^ 53)) 0

/-! ### 1. exact sums -/

/-- Exact (rational) sums do not depend on the order of the terms. -/
theorem sum_perm (l₁ l₂ : List Rat) (h : l₁.Perm l₂) : l₁.sum = l₂.sum :=
  h.sum_eq

/-- The exact value of a summation tree is the sum of its leaves, whatever the shape of the tree. -/
theorem exact_eq_sum (t : Tree) : t.exact = t.leaves.sum :=
  Tree.exact_eq_sum t

/-- Hence two schedules over the same multiset of terms have the same exact sum. -/
theorem exact_perm (t₁ t₂ : Tree) (h : t₁.leaves.Perm t₂.leaves) : t₁.exact = t₂.exact := by
  rw [exact_eq_sum, exact_eq_sum]; exact h.sum_eq

example : demo.leaves.Perm demo'.leaves := by decide +kernel

/-! ### 2. forward error bound -/

/-- Standard forward error bound: if every addition has relative error at most `u ≥ 0`, the computed sum differs
from the exact sum by at most `((1+u)^depth - 1) · Σ|xᵢ|`. -/
theorem tree_bound (u : Rat) (hu : 0 ≤ u) (t : Tree) (hb : t.bounded u) :
    |t.computed - t.exact| ≤ ((1 + u) ^ t.depth - 1) * t.absSum :=
  Tree.error_bound u hu t hb

/-- A tree with `N` leaves has depth at most `N - 1` … -/
theorem depth_le (t : Tree) : t.depth ≤ t.leaves.length - 1 :=
  Tree.depth_le t

/-- … so for every schedule of `N` terms the error is at most `((1+u)^(N-1) - 1) · Σ|xᵢ|`. -/
theorem tree_bound_leaves (u : Rat) (hu : 0 ≤ u) (t : Tree) (hb : t.bounded u) :
    |t.computed - t.exact| ≤ ((1 + u) ^ (t.leaves.length - 1) - 1) * t.absSum :=
  Tree.error_bound_leaves u hu t hb

example : demo.bounded uDouble := by
  simp only [demo, Tree.bounded, and_true]
  decide +kernel
example : demo.computed ≠ demo.exact := by decide +kernel

/-! ### 3. the numbers -/

/-- For a unit roundoff `u ≤ 2⁻⁵³` and at most `10^5` additions the accumulated relative error factor
`(1+u)^N - 1` is below `1.2·10⁻¹¹` (exact rational arithmetic, via `(1+u)^N (1 - N u) ≤ 1`). -/
theorem bound_1e9 (u : Rat) (hu0 : 0 ≤ u) (hu : u ≤ 1 / 2 ^ 53) (N : Nat) (hN : N ≤ 10 ^ 5) :
    (1 + u) ^ N - 1 < 12 / 10 ^ 12 :=
  pow_bound_1e9 u hu0 hu N hN

/-- One schedule: the computed mean of `N ≤ 10^5` terms from `[0,1]` is within `1.2·10⁻¹¹` of the exact mean. -/
theorem mean_error (u : Rat) (hu0 : 0 ≤ u) (hu : u ≤ 1 / 2 ^ 53) (t : Tree) (hb : t.bounded u)
    (h01 : ∀ x ∈ t.leaves, 0 ≤ x ∧ x ≤ 1) (hN : t.leaves.length ≤ 10 ^ 5) :
    |t.computed - t.exact| / (t.leaves.length : Rat) < 12 / 10 ^ 12 :=
  Tree.mean_error u hu0 hu t hb h01 hN

/-! ### 4. two schedules -/

/-- Two summation schedules (arbitrary tree shapes, arbitrary order) over the same multiset of `N ≤ 10^5` terms from
`[0,1]`, every addition rounded with relative error at most `u ≤ 2⁻⁵³`: the two computed sums divided by `N` differ by
less than `10⁻⁹`. -/
theorem two_schedules (u : Rat) (hu0 : 0 ≤ u) (hu : u ≤ 1 / 2 ^ 53) (t₁ t₂ : Tree)
    (hperm : t₁.leaves.Perm t₂.leaves) (hb₁ : t₁.bounded u) (hb₂ : t₂.bounded u)
    (h01 : ∀ x ∈ t₁.leaves, 0 ≤ x ∧ x ≤ 1) (hN : t₁.leaves.length ≤ 10 ^ 5) :
    |t₁.computed - t₂.computed| / (t₁.leaves.length : Rat) < 1 / 10 ^ 9 :=
  Tree.two_schedules u hu0 hu t₁ t₂ hperm hb₁ hb₂ h01 hN

example : demo'.bounded (1 / 2 ^ 53) ∧ (∀ x ∈ demo.leaves, 0 ≤ x ∧ x ≤ 1) ∧ demo.leaves.length ≤ 10 ^ 5 := by
  refine ⟨?_, by decide +kernel, by decide⟩
  simp only [demo', Tree.bounded, and_true]
  decide +kernel
/-- the two schedules really give different floating-point results -/
example : demo.computed ≠ demo'.computed := by decide +kernel

end MsmVerif.C12
