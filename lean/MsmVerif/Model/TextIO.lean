/-
Model/TextIO.lean — byte-level contract model of `src/msmhelper/io.py` (C16) and of the file plumbing of the
command-line tools (C19): what `savetxt` writes for an integer table, what `opentxt` reads back (comment
handling, whitespace tokenising, `usecols` order, single column → 1-d), limits splitting, the dtype decision of
`openmicrostates`, and the chunking helper of the figure commands.  Text is a list of lines, a line a `List Char`.
-/
import MsmVerif.Model.Basic

namespace MsmVerif.TextIO

abbrev Line := List Char

/-- decimal digits of a natural number, most significant first (`0 ↦ "0"`) -/
def natDigits (n : Nat) : List Char :=
  if n < 10 then [Char.ofNat (48 + n)] else natDigits (n / 10) ++ [Char.ofNat (48 + n % 10)]
termination_by n
decreasing_by omega

/-- `'%.0f' % v` for an integer value -/
def fmt0 (v : Int) : Line := if v < 0 then '-' :: natDigits v.natAbs else natDigits v.natAbs

/-- `'%.5f' % v` for an integer value -/
def fmt5 (v : Int) : Line := fmt0 v ++ ".00000".toList

inductive Fmt where | f0 | f5 deriving Repr, DecidableEq
def Fmt.apply : Fmt → Int → Line | .f0 => fmt0 | .f5 => fmt5

/-- join tokens with a single space -/
def joinSp : List Line → Line
  | [] => []
  | [t] => t
  | t :: ts => t ++ ' ' :: joinSp ts

/-- split a header string at newlines -/
def splitNl : List Char → List Line
  | [] => [[]]
  | c :: cs =>
    match splitNl cs with
    | [] => [[]]     -- unreachable
    | l :: ls => if c = '\n' then [] :: l :: ls else (c :: l) :: ls

/-- `np.savetxt(file, table, fmt, header)` : every header line prefixed by `"# "`, then one line per row.
`hdr` is the complete header text (run-time information block + optional user header). -/
def writeTable (hdr : List Char) (fmt : Fmt) (tbl : List (List Int)) : List Line :=
  (splitNl hdr).map (fun l => '#' :: ' ' :: l) ++ tbl.map (fun row => joinSp (row.map fmt.apply))

/-- cut a line at the comment character -/
def cutComment (l : Line) : Line := l.takeWhile (· != '#')

/-- whitespace tokeniser -/
def tokens : Line → List Line
  | [] => []
  | c :: cs =>
    if c = ' ' ∨ c = '\t' then
      match tokens cs with
      | ts => ts
    else
      match tokens cs, cs with
      | t :: ts, c' :: _ => if c' = ' ' ∨ c' = '\t' then [c] :: t :: ts else (c :: t) :: ts
      | ts, _ => [c] :: ts

def digitVal (c : Char) : Option Nat := if '0' ≤ c ∧ c ≤ '9' then some (c.toNat - 48) else none

def parseNat : Line → Option Nat
  | [] => none
  | cs => cs.foldl (fun acc c => match acc, digitVal c with
      | some a, some d => some (a * 10 + d)
      | _, _ => none) (some 0)

/-- parse an integer-valued token: optional sign, digits, optionally `.` followed by zeros only -/
def parseTok (t : Line) : Option Int :=
  let (neg, body) := match t with
    | '-' :: r => (true, r)
    | r => (false, r)
  let ip := body.takeWhile (· != '.')
  let fp := body.dropWhile (· != '.')
  let fracOk := match fp with
    | [] => true
    | _ :: zs => zs.all (· == '0')
  if !fracOk then none else
  (parseNat ip).map (fun n => if neg then -(n : Int) else (n : Int))

/-- `opentxt` on the lines of a file: comment cut, empty lines dropped, tokens parsed; `none` if a token is not integer-valued -/
def readTable (lines : List Line) : Option (List (List Int)) :=
  ((lines.map (fun l => tokens (cutComment l))).filter (fun ts => !ts.isEmpty)).mapM (fun ts => ts.mapM parseTok)

/-- `usecols=cols` : column `m` of the result is file column `cols[m]` -/
def selectCols (cols : List Nat) (tbl : List (List Int)) : List (List Int) :=
  tbl.map (fun row => cols.map (fun c => row.getD c 0))

/-- the code path for `usecols`: pandas returns the columns in ascending file order (`sorted`), then `swapcols(array, idx, arange)`
with `idx = argsort(cols)` writes sorted column `k` to position `idx[k]` -/
def insertAsc (x : Nat) : List Nat → List Nat
  | [] => [x]
  | y :: ys => if x ≤ y then x :: y :: ys else y :: insertAsc x ys
def sortAsc (l : List Nat) : List Nat := l.foldr insertAsc []

def selectColsCode (cols : List Nat) (tbl : List (List Int)) : List (List Int) :=
  let sorted := sortAsc cols
  -- idx[k] = position in `cols` of the k-th smallest column (distinct columns)
  let idx := sorted.map (fun c => cols.idxOf c)
  tbl.map (fun row =>
    let pandasRow := sorted.map (fun c => row.getD c 0)
    (List.range cols.length).map (fun m => pandasRow.getD (idx.idxOf m) 0))

/-- `open_limits` + `np.split(traj, cumsum(limits))[:-1]` : `none` = ValueError (limits inconsistent with the data) -/
def splitLimits {α} (limits : List Nat) (rows : List α) : Option (List (List α)) :=
  if limits.sum ≠ rows.length then none
  else
    let rec go : List Nat → List α → List (List α)
      | [], _ => []
      | n :: ns, l => l.take n :: go ns (l.drop n)
    some (go limits rows)

/-- integer dtypes of the reader -/
inductive IntDtype where | i8 | i16 | i32 | i64 deriving Repr, DecidableEq

/-- dtype decision of `openmicrostates` (after the repair): requested integer dtype, `int16` by default -/
def microDtype (requested : Option IntDtype) : IntDtype := requested.getD .i16

/-- `_split_array(array, chunksize)` of the figure commands -/
def chunks {α} (l : List α) (c : Nat) : List (List α) :=
  if c = 0 then [l] else
  let rec go (fuel : Nat) (l : List α) : List (List α) :=
    match fuel, l with
    | _, [] => []
    | 0, _ => []
    | fuel + 1, l => l.take c :: go fuel (l.drop c)
  go l.length l

/-- command-line dynamical coring as file plumbing: read → split by limits → core each piece (function `core`) → flatten → write `%.0f` -/
def cliCoring (core : List Int → Option (List Int)) (lines : List Line) (limits : Option (List Nat)) (hdr : List Char) : Option (List Line) := do
  let tbl ← readTable lines
  let col := tbl.map (fun r => r.getD 0 0)
  let pieces ← splitLimits (limits.getD [col.length]) col
  let cored ← pieces.mapM core
  return writeTable hdr .f0 (cored.flatten.map (fun v => [v]))

end MsmVerif.TextIO
