/-
Driver/Ops.lean — dispatch of protocol operations to the executable models and `holds` oracles.
-/
import MsmVerif.Driver.JsonUtil
import MsmVerif.Model.Coring
import MsmVerif.Model.Msm
import MsmVerif.Model.Events
import MsmVerif.Model.Mcmc
import MsmVerif.Model.Compare
import MsmVerif.Model.Relabel

open Lean

namespace MsmVerif.Driver
open MsmVerif.J

def opCoring (j : Json) : Except String Json := do
  let ts ← trajs? (← field j "trajs")
  let τ ← int? (← field j "tau")
  let iter ← bool? (← field j "iter")
  let model := Coring.dynamicalCoring ts τ iter
  let ref := Coring.refSet ts τ iter
  let base := [("model", ofExcept ofTrajs model), ("ref", ofExcept ofTrajs ref)]
  match j.getObjVal? "obs" with
  | .ok o =>
    let obs ← except? trajs? o
    return Json.mkObj (base ++ [("holds", Json.bool (Coring.holds ts τ iter obs))])
  | .error _ => return Json.mkObj base

def opCoringKernel (j : Json) : Except String Json := do
  let t ← ints? (← field j "traj")
  let τ ← nat? (← field j "tau")
  let iter ← bool? (← field j "iter")
  let r := Coring.kernelSingle τ iter t
  let fc := Coring.firstCoreSentinel τ t
  return Json.mkObj [
    ("model", match r with | some l => Json.mkObj [("ok", ofInts l)] | none => Json.mkObj [("err", "LagtimeError")]),
    ("first_core", ofInt fc)]

/-- C01: `estimate_markov_model` -/
def opEstimate (j : Json) : Except String Json := do
  let ts ← trajs? (← field j "trajs")
  let lag ← nat? (← field j "lag")
  let model := Msm.estimate ts lag
  let mj := ofExcept (fun (r : Msm.NatMat × Msm.RatMat × List Int) =>
      Json.mkObj [("counts", ofList ofNats r.1), ("T", ofRatMat r.2.1), ("states", ofInts r.2.2)]) model
  match j.getObjVal? "obs" with
  | .ok o =>
    let obs ← except? (fun v => do
      let st ← ints? (← field v "states")
      let T ← ratMat? (← field v "T")
      return (st, T)) o
    let h := match obs with
      | .ok (st, T) => Msm.holds ts lag st T
      | .error _ => false
    return Json.mkObj [("model", mj), ("holds", Json.bool h)]
  | .error _ => return Json.mkObj [("model", mj)]

def ofPathTuples (l : List (List Int × Nat)) : Json :=
  ofList (fun (p : List Int × Nat) => Json.arr #[ofInts p.1, ofNat p.2]) l

def pathTuples? (j : Json) : Except String (List (List Int × Nat)) := do
  (← arr? j).mapM (fun e => do
    let a ← arr? e
    match a with
    | [p, d] => return (← ints? p, ← nat? d)
    | _ => throw "bad path tuple")

/-- C06: `md.estimate_waiting_times` -/
def opMdWt (j : Json) : Except String Json := do
  let ts ← trajs? (← field j "trajs")
  let start ← ints? (← field j "start")
  let final ← ints? (← field j "final")
  let model := Events.mdWaitingTimes ts start final
  let base := [("model", ofExcept ofNats model)]
  match j.getObjVal? "obs" with
  | .ok o =>
    let obs ← except? nats? o
    return Json.mkObj (base ++ [("holds", Json.bool (Events.holdsWt ts start final obs))])
  | .error _ => return Json.mkObj base

/-- C06: `md.estimate_paths` (tuples in order of occurrence) -/
def opMdPaths (j : Json) : Except String Json := do
  let ts ← trajs? (← field j "trajs")
  let start ← ints? (← field j "start")
  let final ← ints? (← field j "final")
  let model := Events.mdPaths ts start final
  let base := [("model", ofExcept ofPathTuples model)]
  match j.getObjVal? "obs" with
  | .ok o =>
    let obs ← except? (fun v => do
      (← arr? v).mapM (fun e => do
        match (← arr? e) with
        | [p, d] => return (← ints? p, ← nats? d)
        | _ => throw "bad dict item")) o
    return Json.mkObj (base ++ [("holds", Json.bool (Events.holdsPaths ts start final obs))])
  | .error _ => return Json.mkObj base

def natMat? (j : Json) : Except String (List (List Nat)) := do (← arr? j).mapM nats?

/-- C07: judge the real cumulative matrix of an estimated model -/
def opCummatJudge (j : Json) : Except String Json := do
  let ts ← trajs? (← field j "trajs")
  let lag ← nat? (← field j "lag")
  let cum ← ratMat? (← field j "cum")
  let perm ← natMat? (← field j "perm")
  match Msm.estimate ts lag with
  | .error e => return Json.mkObj [("model", Json.mkObj [("err", Json.str e.name)]), ("holds", Json.bool false)]
  | .ok (_, T, _) =>
    let exact := (List.range T.length).map (fun i => Mcmc.cumRow (T.getD i []) (perm.getD i []))
    return Json.mkObj [("model", Json.mkObj [("ok", ofRatMat exact)]), ("holds", Json.bool (Mcmc.holdsCummat T cum perm))]

/-- C07: judge the cumulative matrix `propagate_tmat` builds from a user matrix -/
def opTmatCumJudge (j : Json) : Except String Json := do
  let T ← ratMat? (← field j "T")
  let cum ← ratMat? (← field j "cum")
  let perm ← natMat? (← field j "perm")
  let exact := (Msm.rowNormalizeQ T).map Mcmc.cumsum
  return Json.mkObj [("model", Json.mkObj [("ok", ofRatMat exact)]), ("holds", Json.bool (Mcmc.holdsCumTmat T cum perm))]

/-- C07: chain for given cumulative matrix, start index, length and draws -/
def opChain (j : Json) : Except String Json := do
  let cum ← ratMat? (← field j "cum")
  let perm ← natMat? (← field j "perm")
  let start ← nat? (← field j "start")
  let steps ← nat? (← field j "steps")
  let us ← rats? (← field j "us")
  let sts ← ints? (← field j "states")
  let model := (Mcmc.chain cum perm start steps us).map (fun (i : Nat) => labelOf sts (i : Int))
  let base := [("model", Json.mkObj [("ok", ofInts model)])]
  match j.getObjVal? "obs" with
  | .ok o =>
    let obs ← except? ints? o
    let h := match obs with
      | .ok l => Mcmc.holdsChain cum perm sts start steps us l
      | .error _ => false
    return Json.mkObj (base ++ [("holds", Json.bool h)])
  | .error _ => return Json.mkObj base

/-- C08: the msm event loops on the realised chain; `kind` = "wt" | "tt" -/
def opMsmTimes (j : Json) : Except String Json := do
  let cum ← ratMat? (← field j "cum")
  let perm ← natMat? (← field j "perm")
  let start ← nat? (← field j "start")
  let steps ← nat? (← field j "steps")
  let us ← rats? (← field j "us")
  let S ← ints? (← field j "S")
  let F ← ints? (← field j "F")
  let lag ← nat? (← field j "lag")
  let kind ← str? (← field j "kind")
  let xs := (Mcmc.realised cum perm start steps us).map (fun (i : Nat) => (i : Int))
  let h := if kind == "wt" then Events.msmWtLoop S F xs else Events.msmTtLoop S F xs
  let lst := Events.histList h lag
  let (dens, edges) := Events.histDensity h lag
  return Json.mkObj [("model", Json.mkObj [("ok", Json.mkObj [
    ("chain", ofInts xs), ("hist", ofList (fun (e : Nat × Nat) => Json.arr #[ofNat e.1, ofNat e.2]) h),
    ("list", ofNats lst), ("density", ofRats dens), ("edges", ofNats edges)])]), ("holds", Json.bool true)]

/-- C13: `compare_discretization` -/
def opCompare (j : Json) : Except String Json := do
  let t1 ← trajs? (← field j "t1")
  let t2 ← trajs? (← field j "t2")
  let m ← nat? (← field j "method")
  let model := Compare.compare t1 t2 m
  let base := [("model", ofExcept ofRat model)]
  match j.getObjVal? "obs" with
  | .ok o =>
    let obs ← except? rat? o
    return Json.mkObj (base ++ [("holds", Json.bool (Compare.holds t1 t2 m obs))])
  | .error _ => return Json.mkObj base

def shape? (j : Json) : Except String Relabel.Shape := do
  let k ← str? (← field j "kind")
  match k with
  | "flat" => return .flat
  | "mat" => return .mat (← nat? (← field j "rows")) (← nat? (← field j "cols"))
  | "ragged" => return .ragged (← nats? (← field j "lens"))
  | _ => throw "bad shape"

def ofShape : Relabel.Shape → Json
  | .flat => Json.mkObj [("kind", "flat")]
  | .mat r c => Json.mkObj [("kind", "mat"), ("rows", ofNat r), ("cols", ofNat c)]
  | .ragged l => Json.mkObj [("kind", "ragged"), ("lens", ofNats l)]

def data? (j : Json) : Except String Relabel.Data := do
  return { vals := ← ints? (← field j "vals"), shape := ← shape? (← field j "shape") }

def ofData (d : Relabel.Data) : Json := Json.mkObj [("vals", ofInts d.vals), ("shape", ofShape d.shape)]

/-- C15: `shift_data` -/
def opShift (j : Json) : Except String Json := do
  let d ← data? (← field j "data")
  let old ← ints? (← field j "old")
  let new ← ints? (← field j "new")
  let model := Relabel.shiftData d old new
  let base := [("model", ofExcept ofData model), ("guard", Json.bool (Relabel.guardOk d.vals old new))]
  match j.getObjVal? "obs" with
  | .ok o =>
    let obs ← except? data? o
    return Json.mkObj (base ++ [("holds", Json.bool (Relabel.holdsShift d old new obs))])
  | .error _ => return Json.mkObj base

def dataPerm? (v : Json) : Except String (Relabel.Data × List Int) := do
  return (← data? (← field v "data"), ← ints? (← field v "perm"))

def ofDataPerm (r : Relabel.Data × List Int) : Json := Json.mkObj [("data", ofData r.1), ("perm", ofInts r.2)]

/-- C15: `rename_by_index` / `rename_by_population` / `unique` -/
def opRename (j : Json) : Except String Json := do
  let d ← data? (← field j "data")
  let kind ← str? (← field j "kind")
  let obs ← except? dataPerm? (← field j "obs")
  match kind with
  | "index" =>
    return Json.mkObj [("model", ofExcept ofDataPerm (Relabel.renameByIndex d)),
      ("holds", Json.bool (Relabel.holdsRenameIndex d obs))]
  | "population" =>
    let perm := match obs with | .ok (_, p) => p | .error _ => []
    return Json.mkObj [("model", ofExcept ofDataPerm (Relabel.renameByPopulationWith d perm)),
      ("holds", Json.bool (Relabel.holdsRenamePop d obs))]
  | _ => throw "bad rename kind"

def opUnique (j : Json) : Except String Json := do
  let d ← data? (← field j "data")
  let (s, c) := Relabel.uniqueCounts d
  return Json.mkObj [("model", Json.mkObj [("ok", Json.mkObj [("states", ofInts s), ("counts", ofNats c)])]),
    ("holds", Json.bool true)]

/-- C07: public `propagate_MCMC(trajs, lag, steps, start)` with injected draws; `obs.ok` carries the captured
cumulative matrix, the permutation and the returned chain -/
def opMcmcPublic (j : Json) : Except String Json := do
  let ts ← trajs? (← field j "trajs")
  let lag ← nat? (← field j "lag")
  let steps ← nat? (← field j "steps")
  let startLabel ← int? (← field j "start")
  let us ← rats? (← field j "us")
  match Msm.estimate ts lag with
  | .error e => return Json.mkObj [("model", Json.mkObj [("err", Json.str e.name)]), ("holds", Json.bool false)]
  | .ok (_, T, sts) =>
    let valid := sts.contains startLabel
    let obsJ ← field j "obs"
    match obsJ.getObjVal? "err" with
    | .ok e =>
      let en ← str? e
      return Json.mkObj [("model", Json.mkObj [("err", Json.str (if valid then "none" else "ValueError"))]),
        ("holds", Json.bool (!valid && en == "ValueError"))]
    | .error _ =>
      let o ← field obsJ "ok"
      let cum ← ratMat? (← field o "cum")
      let perm ← natMat? (← field o "perm")
      let chainObs ← ints? (← field o "chain")
      let startIdx := rank sts startLabel
      let model := (Mcmc.chain cum perm startIdx steps us).map (fun (i : Nat) => labelOf sts (i : Int))
      let okCum := Mcmc.holdsCummat T cum perm
      let okChain := Mcmc.holdsChain cum perm sts startIdx steps us chainObs
      return Json.mkObj [("model", Json.mkObj [("ok", ofInts model)]), ("cum_ok", Json.bool okCum),
        ("exact_cum", ofRatMat ((List.range T.length).map (fun i => Mcmc.cumRow (T.getD i []) (perm.getD i [])))),
        ("holds", Json.bool (valid && okCum && okChain))]

/-- C07: public `propagate_tmat(tmat, nsteps, start)` with injected draws -/
def opTmatPublic (j : Json) : Except String Json := do
  let T ← ratMat? (← field j "T")
  let steps ← nat? (← field j "steps")
  let start ← nat? (← field j "start")
  let us ← rats? (← field j "us")
  let stoch ← bool? (← field j "stochastic")
  let obsJ ← field j "obs"
  match obsJ.getObjVal? "err" with
  | .ok e =>
    let en ← str? e
    return Json.mkObj [("model", Json.mkObj [("err", Json.str (if stoch then "none" else "ValueError"))]),
      ("holds", Json.bool (!stoch && en == "ValueError"))]
  | .error _ =>
    let o ← field obsJ "ok"
    let cum ← ratMat? (← field o "cum")
    let perm ← natMat? (← field o "perm")
    let chainObs ← nats? (← field o "chain")
    let model := Mcmc.chain cum perm start steps us
    let okCum := Mcmc.holdsCumTmat T cum perm
    return Json.mkObj [("model", Json.mkObj [("ok", ofNats model)]), ("cum_ok", Json.bool okCum),
      ("holds", Json.bool (stoch && okCum && chainObs == model))]

def dispatch (j : Json) : Except String Json := do
  let op ← str? (← field j "op")
  match op with
  | "ping" => return Json.mkObj [("pong", Json.bool true)]
  | "coring" => opCoring j
  | "coring_kernel" => opCoringKernel j
  | "estimate" => opEstimate j
  | "md_wt" => opMdWt j
  | "md_paths" => opMdPaths j
  | "cummat_judge" => opCummatJudge j
  | "tmat_cum_judge" => opTmatCumJudge j
  | "chain" => opChain j
  | "mcmc_public" => opMcmcPublic j
  | "tmat_public" => opTmatPublic j
  | "msm_times" => opMsmTimes j
  | "compare" => opCompare j
  | "shift" => opShift j
  | "rename" => opRename j
  | "unique" => opUnique j
  | _ => throw s!"unknown op {op}"

end MsmVerif.Driver
