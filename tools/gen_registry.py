#!/usr/bin/env python3
"""Rebuild lean/registry.json: every `theorem` of lean/MsmVerif/Props/C<nn>.lean is an obligation of property C<nn>.
The statement text is the theorem's docstring. (Helper lemmas live in Lemmas/ and are not obligations.)"""
import json, os, re
HOME = os.path.dirname(os.path.dirname(os.path.abspath(__file__)))
props = os.path.join(HOME, 'lean', 'MsmVerif', 'Props')
reg = {}
for f in sorted(os.listdir(props)):
    m = re.match(r'(C\d+)\.lean$', f)
    if not m:
        continue
    pid = m.group(1)
    src = open(os.path.join(props, f)).read()
    ns = re.search(r'^namespace\s+(\S+)', src, re.M).group(1)
    thms = []
    for mm in re.finditer(r'(?:/--((?:(?!-/).)*)-/\s*)?(?:@\[[^\]]*\]\s*)?^theorem\s+(\S+)', src, re.S | re.M):
        doc = ' '.join((mm.group(1) or '').split())
        # keep only the docstring immediately preceding
        thms.append({'name': ns + '.' + mm.group(2), 'statement': doc[-600:]})
    reg[pid] = {'modules': ['MsmVerif.Props.' + pid], 'theorems': thms}
json.dump(reg, open(os.path.join(HOME, 'lean', 'registry.json'), 'w'), indent=1)
for k, v in reg.items():
    print(k, len(v['theorems']))
