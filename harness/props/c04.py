"""C04 — equilibrium population is the stationary probability vector."""
import numpy as np

import core
import gen

PID = 'C04'
ANCHORS = [('src/msmhelper/msm/msm.py', ['equilibrium_population', 'row_normalize_matrix']),
           ('src/msmhelper/utils/tests.py', ['is_ergodic', 'ergodic_mask', 'is_transition_matrix']),
           ('src/msmhelper/msm/utils/linalg.py', ['left_eigenvectors', '_eigenvectors'])]
RULE = ('same matrix stream as C14 (exhaustive 0..2 count matrices n=2,3; Wielandt; cycles; random irreducible / reducible with transient, absorbing, '
        'never-entered, never-visited states and ties; symmetric and nearly symmetric (asymmetry 5e-7 … 3e-5) doubly stochastic matrices), each with allow_non_ergodic True and False. Sentence 1 (unique aperiodic closed class larger '
        'than the others) is judged against the exact stationary vector (1e-9); other accepted inputs by the generic clause (real, >= 0, sums to 1, '
        'stationary on its support). Non-trivial = reducible or rejected; distinct by (matrix, flag).')
RELATION = '|peq(T) - Linalg.equilibrium T| <= 1e-9 where the exact stationary vector is unique; LAPACK is outside the model (its output is judged)'
TRUSTED = ['LAPACK eigen-solver is not modelled: its result is judged by the exact-rational oracle Linalg.holdsPeq']
PARTIAL = 'eigen-solver validated per input, not proved'


def _mk(M, allow, tag):
    return {'op': 'peq', 'M': M, 'allow': allow, 'tag': tag}


def cases(tier, rng, boost=1):
    for n in range(3, 7):
        for reps in (1, 2):
            Mw = gen.normalise_counts(gen.block_diag([gen.wielandt(n)] + [[[1]]] * reps))
            yield _mk([[float(v) for v in row] for row in Mw], True, 'wielandt+absorbing')
    srng = core.Rng(31)
    for k in range({'quick': 24, 'thorough': 200, 'search': 60}[tier]):
        n = srng.randint(2, 6)
        A = np.array([[srng.randint(1, 9) for _ in range(n)] for _ in range(n)], dtype=np.float64)
        A = A + A.T                                   # symmetric counts
        big = A.sum(axis=1).max()
        S = A / (2 * big)
        S[np.diag_indices(n)] += 1 - S.sum(axis=1)    # symmetric AND row-stochastic (doubly stochastic)
        M = S.copy()
        if k % 3:                                     # nearly symmetric: move a little probability inside one row
            i, j = srng.sample(range(n), 2)
            d = srng.choice([2e-6, 1e-6, 5e-7, 3e-5])
            M[i, j] += d
            M[i, i] -= d
        yield _mk([[float(v) for v in row] for row in M], k % 2 == 0, 'symmetric' if not k % 3 else 'nearly_symmetric')
    for c, tag in gen.count_matrices(tier, rng, boost):
        M = gen.normalise_counts(c)
        if not M.any():
            continue        # no transition at all: not a row-stochastic matrix in any sense (outside the quantifier)
        Ml = [[float(v) for v in row] for row in M]
        yield _mk(Ml, True, tag)
        if rng.random() < 0.5 or tag.startswith('wielandt'):
            yield _mk(Ml, False, tag)


_BUFFERS = {}


def real(case):
    import msmhelper as mh
    M0 = np.array(case['M'], dtype=np.float64)
    # the same ndarray object is overwritten in place and passed again (a caller re-using a buffer)
    M = _BUFFERS.setdefault(M0.shape, np.empty_like(M0))
    np.copyto(M, M0)

    def run():
        # the result is a function of the matrix only: what the caller does with a returned vector (here: overwrite it in place) must not
        # change the answer to the next call with a matrix of the same content (a result cache handing out its stored array would)
        p0 = mh.msm.peq(M.copy(), allow_non_ergodic=case['allow'])
        try:
            np.asarray(p0)[...] *= 100.0
        except (ValueError, TypeError):
            pass
        p = mh.msm.peq(M, allow_non_ergodic=case['allow'])
        p = np.asarray(p)
        if np.iscomplexobj(p):
            if np.max(np.abs(p.imag)) > 0:
                raise AssertionError('complex equilibrium population')
            p = p.real
        if not np.all(np.isfinite(p)):
            raise AssertionError('non-finite equilibrium population')
        return [core.rat_str(float(v)) for v in p]
    out = core.call(run)
    out.pop('msg', None)
    return out


def request(case, obs):
    return {'op': 'peq', 'M': [[core.rat_str(v) for v in row] for row in case['M']], 'allow': case['allow'], 'obs': obs}


def agree(case, obs, reply):
    from fractions import Fraction
    if reply.get('near_threshold'):
        return True
    m = reply['model']
    if 'err' in m or 'err' in obs:
        return m.get('err') == obs.get('err')
    if m['ok'] is None:
        return True      # exact stationary vector not unique: only the generic clause applies (judged by holds)
    return all(abs(Fraction(a) - Fraction(b)) <= Fraction(1, 10 ** 9) for a, b in zip(m['ok'], obs['ok'])) and len(m['ok']) == len(obs['ok'])


def holds(case, obs, reply):
    return bool(reply['holds'])


def nontrivial(case, obs, reply):
    return not reply.get('near_threshold') and ('err' in obs or not reply.get('unique_closed') or case['tag'] not in ('irr',))


def key(case):
    return [case['M'], case['allow']]


def classify(case, obs, reply):
    return '%s/%s/%s/%s' % (case['tag'], 'allow' if case['allow'] else 'strict', 'near' if reply.get('near_threshold') else 'far',
                            obs.get('err', 'ok'))


def known_match(k, case, obs, reply):
    return False
