/-
Lemmas/Msm.lean — helper lemmas for the MSM estimate (C01) and trajectory independence (C11):
`pairs` as explicit frame pairs, the count matrix as a tabulated function, the link between the count
matrix over rank trajectories and the label-level spec `count`, row normalisation, and the behaviour of
`pairs`/`count` under concatenation and permutation of trajectories.
-/
import MsmVerif.Model.Msm
import MsmVerif.Lemmas.StateTraj
import Mathlib.Algebra.Order.Field.Basic
import Mathlib.Algebra.Order.Field.Rat

namespace MsmVerif.Msm
open MsmVerif

/-! ### `pairs` -/

theorem pairs_eq_zip (lag : Nat) (t : List Int) : pairs lag t = t.zip (t.drop lag) := by
  unfold pairs
  apply List.ext_getElem
  · simp
  · intro i h1 h2
    simp

theorem length_pairs (lag : Nat) (t : List Int) : (pairs lag t).length = t.length - lag := by
  simp [pairs]

theorem getElem_pairs {lag : Nat} {t : List Int} {i : Nat} (h : i < (pairs lag t).length) :
    (pairs lag t)[i] = (t[i]'(by rw [length_pairs] at h; omega), t[i + lag]'(by rw [length_pairs] at h; omega)) := by
  simp [pairs, Nat.add_comm]

theorem pairs_eq_range_getElem? (lag : Nat) (t : List Int) :
    pairs lag t = (List.range (t.length - lag)).map (fun i => (t.getD i 0, t.getD (i + lag) 0)) := by
  apply List.ext_getElem
  · simp [length_pairs]
  · intro i h1 h2
    rw [getElem_pairs h1]
    rw [length_pairs] at h1
    simp only [List.getElem_map, List.getElem_range, List.getD_eq_getElem?_getD]
    rw [List.getElem?_eq_getElem (by omega), List.getElem?_eq_getElem (by omega)]
    rfl

theorem pairs_map (lag : Nat) (t : List Int) (f : Int → Int) :
    pairs lag (t.map f) = (pairs lag t).map (Prod.map f f) := by
  simp only [pairs, List.length_map, ← List.map_take, ← List.map_drop, List.zip_map]

theorem mem_of_mem_pairs {lag : Nat} {t : List Int} {p : Int × Int} (h : p ∈ pairs lag t) :
    p.1 ∈ t ∧ p.2 ∈ t := by
  have := List.of_mem_zip (a := p.1) (b := p.2) h
  exact ⟨List.mem_of_mem_take this.1, List.mem_of_mem_drop this.2⟩

/-! ### tabulated matrices and `bump` -/

/-- the `n × n` matrix with entries `f i j` -/
def tab (n : Nat) (f : Nat → Nat → Nat) : NatMat :=
  (List.range n).map (fun i => (List.range n).map (fun j => f i j))

theorem tab_congr {n : Nat} {f g : Nat → Nat → Nat} (h : ∀ i j, i < n → j < n → f i j = g i j) :
    tab n f = tab n g := by
  apply List.map_congr_left
  intro i hi
  apply List.map_congr_left
  intro j hj
  exact h i j (List.mem_range.mp hi) (List.mem_range.mp hj)

theorem zeroMat_eq_tab (n : Nat) : zeroMat n = tab n (fun _ _ => 0) := by
  simp [zeroMat, tab, List.map_const']

theorem bump_tab (n : Nat) (f : Nat → Nat → Nat) (a b : Nat) :
    bump (tab n f) a b = tab n (fun i j => f i j + if a = i ∧ b = j then 1 else 0) := by
  unfold bump
  apply List.ext_getElem
  · simp [tab]
  · intro i h1 h2
    have hi : i < n := by simpa [tab] using h2
    rw [List.getElem_modify]
    simp only [tab, List.getElem_map, List.getElem_range]
    split
    · next hai =>
      subst hai
      apply List.ext_getElem
      · simp
      · intro j h3 h4
        have hj : j < n := by simpa using h4
        rw [List.getElem_modify]
        simp only [List.getElem_map, List.getElem_range]
        split
        · next hbj => simp [hbj]
        · next hbj => simp [hbj]
    · next hai =>
      simp [hai]

theorem foldl_bump_tab (n : Nat) (ps : List (Int × Int)) (f : Nat → Nat → Nat) :
    ps.foldl (fun m p => bump m p.1.toNat p.2.toNat) (tab n f)
      = tab n (fun i j => f i j + ps.countP (fun p => p.1.toNat = i ∧ p.2.toNat = j)) := by
  induction ps generalizing f with
  | nil => simp
  | cons p ps ih =>
    simp only [List.foldl_cons, bump_tab, ih, List.countP_cons]
    apply tab_congr
    intro i j _ _
    simp only [decide_eq_true_eq]
    omega

theorem countMatrix_eq_tab (idx : Trajs) (lag n : Nat) :
    countMatrix idx lag n = tab n (fun i j =>
      (idx.map (fun t => (pairs lag t).countP (fun p => p.1.toNat = i ∧ p.2.toNat = j))).sum) := by
  unfold countMatrix
  rw [zeroMat_eq_tab]
  suffices h : ∀ (f : Nat → Nat → Nat),
      idx.foldl (fun m t => (pairs lag t).foldl (fun m p => bump m p.1.toNat p.2.toNat) m) (tab n f)
        = tab n (fun i j => f i j +
            (idx.map (fun t => (pairs lag t).countP (fun p => p.1.toNat = i ∧ p.2.toNat = j))).sum) by
    rw [h]; simp
  induction idx with
  | nil => intro f; simp
  | cons t ts ih =>
    intro f
    simp only [List.foldl_cons, foldl_bump_tab, ih, List.map_cons, List.sum_cons]
    apply tab_congr
    intro i j _ _
    omega

theorem countP_toNat_eq_count {ps : List (Int × Int)} (h : ∀ p ∈ ps, 0 ≤ p.1 ∧ 0 ≤ p.2) (i j : Nat) :
    ps.countP (fun p => p.1.toNat = i ∧ p.2.toNat = j) = ps.count ((i : Int), (j : Int)) := by
  rw [List.count_eq_countP]
  apply List.countP_congr
  intro p hp
  have := h p hp
  obtain ⟨a, b⟩ := p
  simp only [decide_eq_true_eq, beq_iff_eq, Prod.mk.injEq]
  omega

/-! ### count matrix over rank trajectories = label-level spec -/

theorem count_pairs_rank {ss : List Int} (hnd : ss.Nodup) {t : List Int} (ht : ∀ x ∈ t, x ∈ ss)
    (lag : Nat) {i j : Nat} (hi : i < ss.length) (hj : j < ss.length) :
    (pairs lag (t.map (fun x => (rank ss x : Int)))).count ((i : Int), (j : Int))
      = (pairs lag t).count (ss[i], ss[j]) := by
  rw [pairs_map, List.count_eq_countP, List.count_eq_countP, List.countP_map]
  apply List.countP_congr
  intro p hp
  obtain ⟨h1, h2⟩ := mem_of_mem_pairs hp
  have h1' := ht _ h1
  have h2' := ht _ h2
  obtain ⟨a, b⟩ := p
  simp only [Function.comp, Prod.map, beq_iff_eq, Prod.mk.injEq, Int.natCast_inj]
  constructor
  · rintro ⟨ha, hb⟩
    subst ha hb
    exact ⟨(getElem_rank h1').symm, (getElem_rank h2').symm⟩
  · rintro ⟨ha, hb⟩
    subst ha hb
    exact ⟨rank_getElem hnd hi, rank_getElem hnd hj⟩

theorem map_range_getD {β : Type} (ss : List Int) (F : Int → β) :
    (List.range ss.length).map (fun i => F (ss.getD i 0)) = ss.map F := by
  apply List.ext_getElem
  · simp
  · intro i h1 h2
    have : i < ss.length := by simpa using h2
    simp [List.getD_eq_getElem?_getD, List.getElem?_eq_getElem this]

theorem tab_getD (ss : List Int) (g : Int → Int → Nat) :
    tab ss.length (fun i j => g (ss.getD i 0) (ss.getD j 0)) = ss.map (fun a => ss.map (fun b => g a b)) := by
  unfold tab
  rw [← map_range_getD ss (fun a => ss.map (fun b => g a b))]
  apply List.map_congr_left
  intro i _
  exact map_range_getD ss (fun b => g (ss.getD i 0) b)

theorem rank_pairs_nonneg {ss : List Int} {t : List Int} {lag : Nat} :
    ∀ p ∈ pairs lag (t.map (fun x => (rank ss x : Int))), 0 ≤ p.1 ∧ 0 ≤ p.2 := by
  intro p hp
  obtain ⟨h1, h2⟩ := mem_of_mem_pairs hp
  simp only [List.mem_map] at h1 h2
  obtain ⟨_, _, h1⟩ := h1
  obtain ⟨_, _, h2⟩ := h2
  omega

theorem countMatrix_rankTrajs (ts : Trajs) (lag : Nat) :
    countMatrix (rankTrajs ts) lag (states ts).length = specCounts ts lag := by
  rw [countMatrix_eq_tab, specCounts, ← tab_getD]
  apply tab_congr
  intro i j hi hj
  unfold count rankTrajs
  rw [List.map_map]
  congr 1
  apply List.map_congr_left
  intro t ht
  simp only [Function.comp]
  rw [countP_toNat_eq_count rank_pairs_nonneg,
    count_pairs_rank (states_nodup ts) (fun x hx => mem_states.mpr (List.mem_flatten.mpr ⟨t, ht, hx⟩)) lag hi hj]
  simp [List.getD_eq_getElem?_getD, List.getElem?_eq_getElem hi, List.getElem?_eq_getElem hj]

/-! ### row normalisation -/

theorem le_sum_of_mem {l : List Nat} {x : Nat} (h : x ∈ l) : x ≤ l.sum := by
  induction l with
  | nil => simp at h
  | cons y ys ih =>
    simp only [List.sum_cons]
    rcases List.mem_cons.mp h with rfl | h
    · omega
    · have := ih h; omega

theorem count_le_rowTotal {ts : Trajs} {lag : Nat} {a b : Int} (hb : b ∈ states ts) :
    count ts lag a b ≤ rowTotal ts lag a :=
  le_sum_of_mem (List.mem_map.mpr ⟨b, hb, rfl⟩)

theorem rowNormalize_specCounts (ts : Trajs) (lag : Nat) :
    rowNormalize (specCounts ts lag) = specT ts lag := by
  unfold rowNormalize specCounts specT
  rw [List.map_map]
  apply List.map_congr_left
  intro a _
  simp only [Function.comp]
  rw [List.map_map]
  apply List.map_congr_left
  intro b hb
  have hR : ((states ts).map (fun b => count ts lag a b)).sum = rowTotal ts lag a := rfl
  simp only [Function.comp, hR, T]
  by_cases h0 : rowTotal ts lag a = 0
  · have := count_le_rowTotal (lag := lag) (a := a) hb
    have hc : count ts lag a b = 0 := by omega
    simp [h0, hc]
  · simp [h0]

theorem estimate_eq_spec_of_window {ts : Trajs} {lo hi : Int} (hw : LabelWindow ts lo hi) (lag : Nat) :
    estimate ts lag = .ok (specCounts ts lag, specT ts lag, states ts) := by
  unfold estimate
  rw [mk'_eq_rank_of_window hw]
  simp only [StateTraj.nstates]
  rw [countMatrix_rankTrajs, rowNormalize_specCounts]

/-! ### the transition probabilities `T` -/

theorem T_nonneg (ts : Trajs) (lag : Nat) (a b : Int) : 0 ≤ T ts lag a b := by
  unfold T
  split
  · exact le_refl _
  · exact div_nonneg (Nat.cast_nonneg _) (Nat.cast_nonneg _)

theorem T_le_one {ts : Trajs} {lag : Nat} {a b : Int} (hb : b ∈ states ts) : T ts lag a b ≤ 1 := by
  unfold T
  split
  · exact zero_le_one
  · next h =>
    have hpos : (0 : Rat) < (rowTotal ts lag a : Rat) := by
      exact_mod_cast Nat.pos_of_ne_zero h
    rw [div_le_one hpos]
    exact_mod_cast count_le_rowTotal hb

theorem sum_map_div (l : List Int) (c : Int → Nat) (d : Rat) :
    (l.map (fun b => (c b : Rat) / d)).sum = (((l.map c).sum : Nat) : Rat) / d := by
  induction l with
  | nil => simp
  | cons x xs ih => simp only [List.map_cons, List.sum_cons, ih, Nat.cast_add, add_div]

theorem sum_map_zero {α : Type} (l : List α) : (l.map (fun _ => (0 : Rat))).sum = 0 := by
  induction l with
  | nil => rfl
  | cons x xs ih => simp only [List.map_cons, List.sum_cons, ih, add_zero]

theorem T_row_sum (ts : Trajs) (lag : Nat) (a : Int) :
    ((states ts).map (fun b => T ts lag a b)).sum = if rowTotal ts lag a = 0 then 0 else 1 := by
  by_cases h0 : rowTotal ts lag a = 0
  · simp only [T, h0, if_true]
    exact sum_map_zero _
  · simp only [T, h0, if_false]
    rw [sum_map_div]
    have : ((states ts).map (fun b => count ts lag a b)).sum = rowTotal ts lag a := rfl
    rw [this]
    have hne : (rowTotal ts lag a : Rat) ≠ 0 := by exact_mod_cast h0
    exact div_self hne

/-! ### the oracle accepts the exact answer -/

theorem zip_map_self {α β : Type} (l : List α) (f : α → β) : l.zip (l.map f) = l.map (fun a => (a, f a)) := by
  induction l with
  | nil => rfl
  | cons x xs ih => simp [ih]

theorem absQ_zero : absQ 0 = 0 := by simp [absQ]

theorem holds_specT (ts : Trajs) (lag : Nat) : holds ts lag (states ts) (specT ts lag) = true := by
  unfold holds specT
  simp only [zip_map_self, List.all_map, List.length_map, beq_self_eq_true, Bool.true_and,
    List.all_eq_true, Function.comp]
  intro a _ b _
  split
  · next h => simp [T, h]
  · next h =>
    have hne : (rowTotal ts lag a : Rat) ≠ 0 := by exact_mod_cast h
    simp only [T, h, if_false, decide_eq_true_eq]
    rw [div_mul_cancel₀ _ hne, sub_self, absQ_zero]
    exact div_nonneg (Nat.cast_nonneg _) (by norm_num)

/-! ### permutation and concatenation of the trajectory set -/

theorem count_append (A B : Trajs) (lag : Nat) (a b : Int) :
    count (A ++ B) lag a b = count A lag a b + count B lag a b := by
  simp [count, List.sum_append]

theorem count_perm {A B : Trajs} (h : A.Perm B) (lag : Nat) (a b : Int) :
    count A lag a b = count B lag a b :=
  (h.map _).sum_nat

theorem eq_of_pairwise_lt_of_mem_iff : ∀ (l₁ l₂ : List Int), l₁.Pairwise (· < ·) → l₂.Pairwise (· < ·) →
    (∀ x, x ∈ l₁ ↔ x ∈ l₂) → l₁ = l₂
  | [], [], _, _, _ => rfl
  | [], b :: bs, _, _, h => by simpa using h b
  | a :: as, [], _, _, h => by simpa using h a
  | a :: as, b :: bs, h1, h2, h => by
    rw [List.pairwise_cons] at h1 h2
    have hab : a = b := by
      have ha := (h a).mp List.mem_cons_self
      have hb := (h b).mpr List.mem_cons_self
      rcases List.mem_cons.mp ha with ha | ha
      · exact ha
      · rcases List.mem_cons.mp hb with hb | hb
        · exact hb.symm
        · have := h1.1 b hb; have := h2.1 a ha; omega
    subst hab
    congr 1
    apply eq_of_pairwise_lt_of_mem_iff as bs h1.2 h2.2
    intro x
    constructor
    · intro hx
      have := h1.1 x hx
      rcases List.mem_cons.mp ((h x).mp (List.mem_cons_of_mem _ hx)) with h' | h'
      · omega
      · exact h'
    · intro hx
      have := h2.1 x hx
      rcases List.mem_cons.mp ((h x).mpr (List.mem_cons_of_mem _ hx)) with h' | h'
      · omega
      · exact h'

theorem sortDedup_eq_of_mem_iff {l₁ l₂ : List Int} (h : ∀ x, x ∈ l₁ ↔ x ∈ l₂) : sortDedup l₁ = sortDedup l₂ :=
  eq_of_pairwise_lt_of_mem_iff _ _ (sortDedup_pairwise _) (sortDedup_pairwise _)
    (fun x => by rw [mem_sortDedup, mem_sortDedup, h])

theorem states_perm {A B : Trajs} (h : A.Perm B) : states A = states B :=
  sortDedup_eq_of_mem_iff (fun _ => h.flatten.mem_iff)

theorem states_append_comm (A B : Trajs) : states (A ++ B) = states (B ++ A) :=
  states_perm List.perm_append_comm

theorem mem_states_append {A B : Trajs} {x : Int} : x ∈ states (A ++ B) ↔ x ∈ states A ∨ x ∈ states B := by
  simp only [mem_states, List.flatten_append, List.mem_append]

theorem rowTotal_perm {A B : Trajs} (h : A.Perm B) (lag : Nat) (a : Int) :
    rowTotal A lag a = rowTotal B lag a := by
  unfold rowTotal
  rw [states_perm h]
  congr 1
  apply List.map_congr_left
  intro b _
  exact count_perm h lag a b

theorem T_perm {A B : Trajs} (h : A.Perm B) (lag : Nat) (a b : Int) : T A lag a b = T B lag a b := by
  unfold T
  rw [rowTotal_perm h, count_perm h]

theorem specT_perm {A B : Trajs} (h : A.Perm B) (lag : Nat) : specT A lag = specT B lag := by
  unfold specT
  rw [states_perm h]
  simp only [T_perm h]

theorem specCounts_perm {A B : Trajs} (h : A.Perm B) (lag : Nat) : specCounts A lag = specCounts B lag := by
  unfold specCounts
  rw [states_perm h]
  simp only [count_perm h]

/-! ### cutting one trajectory into two -/

theorem getD_append_left' (t₁ t₂ : List Int) {i : Nat} (h : i < t₁.length) :
    (t₁ ++ t₂).getD i 0 = t₁.getD i 0 := by
  simp [List.getD_eq_getElem?_getD, List.getElem?_append_left h]

theorem getD_append_right' (t₁ t₂ : List Int) (i : Nat) :
    (t₁ ++ t₂).getD (t₁.length + i) 0 = t₂.getD i 0 := by
  simp [List.getD_eq_getElem?_getD, List.getElem?_append_right]

theorem countP_range_of_le {N M : Nat} (h : N ≤ M) (p : Nat → Bool) :
    (List.range N).countP p = (List.range M).countP (fun i => decide (i < N) && p i) := by
  obtain ⟨d, rfl⟩ := Nat.exists_eq_add_of_le h
  rw [List.range_add, List.countP_append]
  have h2 : (List.map (fun x => N + x) (List.range d)).countP (fun i => decide (i < N) && p i) = 0 := by
    rw [List.countP_eq_zero]
    intro x hx
    simp only [List.mem_map, List.mem_range] at hx
    obtain ⟨y, _, rfl⟩ := hx
    simp
  rw [h2, Nat.add_zero]
  apply List.countP_congr
  intro i hi
  simp [List.mem_range.mp hi]

theorem countP_add3 (l : List Nat) (p p1 p2 p3 : Nat → Bool)
    (h : ∀ i ∈ l, (if p i then 1 else 0) = (if p1 i then 1 else 0) + (if p2 i then 1 else 0) + (if p3 i then 1 else (0 : Nat))) :
    l.countP p = l.countP p1 + l.countP p2 + l.countP p3 := by
  induction l with
  | nil => rfl
  | cons x xs ih =>
    have hx := h x List.mem_cons_self
    have := ih (fun i hi => h i (List.mem_cons_of_mem _ hi))
    simp only [List.countP_cons]
    omega

/-- the frame pair `(i, i+lag)` of a trajectory (default `0` outside) -/
def pairAt (lag : Nat) (t : List Int) (i : Nat) : Int × Int := (t.getD i 0, t.getD (i + lag) 0)

theorem count_pairs_eq_countP (lag : Nat) (t : List Int) (a b : Int) :
    (pairs lag t).count (a, b) = (List.range (t.length - lag)).countP (fun i => pairAt lag t i == (a, b)) := by
  rw [pairs_eq_range_getElem?, List.count_eq_countP, List.countP_map]
  rfl

/-- number of frame pairs `(i, i+lag)` of `t₁ ++ t₂` going `a → b` that start in `t₁` and end in `t₂` -/
def straddleCount (lag : Nat) (t₁ t₂ : List Int) (a b : Int) : Nat :=
  (List.range t₁.length).countP (fun i =>
    decide (t₁.length ≤ i + lag ∧ i + lag < (t₁ ++ t₂).length) && (pairAt lag (t₁ ++ t₂) i == (a, b)))

theorem count_pairs_append (lag : Nat) (t₁ t₂ : List Int) (a b : Int) :
    (pairs lag (t₁ ++ t₂)).count (a, b)
      = (pairs lag t₁).count (a, b) + straddleCount lag t₁ t₂ a b + (pairs lag t₂).count (a, b) := by
  have hM0 : (t₁ ++ t₂).length - lag ≤ t₁.length + t₂.length := by
    rw [List.length_append]; omega
  have hM1 : t₁.length - lag ≤ t₁.length + t₂.length := by omega
  have hM2 : t₂.length - lag ≤ t₂.length := by omega
  have hM3 : t₁.length ≤ t₁.length + t₂.length := by omega
  rw [count_pairs_eq_countP, count_pairs_eq_countP, count_pairs_eq_countP, straddleCount,
    countP_range_of_le hM0, countP_range_of_le hM1, countP_range_of_le hM2, countP_range_of_le hM3]
  -- the `t₂` part: shift by `t₁.length`
  have h2 : (List.range t₂.length).countP (fun i => decide (i < t₂.length - lag) && (pairAt lag t₂ i == (a, b)))
      = (List.range (t₁.length + t₂.length)).countP (fun i =>
          decide (t₁.length ≤ i ∧ i + lag < t₁.length + t₂.length) && (pairAt lag (t₁ ++ t₂) i == (a, b))) := by
    rw [List.range_add, List.countP_append, List.countP_map]
    have hz : (List.range t₁.length).countP (fun i =>
          decide (t₁.length ≤ i ∧ i + lag < t₁.length + t₂.length) && (pairAt lag (t₁ ++ t₂) i == (a, b))) = 0 := by
      rw [List.countP_eq_zero]
      intro i hi
      have := List.mem_range.mp hi
      simp; omega
    rw [hz, Nat.zero_add]
    apply List.countP_congr
    intro i hi
    have hi := List.mem_range.mp hi
    simp only [Function.comp, pairAt, Nat.add_assoc, getD_append_right', Bool.and_eq_true, decide_eq_true_eq]
    constructor
    · rintro ⟨h, h'⟩; exact ⟨by omega, h'⟩
    · rintro ⟨h, h'⟩; exact ⟨by omega, h'⟩
  rw [h2]
  apply countP_add3
  intro i hi
  have hi := List.mem_range.mp hi
  simp only [List.length_append]
  by_cases hp : pairAt lag (t₁ ++ t₂) i = (a, b)
  · by_cases c1 : i + lag < t₁.length
    · have e1 : pairAt lag t₁ i = (a, b) := by
        rw [← hp]; simp only [pairAt, getD_append_left' t₁ t₂ c1, getD_append_left' t₁ t₂ (by omega : i < t₁.length)]
      have d1 : i < t₁.length + t₂.length - lag := by omega
      have c3 : i < t₁.length - lag := by omega
      have c4 : ¬ (t₁.length ≤ i + lag) := by omega
      have c5 : ¬ (t₁.length ≤ i) := by omega
      simp [hp, e1, d1, c3, c4, c5]
    · have c3 : ¬ (i < t₁.length - lag) := by omega
      by_cases c2 : i + lag < t₁.length + t₂.length
      · have d1 : i < t₁.length + t₂.length - lag := by omega
        by_cases c5 : t₁.length ≤ i
        · have c6 : ¬ (i < t₁.length) := by omega
          simp [hp, c2, d1, c3, c5, c6]
        · have c6 : i < t₁.length := by omega
          have c7 : t₁.length ≤ i + lag := by omega
          simp [hp, c2, d1, c3, c5, c6, c7]
      · have d1 : ¬ (i < t₁.length + t₂.length - lag) := by omega
        simp [hp, c2, d1, c3]
  · by_cases c1 : i + lag < t₁.length
    · have e1 : ¬ pairAt lag t₁ i = (a, b) := by
        intro h; apply hp; rw [← h]
        simp only [pairAt, getD_append_left' t₁ t₂ c1, getD_append_left' t₁ t₂ (by omega : i < t₁.length)]
      simp [hp, e1]
    · have c3 : ¬ (i < t₁.length - lag) := by omega
      simp [hp, c3]

theorem straddle_eq_straddleCount (lag : Nat) (t₁ t₂ : List Int) (a b : Int) :
    straddle lag t₁ t₂ a b = straddleCount lag t₁ t₂ a b := by
  unfold straddle
  rw [count_pairs_append]
  omega

theorem count_singleton (t : List Int) (lag : Nat) (a b : Int) :
    count [t] lag a b = (pairs lag t).count (a, b) := by
  simp [count]

theorem count_cons (t : List Int) (ts : Trajs) (lag : Nat) (a b : Int) :
    count (t :: ts) lag a b = (pairs lag t).count (a, b) + count ts lag a b := by
  simp [count]

theorem count_cut (lag : Nat) (t₁ t₂ : List Int) (a b : Int) :
    count [t₁ ++ t₂] lag a b = count [t₁, t₂] lag a b + straddle lag t₁ t₂ a b := by
  rw [straddle_eq_straddleCount, count_singleton, count_cons, count_singleton, count_pairs_append]
  omega

/-- concatenating all trajectories into one can only add (seam) pairs -/
theorem count_le_count_flatten (ts : Trajs) (lag : Nat) (a b : Int) :
    count ts lag a b ≤ count [ts.flatten] lag a b := by
  induction ts with
  | nil => simp [count]
  | cons t ts ih =>
    rw [count_singleton] at ih
    rw [count_cons, count_singleton, List.flatten_cons, count_pairs_append]
    omega

theorem countP_interval_le (lo hi n : Nat) :
    (List.range n).countP (fun i => decide (lo ≤ i ∧ i < hi)) ≤ min n hi - lo := by
  induction n with
  | zero => simp
  | succ n ih =>
    rw [List.range_succ, List.countP_append]
    by_cases h : lo ≤ n ∧ n < hi
    · simp only [List.countP_cons, List.countP_nil, h, and_self, decide_true, if_true]; omega
    · simp only [List.countP_cons, List.countP_nil, h, decide_false, Bool.false_eq_true, if_false]; omega

theorem countP_le_of_imp_interval {p : Nat → Bool} {lo hi n : Nat} (h : ∀ i, i < n → p i = true → lo ≤ i ∧ i < hi) :
    (List.range n).countP p ≤ min n hi - lo := by
  refine Nat.le_trans (List.countP_mono_left ?_) (countP_interval_le lo hi n)
  intro i hi' hp
  simpa using h i (List.mem_range.mp hi') hp

theorem straddleCount_le (lag : Nat) (t₁ t₂ : List Int) (a b : Int) :
    straddleCount lag t₁ t₂ a b ≤ min lag (min t₁.length t₂.length) := by
  have : straddleCount lag t₁ t₂ a b
      ≤ min t₁.length (t₁.length + t₂.length - lag) - (t₁.length - lag) := by
    apply countP_le_of_imp_interval
    intro i hi hp
    simp only [List.length_append, Bool.and_eq_true, decide_eq_true_eq] at hp
    omega
  omega

end MsmVerif.Msm
