"""C14 — ergodicity predicates agree with the transition graph."""
import numpy as np

import core
import gen

PID = 'C14'
ANCHORS = [('src/msmhelper/utils/tests.py', ['is_quadratic', 'is_transition_matrix', 'is_ergodic', 'is_fuzzy_ergodic', 'ergodic_mask']),
           ('src/msmhelper/utils/_utils.py', ['matrix_power'])]
RULE = ('exhaustive: every count matrix with entries 0..2 for n=2 and (every 6th in quick / all in thorough) n=3, row-normalised; Wielandt extremal '
        'matrices n=2..8 (the only inputs separating exponent (n-1)^2+1 from anything smaller), cycles, random irreducible / periodic / reducible '
        '(two closed classes, ties, transient, absorbing, never-visited, never-entered) matrices n=2..8; non-stochastic (scaled), non-square and 1x1 '
        'inputs. Matrices whose Wielandt power has an entry within a factor 10 of the 1e-8 threshold are skipped and counted. '
        'Non-trivial = reducible, periodic or extremal structure; distinct by matrix.')
RELATION = 'is_transition_matrix / is_ergodic / is_fuzzy_ergodic / ergodic_mask = Linalg.isTmat / isErgodic / isFuzzyErgodic / ergodicMask on the exact value of the float matrix'
INPROCESS = False


def _mk(M, tag, src='gen'):
    return {'op': 'tests', 'M': M, 'tag': tag, 'src': src}


def cases(tier, rng, boost=1):
    yield _mk([[0.5, 0.5], [0.5, 0.5], [0.5, 0.5]], 'nonsquare')
    yield _mk([[1.0]], 'one_by_one')
    yield _mk([[0.5, 0.5, 0.0], [0.5, 0.5, 0.0]], 'nonsquare')
    # an ergodic matrix with ONE row whose sum misses 1 by more than the 1e-8 tolerance (but by less than any relative tolerance someone might add)
    for d_ in (1e-6, -1e-6, 2e-7, -3e-7):
        yield _mk([[0.5, 0.25, 0.25], [0.25 + d_, 0.5, 0.25], [0.25, 0.25, 0.5]], 'nonstochastic_row')
    for n in range(3, 7):
        for extra, tag2 in (([[1]], 'wielandt+absorbing'), ([[0]], 'wielandt+unvisited')):
            for reps in (1, 2):
                yield _mk([[float(v) for v in row] for row in gen.normalise_counts(gen.block_diag([gen.wielandt(n)] + [extra] * reps))], tag2)
    for c, tag in gen.count_matrices(tier, rng, boost):
        M = gen.normalise_counts(c)
        r = rng.random()
        if r < 0.04:
            M = M * rng.choice([0.5, 1.0 + 1e-6, 0.99])
            tag = 'nonstochastic'
        elif r < 0.06:
            M = M * (1 + 1e-10)           # inside the 1e-8 row-sum tolerance
            tag += '+eps'
        yield _mk([[float(v) for v in row] for row in M], tag)


_BUFFERS = {}


def real(case):
    from msmhelper.utils import tests as t
    M0 = np.array(case['M'], dtype=np.float64)
    if M0.ndim == 2:
        M = _BUFFERS.setdefault(M0.shape, np.empty_like(M0))     # buffer re-used across calls, overwritten in place
        np.copyto(M, M0)
    else:
        M = M0

    def one(fn):
        # a non-square input may be refused with an exception instead of `False`: both mean "not reported ergodic"
        try:
            return bool(fn(M))
        except ValueError:
            if M.ndim == 2 and M.shape[0] == M.shape[1]:
                raise
            return False

    def run():
        try:
            mask = [bool(b) for b in t.ergodic_mask(M)]
        except ValueError:
            mask = 'ValueError'
        return {'is_tmat': one(t.is_transition_matrix), 'is_ergodic': one(t.is_ergodic),
                'is_fuzzy': one(t.is_fuzzy_ergodic), 'mask': mask}
    out = core.call(run)
    out.pop('msg', None)
    return out


def request(case, obs):
    M = [[core.rat_str(v) for v in row] for row in case['M']]
    return {'op': 'tests', 'M': M, 'obs': obs if 'ok' in obs else {'ok': {'is_tmat': False, 'is_ergodic': False, 'is_fuzzy': False, 'mask': 'crash:' + obs.get('err', '')}}}


def agree(case, obs, reply):
    if reply.get('near_threshold'):
        return True
    return 'ok' in obs and reply['model']['ok'] == obs['ok']


def holds(case, obs, reply):
    return 'ok' in obs and bool(reply['holds'])


def nontrivial(case, obs, reply):
    return not reply.get('near_threshold') and (not reply.get('graph_ergodic') or case['tag'].startswith('wielandt'))


def key(case):
    return case['M']


def classify(case, obs, reply):
    return '%s/%s/%s' % (case['tag'], 'near' if reply.get('near_threshold') else 'far',
                         'erg' if obs.get('ok', {}).get('is_ergodic') else 'nonerg')


def known_match(k, case, obs, reply):
    return False
