/-
Refine/InitLemmas.lean — helper lemmas for `Refine/Init.lean` (task RP17): the pieces of the translated constructor
`StateTraj.__init__` (`Gen/StateTrajInit.lean`) in terms of the model (`Model/Basic.lean`).
-/
import MsmVerif.Gen.StateTrajInit
import MsmVerif.Model.Basic
import MsmVerif.Lemmas.StateTraj
import MsmVerif.Refine.Times
open MsmVerif MsmVerif.Gen

namespace MsmVerif.Refine.Init

/-- the translated `mh.utils.unique` never raises and returns the model's ascending distinct labels -/
theorem unique_eq_states (ts : List (List Int)) : UtilsRelabel.unique ts = .ok (states ts) := by
  simp only [UtilsRelabel.unique, npFlattenLL, Times.npUnique_eq_sortDedup, states]
  rfl

/-- `np.arange(a, a + n)` is `[a, a+1, …, a+n-1]` -/
theorem npArange_eq (a : Int) (n : Nat) :
    npArange a (a + (n : Int)) = (List.range n).map (fun (i : Nat) => a + (i : Int)) := by
  simp only [npArange, pyRange]
  congr 2
  omega

/-- the first branch test of the translation is the model's `isArange 0` -/
theorem arange0_test (ss : List Int) : (ss == npArange 0 (pyLen ss)) = isArange 0 ss := by
  have := npArange_eq 0 ss.length
  simp only [Int.zero_add] at this
  simp only [pyLen, this, isArange, Int.zero_add]

/-- the second branch test of the translation is the model's `isArange 1` -/
theorem arange1_test (ss : List Int) : (ss == npArange 1 (pyLen ss + 1)) = isArange 1 ss := by
  have := npArange_eq 1 ss.length
  rw [Int.add_comm] at this
  simp only [pyLen, this, isArange]

/-- the generic shape of the translated constructor after `unique` has been evaluated: three branches on the model's tests,
the third one being the call of the translated `rename_by_index` -/
theorem init_unfold (ts : List (List Int)) :
    StateTrajInit.init ts
      = if isArange 0 (states ts) then .ok (ts, states ts)
        else if isArange 1 (states ts) then .ok (ts.map (·.map (· - 1)), states ts)
        else UtilsRelabel.rename_by_index ts := by
  unfold StateTrajInit.init
  simp only [unique_eq_states, bind, Except.bind, pure, Except.pure, arange0_test, arange1_test, List.map_id']
  by_cases h0 : isArange 0 (states ts) = true
  · simp [h0]
  · by_cases h1 : isArange 1 (states ts) = true
    · have := (arange1_test (states ts)).trans h1
      simp only [beq_iff_eq] at this
      simp [h0, h1, ← this]
    · simp only [h0, h1]
      cases UtilsRelabel.rename_by_index ts <;> rfl

/-- the model constructor, projected to the pair the translation returns, in the same three-branch shape -/
theorem mk'_unfold (ts : List (List Int)) :
    (StateTraj.mk' ts).map (fun st => (st.idx, st.sts))
      = if isArange 0 (states ts) then .ok (ts, states ts)
        else if isArange 1 (states ts) then .ok (ts.map (·.map (· - 1)), states ts)
        else (shiftTrajs ts (states ts) ((List.range (states ts).length).map Int.ofNat)).map
              (fun r => (r, states ts)) := by
  unfold StateTraj.mk'
  by_cases h0 : isArange 0 (states ts) = true
  · simp [h0, Except.map]
  · by_cases h1 : isArange 1 (states ts) = true
    · simp [h0, h1, Except.map]
    · simp only [h0, h1]
      cases shiftTrajs ts (states ts) ((List.range (states ts).length).map Int.ofNat) <;> simp [Except.map]

/-- the lookup-table relabelling from the distinct labels of a non-empty set to `0..n-1` never raises (whatever the labels:
without a guard the 32-bit cast may wrap the values, but no error occurs) -/
theorem shiftTrajs_states_isOk (ts : List (List Int)) (hne : ts.flatten ≠ []) :
    ∃ r, shiftTrajs ts (states ts) ((List.range (states ts).length).map Int.ofNat) = .ok r := by
  have hss : states ts ≠ [] := by
    obtain ⟨x, hx⟩ := List.exists_mem_of_ne_nil _ hne
    exact List.ne_nil_of_mem (mem_states.mpr hx)
  have hnew : (List.range (states ts).length).map Int.ofNat ≠ [] := by
    simpa using hss
  obtain ⟨dmin, hdmin⟩ := minimum?_isSome hne
  obtain ⟨nmin, hnmin⟩ := minimum?_isSome hnew
  obtain ⟨dmax, hdmax⟩ := maximum?_isSome hne
  have hdmin' := minimum?_spec hdmin
  have hdmax' := maximum?_spec hdmax
  unfold shiftTrajs shiftFlat
  simp only [hdmin, hnmin, hdmax, List.length_map, List.length_range, ne_eq, not_true_eq_false, if_false]
  rw [assignAll_eq_foldl]
  · exact ⟨_, rfl⟩
  · intro p hp
    simp only [List.length_map, List.length_range]
    obtain ⟨o, v⟩ := p
    have := (List.of_mem_zip hp).1
    simp only [List.mem_map] at this
    obtain ⟨o', ho', rfl⟩ := this
    have h1 := hdmin'.2 o' (mem_states.mp ho')
    have h2 := hdmax'.2 o' (mem_states.mp ho')
    simp only
    omega

/-- the model constructor never raises -/
theorem mk'_isOk (ts : List (List Int)) : ∃ st, StateTraj.mk' ts = .ok st := by
  unfold StateTraj.mk'
  simp only
  split
  · exact ⟨_, rfl⟩
  · split
    · exact ⟨_, rfl⟩
    · next h0 _ =>
      have hne : ts.flatten ≠ [] := by
        intro he
        apply h0
        simp [states, he, sortDedup, isArange]
      obtain ⟨r, hr⟩ := shiftTrajs_states_isOk ts hne
      have : (List.range (states ts).length).map (fun (i : Nat) => (i : Int)) = (List.range (states ts).length).map Int.ofNat := rfl
      rw [this, hr]
      exact ⟨_, rfl⟩

end MsmVerif.Refine.Init
