/-
Props/C13.lean — property theorems for C13 (`md.compare_discretization`, similarity of two state discretizations).
Helper lemmas live in Lemmas/Compare.lean (and Lemmas/StateTraj.lean for the constructor `StateTraj.mk'`).

Model of the code: `Compare.frameIdx` (`np.where(flat == state)[0]`), `Events.intersect` (`_intersect`),
`Compare.similarityIdx` (`_compare_discretization`: per-state frame-index lists, pairwise merge counts, the two normalised
tables, the per-frame sum divided by the number of frames), `Compare.compare` (public entry point with its three
rejections).  Declarative reference: the contingency table `nij`/`rowTot`/`colTot` of two labelings `l1 l2 : List Int`
of the same frames, `directedSpec = (1/N) Σ_ab n_ab²/n_·b`, `symmetricSpec = (1/N) Σ_ab n_ab·max(n_ab/n_a·, n_ab/n_·b)`,
and their frame-by-frame forms `directedFrames`, `symmetricFrames`.  All arithmetic is exact (`Rat`, with `x/0 = 0`).
-/
import MsmVerif.Lemmas.Compare
import MsmVerif.Lemmas.StateTraj

namespace MsmVerif.C13
open MsmVerif MsmVerif.Compare

/-! ### 4. range -/

/-- The directed similarity lies in `[0,1]` (every frame contributes a ratio `n_ab/n_·b ∈ [0,1]`).  No hypothesis on
the two labelings is needed. -/
theorem range_directed (l1 l2 : List Int) : 0 ≤ directedFrames l1 l2 ∧ directedFrames l1 l2 ≤ 1 :=
  directedFrames_mem_unit l1 l2

/-- The symmetric similarity lies in `[0,1]`. -/
theorem range_symmetric (l1 l2 : List Int) : 0 ≤ symmetricFrames l1 l2 ∧ symmetricFrames l1 l2 ≤ 1 :=
  symmetricFrames_mem_unit l1 l2

example : directedFrames [1, 1, 2, 2] [1, 2, 2, 2] = 2 / 3 := by decide +kernel
example : symmetricFrames [1, 1, 2, 2] [1, 2, 2, 2] = 7 / 8 := by decide +kernel
example : directedFrames [1, 2] [5, 5] = 1 / 2 := by decide +kernel

/-! ### 5. identical labelings -/

/-- A non-empty labeling compared with itself has directed similarity exactly `1`. -/
theorem identical_directed (l : List Int) (h : l ≠ []) : directedFrames l l = 1 :=
  directedFrames_self l h

/-- A non-empty labeling compared with itself has symmetric similarity exactly `1`. -/
theorem identical_symmetric (l : List Int) (h : l ≠ []) : symmetricFrames l l = 1 :=
  symmetricFrames_self l h

example : ([3, 1, 3, 7] : List Int) ≠ [] := by decide
/-- the hypothesis `l ≠ []` cannot be dropped: on zero frames the value is `0/0 = 0` -/
example : directedFrames [] [] = 0 := by decide +kernel

/-! ### 6. symmetric ≥ directed -/

/-- The symmetric similarity is at least the directed one (frame by frame `max(x, y) ≥ y`). -/
theorem sym_ge_dir (l1 l2 : List Int) : directedFrames l1 l2 ≤ symmetricFrames l1 l2 :=
  directed_le_symmetric l1 l2

/-- the inequality can be strict -/
example : directedFrames [1, 1, 2, 2] [1, 2, 2, 2] < symmetricFrames [1, 1, 2, 2] [1, 2, 2, 2] := by decide +kernel

/-! ### 7. swapping the arguments -/

/-- The symmetric similarity does not change when the two labelings (of the same number of frames) are swapped. -/
theorem sym_swap (l1 l2 : List Int) (hlen : l1.length = l2.length) :
    symmetricFrames l1 l2 = symmetricFrames l2 l1 :=
  symmetricFrames_swap l1 l2 hlen

example : ([1, 1, 2, 2] : List Int).length = ([1, 2, 2, 2] : List Int).length := rfl
/-- the directed similarity is not symmetric -/
example : directedFrames [1, 1, 2, 2] [1, 2, 2, 2] ≠ directedFrames [1, 2, 2, 2] [1, 1, 2, 2] := by decide +kernel

/-! ### 8. refinement -/

/-- If the second labeling refines the first (frames with equal second label have equal first label — splitting states
is not penalised) the directed similarity is exactly `1`. -/
theorem refines (l1 l2 : List Int) (hlen : l1.length = l2.length) (hne : l1 ≠ [])
    (href : ∀ (i j : Nat) (hi : i < l2.length) (hj : j < l2.length),
      l2[i] = l2[j] → l1[i]'(by omega) = l1[j]'(by omega)) :
    directedFrames l1 l2 = 1 :=
  directedFrames_refines l1 l2 hlen hne href

/-- the same with the refinement stated on the list of frames `(label1, label2)` -/
theorem refines_frames (l1 l2 : List Int) (hlen : l1.length = l2.length) (hne : l1 ≠ [])
    (href : ∀ p ∈ l1.zip l2, ∀ q ∈ l1.zip l2, p.2 = q.2 → p.1 = q.1) :
    directedFrames l1 l2 = 1 :=
  (directedFrames_eq_one_iff l1 l2 hlen hne).mpr href

/-- Converse: the directed similarity is `1` ONLY for a refinement — merging states is always penalised.  Together:
`directedFrames l1 l2 = 1` iff frames with equal second label have equal first label. -/
theorem refines_iff (l1 l2 : List Int) (hlen : l1.length = l2.length) (hne : l1 ≠ []) :
    directedFrames l1 l2 = 1 ↔ ∀ p ∈ l1.zip l2, ∀ q ∈ l1.zip l2, p.2 = q.2 → p.1 = q.1 :=
  directedFrames_eq_one_iff l1 l2 hlen hne

/-- The lower end `0` of the range is never attained on real input: the directed (hence also the symmetric) similarity of
two labelings of the same `N ≥ 1` frames is strictly positive (each frame counts itself). -/
theorem directed_pos (l1 l2 : List Int) (hlen : l1.length = l2.length) (hne : l1 ≠ []) :
    0 < directedFrames l1 l2 :=
  directedFrames_pos l1 l2 hlen hne

/-- `[1,1,2,2]` is refined by `[4,5,6,6]` (state 1 split into 4 and 5): hypotheses satisfiable, value 1; merging instead
(`[4,5,6,6]` against `[1,1,2,2]`) is penalised. -/
example : ∀ p ∈ ([1, 1, 2, 2] : List Int).zip [4, 5, 6, 6], ∀ q ∈ ([1, 1, 2, 2] : List Int).zip [4, 5, 6, 6],
    p.2 = q.2 → p.1 = q.1 := by decide
example : directedFrames [4, 5, 6, 6] [1, 1, 2, 2] = 3 / 4 := by decide +kernel

/-! ### 9. renaming labels -/

/-- Renaming the labels of either labeling by maps that are injective on the labels present does not change the
directed similarity. -/
theorem rename_directed (l1 l2 : List Int) (hlen : l1.length = l2.length) (f g : Int → Int)
    (hf : ∀ x ∈ l1, ∀ y ∈ l1, f x = f y → x = y) (hg : ∀ x ∈ l2, ∀ y ∈ l2, g x = g y → x = y) :
    directedFrames (l1.map f) (l2.map g) = directedFrames l1 l2 :=
  directedFrames_map l1 l2 hlen f g hf hg

/-- Renaming the labels injectively does not change the symmetric similarity. -/
theorem rename_symmetric (l1 l2 : List Int) (hlen : l1.length = l2.length) (f g : Int → Int)
    (hf : ∀ x ∈ l1, ∀ y ∈ l1, f x = f y → x = y) (hg : ∀ x ∈ l2, ∀ y ∈ l2, g x = g y → x = y) :
    symmetricFrames (l1.map f) (l2.map g) = symmetricFrames l1 l2 :=
  symmetricFrames_map l1 l2 hlen f g hf hg

/-- `x ↦ x*x` is injective on the labels `1, 2` (not globally) -/
example : ∀ x ∈ ([1, 1, 2, 2] : List Int), ∀ y ∈ ([1, 1, 2, 2] : List Int), x * x = y * y → x = y := by decide

/-! ### 10. joint permutation of the frames; only the concatenated frames matter -/

/-- Permuting the frames of both labelings jointly does not change the directed similarity. -/
theorem perm_frames_directed (l1 l2 l1' l2' : List Int) (hlen : l1.length = l2.length) (hlen' : l1'.length = l2'.length)
    (h : (l1.zip l2).Perm (l1'.zip l2')) : directedFrames l1 l2 = directedFrames l1' l2' :=
  directedFrames_perm l1 l2 l1' l2' hlen hlen' h

/-- Permuting the frames of both labelings jointly does not change the symmetric similarity. -/
theorem perm_frames_symmetric (l1 l2 l1' l2' : List Int) (hlen : l1.length = l2.length) (hlen' : l1'.length = l2'.length)
    (h : (l1.zip l2).Perm (l1'.zip l2')) : symmetricFrames l1 l2 = symmetricFrames l1' l2' :=
  symmetricFrames_perm l1 l2 l1' l2' hlen hlen' h

example : (([1, 1, 2] : List Int).zip ([7, 8, 8] : List Int)).Perm (([2, 1, 1] : List Int).zip ([8, 7, 8] : List Int)) := by
  decide

/-- The public function only looks at the concatenated frames of its two trajectory sets: two inputs with the same
concatenation (e.g. the same frames cut into trajectories differently) give the same result, errors included. -/
theorem flat (t1 t2 t1' t2' : Trajs) (m : Nat) (h1 : t1.flatten = t1'.flatten) (h2 : t2.flatten = t2'.flatten) :
    Compare.compare t1 t2 m = Compare.compare t1' t2' m := by
  rw [compare_eq_compareFlat, compare_eq_compareFlat, h1, h2]

/-- What exactly `compare` depends on: the concatenated frames, through `compareFlat` (constructor on the flat data, the
three rejections, then `similarityIdx` on the flat index trajectories). -/
theorem flat_explicit (t1 t2 : Trajs) (m : Nat) :
    Compare.compare t1 t2 m = compareFlat t1.flatten t2.flatten m :=
  compare_eq_compareFlat t1 t2 m

example : ([[1, 1], [2, 2]] : Trajs).flatten = ([[1], [1, 2, 2]] : Trajs).flatten := by decide

/-! ### 1. merge count of the frame-index lists = contingency count -/

/-- For two trajectories of equal length the merge count `_intersect` of the ascending frame-index lists of state `a` in
the first and state `b` in the second is the contingency count `n_ab`. -/
theorem intersect_count (f1 f2 : List Int) (hlen : f1.length = f2.length) (a b : Int) :
    Events.intersect (frameIdx f1 a) (frameIdx f2 b) = nij f1 f2 a b :=
  intersect_frameIdx f1 f2 hlen a b

/-- The frame-index list of a state has as many entries as the state has frames. -/
theorem frameIdx_length (f : List Int) (s : Int) : (frameIdx f s).length = f.count s :=
  Compare.frameIdx_length f s

/-- The frame-index lists are strictly ascending (the precondition of `_intersect`). -/
theorem frameIdx_ascending (f : List Int) (s : Int) : (frameIdx f s).Pairwise (· < ·) :=
  frameIdx_pairwise f s

example : frameIdx [0, 1, 0, 1] 0 = [0, 2] ∧ frameIdx [1, 1, 0, 0] 0 = [2, 3] ∧ nij [0, 1, 0, 1] [1, 1, 0, 0] 0 0 = 1 := by
  decide

/-! ### 2. per-frame sums = contingency-table formulas -/

/-- The per-frame directed sum equals `(1/N) Σ_ab n_ab²/n_·b` over the distinct labels (pairs that do not occur
contribute `0`).  Holds for all lists. -/
theorem frames_eq_spec_directed (l1 l2 : List Int) : directedFrames l1 l2 = directedSpec l1 l2 :=
  directedFrames_eq_spec l1 l2

/-- The per-frame symmetric sum equals `(1/N) Σ_ab n_ab·max(n_ab/n_a·, n_ab/n_·b)`. -/
theorem frames_eq_spec_symmetric (l1 l2 : List Int) : symmetricFrames l1 l2 = symmetricSpec l1 l2 :=
  symmetricFrames_eq_spec l1 l2

example : directedSpec [1, 1, 2, 2] [1, 2, 2, 2] = 2 / 3 := by decide +kernel

/-! ### 3. the code path equals the per-frame formulas -/

/-- On index trajectories (entries in `[0, n1)` resp. `[0, n2)`, equal length) the code — frame-index lists, pairwise
`_intersect`, table normalised by the column totals, per-frame lookup, mean — computes the directed per-frame formula. -/
theorem model_directed (f1 f2 : List Int) (n1 n2 : Nat) (hlen : f1.length = f2.length)
    (h1 : ∀ x ∈ f1, 0 ≤ x ∧ x < n1) (h2 : ∀ y ∈ f2, 0 ≤ y ∧ y < n2) :
    similarityIdx f1 f2 n1 n2 false = directedFrames f1 f2 :=
  similarityIdx_directed f1 f2 n1 n2 hlen h1 h2

/-- The same for the symmetric method (maximum of the row- and column-normalised table entries per frame). -/
theorem model_symmetric (f1 f2 : List Int) (n1 n2 : Nat) (hlen : f1.length = f2.length)
    (h1 : ∀ x ∈ f1, 0 ≤ x ∧ x < n1) (h2 : ∀ y ∈ f2, 0 ≤ y ∧ y < n2) :
    similarityIdx f1 f2 n1 n2 true = symmetricFrames f1 f2 :=
  similarityIdx_symmetric f1 f2 n1 n2 hlen h1 h2

example : (∀ x ∈ ([0, 0, 1, 1] : List Int), 0 ≤ x ∧ x < (2 : Nat)) ∧
    (∀ y ∈ ([0, 1, 2, 2] : List Int), 0 ≤ y ∧ y < (3 : Nat)) := by decide

/-! ### 11. rejections -/

/-- When both constructors succeed, `compare` raises `ValueError` exactly when the method is unknown (`m > 1`), the frame
counts differ, or one of the labelings has exactly one state; otherwise it returns a value. -/
theorem reject (t1 t2 : Trajs) (m : Nat) (s1 s2 : StateTraj)
    (h1 : StateTraj.mk' t1 = .ok s1) (h2 : StateTraj.mk' t2 = .ok s2) :
    Compare.compare t1 t2 m = .error .value ↔
      m > 1 ∨ t1.flatten.length ≠ t2.flatten.length ∨ (states t1).length = 1 ∨ (states t2).length = 1 :=
  compare_reject_iff t1 t2 m s1 s2 h1 h2

example : Compare.compare [[1, 1], [2, 2]] [[3, 3, 3, 3]] 0 = .error .value := by decide +kernel
example : Compare.compare [[1, 1], [2, 2]] [[3, 4, 3]] 1 = .error .value := by decide +kernel
example : Compare.compare [[1, 1], [2, 2]] [[3, 4, 3, 3]] 2 = .error .value := by decide +kernel

/-! ### the public function equals the contingency-table formula -/

/-- Main statement of C13.  For labels inside the 32-bit guard `[-2^29, 2^29]`, a known method (`0` symmetric,
`1` directed), equal frame counts and neither labeling having exactly one state, `compare_discretization` returns
exactly the contingency-table value of the raw labels: `symmetricSpec` resp. `directedSpec` of the concatenated frames. -/
theorem compare_eq_spec (t1 t2 : Trajs) (m : Nat) (hg1 : LabelGuard t1) (hg2 : LabelGuard t2)
    (hm : m ≤ 1) (hlen : t1.flatten.length = t2.flatten.length)
    (hs1 : (states t1).length ≠ 1) (hs2 : (states t2).length ≠ 1) :
    Compare.compare t1 t2 m =
      .ok (if m = 0 then symmetricSpec t1.flatten t2.flatten else directedSpec t1.flatten t2.flatten) :=
  compare_eq_spec_of_rank t1 t2 m (mk'_eq_rank hg1) (mk'_eq_rank hg2) hm hlen hs1 hs2

example : LabelGuard [[1, 1], [5, 5]] ∧ LabelGuard [[3, 4, 4], [4]] ∧
    ([[1, 1], [5, 5]] : Trajs).flatten.length = ([[3, 4, 4], [4]] : Trajs).flatten.length ∧
    (states [[1, 1], [5, 5]]).length ≠ 1 ∧ (states [[3, 4, 4], [4]]).length ≠ 1 := by decide
example : Compare.compare [[1, 1], [5, 5]] [[3, 4, 4], [4]] 0 = .ok (7 / 8) := by decide +kernel

/-- Under the label guard the model of the public function satisfies the executable oracle `Compare.holds` that is
checked against the real Python output (value branch and rejection branch). -/
theorem holds_model (t1 t2 : Trajs) (m : Nat) (hg1 : LabelGuard t1) (hg2 : LabelGuard t2) :
    holds t1 t2 m (Compare.compare t1 t2 m) = true :=
  holds_compare_of_rank t1 t2 m (mk'_eq_rank hg1) (mk'_eq_rank hg2)

end MsmVerif.C13
