"""Generators shared by the property checks: label alphabets, trajectory sets, container forms."""
import itertools

import numpy as np

ALPHABET_CLASSES = ['zero', 'one', 'gapped', 'negative', 'unsorted']


def alphabet(rng, n, cls=None):
    """n distinct labels of the given class; index i ↦ label (in *index order of first use*, not sorted)."""
    cls = cls or rng.choice(ALPHABET_CLASSES)
    if cls == 'zero':
        labs = list(range(n))
    elif cls == 'one':
        labs = list(range(1, n + 1))
    elif cls == 'gapped':
        labs = sorted(rng.sample(range(0, 10 * n + 5), n))
    elif cls == 'negative':
        labs = sorted(rng.sample(range(-6 * n - 3, 4 * n + 3), n))
        if labs[0] >= 0:
            labs[0] = -1 - rng.randint(0, 5)
        if rng.random() < 0.3:
            labs = sorted(set(labs) | {-1})[:n] if len(set(labs) | {-1}) >= n else labs
    else:  # unsorted first appearance: labels permuted relative to index
        labs = rng.sample(range(-20, 60), n)
    if cls in ('zero', 'one', 'gapped', 'negative') and rng.random() < 0.5:
        rng.shuffle(labs)
    return labs, cls


def all_trajs(nlabels, maxlen, minlen=1):
    """all index trajectories over nlabels labels with minlen ≤ length ≤ maxlen, canonical order"""
    for L in range(minlen, maxlen + 1):
        for t in itertools.product(range(nlabels), repeat=L):
            yield list(t)


def random_traj(rng, n, length, sticky=0.6):
    """index trajectory with sticky dynamics (long runs are what coring / events need)"""
    if length == 0:
        return []
    t = [rng.randrange(n)]
    for _ in range(length - 1):
        t.append(t[-1] if rng.random() < sticky else rng.randrange(n))
    return t


def random_trajs(rng, n, ntraj, lo, hi, sticky=0.6, distinct_lengths=True):
    lens = set()
    out = []
    for _ in range(ntraj):
        L = rng.randint(lo, hi)
        tries = 0
        while distinct_lengths and L in lens and tries < 20:
            L = rng.randint(lo, hi)
            tries += 1
        lens.add(L)
        out.append(random_traj(rng, n, L, sticky))
    return out


def relabel(trajs, labs):
    return [[labs[i] for i in t] for t in trajs]


def min_dtype(trajs):
    flat = [x for t in trajs for x in t] or [0]
    lo, hi = min(flat), max(flat)
    for dt in (np.int8, np.int16, np.int32, np.int64):
        ii = np.iinfo(dt)
        if ii.min <= lo and hi <= ii.max:
            return dt
    return np.int64


DTYPES = [np.int8, np.int16, np.int32, np.int64]


def fitting_dtypes(trajs):
    m = min_dtype(trajs)
    return DTYPES[DTYPES.index(m):]


def as_arrays(trajs, rng=None, mixed=False):
    """list of ndarrays; with `mixed` each array gets its own fitting signed dtype"""
    fit = fitting_dtypes(trajs)
    if rng is None:
        return [np.array(t, dtype=np.int64) for t in trajs]
    if mixed:
        return [np.array(t, dtype=rng.choice(fit)) for t in trajs]
    dt = rng.choice(fit)
    return [np.array(t, dtype=dt) for t in trajs]


FORMS = ['list_of_lists', 'list_of_arrays', 'mixed_arrays', 'statetraj', 'array2d', 'list_of_ints', 'array1d']


def to_form(trajs, form, rng):
    """container form of the same trajectories (forms that do not apply fall back to list_of_arrays)"""
    import msmhelper as mh
    if form == 'list_of_ints' and len(trajs) == 1:
        return list(trajs[0])
    if form == 'array1d' and len(trajs) == 1:
        return np.array(trajs[0], dtype=rng.choice(fitting_dtypes(trajs)))
    if form == 'array2d' and len(set(map(len, trajs))) == 1 and len(trajs[0]) > 0:
        return np.array(trajs, dtype=rng.choice(fitting_dtypes(trajs)))
    if form == 'list_of_lists' and all(len(t) > 0 for t in trajs):
        return [list(t) for t in trajs]
    if form == 'mixed_arrays':
        return as_arrays(trajs, rng, mixed=True)
    if form == 'statetraj':
        return mh.StateTraj(as_arrays(trajs, rng))
    return as_arrays(trajs, rng)
