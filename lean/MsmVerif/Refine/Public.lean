/-
Refine/Public.lean — task RP20 (properties C01, C03, C11, C17): END-TO-END refinement of the two public estimators of
`src/msmhelper/statetraj.py`.

* `StateTraj(trajs).estimate_markov_model(lag)`: translated constructor (`Gen/StateTrajInit.lean`) followed by the translated method
  (`Gen/StateTrajEst.lean`, which calls the translated `_estimate_markov_model`, count matrix and row normalisation) is the public
  model `Msm.estimate` — hence the lagged-count spec of C01 (`public_estimate_meets_spec`, `public_estimate_holds`), and it is
  invariant under order-preserving relabelling (`public_estimate_relabel`, C17).
* `LumpedStateTraj(macro, micro).estimate_markov_model(lag)`: translated constructor (`Gen/LumpedAcc.lean`) followed by the translated
  method (`Gen/LumpedEst.lean`: micro model → `is_ergodic` → `_state_assignment_idx` → Hummer–Szabo projection) raises `TypeError`
  iff the micro model `T_i` (the `T` of `Msm.estimate micro lag`) is not ergodic and is otherwise `Linalg.hsProject T_i assign k positive`
  labelled by the ascending macro states, when the oracle `mh.msm.peq` returns the stationary vector of `T_i` the model uses.

Everything is composition of the refinement theorems of the pieces (`Refine/Init`, `Small`, `Ergodic`, `Accessors`, `HS`); helper
lemmas: `Refine/PublicLemmas.lean`.

Finding (section 3): on ALL-EMPTY data (no frame at all) the translated lumped estimator raises `ValueError` — the translated
`is_ergodic` answers `True` on the `0 × 0` matrix and `shift_data` then fails on the empty assignment — whereas the model's
`Linalg.isErgodic [] = false` predicts `TypeError`; hence the hypothesis `mic.flatten ≠ []` of the lumped theorems.
-/
import MsmVerif.Refine.PublicLemmas

namespace MsmVerif.Refine.Public
open MsmVerif MsmVerif.Gen

/-! ## 1. `StateTraj(trajs).estimate_markov_model(lag)` -/

/-- **C01 end to end.**  For every list of label trajectories (ragged, empty ones allowed) with labels in `[-2^29, 2^29]` and every
lag ≥ 1: running the translated constructor `StateTraj.__init__` and then the translated method `estimate_markov_model` on the object
state it left — for both values of the `DISABLE_JIT` configuration flag — raises nothing and returns exactly what the public model
`Msm.estimate ts lag` returns: the transition matrix `T` (row-normalised lagged counts over the ascending state list) and that state
list. -/
theorem public_estimate_refines (ts : Trajs) (hguard : LabelGuard ts) (lag : Nat) (hlag : 1 ≤ lag) (flag : Bool) :
    (do let (i, s) ← Gen.StateTrajInit.init ts; Gen.StateTrajEst.estimate_markov_model i s (lag : Int) flag)
      = (Msm.estimate ts lag).map (fun r => (r.2.1, r.2.2)) := by
  rw [Init.init_eq_rank ts hguard, estimate_eq hguard]
  exact est_on_rank ts lag hlag flag

/-- **C01 end to end, against the spec.**  Under the same hypotheses the constructed-then-estimated result is — without any error —
the pair (`Msm.specT ts lag`, `states ts`): entry `(a, b)` of the matrix, `a, b` running over the ascending distinct labels, is the
number of frame pairs `(t, t + lag)` inside one and the same trajectory going `a → b`, divided by the number of such pairs leaving
`a` (0 if there is none); the second component is the ascending list of distinct labels. -/
theorem public_estimate_meets_spec (ts : Trajs) (hguard : LabelGuard ts) (lag : Nat) (hlag : 1 ≤ lag) (flag : Bool) :
    (do let (i, s) ← Gen.StateTrajInit.init ts; Gen.StateTrajEst.estimate_markov_model i s (lag : Int) flag)
      = .ok (Msm.specT ts lag, states ts) := by
  rw [public_estimate_refines ts hguard lag hlag flag, C01.model_meets_spec ts lag hlag hguard]
  rfl

/-- **C01 end to end, the oracle of the differential harness.**  Whatever the constructed-then-estimated call returns (it returns a
result, see `public_estimate_meets_spec`) is accepted by the C01 oracle `Msm.holds`: the observed state list is the ascending list of
distinct labels and every matrix entry is `count / rowTotal` (exactly, hence within one rounding). -/
theorem public_estimate_holds (ts : Trajs) (hguard : LabelGuard ts) (lag : Nat) (hlag : 1 ≤ lag) (flag : Bool)
    {T : List (List Rat)} {ss : List Int}
    (h : (do let (i, s) ← Gen.StateTrajInit.init ts; Gen.StateTrajEst.estimate_markov_model i s (lag : Int) flag) = .ok (T, ss)) :
    Msm.holds ts lag ss T = true := by
  rw [public_estimate_meets_spec ts hguard lag hlag flag, Except.ok.injEq, Prod.mk.injEq] at h
  exact C01.holds_of_exact ts lag ss T h.2.symm h.1.symm

/-- **Every entry of the estimated matrix (C01 / C11).**  Under the same hypotheses the call returns a matrix `T` and the state list
`states ts` such that for all positions `i, j` of the state list the entry `T[i][j]` is `Msm.T ts lag (states[i]) (states[j])` —
lagged transition counts taken inside single trajectories only (no pair across a seam between two trajectories,
`C01.no_seam`), only at the given lag (`C01.no_other_lag`), divided by the row total. -/
theorem public_estimate_entry (ts : Trajs) (hguard : LabelGuard ts) (lag : Nat) (hlag : 1 ≤ lag) (flag : Bool) :
    ∃ T, (do let (i, s) ← Gen.StateTrajInit.init ts; Gen.StateTrajEst.estimate_markov_model i s (lag : Int) flag)
        = .ok (T, states ts) ∧
      ∀ i j (hi : i < (states ts).length) (hj : j < (states ts).length),
        (T.getD i []).getD j 0 = Msm.T ts lag (states ts)[i] (states ts)[j] := by
  refine ⟨Msm.specT ts lag, public_estimate_meets_spec ts hguard lag hlag flag, ?_⟩
  intro i j hi hj
  simp [Msm.specT, List.getD_eq_getElem?_getD, hi, hj]

/-- **C17 end to end: representation independence.**  If the relabelling `f` is strictly increasing on the labels present and both
the original and the relabelled set lie within the label guard, constructing and estimating on the relabelled set returns the SAME
transition matrix as on the original set, and the relabelled state list `f(states)` in the same order. -/
theorem public_estimate_relabel (f : Int → Int) (ts : Trajs)
    (hf : ∀ a ∈ ts.flatten, ∀ b ∈ ts.flatten, a < b → f a < f b)
    (hguard : LabelGuard ts) (hguard' : LabelGuard (ts.map (·.map f))) (lag : Nat) (hlag : 1 ≤ lag) (flag : Bool) :
    (do let (i, s) ← Gen.StateTrajInit.init (ts.map (fun (t : List Int) => t.map f)); Gen.StateTrajEst.estimate_markov_model i s (lag : Int) flag)
      = .ok (Msm.specT ts lag, (states ts).map f) := by
  have h0 := public_estimate_meets_spec ts hguard lag hlag flag
  rw [Init.init_eq_rank ts hguard] at h0
  have h0' : Gen.StateTrajEst.estimate_markov_model (rankTrajs ts) (states ts) (lag : Int) flag
      = .ok (Msm.specT ts lag, states ts) := h0
  rw [est_on_rank ts lag hlag flag, Except.ok.injEq, Prod.mk.injEq] at h0'
  rw [(Init.init_relabel f ts hf hguard hguard').2]
  show Gen.StateTrajEst.estimate_markov_model (rankTrajs ts) ((states ts).map f) (lag : Int) flag = _
  rw [est_on_rank_perm ts _ (List.length_map _) lag hlag flag, h0'.1]

/-! non-vacuity: a ragged set with negative labels and an empty trajectory -/

example : LabelGuard [[-5, 3, 7, -5, 7, 3, -5, -5], [3, 3, 7, 7], []] ∧ 1 ≤ 1 := by decide
example : (do let (i, s) ← Gen.StateTrajInit.init [[-5, 3, 7, -5, 7, 3, -5, -5], [3, 3, 7, 7], []]
              Gen.StateTrajEst.estimate_markov_model i s ((1 : Nat) : Int) true)
    = .ok ([[1/3, 1/3, 1/3], [1/4, 1/4, 1/2], [1/3, 1/3, 1/3]], [-5, 3, 7]) := by
  rw [public_estimate_meets_spec _ (by decide) 1 (by decide)]
  decide +kernel
example : (do let (i, s) ← Gen.StateTrajInit.init [[-5, 3, 7, -5, 7, 3, -5, -5], [3, 3, 7, 7], []]
              Gen.StateTrajEst.estimate_markov_model i s 1 false)
    = .ok ([[1/3, 1/3, 1/3], [1/4, 1/4, 1/2], [1/3, 1/3, 1/3]], [-5, 3, 7]) := by decide +kernel
example : (Msm.estimate [[-5, 3, 7, -5, 7, 3, -5, -5], [3, 3, 7, 7], []] 2).map (fun r => (r.2.1, r.2.2))
    = .ok ([[0, 1/2, 1/2], [1/2, 0, 1/2], [1/2, 0, 1/2]], [-5, 3, 7]) := by decide +kernel
/-- `public_estimate_relabel`: `x ↦ 2x + 3` on the labels `-5, 3, 7` -/
example : (∀ a ∈ ([[-5, 3, 7], [3, 7]] : Trajs).flatten, ∀ b ∈ ([[-5, 3, 7], [3, 7]] : Trajs).flatten,
    a < b → 2 * a + 3 < 2 * b + 3) ∧ LabelGuard (([[-5, 3, 7], [3, 7]] : Trajs).map (·.map (fun x => 2 * x + 3))) := by decide

/-! ## 2. `LumpedStateTraj(macro, micro).estimate_markov_model(lag)` -/

/-- **An ergodic micro model has a stationary vector.**  For guarded micro data and lag ≥ 1, if the micro model `T_i` of
`Msm.estimate mic lag` is ergodic, every row of `T_i` sums to one (no state without outgoing transition) and the model's solver
`Linalg.stationary T_i` returns a vector — so the oracle hypothesis of `lumped_estimate_refines` is never vacuous. -/
theorem lumped_micro_stationary (mic : Trajs) (hguard : LabelGuard mic) (lag : Nat) (hlag : 1 ≤ lag)
    {c : Msm.NatMat} {T_i : Msm.RatMat} {ss : List Int} (hest : Msm.estimate mic lag = .ok (c, T_i, ss))
    (herg : Linalg.isErgodic T_i = true) :
    (∀ r ∈ T_i, r.sum = 1) ∧ ∃ pi, Linalg.stationary T_i = some pi := by
  obtain ⟨rfl, -⟩ := of_estimate hguard hest
  exact micro_stationary hguard lag hlag herg

/-- **C03 end to end, ergodic micro model.**  Let `mac = f ∘ mic` be a consistent lumping (macro and micro trajectories of the same
shape, every micro state carrying the one macro label `f s`), all micro and macro labels in `[-2^29, 2^29]`, the data not all-empty,
lag ≥ 1, and let `T_i` be the transition matrix of the public model `Msm.estimate mic lag`.  If `T_i` is ergodic
(`Linalg.isErgodic`) and the oracle `mh.msm.peq` returns on `T_i` the stationary vector the model uses (which exists,
`lumped_micro_stationary`), then constructing the lumped object (translated `LumpedStateTraj.__init__`) and estimating (translated
method, either value of the configuration flag) gives exactly the model's Hummer–Szabo projection
`hsProject T_i assign k positive` together with the ascending macro state list — where `assign` lists for every micro state
(ascending) the position of its macro label in the ascending macro state list and `k` is the number of macro states; `LinAlgError`
(`Err.other`) is raised exactly when the model returns `none` (a singular matrix); no `TypeError`, `IndexError` or `ValueError`
occurs. -/
theorem lumped_estimate_refines (ext_peq : List (List Rat) → Py (List Rat)) (mac mic : Trajs) (f : Int → Int) (pos : Bool)
    (lag : Nat) (hlag : 1 ≤ lag) (flag : Bool)
    (hf : mac = mic.map (·.map f)) (hguard : LabelGuard mic) (hguardM : LabelGuard mac) (hne : mic.flatten ≠ [])
    {c : Msm.NatMat} {T_i : Msm.RatMat} {ss : List Int} (hest : Msm.estimate mic lag = .ok (c, T_i, ss))
    (herg : Linalg.isErgodic T_i = true)
    (hpeq : ∀ pi, Linalg.stationary T_i = some pi → ext_peq T_i = .ok pi) :
    (do let (p, ms, i, s, a) ← Gen.LumpedAcc.init mac mic pos
        Gen.LumpedEst.estimate_markov_model ext_peq i s ms a p (lag : Int) flag)
      = (match Linalg.hsProject T_i ((states mic).map (fun s => rank (states mac) (f s))) (states mac).length pos with
         | some M => .ok (M, states mac)
         | none => .error .other) := by
  obtain ⟨rfl, -⟩ := of_estimate hguard hest
  obtain ⟨-, hsub, hsup, hga⟩ := consistent_facts hf hguardM
  obtain ⟨-, pi, hstat⟩ := micro_stationary hguard lag hlag herg
  rw [Accessors.lumped_init_refines mac mic pos (by rw [hf]; simp) hguard, ← assignIdx_consistent hf]
  exact lumped_est_ergodic ext_peq mic mac pos lag hlag flag hne hsub hsup hga (Accessors.states_length_le hguardM) herg pi
    hstat (hpeq pi hstat)

/-- **C03 end to end, consequences for the returned matrix.**  Under the hypotheses of `lumped_estimate_refines`, whenever the call
returns a result `(M, ms)`: `ms` is the ascending macro state list, `M` is a `k × k` matrix (`k` macro states) all of whose rows sum
to one, and with `positive = True` all its entries are non-negative (through `C03.rows_sum_one`, `C03.positive_rows_sum_one`). -/
theorem lumped_estimate_stochastic (ext_peq : List (List Rat) → Py (List Rat)) (mac mic : Trajs) (f : Int → Int) (pos : Bool)
    (lag : Nat) (hlag : 1 ≤ lag) (flag : Bool)
    (hf : mac = mic.map (·.map f)) (hguard : LabelGuard mic) (hguardM : LabelGuard mac) (hne : mic.flatten ≠ [])
    {c : Msm.NatMat} {T_i : Msm.RatMat} {ss : List Int} (hest : Msm.estimate mic lag = .ok (c, T_i, ss))
    (herg : Linalg.isErgodic T_i = true)
    (hpeq : ∀ pi, Linalg.stationary T_i = some pi → ext_peq T_i = .ok pi)
    {M : List (List Rat)} {ms : List Int}
    (h : (do let (p, ms, i, s, a) ← Gen.LumpedAcc.init mac mic pos
             Gen.LumpedEst.estimate_markov_model ext_peq i s ms a p (lag : Int) flag) = .ok (M, ms)) :
    ms = states mac ∧ M.length = (states mac).length ∧
      (∀ row ∈ M, row.length = (states mac).length ∧ row.sum = 1) ∧ (pos = true → ∀ row ∈ M, ∀ x ∈ row, 0 ≤ x) := by
  rw [lumped_estimate_refines ext_peq mac mic f pos lag hlag flag hf hguard hguardM hne hest herg hpeq] at h
  obtain ⟨hsum, -⟩ := lumped_micro_stationary mic hguard lag hlag hest herg
  obtain ⟨rfl, -⟩ := of_estimate hguard hest
  obtain ⟨hasg, hsub, -, -⟩ := consistent_facts hf hguardM
  have hlen : ((states mic).map (fun s => rank (states mac) (f s))).length = (states mic).length := List.length_map _
  have hlt : ∀ s ∈ (states mic).map (fun s => rank (states mac) (f s)), s < (states mac).length := by
    intro s hs
    obtain ⟨a, ha, rfl⟩ := List.mem_map.mp hs
    exact rank_lt (hsub _ (by rw [hasg]; exact List.mem_map.mpr ⟨a, ha, rfl⟩))
  cases hp : Linalg.hsProject (microT mic lag) ((states mic).map (fun s => rank (states mac) (f s))) (states mac).length pos with
  | none => rw [hp] at h; cases h
  | some R =>
    rw [hp, Except.ok.injEq, Prod.mk.injEq] at h
    obtain ⟨rfl, rfl⟩ := h
    cases pos with
    | false =>
      obtain ⟨⟨h1, h2⟩, h3⟩ := C03.rows_sum_one (microT_wf mic lag) hsum hlen hlt hp
      exact ⟨rfl, h1, fun row hrow => ⟨h2 row hrow, h3 row hrow⟩, fun hh => by cases hh⟩
    | true =>
      obtain ⟨⟨h1, h2⟩, h3⟩ := C03.positive_rows_sum_one (microT_wf mic lag) hsum hlen hlt hp
      exact ⟨rfl, h1, fun row hrow => ⟨h2 row hrow, (h3 row hrow).2⟩, fun _ row hrow => (h3 row hrow).1⟩

/-- **C03 end to end, the ergodicity check.**  For macro and micro trajectories of the same shape (ANY lumping, consistent or not,
any macro labels), micro labels in `[-2^29, 2^29]`, data not all-empty, lag ≥ 1: if the micro model `T_i` of `Msm.estimate mic lag`
is NOT ergodic, constructing the lumped object and estimating raises `TypeError` — whatever the oracle `peq` would do (it is not
consulted), for either value of the configuration flag and of `positive`. -/
theorem lumped_estimate_not_ergodic (ext_peq : List (List Rat) → Py (List Rat)) (mac mic : Trajs) (pos : Bool)
    (lag : Nat) (hlag : 1 ≤ lag) (flag : Bool)
    (hshape : mac.map List.length = mic.map List.length) (hguard : LabelGuard mic) (hne : mic.flatten ≠ [])
    {c : Msm.NatMat} {T_i : Msm.RatMat} {ss : List Int} (hest : Msm.estimate mic lag = .ok (c, T_i, ss))
    (herg : Linalg.isErgodic T_i = false) :
    (do let (p, ms, i, s, a) ← Gen.LumpedAcc.init mac mic pos
        Gen.LumpedEst.estimate_markov_model ext_peq i s ms a p (lag : Int) flag)
      = .error .type := by
  obtain ⟨rfl, -⟩ := of_estimate hguard hest
  rw [Accessors.lumped_init_refines mac mic pos hshape hguard]
  exact lumped_est_not_ergodic ext_peq mic _ _ pos lag hlag flag hne herg

/-- **`TypeError` iff the micro model is not ergodic.**  For a consistent lumping `mac = f ∘ mic` (labels within the guard, data not
all-empty, lag ≥ 1) and an oracle that returns the stationary vector of `T_i` the model uses: the
constructed-then-estimated call raises `TypeError` if and only if the micro model `T_i` of `Msm.estimate mic lag` is not ergodic. -/
theorem lumped_estimate_type_error_iff (ext_peq : List (List Rat) → Py (List Rat)) (mac mic : Trajs) (f : Int → Int) (pos : Bool)
    (lag : Nat) (hlag : 1 ≤ lag) (flag : Bool)
    (hf : mac = mic.map (·.map f)) (hguard : LabelGuard mic) (hguardM : LabelGuard mac) (hne : mic.flatten ≠ [])
    {c : Msm.NatMat} {T_i : Msm.RatMat} {ss : List Int} (hest : Msm.estimate mic lag = .ok (c, T_i, ss))
    (hpeq : ∀ pi, Linalg.stationary T_i = some pi → ext_peq T_i = .ok pi) :
    (do let (p, ms, i, s, a) ← Gen.LumpedAcc.init mac mic pos
        Gen.LumpedEst.estimate_markov_model ext_peq i s ms a p (lag : Int) flag) = .error .type
      ↔ Linalg.isErgodic T_i = false := by
  constructor
  · intro h
    cases herg : Linalg.isErgodic T_i with
    | false => rfl
    | true =>
      rw [lumped_estimate_refines ext_peq mac mic f pos lag hlag flag hf hguard hguardM hne hest herg hpeq] at h
      split at h <;> cases h
  · intro herg
    exact lumped_estimate_not_ergodic ext_peq mac mic pos lag hlag flag (by rw [hf]; simp) hguard hne hest herg

/-- **An error of the `peq` oracle is passed on.**  Consistent lumping, labels within the guard, data not all-empty, lag ≥ 1, ergodic
micro model: if `mh.msm.peq` raises `e` on `T_i`, so does the constructed-then-estimated call. -/
theorem lumped_estimate_oracle_error (ext_peq : List (List Rat) → Py (List Rat)) (mac mic : Trajs) (f : Int → Int) (pos : Bool)
    (lag : Nat) (hlag : 1 ≤ lag) (flag : Bool)
    (hf : mac = mic.map (·.map f)) (hguard : LabelGuard mic) (hguardM : LabelGuard mac) (hne : mic.flatten ≠ [])
    {c : Msm.NatMat} {T_i : Msm.RatMat} {ss : List Int} (hest : Msm.estimate mic lag = .ok (c, T_i, ss))
    (herg : Linalg.isErgodic T_i = true) (e : Err) (hpeq : ext_peq T_i = .error e) :
    (do let (p, ms, i, s, a) ← Gen.LumpedAcc.init mac mic pos
        Gen.LumpedEst.estimate_markov_model ext_peq i s ms a p (lag : Int) flag)
      = .error e := by
  obtain ⟨rfl, -⟩ := of_estimate hguard hest
  obtain ⟨-, hsub, hsup, hga⟩ := consistent_facts hf hguardM
  rw [Accessors.lumped_init_refines mac mic pos (by rw [hf]; simp) hguard]
  exact lumped_est_oracle_error ext_peq mic mac pos lag hlag flag hne hsub hsup hga (Accessors.states_length_le hguardM) herg e hpeq

/-- **The lumped estimator for a lumping that need not be consistent.**  Macro and micro trajectories of the same shape, micro labels
within the guard, data not all-empty, lag ≥ 1.  The constructor assigns to every micro state the macro label at its FIRST occurrence
(`Heap.assignment`).  If these assigned labels are exactly the macro states (each assigned label is a macro state — automatic — and
every macro state is assigned to some micro state), lie within the guard, `T_i` is ergodic and the oracle returns the model's
stationary vector, the result is `hsProject T_i assign k positive` with `assign` = position of the assigned label in the ascending
macro state list — the same formula as for a consistent lumping. -/
theorem lumped_estimate_of_assignment (ext_peq : List (List Rat) → Py (List Rat)) (mac mic : Trajs) (pos : Bool)
    (lag : Nat) (hlag : 1 ≤ lag) (flag : Bool)
    (hshape : mac.map List.length = mic.map List.length) (hguard : LabelGuard mic) (hne : mic.flatten ≠ [])
    (hsup : ∀ m ∈ states mac, m ∈ Heap.assignment mic mac)
    (hga : ∀ a ∈ Heap.assignment mic mac, -536870912 ≤ a ∧ a ≤ 536870912) (hsize : (states mac).length ≤ 1073741825)
    {c : Msm.NatMat} {T_i : Msm.RatMat} {ss : List Int} (hest : Msm.estimate mic lag = .ok (c, T_i, ss))
    (herg : Linalg.isErgodic T_i = true)
    (hpeq : ∀ pi, Linalg.stationary T_i = some pi → ext_peq T_i = .ok pi) :
    (do let (p, ms, i, s, a) ← Gen.LumpedAcc.init mac mic pos
        Gen.LumpedEst.estimate_markov_model ext_peq i s ms a p (lag : Int) flag)
      = (match Linalg.hsProject T_i ((Heap.assignment mic mac).map (rank (states mac))) (states mac).length pos with
         | some M => .ok (M, states mac)
         | none => .error .other) := by
  obtain ⟨rfl, -⟩ := of_estimate hguard hest
  obtain ⟨-, pi, hstat⟩ := micro_stationary hguard lag hlag herg
  rw [Accessors.lumped_init_refines mac mic pos hshape hguard]
  exact lumped_est_ergodic ext_peq mic mac pos lag hlag flag hne (assignment_mem hshape) hsup hga hsize herg pi hstat
    (hpeq pi hstat)

/-! non-vacuity: a ragged micro / macro pair with negative labels and an empty trajectory; micro states `-5, 3, 7`,
lumping `-5, 3 ↦ 2`, `7 ↦ -1` (macro states `-1, 2`), oracle `HS.exactPeq` (returns the model's stationary vector) -/

/-- the lumping function of the examples -/
def exF (x : Int) : Int := if x = 7 then -1 else 2
/-- micro trajectories of the examples -/
def exMic : Trajs := [[-5, 3, 7, -5, 7, 3, -5, -5], [3, 3, 7, 7], []]
/-- macro trajectories of the examples -/
def exMac : Trajs := [[2, 2, -1, 2, -1, 2, 2, 2], [2, 2, -1, -1], []]
/-- the micro model of the examples at lag 1 -/
def exT : Msm.RatMat := [[1/3, 1/3, 1/3], [1/4, 1/4, 1/2], [1/3, 1/3, 1/3]]

/-- the oracle `HS.exactPeq` satisfies the oracle hypothesis on every matrix -/
theorem exactPeq_spec {T : List (List Rat)} : ∀ pi, Linalg.stationary T = some pi → HS.exactPeq T = .ok pi := by
  intro pi h
  unfold HS.exactPeq
  rw [h]

/-- the hypotheses on the data hold -/
example : exMac = exMic.map (·.map exF) ∧ LabelGuard exMic ∧ LabelGuard exMac ∧ exMic.flatten ≠ [] ∧
    exMac.map List.length = exMic.map List.length := by decide
/-- the micro model, its ergodicity, its stationary vector, the oracle -/
example : Msm.estimate exMic 1 = .ok ([[1, 1, 1], [1, 1, 2], [1, 1, 1]], exT, [-5, 3, 7]) ∧
    Linalg.isErgodic exT = true ∧ Linalg.stationary exT = some [4/13, 4/13, 5/13] ∧
    HS.exactPeq exT = .ok [4/13, 4/13, 5/13] := by decide +kernel
/-- the macro index of the micro states `-5, 3, 7` and the number of macro states -/
example : (states exMic).map (fun s => rank (states exMac) (exF s)) = [1, 1, 0] ∧ (states exMac).length = 2 ∧
    states exMac = [-1, 2] := by decide +kernel
/-- `lumped_estimate_refines` applied: the result of the call is the model's projection, here a concrete matrix -/
example : (do let (p, ms, i, s, a) ← Gen.LumpedAcc.init exMac exMic false
              Gen.LumpedEst.estimate_markov_model HS.exactPeq i s ms a p ((1 : Nat) : Int) true)
    = .ok ([[1/3, 2/3], [5/12, 7/12]], [-1, 2]) := by
  rw [lumped_estimate_refines HS.exactPeq exMac exMic exF false 1 (by decide) true (by decide) (by decide) (by decide) (by decide)
    (c := [[1, 1, 1], [1, 1, 2], [1, 1, 1]]) (T_i := exT) (ss := [-5, 3, 7]) (by decide +kernel) (by decide +kernel)
    exactPeq_spec]
  decide +kernel
/-- the same by evaluating the translated code directly, with `positive = True` and the other value of the flag -/
example : (do let (p, ms, i, s, a) ← Gen.LumpedAcc.init exMac exMic true
              Gen.LumpedEst.estimate_markov_model HS.exactPeq i s ms a p 1 false)
    = .ok ([[1/3, 2/3], [5/12, 7/12]], [-1, 2]) := by decide +kernel
/-- lag 3: the micro model has the absorbing state `-5`, it is not ergodic, the call raises `TypeError` -/
example : Msm.estimate exMic 3 = .ok ([[2, 0, 0], [0, 0, 2], [1, 1, 0]], [[1, 0, 0], [0, 0, 1], [1/2, 1/2, 0]], [-5, 3, 7]) ∧
    Linalg.isErgodic [[1, 0, 0], [0, 0, 1], [1/2, 1/2, 0]] = false := by decide +kernel
example : (do let (p, ms, i, s, a) ← Gen.LumpedAcc.init exMac exMic true
              Gen.LumpedEst.estimate_markov_model HS.exactPeq i s ms a p ((3 : Nat) : Int) false) = .error .type :=
  lumped_estimate_not_ergodic HS.exactPeq exMac exMic true 3 (by decide) false (by decide) (by decide) (by decide)
    (c := [[2, 0, 0], [0, 0, 2], [1, 1, 0]]) (T_i := [[1, 0, 0], [0, 0, 1], [1/2, 1/2, 0]]) (ss := [-5, 3, 7])
    (by decide +kernel) (by decide +kernel)
example : (do let (p, ms, i, s, a) ← Gen.LumpedAcc.init exMac exMic true
              Gen.LumpedEst.estimate_markov_model HS.exactPeq i s ms a p 3 false) = .error .type := by decide +kernel
/-- the hypotheses of `lumped_estimate_of_assignment` on an INCONSISTENT lumping (micro state `5` carries the macro labels `1` and
`2`): every macro state is assigned, the assigned labels are within the guard -/
example : (∀ m ∈ states [[1, 2, 1, 2, 1, 2, 2]], m ∈ Heap.assignment [[5, 6, 5, 5, 6, 6, 5]] [[1, 2, 1, 2, 1, 2, 2]]) ∧
    (∀ a ∈ Heap.assignment [[5, 6, 5, 5, 6, 6, 5]] [[1, 2, 1, 2, 1, 2, 2]], -536870912 ≤ a ∧ a ≤ 536870912) := by
  decide +kernel
/-- an oracle error is passed on -/
example : (do let (p, ms, i, s, a) ← Gen.LumpedAcc.init exMac exMic false
              Gen.LumpedEst.estimate_markov_model (fun _ => .error .notImplemented) i s ms a p ((1 : Nat) : Int) true)
    = .error .notImplemented :=
  lumped_estimate_oracle_error _ exMac exMic exF false 1 (by decide) true (by decide) (by decide) (by decide) (by decide)
    (c := [[1, 1, 1], [1, 1, 2], [1, 1, 1]]) (T_i := exT) (ss := [-5, 3, 7]) (by decide +kernel) (by decide +kernel) _ rfl

/-! ## 3. all-empty data: translation and model differ -/

/-- **All-empty data.**  On trajectories without a single frame the constructor succeeds, the micro model is the `0 × 0` matrix, the
translated `is_ergodic` answers `True` on it (no row violates anything), and `_state_assignment_idx` then raises `ValueError`
(`np.min` of an empty array inside `shift_data`) — while the model's `Linalg.isErgodic [] = false` would predict `TypeError`.  Hence
the hypothesis `mic.flatten ≠ []` of the theorems of section 2. -/
theorem lumped_estimate_empty (ext_peq : List (List Rat) → Py (List Rat)) (pos flag : Bool) :
    (do let (p, ms, i, s, a) ← Gen.LumpedAcc.init [[], []] [[], []] pos
        Gen.LumpedEst.estimate_markov_model ext_peq i s ms a p 1 flag) = .error .value ∧
    (Msm.estimate [[], []] 1).map (fun r => r.2.1) = .ok [] ∧ Linalg.isErgodic [] = false ∧
    Gen.UtilsTests.is_ergodic [] Linalg.atol = .ok true := by
  refine ⟨?_, by decide +kernel, by decide +kernel, by decide +kernel⟩
  have hinit : Gen.LumpedAcc.init [[], []] [[], []] pos = .ok (pos, [], [[], []], [], []) := by
    cases pos <;> decide +kernel
  have hperm : Gen.MsmEstimate.estimate_markov_model_perm [[], []] 1 (pyLen ([] : List Int)) [] flag = .ok ([], []) := by
    cases flag <;> decide +kernel
  have herg : Gen.UtilsTests.is_ergodic [] ((3022314549036573 : Rat) / (302231454903657293676544 : Rat)) = .ok true := by
    decide +kernel
  have hidx : Gen.LumpedAcc.state_assignment_idx [] [] = .error .value := by decide +kernel
  rw [hinit]
  show Gen.LumpedEst.estimate_markov_model ext_peq [[], []] [] [] [] pos 1 flag = _
  unfold Gen.LumpedEst.estimate_markov_model
  rw [List.map_id', hperm]
  simp only [bind, Except.bind, herg, hidx, Bool.not_true, Bool.false_eq_true, if_false]

end MsmVerif.Refine.Public
