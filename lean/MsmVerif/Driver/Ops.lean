/-
Driver/Ops.lean — dispatch of protocol operations to the executable models and `holds` oracles.
-/
import MsmVerif.Driver.JsonUtil
import MsmVerif.Model.Coring
import MsmVerif.Model.Msm
import MsmVerif.Model.Events

open Lean

namespace MsmVerif.Driver
open MsmVerif.J

def opCoring (j : Json) : Except String Json := do
  let ts ← trajs? (← field j "trajs")
  let τ ← int? (← field j "tau")
  let iter ← bool? (← field j "iter")
  let model := Coring.dynamicalCoring ts τ iter
  let ref := Coring.refSet ts τ iter
  let base := [("model", ofExcept ofTrajs model), ("ref", ofExcept ofTrajs ref)]
  match j.getObjVal? "obs" with
  | .ok o =>
    let obs ← except? trajs? o
    return Json.mkObj (base ++ [("holds", Json.bool (Coring.holds ts τ iter obs))])
  | .error _ => return Json.mkObj base

def opCoringKernel (j : Json) : Except String Json := do
  let t ← ints? (← field j "traj")
  let τ ← nat? (← field j "tau")
  let iter ← bool? (← field j "iter")
  let r := Coring.kernelSingle τ iter t
  let fc := Coring.firstCoreSentinel τ t
  return Json.mkObj [
    ("model", match r with | some l => Json.mkObj [("ok", ofInts l)] | none => Json.mkObj [("err", "LagtimeError")]),
    ("first_core", ofInt fc)]

/-- C01: `estimate_markov_model` -/
def opEstimate (j : Json) : Except String Json := do
  let ts ← trajs? (← field j "trajs")
  let lag ← nat? (← field j "lag")
  let model := Msm.estimate ts lag
  let mj := ofExcept (fun (r : Msm.NatMat × Msm.RatMat × List Int) =>
      Json.mkObj [("counts", ofList ofNats r.1), ("T", ofRatMat r.2.1), ("states", ofInts r.2.2)]) model
  match j.getObjVal? "obs" with
  | .ok o =>
    let obs ← except? (fun v => do
      let st ← ints? (← field v "states")
      let T ← ratMat? (← field v "T")
      return (st, T)) o
    let h := match obs with
      | .ok (st, T) => Msm.holds ts lag st T
      | .error _ => false
    return Json.mkObj [("model", mj), ("holds", Json.bool h)]
  | .error _ => return Json.mkObj [("model", mj)]

def ofPathTuples (l : List (List Int × Nat)) : Json :=
  ofList (fun (p : List Int × Nat) => Json.arr #[ofInts p.1, ofNat p.2]) l

def pathTuples? (j : Json) : Except String (List (List Int × Nat)) := do
  (← arr? j).mapM (fun e => do
    let a ← arr? e
    match a with
    | [p, d] => return (← ints? p, ← nat? d)
    | _ => throw "bad path tuple")

/-- C06: `md.estimate_waiting_times` -/
def opMdWt (j : Json) : Except String Json := do
  let ts ← trajs? (← field j "trajs")
  let start ← ints? (← field j "start")
  let final ← ints? (← field j "final")
  let model := Events.mdWaitingTimes ts start final
  let base := [("model", ofExcept ofNats model)]
  match j.getObjVal? "obs" with
  | .ok o =>
    let obs ← except? nats? o
    return Json.mkObj (base ++ [("holds", Json.bool (Events.holdsWt ts start final obs))])
  | .error _ => return Json.mkObj base

/-- C06: `md.estimate_paths` (tuples in order of occurrence) -/
def opMdPaths (j : Json) : Except String Json := do
  let ts ← trajs? (← field j "trajs")
  let start ← ints? (← field j "start")
  let final ← ints? (← field j "final")
  let model := Events.mdPaths ts start final
  let base := [("model", ofExcept ofPathTuples model)]
  match j.getObjVal? "obs" with
  | .ok o =>
    let obs ← except? (fun v => do
      (← arr? v).mapM (fun e => do
        match (← arr? e) with
        | [p, d] => return (← ints? p, ← nats? d)
        | _ => throw "bad dict item")) o
    return Json.mkObj (base ++ [("holds", Json.bool (Events.holdsPaths ts start final obs))])
  | .error _ => return Json.mkObj base

def dispatch (j : Json) : Except String Json := do
  let op ← str? (← field j "op")
  match op with
  | "ping" => return Json.mkObj [("pong", Json.bool true)]
  | "coring" => opCoring j
  | "coring_kernel" => opCoringKernel j
  | "estimate" => opEstimate j
  | "md_wt" => opMdWt j
  | "md_paths" => opMdPaths j
  | _ => throw s!"unknown op {op}"

end MsmVerif.Driver
