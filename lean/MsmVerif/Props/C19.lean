/-
Props/C19.lean — property theorems for C19 (file plumbing of the command-line tools and the chunking helper of the
figure commands).  Helper lemmas live in Lemmas/TextIO.lean.

Model of the code (Model/TextIO.lean): `chunks l c` is `_split_array(array, chunksize)`; `cliCoring core lines limits hdr`
is the command-line dynamical coring as file plumbing: read the state file, take the first column, split it by the
limits file (one piece if there is none), apply `core` to every piece separately, concatenate, write with `'%.0f'`.
`core` is an arbitrary function (the coring of one trajectory, `none` = error).
-/
import MsmVerif.Lemmas.TextIO

namespace MsmVerif.C19
open MsmVerif MsmVerif.TextIO

/-! ### 1. chunking -/

/-- For a chunk size `c ≥ 1`: the chunks concatenate to the input (nothing lost, repeated or reordered), every chunk is
non-empty and has at most `c` entries, all chunks but the last have exactly `c` entries, and there are `⌈n / c⌉`
chunks. -/
theorem chunks {α : Type} (l : List α) (c : Nat) (hc : 1 ≤ c) :
    (TextIO.chunks l c).flatten = l ∧
    (∀ ch ∈ TextIO.chunks l c, ch ≠ [] ∧ ch.length ≤ c) ∧
    (∀ ch ∈ (TextIO.chunks l c).dropLast, ch.length = c) ∧
    (TextIO.chunks l c).length = (l.length + c - 1) / c :=
  chunks_spec l c hc

example : TextIO.chunks [1, 2, 3, 4, 5, 6, 7] 3 = [[1, 2, 3], [4, 5, 6], [7]] := by decide
example : TextIO.chunks ([] : List Nat) 3 = [] := by decide

/-! ### 2. one output row per input frame -/

/-- If the command succeeds and `core` preserves the length of a trajectory, the written file reads back as a table with
exactly one single-column row per data row of the input file. -/
theorem coring_rows (core : List Int → Option (List Int)) (hcore : ∀ t r, core t = some r → r.length = t.length)
    (lines : List Line) (lims : Option (List Nat)) (hdr : List Char) (out : List Line)
    (h : cliCoring core lines lims hdr = some out) :
    ∃ tbl rows, readTable lines = some tbl ∧ readTable out = some rows ∧
      rows.length = tbl.length ∧ ∀ r ∈ rows, r.length = 1 := by
  obtain ⟨tbl, pieces, cored, h1, h2, h3, rfl⟩ := (cliCoring_some_iff core lines lims hdr out).mp h
  refine ⟨tbl, cored.flatten.map (fun v => [v]), h1, readTable_write_single hdr .f0 _, ?_, ?_⟩
  · obtain ⟨_, _, hflat⟩ := splitLimits_some _ _ _ h2
    have hl := mapM_lengths core hcore pieces cored h3
    rw [List.length_map, List.length_flatten, hl, ← List.length_flatten, hflat, List.length_map]
  · intro r hr
    simp only [List.mem_map] at hr
    obtain ⟨v, _, rfl⟩ := hr
    rfl

/-- a length-preserving `core` (here: the identity) on a two-trajectory file with limits `2, 1` -/
example : cliCoring some ["# c".toList, "1".toList, "2".toList, "1".toList] (some [2, 1]) "h".toList
    = some ["# h".toList, "1".toList, "2".toList, "1".toList] := by decide +kernel

/-! ### 3. no coring across trajectory boundaries -/

/-- With a limits file the written values are the concatenation of `core` applied to every limits piece separately
(and the command fails iff `core` fails on one piece). -/
theorem no_cross_boundary (core : List Int → Option (List Int)) (lines : List Line) (ls : List Nat) (hdr : List Char)
    (tbl pieces : List (List Int)) (h1 : readTable lines = some tbl)
    (h2 : splitLimits ls (tbl.map (fun r => r.getD 0 0)) = some pieces) :
    cliCoring core lines (some ls) hdr =
      (pieces.mapM core).map (fun cored => writeTable hdr .f0 (cored.flatten.map (fun v => [v]))) :=
  cliCoring_limits core lines ls hdr tbl pieces h1 h2

/-- The command on a file that holds a single trajectory `p` and has no limits file writes `core p`. -/
theorem single_piece (core : List Int → Option (List Int)) (lines : List Line) (p : List Int) (hdr : List Char)
    (h : readTable lines = some (p.map (fun v => [v]))) :
    cliCoring core lines none hdr = (core p).map (fun r => writeTable hdr .f0 (r.map (fun v => [v]))) :=
  cliCoring_single core lines p hdr h

/-- In particular: the result for a file with limits is the concatenation of the results of the single-piece files.
`file p` is any file holding exactly the trajectory `p`; running the command on each `file p` (no limits) succeeds for
all pieces iff the run with limits succeeds, and then the rows read from the output with limits are the rows read from
the single-piece outputs, concatenated in order. -/
theorem no_cross_boundary_concat (core : List Int → Option (List Int)) (lines : List Line) (ls : List Nat)
    (hdr : List Char) (tbl pieces : List (List Int)) (h1 : readTable lines = some tbl)
    (h2 : splitLimits ls (tbl.map (fun r => r.getD 0 0)) = some pieces)
    (file : List Int → List Line) (hfile : ∀ p, readTable (file p) = some (p.map (fun v => [v]))) :
    (cliCoring core lines (some ls) hdr).bind readTable =
      (pieces.mapM (fun p => cliCoring core (file p) none hdr)).bind
        (fun outs => (outs.mapM readTable).map List.flatten) := by
  rw [cliCoring_limits core lines ls hdr tbl pieces h1 h2]
  have : (fun p => cliCoring core (file p) none hdr)
      = (fun p => (core p).map (fun r => writeTable hdr .f0 (r.map (fun v => [v])))) := by
    funext p; exact cliCoring_single core (file p) p hdr (hfile p)
  rw [this, mapM_option_map]
  cases pieces.mapM core with
  | none => rfl
  | some cored =>
    simp only [Option.map_some, Option.bind_some]
    rw [readTable_write_single, mapM_read_written, Option.map_some, List.map_flatten]

example : splitLimits [2, 1] (([[1], [2], [1]] : List (List Int)).map (fun r => r.getD 0 0)) = some [[1, 2], [1]] := by
  decide

end MsmVerif.C19
