"""Worker: runs prop.real(case) for every JSON line of <infile>, appends one JSON line per case to <outfile>.

Run as a separate process so that a crash of the real code (segfault in a compiled kernel, abort) is
attributable to one case instead of killing the check.
"""
import importlib
import json
import sys


def main():
    pid, infile, outfile = sys.argv[1], sys.argv[2], sys.argv[3]
    prop = importlib.import_module('props.' + pid.lower())
    with open(infile) as fi, open(outfile, 'a') as fo:
        for line in fi:
            case = json.loads(line)
            try:
                obs = prop.real(case)
            except Exception as e:  # harness-level failure inside real(): report, do not die
                obs = {'err': 'HarnessException', 'msg': repr(e)[:300]}
            fo.write(json.dumps(obs, default=str) + '\n')
            fo.flush()


if __name__ == '__main__':
    main()
