/-
Lemmas/TextIO.lean — helper lemmas for C16 (text IO round-trip) and C19 (CLI file plumbing, chunking) about the
definitions of Model/TextIO.lean: decimal digits round-trip, `parseTok` on the two written formats, the whitespace
tokeniser on a space-joined line, comment cutting, `readTable ∘ writeTable`, `usecols` bookkeeping, limits splitting,
and the chunking helper.
-/
import MsmVerif.Model.TextIO

namespace MsmVerif.TextIO

/-! ### digits -/

/-- a decimal digit character -/
def IsDigit (c : Char) : Prop := '0' ≤ c ∧ c ≤ '9'

instance : DecidablePred IsDigit := fun c => by unfold IsDigit; infer_instance

theorem digit_char (d : Nat) (h : d < 10) :
    IsDigit (Char.ofNat (48 + d)) ∧ digitVal (Char.ofNat (48 + d)) = some d := by
  have : d = 0 ∨ d = 1 ∨ d = 2 ∨ d = 3 ∨ d = 4 ∨ d = 5 ∨ d = 6 ∨ d = 7 ∨ d = 8 ∨ d = 9 := by omega
  rcases this with h | h | h | h | h | h | h | h | h | h <;> subst h <;> decide

theorem natDigits_ne_nil (n : Nat) : natDigits n ≠ [] := by
  rw [natDigits]; split <;> simp

theorem natDigits_digits (n : Nat) : ∀ c ∈ natDigits n, IsDigit c := by
  induction n using Nat.strongRecOn with
  | _ n ih =>
    rw [natDigits]
    split
    · intro c hc
      simp only [List.mem_singleton] at hc
      subst hc
      exact (digit_char n (by omega)).1
    · intro c hc
      simp only [List.mem_append, List.mem_singleton] at hc
      rcases hc with hc | hc
      · exact ih (n / 10) (by omega) c hc
      · subst hc
        exact (digit_char (n % 10) (by omega)).1

/-- one step of the digit fold of `parseNat` -/
def pstep (acc : Option Nat) (c : Char) : Option Nat :=
  match acc, digitVal c with
  | some a, some d => some (a * 10 + d)
  | _, _ => none

theorem parseNat_eq (cs : Line) (h : cs ≠ []) : parseNat cs = cs.foldl pstep (some 0) := by
  cases cs with
  | nil => exact absurd rfl h
  | cons c cs => rfl

theorem foldl_natDigits (n : Nat) : (natDigits n).foldl pstep (some 0) = some n := by
  induction n using Nat.strongRecOn with
  | _ n ih =>
    rw [natDigits]
    split
    · rename_i h
      simp only [List.foldl_cons, List.foldl_nil, pstep, (digit_char n h).2]
      simp
    · rw [List.foldl_append, ih (n / 10) (by omega)]
      simp only [List.foldl_cons, List.foldl_nil, pstep, (digit_char (n % 10) (by omega)).2]
      congr 1
      omega

/-- digits round-trip -/
theorem parseNat_natDigits (n : Nat) : parseNat (natDigits n) = some n := by
  rw [parseNat_eq _ (natDigits_ne_nil n), foldl_natDigits]

/-! ### characters of a token -/

/-- a character that may occur inside a written token: not a blank, not a tab, not the comment character -/
def TokChar (c : Char) : Prop := c ≠ ' ' ∧ c ≠ '\t' ∧ c ≠ '#'

instance : DecidablePred TokChar := fun c => by unfold TokChar; infer_instance

theorem IsDigit.ne_dot {c : Char} (h : IsDigit c) : c ≠ '.' := by
  intro e; subst e; revert h; decide
theorem IsDigit.ne_minus {c : Char} (h : IsDigit c) : c ≠ '-' := by
  intro e; subst e; revert h; decide
theorem IsDigit.tokChar {c : Char} (h : IsDigit c) : TokChar c := by
  refine ⟨?_, ?_, ?_⟩ <;> (intro e; subst e; revert h; decide)

/-! ### `parseTok` on a written token -/

theorem parseTok_neg (r : Line) : parseTok ('-' :: r) =
    if !(match r.dropWhile (· != '.') with | [] => true | _ :: zs => zs.all (· == '0')) then none
    else (parseNat (r.takeWhile (· != '.'))).map (fun n => -(n : Int)) := rfl

theorem parseTok_pos (c : Char) (r : Line) (h : c ≠ '-') : parseTok (c :: r) =
    if !(match (c :: r).dropWhile (· != '.') with | [] => true | _ :: zs => zs.all (· == '0')) then none
    else (parseNat ((c :: r).takeWhile (· != '.'))).map (fun n => (n : Int)) := by
  unfold parseTok
  split
  · rename_i neg body heq
    split at heq
    · rename_i h1
      simp at h1
      exact absurd h1.1 h
    · simp only [Prod.mk.injEq] at heq
      obtain ⟨rfl, rfl⟩ := heq
      rfl

/-- the two suffixes the formats append to the integer part -/
def IsSuffix (suf : Line) : Prop := suf = [] ∨ suf = ".00000".toList

theorem body_take (ds suf : Line) (hd : ∀ c ∈ ds, IsDigit c) (hs : IsSuffix suf) :
    (ds ++ suf).takeWhile (· != '.') = ds := by
  rw [List.takeWhile_append_of_pos (fun c hc => by simpa using (hd c hc).ne_dot)]
  rcases hs with rfl | rfl <;> simp

theorem body_frac (ds suf : Line) (hd : ∀ c ∈ ds, IsDigit c) (hs : IsSuffix suf) :
    (match (ds ++ suf).dropWhile (· != '.') with | [] => true | _ :: zs => zs.all (· == '0')) = true := by
  rw [List.dropWhile_append_of_pos (fun c hc => by simpa using (hd c hc).ne_dot)]
  rcases hs with rfl | rfl <;> decide

theorem parseTok_body_neg (ds suf : Line) (hd : ∀ c ∈ ds, IsDigit c) (hs : IsSuffix suf) :
    parseTok ('-' :: ds ++ suf) = (parseNat ds).map (fun n => -(n : Int)) := by
  rw [List.cons_append, parseTok_neg, body_take ds suf hd hs, body_frac ds suf hd hs]
  rfl

theorem parseTok_body_pos (ds suf : Line) (hd : ∀ c ∈ ds, IsDigit c) (hne : ds ≠ []) (hs : IsSuffix suf) :
    parseTok (ds ++ suf) = (parseNat ds).map (fun n => (n : Int)) := by
  cases ds with
  | nil => exact absurd rfl hne
  | cons c r =>
    have hc : c ≠ '-' := (hd c (by simp)).ne_minus
    rw [List.cons_append, parseTok_pos c _ hc, ← List.cons_append, body_take _ suf hd hs, body_frac _ suf hd hs]
    rfl

theorem parseTok_fmt0_suf (v : Int) (suf : Line) (hs : IsSuffix suf) : parseTok (fmt0 v ++ suf) = some v := by
  unfold fmt0
  split
  · rw [parseTok_body_neg _ _ (natDigits_digits _) hs, parseNat_natDigits]
    show some _ = some _; congr 1; dsimp only
    omega
  · rw [parseTok_body_pos _ _ (natDigits_digits _) (natDigits_ne_nil _) hs, parseNat_natDigits]
    show some _ = some _; congr 1; dsimp only
    omega

theorem parseTok_fmt0 (v : Int) : parseTok (fmt0 v) = some v := by
  have := parseTok_fmt0_suf v [] (Or.inl rfl)
  rwa [List.append_nil] at this

theorem parseTok_fmt5 (v : Int) : parseTok (fmt5 v) = some v :=
  parseTok_fmt0_suf v _ (Or.inr rfl)

theorem parseTok_fmt (fmt : Fmt) (v : Int) : parseTok (fmt.apply v) = some v := by
  cases fmt
  · exact parseTok_fmt0 v
  · exact parseTok_fmt5 v

theorem fmt0_ne_nil (v : Int) : fmt0 v ≠ [] := by
  unfold fmt0; split
  · simp
  · exact natDigits_ne_nil _

theorem fmt0_tokChar (v : Int) : ∀ c ∈ fmt0 v, TokChar c := by
  unfold fmt0; split
  · intro c hc
    simp only [List.mem_cons] at hc
    rcases hc with rfl | hc
    · decide
    · exact (natDigits_digits _ c hc).tokChar
  · intro c hc; exact (natDigits_digits _ c hc).tokChar

theorem fmt5_ne_nil (v : Int) : fmt5 v ≠ [] := by
  unfold fmt5; simp [fmt0_ne_nil]

theorem fmt5_tokChar (v : Int) : ∀ c ∈ fmt5 v, TokChar c := by
  unfold fmt5
  intro c hc
  simp only [List.mem_append] at hc
  rcases hc with hc | hc
  · exact fmt0_tokChar v c hc
  · revert c; decide

theorem fmt_ne_nil (fmt : Fmt) (v : Int) : fmt.apply v ≠ [] := by
  cases fmt
  · exact fmt0_ne_nil v
  · exact fmt5_ne_nil v

theorem fmt_tokChar (fmt : Fmt) (v : Int) : ∀ c ∈ fmt.apply v, TokChar c := by
  cases fmt
  · exact fmt0_tokChar v
  · exact fmt5_tokChar v

/-! ### the whitespace tokeniser -/

/-- blank or tab -/
def Blank (c : Char) : Prop := c = ' ' ∨ c = '\t'

theorem tokens_blank (c : Char) (cs : Line) (h : Blank c) : tokens (c :: cs) = tokens cs := by
  rw [tokens.eq_def]; simp only [Blank] at h; simp [h]

theorem tokens_single (c : Char) (h : ¬ Blank c) : tokens [c] = [[c]] := by
  simp only [Blank] at h
  simp [tokens, h]

theorem tokens_nonblank_blank (c c' : Char) (cs : Line) (h : ¬ Blank c) (h' : Blank c') :
    tokens (c :: c' :: cs) = [c] :: tokens (c' :: cs) := by
  simp only [Blank] at h h'
  rw [tokens.eq_def]; dsimp only
  simp only [h, if_false]
  split
  · rename_i t ts c'' _ heq1 heq2
    simp only [List.cons.injEq] at heq2
    obtain ⟨rfl, _⟩ := heq2
    simp [h', heq1]
  · rename_i ts x hx
    cases hts : tokens (c' :: cs) with
    | nil => rfl
    | cons t ts' => exact absurd rfl (hx t ts' c' cs hts)

theorem tokens_nonblank_nonblank (c c' : Char) (cs : Line) (h : ¬ Blank c) (h' : ¬ Blank c')
    (t : Line) (ts : List Line) (ht : tokens (c' :: cs) = t :: ts) :
    tokens (c :: c' :: cs) = (c :: t) :: ts := by
  simp only [Blank] at h h'
  rw [tokens.eq_def]; dsimp only
  simp only [h, if_false]
  split
  · rename_i t2 ts2 c'' _ heq1 heq2
    simp only [List.cons.injEq] at heq2
    obtain ⟨rfl, _⟩ := heq2
    rw [ht] at heq1
    simp only [List.cons.injEq] at heq1
    obtain ⟨rfl, rfl⟩ := heq1
    simp [h']
  · rename_i ts9 x hx
    exact absurd rfl (hx t ts c' cs ht)

/-- a non-empty blank-free word followed by end of line or a blank is one token -/
theorem tokens_word (t : Line) (hne : t ≠ []) (ht : ∀ c ∈ t, ¬ Blank c) (rest : Line)
    (hrest : rest = [] ∨ ∃ b r, rest = b :: r ∧ Blank b) :
    tokens (t ++ rest) = t :: tokens rest := by
  induction t with
  | nil => exact absurd rfl hne
  | cons c t ih =>
    have hc : ¬ Blank c := ht c (by simp)
    cases t with
    | nil =>
      rcases hrest with rfl | ⟨b, r, rfl, hb⟩
      · simpa [tokens] using tokens_single c hc
      · exact tokens_nonblank_blank c b r hc hb
    | cons c2 t2 =>
      have ih' := ih (by simp) (fun c hc => ht c (by simp [hc]))
      have hc2 : ¬ Blank c2 := ht c2 (by simp)
      exact tokens_nonblank_nonblank c c2 (t2 ++ rest) hc hc2 _ _ ih'

/-- a token that `tokens` returns unchanged: non-empty, no blank, no tab -/
def Word (t : Line) : Prop := t ≠ [] ∧ ∀ c ∈ t, ¬ Blank c

theorem tokens_joinSp (ts : List Line) (h : ∀ t ∈ ts, Word t) : tokens (joinSp ts) = ts := by
  induction ts with
  | nil => rfl
  | cons t ts ih =>
    have ht := h t (by simp)
    have ih' := ih (fun t' ht' => h t' (by simp [ht']))
    cases ts with
    | nil =>
      have := tokens_word t ht.1 ht.2 [] (Or.inl rfl)
      simpa [joinSp, tokens] using this
    | cons t2 ts2 =>
      show tokens (t ++ ' ' :: joinSp (t2 :: ts2)) = _
      rw [tokens_word t ht.1 ht.2 _ (Or.inr ⟨' ', _, rfl, Or.inl rfl⟩), tokens_blank _ _ (Or.inl rfl), ih']

/-! ### comments -/

theorem cutComment_hash (l : Line) : cutComment ('#' :: l) = [] := by
  simp [cutComment]

theorem cutComment_of_no_hash (l : Line) (h : ∀ c ∈ l, c ≠ '#') : cutComment l = l := by
  unfold cutComment
  induction l with
  | nil => rfl
  | cons c l ih =>
    have hc : c ≠ '#' := h c (by simp)
    rw [List.takeWhile_cons]
    simp only [bne_iff_ne, ne_eq, hc, not_false_eq_true, if_true]
    rw [ih (fun c' hc' => h c' (by simp [hc']))]

theorem TokChar.not_blank {c : Char} (h : TokChar c) : ¬ Blank c := by
  rintro (e | e)
  · exact h.1 e
  · exact h.2.1 e

/-- a written token: non-empty, neither blank, tab nor `#` inside -/
def WTok (t : Line) : Prop := t ≠ [] ∧ ∀ c ∈ t, TokChar c

theorem WTok.word {t : Line} (h : WTok t) : Word t := ⟨h.1, fun c hc => (h.2 c hc).not_blank⟩

theorem fmt_wtok (fmt : Fmt) (v : Int) : WTok (fmt.apply v) := ⟨fmt_ne_nil fmt v, fmt_tokChar fmt v⟩

theorem joinSp_no_hash (ts : List Line) (h : ∀ t ∈ ts, ∀ c ∈ t, c ≠ '#') : ∀ c ∈ joinSp ts, c ≠ '#' := by
  induction ts with
  | nil => intro c hc; simp [joinSp] at hc
  | cons t ts ih =>
    cases ts with
    | nil => exact h t (by simp)
    | cons t2 ts2 =>
      intro c hc
      change c ∈ t ++ ' ' :: joinSp (t2 :: ts2) at hc
      simp only [List.mem_append, List.mem_cons] at hc
      rcases hc with hc | rfl | hc
      · exact h t (by simp) c hc
      · decide
      · exact ih (fun t' ht' => h t' (by simp [ht'])) c hc

/-- a written data line reads back as its tokens -/
theorem tokens_cut_joinSp (ts : List Line) (h : ∀ t ∈ ts, WTok t) :
    tokens (cutComment (joinSp ts)) = ts := by
  rw [cutComment_of_no_hash _ (joinSp_no_hash ts (fun t ht c hc => ((h t ht).2 c hc).2.2))]
  exact tokens_joinSp ts (fun t ht => (h t ht).word)

theorem tokens_cut_header (l : Line) : tokens (cutComment ('#' :: ' ' :: l)) = [] := by
  rw [cutComment_hash]; rfl

/-! ### `mapM` in `Option` -/

theorem mapM_map_some {α β : Type} (f : β → Option α) (g : α → β) (l : List α)
    (h : ∀ x ∈ l, f (g x) = some x) : (l.map g).mapM f = some l := by
  induction l with
  | nil => rfl
  | cons a l ih =>
    rw [List.map_cons, List.mapM_cons, h a (by simp), ih (fun x hx => h x (by simp [hx]))]
    rfl

theorem row_parse (fmt : Fmt) (row : List Int) : (row.map fmt.apply).mapM parseTok = some row :=
  mapM_map_some parseTok fmt.apply row (fun v _ => parseTok_fmt fmt v)

/-! ### read ∘ write -/

theorem readTable_append_header (H : List Line) (D : List Line) :
    readTable (H.map (fun l => '#' :: ' ' :: l) ++ D) = readTable D := by
  unfold readTable
  rw [List.map_append, List.filter_append]
  have : ((H.map (fun l => '#' :: ' ' :: l)).map (fun l => tokens (cutComment l))).filter (fun ts => !ts.isEmpty) = [] := by
    rw [List.filter_eq_nil_iff]
    intro ts hts
    simp only [List.mem_map] at hts
    obtain ⟨l, ⟨l0, _, rfl⟩, rfl⟩ := hts
    rw [tokens_cut_header]; simp
  rw [this, List.nil_append]

theorem readTable_data (fmt : Fmt) (tbl : List (List Int)) (h : ∀ r ∈ tbl, r ≠ []) :
    readTable (tbl.map (fun row => joinSp (row.map fmt.apply))) = some tbl := by
  unfold readTable
  have h1 : (tbl.map (fun row => joinSp (row.map fmt.apply))).map (fun l => tokens (cutComment l))
      = tbl.map (fun row => row.map fmt.apply) := by
    rw [List.map_map]
    apply List.map_congr_left
    intro row _
    exact tokens_cut_joinSp _ (by
      intro t ht
      simp only [List.mem_map] at ht
      obtain ⟨v, _, rfl⟩ := ht
      exact fmt_wtok fmt v)
  rw [h1]
  have h2 : (tbl.map (fun row => row.map fmt.apply)).filter (fun ts => !ts.isEmpty) = tbl.map (fun row => row.map fmt.apply) := by
    rw [List.filter_eq_self]
    intro ts hts
    simp only [List.mem_map] at hts
    obtain ⟨row, hrow, rfl⟩ := hts
    have := h row hrow
    cases row with
    | nil => exact absurd rfl this
    | cons => rfl
  rw [h2]
  exact mapM_map_some _ _ tbl (fun row _ => row_parse fmt row)

theorem readTable_writeTable (hdr : List Char) (fmt : Fmt) (tbl : List (List Int)) (h : ∀ r ∈ tbl, r ≠ []) :
    readTable (writeTable hdr fmt tbl) = some tbl := by
  unfold writeTable
  rw [readTable_append_header, readTable_data fmt tbl h]

/-! ### `usecols` -/

theorem mem_insertAsc (x y : Nat) (l : List Nat) : y ∈ insertAsc x l ↔ y = x ∨ y ∈ l := by
  induction l with
  | nil => simp [insertAsc]
  | cons z zs ih =>
    unfold insertAsc
    split
    · simp
    · simp only [List.mem_cons, ih]
      constructor
      · rintro (h | h | h) <;> simp [h]
      · rintro (h | h | h) <;> simp [h]

theorem mem_sortAsc (y : Nat) (l : List Nat) : y ∈ sortAsc l ↔ y ∈ l := by
  unfold sortAsc
  induction l with
  | nil => simp
  | cons x xs ih => simp only [List.foldr_cons, mem_insertAsc, ih, List.mem_cons]

theorem insertAsc_perm (x : Nat) (l : List Nat) : (insertAsc x l).Perm (x :: l) := by
  induction l with
  | nil => exact List.Perm.refl _
  | cons z zs ih =>
    unfold insertAsc
    split
    · exact List.Perm.refl _
    · exact (List.Perm.cons z ih).trans (List.Perm.swap x z zs)

theorem sortAsc_perm (l : List Nat) : (sortAsc l).Perm l := by
  unfold sortAsc
  induction l with
  | nil => exact List.Perm.refl _
  | cons x xs ih => exact (insertAsc_perm x _).trans (List.Perm.cons x ih)

theorem insertAsc_sorted (x : Nat) (l : List Nat) (h : l.Pairwise (· ≤ ·)) : (insertAsc x l).Pairwise (· ≤ ·) := by
  induction l with
  | nil => simp [insertAsc]
  | cons z zs ih =>
    unfold insertAsc
    rw [List.pairwise_cons] at h
    split
    · rename_i hxz
      refine List.pairwise_cons.mpr ⟨?_, List.pairwise_cons.mpr h⟩
      intro a ha
      simp only [List.mem_cons] at ha
      rcases ha with rfl | ha
      · exact hxz
      · exact Nat.le_trans hxz (h.1 a ha)
    · rename_i hxz
      refine List.pairwise_cons.mpr ⟨?_, ih h.2⟩
      intro a ha
      rw [mem_insertAsc] at ha
      rcases ha with rfl | ha
      · omega
      · exact h.1 a ha

theorem sortAsc_sorted (l : List Nat) : (sortAsc l).Pairwise (· ≤ ·) := by
  unfold sortAsc
  induction l with
  | nil => simp
  | cons x xs ih => exact insertAsc_sorted x _ ih

/-- `idxOf` through a map that is injective on the list -/
theorem idxOf_map_inj {α β : Type} [DecidableEq α] [DecidableEq β] (g : α → β) (l : List α) (x : α)
    (hx : x ∈ l) (hinj : ∀ a ∈ l, g a = g x → a = x) : (l.map g).idxOf (g x) = l.idxOf x := by
  induction l with
  | nil => simp at hx
  | cons a l ih =>
    rw [List.map_cons, List.idxOf_cons, List.idxOf_cons]
    by_cases hax : a = x
    · subst hax; simp
    · have hne : g a ≠ g x := fun e => hax (hinj a (by simp) e)
      have hx' : x ∈ l := by
        simp only [List.mem_cons] at hx
        rcases hx with rfl | hx
        · exact absurd rfl hax
        · exact hx
      have h1 : (g a == g x) = false := by simpa using hne
      have h2 : (a == x) = false := by simpa using hax
      rw [h1, h2, cond_false, cond_false, ih hx' (fun b hb => hinj b (by simp [hb]))]

theorem idxOf_getElem_nodup {α : Type} [DecidableEq α] (l : List α) (hn : l.Nodup) (m : Nat) (hm : m < l.length) :
    l.idxOf l[m] = m := by
  induction l generalizing m with
  | nil => simp at hm
  | cons a l ih =>
    rw [List.nodup_cons] at hn
    cases m with
    | zero => simp
    | succ m =>
      simp only [List.getElem_cons_succ]
      rw [List.idxOf_cons]
      have : a ≠ l[m]'(by simpa using hm) := fun e => hn.1 (e ▸ List.getElem_mem _)
      have h1 : (a == l[m]'(by simpa using hm)) = false := by simpa using this
      rw [h1, cond_false, ih hn.2]

/-- the code path of `usecols` on one row -/
theorem selectRow (cols : List Nat) (hn : cols.Nodup) (row : List Int) :
    (List.range cols.length).map (fun m =>
      ((sortAsc cols).map (fun c => row.getD c 0)).getD (((sortAsc cols).map (fun c => cols.idxOf c)).idxOf m) 0)
    = cols.map (fun c => row.getD c 0) := by
  apply List.ext_getElem
  · simp
  · intro m h1 h2
    simp only [List.length_map, List.length_range] at h1
    simp only [List.getElem_map, List.getElem_range]
    have hmem : cols[m] ∈ sortAsc cols := (mem_sortAsc _ _).mpr (List.getElem_mem _)
    have hm : cols.idxOf cols[m] = m := idxOf_getElem_nodup cols hn m h1
    have hidx : ((sortAsc cols).map (fun c => cols.idxOf c)).idxOf m = (sortAsc cols).idxOf cols[m] := by
      conv => lhs; rw [← hm]
      apply idxOf_map_inj (fun c => cols.idxOf c) (sortAsc cols) cols[m] hmem
      intro a ha e
      have ha' : a ∈ cols := (mem_sortAsc _ _).mp ha
      have h3 : cols.idxOf a < cols.length := List.idxOf_lt_length_iff.mpr ha'
      have := List.getElem_idxOf h3
      rw [← this]
      simp only [e, hm]
    rw [hidx]
    have hlt : (sortAsc cols).idxOf cols[m] < (sortAsc cols).length := List.idxOf_lt_length_iff.mpr hmem
    rw [List.getD_eq_getElem?_getD, List.getElem?_eq_getElem (by simpa using hlt)]
    simp only [List.getElem_map, Option.getD_some, List.getElem_idxOf hlt]

theorem selectColsCode_eq (cols : List Nat) (hn : cols.Nodup) (tbl : List (List Int)) :
    selectColsCode cols tbl = selectCols cols tbl := by
  unfold selectColsCode selectCols
  apply List.map_congr_left
  intro row _
  exact selectRow cols hn row

/-! ### limits -/

theorem splitLimits_go_spec {α : Type} (limits : List Nat) (rows : List α) (h : limits.sum = rows.length) :
    (splitLimits.go limits rows).map List.length = limits ∧ (splitLimits.go limits rows).flatten = rows := by
  induction limits generalizing rows with
  | nil =>
    simp only [List.sum_nil] at h
    have : rows = [] := List.eq_nil_of_length_eq_zero h.symm
    subst this
    simp [splitLimits.go]
  | cons n ns ih =>
    simp only [List.sum_cons] at h
    have h' : ns.sum = (rows.drop n).length := by simp; omega
    have hn : min n rows.length = n := by omega
    obtain ⟨ih1, ih2⟩ := ih (rows.drop n) h'
    simp only [splitLimits.go, List.map_cons, List.flatten_cons, ih1, ih2, List.take_append_drop, List.length_take, hn]
    trivial

theorem splitLimits_some {α : Type} (limits : List Nat) (rows : List α) (pieces : List (List α))
    (h : splitLimits limits rows = some pieces) :
    limits.sum = rows.length ∧ pieces.map List.length = limits ∧ pieces.flatten = rows := by
  unfold splitLimits at h
  split at h
  · simp at h
  · rename_i hs
    simp only [Option.some.injEq] at h
    subst h
    have hs' : limits.sum = rows.length := by simpa using hs
    exact ⟨hs', splitLimits_go_spec limits rows hs'⟩

theorem splitLimits_none {α : Type} (limits : List Nat) (rows : List α) :
    splitLimits limits rows = none ↔ limits.sum ≠ rows.length := by
  unfold splitLimits
  split <;> simp_all

theorem splitLimits_single {α : Type} (rows : List α) : splitLimits [rows.length] rows = some [rows] := by
  simp [splitLimits, splitLimits.go]

/-! ### chunking -/

theorem chunks_eq_go {α : Type} (l : List α) (c : Nat) (hc : 1 ≤ c) : chunks l c = chunks.go c l.length l := by
  unfold chunks
  rw [if_neg (by omega)]

theorem chunks_go_nil {α : Type} (c fuel : Nat) : chunks.go c fuel ([] : List α) = [] := by
  cases fuel <;> rfl

theorem chunks_go_cons {α : Type} (c fuel : Nat) (a : α) (l : List α) :
    chunks.go c (fuel + 1) (a :: l) = (a :: l).take c :: chunks.go c fuel ((a :: l).drop c) := rfl

theorem chunks_go_spec {α : Type} (c : Nat) (hc : 1 ≤ c) (fuel : Nat) (l : List α) (hf : l.length ≤ fuel) :
    (chunks.go c fuel l).flatten = l ∧
    (∀ ch ∈ chunks.go c fuel l, ch ≠ [] ∧ ch.length ≤ c) ∧
    (∀ ch ∈ (chunks.go c fuel l).dropLast, ch.length = c) ∧
    (chunks.go c fuel l).length = (l.length + c - 1) / c := by
  induction fuel generalizing l with
  | zero =>
    have : l = [] := List.eq_nil_of_length_eq_zero (by omega)
    subst this
    rw [chunks_go_nil]
    refine ⟨rfl, by simp, by simp, ?_⟩
    simp only [List.length_nil]
    rw [Nat.div_eq_of_lt (by omega)]
  | succ fuel ih =>
    cases l with
    | nil =>
      rw [chunks_go_nil]
      refine ⟨rfl, by simp, by simp, ?_⟩
      simp only [List.length_nil]
      rw [Nat.div_eq_of_lt (by omega)]
    | cons a l =>
      rw [chunks_go_cons]
      have hlen : ((a :: l).drop c).length = (a :: l).length - c := List.length_drop
      have htl : ((a :: l).take c).length = min c (a :: l).length := List.length_take
      have hpos : 1 ≤ (a :: l).length := by simp
      generalize (a :: l).length = n at hlen htl hpos hf ⊢
      have hf' : ((a :: l).drop c).length ≤ fuel := by
        rw [hlen]; omega
      obtain ⟨ih1, ih2, ih3, ih4⟩ := ih ((a :: l).drop c) hf'
      refine ⟨?_, ?_, ?_, ?_⟩
      · rw [List.flatten_cons, ih1, List.take_append_drop]
      · intro ch hch
        simp only [List.mem_cons] at hch
        rcases hch with rfl | hch
        · refine ⟨?_, by rw [htl]; omega⟩
          intro e
          have := congrArg List.length e
          rw [htl] at this
          simp only [List.length_nil] at this
          omega
        · exact ih2 ch hch
      · intro ch hch
        cases hgo : chunks.go c fuel ((a :: l).drop c) with
        | nil => rw [hgo] at hch; simp at hch
        | cons b rest =>
          rw [hgo, List.dropLast_cons_cons] at hch
          simp only [List.mem_cons] at hch
          rcases hch with rfl | hch
          · have h4 := ih4
            rw [hgo, hlen] at h4
            simp only [List.length_cons] at h4
            have : n - c ≠ 0 := by
              intro e
              rw [e, Nat.zero_add, Nat.div_eq_of_lt (by omega)] at h4
              omega
            rw [htl]; omega
          · rw [hgo] at ih3; exact ih3 ch hch
      · rw [List.length_cons, ih4, hlen]
        by_cases hle : c ≤ n
        · have : n + c - 1 = (n - c + c - 1) + c := by omega
          rw [this, Nat.add_div_right _ (by omega)]
        · have h0 : n - c = 0 := by omega
          rw [h0, Nat.zero_add, Nat.div_eq_of_lt (by omega)]
          have h1 : (n + c - 1) / c = 1 := by
            have : n + c - 1 = (n - 1) + c := by omega
            rw [this, Nat.add_div_right _ (by omega), Nat.div_eq_of_lt (by omega)]
          rw [h1]

theorem chunks_spec {α : Type} (l : List α) (c : Nat) (hc : 1 ≤ c) :
    (chunks l c).flatten = l ∧
    (∀ ch ∈ chunks l c, ch ≠ [] ∧ ch.length ≤ c) ∧
    (∀ ch ∈ (chunks l c).dropLast, ch.length = c) ∧
    (chunks l c).length = (l.length + c - 1) / c := by
  rw [chunks_eq_go l c hc]
  exact chunks_go_spec c hc l.length l (Nat.le_refl _)

/-! ### command-line coring -/

theorem cliCoring_eq (core : List Int → Option (List Int)) (lines : List Line) (limits : Option (List Nat))
    (hdr : List Char) :
    cliCoring core lines limits hdr =
      (readTable lines).bind fun tbl =>
        (splitLimits (limits.getD [(tbl.map (fun r => r.getD 0 0)).length]) (tbl.map (fun r => r.getD 0 0))).bind fun pieces =>
          (pieces.mapM core).bind fun cored => some (writeTable hdr .f0 (cored.flatten.map (fun v => [v]))) := rfl

theorem cliCoring_some_iff (core : List Int → Option (List Int)) (lines : List Line) (limits : Option (List Nat))
    (hdr : List Char) (out : List Line) :
    cliCoring core lines limits hdr = some out ↔
      ∃ tbl pieces cored, readTable lines = some tbl ∧
        splitLimits (limits.getD [(tbl.map (fun r => r.getD 0 0)).length]) (tbl.map (fun r => r.getD 0 0)) = some pieces ∧
        pieces.mapM core = some cored ∧
        out = writeTable hdr .f0 (cored.flatten.map (fun v => [v])) := by
  rw [cliCoring_eq]
  simp only [Option.bind_eq_some_iff, Option.some.injEq]
  constructor
  · rintro ⟨tbl, h1, pieces, h2, cored, h3, rfl⟩
    exact ⟨tbl, pieces, cored, h1, h2, h3, rfl⟩
  · rintro ⟨tbl, pieces, cored, h1, h2, h3, rfl⟩
    exact ⟨tbl, h1, pieces, h2, cored, h3, rfl⟩

theorem mapM_lengths (core : List Int → Option (List Int))
    (hcore : ∀ t r, core t = some r → r.length = t.length) (pieces cored : List (List Int))
    (h : pieces.mapM core = some cored) : cored.map List.length = pieces.map List.length := by
  induction pieces generalizing cored with
  | nil =>
    simp at h; subst h; rfl
  | cons p ps ih =>
    rw [List.mapM_cons] at h
    cases h1 : core p with
    | none => simp [h1] at h
    | some r =>
      cases h2 : ps.mapM core with
      | none => simp [h1, h2] at h
      | some rs =>
        simp [h1, h2] at h
        subst h
        simp only [List.map_cons, hcore p r h1, ih rs h2]

theorem firstCol_single (p : List Int) : (p.map (fun v => [v])).map (fun r => r.getD 0 0) = p := by
  rw [List.map_map]
  conv => rhs; rw [← List.map_id p]
  apply List.map_congr_left
  intro v _; rfl

theorem readTable_write_single (hdr : List Char) (fmt : Fmt) (col : List Int) :
    readTable (writeTable hdr fmt (col.map (fun v => [v]))) = some (col.map (fun v => [v])) :=
  readTable_writeTable hdr fmt _ (by
    intro r hr
    simp only [List.mem_map] at hr
    obtain ⟨v, _, rfl⟩ := hr
    simp)

/-- the command on a file that holds one piece and has no limits file -/
theorem cliCoring_single (core : List Int → Option (List Int)) (lines : List Line) (p : List Int) (hdr : List Char)
    (h : readTable lines = some (p.map (fun v => [v]))) :
    cliCoring core lines none hdr = (core p).map (fun r => writeTable hdr .f0 (r.map (fun v => [v]))) := by
  rw [cliCoring_eq, h]
  simp only [Option.bind_some, Option.getD_none, firstCol_single, splitLimits_single]
  cases hc : core p with
  | none => simp [hc]
  | some r => simp [hc]

/-- the command with a limits file, given what the reader and the splitter return -/
theorem cliCoring_limits (core : List Int → Option (List Int)) (lines : List Line) (ls : List Nat) (hdr : List Char)
    (tbl : List (List Int)) (pieces : List (List Int)) (h1 : readTable lines = some tbl)
    (h2 : splitLimits ls (tbl.map (fun r => r.getD 0 0)) = some pieces) :
    cliCoring core lines (some ls) hdr =
      (pieces.mapM core).map (fun cored => writeTable hdr .f0 (cored.flatten.map (fun v => [v]))) := by
  rw [cliCoring_eq, h1]
  simp only [Option.bind_some, Option.getD_some, h2]
  cases pieces.mapM core <;> rfl

theorem mapM_option_map {α β γ : Type} (f : α → Option β) (g : β → γ) (l : List α) :
    l.mapM (fun a => (f a).map g) = (l.mapM f).map (List.map g) := by
  induction l with
  | nil => rfl
  | cons a l ih =>
    rw [List.mapM_cons, List.mapM_cons, ih]
    cases f a with
    | none => rfl
    | some b => cases l.mapM f <;> rfl

theorem mapM_read_written (hdr : List Char) (cored : List (List Int)) :
    (cored.map (fun r => writeTable hdr .f0 (r.map (fun v => [v])))).mapM readTable
      = some (cored.map (fun r => r.map (fun v => [v]))) := by
  induction cored with
  | nil => rfl
  | cons r rs ih =>
    rw [List.map_cons, List.mapM_cons, readTable_write_single, ih]
    rfl

end MsmVerif.TextIO
