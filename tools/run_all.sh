#!/bin/bash
# tools/run_all.sh [quick|thorough] — run every check on the current tree, print a table, validate the evidence files
tier="${1:-quick}"
cd "$(dirname "$0")/.."
for i in $(seq -w 1 20); do
  pid=C$i
  s=$(date +%s)
  out=$(./bin/check $pid $tier 2>&1 | tail -3 | tr '\n' ' ')
  rc=${PIPESTATUS[0]}
  e=$(date +%s)
  echo "$pid $((e-s))s :: $out"
done
python3-vt - <<'PY'
import json, jsonschema, glob
sch=json.load(open('/root/.vp/EVIDENCE.schema.json'))
for f in sorted(glob.glob('evidence/C*.json')):
    try:
        jsonschema.validate(json.load(open(f)), sch)
    except Exception as e:
        print('INVALID', f, str(e)[:200])
print('evidence validated')
PY
