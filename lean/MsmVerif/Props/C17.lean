/-
Props/C17.lean — property theorems for C17 (representation independence: relabelling laws).
Helper lemmas live in Lemmas/Relabelling.lean.

Throughout, `ts : Trajs` is a trajectory set, `f : Int → Int` a renaming of the labels and `ts.map (·.map f)` the
relabelled set.  `f` only has to be injective (resp. strictly increasing) ON THE LABELS THAT OCCUR — nothing is assumed
about other integers.  Models: `states`/`rank`/`rankTrajs` (Model/Basic, Lemmas/StateTraj), `Msm.count`/`Msm.T`/
`Msm.specCounts`/`Msm.specT`/`Msm.estimate` (Model/Msm), `Coring.refSet`/`Coring.dynamicalCoring` (Model/Coring),
`Events.events`/`waitingTimes`/`pathsAll`/`mdWaitingTimes`/`mdPaths` (Model/Events), `Compare.*` (Model/Compare).

Remark (item 7, "forms"): every accepted container form of the Python API (list of lists, list of arrays, a single 1-d
array, a 2-d array, a `StateTraj`, any integer dtype) denotes one and the same value of type `Trajs` — in the model this
is definitional: the differential harness converts every form to `Trajs` before it calls the model, so there is no
theorem to state here; the agreement of the real code across the forms is checked by the harness, not by Lean.

The statements about the public entry points (`estimate`, `dynamicalCoring`, `mdWaitingTimes`, `mdPaths`, `compare`)
carry the 32-bit label guard `LabelGuard` (all labels in `[-2^29, 2^29]`) for the original AND the relabelled set,
because the model of the `StateTraj` constructor reproduces the 32-bit lookup table of the code.
-/
import MsmVerif.Lemmas.Relabelling
import MsmVerif.Props.C05
import MsmVerif.Props.C13

namespace MsmVerif.C17
open MsmVerif MsmVerif.Relabelling

/-! ### 1. state list, ranks, index trajectories -/

/-- Under a relabelling that is strictly increasing on the labels present, the sorted state list of the relabelled set
is the relabelled state list, in the same order. -/
theorem states_map (f : Int → Int) (ts : Trajs)
    (hf : ∀ a ∈ ts.flatten, ∀ b ∈ ts.flatten, a < b → f a < f b) :
    states (ts.map (·.map f)) = (states ts).map f :=
  states_relabel_mono hf

/-- … every label keeps its rank (its state index) … -/
theorem rank_map (f : Int → Int) (ts : Trajs)
    (hf : ∀ a ∈ ts.flatten, ∀ b ∈ ts.flatten, a < b → f a < f b) (x : Int) (hx : x ∈ ts.flatten) :
    rank (states (ts.map (·.map f))) (f x) = rank (states ts) x :=
  rank_relabel_mono hf hx

/-- … hence the index trajectories are identical. -/
theorem rankTrajs_map (f : Int → Int) (ts : Trajs)
    (hf : ∀ a ∈ ts.flatten, ∀ b ∈ ts.flatten, a < b → f a < f b) :
    rankTrajs (ts.map (·.map f)) = rankTrajs ts :=
  rankTrajs_relabel_mono hf

/-- For a merely injective relabelling the new state list is a permutation of the relabelled old one (same number of
states). -/
theorem states_perm (f : Int → Int) (ts : Trajs)
    (hf : ∀ a ∈ ts.flatten, ∀ b ∈ ts.flatten, f a = f b → a = b) :
    (states (ts.map (·.map f))).Perm ((states ts).map f) :=
  states_relabel_perm hf

/-- `x ↦ 2x + 3` is strictly increasing on the labels `1, 5, 7` -/
example : ∀ a ∈ ([[1, 1, 5], [5, 7]] : Trajs).flatten, ∀ b ∈ ([[1, 1, 5], [5, 7]] : Trajs).flatten,
    a < b → 2 * a + 3 < 2 * b + 3 := by decide
example : states (([[1, 1, 5], [5, 7]] : Trajs).map (·.map (fun x => 2 * x + 3))) = [5, 13, 17] := by decide
/-- for a decreasing `f` the order flips: only the permutation statement holds -/
example : states (([[1, 1, 5], [5, 7]] : Trajs).map (·.map (fun x => -x))) = [-7, -5, -1] := by decide

/-! ### 2. strictly increasing relabelling: matrices unchanged -/

/-- The transition matrix and the count matrix (rows/columns in state order) do not change under a strictly increasing
relabelling. -/
theorem monotone_T (f : Int → Int) (ts : Trajs) (lag : Nat)
    (hf : ∀ a ∈ ts.flatten, ∀ b ∈ ts.flatten, a < b → f a < f b) :
    Msm.specT (ts.map (·.map f)) lag = Msm.specT ts lag ∧
    Msm.specCounts (ts.map (·.map f)) lag = Msm.specCounts ts lag :=
  ⟨specT_relabel_mono hf lag, specCounts_relabel_mono hf lag⟩

/-- The same for the model of the public `estimate_markov_model`: identical count matrix and transition matrix, state
list relabelled. -/
theorem monotone_estimate (f : Int → Int) (ts : Trajs) (lag : Nat)
    (hf : ∀ a ∈ ts.flatten, ∀ b ∈ ts.flatten, a < b → f a < f b)
    (hg : LabelGuard ts) (hg' : LabelGuard (ts.map (·.map f))) :
    Msm.estimate (ts.map (·.map f)) lag = (Msm.estimate ts lag).map (fun r => (r.1, r.2.1, r.2.2.map f)) :=
  estimate_relabel_mono hf hg hg' lag

example : Msm.specCounts (([[1, 1, 5], [5, 7]] : Trajs).map (·.map (fun x => 2 * x + 3))) 1 = [[1, 1, 0], [0, 0, 1], [0, 0, 0]]
    ∧ Msm.specCounts [[1, 1, 5], [5, 7]] 1 = [[1, 1, 0], [0, 0, 1], [0, 0, 0]] := by decide
example : LabelGuard [[1, 1, 5], [5, 7]] ∧ LabelGuard (([[1, 1, 5], [5, 7]] : Trajs).map (·.map (fun x => 2 * x + 3))) := by
  decide

/-! ### 3. injective relabelling: rows and columns permuted consistently -/

/-- For `f` injective on the labels present, the transition count and the transition probability between the images of
two labels equal those between the labels. -/
theorem bijective_T (f : Int → Int) (ts : Trajs) (lag : Nat)
    (hf : ∀ a ∈ ts.flatten, ∀ b ∈ ts.flatten, f a = f b → a = b)
    (a b : Int) (ha : a ∈ ts.flatten) (hb : b ∈ ts.flatten) :
    Msm.count (ts.map (·.map f)) lag (f a) (f b) = Msm.count ts lag a b ∧
    Msm.T (ts.map (·.map f)) lag (f a) (f b) = Msm.T ts lag a b :=
  ⟨count_relabel hf lag ha hb, T_relabel hf lag ha hb⟩

/-- `x ↦ -x` is injective (and order-reversing) on the labels -/
example : ∀ a ∈ ([[1, 1, 5], [5, 7]] : Trajs).flatten, ∀ b ∈ ([[1, 1, 5], [5, 7]] : Trajs).flatten,
    -a = -b → a = b := by decide
example : Msm.count (([[1, 1, 5], [5, 7]] : Trajs).map (·.map (fun x => -x))) 1 (-1) (-5) = 1 := by decide

/-! ### 4. dynamical coring commutes with relabelling -/

/-- The coring reference of the relabelled set is the relabelled coring reference (errors included), for `f` injective
on the labels present. -/
theorem coring_relabel (f : Int → Int) (ts : Trajs) (τ : Int) (iter : Bool)
    (hf : ∀ a ∈ ts.flatten, ∀ b ∈ ts.flatten, f a = f b → a = b) :
    Coring.refSet (ts.map (·.map f)) τ iter = (Coring.refSet ts τ iter).map (·.map (·.map f)) :=
  refSet_relabel (fun t ht a ha b hb => hf a (List.mem_flatten.mpr ⟨t, ht, ha⟩) b (List.mem_flatten.mpr ⟨t, ht, hb⟩))
    τ iter

/-- Stronger: injectivity is only needed inside each single trajectory. -/
theorem coring_relabel_per_traj (f : Int → Int) (ts : Trajs) (τ : Int) (iter : Bool)
    (hf : ∀ t ∈ ts, ∀ a ∈ t, ∀ b ∈ t, f a = f b → a = b) :
    Coring.refSet (ts.map (·.map f)) τ iter = (Coring.refSet ts τ iter).map (·.map (·.map f)) :=
  refSet_relabel hf τ iter

/-- The same for the model of the public `dynamical_coring` (under the label guard on both sides). -/
theorem coring_relabel_public (f : Int → Int) (ts : Trajs) (τ : Int) (iter : Bool)
    (hf : ∀ t ∈ ts, ∀ a ∈ t, ∀ b ∈ t, f a = f b → a = b)
    (hg : LabelGuard ts) (hg' : LabelGuard (ts.map (·.map f))) :
    Coring.dynamicalCoring (ts.map (·.map f)) τ iter = (Coring.dynamicalCoring ts τ iter).map (·.map (·.map f)) :=
  dynamicalCoring_relabel hf hg hg' τ iter

example : Coring.refSet [[1, 1, 5, 1, 1], [5, 5, 1]] 2 false = .ok [[1, 1, 1, 1, 1], [5, 5, 5]] ∧
    Coring.refSet (([[1, 1, 5, 1, 1], [5, 5, 1]] : Trajs).map (·.map (fun x => -x))) 2 false
      = .ok [[-1, -1, -1, -1, -1], [-5, -5, -5]] := by decide

/-! ### 5. events, waiting times, pathways -/

/-- For `f` injective on the labels of a trajectory together with the start and final sets, the events (start frame,
end frame) of the relabelled trajectory with the relabelled sets are the same. -/
theorem events_relabel (f : Int → Int) (S F t : List Int)
    (hf : ∀ a ∈ t ++ S ++ F, ∀ b ∈ t ++ S ++ F, f a = f b → a = b) :
    Events.events (S.map f) (F.map f) (t.map f) = Events.events S F t :=
  events_map hf (fun s hs => by simp [hs]) (fun s hs => by simp [hs]) t (fun x hx => by simp [hx])

/-- The waiting times of a trajectory set are unchanged. -/
theorem waiting_times_relabel (f : Int → Int) (S F : List Int) (ts : Trajs)
    (hf : ∀ a ∈ ts.flatten ++ S ++ F, ∀ b ∈ ts.flatten ++ S ++ F, f a = f b → a = b) :
    Events.waitingTimes (S.map f) (F.map f) (ts.map (·.map f)) = Events.waitingTimes S F ts :=
  waitingTimes_relabel hf (fun s hs => by simp [hs]) (fun s hs => by simp [hs]) ts (fun x hx => by simp [hx])

/-- The pathways are relabelled, their durations and their order of occurrence unchanged. -/
theorem paths_relabel (f : Int → Int) (S F : List Int) (ts : Trajs)
    (hf : ∀ a ∈ ts.flatten ++ S ++ F, ∀ b ∈ ts.flatten ++ S ++ F, f a = f b → a = b) :
    Events.pathsAll (S.map f) (F.map f) (ts.map (·.map f))
      = (Events.pathsAll S F ts).map (fun p => (p.1.map f, p.2)) :=
  pathsAll_relabel hf (fun s hs => by simp [hs]) (fun s hs => by simp [hs]) ts (fun x hx => by simp [hx])

/-- The models of the public `md.estimate_waiting_times` / `md.estimate_paths` (which sort and de-duplicate the given
start/final lists and validate them against the states): same rejections, same waiting times, relabelled pathways. -/
theorem md_relabel_public (f : Int → Int) (start final : List Int) (ts : Trajs)
    (hf : ∀ a ∈ ts.flatten ++ start ++ final, ∀ b ∈ ts.flatten ++ start ++ final, f a = f b → a = b)
    (hg : LabelGuard ts) (hg' : LabelGuard (ts.map (·.map f))) :
    Events.mdWaitingTimes (ts.map (·.map f)) (start.map f) (final.map f) = Events.mdWaitingTimes ts start final ∧
    Events.mdPaths (ts.map (·.map f)) (start.map f) (final.map f)
      = (Events.mdPaths ts start final).map (List.map (fun p => (p.1.map f, p.2))) :=
  ⟨mdWaitingTimes_relabel hf hg hg', mdPaths_relabel hf hg hg'⟩

example : ∀ a ∈ ([[1, 2, 3, 2, 3, 4]] : Trajs).flatten ++ [1] ++ [4],
    ∀ b ∈ ([[1, 2, 3, 2, 3, 4]] : Trajs).flatten ++ [1] ++ [4], (10 - a : Int) = 10 - b → a = b := by decide
example : Events.pathsAll [1] [4] [[1, 2, 3, 2, 3, 4]] = [([1, 2, 3, 4], 5)] ∧
    Events.pathsAll [9] [6] (([[1, 2, 3, 2, 3, 4]] : Trajs).map (·.map (fun x => 10 - x))) = [([9, 8, 7, 6], 5)] := by
  decide

/-! ### 6. similarity of two discretisations -/

/-- Both similarities of two labelings of the same frames are invariant under renaming either labeling injectively
(restated from `C13.rename_directed`, `C13.rename_symmetric`). -/
theorem similarity_relabel (l1 l2 : List Int) (hlen : l1.length = l2.length) (f g : Int → Int)
    (hf : ∀ x ∈ l1, ∀ y ∈ l1, f x = f y → x = y) (hg : ∀ x ∈ l2, ∀ y ∈ l2, g x = g y → x = y) :
    Compare.directedFrames (l1.map f) (l2.map g) = Compare.directedFrames l1 l2 ∧
    Compare.symmetricFrames (l1.map f) (l2.map g) = Compare.symmetricFrames l1 l2 :=
  ⟨C13.rename_directed l1 l2 hlen f g hf hg, C13.rename_symmetric l1 l2 hlen f g hf hg⟩

/-- The model of the public `compare_discretization` returns the same value or the same error after renaming the labels
of either trajectory set injectively (under the label guard on all four sets). -/
theorem similarity_relabel_public (f g : Int → Int) (t1 t2 : Trajs) (m : Nat)
    (hf : ∀ x ∈ t1.flatten, ∀ y ∈ t1.flatten, f x = f y → x = y)
    (hg : ∀ x ∈ t2.flatten, ∀ y ∈ t2.flatten, g x = g y → x = y)
    (hg1 : LabelGuard t1) (hg2 : LabelGuard t2)
    (hg1' : LabelGuard (t1.map (·.map f))) (hg2' : LabelGuard (t2.map (·.map g))) :
    Compare.compare (t1.map (·.map f)) (t2.map (·.map g)) m = Compare.compare t1 t2 m :=
  compare_relabel hf hg hg1 hg2 hg1' hg2' m

example : ∀ x ∈ ([1, 1, 2, 2] : List Int), ∀ y ∈ ([1, 1, 2, 2] : List Int), x * x = y * y → x = y := by decide

end MsmVerif.C17
