/-
Lemmas/Linalg.lean — helper lemmas for C14 (ergodicity predicates) and C04 (equilibrium population).
All statements are about the exact rational list-of-lists model `Model/Linalg.lean`.

Main tools: `WF n m` (well-formed `n × n` matrix), `rsum n f = Σ_{k<n} f k` with a bridge to `Finset.sum`,
the entry formula `entry_mul`, extensionality `Mat.ext`, associativity of `mul`, `powFast = pow`,
walks in the boolean support graph and their relation to positive entries of powers.
-/
import MsmVerif.Model.Linalg
import Mathlib.Tactic.Linarith
import Mathlib.Tactic.Ring
import Mathlib.Algebra.Order.Ring.Rat
import Mathlib.Algebra.BigOperators.Group.Finset.Basic
import Mathlib.Algebra.BigOperators.Ring.Finset
import Mathlib.Algebra.Order.BigOperators.Group.Finset

namespace MsmVerif.Linalg
open MsmVerif.Msm

/-! ### basic list facts -/

theorem getD_of_lt {α : Type} (l : List α) (d : α) {k : Nat} (h : k < l.length) : l.getD k d = l[k] := by
  rw [List.getD_eq_getElem?_getD, List.getElem?_eq_getElem h]
  rfl

theorem getD_of_ge {α : Type} (l : List α) (d : α) {k : Nat} (h : l.length ≤ k) : l.getD k d = d := by
  rw [List.getD_eq_getElem?_getD, List.getElem?_eq_none h]
  rfl

/-! ### well-formed square matrices -/

/-- `m` is a well-formed `n × n` matrix -/
def WF (n : Nat) (m : Mat) : Prop := m.length = n ∧ ∀ r ∈ m, r.length = n

instance (n : Nat) (m : Mat) : Decidable (WF n m) := by unfold WF; infer_instance

/-- all entries are non-negative -/
def NonNeg (m : Mat) : Prop := ∀ r ∈ m, ∀ x ∈ r, 0 ≤ x

instance (m : Mat) : Decidable (NonNeg m) := by unfold NonNeg; infer_instance

theorem WF.row_length {n : Nat} {m : Mat} (h : WF n m) {i : Nat} (hi : i < n) : (m.getD i []).length = n := by
  have hi' : i < m.length := by rw [h.1]; exact hi
  rw [getD_of_lt m [] hi']
  exact h.2 _ (List.getElem_mem hi')

theorem entry_eq_getElem {n : Nat} {m : Mat} (h : WF n m) {i j : Nat} (hi : i < n) (hj : j < n) :
    entry m i j = (m[i]'(by rw [h.1]; exact hi))[j]'(by
      rw [h.2 _ (List.getElem_mem _)]; exact hj) := by
  have hi' : i < m.length := by rw [h.1]; exact hi
  unfold entry
  rw [getD_of_lt m [] hi', getD_of_lt]

/-- extensionality: two well-formed `n × n` matrices with equal entries are equal -/
theorem Mat.ext {n : Nat} {a b : Mat} (ha : WF n a) (hb : WF n b)
    (h : ∀ i j, i < n → j < n → entry a i j = entry b i j) : a = b := by
  apply List.ext_getElem (by rw [ha.1, hb.1])
  intro i h1 h2
  have hi : i < n := by rw [← ha.1]; exact h1
  apply List.ext_getElem (by rw [ha.2 _ (List.getElem_mem h1), hb.2 _ (List.getElem_mem h2)])
  intro j h3 h4
  have hj : j < n := by rw [← ha.2 _ (List.getElem_mem h1)]; exact h3
  have := h i j hi hj
  rw [entry_eq_getElem ha hi hj, entry_eq_getElem hb hi hj] at this
  exact this

theorem NonNeg.entry {m : Mat} (h : NonNeg m) (i j : Nat) : 0 ≤ entry m i j := by
  unfold Linalg.entry
  by_cases hi : i < m.length
  · rw [getD_of_lt m [] hi]
    by_cases hj : j < m[i].length
    · rw [getD_of_lt _ _ hj]
      exact h _ (List.getElem_mem hi) _ (List.getElem_mem hj)
    · rw [getD_of_ge _ _ (Nat.le_of_not_lt hj)]
  · rw [getD_of_ge m [] (Nat.le_of_not_lt hi)]
    simp

/-! ### sums over `range n` -/

/-- `Σ_{k<n} f k` as a list sum -/
def rsum (n : Nat) (f : Nat → Rat) : Rat := ((List.range n).map f).sum

theorem rsum_succ (n : Nat) (f : Nat → Rat) : rsum (n + 1) f = rsum n f + f n := by
  unfold rsum
  rw [List.range_succ, List.map_append, List.sum_append]
  simp

theorem rsum_eq_finset (n : Nat) (f : Nat → Rat) : rsum n f = ∑ k ∈ Finset.range n, f k := by
  induction n with
  | zero => simp [rsum]
  | succ n ih => rw [rsum_succ, Finset.sum_range_succ, ih]

theorem rsum_congr {n : Nat} {f g : Nat → Rat} (h : ∀ k, k < n → f k = g k) : rsum n f = rsum n g := by
  rw [rsum_eq_finset, rsum_eq_finset]
  exact Finset.sum_congr rfl (fun k hk => h k (Finset.mem_range.mp hk))

/-- a list sum is the sum of its entries by position -/
theorem sum_eq_rsum (l : List Rat) : l.sum = rsum l.length (fun k => l.getD k 0) := by
  induction l using List.reverseRecOn with
  | nil => simp [rsum]
  | append_singleton l x ih =>
    rw [List.sum_append, List.length_append, List.length_singleton, rsum_succ, ih]
    congr 1
    · apply rsum_congr
      intro k hk
      rw [getD_of_lt _ _ hk, getD_of_lt _ _ (by simp; omega), List.getElem_append_left hk]
    · simp

theorem dot_eq_rsum {n : Nat} {a b : Vec} (ha : a.length = n) (hb : b.length = n) :
    dot a b = rsum n (fun k => a.getD k 0 * b.getD k 0) := by
  unfold dot
  rw [sum_eq_rsum]
  have hl : ((a.zip b).map (fun p => p.1 * p.2)).length = n := by simp [ha, hb]
  rw [hl]
  apply rsum_congr
  intro k hk
  rw [getD_of_lt _ _ (by rw [hl]; exact hk), getD_of_lt a _ (by omega), getD_of_lt b _ (by omega)]
  simp

/-! ### transpose, product, identity -/

theorem getD_map_range {α : Type} (n : Nat) (f : Nat → α) (d : α) {i : Nat} (hi : i < n) :
    ((List.range n).map f).getD i d = f i := by
  rw [getD_of_lt _ _ (by simpa using hi)]
  simp

theorem getD_map {α β : Type} (a : List α) (f : α → β) (d : β) {i : Nat} (hi : i < a.length) :
    (a.map f).getD i d = f a[i] := by
  rw [getD_of_lt _ _ (by simpa using hi)]
  simp

theorem transpose_eq {n : Nat} {b : Mat} (h : WF n b) :
    transpose b = (List.range n).map (fun j => b.map (fun row => row.getD j 0)) := by
  cases b with
  | nil =>
    have : n = 0 := by simpa using h.1.symm
    subst this; simp [transpose]
  | cons r rs =>
    have : r.length = n := h.2 r (by simp)
    simp [transpose, this]

theorem WF_transpose {n : Nat} {b : Mat} (h : WF n b) : WF n (transpose b) := by
  rw [transpose_eq h]
  refine ⟨by simp, ?_⟩
  intro r hr
  simp only [List.mem_map, List.mem_range] at hr
  obtain ⟨j, _, rfl⟩ := hr
  simp [h.1]

theorem entry_transpose {n : Nat} {b : Mat} (h : WF n b) {i j : Nat} (hi : i < n) (hj : j < n) :
    entry (transpose b) i j = entry b j i := by
  unfold entry
  rw [transpose_eq h, getD_map_range _ _ _ hi, getD_map _ _ _ (by rw [h.1]; exact hj),
    getD_of_lt b _ (by rw [h.1]; exact hj)]

theorem WF_mul {n : Nat} {a b : Mat} (ha : WF n a) (hb : WF n b) : WF n (mul a b) := by
  unfold mul
  refine ⟨by simp [ha.1], ?_⟩
  intro r hr
  simp only [List.mem_map] at hr
  obtain ⟨row, _, rfl⟩ := hr
  simp [(WF_transpose hb).1]

theorem entry_mul {n : Nat} {a b : Mat} (ha : WF n a) (hb : WF n b) {i j : Nat} (hi : i < n) (hj : j < n) :
    entry (mul a b) i j = rsum n (fun k => entry a i k * entry b k j) := by
  have hi' : i < a.length := by rw [ha.1]; exact hi
  have hj' : j < (transpose b).length := by rw [(WF_transpose hb).1]; exact hj
  have e1 : entry (mul a b) i j = dot (a.getD i []) ((transpose b).getD j []) := by
    unfold entry mul
    rw [getD_map _ _ _ hi', getD_map _ _ _ hj', getD_of_lt a _ hi', getD_of_lt _ _ hj']
  rw [e1, dot_eq_rsum (ha.row_length hi) ((WF_transpose hb).row_length hj)]
  apply rsum_congr
  intro k hk
  have := entry_transpose hb hj hk
  unfold entry at this ⊢
  rw [this]

theorem WF_identity (n : Nat) : WF n (identity n) := by
  unfold identity
  refine ⟨by simp, ?_⟩
  intro r hr
  simp only [List.mem_map, List.mem_range] at hr
  obtain ⟨j, _, rfl⟩ := hr
  simp

theorem entry_identity {n i j : Nat} (hi : i < n) (hj : j < n) :
    entry (identity n) i j = if i = j then 1 else 0 := by
  unfold entry identity
  rw [getD_map_range _ _ _ hi, getD_map_range _ _ _ hj]

/-! ### ring laws of `mul` on well-formed matrices, powers -/

theorem mul_assoc' {n : Nat} {a b c : Mat} (ha : WF n a) (hb : WF n b) (hc : WF n c) :
    mul (mul a b) c = mul a (mul b c) := by
  apply Mat.ext (WF_mul (WF_mul ha hb) hc) (WF_mul ha (WF_mul hb hc))
  intro i j hi hj
  rw [entry_mul (WF_mul ha hb) hc hi hj, entry_mul ha (WF_mul hb hc) hi hj]
  rw [rsum_congr (g := fun k => rsum n (fun l => entry a i l * entry b l k * entry c k j))
    (fun k hk => by rw [entry_mul ha hb hi hk]; simp only [rsum_eq_finset]; rw [Finset.sum_mul])]
  rw [rsum_congr (f := fun k => entry a i k * entry (mul b c) k j)
    (g := fun l => rsum n (fun k => entry a i l * entry b l k * entry c k j))
    (fun l hl => by rw [entry_mul hb hc hl hj]; simp only [rsum_eq_finset]; rw [Finset.mul_sum]
                    exact Finset.sum_congr rfl (fun _ _ => (mul_assoc _ _ _).symm))]
  simp only [rsum_eq_finset]
  exact Finset.sum_comm

theorem mul_identity {n : Nat} {a : Mat} (ha : WF n a) : mul a (identity n) = a := by
  apply Mat.ext (WF_mul ha (WF_identity n)) ha
  intro i j hi hj
  rw [entry_mul ha (WF_identity n) hi hj, rsum_eq_finset]
  rw [Finset.sum_eq_single j]
  · rw [entry_identity hj hj]; simp
  · intro k hk hkj
    rw [entry_identity (Finset.mem_range.mp hk) hj]; simp [hkj]
  · intro h; exact absurd (Finset.mem_range.mpr hj) h

theorem identity_mul {n : Nat} {a : Mat} (ha : WF n a) : mul (identity n) a = a := by
  apply Mat.ext (WF_mul (WF_identity n) ha) ha
  intro i j hi hj
  rw [entry_mul (WF_identity n) ha hi hj, rsum_eq_finset]
  rw [Finset.sum_eq_single i]
  · rw [entry_identity hi hi]; simp
  · intro k hk hki
    rw [entry_identity hi (Finset.mem_range.mp hk)]; simp [Ne.symm hki]
  · intro h; exact absurd (Finset.mem_range.mpr hi) h

theorem WF_pow {n : Nat} {m : Mat} (h : WF n m) (k : Nat) : WF n (pow m k) := by
  induction k with
  | zero => rw [pow, h.1]; exact WF_identity n
  | succ k ih => rw [pow]; exact WF_mul ih h

theorem pow_add {n : Nat} {m : Mat} (h : WF n m) (a b : Nat) :
    pow m (a + b) = mul (pow m a) (pow m b) := by
  induction b with
  | zero => rw [Nat.add_zero, pow, h.1, mul_identity (WF_pow h a)]
  | succ b ih =>
    rw [← Nat.add_assoc, pow, pow, ih, mul_assoc' (WF_pow h a) (WF_pow h b) h]

theorem pow_one {n : Nat} {m : Mat} (h : WF n m) : pow m 1 = m := by
  rw [pow, pow, h.1, identity_mul h]

/-- repeated squaring computes the same matrix as the naive power -/
theorem powFast_eq_pow {n : Nat} {m : Mat} (h : WF n m) (k : Nat) : powFast m k = pow m k := by
  induction k using Nat.strongRecOn with
  | _ k ih =>
    rw [powFast]
    split
    · next hk => subst hk; rfl
    · next hk =>
      simp only
      rw [ih (k / 2) (by omega), ← pow_add h]
      split
      · next hodd =>
        have : k = k / 2 + k / 2 + 1 := by omega
        conv => rhs; rw [this, pow]
      · next hev =>
        have : k = k / 2 + k / 2 := by omega
        conv => rhs; rw [this]

theorem WF_powFast {n : Nat} {m : Mat} (h : WF n m) (k : Nat) : WF n (powFast m k) := by
  rw [powFast_eq_pow h]; exact WF_pow h k

/-! ### the predicates of `utils/tests.py` -/

theorem atol_pos : 0 < atol := by unfold atol; norm_num

theorem WF_of_isSquare {m : Mat} (h : isSquare m = true) : WF m.length m := by
  refine ⟨rfl, ?_⟩
  intro r hr
  have := List.all_eq_true.mp h r hr
  simpa using this

theorem isQuadratic_of_isTmat {m : Mat} (h : isTmat m = true) : isQuadratic m = true := by
  unfold isTmat at h
  exact (Bool.and_eq_true _ _ ▸ h).1

theorem WF_of_isTmat {m : Mat} (h : isTmat m = true) : WF m.length m := by
  have := isQuadratic_of_isTmat h
  unfold isQuadratic at this
  simp only [Bool.and_eq_true] at this
  exact WF_of_isSquare this.1.1

theorem two_le_of_isTmat {m : Mat} (h : isTmat m = true) : 2 ≤ m.length := by
  have := isQuadratic_of_isTmat h
  unfold isQuadratic at this
  simp only [Bool.and_eq_true, bne_iff_ne, ne_eq] at this
  omega

theorem isTmat_of_isErgodic {m : Mat} (h : isErgodic m = true) : isTmat m = true := by
  unfold isErgodic at h
  exact (Bool.and_eq_true _ _ ▸ h).1

/-- a property of all stored entries holds for `entry m i j` inside the matrix -/
theorem entry_of_forall {n : Nat} {m : Mat} (h : WF n m) {P : Rat → Prop}
    (hP : ∀ r ∈ m, ∀ x ∈ r, P x) {i j : Nat} (hi : i < n) (hj : j < n) : P (entry m i j) := by
  rw [entry_eq_getElem h hi hj]
  exact hP _ (List.getElem_mem _) _ (List.getElem_mem _)

theorem forall_of_entry {n : Nat} {m : Mat} (h : WF n m) {P : Rat → Prop}
    (hP : ∀ i j, i < n → j < n → P (entry m i j)) : ∀ r ∈ m, ∀ x ∈ r, P x := by
  intro r hr x hx
  obtain ⟨i, hi, rfl⟩ := List.getElem_of_mem hr
  obtain ⟨j, hj, rfl⟩ := List.getElem_of_mem hx
  have hi' : i < n := by rw [← h.1]; exact hi
  have hj' : j < n := by rw [← h.2 _ (List.getElem_mem hi)]; exact hj
  have := hP i j hi' hj'
  rw [entry_eq_getElem h hi' hj'] at this
  exact this

/-- `isErgodic` unfolded: stochastic and every entry of the `K`-th power exceeds `atol` -/
theorem isErgodic_iff (m : Mat) : isErgodic m = true ↔
    isTmat m = true ∧ ∀ i j, i < m.length → j < m.length → atol < entry (pow m (wielandtExp m.length)) i j := by
  unfold isErgodic
  rw [Bool.and_eq_true]
  constructor
  · rintro ⟨ht, hp⟩
    refine ⟨ht, ?_⟩
    have hw := WF_of_isTmat ht
    rw [powFast_eq_pow hw] at hp
    intro i j hi hj
    apply entry_of_forall (WF_pow hw _) (P := fun x => atol < x) _ hi hj
    intro r hr x hx
    have := List.all_eq_true.mp (List.all_eq_true.mp hp r hr) x hx
    simpa using this
  · rintro ⟨ht, hp⟩
    refine ⟨ht, ?_⟩
    have hw := WF_of_isTmat ht
    rw [powFast_eq_pow hw]
    have := forall_of_entry (WF_pow hw (wielandtExp m.length)) (P := fun x => atol < x) hp
    rw [List.all_eq_true]
    intro r hr
    rw [List.all_eq_true]
    intro x hx
    simpa using this r hr x hx

theorem isFuzzyErgodic_of_isErgodic {m : Mat} (h : isErgodic m = true) : isFuzzyErgodic m = true := by
  obtain ⟨ht, hp⟩ := (isErgodic_iff m).mp h
  unfold isFuzzyErgodic
  rw [Bool.and_eq_true]
  refine ⟨ht, ?_⟩
  simp only [List.all_eq_true, List.mem_range]
  intro i hi j hj
  rw [powFast_eq_pow (WF_of_isTmat ht)]
  have := lt_trans atol_pos (hp i j hi hj)
  simp [this]

theorem not_isErgodic_of_not_isTmat {m : Mat} (h : isTmat m = false) :
    isErgodic m = false ∧ isFuzzyErgodic m = false ∧ ergodicMask m = none := by
  unfold isErgodic isFuzzyErgodic ergodicMask
  simp [h]

theorem dot_map_div (v c : Vec) (s : Rat) : dot (v.map (· / s)) c = dot v c / s := by
  unfold dot
  induction v generalizing c with
  | nil => simp
  | cons x xs ih =>
    cases c with
    | nil => simp
    | cons y ys =>
      simp only [List.map_cons, List.zip_cons_cons, List.sum_cons]
      rw [ih ys]
      ring

theorem sum_map_div (v : Vec) (s : Rat) : (v.map (· / s)).sum = v.sum / s := by
  induction v with
  | nil => simp
  | cons x xs ih => simp only [List.map_cons, List.sum_cons]; rw [ih]; ring

theorem vecMat_map_div (v : Vec) (T : Mat) (s : Rat) : vecMat (v.map (· / s)) T = (vecMat v T).map (· / s) := by
  unfold vecMat
  rw [List.map_map]
  apply List.map_congr_left
  intro c _
  exact dot_map_div v c s

/-! ### non-negativity is preserved by products and powers -/

theorem NonNeg_mul {n : Nat} {a b : Mat} (ha : WF n a) (hb : WF n b) (pa : NonNeg a) (pb : NonNeg b) :
    NonNeg (mul a b) := by
  apply forall_of_entry (WF_mul ha hb) (P := fun x => 0 ≤ x)
  intro i j hi hj
  rw [entry_mul ha hb hi hj, rsum_eq_finset]
  exact Finset.sum_nonneg (fun k _ => mul_nonneg (pa.entry i k) (pb.entry k j))

theorem NonNeg_identity (n : Nat) : NonNeg (identity n) := by
  apply forall_of_entry (WF_identity n) (P := fun x => 0 ≤ x)
  intro i j hi hj
  rw [entry_identity hi hj]
  split <;> norm_num

theorem NonNeg_pow {n : Nat} {m : Mat} (h : WF n m) (p : NonNeg m) (k : Nat) : NonNeg (pow m k) := by
  induction k with
  | zero => rw [pow]; exact NonNeg_identity _
  | succ k ih => rw [pow]; exact NonNeg_mul (WF_pow h k) h ih p

/-! ### walks in the support graph -/

/-- `Walk b k i j`: there is a walk `i = v₀ → v₁ → … → v_k = j` of length `k` along edges of the boolean graph `b`
(`bent b u v = true`). -/
def Walk (b : List (List Bool)) : Nat → Nat → Nat → Prop
  | 0, i, j => i = j
  | k + 1, i, j => ∃ l, Walk b k i l ∧ bent b l j = true

theorem entry_of_ge_left (m : Mat) {i : Nat} (j : Nat) (h : m.length ≤ i) : entry m i j = 0 := by
  unfold entry
  rw [getD_of_ge m _ h]
  rfl

theorem bent_support (m : Mat) (i j : Nat) : bent (support m) i j = (entry m i j != 0) := by
  unfold bent support entry
  by_cases hi : i < m.length
  · rw [getD_map _ _ _ hi, getD_of_lt m _ hi]
    by_cases hj : j < m[i].length
    · rw [getD_map _ _ _ hj, getD_of_lt _ _ hj]
    · rw [getD_of_ge _ _ (by simpa using hj), getD_of_ge _ _ (by simpa using hj)]
      simp
  · have hi' : m.length ≤ i := Nat.le_of_not_lt hi
    rw [getD_of_ge (List.map _ m) _ (by simpa using hi'), getD_of_ge m _ hi']
    simp

theorem bent_support_pos {m : Mat} (p : NonNeg m) (i j : Nat) :
    bent (support m) i j = true ↔ 0 < entry m i j := by
  rw [bent_support]
  have := p.entry i j
  constructor
  · intro h
    have h' : entry m i j ≠ 0 := by simpa using h
    exact lt_of_le_of_ne this (Ne.symm h')
  · intro h
    simpa using ne_of_gt h

/-- for a non-negative matrix, `(m^k)_ij > 0` iff there is a walk of length `k` from `i` to `j` in the support graph -/
theorem pow_pos_iff_walk {n : Nat} {m : Mat} (h : WF n m) (p : NonNeg m) (k : Nat) {i j : Nat}
    (hi : i < n) (hj : j < n) : 0 < entry (pow m k) i j ↔ Walk (support m) k i j := by
  induction k generalizing j with
  | zero =>
    rw [pow, h.1, entry_identity hi hj]
    unfold Walk
    split <;> simp_all
  | succ k ih =>
    rw [pow, entry_mul (WF_pow h k) h hi hj, rsum_eq_finset]
    rw [Finset.sum_pos_iff_of_nonneg (fun l _ => mul_nonneg ((NonNeg_pow h p k).entry i l) (p.entry l j))]
    unfold Walk
    constructor
    · rintro ⟨l, hl, hpos⟩
      have hl' := Finset.mem_range.mp hl
      have h1 : 0 ≤ entry (pow m k) i l := (NonNeg_pow h p k).entry i l
      have h2 : 0 ≤ entry m l j := p.entry l j
      have h3 : 0 < entry (pow m k) i l := by
        rcases lt_or_eq_of_le h1 with h | h
        · exact h
        · rw [← h] at hpos; simp at hpos
      have h4 : 0 < entry m l j := by
        rcases lt_or_eq_of_le h2 with h | h
        · exact h
        · rw [← h] at hpos; simp at hpos
      exact ⟨l, (ih hl').mp h3, (bent_support_pos p l j).mpr h4⟩
    · rintro ⟨l, hw, he⟩
      have h4 := (bent_support_pos p l j).mp he
      have hl : l < n := by
        by_contra hc
        rw [entry_of_ge_left m j (by rw [h.1]; omega)] at h4
        exact lt_irrefl _ h4
      exact ⟨l, Finset.mem_range.mpr hl, mul_pos ((ih hl).mpr hw) h4⟩

theorem wielandtExp_pos (n : Nat) : 1 ≤ wielandtExp n := by unfold wielandtExp; omega

/-- a walk of positive length ends with an edge -/
theorem Walk.last_edge {b : List (List Bool)} {k i j : Nat} (h : Walk b (k + 1) i j) :
    ∃ l, Walk b k i l ∧ bent b l j = true := h

theorem bent_lt_length {b : List (List Bool)} {i j : Nat} (h : bent b i j = true) : i < b.length := by
  by_contra hc
  unfold bent at h
  rw [getD_of_ge b _ (Nat.le_of_not_lt hc)] at h
  simp at h

/-- `isErgodic` for a non-negative matrix: every pair is joined by a walk of length exactly `K` -/
theorem walk_of_isErgodic {m : Mat} (p : NonNeg m) (h : isErgodic m = true) {i j : Nat}
    (hi : i < m.length) (hj : j < m.length) : Walk (support m) (wielandtExp m.length) i j := by
  obtain ⟨ht, hp⟩ := (isErgodic_iff m).mp h
  exact (pow_pos_iff_walk (WF_of_isTmat ht) p _ hi hj).mp (lt_trans atol_pos (hp i j hi hj))

theorem support_length (m : Mat) : (support m).length = m.length := by simp [support]

/-- closed walks of two consecutive lengths through every state -/
theorem consecutive_closed_walks {m : Mat} (p : NonNeg m) (h : isErgodic m = true) {i : Nat} (hi : i < m.length) :
    Walk (support m) (wielandtExp m.length) i i ∧ Walk (support m) (wielandtExp m.length + 1) i i := by
  have hK := walk_of_isErgodic p h hi hi
  refine ⟨hK, ?_⟩
  have : wielandtExp m.length = (wielandtExp m.length - 1) + 1 := by have := wielandtExp_pos m.length; omega
  rw [this] at hK
  obtain ⟨l, _, he⟩ := hK.last_edge
  have hl : l < m.length := by rw [← support_length]; exact bent_lt_length he
  exact ⟨l, walk_of_isErgodic p h hi hl, he⟩

/-! ### `ergodicMask` -/

/-- the symmetric relation used by `ergodic_mask`: both `(T^K)_ij` and `(T^K)_ji` exceed `atol` -/
def maskRel (m : Mat) (i j : Nat) : Bool :=
  decide (atol < entry (pow m (wielandtExp m.length)) i j) && decide (atol < entry (pow m (wielandtExp m.length)) j i)

/-- row count of the relation: number of `j < n` related to `i` -/
def maskCnt (m : Mat) (i : Nat) : Nat := ((List.range m.length).filter (fun j => maskRel m i j)).length

theorem le_foldl_max (l : List Nat) (a : Nat) : a ≤ l.foldl max a ∧ ∀ x ∈ l, x ≤ l.foldl max a := by
  induction l generalizing a with
  | nil => simp
  | cons y ys ih =>
    simp only [List.foldl_cons, List.mem_cons, forall_eq_or_imp]
    have := ih (max a y)
    refine ⟨by omega, by omega, this.2⟩

theorem foldl_max_mem (l : List Nat) (a : Nat) : l.foldl max a = a ∨ l.foldl max a ∈ l := by
  induction l generalizing a with
  | nil => simp
  | cons y ys ih =>
    simp only [List.foldl_cons, List.mem_cons]
    rcases ih (max a y) with h | h
    · rw [h]
      rcases Nat.le_total a y with h' | h'
      · right; left; omega
      · left; omega
    · right; right; exact h

/-- `c = foldl max 0 l` for a member `c` of `l` iff `c` is a largest element -/
theorem eq_foldl_max_iff (l : List Nat) {c : Nat} (hc : c ∈ l) : c = l.foldl max 0 ↔ ∀ x ∈ l, x ≤ c := by
  constructor
  · intro h x hx; rw [h]; exact (le_foldl_max l 0).2 x hx
  · intro h
    have h1 := (le_foldl_max l 0).2 c hc
    rcases foldl_max_mem l 0 with h2 | h2
    · omega
    · have := h _ h2; omega

theorem ergodicMask_eq {m : Mat} (ht : isTmat m = true) :
    ergodicMask m = some (((List.range m.length).map (maskCnt m)).map
      (fun c => c == ((List.range m.length).map (maskCnt m)).foldl max 0)) := by
  unfold ergodicMask
  simp only [ht, Bool.not_true, Bool.false_eq_true, ↓reduceIte]
  rw [powFast_eq_pow (WF_of_isTmat ht)]
  rfl

theorem isTmat_of_ergodicMask {m : Mat} {mask : List Bool} (h : ergodicMask m = some mask) : isTmat m = true := by
  cases ht : isTmat m
  · rw [(not_isErgodic_of_not_isTmat ht).2.2] at h; cases h
  · rfl

/-! ### the linear system of `stationary` -/

theorem WF_sub {n : Nat} {a b : Mat} (ha : WF n a) (hb : WF n b) : WF n (sub a b) := by
  unfold sub
  refine ⟨by simp [ha.1, hb.1], ?_⟩
  intro r hr
  simp only [List.mem_map] at hr
  obtain ⟨⟨r1, r2⟩, hmem, rfl⟩ := hr
  have h1 := ha.2 _ (List.of_mem_zip hmem).1
  have h2 := hb.2 _ (List.of_mem_zip hmem).2
  simp [h1, h2]

theorem entry_sub {n : Nat} {a b : Mat} (ha : WF n a) (hb : WF n b) {i j : Nat} (hi : i < n) (hj : j < n) :
    entry (sub a b) i j = entry a i j - entry b i j := by
  rw [entry_eq_getElem (WF_sub ha hb) hi hj, entry_eq_getElem ha hi hj, entry_eq_getElem hb hi hj]
  simp [sub]

/-- the matrix `[Tᵀ - 1 without its last row ; 1ᵀ]` inverted by `stationary` -/
def statMatrix (T : Mat) : Mat :=
  (sub (transpose T) (identity T.length)).take (T.length - 1) ++ [List.replicate T.length (1 : Rat)]

theorem WF_statMatrix {n : Nat} {T : Mat} (h : WF n T) (hn : 1 ≤ n) : WF n (statMatrix T) := by
  have hs := WF_sub (WF_transpose h) (WF_identity n)
  unfold statMatrix
  rw [h.1]
  refine ⟨by simp [hs.1]; omega, ?_⟩
  intro r hr
  rw [List.mem_append] at hr
  rcases hr with hr | hr
  · exact hs.2 r (List.mem_of_mem_take hr)
  · simp at hr; subst hr; simp

theorem entry_statMatrix_lt {n : Nat} {T : Mat} (h : WF n T) {l k : Nat} (hl : l < n - 1) (hk : k < n) :
    entry (statMatrix T) l k = entry T k l - (if l = k then 1 else 0) := by
  have hs := WF_sub (WF_transpose h) (WF_identity n)
  have hl' : l < n := by omega
  have e : entry (statMatrix T) l k = entry (sub (transpose T) (identity n)) l k := by
    unfold entry statMatrix
    rw [h.1]
    congr 1
    rw [List.getD_eq_getElem?_getD, List.getD_eq_getElem?_getD,
      List.getElem?_append_left (by simp [hs.1]; omega), List.getElem?_take_of_lt hl]
  rw [e, entry_sub (WF_transpose h) (WF_identity n) hl' hk, entry_transpose h hl' hk, entry_identity hl' hk]

theorem entry_statMatrix_last {n : Nat} {T : Mat} (h : WF n T) {k : Nat} (hk : k < n) :
    entry (statMatrix T) (n - 1) k = 1 := by
  have hs := WF_sub (WF_transpose h) (WF_identity n)
  have e : (statMatrix T).getD (n - 1) [] = List.replicate n 1 := by
    unfold statMatrix
    rw [h.1, List.getD_eq_getElem?_getD, List.getElem?_append_right (by simp [hs.1])]
    have : n - 1 - (List.take (n - 1) (sub (transpose T) (identity n))).length = 0 := by simp [hs.1]
    rw [this]
    simp
  unfold entry
  rw [e, getD_of_lt _ _ (by simpa using hk)]
  simp

theorem getD_vecMat {n : Nat} {T : Mat} {v : Vec} (h : WF n T) (hv : v.length = n) {j : Nat} (hj : j < n) :
    (vecMat v T).getD j 0 = rsum n (fun k => v.getD k 0 * entry T k j) := by
  unfold vecMat
  rw [getD_map _ _ _ (by rw [(WF_transpose h).1]; exact hj),
    ← getD_of_lt _ [] (by rw [(WF_transpose h).1]; exact hj),
    dot_eq_rsum hv ((WF_transpose h).row_length hj)]
  apply rsum_congr
  intro k hk
  have := entry_transpose h hj hk
  unfold entry at this ⊢
  rw [this]

theorem length_vecMat {n : Nat} {T : Mat} (h : WF n T) (v : Vec) : (vecMat v T).length = n := by
  unfold vecMat; simp [(WF_transpose h).1]

/-- a probability vector fixed by `T` solves `A x = e_{n-1}` for `A = statMatrix T` -/
theorem statMatrix_apply {n : Nat} {T : Mat} {x : Vec} (h : WF n T) (hx : x.length = n)
    (hfix : vecMat x T = x) (hsum : x.sum = 1) {l : Nat} (hl : l < n) :
    rsum n (fun k => entry (statMatrix T) l k * x.getD k 0) = if l = n - 1 then 1 else 0 := by
  split
  · next hl' =>
    subst hl'
    rw [← hsum, sum_eq_rsum, hx]
    apply rsum_congr
    intro k hk
    rw [entry_statMatrix_last h hk, one_mul]
  · next hl' =>
    have hl2 : l < n - 1 := by omega
    rw [rsum_congr (g := fun k => x.getD k 0 * entry T k l - (if l = k then x.getD k 0 else 0))
      (fun k hk => by rw [entry_statMatrix_lt h hl2 hk]; split <;> ring)]
    simp only [rsum_eq_finset, Finset.sum_sub_distrib]
    rw [← rsum_eq_finset, ← getD_vecMat h hx hl, hfix]
    simp [Finset.mem_range.mpr hl]

/-- if `L A = 1` then `A y = e` has at most the solution `y = L e` -/
theorem eq_of_left_inverse {n : Nat} {L A : Mat} (hL : WF n L) (hA : WF n A) (hLA : mul L A = identity n)
    (x : Vec) (e : Nat → Rat) (hx : ∀ l, l < n → rsum n (fun k => entry A l k * x.getD k 0) = e l)
    {i : Nat} (hi : i < n) : x.getD i 0 = rsum n (fun l => entry L i l * e l) := by
  have h1 : x.getD i 0 = rsum n (fun k => entry (identity n) i k * x.getD k 0) := by
    rw [rsum_eq_finset, Finset.sum_eq_single i]
    · rw [entry_identity hi hi]; simp
    · intro k hk hki
      rw [entry_identity hi (Finset.mem_range.mp hk)]; simp [Ne.symm hki]
    · intro h; exact absurd (Finset.mem_range.mpr hi) h
  rw [h1, ← hLA]
  rw [rsum_congr (g := fun k => rsum n (fun l => entry L i l * entry A l k * x.getD k 0))
    (fun k hk => by rw [entry_mul hL hA hi hk]; simp only [rsum_eq_finset]; rw [Finset.sum_mul])]
  rw [rsum_congr (f := fun l => entry L i l * e l)
    (g := fun l => rsum n (fun k => entry L i l * entry A l k * x.getD k 0))
    (fun l hl => by rw [← hx l hl]; simp only [rsum_eq_finset]; rw [Finset.mul_sum]
                    exact Finset.sum_congr rfl (fun _ _ => (mul_assoc _ _ _).symm))]
  simp only [rsum_eq_finset]
  exact Finset.sum_comm

theorem vec_ext {n : Nat} {x y : Vec} (hx : x.length = n) (hy : y.length = n)
    (h : ∀ i, i < n → x.getD i 0 = y.getD i 0) : x = y := by
  apply List.ext_getElem (by rw [hx, hy])
  intro i h1 h2
  have := h i (by omega)
  rwa [getD_of_lt _ _ h1, getD_of_lt _ _ h2] at this

/-! ### `restrict` / `embed` -/

/-- the indices selected by a mask, ascending -/
def maskIdx (n : Nat) (mask : List Bool) : List Nat := (List.range n).filter (fun i => mask.getD i false)

theorem maskIdx_nodup (n : Nat) (mask : List Bool) : (maskIdx n mask).Nodup :=
  List.Nodup.sublist List.filter_sublist List.nodup_range

theorem mem_maskIdx {n : Nat} {mask : List Bool} {i : Nat} :
    i ∈ maskIdx n mask ↔ i < n ∧ mask.getD i false = true := by
  simp [maskIdx]

theorem idxOf?_getElem_of_nodup {l : List Nat} (hl : l.Nodup) {a : Nat} (ha : a < l.length) :
    l.idxOf? l[a] = some a := by
  rw [List.idxOf?_eq_some_iff]
  refine ⟨ha, rfl, ?_⟩
  intro j hj hc
  have := (List.Nodup.getElem_inj_iff hl).mp hc
  omega

/-- sum over the selected indices = sum over all indices of the masked summand -/
theorem sum_filter_map (l : List Nat) (p : Nat → Bool) (f : Nat → Rat) :
    ((l.filter p).map f).sum = (l.map (fun i => if p i then f i else 0)).sum := by
  induction l with
  | nil => simp
  | cons x xs ih =>
    by_cases hp : p x = true
    · simp [hp, ih]
    · simp [hp, ih]

theorem rsum_maskIdx (n : Nat) (mask : List Bool) (f : Nat → Rat) :
    rsum (maskIdx n mask).length (fun a => f ((maskIdx n mask).getD a 0)) =
      rsum n (fun i => if mask.getD i false then f i else 0) := by
  have h1 : ((maskIdx n mask).map f).sum = rsum n (fun i => if mask.getD i false then f i else 0) := by
    unfold maskIdx rsum
    exact sum_filter_map _ _ _
  rw [← h1, sum_eq_rsum, List.length_map]
  apply rsum_congr
  intro a ha
  rw [getD_map _ _ _ ha, getD_of_lt _ _ ha]

theorem embed_eq (v : Vec) (mask : List Bool) :
    embed v mask = (List.range mask.length).map (fun i =>
      match (maskIdx mask.length mask).idxOf? i with
      | some k => v.getD k 0
      | none => 0) := rfl

theorem length_embed (v : Vec) (mask : List Bool) : (embed v mask).length = mask.length := by
  rw [embed_eq]; simp

theorem getD_embed_of_mem (v : Vec) (mask : List Bool) {a : Nat} (ha : a < (maskIdx mask.length mask).length) :
    (embed v mask).getD ((maskIdx mask.length mask)[a]) 0 = v.getD a 0 := by
  have hm := (mem_maskIdx.mp (List.getElem_mem ha)).1
  rw [embed_eq, getD_map_range _ _ _ hm, idxOf?_getElem_of_nodup (maskIdx_nodup _ _) ha]

theorem getD_embed_of_not (v : Vec) (mask : List Bool) {i : Nat} (hi : mask.getD i false = false) :
    (embed v mask).getD i 0 = 0 := by
  by_cases hl : i < mask.length
  · rw [embed_eq, getD_map_range _ _ _ hl]
    have : (maskIdx mask.length mask).idxOf? i = none := by
      rw [List.idxOf?_eq_none_iff, mem_maskIdx, hi]
      simp
    rw [this]
  · rw [getD_of_ge _ _ (by rw [length_embed]; omega)]

theorem restrict_eq (m : Mat) (mask : List Bool) :
    restrict m mask = (maskIdx m.length mask).map (fun i => (maskIdx m.length mask).map (fun j => entry m i j)) := rfl

theorem WF_restrict (m : Mat) (mask : List Bool) : WF (maskIdx m.length mask).length (restrict m mask) := by
  rw [restrict_eq]
  refine ⟨by simp, ?_⟩
  intro r hr
  simp only [List.mem_map] at hr
  obtain ⟨i, _, rfl⟩ := hr
  simp

theorem entry_restrict (m : Mat) (mask : List Bool) {a b : Nat} (ha : a < (maskIdx m.length mask).length)
    (hb : b < (maskIdx m.length mask).length) :
    entry (restrict m mask) a b = entry m (maskIdx m.length mask)[a] (maskIdx m.length mask)[b] := by
  rw [restrict_eq]
  unfold entry
  rw [getD_map _ _ _ ha, getD_map _ _ _ hb]

theorem rowNormalizeQ_eq_self {m : Mat} (h : ∀ r ∈ m, r.sum = 1) : rowNormalizeQ m = m := by
  unfold rowNormalizeQ
  conv => rhs; rw [← List.map_id m]
  apply List.map_congr_left
  intro r hr
  simp [h r hr]

/-- rows of `T` inside a closed mask that sum to one still sum to one after restriction -/
theorem restrict_row_sum {n : Nat} {T : Mat} {mask : List Bool} (h : WF n T)
    (hclosed : ∀ i j, i < n → j < n → mask.getD i false = true → mask.getD j false = false → entry T i j = 0)
    (hrow : ∀ i, i < n → mask.getD i false = true → (T.getD i []).sum = 1) :
    ∀ r ∈ restrict T mask, r.sum = 1 := by
  intro r hr
  rw [restrict_eq, h.1] at hr
  simp only [List.mem_map] at hr
  obtain ⟨i, hi, rfl⟩ := hr
  obtain ⟨hin, him⟩ := mem_maskIdx.mp hi
  rw [← hrow i hin him, sum_eq_rsum (T.getD i []), h.row_length hin]
  have := sum_filter_map (List.range n) (fun j => mask.getD j false) (fun j => entry T i j)
  unfold maskIdx
  rw [this]
  apply rsum_congr
  intro j hj
  by_cases hm : mask.getD j false = true
  · simp only [hm, ↓reduceIte]; rfl
  · have hm' : mask.getD j false = false := by simpa using hm
    simp only [hm', Bool.false_eq_true, ↓reduceIte]
    have := hclosed i j hin hj him hm'
    unfold entry at this
    exact this.symm

/-- zero-padding a stationary vector of the restricted matrix gives a stationary vector of `T` (closed mask) -/
theorem embed_stationary_aux {n : Nat} {T : Mat} {mask : List Bool} {μ : Vec} (h : WF n T) (hm : mask.length = n)
    (hclosed : ∀ i j, i < n → j < n → mask.getD i false = true → mask.getD j false = false → entry T i j = 0)
    (hμ : μ.length = (maskIdx n mask).length)
    (hfix : vecMat μ (restrict T mask) = μ) :
    vecMat (embed μ mask) T = embed μ mask ∧ (embed μ mask).sum = μ.sum := by
  have hel : (embed μ mask).length = n := by rw [length_embed, hm]
  -- sums over all indices reduce to sums over the selected ones
  have key : ∀ f : Nat → Rat, rsum n (fun i => (embed μ mask).getD i 0 * f i) =
      rsum (maskIdx n mask).length (fun a => μ.getD a 0 * f ((maskIdx n mask).getD a 0)) := by
    intro f
    have := rsum_maskIdx n mask (fun i => (embed μ mask).getD i 0 * f i)
    rw [rsum_congr (g := fun i => if mask.getD i false = true then (embed μ mask).getD i 0 * f i else 0)]
    · rw [← this]
      apply rsum_congr
      intro a ha
      rw [getD_of_lt _ _ ha]
      have := getD_embed_of_mem μ mask (a := a) (by rw [hm]; exact ha)
      simp only [hm] at this
      rw [this]
    · intro i _
      by_cases hmi : mask.getD i false = true
      · rw [if_pos hmi]
      · have hmi' : mask.getD i false = false := by simpa using hmi
        rw [if_neg hmi, getD_embed_of_not μ mask hmi', zero_mul]
  constructor
  · apply vec_ext (length_vecMat h _) hel
    intro j hj
    rw [getD_vecMat h hel hj, key (fun i => entry T i j)]
    by_cases hmj : mask.getD j false = true
    · obtain ⟨b, hb, hbj⟩ := List.getElem_of_mem (mem_maskIdx.mpr ⟨hj, hmj⟩)
      have hb' : b < (maskIdx T.length mask).length := by rw [h.1]; exact hb
      have e1 := getD_embed_of_mem μ mask (a := b) (by rw [hm]; exact hb)
      simp only [hm] at e1
      rw [hbj] at e1
      rw [e1, ← congrArg (fun l => l.getD b 0) hfix,
        getD_vecMat (WF_restrict T mask) (by rw [h.1]; exact hμ) hb']
      rw [h.1]
      apply rsum_congr
      intro a ha
      have ha' : a < (maskIdx T.length mask).length := by rw [h.1]; exact ha
      rw [entry_restrict T mask ha' hb', getD_of_lt _ _ ha]
      simp only [h.1, hbj]
    · have hmj' : mask.getD j false = false := by simpa using hmj
      rw [getD_embed_of_not μ mask hmj', rsum_eq_finset]
      apply Finset.sum_eq_zero
      intro a ha
      have ha' := Finset.mem_range.mp ha
      rw [getD_of_lt _ _ ha']
      obtain ⟨hin, him⟩ := mem_maskIdx.mp (List.getElem_mem ha')
      rw [hclosed _ j hin hj him hmj', mul_zero]
  · rw [sum_eq_rsum, hel, sum_eq_rsum μ, hμ]
    have := key (fun _ => 1)
    simp only [mul_one] at this
    exact this

/-! ### Gauss–Jordan elimination: specification of one round -/

/-- rectangular `n × N` matrix -/
def RWF (n N : Nat) (a : Mat) : Prop := a.length = n ∧ ∀ r ∈ a, r.length = N

theorem RWF.row_length {n N : Nat} {a : Mat} (h : RWF n N a) {i : Nat} (hi : i < n) : (a.getD i []).length = N := by
  have hi' : i < a.length := by rw [h.1]; exact hi
  rw [getD_of_lt a [] hi']
  exact h.2 _ (List.getElem_mem hi')

/-- the row permutation of one round: rows `p` and `c` are exchanged -/
def gjSwap (p c r : Nat) : Nat := if r = c then p else if r = p then c else r

theorem getD_set {α : Type} (l : List α) (i j : Nat) (a d : α) :
    (l.set i a).getD j d = if i = j ∧ i < l.length then a else l.getD j d := by
  rw [List.getD_eq_getElem?_getD, List.getD_eq_getElem?_getD, List.getElem?_set]
  by_cases hij : i = j
  · subst hij
    by_cases hl : i < l.length
    · simp [hl]
    · simp [hl]
  · simp [hij]

theorem getD_swapped (aug : Mat) {p c : Nat} (hp : p < aug.length) (hc : c < aug.length) (r : Nat) :
    ((aug.set p (aug.getD c [])).set c (aug.getD p [])).getD r [] = aug.getD (gjSwap p c r) [] := by
  rw [getD_set, getD_set, List.length_set]
  unfold gjSwap
  by_cases h1 : r = c
  · subst h1; simp [hc]
  · by_cases h2 : r = p
    · subst h2; simp [h1, Ne.symm h1, hp]
    · simp [h1, h2, Ne.symm h1, Ne.symm h2]

theorem getD_zip_sub (row np : List Rat) (f : Rat) {k : Nat} (h1 : k < row.length) (h2 : k < np.length) :
    ((row.zip np).map (fun q => q.1 - f * q.2)).getD k 0 = row.getD k 0 - f * np.getD k 0 := by
  rw [getD_of_lt _ _ (by simp; omega), getD_of_lt _ _ h1, getD_of_lt _ _ h2]
  simp

/-- entry-level description of a successful elimination round -/
theorem gjStep_spec {n N : Nat} {aug new : Mat} {c : Nat} (h : RWF n N aug) (hc : c < n)
    (hs : gjStep aug c = some new) :
    ∃ p, c ≤ p ∧ p < n ∧ entry aug p c ≠ 0 ∧ RWF n N new ∧
      (∀ k, k < N → entry new c k = entry aug p k / entry aug p c) ∧
      (∀ r k, r < n → r ≠ c → k < N →
        entry new r k = entry aug (gjSwap p c r) k - entry aug (gjSwap p c r) c * (entry aug p k / entry aug p c)) := by
  unfold gjStep at hs
  simp only at hs
  split at hs
  · cases hs
  · next p hp =>
    injection hs with hs
    have hmem : p ∈ (List.range aug.length).filter (fun r => decide (c ≤ r) && entry aug r c != 0) :=
      List.mem_of_mem_head? (by rw [hp]; rfl)
    simp only [List.mem_filter, List.mem_range, Bool.and_eq_true, decide_eq_true_eq, bne_iff_ne, ne_eq] at hmem
    obtain ⟨hpn, hcp, hne⟩ := hmem
    have hcn : c < aug.length := by rw [h.1]; exact hc
    have hpN : (aug.getD p []).length = N := h.row_length (by rw [← h.1]; exact hpn)
    refine ⟨p, hcp, by rw [← h.1]; exact hpn, hne, ?_, ?_, ?_⟩
    · subst hs
      refine ⟨by simp [h.1], ?_⟩
      intro row hrow
      simp only [List.mem_map, List.mem_range] at hrow
      obtain ⟨r, hr, rfl⟩ := hrow
      split
      · rw [List.length_map]; exact hpN
      · rw [getD_swapped aug hpn hcn]
        have : gjSwap p c r < n := by
          unfold gjSwap; split
          · rw [← h.1]; exact hpn
          · split
            · exact hc
            · rw [← h.1]; exact hr
        rw [List.length_map, List.length_zip, List.length_map, hpN, h.row_length this]
        exact Nat.min_self N
    · intro k hk
      subst hs
      have hk' : k < (aug.getD p []).length := by rw [hpN]; exact hk
      unfold entry
      rw [getD_map_range _ _ _ hcn, if_pos rfl, getD_map _ _ _ hk', getD_of_lt (aug.getD p []) 0 (k := k) hk']
    · intro r k hr hrc hk
      subst hs
      have hsw : gjSwap p c r < n := by
        unfold gjSwap; split
        · rw [← h.1]; exact hpn
        · split
          · exact hc
          · exact hr
      have hk' : k < (aug.getD p []).length := by rw [hpN]; exact hk
      unfold entry
      rw [getD_map_range _ _ _ (by rw [h.1]; exact hr), if_neg hrc, getD_swapped aug hpn hcn,
        getD_zip_sub _ _ _ (k := k) (by rw [h.row_length hsw]; exact hk) (by rw [List.length_map]; exact hk'),
        getD_map _ _ _ hk', getD_of_lt (aug.getD p []) 0 (k := k) hk']

end MsmVerif.Linalg
