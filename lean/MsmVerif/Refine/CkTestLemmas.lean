/-
Refine/CkTestLemmas.lean — helper lemmas for task RP19 (property C09): the translated `_chapman_kolmogorov_test` and
`_chapman_kolmogorov_test_md` of `src/msmhelper/msm/tests.py` (`Gen/MsmTests.lean`) evaluated step by step:
column assignment `ckeq[:, idx] = v` (`npSetColVec`) on the array being filled (`colState`), the two loops, the dictionary
comprehension over `enumerate(trajs.states)`, error propagation, and the time grid `np.unique(...)` of the reference curve.
The theorems with docstrings are in `Refine/CkTest.lean`.
-/
import MsmVerif.Gen.MsmTests
import MsmVerif.Refine.Ergodic
import MsmVerif.Refine.Norm
import MsmVerif.Refine.Times
import MsmVerif.Lemmas.StateTraj
import MsmVerif.Lemmas.Misc

namespace MsmVerif.Refine.CkTest
open MsmVerif MsmVerif.Gen MsmVerif.Linalg MsmVerif.Timescales

/-! ### indexing with a natural index -/

theorem pyGet_nat {α : Type} (l : List α) (k : Nat) (h : k < l.length) : pyGet l (k : Int) = .ok l[k] := by
  unfold pyGet normIdx
  rw [if_pos (by omega), if_pos (by omega)]
  simp [h]

theorem pySet_nat {α : Type} (l : List α) (k : Nat) (v : α) (h : k < l.length) :
    pySet l (k : Int) v = .ok (l.set k v) := by
  unfold pySet normIdx
  rw [if_pos (by omega), if_pos (by omega)]
  simp

/-! ### `m[:, j] = v` -/

theorem mapM_zip_set {α : Type} (j : Nat) : ∀ (m : List (List α)) (v : List α), (∀ r ∈ m, j < r.length) →
    (m.zip v).mapM (fun p => pySet p.1 (j : Int) p.2) = .ok (List.zipWith (fun r x => r.set j x) m v) := by
  intro m
  induction m with
  | nil => intro v _; rfl
  | cons r rs ih =>
    intro v h
    cases v with
    | nil => rfl
    | cons x xs =>
      rw [List.zip_cons_cons, List.mapM_cons, pySet_nat _ _ _ (h r List.mem_cons_self),
        ih xs (fun r' hr' => h r' (List.mem_cons_of_mem _ hr'))]
      rfl

theorem npSetColVec_eq {α : Type} (m : List (List α)) (j : Nat) (v : List α) (hlen : m.length = v.length)
    (hrows : ∀ r ∈ m, j < r.length) :
    npSetColVec m (j : Int) v = .ok (List.zipWith (fun r x => r.set j x) m v) := by
  unfold npSetColVec
  split
  · rename_i x
    match m, hlen, hrows with
    | [r], _, hrows =>
      rw [List.mapM_cons, pySet_nat _ _ _ (hrows r List.mem_cons_self)]
      rfl
  · rw [if_neg (by omega)]
    exact mapM_zip_set j m v hrows

/-! ### the array being filled column by column -/

/-- the `n × N` array whose first `pre.length` columns are the lists of `pre`, the others still `0` -/
def colState (n N : Nat) (pre : List (List Rat)) : List (List Rat) :=
  (List.range n).map (fun s => pre.map (fun c => c.getD s 0) ++ List.replicate (N - pre.length) 0)

theorem colState_nil (n N : Nat) : colState n N [] = pyFull2 (n : Int) (N : Int) (0 : Rat) := by
  unfold colState pyFull2
  simp

theorem colState_full (n N : Nat) (cols : List (List Rat)) (h : cols.length = N) :
    colState n N cols = (List.range n).map (fun s => cols.map (fun c => c.getD s 0)) := by
  unfold colState
  simp [h]

theorem length_colState (n N : Nat) (pre : List (List Rat)) : (colState n N pre).length = n := by
  simp [colState]

theorem set_append_replicate {α : Type} (d : α) (A : List α) (k : Nat) (x : α) :
    (A ++ List.replicate (k + 1) d).set A.length x = A ++ [x] ++ List.replicate k d := by
  induction A with
  | nil => simp [List.replicate_succ]
  | cons a A ih => simp [List.replicate_succ] at ih ⊢

theorem row_step {α : Type} (d : α) (A : List α) (N : Nat) (x : α) (h : A.length < N) :
    (A ++ List.replicate (N - A.length) d).set A.length x = A ++ [x] ++ List.replicate (N - (A.length + 1)) d := by
  have hk : N - A.length = (N - (A.length + 1)) + 1 := by omega
  rw [hk]
  exact set_append_replicate d A _ x

theorem colState_step (n N : Nat) (pre : List (List Rat)) (v : List Rat) (hv : v.length = n) (hj : pre.length < N) :
    npSetColVec (colState n N pre) (pre.length : Int) v = .ok (colState n N (pre ++ [v])) := by
  rw [npSetColVec_eq _ _ _ (by rw [length_colState, hv])]
  · congr 1
    obtain ⟨f, rfl⟩ : ∃ f : Nat → Rat, v = Ergodic.tab n f := ⟨_, hv ▸ Ergodic.list_eq_tab v 0⟩
    unfold colState
    rw [show ∀ g : Nat → List Rat, (List.range n).map g = Ergodic.tab n g from fun _ => rfl, Ergodic.zipWith_tab]
    apply Ergodic.tab_congr
    intro s hs
    have := row_step (0 : Rat) (pre.map (fun c => c.getD s 0)) N (f s) (by simpa using hj)
    rw [List.length_map] at this
    rw [this, List.map_append, List.length_append]
    simp only [List.map_cons, List.map_nil, List.length_cons, List.length_nil, Nat.zero_add]
    rw [Ergodic.getD_tab n f 0 hs]
  · intro r hr
    simp only [colState, List.mem_map, List.mem_range] at hr
    obtain ⟨s, _, rfl⟩ := hr
    simp
    omega

/-! ### the dictionary comprehension `{state: ckeq[idx] for idx, state in enumerate(states)}` -/

/-- the body of the comprehension -/
def ckEntry (ckeq : List (List Rat)) : Int × Int → Py (Int × List Rat) :=
  fun x => match x with
    | (idx, state) => do
      let t7 ← pyGet ckeq idx
      pure (state, t7)

theorem ckDict_go (ckeq : List (List Rat)) : ∀ (sts : List Int) (j : Nat), j + sts.length ≤ ckeq.length →
    (((List.range' j sts.length).map (fun (k : Nat) => (k : Int))).zip sts).mapM (ckEntry ckeq)
      = .ok (sts.zip (ckeq.drop j)) := by
  intro sts
  induction sts with
  | nil => intro j _; rfl
  | cons s sts ih =>
    intro j h
    simp only [List.length_cons] at h
    rw [List.length_cons, List.range'_succ, List.map_cons, List.zip_cons_cons, List.mapM_cons]
    have hj : j < ckeq.length := by omega
    rw [List.drop_eq_getElem_cons hj, List.zip_cons_cons]
    have : ckEntry ckeq ((j : Int), s) = .ok (s, ckeq[j]) := by
      unfold ckEntry
      simp only [pyGet_nat _ _ hj]
      rfl
    rw [this, ih (j + 1) (by omega)]
    rfl

theorem pyRange_zero_nat (N : Nat) : pyRange 0 (N : Int) = (List.range' 0 N).map (fun (k : Nat) => (k : Int)) := by
  unfold pyRange
  rw [List.range_eq_range']
  simp

theorem ckDict_eq (ckeq : List (List Rat)) (sts : List Int) (h : sts.length ≤ ckeq.length) :
    (pyEnumerate sts).mapM (ckEntry ckeq) = .ok (sts.zip ckeq) := by
  unfold pyEnumerate pyLen
  rw [pyRange_zero_nat]
  have := ckDict_go ckeq sts 0 (by omega)
  simpa using this


/-! ### `_chapman_kolmogorov_test` : step-by-step form -/

/-- loop body of `_chapman_kolmogorov_test` -/
def ckBody (tmat : List (List Rat)) : Int → List (List Rat) → Py (ForInStep (List (List Rat))) :=
  fun idx ckeq => do
    let t6 ← npMatrixPower tmat (idx + (1 : Int))
    let ckeq ← npSetColVec ckeq idx (npDiagonal t6)
    pure (ForInStep.yield ckeq)

/-- everything after the call of the estimator -/
def ckTail (states : List Int) (times : List Int) (nstates : Int) (tmat : List (List Rat)) :
    Py ((List (Int × (List Rat))) × (List Int) × Bool × Bool) := do
  let t4 ← MsmVerif.Gen.UtilsTests.is_ergodic tmat Linalg.atol
  let t5 ← MsmVerif.Gen.UtilsTests.is_fuzzy_ergodic tmat Linalg.atol
  let ckeq ← forIn (pyRange 0 (pyLen times)) (pyFull2 nstates (pyLen times) (0 : Rat)) (ckBody tmat)
  let t8 ← (pyEnumerate states).mapM (ckEntry ckeq)
  pure (t8, times, t4, t5)

theorem ck_unfold (est : Int → Py ((List (List Rat)) × (List Int))) (nstates : Int) (states : List Int) (lag tmax : Int) :
    Gen.MsmTests.chapman_kolmogorov_test est nstates states lag tmax
      = (do let times ← Gen.MsmTests.calc_times lag tmax
            let t2 ← est lag
            ckTail states times nstates t2.1) := rfl

/-- the diagonal of the `k`-th power, `k = 1 … j` -/
def powCols (T : Mat) (j : Nat) : List (List Rat) :=
  (List.range j).map (fun k => (List.range T.length).map (fun i => entry (pow T (k + 1)) i i))

theorem npDiagonal_of_WF {n : Nat} {m : Mat} (h : WF n m) :
    npDiagonal m = (List.range n).map (fun i => entry m i i) := by
  unfold npDiagonal
  have : min m.length (npShape1 m).toNat = n := by
    rw [Ergodic.npShape1_eq]
    cases n with
    | zero => simp [h.1]
    | succ k =>
      have := h.row_length (i := 0) (by omega)
      rw [h.1, this]
      simp
  rw [this]
  rfl

theorem ckLoop_go (T : Mat) (hne : T ≠ []) (hsq : isSquare T = true) (N : Nat) : ∀ (m j : Nat), j + m = N →
    forIn ((List.range' j m).map (fun (k : Nat) => (k : Int))) (colState T.length N (powCols T j)) (ckBody T)
      = .ok (colState T.length N (powCols T N)) := by
  intro m
  induction m with
  | zero => intro j h; have : j = N := by omega
            subst this; rfl
  | succ m ih =>
    intro j h
    rw [List.range'_succ, List.map_cons, List.forIn_cons]
    have hpow : npMatrixPower T ((j : Int) + 1) = .ok (pow T (j + 1)) := by
      have := Ergodic.npMatrixPower_refines T hne hsq (j + 1)
      rwa [Int.natCast_add, Int.natCast_one] at this
    have hdiag := npDiagonal_of_WF (WF_pow (WF_of_isSquare hsq) (j + 1))
    have hlen : (powCols T j).length = j := by simp [powCols]
    have hstep := colState_step T.length N (powCols T j) (npDiagonal (pow T (j + 1)))
      (by rw [hdiag]; simp) (by omega)
    rw [hlen] at hstep
    have hsucc : powCols T j ++ [npDiagonal (pow T (j + 1))] = powCols T (j + 1) := by
      rw [hdiag]; simp [powCols, List.range_succ]
    rw [hsucc] at hstep
    have hb : ckBody T (j : Int) (colState T.length N (powCols T j))
        = .ok (ForInStep.yield (colState T.length N (powCols T (j + 1)))) := by
      unfold ckBody
      rw [hpow]
      show (do let ckeq ← npSetColVec _ _ _; pure (ForInStep.yield ckeq)) = _
      rw [hstep]
      rfl
    rw [hb]
    exact ih (j + 1) (by omega)

theorem powCols_curves (T : Mat) (N : Nat) :
    (List.range T.length).map (fun s => (powCols T N).map (fun c => c.getD s 0))
      = (List.range T.length).map (fun s => ((List.range N).map (fun k => pow T (k + 1))).map (fun p => entry p s s)) := by
  apply List.map_congr_left
  intro s hs
  rw [List.mem_range] at hs
  unfold powCols
  rw [List.map_map, List.map_map]
  apply List.map_congr_left
  intro k _
  simp only [Function.comp]
  exact Ergodic.getD_tab T.length _ 0 hs

theorem ckTail_eq (T : Mat) (hne : T ≠ []) (hsq : isSquare T = true) (states : List Int) (hst : states.length = T.length)
    (lag tmax : Nat) :
    ckTail states ((ckTimes lag tmax).map Int.ofNat) (T.length : Int) T
      = .ok (states.zip (ckCurves T lag tmax), (ckTimes lag tmax).map Int.ofNat, isErgodic T, isFuzzyErgodic T) := by
  unfold ckTail
  rw [Ergodic.is_ergodic_refines T hne hsq, Ergodic.is_fuzzy_ergodic_refines T hne hsq]
  have hlen : pyLen ((ckTimes lag tmax).map Int.ofNat) = ((tmax / lag : Nat) : Int) := by
    simp [pyLen, ckTimes]
  rw [hlen, pyRange_zero_nat, ← colState_nil]
  have := ckLoop_go T hne hsq (tmax / lag) (tmax / lag) 0 (by omega)
  rw [show powCols T 0 = [] from rfl] at this
  show (do let ckeq ← forIn _ _ (ckBody T); _) = _
  rw [this]
  show (do let t8 ← (pyEnumerate states).mapM (ckEntry _); _) = _
  rw [ckDict_eq _ _ (by rw [length_colState]; omega),
    colState_full _ _ _ (by simp [powCols]), powCols_curves]
  rfl


/-! ### `_chapman_kolmogorov_test_md` : step-by-step form -/

abbrev MdState := List (List Rat) × List Bool × List Bool

/-- loop body of `_chapman_kolmogorov_test_md` -/
def mdBody (est : Int → Py ((List (List Rat)) × (List Int))) : Int × Int → MdState → Py (ForInStep MdState) :=
  fun x s => match x with
    | (idx, time) => do
      let t2 ← est time
      let ckeq ← npSetColVec s.1 idx (npDiagonal t2.1)
      let t4 ← MsmVerif.Gen.UtilsTests.is_ergodic t2.1 Linalg.atol
      let e ← pySet s.2.1 idx t4
      let t5 ← MsmVerif.Gen.UtilsTests.is_fuzzy_ergodic t2.1 Linalg.atol
      let f ← pySet s.2.2 idx t5
      pure (ForInStep.yield (ckeq, e, f))

/-- everything after `np.unique` -/
def mdTail (est : Int → Py ((List (List Rat)) × (List Int))) (states : List Int) (nstates : Int) (times : List Int) :
    Py ((List (Int × (List Rat))) × (List Int) × (List Bool) × (List Bool)) := do
  let s ← forIn (pyEnumerate times)
    ((pyFull2 nstates (pyLen times) (0 : Rat), pyFull1 (pyLen times) false, pyFull1 (pyLen times) false) : MdState) (mdBody est)
  let t7 ← (pyEnumerate states).mapM (ckEntry s.1)
  pure (t7, times, s.2.1, s.2.2)

theorem md_unfold (est : Int → Py ((List (List Rat)) × (List Int))) (geo : Int → Int → Int → Py (List Int))
    (nstates : Int) (states : List Int) (tmin tmax steps : Int) :
    Gen.MsmTests.chapman_kolmogorov_test_md est geo nstates states tmin tmax steps
      = (do let g ← geo tmin tmax steps
            mdTail est states nstates (npUnique g)) := rfl

/-- loop state after the times of `pre` have been processed -/
def mdState (n N : Nat) (Tm : Int → Mat) (pre : List Int) : MdState :=
  (colState n N (pre.map (fun t => npDiagonal (Tm t))),
   pre.map (fun t => isErgodic (Tm t)) ++ List.replicate (N - pre.length) false,
   pre.map (fun t => isFuzzyErgodic (Tm t)) ++ List.replicate (N - pre.length) false)

theorem mdState_nil (n N : Nat) (Tm : Int → Mat) :
    mdState n N Tm [] = (pyFull2 (n : Int) (N : Int) (0 : Rat), pyFull1 (N : Int) false, pyFull1 (N : Int) false) := by
  unfold mdState
  rw [List.map_nil, colState_nil]
  simp [pyFull1]

/-- the estimator answered `Tm t` (non-empty, square, `n × n`) -/
def GoodAt (est : Int → Py ((List (List Rat)) × (List Int))) (n : Nat) (Tm : Int → Mat) (t : Int) : Prop :=
  (∃ sts, est t = .ok (Tm t, sts)) ∧ Tm t ≠ [] ∧ isSquare (Tm t) = true ∧ (Tm t).length = n

theorem mdBody_step (est : Int → Py ((List (List Rat)) × (List Int))) (n N : Nat) (Tm : Int → Mat) (pre : List Int) (t : Int)
    (hj : pre.length < N) (hg : GoodAt est n Tm t) :
    mdBody est ((pre.length : Int), t) (mdState n N Tm pre) = .ok (ForInStep.yield (mdState n N Tm (pre ++ [t]))) := by
  obtain ⟨⟨sts, hest⟩, hne, hsq, hlen⟩ := hg
  have hwf : WF n (Tm t) := hlen ▸ WF_of_isSquare hsq
  have hstep := colState_step n N (pre.map (fun t => npDiagonal (Tm t))) (npDiagonal (Tm t))
    (by rw [npDiagonal_of_WF hwf]; simp) (by simpa using hj)
  rw [List.length_map] at hstep
  have he := row_step false (pre.map (fun t => isErgodic (Tm t))) N (isErgodic (Tm t)) (by simpa using hj)
  have hf := row_step false (pre.map (fun t => isFuzzyErgodic (Tm t))) N (isFuzzyErgodic (Tm t)) (by simpa using hj)
  rw [List.length_map] at he hf
  unfold mdBody mdState
  simp only [hest]
  show (do let ckeq ← npSetColVec _ _ _; _) = _
  rw [hstep]
  show (do let t4 ← UtilsTests.is_ergodic (Tm t) atol; _) = _
  rw [Ergodic.is_ergodic_refines _ hne hsq]
  show (do let e ← pySet _ _ _; _) = _
  rw [pySet_nat _ _ _ (by simp; omega), he]
  show (do let t5 ← UtilsTests.is_fuzzy_ergodic (Tm t) atol; _) = _
  rw [Ergodic.is_fuzzy_ergodic_refines _ hne hsq]
  show (do let f ← pySet _ _ _; _) = _
  rw [pySet_nat _ _ _ (by simp; omega), hf]
  simp [List.map_append]


theorem mdLoop_go (est : Int → Py ((List (List Rat)) × (List Int))) (n N : Nat) (Tm : Int → Mat) :
    ∀ (suf pre : List Int), pre.length + suf.length = N → (∀ t ∈ suf, GoodAt est n Tm t) →
    forIn (((List.range' pre.length suf.length).map (fun (k : Nat) => (k : Int))).zip suf) (mdState n N Tm pre) (mdBody est)
      = .ok (mdState n N Tm (pre ++ suf)) := by
  intro suf
  induction suf with
  | nil => intro pre _ _; rw [List.append_nil]; rfl
  | cons t suf ih =>
    intro pre h hg
    rw [List.length_cons] at h
    rw [List.length_cons, List.range'_succ, List.map_cons, List.zip_cons_cons, List.forIn_cons,
      mdBody_step est n N Tm pre t (by omega) (hg t List.mem_cons_self)]
    have := ih (pre ++ [t]) (by rw [List.length_append, List.length_singleton]; omega)
      (fun t' ht' => hg t' (List.mem_cons_of_mem _ ht'))
    rw [List.length_append, List.length_singleton, List.append_assoc, List.singleton_append] at this
    exact this

theorem diag_curves (n : Nat) (Tm : Int → Mat) (times : List Int) (h : ∀ t ∈ times, WF n (Tm t)) :
    (List.range n).map (fun s => (times.map (fun t => npDiagonal (Tm t))).map (fun c => c.getD s 0))
      = (List.range n).map (fun s => times.map (fun t => entry (Tm t) s s)) := by
  apply List.map_congr_left
  intro s hs
  rw [List.mem_range] at hs
  rw [List.map_map]
  apply List.map_congr_left
  intro t ht
  simp only [Function.comp]
  rw [npDiagonal_of_WF (h t ht)]
  exact Ergodic.getD_tab n _ 0 hs

theorem mdTail_eq (est : Int → Py ((List (List Rat)) × (List Int))) (n : Nat) (Tm : Int → Mat) (states times : List Int)
    (hst : states.length = n) (hg : ∀ t ∈ times, GoodAt est n Tm t) :
    mdTail est states (n : Int) times
      = .ok (states.zip ((List.range n).map (fun s => times.map (fun t => entry (Tm t) s s))), times,
          times.map (fun t => isErgodic (Tm t)), times.map (fun t => isFuzzyErgodic (Tm t))) := by
  unfold mdTail pyEnumerate
  rw [show pyLen times = ((times.length : Nat) : Int) from rfl, pyRange_zero_nat, ← mdState_nil n times.length Tm]
  have := mdLoop_go est n times.length Tm times [] (by simp) hg
  rw [List.length_nil, List.nil_append] at this
  rw [this]
  show (do let t7 ← ((pyRange 0 (pyLen states)).zip states).mapM (ckEntry (mdState n times.length Tm times).1); _) = _
  have hd := ckDict_eq (mdState n times.length Tm times).1 states (by unfold mdState; rw [length_colState]; omega)
  unfold pyEnumerate at hd
  rw [hd]
  unfold mdState
  simp only [Nat.sub_self, List.replicate_zero, List.append_nil]
  rw [colState_full _ _ _ (by simp),
    diag_curves n Tm times (fun t ht => by obtain ⟨_, _, hsq, hlen⟩ := hg t ht; exact hlen ▸ WF_of_isSquare hsq)]
  rfl


/-! ### errors -/

theorem calc_times_ok (lag tmax : Int) (h : lag ≠ 0) : ∃ ts, Gen.MsmTests.calc_times lag tmax = .ok ts := by
  unfold Gen.MsmTests.calc_times pyTrueDiv
  rw [if_neg (by exact_mod_cast h)]
  exact ⟨_, rfl⟩

theorem mdBody_error (est : Int → Py ((List (List Rat)) × (List Int))) (idx t : Int) (s : MdState) (e : Err)
    (h : est t = .error e) : mdBody est (idx, t) s = .error e := by
  unfold mdBody
  simp only [h]
  rfl

theorem mdLoop_error (est : Int → Py ((List (List Rat)) × (List Int))) (n N : Nat) (Tm : Int → Mat) (t0 : Int) (rest : List Int)
    (e : Err) (h0 : est t0 = .error e) :
    ∀ (suf pre : List Int), pre.length + suf.length < N → (∀ t ∈ suf, GoodAt est n Tm t) →
    forIn (((List.range' pre.length (suf ++ t0 :: rest).length).map (fun (k : Nat) => (k : Int))).zip (suf ++ t0 :: rest))
      (mdState n N Tm pre) (mdBody est) = .error e := by
  intro suf
  induction suf with
  | nil =>
    intro pre _ _
    rw [List.nil_append, List.length_cons, List.range'_succ, List.map_cons, List.zip_cons_cons, List.forIn_cons,
      mdBody_error est _ _ _ e h0]
    rfl
  | cons t suf ih =>
    intro pre h hg
    rw [List.length_cons] at h
    rw [List.cons_append, List.length_cons, List.range'_succ, List.map_cons, List.zip_cons_cons, List.forIn_cons,
      mdBody_step est n N Tm pre t (by omega) (hg t List.mem_cons_self)]
    have := ih (pre ++ [t]) (by rw [List.length_append, List.length_singleton]; omega)
      (fun t' ht' => hg t' (List.mem_cons_of_mem _ ht'))
    rw [List.length_append, List.length_singleton] at this
    exact this

theorem mdTail_error (est : Int → Py ((List (List Rat)) × (List Int))) (n : Nat) (Tm : Int → Mat) (states : List Int)
    (pre : List Int) (t0 : Int) (rest : List Int) (e : Err) (hg : ∀ t ∈ pre, GoodAt est n Tm t) (h0 : est t0 = .error e) :
    mdTail est states (n : Int) (pre ++ t0 :: rest) = .error e := by
  unfold mdTail pyEnumerate
  rw [show pyLen (pre ++ t0 :: rest) = (((pre ++ t0 :: rest).length : Nat) : Int) from rfl, pyRange_zero_nat,
    ← mdState_nil n (pre ++ t0 :: rest).length Tm]
  have := mdLoop_error est n (pre ++ t0 :: rest).length Tm t0 rest e h0 pre [] (by simp) hg
  rw [List.length_nil] at this
  rw [this]
  rfl

/-! ### the time grid of the reference curve -/

theorem grid_head (L : List Int) (tmin : Int) (hp : L.Pairwise (· < ·)) (hmin : tmin ∈ L) (hge : ∀ t ∈ L, tmin ≤ t) :
    L.head? = some tmin := by
  cases L with
  | nil => cases hmin
  | cons x xs =>
    have hx := hge x List.mem_cons_self
    rcases List.mem_cons.mp hmin with rfl | hin
    · rfl
    · have := (List.pairwise_cons.mp hp).1 tmin hin
      omega

theorem grid_ok (g : List Int) (tmin tmax : Nat) (hmin : (tmin : Int) ∈ g)
    (hr : ∀ t ∈ g, (tmin : Int) ≤ t ∧ t ≤ (tmax : Int)) :
    refGridOk ((sortDedup g).map Int.toNat) tmin tmax = true := by
  rw [Misc.refGridOk_iff]
  have hp := sortDedup_pairwise g
  have hm : ∀ t ∈ sortDedup g, (tmin : Int) ≤ t ∧ t ≤ (tmax : Int) := fun t ht => hr t (mem_sortDedup.mp ht)
  refine ⟨?_, ?_, ?_⟩
  · rw [List.head?_map, grid_head _ _ hp (mem_sortDedup.mpr hmin) (fun t ht => (hm t ht).1)]
    simp
  · intro t ht
    obtain ⟨x, hx, rfl⟩ := List.mem_map.mp ht
    have := hm x hx
    omega
  · rw [List.pairwise_map]
    refine hp.imp_of_mem ?_
    intro a b ha hb hab
    have := hm a ha
    have := hm b hb
    omega

theorem grid_cast (g : List Int) (h : ∀ t ∈ g, 0 ≤ t) : ((sortDedup g).map Int.toNat).map Int.ofNat = sortDedup g := by
  rw [List.map_map]
  conv => rhs; rw [← List.map_id (sortDedup g)]
  apply List.map_congr_left
  intro t ht
  have := h t (mem_sortDedup.mp ht)
  simp only [Function.comp, Int.ofNat_eq_natCast, id]
  omega

end MsmVerif.Refine.CkTest
