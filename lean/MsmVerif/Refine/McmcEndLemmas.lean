/-
Refine/McmcEndLemmas.lean — helper definitions and lemmas for task RP29 (property C07): the public `propagate_MCMC` END TO END, i.e. the public
wrapper (`Refine/Small.lean`) ∘ the translated `_get_cummat` (`Refine/Cummat.lean`) ∘ the translated compiled kernel `_propagate_MCMC`
(`Refine/Mcmc.lean`), and the link to the law of the chain (`Props/C07Law.lean`).

* `chainOracle us` : the translated chain kernel (monad `PyR`, it consumes draws) as the kernel ORACLE of the public wrapper (monad `Py`): run on the
  fixed stream `us`, the unused rest of the stream is dropped;
* `getcOf argsort T` : the translated `_get_cummat` on the estimated matrix `T` as the `_get_cummat(lagtime)` oracle of the wrapper;
* `cumOf T ord`, `permOf T ord` : the exact `_get_cummat` of `T` for the visiting orders `ord row` the `argsort` oracle delivers;
* well-formedness (`WF`) and exactness (`ExactModel`) of `(cumOf T ord, permOf T ord)`;
* labels ↔ indices: `labelOf ss` is injective on the indices `< |ss|` of a duplicate-free state list.

The theorems with docstrings are in `Refine/McmcEnd.lean`.
-/
import MsmVerif.Refine.Small
import MsmVerif.Refine.Cummat
import MsmVerif.Refine.Mcmc
import MsmVerif.Props.C07Law

namespace MsmVerif.Refine.McmcEnd
open MsmVerif MsmVerif.Gen
open MsmVerif.Mcmc (cumRow isPermOfRange nonIncreasing chainFrom chain realised ExactModel pathBox inBox volume)
open MsmVerif.Refine.Mcmc (WF permI)

/-! ### definitions -/

/-- the type of `_get_cummat`'s answer: cumulative matrix and permutation -/
abbrev Cummat := List (List Rat) × List (List Int)

/-- the translated chain kernel `_propagate_MCMC` as the kernel oracle of the public wrapper: run on the fixed stream of draws `us`; the rest of
    the stream is dropped -/
def chainOracle (us : List Rat) : Cummat → Int → Int → Py (List Int) :=
  fun cm s steps => ((Gen.MsmTimescales.propagate_MCMC cm s steps).run us).map (·.1)

/-- the translated `_get_cummat` on the estimated matrix `T` as the `_get_cummat(lagtime)` oracle of the public wrapper -/
def getcOf (argsort : List Rat → Py (List Int)) (T : List (List Rat)) : Int → Py Cummat :=
  fun _lag => Gen.MsmCummat.get_cummat argsort T

/-- the exact cumulative matrix of `T` for the visiting orders `ord row` -/
def cumOf (T : List (List Rat)) (ord : List Rat → List Nat) : List (List Rat) := T.map (fun row => cumRow row (ord row))

/-- the permutation matrix of `T` for the visiting orders `ord row` -/
def permOf (T : List (List Rat)) (ord : List Rat → List Nat) : List (List Nat) := T.map ord

/-- the label chain of an index chain -/
def labels (ss : List Int) (c : List Nat) : List Int := c.map (fun (i : Nat) => labelOf ss (i : Int))

/-! ### the translated `_get_cummat` as oracle -/

theorem permI_permOf (T : List (List Rat)) (ord : List Rat → List Nat) :
    permI (permOf T ord) = T.map (fun row => (ord row).map Int.ofNat) := by
  simp [permI, permOf, List.map_map, Function.comp_def]

theorem getcOf_ok {argsort : List Rat → Py (List Int)} {T : List (List Rat)} {n : Nat} {ord : List Rat → List Nat}
    (hn : 1 ≤ n) (hsq : T.length = n ∧ ∀ r ∈ T, r.length = n) (hnonneg : ∀ r ∈ T, ∀ x ∈ r, 0 ≤ x)
    (horacle : ∀ row ∈ T, isPermOfRange (ord row) n = true ∧ argsort row = .ok (((ord row).map Int.ofNat).reverse)) (lag : Int) :
    getcOf argsort T lag = .ok (cumOf T ord, permI (permOf T ord)) := by
  unfold getcOf
  rw [Cummat.get_cummat_refines argsort T n hn hsq hnonneg ord horacle, permI_permOf]
  rfl

theorem length_cumRow (row : List Rat) (order : List Nat) : (cumRow row order).length = order.length := by
  simp [cumRow]

theorem wf_of_argsort {argsort : List Rat → Py (List Int)} {T : List (List Rat)} {n : Nat} {ord : List Rat → List Nat}
    (hn : 1 ≤ n) (hsq : T.length = n ∧ ∀ r ∈ T, r.length = n) (horacle : ∀ row ∈ T, isPermOfRange (ord row) n = true ∧ argsort row = .ok (((ord row).map Int.ofNat).reverse)) :
    WF (cumOf T ord) (permOf T ord) n := by
  refine ⟨hn, by simp [cumOf, hsq.1], by simp [permOf, hsq.1], ?_, ?_, ?_⟩
  · intro r hr
    obtain ⟨row, hrow, rfl⟩ := List.mem_map.mp hr
    rw [length_cumRow]
    exact (Cummat.mem_lt_of_perm _ _ (horacle row hrow).1).1
  · intro r hr
    obtain ⟨row, hrow, rfl⟩ := List.mem_map.mp hr
    exact (Cummat.mem_lt_of_perm _ _ (horacle row hrow).1).1
  · intro r hr
    obtain ⟨row, hrow, rfl⟩ := List.mem_map.mp hr
    exact (Cummat.mem_lt_of_perm _ _ (horacle row hrow).1).2

/-! ### the translated chain kernel as oracle -/

theorem chainOracle_ok {cum perm n} (h : WF cum perm n) (start steps : Nat) (hs : start < n) (hsteps : 1 ≤ steps)
    (us : List Rat) (hus : steps - 1 ≤ us.length) :
    chainOracle us (cum, permI perm) (start : Int) (steps : Int) = .ok ((chain cum perm start steps us).map Int.ofNat) := by
  unfold chainOracle
  rw [Mcmc.chain_refines h start steps hs hsteps us hus]
  rfl

theorem chainOracle_exhausted {cum perm n} (h : WF cum perm n) (start steps : Nat) (hs : start < n)
    (us : List Rat) (hus : us.length < steps - 1) :
    chainOracle us (cum, permI perm) (start : Int) (steps : Int) = .error .other := by
  unfold chainOracle
  rw [Mcmc.chain_exhausted h start steps hs us hus]
  rfl

/-- zero (or fewer) frames requested: `mcmc[0] = start` on the empty array raises `IndexError`, whatever the matrix, the start and the draws -/
theorem chainOracle_no_frames (us : List Rat) (cm : Cummat) (start steps : Int) (hsteps : steps ≤ 0) :
    chainOracle us cm start steps = .error .index := by
  unfold chainOracle Gen.MsmTimescales.propagate_MCMC
  have h0 : pySet (pyFull1 steps (0 : Int)) (0 : Int) start = .error .index := by
    have : steps.toNat = 0 := by omega
    simp [pyFull1, this, pySet, normIdx]
  simp only [StateT.run_bind, Mcmc.run_lift_err _ _ h0, Mcmc.err_bind]
  rfl

/-- every frame of the model chain is a valid index -/
theorem chain_lt {cum perm n} (h : WF cum perm n) (start steps : Nat) (hs : start < n) (us : List Rat) :
    ∀ x ∈ chain cum perm start steps us, x < n := by
  apply C07.chain_lt cum perm start steps us n hs
  intro s hs' x hx
  have hp : s < perm.length := by rw [h.plen]; exact hs'
  rw [Mcmc.getD_of_lt perm [] hp] at hx
  exact h.pent _ (List.getElem_mem hp) x hx

/-- every realised state is a valid index -/
theorem realised_lt {cum perm n} (h : WF cum perm n) (start steps : Nat) (hs : start < n) (us : List Rat) :
    ∀ x ∈ realised cum perm start steps us, x < n := by
  apply Mcmc.chainFrom_lt cum perm n _ start hs
  intro s hs' x hx
  have hp : s < perm.length := by rw [h.plen]; exact hs'
  rw [Mcmc.getD_of_lt perm [] hp] at hx
  exact h.pent _ (List.getElem_mem hp) x hx

/-- for `steps ≥ 1` the chain is the start state followed by the realised states of `steps - 1` propagation steps -/
theorem chain_eq_cons (cum : List (List Rat)) (perm : List (List Nat)) (start steps : Nat) (hsteps : 1 ≤ steps) (us : List Rat) :
    chain cum perm start steps us = start :: realised cum perm start (steps - 1) us := by
  unfold chain realised
  rw [if_neg (by omega)]

/-! ### the public wrapper once the start label is fixed -/

/-- the start label `s` of a call with argument `start`: `start` itself if it is not the sentinel `-1`, the answer of `np.random.choice(states)` if it
    is; for `s ∈ ss` the wrapper then fetches the cumulative matrix, runs the kernel from the rank of `s` and maps the index chain through `states[·]` -/
theorem propagate_start (choice : List Int → Py Int) (getc : Int → Py Cummat) (prop : Cummat → Int → Int → Py (List Int))
    (ss : List Int) (lag steps start s : Int) (hstart : start ≠ -1 ∧ start = s ∨ start = -1 ∧ choice ss = .ok s) (hmem : s ∈ ss) :
    Gen.MsmMcmcApi.propagate_MCMC choice getc prop ss lag steps start
      = getc lag >>= fun cm => prop cm ((rank ss s : Nat) : Int) steps >>= fun c => npTake ss c := by
  rw [Small.propagate_MCMC_api_general]
  rcases hstart with ⟨h1, rfl⟩ | ⟨rfl, h2⟩
  · rw [if_neg h1, if_pos hmem]
    show Small.mcmcTail getc prop ss lag steps start = _
    unfold Small.mcmcTail
    rw [if_pos hmem]
  · rw [if_pos rfl, h2]
    show Small.mcmcTail getc prop ss lag steps s = _
    unfold Small.mcmcTail
    rw [if_pos hmem]

/-- … and returns the label chain if the oracles answer and the kernel's chain holds valid indices only -/
theorem propagate_ok (choice : List Int → Py Int) (getc : Int → Py Cummat) (prop : Cummat → Int → Int → Py (List Int))
    (ss : List Int) (lag steps start s : Int) (hstart : start ≠ -1 ∧ start = s ∨ start = -1 ∧ choice ss = .ok s) (hmem : s ∈ ss)
    (cm : Cummat) (hcm : getc lag = .ok cm) (c : List Nat) (hc : prop cm ((rank ss s : Nat) : Int) steps = .ok (c.map Int.ofNat))
    (hcb : ∀ i ∈ c, i < ss.length) :
    Gen.MsmMcmcApi.propagate_MCMC choice getc prop ss lag steps start = .ok (labels ss c) := by
  rw [propagate_start choice getc prop ss lag steps start s hstart hmem, hcm]
  show (prop cm ((rank ss s : Nat) : Int) steps >>= fun c => npTake ss c) = _
  rw [hc]
  show npTake ss (c.map Int.ofNat) = _
  rw [Small.npTake_ok ss _ (by
    intro i hi
    obtain ⟨x, hx, rfl⟩ := List.mem_map.mp hi
    have := hcb x hx
    show 0 ≤ (x : Int) ∧ (x : Int) < (ss.length : Int)
    omega), List.map_map]
  rfl

/-- … or passes on the kernel's error -/
theorem propagate_kernel_error (choice : List Int → Py Int) (getc : Int → Py Cummat) (prop : Cummat → Int → Int → Py (List Int))
    (ss : List Int) (lag steps start s : Int) (hstart : start ≠ -1 ∧ start = s ∨ start = -1 ∧ choice ss = .ok s) (hmem : s ∈ ss)
    (cm : Cummat) (hcm : getc lag = .ok cm) (e : Err) (hc : prop cm ((rank ss s : Nat) : Int) steps = .error e) :
    Gen.MsmMcmcApi.propagate_MCMC choice getc prop ss lag steps start = .error e := by
  rw [propagate_start choice getc prop ss lag steps start s hstart hmem, hcm]
  show (prop cm ((rank ss s : Nat) : Int) steps >>= fun c => npTake ss c) = _
  rw [hc]
  rfl

/-- … or the error of `_get_cummat` -/
theorem propagate_cummat_error (choice : List Int → Py Int) (getc : Int → Py Cummat) (prop : Cummat → Int → Int → Py (List Int))
    (ss : List Int) (lag steps start s : Int) (hstart : start ≠ -1 ∧ start = s ∨ start = -1 ∧ choice ss = .ok s) (hmem : s ∈ ss)
    (e : Err) (hcm : getc lag = .error e) :
    Gen.MsmMcmcApi.propagate_MCMC choice getc prop ss lag steps start = .error e := by
  rw [propagate_start choice getc prop ss lag steps start s hstart hmem, hcm]
  rfl

/-! ### labels and indices -/

theorem labels_cons (ss : List Int) (i : Nat) (c : List Nat) : labels ss (i :: c) = labelOf ss (i : Int) :: labels ss c := rfl

theorem labels_length (ss : List Int) (c : List Nat) : (labels ss c).length = c.length := by simp [labels]

theorem labels_getD (ss : List Int) (c : List Nat) (i : Nat) (hi : i < c.length) :
    (labels ss c).getD i 0 = labelOf ss ((c.getD i 0 : Nat) : Int) := by
  rw [Mcmc.getD_of_lt (labels ss c) 0 (by rw [labels_length]; exact hi), Mcmc.getD_of_lt c 0 hi]
  simp [labels]

theorem labelOf_eq_getElem (ss : List Int) (i : Nat) (hi : i < ss.length) : labelOf ss (i : Int) = ss[i] := by
  rw [labelOf_natCast, Mcmc.getD_of_lt ss 0 hi]

theorem labelOf_mem (ss : List Int) (i : Nat) (hi : i < ss.length) : labelOf ss (i : Int) ∈ ss := by
  rw [labelOf_eq_getElem ss i hi]; exact List.getElem_mem hi

/-- in a duplicate-free state list the rank of the label of an index is the index -/
theorem rank_labelOf {ss : List Int} (hnd : ss.Nodup) (i : Nat) (hi : i < ss.length) : rank ss (labelOf ss (i : Int)) = i := by
  rw [labelOf_eq_getElem ss i hi, rank_getElem hnd hi]

/-- `labelOf ss` is injective on the valid indices of a duplicate-free state list -/
theorem labels_inj {ss : List Int} (hnd : ss.Nodup) (c c' : List Nat) (hc : ∀ x ∈ c, x < ss.length) (hc' : ∀ x ∈ c', x < ss.length)
    (h : labels ss c = labels ss c') : c = c' := by
  induction c generalizing c' with
  | nil => cases c' with
    | nil => rfl
    | cons j c' => simp [labels] at h
  | cons i c ih => cases c' with
    | nil => simp [labels] at h
    | cons j c' =>
      simp only [labels_cons, List.cons.injEq] at h
      have hi := hc i List.mem_cons_self
      have hj := hc' j List.mem_cons_self
      have e : i = j := by
        rw [← rank_labelOf hnd i hi, ← rank_labelOf hnd j hj, h.1]
      rw [e, ih c' (fun x hx => hc x (List.mem_cons_of_mem _ hx)) (fun x hx => hc' x (List.mem_cons_of_mem _ hx)) h.2]

/-- a state list with a member, of length `n`: `n ≥ 1` -/
theorem npos_of_mem {ss : List Int} {s : Int} {n : Nat} (hmem : s ∈ ss) (hlen : ss.length = n) : 1 ≤ n := by
  have := List.length_pos_of_mem hmem
  omega

theorem nodup_of_ascending {ss : List Int} (hss : ss.Pairwise (· < ·)) : ss.Nodup :=
  hss.imp (fun h => Int.ne_of_lt h)

/-! ### the exact model -/

theorem getD_map_of_lt {α β : Type} (f : α → β) (l : List α) (da : α) (db : β) {i : Nat} (hi : i < l.length) :
    (l.map f).getD i db = f (l.getD i da) := by
  rw [Mcmc.getD_of_lt (l.map f) db (by simpa using hi), Mcmc.getD_of_lt l da hi, List.getElem_map]

/-- **the link to `ExactModel`.**  `T` square `n × n` and row-stochastic, the `argsort` oracle answers every row with (the reverse of) a permutation of
    `range n` that sorts the row non-increasingly: then `(cumOf T ord, permOf T ord)` — what the translated `_get_cummat` returns — is the exact model
    of `T`. -/
theorem exactModel_of_argsort {argsort : List Rat → Py (List Int)} {T : List (List Rat)} {n : Nat} {ord : List Rat → List Nat}
    (hsq : T.length = n ∧ ∀ r ∈ T, r.length = n) (hnonneg : ∀ r ∈ T, ∀ x ∈ r, 0 ≤ x) (hsum : ∀ r ∈ T, r.sum = 1)
    (horacle : ∀ row ∈ T, isPermOfRange (ord row) n = true ∧ argsort row = .ok (((ord row).map Int.ofNat).reverse)) (hsort : ∀ row ∈ T, nonIncreasing ((ord row).map (fun j => row.getD j 0)) = true) :
    ExactModel T (cumOf T ord) (permOf T ord) := by
  refine ⟨fun row hrow => ⟨(hsq.2 row hrow).trans hsq.1.symm, hnonneg row hrow, hsum row hrow⟩, ?_⟩
  intro i hi
  have hmem : T.getD i [] ∈ T := Mcmc.getD_mem_of_lt T hi
  have e1 : (permOf T ord).getD i [] = ord (T.getD i []) := getD_map_of_lt ord T [] [] hi
  have e2 : (cumOf T ord).getD i [] = cumRow (T.getD i []) (ord (T.getD i [])) :=
    getD_map_of_lt (fun row => cumRow row (ord row)) T [] [] hi
  rw [e1, e2, hsq.1]
  exact ⟨(horacle _ hmem).1, hsort _ hmem, rfl⟩

end MsmVerif.Refine.McmcEnd
