/-
Refine/McmcLemmas.lean — helper lemmas for `Refine/Mcmc.lean` (task RP4): the translated Markov-chain kernels of
`Gen/MsmTimescales.lean` against the model `Model/Mcmc.lean` / `Model/Events.lean`.

Contents: small facts on the runtime (`pyGet`, `pySet`, `pyRange`, `pyArgmax`, `pyDict*`), the search loop of
`_propagate_MCMC_step`, a generic lemma for `for idx in range(k, k+m)` loops that draw one random number per
iteration (`loop_ok` / `loop_err`), and the three instantiations (chain, waiting-time loop, transition-time loop).
-/
import MsmVerif.Gen.MsmTimescales
import MsmVerif.Model.Mcmc
import MsmVerif.Model.Events

namespace MsmVerif.Refine.Mcmc
open MsmVerif MsmVerif.Gen

theorem pyGet_nat {α : Type} (l : List α) (k : Nat) (h : k < l.length) :
    pyGet l (k : Int) = .ok l[k] := by
  unfold pyGet normIdx
  have h1 : (0:Int) ≤ (k:Int) := by omega
  have h2 : (k:Int) < (l.length : Int) := by omega
  simp [h1, h2, h]

theorem pyRange_cons (a : Int) (m : Nat) : pyRange a (a + (m + 1 : Nat)) = a :: pyRange (a + 1) (a + 1 + (m : Nat)) := by
  unfold pyRange
  have e1 : (a + ((m + 1 : Nat) : Int) - a).toNat = m + 1 := by omega
  have e2 : (a + 1 + (m : Int) - (a + 1)).toNat = m := by omega
  rw [e1, e2, List.range_succ_eq_map]
  simp [Function.comp_def]
  intro k _
  omega

theorem pyRange_nil (a : Int) : pyRange a a = [] := by
  simp [pyRange]

theorem argmax_go_eq (xs : List Rat) (best : Rat) (bi i : Nat) :
    (xs.foldl (fun (acc : Nat × Nat × Rat) v =>
        let (best, pos, bv) := acc
        if bv < v then (pos, pos + 1, v) else (best, pos + 1, bv)) (bi, i, best)).1
      = Mcmc.argmax.go best bi i xs := by
  induction xs generalizing best bi i with
  | nil => simp [Mcmc.argmax.go]
  | cons y ys ih =>
    simp only [List.foldl_cons, Mcmc.argmax.go]
    split
    · rw [← ih]
    · rw [← ih]

theorem pyArgmax_eq (l : List Rat) : pyArgmax l = ((Mcmc.argmax l : Nat) : Int) := by
  cases l with
  | nil => simp [pyArgmax, Mcmc.argmax]
  | cons x xs => simp only [pyArgmax, Mcmc.argmax]; rw [argmax_go_eq]

theorem argmax_go_lt (xs : List Rat) (best : Rat) (bi i : Nat) (h : bi < i) :
    Mcmc.argmax.go best bi i xs < i + xs.length := by
  induction xs generalizing best bi i with
  | nil => simp [Mcmc.argmax.go]; exact h
  | cons y ys ih =>
    simp only [Mcmc.argmax.go, List.length_cons]
    split
    · have := ih y i (i+1) (by omega); omega
    · have := ih best bi (i+1) (by omega); omega

theorem argmax_lt (l : List Rat) (h : 0 < l.length) : Mcmc.argmax l < l.length := by
  cases l with
  | nil => simp at h
  | cons x xs =>
    simp only [Mcmc.argmax, List.length_cons]
    have := argmax_go_lt xs x 0 1 (by omega); omega

/-- the search loop of `_propagate_MCMC_step` -/
def stepBody (u : Rat) (p : List Int) : Int × Rat → Option Int × Unit → PyR (ForInStep (Option Int × Unit)) :=
  fun x __s =>
          if decide (u < x.snd) = true then do
            let t5 ← liftM (pyGet p x.fst)
            pure (ForInStep.done (some t5, ()))
          else pure (ForInStep.yield (none, ()))

theorem enum_loop (u : Rat) (p : List Int) (l : List Rat) (k : Nat) (hk : k + l.length ≤ p.length) (us : List Rat) :
    (forIn ((pyRange (k:Int) ((k:Int) + (l.length : Nat))).zip l) ((none : Option Int), ()) (stepBody u p)).run us
      = .ok ((((l.zip (p.drop k)).find? (fun cp => decide (u < cp.1))).map (·.2), ()), us) := by
  induction l generalizing k with
  | nil => simp [pyRange_nil]; rfl
  | cons c cs ih =>
    simp only [List.length_cons] at hk ⊢
    rw [pyRange_cons]
    have hk' : k < p.length := by omega
    rw [List.drop_eq_getElem_cons hk']
    simp only [List.zip_cons_cons, List.forIn_cons, List.find?_cons]
    by_cases hu : u < c
    · simp [stepBody, hu, pyGet_nat p k hk']
      rfl
    · simp [stepBody, hu]
      have := ih (k+1) (by omega)
      simpa [Int.natCast_add] using this

/-- well-formedness of a cumulative matrix with its permutation (what `_get_cummat` guarantees): `n ≥ 1` rows each,
every row of length `n`, permutation entries `< n` -/
structure WF (cum : List (List Rat)) (perm : List (List Nat)) (n : Nat) : Prop where
  npos : 1 ≤ n
  clen : cum.length = n
  plen : perm.length = n
  crow : ∀ r ∈ cum, r.length = n
  prow : ∀ r ∈ perm, r.length = n
  pent : ∀ r ∈ perm, ∀ j ∈ r, j < n

/-- the permutation matrix as the kernel sees it (integers) -/
def permI (perm : List (List Nat)) : List (List Int) := perm.map (·.map Int.ofNat)

theorem pyRandom_cons (u : Rat) (us : List Rat) : pyRandom.run (u :: us) = .ok (u, us) := rfl

theorem pyRandom_nil : pyRandom.run [] = .error .other := rfl

theorem find_zip_map (u : Rat) (l : List Rat) (p : List Nat) :
    ((l.zip (p.map Int.ofNat)).find? (fun cp => decide (u < cp.1))).map (·.2)
      = ((l.zip p).find? (fun cp => decide (u < cp.1))).map (fun cp => Int.ofNat cp.2) := by
  induction l generalizing p with
  | nil => simp
  | cons c cs ih =>
    cases p with
    | nil => simp
    | cons q qs =>
      simp only [List.map_cons, List.zip_cons_cons, List.find?_cons]
      by_cases hu : u < c
      · simp [hu]
      · simp only [hu, decide_false]; exact ih qs

theorem run_lift_ok {α : Type} (x : Py α) (a : α) (h : x = .ok a) (s : List Rat) :
    (liftM x : PyR α).run s = .ok (a, s) := by subst h; rfl

theorem run_lift_err {α : Type} (x : Py α) (e : Err) (h : x = .error e) (s : List Rat) :
    (liftM x : PyR α).run s = .error e := by subst h; rfl

theorem ok_bind {α β : Type} (a : α) (f : α → Except Err β) : (Except.ok a >>= f) = f a := rfl

theorem err_bind {α β : Type} (e : Err) (f : α → Except Err β) : (Except.error e >>= f) = .error e := rfl

theorem step_run (cum : List Rat) (perm : List Nat) (crows : List (List Rat)) (prows : List (List Int)) (s : Int)
    (hc : pyGet crows s = .ok cum) (hp : pyGet prows s = .ok (perm.map Int.ofNat))
    (hlen : cum.length = perm.length) (hpos : 0 < cum.length) (u : Rat) (us : List Rat) :
    (Gen.MsmTimescales.propagate_MCMC_step (crows, prows) s).run (u :: us)
      = .ok (((Mcmc.step cum perm u : Nat) : Int), us) := by
  unfold Gen.MsmTimescales.propagate_MCMC_step
  simp only [StateT.run_bind, pyRandom_cons, ok_bind, run_lift_ok _ _ hc, run_lift_ok _ _ hp]
  have hloop := enum_loop u (perm.map Int.ofNat) cum 0 (by simp [hlen]) us
  simp only [Int.natCast_zero, Int.zero_add, List.drop_zero] at hloop
  unfold stepBody at hloop
  unfold pyEnumerate pyLen
  rw [hloop, ok_bind, find_zip_map]
  unfold Mcmc.step
  cases hf : (cum.zip perm).find? (fun cp => decide (u < cp.1)) with
  | some cp => rfl
  | none =>
    simp only [Option.map_none]
    rw [pyArgmax_eq]
    have hlt := argmax_lt cum hpos
    rw [run_lift_ok _ _ (pyGet_nat _ _ (by simpa [← hlen] using hlt))]
    simp [List.getD_eq_getElem?_getD, List.getElem?_eq_getElem (hlen ▸ hlt)]

theorem WF.rows {cum perm n} (h : WF cum perm n) (s : Nat) (hs : s < n) :
    (cum.getD s []).length = n ∧ (perm.getD s []).length = n ∧ (∀ j ∈ perm.getD s [], j < n)
    ∧ pyGet cum (s : Int) = .ok (cum.getD s [])
    ∧ pyGet (permI perm) (s : Int) = .ok ((perm.getD s []).map Int.ofNat) := by
  have hc : s < cum.length := by rw [h.clen]; exact hs
  have hp : s < perm.length := by rw [h.plen]; exact hs
  have e1 : cum.getD s [] = cum[s] := by simp [List.getD_eq_getElem?_getD, hc]
  have e2 : perm.getD s [] = perm[s] := by simp [List.getD_eq_getElem?_getD, hp]
  rw [e1, e2]
  refine ⟨h.crow _ (List.getElem_mem hc), h.prow _ (List.getElem_mem hp), h.pent _ (List.getElem_mem hp), pyGet_nat _ _ hc, ?_⟩
  have hp' : s < (permI perm).length := by simp [permI, hp]
  rw [pyGet_nat _ _ hp']
  simp [permI]

theorem step_ok (cum perm n) (h : WF cum perm n) (s : Nat) (hs : s < n) (u : Rat) (us : List Rat) :
    (Gen.MsmTimescales.propagate_MCMC_step (cum, permI perm) (s : Int)).run (u :: us)
      = .ok (((Mcmc.step (cum.getD s []) (perm.getD s []) u : Nat) : Int), us) := by
  obtain ⟨h1, h2, _, h4, h5⟩ := h.rows s hs
  exact step_run _ _ _ _ _ h4 h5 (by omega) (by have := h.npos; omega) u us

theorem step_fail (c : List (List Rat) × List (List Int)) (s : Int) :
    (Gen.MsmTimescales.propagate_MCMC_step c s).run [] = .error .other := by
  unfold Gen.MsmTimescales.propagate_MCMC_step
  simp only [StateT.run_bind, pyRandom_nil, err_bind]

theorem step_mem (cum : List Rat) (perm : List Nat) (u : Rat) (hlen : cum.length = perm.length) (hpos : 0 < cum.length) :
    Mcmc.step cum perm u ∈ perm := by
  unfold Mcmc.step
  cases hf : (cum.zip perm).find? (fun cp => decide (u < cp.1)) with
  | some cp =>
    have := List.mem_of_find?_eq_some hf
    exact (List.of_mem_zip this).2
  | none =>
    have hlt := argmax_lt cum hpos
    have : Mcmc.argmax cum < perm.length := hlen ▸ hlt
    simp [List.getD_eq_getElem?_getD, this]

theorem step_next_lt (cum perm n) (h : WF cum perm n) (s : Nat) (hs : s < n) (u : Rat) :
    Mcmc.step (cum.getD s []) (perm.getD s []) u < n := by
  obtain ⟨h1, h2, h3, _, _⟩ := h.rows s hs
  exact h3 _ (step_mem _ _ u (by omega) (by have := h.npos; omega))

/-- iterate a model transition over the draws, counting the loop index -/
def iter {τ : Type} (next : Nat → τ → Rat → τ) : Nat → τ → List Rat → τ
  | _, t, [] => t
  | k, t, u :: us => iter next (k + 1) (next k t u) us

theorem loop_ok {σ τ : Type} (body : Int → σ → PyR (ForInStep σ)) (enc : τ → σ) (inv : Nat → τ → Prop)
    (next : Nat → τ → Rat → τ) (K : Nat)
    (hbody : ∀ k t u us, inv k t → k < K →
      (body (k : Int) (enc t)).run (u :: us) = .ok (.yield (enc (next k t u)), us))
    (hinv : ∀ k t u, inv k t → k < K → inv (k + 1) (next k t u)) :
    ∀ (m k : Nat) (t : τ) (us : List Rat), inv k t → k + m ≤ K → m ≤ us.length →
      (forIn (pyRange (k : Int) ((k : Int) + (m : Nat))) (enc t) body).run us
        = .ok (enc (iter next k t (us.take m)), us.drop m) := by
  intro m
  induction m with
  | zero => intro k t us _ _ _; simp [pyRange_nil, iter]; rfl
  | succ m ih =>
    intro k t us hi hK hus
    cases us with
    | nil => simp at hus
    | cons u us =>
      rw [pyRange_cons]
      simp only [List.forIn_cons, StateT.run_bind, hbody k t u us hi (by omega), ok_bind]
      have := ih (k + 1) (next k t u) us (hinv k t u hi (by omega)) (by omega) (by simpa using hus)
      simpa [Int.natCast_add, iter] using this

theorem loop_err {σ τ : Type} (body : Int → σ → PyR (ForInStep σ)) (enc : τ → σ) (inv : Nat → τ → Prop)
    (next : Nat → τ → Rat → τ) (K : Nat)
    (hbody : ∀ k t u us, inv k t → k < K →
      (body (k : Int) (enc t)).run (u :: us) = .ok (.yield (enc (next k t u)), us))
    (hinv : ∀ k t u, inv k t → k < K → inv (k + 1) (next k t u))
    (hfail : ∀ (k : Nat) (s : σ), (body (k : Int) s).run [] = .error .other) :
    ∀ (m k : Nat) (t : τ) (us : List Rat), inv k t → k + m ≤ K → us.length < m →
      (forIn (pyRange (k : Int) ((k : Int) + (m : Nat))) (enc t) body).run us = .error .other := by
  intro m
  induction m with
  | zero => intro k t us _ _ h; simp at h
  | succ m ih =>
    intro k t us hi hK hus
    rw [pyRange_cons]
    cases us with
    | nil => simp only [List.forIn_cons, StateT.run_bind, hfail, err_bind]
    | cons u us =>
      simp only [List.forIn_cons, StateT.run_bind, hbody k t u us hi (by omega), ok_bind]
      have := ih (k + 1) (next k t u) us (hinv k t u hi (by omega)) (by omega) (by simpa using hus)
      simpa [Int.natCast_add] using this

theorem pySet_nat {α : Type} (l : List α) (k : Nat) (v : α) (h : k < l.length) :
    pySet l (k : Int) v = .ok (l.set k v) := by
  unfold pySet normIdx
  have h1 : (0:Int) ≤ (k:Int) := by omega
  have h2 : (k:Int) < (l.length : Int) := by omega
  simp [h1, h2]

def chainBody (c : List (List Rat) × List (List Int)) : Int → List Int × Int → PyR (ForInStep (List Int × Int)) :=
  fun idx __s => do
        let t1 ← MsmTimescales.propagate_MCMC_step c __s.snd
        let mcmc ← liftM (pySet __s.fst (idx + 1) t1)
        pure (ForInStep.yield (mcmc, t1))

def chainEnc (steps : Nat) (t : List Int × Nat) : List Int × Int :=
  (t.1 ++ List.replicate (steps - t.1.length) 0, (t.2 : Int))

def chainNext (cum : List (List Rat)) (perm : List (List Nat)) (_k : Nat) (t : List Int × Nat) (u : Rat) : List Int × Nat :=
  (t.1 ++ [((Mcmc.step (cum.getD t.2 []) (perm.getD t.2 []) u : Nat) : Int)], Mcmc.step (cum.getD t.2 []) (perm.getD t.2 []) u)

theorem chainFrom_length (cum perm) (s : Nat) (us : List Rat) : (Mcmc.chainFrom cum perm s us).length = us.length := by
  induction us generalizing s with
  | nil => simp [Mcmc.chainFrom]
  | cons u us ih => simp [Mcmc.chainFrom, ih]

theorem chain_iter (cum perm) (k : Nat) (pre : List Int) (s : Nat) (us : List Rat) :
    (iter (chainNext cum perm) k (pre, s) us).1 = pre ++ (Mcmc.chainFrom cum perm s us).map Int.ofNat := by
  induction us generalizing k pre s with
  | nil => simp [iter, Mcmc.chainFrom]
  | cons u us ih =>
    simp only [iter, chainNext, Mcmc.chainFrom]
    rw [ih]
    simp

theorem chain_body (cum perm n) (h : WF cum perm n) (steps : Nat) (k : Nat) (t : List Int × Nat) (u : Rat) (us : List Rat)
    (hi : t.1.length = k + 1 ∧ t.2 < n) (hk : k < steps - 1) :
    (chainBody (cum, permI perm) (k : Int) (chainEnc steps t)).run (u :: us)
      = .ok (.yield (chainEnc steps (chainNext cum perm k t u)), us) := by
  obtain ⟨pre, s⟩ := t
  simp only at hi
  unfold chainBody chainEnc
  simp only [StateT.run_bind, step_ok cum perm n h s hi.2 u us, ok_bind]
  have e : (k : Int) + 1 = ((k + 1 : Nat) : Int) := by omega
  rw [e, run_lift_ok _ _ (pySet_nat _ _ _ (by simp; omega)), ok_bind]
  simp only [chainNext]
  obtain ⟨r, hr⟩ : ∃ r, steps - pre.length = r + 1 := ⟨steps - pre.length - 1, by omega⟩
  have hr' : steps - (pre ++ [((Mcmc.step (cum.getD s []) (perm.getD s []) u : Nat) : Int)]).length = r := by
    simp; omega
  rw [hr, hr', ← hi.1, List.replicate_succ, List.set_append_right _ _ (Nat.le_refl _)]
  simp
  rfl

theorem chain_inv (cum perm n) (h : WF cum perm n) (k : Nat) (t : List Int × Nat) (u : Rat)
    (hi : t.1.length = k + 1 ∧ t.2 < n) :
    (chainNext cum perm k t u).1.length = k + 1 + 1 ∧ (chainNext cum perm k t u).2 < n := by
  refine ⟨by simp [chainNext, hi.1], step_next_lt cum perm n h t.2 hi.2 u⟩

/-- a model histogram as the kernel's dictionary (integer keys and counts, same insertion order) -/
def histI (h : List (Nat × Nat)) : Gen.PyDict := h.map (fun e => ((e.1 : Int), (e.2 : Int)))

theorem beq_cast (a b : Nat) : ((a : Int) == (b : Int)) = (a == b) := by
  rw [Bool.eq_iff_iff]; simp only [beq_iff_eq]; omega

theorem dictHas_histI (h : List (Nat × Nat)) (k : Nat) :
    pyDictHas (histI h) (k : Int) = h.any (fun e => e.1 == k) := by
  simp only [pyDictHas, histI, List.any_map, Function.comp_def]
  congr 1
  funext e
  exact beq_cast _ _

theorem dict_miss (h : List (Nat × Nat)) (k : Nat) (hm : h.any (fun e => e.1 == k) = false) :
    pyDictSet (histI h) (k : Int) 1 = histI (Events.histInsert h k) := by
  unfold pyDictSet Events.histInsert
  rw [dictHas_histI, hm]
  simp [histI]

theorem keys_histInsert_hit (h : List (Nat × Nat)) (k : Nat) :
    (h.map (fun e => if e.1 == k then (e.1, e.2 + 1) else e)).map (·.1) = h.map (·.1) := by
  induction h with
  | nil => rfl
  | cons e t ih =>
    simp only [List.map_cons, ih]
    split <;> rfl

theorem nodup_histInsert (h : List (Nat × Nat)) (k : Nat) (hn : (h.map (·.1)).Nodup) :
    ((Events.histInsert h k).map (·.1)).Nodup := by
  unfold Events.histInsert
  split
  · rw [keys_histInsert_hit]; exact hn
  · rename_i hm
    simp only [List.map_append, List.map_cons, List.map_nil]
    rw [List.nodup_append]
    refine ⟨hn, by simp, ?_⟩
    intro a ha b hb
    simp at hb ha hm
    subst hb
    obtain ⟨x, hx⟩ := ha
    intro hab
    subst hab
    exact hm x hx

theorem map_nokey (t : List (Nat × Nat)) (k : Nat) (hno : ∀ e ∈ t, e.1 ≠ k) (v : Int) :
    (histI t).map (fun p => if p.1 == (k : Int) then (p.1, v) else p) = histI t
    ∧ t.map (fun e => if e.1 == k then (e.1, e.2 + 1) else e) = t := by
  induction t with
  | nil => exact ⟨rfl, rfl⟩
  | cons e t ih =>
    have h1 : e.1 ≠ k := hno e (by simp)
    have h2 := ih (fun e' he' => hno e' (by simp [he']))
    have h3 : ((e.1 : Int) == (k : Int)) = false := by rw [beq_cast]; simpa using h1
    have h4 : (e.1 == k) = false := by simpa using h1
    constructor
    · have := h2.1
      simp only [histI, List.map_cons] at this ⊢
      rw [this]; simp [h3]
    · simp only [List.map_cons, h2.2, h4]; rfl

theorem dict_hit_core (h : List (Nat × Nat)) (k : Nat) (hn : (h.map (·.1)).Nodup)
    (hany : h.any (fun e => e.1 == k) = true) :
    ∃ v : Int, (histI h).find? (fun p => p.1 == (k : Int)) = some ((k : Int), v) ∧
      (histI h).map (fun p => if p.1 == (k : Int) then (p.1, v + 1) else p)
        = histI (h.map (fun e => if e.1 == k then (e.1, e.2 + 1) else e)) := by
  induction h with
  | nil => simp at hany
  | cons e t ih =>
    simp only [List.map_cons, List.nodup_cons] at hn
    by_cases he : e.1 = k
    · refine ⟨(e.2 : Int), ?_, ?_⟩
      · simp [histI, he]
      · have hno : ∀ e' ∈ t, e'.1 ≠ k := by
          intro e' he' hk
          apply hn.1
          rw [he, ← hk]
          exact List.mem_map_of_mem he'
        have := map_nokey t k hno ((e.2 : Int) + 1)
        simp only [histI, List.map_cons] at this ⊢
        rw [this.1, this.2]
        simp [he]
    · have h3 : ((e.1 : Int) == (k : Int)) = false := by rw [beq_cast]; simpa using he
      have h4 : (e.1 == k) = false := by simpa using he
      have hany' : t.any (fun e => e.1 == k) = true := by simpa [h4] using hany
      obtain ⟨v, hv1, hv2⟩ := ih hn.2 hany'
      refine ⟨v, ?_, ?_⟩
      · simp only [histI, List.map_cons, List.find?_cons, h3] at hv1 ⊢
        exact hv1
      · simp only [histI, List.map_cons, h3, h4] at hv2 ⊢
        rw [hv2]; rfl

theorem dict_hit (h : List (Nat × Nat)) (k : Nat) (hn : (h.map (·.1)).Nodup)
    (hany : h.any (fun e => e.1 == k) = true) :
    ∃ v : Int, pyDictGet (histI h) (k : Int) = .ok v ∧
      pyDictSet (histI h) (k : Int) (v + 1) = histI (Events.histInsert h k) := by
  obtain ⟨v, hv1, hv2⟩ := dict_hit_core h k hn hany
  refine ⟨v, ?_, ?_⟩
  · simp [pyDictGet, hv1]
  · unfold pyDictSet Events.histInsert
    rw [dictHas_histI, hany]
    simpa using hv2

/-- loop state of the two event kernels: `(wt, dict, idx_start, propagates_forwards, state)` -/
abbrev EvSt := Int × PyDict × Int × Bool × Int

/-- model counterpart of `EvSt`: `(wt, histogram, automaton, chain state)` -/
abbrev EvModel := Int × List (Nat × Nat) × Events.Auto × Nat

def evEnc (t : EvModel) : EvSt := (t.1, histI t.2.1, (t.2.2.1.start : Int), t.2.2.1.open_, (t.2.2.2 : Int))

def evInv (n : Nat) (k : Nat) (t : EvModel) : Prop :=
  t.2.2.1.start ≤ k ∧ t.2.2.2 < n ∧ (t.2.1.map (·.1)).Nodup

def wtBody (c : List (List Rat) × List (List Int)) (S F : List Int) : Int → EvSt → PyR (ForInStep EvSt) :=
  fun idx __s => do
    let t1 ← MsmTimescales.propagate_MCMC_step c __s.2.2.2.2
    if (!__s.2.2.2.1 && pyIn t1 S) = true then
      pure (ForInStep.yield (__s.1, __s.2.1, idx, true, t1))
    else
      if (__s.2.2.2.1 && pyIn t1 F) = true then
        if pyDictHas __s.2.1 (idx - __s.2.2.1) = true then do
          let t2 ← liftM (pyDictGet __s.2.1 (idx - __s.2.2.1))
          pure (ForInStep.yield (idx - __s.2.2.1, pyDictSet __s.2.1 (idx - __s.2.2.1) (t2 + 1), __s.2.2.1, false, t1))
        else
          pure (ForInStep.yield (idx - __s.2.2.1, pyDictSet __s.2.1 (idx - __s.2.2.1) 1, __s.2.2.1, false, t1))
      else pure (ForInStep.yield (__s.1, __s.2.1, __s.2.2.1, __s.2.2.2.1, t1))

def wtNext (cum : List (List Rat)) (perm : List (List Nat)) (S F : List Int) (k : Nat) (t : EvModel) (u : Rat) : EvModel :=
  let s' := Mcmc.step (cum.getD t.2.2.2 []) (perm.getD t.2.2.2 []) u
  let a := t.2.2.1
  if (!a.open_ && S.contains (s' : Int)) = true then (t.1, t.2.1, { open_ := true, start := k }, s')
  else if (a.open_ && F.contains (s' : Int)) = true then
    (((k - a.start : Nat) : Int), Events.histInsert t.2.1 (k - a.start), { open_ := false, start := a.start }, s')
  else (t.1, t.2.1, a, s')

theorem wt_body (cum perm n) (h : WF cum perm n) (S F : List Int) (k : Nat) (t : EvModel) (u : Rat) (us : List Rat)
    (hi : evInv n k t) :
    (wtBody (cum, permI perm) S F (k : Int) (evEnc t)).run (u :: us)
      = .ok (.yield (evEnc (wtNext cum perm S F k t u)), us) := by
  obtain ⟨wt, hh, a, s⟩ := t
  obtain ⟨h1, h2, h3⟩ := hi
  simp only at h1 h2 h3
  unfold wtBody evEnc wtNext
  simp only [StateT.run_bind, step_ok cum perm n h s h2 u us, ok_bind, pyIn]
  generalize Mcmc.step (cum.getD s []) (perm.getD s []) u = s'
  have esub : (k : Int) - (a.start : Int) = ((k - a.start : Nat) : Int) := by omega
  cases c1 : (!a.open_ && S.contains (s' : Int))
  · simp only [Bool.false_eq_true, ↓reduceIte]
    cases c2 : (a.open_ && F.contains (s' : Int))
    · simp only [Bool.false_eq_true, ↓reduceIte]; rfl
    · simp only [↓reduceIte, esub, dictHas_histI]
      cases c3 : hh.any (fun e => e.1 == k - a.start)
      · simp only [Bool.false_eq_true, ↓reduceIte]
        rw [dict_miss hh _ c3]; rfl
      · obtain ⟨v, hv1, hv2⟩ := dict_hit hh (k - a.start) h3 c3
        simp only [↓reduceIte, StateT.run_bind, run_lift_ok _ _ hv1, ok_bind, hv2]; rfl
  · simp only [↓reduceIte]; rfl

theorem wt_inv (cum perm n) (h : WF cum perm n) (S F : List Int) (k : Nat) (t : EvModel) (u : Rat)
    (hi : evInv n k t) : evInv n (k + 1) (wtNext cum perm S F k t u) := by
  obtain ⟨wt, hh, a, s⟩ := t
  obtain ⟨h1, h2, h3⟩ := hi
  simp only at h1 h2 h3
  have hlt := step_next_lt cum perm n h s h2 u
  unfold wtNext evInv
  simp only
  split
  · exact ⟨by simp, hlt, h3⟩
  · split
    · exact ⟨Nat.le_succ_of_le h1, hlt, nodup_histInsert _ _ h3⟩
    · exact ⟨Nat.le_succ_of_le h1, hlt, h3⟩

theorem wt_iter (cum perm) (S F : List Int) (k : Nat) (wt : Int) (hh : List (Nat × Nat)) (a : Events.Auto) (s : Nat)
    (us : List Rat) :
    (iter (wtNext cum perm S F) k (wt, hh, a, s) us).2.1
      = ((Events.eventsFrom S F a k ((Mcmc.chainFrom cum perm s us).map Int.ofNat)).map (fun e => e.2 - e.1)).foldl
          Events.histInsert hh := by
  induction us generalizing k wt hh a s with
  | nil => simp [iter, Mcmc.chainFrom, Events.eventsFrom]
  | cons u us ih =>
    simp only [iter, Mcmc.chainFrom, List.map_cons, Events.eventsFrom, Events.autoStep, wtNext]
    generalize Mcmc.step (cum.getD s []) (perm.getD s []) u = s'
    cases c1 : (!a.open_ && S.contains (Int.ofNat s'))
    · cases c2 : (a.open_ && F.contains (Int.ofNat s'))
      · simp only [Bool.false_eq_true, ↓reduceIte, ih]
      · simp only [Bool.false_eq_true, ↓reduceIte, ih, List.map_cons, List.foldl_cons]
    · simp only [↓reduceIte, ih]

/-! ### transition-time loop -/

def ttBody (c : List (List Rat) × List (List Int)) (S F : List Int) : Int → EvSt → PyR (ForInStep EvSt) :=
  fun idx __s => do
    let t1 ← MsmTimescales.propagate_MCMC_step c __s.2.2.2.2
    if pyIn t1 S = true then
      pure (ForInStep.yield (__s.1, __s.2.1, idx, true, t1))
    else
      if (__s.2.2.2.1 && pyIn t1 F) = true then
        if pyDictHas __s.2.1 (idx - __s.2.2.1) = true then do
          let t2 ← liftM (pyDictGet __s.2.1 (idx - __s.2.2.1))
          pure (ForInStep.yield (idx - __s.2.2.1, pyDictSet __s.2.1 (idx - __s.2.2.1) (t2 + 1), __s.2.2.1, false, t1))
        else
          pure (ForInStep.yield (idx - __s.2.2.1, pyDictSet __s.2.1 (idx - __s.2.2.1) 1, __s.2.2.1, false, t1))
      else pure (ForInStep.yield (__s.1, __s.2.1, __s.2.2.1, __s.2.2.2.1, t1))

def ttNext (cum : List (List Rat)) (perm : List (List Nat)) (S F : List Int) (k : Nat) (t : EvModel) (u : Rat) : EvModel :=
  let s' := Mcmc.step (cum.getD t.2.2.2 []) (perm.getD t.2.2.2 []) u
  let a := t.2.2.1
  if S.contains (s' : Int) = true then (t.1, t.2.1, { open_ := true, start := k }, s')
  else if (a.open_ && F.contains (s' : Int)) = true then
    (((k - a.start : Nat) : Int), Events.histInsert t.2.1 (k - a.start), { open_ := false, start := a.start }, s')
  else (t.1, t.2.1, a, s')

theorem tt_body (cum perm n) (h : WF cum perm n) (S F : List Int) (k : Nat) (t : EvModel) (u : Rat) (us : List Rat)
    (hi : evInv n k t) :
    (ttBody (cum, permI perm) S F (k : Int) (evEnc t)).run (u :: us)
      = .ok (.yield (evEnc (ttNext cum perm S F k t u)), us) := by
  obtain ⟨wt, hh, a, s⟩ := t
  obtain ⟨h1, h2, h3⟩ := hi
  simp only at h1 h2 h3
  unfold ttBody evEnc ttNext
  simp only [StateT.run_bind, step_ok cum perm n h s h2 u us, ok_bind, pyIn]
  generalize Mcmc.step (cum.getD s []) (perm.getD s []) u = s'
  have esub : (k : Int) - (a.start : Int) = ((k - a.start : Nat) : Int) := by omega
  cases c1 : S.contains (s' : Int)
  · simp only [Bool.false_eq_true, ↓reduceIte]
    cases c2 : (a.open_ && F.contains (s' : Int))
    · simp only [Bool.false_eq_true, ↓reduceIte]; rfl
    · simp only [↓reduceIte, esub, dictHas_histI]
      cases c3 : hh.any (fun e => e.1 == k - a.start)
      · simp only [Bool.false_eq_true, ↓reduceIte]
        rw [dict_miss hh _ c3]; rfl
      · obtain ⟨v, hv1, hv2⟩ := dict_hit hh (k - a.start) h3 c3
        simp only [↓reduceIte, StateT.run_bind, run_lift_ok _ _ hv1, ok_bind, hv2]; rfl
  · simp only [↓reduceIte]; rfl

theorem tt_inv (cum perm n) (h : WF cum perm n) (S F : List Int) (k : Nat) (t : EvModel) (u : Rat)
    (hi : evInv n k t) : evInv n (k + 1) (ttNext cum perm S F k t u) := by
  obtain ⟨wt, hh, a, s⟩ := t
  obtain ⟨h1, h2, h3⟩ := hi
  simp only at h1 h2 h3
  have hlt := step_next_lt cum perm n h s h2 u
  unfold ttNext evInv
  simp only
  split
  · exact ⟨by simp, hlt, h3⟩
  · split
    · exact ⟨Nat.le_succ_of_le h1, hlt, nodup_histInsert _ _ h3⟩
    · exact ⟨Nat.le_succ_of_le h1, hlt, h3⟩

theorem tt_iter (cum perm) (S F : List Int) (k : Nat) (wt : Int) (hh : List (Nat × Nat)) (a : Events.Auto) (s : Nat)
    (us : List Rat) :
    (iter (ttNext cum perm S F) k (wt, hh, a, s) us).2.1
      = (Events.ttFrom S F a k ((Mcmc.chainFrom cum perm s us).map Int.ofNat)).foldl Events.histInsert hh := by
  induction us generalizing k wt hh a s with
  | nil => simp [iter, Mcmc.chainFrom, Events.ttFrom]
  | cons u us ih =>
    simp only [iter, Mcmc.chainFrom, List.map_cons, Events.ttFrom, ttNext]
    generalize Mcmc.step (cum.getD s []) (perm.getD s []) u = s'
    cases c1 : S.contains (Int.ofNat s')
    · cases c2 : (a.open_ && F.contains (Int.ofNat s'))
      · simp only [Bool.false_eq_true, ↓reduceIte, ih]
      · simp only [Bool.false_eq_true, ↓reduceIte, ih, List.foldl_cons]
    · simp only [↓reduceIte, ih]

end MsmVerif.Refine.Mcmc
