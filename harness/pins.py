"""pins — the CONTEXT of the translated functions that the translator does not read, pinned and compared on every run.

The translator turns function BODIES into Lean.  What a body means also depends on text outside it:
  * the decorators of the function (`@numba.njit`, `@numba.njit(parallel=True)`, `@property`, `@decorit.alias(..)`; a `fastmath=True`, a cache
    decorator or a missing `@property` changes behaviour without touching the body),
  * the module's import statements that bind a name the translated functions read (which function the name `intersect`, `tests.is_ergodic`, `linalg.left_eigenvalues` … is bound to — the translator
    resolves such names through its cross-reference table, i.e. by NAME),
  * other module-level bindings of such names (constants, aliases such as `estimator = _estimate_waiting_times`; a later re-binding that shadows an import),
  * for methods: the base classes of the class and its `__new__`.
`harness/pins.json` (generated once by `python3 harness/pins.py --write` on the unchanged tree, committed) records these texts for every file that
contains a translated function.  `check(repo)` compares the working tree with them; any difference is reported as a translator problem for the modules
generated from that file (→ the functions are "no longer translated", an undischarged obligation that starts the failing-input search).  Like the
rest of the translator this is a syntactic tie, not a theorem; a harmless edit (a new import) also trips it, which is the prescribed behaviour."""
import ast
import json
import os

HERE = os.path.dirname(os.path.abspath(__file__))
PINS = os.path.join(HERE, 'pins.json')


def translated_index():
    """{relfile: {(cls or None, function name), …}} and {relfile: [Gen module names]}"""
    import np2lean
    import py2lean
    idx, mods = {}, {}
    for rel, ns, funcs in py2lean.KERNELS:
        for name, _sig in funcs:
            idx.setdefault(rel, set()).add((None, name))
        mods.setdefault(rel, set()).add(ns)
    for rel, ns, cls, funcs in np2lean.NP_KERNELS:
        for name, _sig in funcs:
            idx.setdefault(rel, set()).add((cls, name))
        mods.setdefault(rel, set()).add(ns)
    return idx, mods


def context_of(path, wanted):
    """the pinned texts of one source file"""
    src = open(path).read()
    tree = ast.parse(src)
    out = {'imports': [], 'module_bindings': [], 'decorators': {}, 'classes': {}}
    # the free names the translated functions (and their decorators) read: only statements that bind one of them are pinned
    used = set()
    for n in tree.body:
        fns_ = []
        if isinstance(n, ast.FunctionDef) and (None, n.name) in wanted:
            fns_ = [n]
        elif isinstance(n, ast.ClassDef):
            fns_ = [m for m in n.body if isinstance(m, ast.FunctionDef) and ((n.name, m.name) in wanted or m.name == '__new__')]
            if fns_:
                for b in n.bases:
                    used |= {x.id for x in ast.walk(b) if isinstance(x, ast.Name)}
        for f in fns_:
            used |= {x.id for x in ast.walk(f) if isinstance(x, ast.Name)}

    def binds(st):
        names = set()
        for x in ast.walk(st):
            if isinstance(x, ast.Import):
                names |= {(a.asname or a.name.split('.')[0]) for a in x.names}
            elif isinstance(x, ast.ImportFrom):
                names |= {(a.asname or a.name) for a in x.names}
            elif isinstance(x, ast.Name) and isinstance(x.ctx, (ast.Store, ast.Del)):
                names.add(x.id)
        return names
    for n in tree.body:
        if isinstance(n, (ast.Import, ast.ImportFrom)):
            if binds(n) & used or any(a.name == '*' for a in n.names):
                out['imports'].append(ast.unparse(n))
        elif isinstance(n, (ast.Assign, ast.AugAssign, ast.AnnAssign, ast.Delete)):
            if binds(n) & used:
                out['module_bindings'].append(ast.unparse(n))
        elif isinstance(n, (ast.If, ast.Try, ast.With, ast.For, ast.While)):
            if binds(n) & used:
                out['module_bindings'].append(ast.unparse(n))       # conditional imports / bindings
        elif isinstance(n, ast.FunctionDef):
            if (None, n.name) in wanted:
                out['decorators'][n.name] = [ast.unparse(d) for d in n.decorator_list]
        elif isinstance(n, ast.ClassDef):
            mine = [m for (c, m) in wanted if c == n.name]
            if not mine:
                continue
            info = {'bases': [ast.unparse(b) for b in n.bases], 'keywords': [ast.unparse(k) for k in n.keywords],
                    'class_decorators': [ast.unparse(d) for d in n.decorator_list], 'new': None, 'class_bindings': []}
            for m in n.body:
                if isinstance(m, ast.FunctionDef):
                    if m.name == '__new__':
                        info['new'] = ast.unparse(m)
                    if m.name in mine:
                        out['decorators']['%s.%s' % (n.name, m.name)] = [ast.unparse(d) for d in m.decorator_list]
                elif isinstance(m, (ast.Assign, ast.AnnAssign)):
                    info['class_bindings'].append(ast.unparse(m))
            out['classes'][n.name] = info
    # functions listed more than once in the module (a later definition silently replaces an earlier one)
    names = [n.name for n in tree.body if isinstance(n, ast.FunctionDef)]
    out['duplicate_defs'] = sorted({x for x in names if names.count(x) > 1})
    return out


# repo functions whose meaning the translator ASSUMES (a runtime primitive stands for them, or the signature table says what they do) instead of reading their
# body: their full source text is pinned.  (relative file, class or None, function) -> the Gen modules that rely on it ('*' = all)
ASSUMED = [
    ('utils/_utils.py', None, 'matrix_power'),          # npMatrixPower (exact repeated squaring) in is_ergodic / is_fuzzy_ergodic / ergodic_mask / the CK test
    ('utils/_utils.py', None, '_flatten_data'),         # npFlattenLL / identity on 1-d arrays
    ('utils/_utils.py', None, '_unflatten_data'),       # npUnflattenLL
    ('utils/_utils.py', None, 'format_state_traj'),     # identity on a list of 1-d integer arrays
    ('utils/_utils.py', None, '_check_state_traj'),
    ('statetraj.py', 'StateTraj', '__iter__'),          # iteration over an object = its `trajs` (table entry `iter` of an object given by attributes)
    ('statetraj.py', 'LumpedStateTraj', '__iter__'),    # absent on the unchanged tree: inherited
    ('statetraj.py', 'StateTraj', '__len__'),           # `len(self)` (table entry `len_self`)
    ('statetraj.py', 'LumpedStateTraj', '__len__'),     # absent: inherited
]


def assumed_sources(repo):
    out = {}
    for rel, cls, fn in ASSUMED:
        path = os.path.join(repo, 'src', 'msmhelper', rel)
        tree = ast.parse(open(path).read())
        body = tree.body
        if cls is not None:
            cl = [n for n in tree.body if isinstance(n, ast.ClassDef) and n.name == cls]
            body = cl[0].body if cl else []
        defs = [n for n in body if isinstance(n, ast.FunctionDef) and n.name == fn]
        # the docstring is not part of the meaning
        texts = []
        for d in defs:
            import copy
            d = copy.deepcopy(d)
            if d.body and isinstance(d.body[0], ast.Expr) and isinstance(d.body[0].value, ast.Constant) and isinstance(d.body[0].value.value, str):
                d.body = d.body[1:] or [ast.Pass()]
            texts.append(ast.unparse(d))
        out['%s:%s%s' % (rel, (cls + '.') if cls else '', fn)] = texts
    return out


def snapshot(repo):
    idx, _mods = translated_index()
    snap = {'assumed:sources': assumed_sources(repo)}
    for rel, wanted in sorted(idx.items()):
        path = os.path.join(repo, 'src', 'msmhelper', rel)
        snap[rel] = context_of(path, wanted)
    # the package's re-export modules decide what `mh.msm.peq`, `mh.utils.unique`, `mh.md.estimate_paths` … are
    for rel in ('__init__.py', 'msm/__init__.py', 'md/__init__.py', 'utils/__init__.py', 'msm/utils/__init__.py', 'plot/__init__.py'):
        path = os.path.join(repo, 'src', 'msmhelper', rel)
        if os.path.exists(path):
            t = ast.parse(open(path).read())
            snap['reexports:' + rel] = [ast.unparse(n) for n in t.body if not (isinstance(n, ast.Expr) and isinstance(getattr(n, 'value', None), ast.Constant))]
    return snap


def reliance(repo, files):
    """which Gen modules rely on which pinned 'assumed' text: {key: set(module names)} — direct users (the name occurs in the source of one of the module's
    translated functions; dunder methods: modules translated from the two classes or taking an object by attributes; re-exports: modules whose functions
    use `mh.`-qualified names) closed under the import relation of the generated Lean modules"""
    import re
    import np2lean
    import py2lean
    idx, mods = translated_index()
    srcs = {}          # module -> concatenated source of its translated functions
    uses_obj, uses_len = set(), set()
    for rel, ns, funcs in py2lean.KERNELS:
        srcs[ns] = srcs.get(ns, '') + _sources(repo, rel, None, [n for n, _ in funcs])
    for rel, ns, cls, funcs in np2lean.NP_KERNELS:
        srcs[ns] = srcs.get(ns, '') + _sources(repo, rel, cls, [n for n, _ in funcs])
        if any(any('iter' in o for o in sig.get('objects', {}).values()) for _n, sig in funcs):
            uses_obj.add(ns)
        if any('len_self' in sig.get('self_props', {}) for _n, sig in funcs):
            uses_len.add(ns)
    imports = {}
    for fn, text in (files or {}).items():
        if fn.endswith('.lean') and not fn.endswith('Run.lean') and text:
            imports[fn[:-5]] = set(re.findall(r'^import MsmVerif\.Gen\.([A-Za-z]+)$', text, re.M)) - {'PyRt', 'NpRt'}

    def closure(direct):
        out = set(direct)
        changed = True
        while changed:
            changed = False
            for m, deps in imports.items():
                if m not in out and deps & out:
                    out.add(m)
                    changed = True
        return out
    rel_ = {}
    for rel, cls, fn in ASSUMED:
        key = '%s:%s%s' % (rel, (cls + '.') if cls else '', fn)
        if fn == '__iter__':
            rel_[key] = closure(uses_obj)
        elif fn == '__len__':
            rel_[key] = closure(uses_len)
        else:
            rel_[key] = closure({m for m, t in srcs.items() if re.search(r'\b%s\b' % re.escape(fn), t)})
    rel_['reexports'] = closure({m for m, t in srcs.items() if re.search(r'\bmh\.', t)})
    return rel_


def _sources(repo, rel, cls, names):
    path = os.path.join(repo, 'src', 'msmhelper', rel)
    try:
        src = open(path).read()
        tree = ast.parse(src)
    except (OSError, SyntaxError):
        return ''
    body = tree.body
    if cls is not None:
        cl = [n for n in tree.body if isinstance(n, ast.ClassDef) and n.name == cls]
        body = cl[0].body if cl else []
    return '\n'.join(ast.get_source_segment(src, n) or '' for n in body if isinstance(n, ast.FunctionDef) and n.name in names)


def check(repo, files=None):
    """{Gen module file name: [problem, …]} for every difference between the working tree and harness/pins.json"""
    pinned = json.load(open(PINS))
    _idx, mods = translated_index()
    try:
        now = snapshot(repo)
    except (OSError, SyntaxError) as e:
        return {'*': ['context snapshot failed: %r' % (e,)]}
    probs = {}

    def diff(a, b, what):
        if a == b:
            return []
        if isinstance(a, dict) and isinstance(b, dict):
            out = []
            for k in sorted(set(a) | set(b)):
                out += diff(a.get(k), b.get(k), '%s[%s]' % (what, k))
            return out
        if isinstance(a, list) and isinstance(b, list):
            gone = [x for x in a if x not in b]
            new = [x for x in b if x not in a]
            if not gone and not new:
                return ['%s: order changed' % what]
            return ['%s: pinned `%s` → now `%s`' % (what, ' | '.join(str(x)[:120] for x in gone) or '—', ' | '.join(str(x)[:120] for x in new) or '—')]
        return ['%s: pinned `%s` → now `%s`' % (what, str(a)[:160], str(b)[:160])]
    rel_ = None
    for key in sorted(set(pinned) | set(now)):
        if key == 'assumed:sources':
            a, b = pinned.get(key) or {}, now.get(key) or {}
            for k2 in sorted(set(a) | set(b)):
                d = diff(a.get(k2), b.get(k2), 'assumed source ' + k2)
                if d:
                    rel_ = rel_ or reliance(repo, files)
                    for ns in sorted(rel_.get(k2, set())):
                        probs.setdefault(ns + '.lean', []).extend('a helper whose meaning the translation assumes changed — ' + x for x in d)
            continue
        d = diff(pinned.get(key), now.get(key), key)
        if not d:
            continue
        if key.startswith('reexports:'):
            rel_ = rel_ or reliance(repo, files)
            for ns in sorted(rel_.get('reexports', set())):
                probs.setdefault(ns + '.lean', []).extend('package re-exports changed — ' + x for x in d)
        else:
            for ns in sorted(mods.get(key, [])):
                probs.setdefault(ns + '.lean', []).extend('context of the translated functions changed — ' + x for x in d)
    return probs


if __name__ == '__main__':
    import sys
    repo = '/repo'
    if '--repo' in sys.argv:
        repo = sys.argv[sys.argv.index('--repo') + 1]
    if '--write' in sys.argv:
        json.dump(snapshot(repo), open(PINS, 'w'), indent=1, sort_keys=True)
        print('wrote', PINS)
    else:
        p = check(repo)
        for k, v in sorted(p.items()):
            for x in v:
                print('PROBLEM %s: %s' % (k, x))
        sys.exit(1 if p else 0)
