/-
Model/Coring.lean — executable model of `src/msmhelper/md/corrections.py`.

`_dynamical_coring_single_traj` walks over a copy of the trajectory and relabels in place.  At
position `idx` it only reads positions `≥ idx`, which have not been written yet, so the window
test sees the *input* suffix `traj[idx:]`.  The loop is therefore the structural recursion `scanWith`
over the input, carrying the current core.
-/
import MsmVerif.Model.Basic

namespace MsmVerif.Coring

/-- `_remains_in_core(idx, traj, lagtime, iterative=False)` on the suffix `traj[idx:]`:
bound `len(traj) + 1 <= idx + lagtime → False`, then every frame `idx+1 … idx+lagtime-1` equals `traj[idx]`. -/
def remains (τ : Nat) : List Int → Bool
  | [] => false
  | x :: rest => decide (τ ≤ rest.length + 1) && (rest.take (τ - 1)).all (· == x)

/-- `_remains_in_core(..., iterative=True)`: same bound, then only `traj[idx] == traj[idx+lagtime-1]`. -/
def remainsShort (τ : Nat) : List Int → Bool
  | [] => false
  | x :: rest => decide (τ ≤ rest.length + 1) && ((x :: rest)[τ - 1]? == some x)

/-- the relabelling loop of `_dynamical_coring_single_traj`, `rem` being the window test -/
def scanWith (rem : List Int → Bool) : Int → List Int → List Int
  | _, [] => []
  | core, x :: rest =>
    if x = core then core :: scanWith rem core rest
    else if rem (x :: rest) then x :: scanWith rem x rest
    else core :: scanWith rem core rest

/-- `_find_first_core` (always the full window test); `none` is the code's `-1` -/
def firstCore (τ : Nat) : List Int → Option Int
  | [] => none
  | x :: rest => if remains τ (x :: rest) then some x else firstCore τ rest

/-- `_find_first_core` with the code's sentinel: a label, or `-1` -/
def firstCoreSentinel (τ : Nat) (t : List Int) : Int := (firstCore τ t).getD (-1)

/-- `_dynamical_coring_single_traj(traj, lagtime, iterative)`; `none` = `LagtimeError`.
The kernel compares the sentinel-valued result with `-1`, so a first core labelled `-1` is
indistinguishable from "no core" *inside the kernel*. -/
def kernelSingle (τ : Nat) (iter : Bool) (t : List Int) : Option (List Int) :=
  let c := firstCoreSentinel τ t
  if c = -1 then none
  else some (scanWith (if iter then remainsShort τ else remains τ) c t)

/-- the reference rule of the property for one trajectory and one window `τ` -/
def coreRef (τ : Nat) (t : List Int) : Option (List Int) :=
  (firstCore τ t).map (fun c => scanWith (remains τ) c t)

/-- the schedule of `_dynamical_coring`: `2..τ` when iterative, `[τ]` otherwise -/
def schedule (τ : Nat) (iter : Bool) : List Nat :=
  if iter then (List.range (τ - 1)).map (· + 2) else [τ]

/-- `_dynamical_coring_single_lagtime` : all trajectories at one stage; any failure fails the stage -/
def kernelStage (τ : Nat) (iter : Bool) (ts : Trajs) : Option Trajs :=
  ts.mapM (kernelSingle τ iter)

/-- `_dynamical_coring` : stages in order -/
def kernelAll (τ : Nat) (iter : Bool) (ts : Trajs) : Option Trajs :=
  (schedule τ iter).foldlM (fun acc s => kernelStage s iter acc) ts

/-- public `msmhelper.md.dynamical_coring(trajs, lagtime, iterative)` for a plain trajectory set:
build the `StateTraj`, reject `lagtime ≤ 0`, return the input for `lagtime = 1`, core the **index**
trajectories and map back through `states[·]`. -/
def dynamicalCoring (ts : Trajs) (τ : Int) (iter : Bool) : Except Err Trajs :=
  match StateTraj.mk' ts with
  | .error e => .error e
  | .ok st =>
    if τ ≤ 0 then .error .value
    else if τ = 1 then .ok ts
    else
      match kernelAll τ.toNat iter st.idx with
      | none => .error .lagtime
      | some r => .ok (r.map (·.map (labelOf st.sts)))

/-! ### Spec: the reference rule applied to each trajectory alone -/

/-- successive application of the reference rule with windows `2..τ` (iterative) or `τ` alone -/
def refOne (τ : Nat) (iter : Bool) (t : List Int) : Option (List Int) :=
  (schedule τ iter).foldlM (fun acc s => coreRef s acc) t

/-- the property's reference for a set: each trajectory on its own, error iff any has no core at some stage -/
def refSet (ts : Trajs) (τ : Int) (iter : Bool) : Except Err Trajs :=
  if τ ≤ 0 then .error .value
  else if τ = 1 then .ok ts
  else match ts.mapM (refOne τ.toNat iter) with
    | none => .error .lagtime
    | some r => .ok r

/-- lengths of the maximal constant runs -/
def runLengths : List Int → List Nat
  | [] => []
  | x :: xs =>
    match runLengths xs, xs with
    | n :: ns, y :: _ => if x = y then (n + 1) :: ns else 1 :: n :: ns
    | _, _ => [1]

/-- decidable oracle used on real outputs: `obs` is what the property demands for input `ts` -/
def holds (ts : Trajs) (τ : Int) (iter : Bool) (obs : Except Err Trajs) : Bool :=
  match refSet ts τ iter, obs with
  | .ok r, .ok o => r == o
  | .error e, .error e' => e == e'
  | _, _ => false

end MsmVerif.Coring
