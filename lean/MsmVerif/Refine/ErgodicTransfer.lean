/-
Refine/ErgodicTransfer.lean — task RP34 (property C14): the graph characterisation of C14 stated about the TRANSLATED functions
`Gen.UtilsTests.is_ergodic`, `is_fuzzy_ergodic`, `ergodic_mask` (called with `atol = Linalg.atol`, the default of the Python signature),
obtained by combining the refinement theorems of `Refine/Ergodic.lean` (translated = model) with the model theorems of
`Props/C14.lean`, `Props/C14General.lean` (Wielandt, all `n`) and `Props/C14Mask.lean`.

Vocabulary (that of the Props files): `support m` is the transition graph (edge `i → j` iff `m_ij ≠ 0`, i.e. `m_ij > 0` for the
non-negative matrices considered here); `Walk b k i j` = "there is a walk of length exactly `k` from `i` to `j`"; `Reach b i j` = "some
walk leads from `i` to `j`"; `Comm` = mutual reachability; `AperiodicClass b n i` = "for some `k ≥ 1` all ordered pairs of members of the
class of `i` are joined by walks of length exactly `k`" (for a finite class: the gcd of its cycle lengths is 1);
`wielandtExp n = (n-1)² + 1`.

About the tolerance.  The task text proposes the graph "edge `i → j` iff `m[i][j] > atol`".  With that graph the equivalence is FALSE
(`tol_graph_counterexample` below: a 2×2 stochastic matrix accepted by `is_ergodic` whose off-diagonal entries are `≤ atol`), because the code
thresholds the entries of the POWER `m^K`, not the entries of `m`.  The true statement uses the support graph and one explicit hypothesis
about magnitudes (`htol`: an entry of `m^K` that is positive exceeds `atol`) — `htol_needed` shows that it cannot be dropped; the
direction "accepted ⇒ graph property" needs no such hypothesis (`translated_is_ergodic_sound`), and
`translated_is_ergodic_iff_pow` is the unconditional characterisation in terms of the power.
-/
import MsmVerif.Refine.Ergodic
import MsmVerif.Props.C14
import MsmVerif.Props.C14General
import MsmVerif.Props.C14Mask

namespace MsmVerif.Refine.ErgodicTransfer
open MsmVerif MsmVerif.Gen MsmVerif.Msm MsmVerif.Linalg

/-! ### helpers -/

private theorem ok_inj {ε α : Type} {a b : α} : (Except.ok a : Except ε α) = .ok b ↔ a = b :=
  ⟨fun h => by injection h, fun h => by rw [h]⟩

private theorem wielandtExp_pos (n : Nat) : 1 ≤ wielandtExp n := by
  unfold wielandtExp; omega

private theorem length_pos_of_ne {m : Mat} (hne : m ≠ []) : 0 < m.length :=
  List.length_pos_iff.mpr hne

/-- the translated `is_ergodic` says `True` exactly when the model does (square non-empty input) -/
theorem translated_is_ergodic_iff_model (m : List (List Rat)) (hne : m ≠ []) (hsq : Linalg.isSquare m = true) :
    Gen.UtilsTests.is_ergodic m Linalg.atol = .ok true ↔ Linalg.isErgodic m = true := by
  rw [Ergodic.is_ergodic_refines m hne hsq, ok_inj]

/-- the translated `is_fuzzy_ergodic` says `True` exactly when the model does (square non-empty input) -/
theorem translated_is_fuzzy_ergodic_iff_model (m : List (List Rat)) (hne : m ≠ []) (hsq : Linalg.isSquare m = true) :
    Gen.UtilsTests.is_fuzzy_ergodic m Linalg.atol = .ok true ↔ Linalg.isFuzzyErgodic m = true := by
  rw [Ergodic.is_fuzzy_ergodic_refines m hne hsq, ok_inj]

/-! ### 1. `is_ergodic` -/

/-- Unconditional characterisation (no sign condition, no magnitude condition): on a square non-empty array the translated
    `is_ergodic m atol` returns `True` iff `m` is a transition matrix (`isTmat`) and every entry of the naive power `m^K`,
    `K = (n-1)² + 1`, exceeds `atol`; it never raises. -/
theorem translated_is_ergodic_iff_pow (m : List (List Rat)) (hne : m ≠ []) (hsq : Linalg.isSquare m = true) :
    Gen.UtilsTests.is_ergodic m Linalg.atol = .ok true ↔
      Linalg.isTmat m = true ∧
        ∀ i j, i < m.length → j < m.length → Linalg.atol < Linalg.entry (Linalg.pow m (Linalg.wielandtExp m.length)) i j := by
  rw [translated_is_ergodic_iff_model m hne hsq]
  exact C14.ergodic_iff_pow m

/-- Soundness, no magnitude hypothesis: if the translated `is_ergodic` accepts a square non-empty non-negative array, then it is a
    transition matrix, its transition graph is strongly connected (every state reaches every state), every state lies on closed walks
    of two consecutive lengths (period 1), and all ordered pairs of states are joined by walks of EVERY length `k' ≥ K = (n-1)² + 1`. -/
theorem translated_is_ergodic_sound (m : List (List Rat)) (hne : m ≠ []) (hsq : Linalg.isSquare m = true)
    (hnn : ∀ r ∈ m, ∀ x ∈ r, 0 ≤ x) (h : Gen.UtilsTests.is_ergodic m Linalg.atol = .ok true) :
    Linalg.isTmat m = true ∧
      (∀ i j, i < m.length → j < m.length → Reach (support m) i j) ∧
      (∀ i, i < m.length → ∃ k, Walk (support m) k i i ∧ Walk (support m) (k + 1) i i) ∧
      (∀ k', Linalg.wielandtExp m.length ≤ k' → ∀ i j, i < m.length → j < m.length → Walk (support m) k' i j) := by
  have he := (translated_is_ergodic_iff_model m hne hsq).mp h
  obtain ⟨ht, hw⟩ := C14.sound m hnn he
  refine ⟨ht, fun i j hi hj => ⟨_, hw i j hi hj⟩, fun i hi => C14.sound_aperiodic m hnn he i hi, ?_⟩
  intro k' hk'
  rw [wielandtExp_eq] at hk'
  exact C14General.wielandt_ge m.length (support m) (WF_support (WF_of_isTmat ht))
    ⟨_, wielandtExp_pos m.length, hw⟩ k' hk'

/-- **The headline of C14 about the translated code.**  Let `m` be a square, non-empty array with non-negative entries such that the
    positive entries of `m^K` (`K = (n-1)² + 1`) exceed `atol` (`htol`, the only hypothesis about magnitudes).  Then the translated
    `is_ergodic m atol` returns `True` (and raises nothing) IF AND ONLY IF `m` is a transition matrix in the sense of `isTmat` and its
    transition graph `support m` is strongly connected (`Reach` between all ordered pairs of states) and aperiodic (`AperiodicClass`
    of every state).  The direction ⇐ is Wielandt's theorem for every `n`. -/
theorem translated_is_ergodic_iff (m : List (List Rat)) (hne : m ≠ []) (hsq : Linalg.isSquare m = true)
    (hnn : ∀ r ∈ m, ∀ x ∈ r, 0 ≤ x)
    (htol : ∀ i j, i < m.length → j < m.length →
      0 < Linalg.entry (Linalg.pow m (Linalg.wielandtExp m.length)) i j →
      Linalg.atol < Linalg.entry (Linalg.pow m (Linalg.wielandtExp m.length)) i j) :
    Gen.UtilsTests.is_ergodic m Linalg.atol = .ok true ↔
      Linalg.isTmat m = true ∧
        (∀ i j, i < m.length → j < m.length → Reach (support m) i j) ∧
        (∀ i, i < m.length → AperiodicClass (support m) m.length i) := by
  constructor
  · intro h
    have he := (translated_is_ergodic_iff_model m hne hsq).mp h
    obtain ⟨ht, hw⟩ := C14.sound m hnn he
    exact ⟨ht, fun i j hi hj => ⟨_, hw i j hi hj⟩,
      fun i _ => ⟨_, wielandtExp_pos m.length, fun u v hu hv _ _ => hw u v hu hv⟩⟩
  · rintro ⟨ht, hreach, hap⟩
    rw [translated_is_ergodic_iff_model m hne hsq]
    have h0 := length_pos_of_ne hne
    obtain ⟨k, hk, hw⟩ := hap 0 h0
    refine C14General.complete_isErgodic m ht hnn k hk ?_ htol
    intro i j hi hj
    exact (C14.pow_pos_iff_walk m.length m (WF_of_isTmat ht) hnn k i j hi hj).mpr
      (hw i j hi hj ⟨hreach 0 i h0 hi, hreach i 0 hi h0⟩ ⟨hreach 0 j h0 hj, hreach j 0 hj h0⟩)

/-- The same equivalence with the graph property in the form "walks of every sufficiently large length between every ordered pair of
    states": under the hypotheses of `translated_is_ergodic_iff`, `is_ergodic m atol = True` iff `m` is a transition matrix and for
    every `k' ≥ K = (n-1)² + 1` every ordered pair of states is joined by a walk of length exactly `k'`; and also iff this holds for
    SOME `k ≥ 1` (primitivity). -/
theorem translated_is_ergodic_iff_walks (m : List (List Rat)) (hne : m ≠ []) (hsq : Linalg.isSquare m = true)
    (hnn : ∀ r ∈ m, ∀ x ∈ r, 0 ≤ x)
    (htol : ∀ i j, i < m.length → j < m.length →
      0 < Linalg.entry (Linalg.pow m (Linalg.wielandtExp m.length)) i j →
      Linalg.atol < Linalg.entry (Linalg.pow m (Linalg.wielandtExp m.length)) i j) :
    (Gen.UtilsTests.is_ergodic m Linalg.atol = .ok true ↔
      Linalg.isTmat m = true ∧
        ∀ k', Linalg.wielandtExp m.length ≤ k' → ∀ i j, i < m.length → j < m.length → Walk (support m) k' i j) ∧
    (Gen.UtilsTests.is_ergodic m Linalg.atol = .ok true ↔
      Linalg.isTmat m = true ∧
        ∃ k, 1 ≤ k ∧ ∀ i j, i < m.length → j < m.length → Walk (support m) k i j) := by
  have back : (Linalg.isTmat m = true ∧ ∃ k, 1 ≤ k ∧ ∀ i j, i < m.length → j < m.length → Walk (support m) k i j) →
      Gen.UtilsTests.is_ergodic m Linalg.atol = .ok true := by
    rintro ⟨ht, k, hk, hw⟩
    rw [translated_is_ergodic_iff_model m hne hsq]
    refine C14General.complete_isErgodic m ht hnn k hk ?_ htol
    intro i j hi hj
    exact (C14.pow_pos_iff_walk m.length m (WF_of_isTmat ht) hnn k i j hi hj).mpr (hw i j hi hj)
  constructor
  · constructor
    · intro h
      obtain ⟨ht, _, _, hge⟩ := translated_is_ergodic_sound m hne hsq hnn h
      exact ⟨ht, hge⟩
    · rintro ⟨ht, hge⟩
      exact back ⟨ht, _, wielandtExp_pos m.length, hge _ (Nat.le_refl _)⟩
  · constructor
    · intro h
      obtain ⟨ht, _, _, hge⟩ := translated_is_ergodic_sound m hne hsq hnn h
      exact ⟨ht, _, wielandtExp_pos m.length, hge _ (Nat.le_refl _)⟩
    · exact back

/-- the running example: a 3-state stochastic matrix on the cycle `0 → 1 → 2 → 0` with the chord `2 → 1` -/
def ex3 : List (List Rat) := [[0, 1, 0], [0, 0, 1], [1 / 2, 1 / 2, 0]]

-- non-vacuity: all hypotheses of `translated_is_ergodic_iff` hold on `ex3`, and the translated function accepts it
example : ex3 ≠ [] ∧ Linalg.isSquare ex3 = true ∧ (∀ r ∈ ex3, ∀ x ∈ r, 0 ≤ x) ∧
    (∀ i, i < ex3.length → ∀ j, j < ex3.length →
      0 < Linalg.entry (Linalg.pow ex3 (Linalg.wielandtExp ex3.length)) i j →
      Linalg.atol < Linalg.entry (Linalg.pow ex3 (Linalg.wielandtExp ex3.length)) i j) ∧
    Gen.UtilsTests.is_ergodic ex3 Linalg.atol = .ok true := by decide +kernel

-- … and a periodic (2-cycle) stochastic matrix satisfies them too and is rejected: both sides of the equivalence occur
example : ([[0, 1], [1, 0]] : List (List Rat)) ≠ [] ∧ Linalg.isSquare [[0, 1], [1, 0]] = true ∧
    (∀ r ∈ ([[0, 1], [1, 0]] : List (List Rat)), ∀ x ∈ r, 0 ≤ x) ∧
    (∀ i, i < 2 → ∀ j, j < 2 →
      0 < Linalg.entry (Linalg.pow [[0, 1], [1, 0]] (Linalg.wielandtExp 2)) i j →
      Linalg.atol < Linalg.entry (Linalg.pow [[0, 1], [1, 0]] (Linalg.wielandtExp 2)) i j) ∧
    Gen.UtilsTests.is_ergodic [[0, 1], [1, 0]] Linalg.atol = .ok false := by decide +kernel

/-- The graph "edge `i → j` iff `m[i][j] > atol`" does NOT characterise `is_ergodic`: this 2×2 stochastic matrix is accepted
    although both off-diagonal entries are `≤ atol` (that graph has no edge between the two states); `(m²)₀₁ ≈ 1.8e-8 > atol`. -/
theorem tol_graph_counterexample :
    let m : List (List Rat) := [[1 - 9 / 10 ^ 9, 9 / 10 ^ 9], [9 / 10 ^ 9, 1 - 9 / 10 ^ 9]]
    Gen.UtilsTests.is_ergodic m Linalg.atol = .ok true ∧ Linalg.entry m 0 1 ≤ Linalg.atol ∧ Linalg.entry m 1 0 ≤ Linalg.atol := by
  decide +kernel

/-- The magnitude hypothesis `htol` cannot be dropped from `translated_is_ergodic_iff`: this 2×2 stochastic matrix is non-negative with a
    complete support graph (walks of length 1 between all ordered pairs: strongly connected and aperiodic), yet it is rejected, because
    `(m²)₀₁ ≈ 2e-9 ≤ atol`. -/
theorem htol_needed :
    let m : List (List Rat) := [[1 - 1 / 10 ^ 9, 1 / 10 ^ 9], [1 / 10 ^ 9, 1 - 1 / 10 ^ 9]]
    Gen.UtilsTests.is_ergodic m Linalg.atol = .ok false ∧ Linalg.isTmat m = true ∧ (∀ r ∈ m, ∀ x ∈ r, 0 ≤ x) ∧
      support m = [[true, true], [true, true]] := by
  decide +kernel

/-! ### 2. relations between the three translated functions -/

/-- ergodic ⇒ fuzzy-ergodic, for the translated functions on a square non-empty array -/
theorem translated_ergodic_imp_fuzzy (m : List (List Rat)) (hne : m ≠ []) (hsq : Linalg.isSquare m = true)
    (h : Gen.UtilsTests.is_ergodic m Linalg.atol = .ok true) :
    Gen.UtilsTests.is_fuzzy_ergodic m Linalg.atol = .ok true := by
  rw [translated_is_fuzzy_ergodic_iff_model m hne hsq]
  exact C14.ergodic_imp_fuzzy m ((translated_is_ergodic_iff_model m hne hsq).mp h)

example : Gen.UtilsTests.is_ergodic ex3 Linalg.atol = .ok true ∧ Gen.UtilsTests.is_fuzzy_ergodic ex3 Linalg.atol = .ok true := by
  decide +kernel

/-- a matrix that the translated `is_transition_matrix` rejects (answer `False`, default tolerance) is rejected by the translated
    `is_ergodic` and `is_fuzzy_ergodic`, and the translated `ergodic_mask` raises `ValueError` — for EVERY input array (no shape
    hypothesis) and every `atol` argument -/
theorem translated_nonstochastic (m : List (List Rat)) (a : Rat)
    (h : Gen.UtilsTests.is_transition_matrix m Linalg.atol = .ok false) :
    Gen.UtilsTests.is_ergodic m a = .ok false ∧ Gen.UtilsTests.is_fuzzy_ergodic m a = .ok false ∧
      Gen.UtilsTests.ergodic_mask m a = .error .value :=
  ⟨Ergodic.is_ergodic_false m a h, Ergodic.is_fuzzy_ergodic_false m a h, Ergodic.ergodic_mask_false m a h⟩

/-- the same in terms of the model predicate: a square non-empty array with `isTmat m = false` -/
theorem translated_nonstochastic_model (m : List (List Rat)) (hne : m ≠ []) (hsq : Linalg.isSquare m = true)
    (h : Linalg.isTmat m = false) :
    Gen.UtilsTests.is_ergodic m Linalg.atol = .ok false ∧ Gen.UtilsTests.is_fuzzy_ergodic m Linalg.atol = .ok false ∧
      Gen.UtilsTests.ergodic_mask m Linalg.atol = .error .value := by
  apply translated_nonstochastic
  rw [Ergodic.is_tmat_refines m hne hsq, h]

example : Gen.UtilsTests.is_transition_matrix [[(1 : Rat) / 2, 1 / 3], [1 / 3, 2 / 3]] Linalg.atol = .ok false ∧
    Linalg.isTmat [[(1 : Rat) / 2, 1 / 3], [1 / 3, 2 / 3]] = false := by decide +kernel

/-- adding an isolated absorbing state (`addState T 1 = T ⊕ (1)`) or a never-visited state (`addState T 0 = T ⊕ (0)`) to a non-negative
    square array accepted by the translated `is_ergodic` gives arrays accepted by the translated `is_fuzzy_ergodic` -/
theorem translated_fuzzy_add_trap (T : List (List Rat)) (hne : T ≠ []) (hsq : Linalg.isSquare T = true)
    (hnn : ∀ r ∈ T, ∀ x ∈ r, 0 ≤ x) (h : Gen.UtilsTests.is_ergodic T Linalg.atol = .ok true) :
    Gen.UtilsTests.is_fuzzy_ergodic (addState T 1) Linalg.atol = .ok true ∧
      Gen.UtilsTests.is_fuzzy_ergodic (addState T 0) Linalg.atol = .ok true := by
  have he := (translated_is_ergodic_iff_model T hne hsq).mp h
  obtain ⟨h1, h0⟩ := C14.fuzzy_add_trap T hnn he
  have hsq' : ∀ d : Rat, Linalg.isSquare (addState T d) = true := by
    intro d
    have hw := WF_addState (WF_of_isSquare hsq) d
    have hl : (addState T d).length = T.length + 1 := hw.1
    exact isSquare_of_WF (by rw [hl]; exact hw)
  have hne' : ∀ d : Rat, addState T d ≠ [] := by
    intro d
    unfold addState
    simp
  exact ⟨(translated_is_fuzzy_ergodic_iff_model _ (hne' 1) (hsq' 1)).mpr h1,
    (translated_is_fuzzy_ergodic_iff_model _ (hne' 0) (hsq' 0)).mpr h0⟩

-- non-vacuity: the hypotheses hold for a 2×2 matrix; the enlarged matrix is accepted by `is_fuzzy_ergodic` but not by `is_ergodic`
example : Gen.UtilsTests.is_ergodic [[(1 : Rat) / 2, 1 / 2], [1 / 3, 2 / 3]] Linalg.atol = .ok true ∧
    addState [[(1 : Rat) / 2, 1 / 2], [1 / 3, 2 / 3]] 1 = [[1 / 2, 1 / 2, 0], [1 / 3, 2 / 3, 0], [0, 0, 1]] ∧
    Gen.UtilsTests.is_fuzzy_ergodic (addState [[(1 : Rat) / 2, 1 / 2], [1 / 3, 2 / 3]] 1) Linalg.atol = .ok true ∧
    Gen.UtilsTests.is_ergodic (addState [[(1 : Rat) / 2, 1 / 2], [1 / 3, 2 / 3]] 1) Linalg.atol = .ok false := by
  decide +kernel

/-! ### 3. `ergodic_mask` -/

/-- the translated `ergodic_mask` succeeds exactly when the model does, with the same mask (non-empty rectangular input) -/
theorem translated_mask_iff_model (m : List (List Rat)) (hrect : Gen.npRect m = true) (hne : m ≠ []) (mask : List Bool) :
    Gen.UtilsTests.ergodic_mask m Linalg.atol = .ok mask ↔ Linalg.ergodicMask m = some mask := by
  rw [Ergodic.ergodic_mask_refines m hrect hne]
  cases Linalg.ergodicMask m with
  | none => exact ⟨fun h => (nomatch h), fun h => (nomatch h)⟩
  | some b =>
    constructor
    · intro h
      injection h with h
      rw [h]
    · intro h
      injection h with h
      rw [h]

/-- **The mask.**  Whenever the translated `ergodic_mask m atol` returns a mask (non-empty rectangular input): `m` is a transition
    matrix, the mask has one entry per state, and state `i` is marked iff its count `maskCnt m i` — the number of states `j` with
    `(m^K)_ij > atol` and `(m^K)_ji > atol` (`maskRel`) — is maximal (`C14.mask_marks_max`); if moreover the entries are
    non-negative, related states are joined by walks of length exactly `K` in both directions (`C14.mask_sound`). -/
theorem translated_mask (m : List (List Rat)) (hrect : Gen.npRect m = true) (hne : m ≠ []) (mask : List Bool)
    (h : Gen.UtilsTests.ergodic_mask m Linalg.atol = .ok mask) :
    Linalg.isTmat m = true ∧ mask.length = m.length ∧
      (∀ i, i < m.length → (mask.getD i false = true ↔ ∀ i', i' < m.length → maskCnt m i' ≤ maskCnt m i)) ∧
      ((∀ r ∈ m, ∀ x ∈ r, 0 ≤ x) → ∀ i j, i < m.length → j < m.length → maskRel m i j = true →
        Walk (support m) (Linalg.wielandtExp m.length) i j ∧ Walk (support m) (Linalg.wielandtExp m.length) j i) := by
  have hm := (translated_mask_iff_model m hrect hne mask).mp h
  have ht := isTmat_of_ergodicMask hm
  obtain ⟨hl, hmark⟩ := C14.mask_marks_max m mask hm
  exact ⟨ht, hl, hmark, fun hnn i j hi hj hr => C14.mask_sound m hnn ht i j hi hj hr⟩

/-- **The mask clause of C14 for the translated code** (`C14Mask.mask_complete`): for a square non-empty non-negative transition matrix
    satisfying the magnitude hypothesis, all of whose closed classes are aperiodic and whose largest closed classes are strictly larger
    than every transient class, the translated `ergodic_mask m atol` returns (without raising) a mask of length `n` that marks state
    `i` iff `i` lies in a closed class of maximal size. -/
theorem translated_mask_complete (m : List (List Rat)) (hne : m ≠ []) (hsq : Linalg.isSquare m = true)
    (hnn : ∀ r ∈ m, ∀ x ∈ r, 0 ≤ x) (ht : Linalg.isTmat m = true)
    (hthr : ∀ i j, i < m.length → j < m.length → 0 < Linalg.entry (Linalg.pow m (Linalg.wielandtExp m.length)) i j →
      Linalg.atol < Linalg.entry (Linalg.pow m (Linalg.wielandtExp m.length)) i j)
    (hcls : ∀ i, i < m.length → ClosedClass (support m) m.length i → AperiodicClass (support m) m.length i)
    (hbig : ∀ i j, i < m.length → j < m.length → MaxClosed (support m) m.length i →
      ¬ ClosedClass (support m) m.length j →
      classCard (support m) m.length j < classCard (support m) m.length i) :
    ∃ mask, Gen.UtilsTests.ergodic_mask m Linalg.atol = .ok mask ∧ mask.length = m.length ∧
      ∀ i, i < m.length → (mask.getD i false = true ↔ MaxClosed (support m) m.length i) := by
  obtain ⟨mask, hm, hl, hmark⟩ := C14Mask.mask_complete m hnn ht hthr hcls hbig
  exact ⟨mask, (translated_mask_iff_model m (Ergodic.npRect_of_square m hsq) hne mask).mpr hm, hl, hmark⟩

-- non-vacuity of `translated_mask`: rectangular, non-empty, non-negative, the translated function returns a mask, and the relation
-- `maskRel` holds for some pairs and fails for others
example : Gen.npRect [[(1 : Rat) / 2, 1 / 2, 0], [1 / 2, 1 / 2, 0], [0, 0, 1]] = true ∧
    Gen.UtilsTests.ergodic_mask [[(1 : Rat) / 2, 1 / 2, 0], [1 / 2, 1 / 2, 0], [0, 0, 1]] Linalg.atol = .ok [true, true, false] ∧
    (∀ r ∈ ([[1 / 2, 1 / 2, 0], [1 / 2, 1 / 2, 0], [0, 0, 1]] : List (List Rat)), ∀ x ∈ r, 0 ≤ x) ∧
    maskRel [[1 / 2, 1 / 2, 0], [1 / 2, 1 / 2, 0], [0, 0, 1]] 0 1 = true ∧
    maskRel [[1 / 2, 1 / 2, 0], [1 / 2, 1 / 2, 0], [0, 0, 1]] 0 2 = false := by decide +kernel

-- non-vacuity of `translated_mask_complete`: the running example `C14Mask.M5` satisfies its hypotheses (`C14Mask.M5_hyps` and the
-- example after `C14Mask.mask_complete_all_classes`); the translated function returns the mask of the two tied closed classes
example : C14Mask.M5 ≠ [] ∧ Linalg.isSquare C14Mask.M5 = true ∧ Linalg.isTmat C14Mask.M5 = true ∧
    Gen.UtilsTests.ergodic_mask C14Mask.M5 Linalg.atol = .ok [true, true, true, true, false] := by decide +kernel

end MsmVerif.Refine.ErgodicTransfer
