/-
Driver/Ops.lean — dispatch of protocol operations to the executable models and `holds` oracles.
-/
import MsmVerif.Driver.JsonUtil
import MsmVerif.Model.Coring
import MsmVerif.Model.Msm
import MsmVerif.Model.Events
import MsmVerif.Model.Mcmc
import MsmVerif.Model.Compare
import MsmVerif.Model.Relabel
import MsmVerif.Model.Linalg
import MsmVerif.Model.Timescales
import MsmVerif.Model.Filter
import MsmVerif.Model.Heap
import MsmVerif.Model.TextIO

open Lean

namespace MsmVerif.Driver
open MsmVerif.J

def opCoring (j : Json) : Except String Json := do
  let ts ← trajs? (← field j "trajs")
  let τ ← int? (← field j "tau")
  let iter ← bool? (← field j "iter")
  let model := Coring.dynamicalCoring ts τ iter
  let ref := Coring.refSet ts τ iter
  let base := [("model", ofExcept ofTrajs model), ("ref", ofExcept ofTrajs ref)]
  match j.getObjVal? "obs" with
  | .ok o =>
    let obs ← except? trajs? o
    return Json.mkObj (base ++ [("holds", Json.bool (Coring.holds ts τ iter obs))])
  | .error _ => return Json.mkObj base

def opCoringKernel (j : Json) : Except String Json := do
  let t ← ints? (← field j "traj")
  let τ ← nat? (← field j "tau")
  let iter ← bool? (← field j "iter")
  let r := Coring.kernelSingle τ iter t
  let fc := Coring.firstCoreSentinel τ t
  return Json.mkObj [
    ("model", match r with | some l => Json.mkObj [("ok", ofInts l)] | none => Json.mkObj [("err", "LagtimeError")]),
    ("first_core", ofInt fc)]

/-- C01: `estimate_markov_model` -/
def opEstimate (j : Json) : Except String Json := do
  let ts ← trajs? (← field j "trajs")
  let lag ← nat? (← field j "lag")
  let model := Msm.estimate ts lag
  let mj := ofExcept (fun (r : Msm.NatMat × Msm.RatMat × List Int) =>
      Json.mkObj [("counts", ofList ofNats r.1), ("T", ofRatMat r.2.1), ("states", ofInts r.2.2)]) model
  match j.getObjVal? "obs" with
  | .ok o =>
    let obs ← except? (fun v => do
      let st ← ints? (← field v "states")
      let T ← ratMat? (← field v "T")
      return (st, T)) o
    let h := match obs with
      | .ok (st, T) => Msm.holds ts lag st T
      | .error _ => false
    return Json.mkObj [("model", mj), ("holds", Json.bool h)]
  | .error _ => return Json.mkObj [("model", mj)]

def ofPathTuples (l : List (List Int × Nat)) : Json :=
  ofList (fun (p : List Int × Nat) => Json.arr #[ofInts p.1, ofNat p.2]) l

def pathTuples? (j : Json) : Except String (List (List Int × Nat)) := do
  (← arr? j).mapM (fun e => do
    let a ← arr? e
    match a with
    | [p, d] => return (← ints? p, ← nat? d)
    | _ => throw "bad path tuple")

/-- C06: `md.estimate_waiting_times` -/
def opMdWt (j : Json) : Except String Json := do
  let ts ← trajs? (← field j "trajs")
  let start ← ints? (← field j "start")
  let final ← ints? (← field j "final")
  let model := Events.mdWaitingTimes ts start final
  let base := [("model", ofExcept ofNats model)]
  match j.getObjVal? "obs" with
  | .ok o =>
    let obs ← except? nats? o
    return Json.mkObj (base ++ [("holds", Json.bool (Events.holdsWt ts start final obs))])
  | .error _ => return Json.mkObj base

/-- C06: `md.estimate_paths` (tuples in order of occurrence) -/
def opMdPaths (j : Json) : Except String Json := do
  let ts ← trajs? (← field j "trajs")
  let start ← ints? (← field j "start")
  let final ← ints? (← field j "final")
  let model := Events.mdPaths ts start final
  let base := [("model", ofExcept ofPathTuples model)]
  match j.getObjVal? "obs" with
  | .ok o =>
    let obs ← except? (fun v => do
      (← arr? v).mapM (fun e => do
        match (← arr? e) with
        | [p, d] => return (← ints? p, ← nats? d)
        | _ => throw "bad dict item")) o
    return Json.mkObj (base ++ [("holds", Json.bool (Events.holdsPaths ts start final obs))])
  | .error _ => return Json.mkObj base

def natMat? (j : Json) : Except String (List (List Nat)) := do (← arr? j).mapM nats?

/-- C07: judge the real cumulative matrix of an estimated model -/
def opCummatJudge (j : Json) : Except String Json := do
  let ts ← trajs? (← field j "trajs")
  let lag ← nat? (← field j "lag")
  let cum ← ratMat? (← field j "cum")
  let perm ← natMat? (← field j "perm")
  match Msm.estimate ts lag with
  | .error e => return Json.mkObj [("model", Json.mkObj [("err", Json.str e.name)]), ("holds", Json.bool false)]
  | .ok (_, T, _) =>
    let exact := (List.range T.length).map (fun i => Mcmc.cumRow (T.getD i []) (perm.getD i []))
    return Json.mkObj [("model", Json.mkObj [("ok", ofRatMat exact)]), ("holds", Json.bool (Mcmc.holdsCummat T cum perm))]

/-- C07: judge the cumulative matrix `propagate_tmat` builds from a user matrix -/
def opTmatCumJudge (j : Json) : Except String Json := do
  let T ← ratMat? (← field j "T")
  let cum ← ratMat? (← field j "cum")
  let perm ← natMat? (← field j "perm")
  let exact := (Msm.rowNormalizeQ T).map Mcmc.cumsum
  return Json.mkObj [("model", Json.mkObj [("ok", ofRatMat exact)]), ("holds", Json.bool (Mcmc.holdsCumTmat T cum perm))]

/-- C07: chain for given cumulative matrix, start index, length and draws -/
def opChain (j : Json) : Except String Json := do
  let cum ← ratMat? (← field j "cum")
  let perm ← natMat? (← field j "perm")
  let start ← nat? (← field j "start")
  let steps ← nat? (← field j "steps")
  let us ← rats? (← field j "us")
  let sts ← ints? (← field j "states")
  let model := (Mcmc.chain cum perm start steps us).map (fun (i : Nat) => labelOf sts (i : Int))
  let base := [("model", Json.mkObj [("ok", ofInts model)])]
  match j.getObjVal? "obs" with
  | .ok o =>
    let obs ← except? ints? o
    let h := match obs with
      | .ok l => Mcmc.holdsChain cum perm sts start steps us l
      | .error _ => false
    return Json.mkObj (base ++ [("holds", Json.bool h)])
  | .error _ => return Json.mkObj base

/-- when the request carries `trajs` and `lag`, judge the captured cumulative matrix against the exact model -/
def cumJudge (j : Json) (cum : List (List Rat)) (perm : List (List Nat)) : Bool :=
  match j.getObjVal? "trajs", j.getObjVal? "lag" with
  | .ok tj, .ok lj =>
    match trajs? tj, nat? lj with
    | .ok ts, .ok lag =>
      match Msm.estimate ts lag with
      | .ok (_, T, _) => Mcmc.holdsCummat T cum perm
      | .error _ => false
    | _, _ => false
  | _, _ => true

/-- C08: the msm event loops on the realised chain; `kind` = "wt" | "tt" -/
def opMsmTimes (j : Json) : Except String Json := do
  let cum ← ratMat? (← field j "cum")
  let perm ← natMat? (← field j "perm")
  let start ← nat? (← field j "start")
  let steps ← nat? (← field j "steps")
  let us ← rats? (← field j "us")
  let S ← ints? (← field j "S")
  let F ← ints? (← field j "F")
  let lag ← nat? (← field j "lag")
  let kind ← str? (← field j "kind")
  let xs := (Mcmc.realised cum perm start steps us).map (fun (i : Nat) => (i : Int))
  let h := if kind == "wt" then Events.msmWtLoop S F xs else Events.msmTtLoop S F xs
  let lst := Events.histList h lag
  let (dens, edges) := Events.histDensity h lag
  return Json.mkObj [("model", Json.mkObj [("ok", Json.mkObj [
    ("chain", ofInts xs), ("hist", ofList (fun (e : Nat × Nat) => Json.arr #[ofNat e.1, ofNat e.2]) h),
    ("list", ofNats lst), ("density", ofRats dens), ("edges", ofNats edges)])]), ("cum_ok", Json.bool (cumJudge j cum perm)),
    ("holds", Json.bool true)]

/-- C13: `compare_discretization` -/
def opCompare (j : Json) : Except String Json := do
  let t1 ← trajs? (← field j "t1")
  let t2 ← trajs? (← field j "t2")
  let m ← nat? (← field j "method")
  let model := Compare.compare t1 t2 m
  let base := [("model", ofExcept ofRat model)]
  match j.getObjVal? "obs" with
  | .ok o =>
    let obs ← except? rat? o
    return Json.mkObj (base ++ [("holds", Json.bool (Compare.holds t1 t2 m obs))])
  | .error _ => return Json.mkObj base

def shape? (j : Json) : Except String Relabel.Shape := do
  let k ← str? (← field j "kind")
  match k with
  | "flat" => return .flat
  | "mat" => return .mat (← nat? (← field j "rows")) (← nat? (← field j "cols"))
  | "ragged" => return .ragged (← nats? (← field j "lens"))
  | _ => throw "bad shape"

def ofShape : Relabel.Shape → Json
  | .flat => Json.mkObj [("kind", "flat")]
  | .mat r c => Json.mkObj [("kind", "mat"), ("rows", ofNat r), ("cols", ofNat c)]
  | .ragged l => Json.mkObj [("kind", "ragged"), ("lens", ofNats l)]

def data? (j : Json) : Except String Relabel.Data := do
  return { vals := ← ints? (← field j "vals"), shape := ← shape? (← field j "shape") }

def ofData (d : Relabel.Data) : Json := Json.mkObj [("vals", ofInts d.vals), ("shape", ofShape d.shape)]

/-- C15: `shift_data` -/
def opShift (j : Json) : Except String Json := do
  let d ← data? (← field j "data")
  let old ← ints? (← field j "old")
  let new ← ints? (← field j "new")
  let model := Relabel.shiftData d old new
  let base := [("model", ofExcept ofData model), ("guard", Json.bool (Relabel.guardOk d.vals old new))]
  match j.getObjVal? "obs" with
  | .ok o =>
    let obs ← except? data? o
    return Json.mkObj (base ++ [("holds", Json.bool (Relabel.holdsShift d old new obs))])
  | .error _ => return Json.mkObj base

def dataPerm? (v : Json) : Except String (Relabel.Data × List Int) := do
  return (← data? (← field v "data"), ← ints? (← field v "perm"))

def ofDataPerm (r : Relabel.Data × List Int) : Json := Json.mkObj [("data", ofData r.1), ("perm", ofInts r.2)]

/-- C15: `rename_by_index` / `rename_by_population` / `unique` -/
def opRename (j : Json) : Except String Json := do
  let d ← data? (← field j "data")
  let kind ← str? (← field j "kind")
  let obs ← except? dataPerm? (← field j "obs")
  match kind with
  | "index" =>
    return Json.mkObj [("model", ofExcept ofDataPerm (Relabel.renameByIndex d)),
      ("holds", Json.bool (Relabel.holdsRenameIndex d obs))]
  | "population" =>
    let perm := match obs with | .ok (_, p) => p | .error _ => []
    return Json.mkObj [("model", ofExcept ofDataPerm (Relabel.renameByPopulationWith d perm)),
      ("holds", Json.bool (Relabel.holdsRenamePop d obs))]
  | _ => throw "bad rename kind"

def opUnique (j : Json) : Except String Json := do
  let d ← data? (← field j "data")
  let (s, c) := Relabel.uniqueCounts d
  return Json.mkObj [("model", Json.mkObj [("ok", Json.mkObj [("states", ofInts s), ("counts", ofNats c)])]),
    ("holds", Json.bool true)]

/-- C07: public `propagate_MCMC(trajs, lag, steps, start)` with injected draws; `obs.ok` carries the captured
cumulative matrix, the permutation and the returned chain -/
def opMcmcPublic (j : Json) : Except String Json := do
  let ts ← trajs? (← field j "trajs")
  let lag ← nat? (← field j "lag")
  let steps ← nat? (← field j "steps")
  let startLabel ← int? (← field j "start")
  let us ← rats? (← field j "us")
  match Msm.estimate ts lag with
  | .error e => return Json.mkObj [("model", Json.mkObj [("err", Json.str e.name)]), ("holds", Json.bool false)]
  | .ok (_, T, sts) =>
    let valid := sts.contains startLabel
    let obsJ ← field j "obs"
    match obsJ.getObjVal? "err" with
    | .ok e =>
      let en ← str? e
      return Json.mkObj [("model", Json.mkObj [("err", Json.str (if valid then "none" else "ValueError"))]),
        ("holds", Json.bool (!valid && en == "ValueError"))]
    | .error _ =>
      let o ← field obsJ "ok"
      let cum ← ratMat? (← field o "cum")
      let perm ← natMat? (← field o "perm")
      let chainObs ← ints? (← field o "chain")
      let startIdx := rank sts startLabel
      let model := (Mcmc.chain cum perm startIdx steps us).map (fun (i : Nat) => labelOf sts (i : Int))
      let okCum := Mcmc.holdsCummat T cum perm
      let okChain := Mcmc.holdsChain cum perm sts startIdx steps us chainObs
      return Json.mkObj [("model", Json.mkObj [("ok", ofInts model)]), ("cum_ok", Json.bool okCum),
        ("exact_cum", ofRatMat ((List.range T.length).map (fun i => Mcmc.cumRow (T.getD i []) (perm.getD i [])))),
        ("holds", Json.bool (valid && okCum && okChain))]

/-- C07: public `propagate_tmat(tmat, nsteps, start)` with injected draws -/
def opTmatPublic (j : Json) : Except String Json := do
  let T ← ratMat? (← field j "T")
  let steps ← nat? (← field j "steps")
  let start ← nat? (← field j "start")
  let us ← rats? (← field j "us")
  let stoch ← bool? (← field j "stochastic")
  let obsJ ← field j "obs"
  match obsJ.getObjVal? "err" with
  | .ok e =>
    let en ← str? e
    return Json.mkObj [("model", Json.mkObj [("err", Json.str (if stoch then "none" else "ValueError"))]),
      ("holds", Json.bool (!stoch && en == "ValueError"))]
  | .error _ =>
    let o ← field obsJ "ok"
    let cum ← ratMat? (← field o "cum")
    let perm ← natMat? (← field o "perm")
    let chainObs ← nats? (← field o "chain")
    let model := Mcmc.chain cum perm start steps us
    let okCum := Mcmc.holdsCumTmat T cum perm
    return Json.mkObj [("model", Json.mkObj [("ok", ofNats model)]), ("cum_ok", Json.bool okCum),
      ("holds", Json.bool (stoch && okCum && chainObs == model))]

def ofBools (l : List Bool) : Json := Json.arr (l.map Json.bool).toArray
def bools? (j : Json) : Except String (List Bool) := do (← arr? j).mapM bool?

/-- smallest distance (as a ratio) of a positive entry of the Wielandt power from the 1e-8 threshold -/
def nearThreshold (m : Linalg.Mat) : Bool :=
  if !Linalg.isTmat m then false else
  let p := Linalg.powFast m (Linalg.wielandtExp m.length)
  p.any (fun r => r.any (fun x => decide (Linalg.atol / 10 < x) && decide (x < Linalg.atol * 10)))

/-- C14: `is_transition_matrix`, `is_ergodic`, `is_fuzzy_ergodic`, `ergodic_mask` on a matrix given as exact rationals -/
def opTests (j : Json) : Except String Json := do
  let m ← ratMat? (← field j "M")
  let tm := Linalg.isTmat m
  let erg := Linalg.isErgodic m
  let fz := Linalg.isFuzzyErgodic m
  let mask := Linalg.ergodicMask m
  let near := nearThreshold m
  let gErg := Linalg.graphErgodic m
  let mh := if tm then Linalg.maskHypothesis m else none
  let model := Json.mkObj [("is_tmat", Json.bool tm), ("is_ergodic", Json.bool erg), ("is_fuzzy", Json.bool fz),
    ("mask", match mask with | some b => ofBools b | none => Json.str "ValueError")]
  let base := [("model", Json.mkObj [("ok", model)]), ("near_threshold", Json.bool near), ("graph_ergodic", Json.bool gErg),
    ("mask_expected", match mh with | some b => ofBools b | none => Json.null)]
  match j.getObjVal? "obs" with
  | .ok o =>
    let oo ← field o "ok"
    let oTm ← bool? (← field oo "is_tmat")
    let oErg ← bool? (← field oo "is_ergodic")
    let oFz ← bool? (← field oo "is_fuzzy")
    let oMaskJ ← field oo "mask"
    let oMask : Option (List Bool) := match bools? oMaskJ with | .ok b => some b | .error _ => none
    -- the property, clause by clause
    let c1 := oErg == gErg                                   -- ergodic ⇔ stochastic ∧ strongly connected ∧ aperiodic
    let c2 := match mh with                                   -- mask = largest closed class(es) under the hypothesis
      | some e => oMask == some e
      | none => true
    let c3 := (!oErg || oFz)                                  -- ergodic ⇒ fuzzy ergodic
    let c4 := tm || (!oErg && !oFz && oMask.isNone)           -- non-stochastic ⇒ neither (and the mask refuses)
    let c5 := oTm == tm
    return Json.mkObj (base ++ [("holds", Json.bool (near || (c1 && c2 && c3 && c4 && c5))),
      ("clauses", ofBools [c1, c2, c3, c4, c5])])
  | .error _ => return Json.mkObj base

/-- C04: `equilibrium_population` -/
def opPeq (j : Json) : Except String Json := do
  let m ← ratMat? (← field j "M")
  let allow ← bool? (← field j "allow")
  let near := nearThreshold m
  let model := Linalg.equilibrium m allow
  let mj := match model with
    | .ok (some v) => Json.mkObj [("ok", ofRats v)]
    | .ok none => Json.mkObj [("ok", Json.null)]
    | .error e => Json.mkObj [("err", Json.str e.name)]
  let base := [("model", mj), ("near_threshold", Json.bool near),
    ("unique_closed", Json.bool (Linalg.uniqueLargestClosed m).isSome)]
  match j.getObjVal? "obs" with
  | .ok o =>
    let obs ← except? rats? o
    return Json.mkObj (base ++ [("holds", Json.bool (near || Linalg.holdsPeq m allow obs))])
  | .error _ => return Json.mkObj base

/-- macro index assignment of `LumpedStateTraj`: macro label at the first occurrence of each microstate -/
def assignment (micro macroT : Trajs) : List Int × List Int × List Nat :=
  let mic := micro.flatten
  let mac := macroT.flatten
  let ms := sortDedup mic
  let As := sortDedup mac
  let lab := ms.map (fun s => mac.getD (mic.idxOf s) 0)
  (ms, As, lab.map (fun l => rank As l))

/-- C03: `LumpedStateTraj(macro, micro, positive).estimate_markov_model(lag)` -/
def opHs (j : Json) : Except String Json := do
  let micro ← trajs? (← field j "micro")
  let macroT ← trajs? (← field j "macro")
  let lag ← nat? (← field j "lag")
  let positive ← bool? (← field j "positive")
  match Msm.estimate micro lag with
  | .error e => return Json.mkObj [("model", Json.mkObj [("err", Json.str e.name)]), ("holds", Json.bool false)]
  | .ok (_, T, _) =>
    let (_, As, assign) := assignment micro macroT
    let erg := Linalg.isErgodic T
    let near := nearThreshold T
    let model : Except Err (Option Linalg.Mat) :=
      if !erg then .error .type else .ok (Linalg.hsProject T assign As.length positive)
    let raw := Linalg.hsProject T assign As.length false
    let mj := match model with
      | .ok (some R) => Json.mkObj [("ok", Json.mkObj [("T", ofRatMat R), ("states", ofInts As)])]
      | .ok none => Json.mkObj [("ok", Json.null)]
      | .error e => Json.mkObj [("err", Json.str e.name)]
    let base := [("model", mj), ("near_threshold", Json.bool near)]
    match j.getObjVal? "obs" with
    | .ok o =>
      let obs ← except? (fun v => do return (← ratMat? (← field v "T"), ← ints? (← field v "states"))) o
      let tol : Rat := (1 : Rat) / 100000000
      let h := match model, obs with
        | .error e, .error e' => e == e'
        | .ok (some R), .ok (oT, oS) =>
          oS == As && oT.length == R.length &&
          (List.zip oT R).all (fun (a, b) => a.length == b.length &&
            (List.zip a b).all (fun (x, y) => decide (Linalg.absQ (x - y) ≤ tol))) &&
          oT.all (fun r => decide (Linalg.absQ (r.sum - 1) ≤ tol)) &&
          (!positive || oT.all (fun r => r.all (fun x => decide (0 ≤ x)))) &&
          -- stationarity of the per-macrostate sums of the micro equilibrium (un-clipped projection only)
          (positive || (match Linalg.stationary T with
            | some pi =>
              let piA := (List.range As.length).map (fun a =>
                ((List.zip pi assign).filterMap (fun (p, s) => if s = a then some p else none)).sum)
              (List.zip (Linalg.vecMat piA oT) piA).all (fun (x, y) => decide (Linalg.absQ (x - y) ≤ tol))
            | none => false)) &&
          -- singleton lumping: the microstate model itself (rows/columns permuted consistently)
          (As.length != T.length || (match raw with
            | some _ =>
              (List.range T.length).all (fun i => (List.range T.length).all (fun k =>
                decide (Linalg.absQ (Linalg.entry oT (assign.getD i 0) (assign.getD k 0) - Linalg.entry T i k) ≤ tol)))
            | none => true))
        | .ok none, _ => true
        | _, _ => false
      return Json.mkObj (base ++ [("holds", Json.bool (near || h))])
    | .error _ => return Json.mkObj base

/-- C10: requirement / code classification per eigenvalue and the entry oracle -/
def opIts (j : Json) : Except String Json := do
  let rows ← arr? (← field j "rows")
  let mut allOk := true
  let mut kinds : List Json := []
  for row in rows do
    let evs ← arr? (← field row "eigs")
    let obs ← arr? (← field row "obs")
    let refs ← arr? (← field row "refs")
    let mut ks : List Json := []
    for (e, (o, r)) in evs.zip (obs.zip refs) do
      let re ← rat? (← field e "re")
      let im ← rat? (← field e "im")
      let ov : Option Rat ← (if o.isNull then pure none else do return some (← rat? o))
      let rv : Option Rat ← (if r.isNull then pure none else do return some (← rat? r))
      let req := Timescales.required re im
      let code := Timescales.codeKind re im
      let ok := Timescales.entryOk req ov rv
      if !ok then allOk := false
      ks := ks ++ [Json.mkObj [("required", Json.str (reprStr req)), ("code", Json.str (reprStr code)), ("ok", Json.bool ok)]]
    if obs.length != evs.length then allOk := false
    kinds := kinds ++ [Json.arr ks.toArray]
  return Json.mkObj [("model", Json.mkObj [("ok", Json.arr kinds.toArray)]), ("holds", Json.bool allOk)]

/-- C20: Gaussian filter with given weights / running mean, exact -/
def opFilter (j : Json) : Except String Json := do
  let kind ← str? (← field j "kind")
  let x ← ratMat? (← field j "x")
  let obs ← ratMat? (← field j "obs")
  let tol ← rat? (← field j "tol")
  let absx := x.map (fun r => r.map Filter.absQ)
  if kind == "gauss" then
    let w ← rats? (← field j "w")
    let model := Filter.filtTable w x
    let scale := Filter.filtTable w absx
    return Json.mkObj [("model", Json.mkObj [("ok", ofRatMat model)]), ("holds", Json.bool (Filter.closeLocal tol model scale obs))]
  else
    let w ← nat? (← field j "window")
    let col := Filter.column x 0
    let model := (Filter.runningMean col w).map (fun v => [v])
    let doc := (Filter.runningMeanDoc col w).map (fun v => [v])
    let scale := (Filter.runningMean (Filter.column absx 0) w).map (fun v => [v])
    return Json.mkObj [("model", Json.mkObj [("ok", ofRatMat model)]),
      ("holds", Json.bool (Filter.closeLocal tol doc scale obs && (w != 1 || x == obs)))]

def closeVec (tol : Rat) (a b : List Rat) : Bool :=
  a.length == b.length && (List.zip a b).all (fun (x, y) => decide (Linalg.absQ (x - y) ≤ tol))

/-- C09: Chapman–Kolmogorov test.  Plain set: `trajs`; lumped: `micro` + `trajs` (= macro trajectories). -/
def opCk (j : Json) : Except String Json := do
  let ts ← trajs? (← field j "trajs")
  let lumped := (j.getObjVal? "micro").toOption.isSome
  let micro ← (if lumped then do trajs? (← field j "micro") else pure [])
  let positive ← (if lumped then do bool? (← field j "positive") else pure false)
  let tmax ← nat? (← field j "tmax")
  let lags ← nats? (← field j "lags")
  let obs ← field (← field j "obs") "ok"
  let sts := states ts
  let oStates ← ints? (← field obs "states")
  let mut ok := oStates == sts
  let mut why : List String := if ok then [] else ["states"]
  -- model matrix at a lag
  let modelAt (lag : Nat) : Option (Linalg.Mat × Bool) :=
    if lumped then
      match Msm.estimate micro lag with
      | .ok (_, T, _) =>
        let (_, As, assign) := assignment micro ts
        if Linalg.isErgodic T then (Linalg.hsProject T assign As.length positive).map (fun R => (R, nearThreshold T)) else none
      | .error _ => none
    else
      match Msm.estimate ts lag with
      | .ok (_, T, _) => some (T, false)
      | .error _ => none
  let lagObs ← arr? (← field obs "lags")
  if lagObs.length != lags.length then ok := false; why := why ++ ["nlags"]
  for (lag, lo) in (lags.mergeSort (· ≤ ·)).zip lagObs do
    let oLag ← nat? (← field lo "lag")
    let oTime ← nats? (← field lo "time")
    let oCk ← ratMat? (← field lo "ck")
    let oErg ← bool? (← field lo "is_ergodic")
    let oFz ← bool? (← field lo "is_fuzzy")
    if oLag != lag then ok := false; why := why ++ [s!"lagkey{lag}"]
    if oTime != Timescales.ckTimes lag tmax then ok := false; why := why ++ [s!"times{lag}"]
    match modelAt lag with
    | none => pure ()     -- lumped estimate refused / not computable exactly: nothing to compare
    | some (T, nearT) =>
      let curves := Timescales.ckCurves T lag tmax
      let tol : Rat := if lumped then (1 : Rat) / 1000000 else (1 : Rat) / 1000000000
      if !(oCk.length == curves.length && (List.zip oCk curves).all (fun (a, b) => closeVec tol a b)) then
        ok := false; why := why ++ [s!"curves{lag}"]
      let near := nearT || nearThreshold T || lumped
      if !near && (oErg != Linalg.isErgodic T || oFz != Linalg.isFuzzyErgodic T) then
        ok := false; why := why ++ [s!"flags{lag}"]
  -- reference
  let md ← field obs "md"
  let mTime ← nats? (← field md "time")
  let mCk ← ratMat? (← field md "ck")
  let mErg ← bools? (← field md "is_ergodic")
  let mFz ← bools? (← field md "is_fuzzy")
  let tmin := (lags.foldl min (lags.headD 0))
  if !Timescales.refGridOk mTime tmin tmax then ok := false; why := why ++ ["refgrid"]
  let mut k := 0
  for t in mTime do
    match Msm.estimate ts t with
    | .ok (_, T, _) =>
      let diagT := (List.range T.length).map (fun s => Linalg.entry T s s)
      let col := mCk.map (fun curve => curve.getD k 0)
      if !closeVec ((1 : Rat) / 1000000000000) col diagT then ok := false; why := why ++ [s!"ref{t}"]
      if !nearThreshold T && (mErg.getD k false != Linalg.isErgodic T || mFz.getD k false != Linalg.isFuzzyErgodic T) then
        ok := false; why := why ++ [s!"refflags{t}"]
    | .error _ => ok := false
    k := k + 1
  return Json.mkObj [("model", Json.mkObj [("ok", Json.arr (why.map Json.str).toArray)]), ("holds", Json.bool ok)]

/-- C08: `msm.estimate_paths` = md pathway extraction applied to the realised labelled chain -/
def opMsmPaths (j : Json) : Except String Json := do
  let cum ← ratMat? (← field j "cum")
  let perm ← natMat? (← field j "perm")
  let start ← nat? (← field j "start")
  let steps ← nat? (← field j "steps")
  let us ← rats? (← field j "us")
  let sts ← ints? (← field j "states")
  let S ← ints? (← field j "S")
  let F ← ints? (← field j "F")
  let chain := (Mcmc.chain cum perm start steps us).map (fun (i : Nat) => labelOf sts (i : Int))
  let model := Events.mdPaths [chain] S F
  return Json.mkObj [("model", ofExcept ofPathTuples model), ("chain", ofInts chain), ("cum_ok", Json.bool (cumJudge j cum perm)),
    ("holds", Json.bool true)]

def acc? (j : Json) : Except String Heap.Acc := do
  let n ← str? (← field j "acc")
  match n with
  | "trajs" => return .trajs | "index_trajs" => return .indexTrajs | "states" => return .states
  | "trajs_flatten" => return .trajsFlatten | "index_trajs_flatten" => return .indexTrajsFlatten
  | "getitem" => return .getitem (← nat? (← field j "k"))
  | "microstate_trajs" => return .microTrajs | "microstate_index_trajs" => return .microIndexTrajs
  | "microstates" => return .microstates | "state_assignment" => return .stateAssignment
  | _ => throw s!"bad accessor {n}"

/-- C02/C18: run an op sequence on the heap model.  Addresses in `write` ops refer to the model's own allocation order:
`{"arg": i}` = i-th constructor argument array, `{"ret": [n, k]}` = k-th array returned by the n-th access op. -/
def opHeapRun (j : Json) : Except String Json := do
  let micro ← trajs? (← field j "args")
  let lumped := (j.getObjVal? "macro").toOption.isSome
  let macroT ← (if lumped then do trajs? (← field j "macro") else pure [])
  let ops ← arr? (← field j "ops")
  -- allocate the argument arrays
  let mut s : Heap.State := { heap := [] }
  let mut argAddrs : List Nat := []
  let mut macroAddrs : List Nat := []
  for t in micro do
    let (s', as) := s.allocMany [t]
    s := { s' with known := s'.known ++ as }
    argAddrs := argAddrs ++ as
  for t in macroT do
    let (s', as) := s.allocMany [t]
    s := { s' with known := s'.known ++ as }
    macroAddrs := macroAddrs ++ as
  s := (Heap.step s (if lumped then .constructLumped macroAddrs argAddrs else .construct argAddrs)).1
  let mut outs : List Json := []
  let mut rets : List (List Nat) := []       -- addresses returned by each access op
  for o in ops do
    let kind ← str? (← field o "op")
    if kind == "access" then
      let a ← acc? o
      let before := s.heap.length
      let (s', vals) := Heap.step s (.access a)
      s := s'
      rets := rets ++ [(List.range vals.length).map (· + before)]
      outs := outs ++ [ofTrajs vals]
    else if kind == "write" then
      let pos ← nat? (← field o "pos")
      let v ← int? (← field o "val")
      let tgt ← field o "target"
      -- targets and positions are resolved modulo the actual sizes, exactly as the harness does on the real arrays
      let held := argAddrs ++ macroAddrs
      let addr? : Option Nat ← (match tgt.getObjVal? "arg" with
        | .ok i => do
          let i ← nat? i
          pure (if held.isEmpty then none else some (held.getD (i % held.length) 0))
        | .error _ => do
          let r ← nats? (← field tgt "ret")
          let lst := rets.getD (r.getD 0 0) []
          pure (if r.getD 0 0 ≥ rets.length || lst.isEmpty then none else some (lst.getD (r.getD 1 0 % lst.length) 0)))
      match addr? with
      | none => pure ()
      | some addr =>
        let arr := s.read addr
        if !arr.isEmpty then
          s := (Heap.step s (.write addr (pos % arr.length) v)).1
      outs := outs ++ [Json.null]
    else
      s := (Heap.step s .reconstruct).1
      outs := outs ++ [Json.null]
  let rep := Heap.report s
  let repJ := match rep with
    | some r => Json.mkObj [("index_trajs", ofTrajs r.idxTrajs), ("states", ofInts r.sts)]
    | none => Json.null
  return Json.mkObj [("model", Json.mkObj [("ok", Json.mkObj [("outs", Json.arr outs.toArray), ("report", repJ)])]), ("holds", Json.bool true)]

def strs? (j : Json) : Except String (List String) := do (← arr? j).mapM str?
def optNats? (j : Json) (k : String) : Except String (Option (List Nat)) :=
  match j.getObjVal? k with
  | .ok v => if v.isNull then pure none else do return some (← nats? v)
  | .error _ => pure none
def optNat? (j : Json) (k : String) : Except String (Option Nat) :=
  match j.getObjVal? k with
  | .ok v => if v.isNull then pure none else do return some (← nat? v)
  | .error _ => pure none

/-- C16: what `savetxt` writes -/
def opIoWrite (j : Json) : Except String Json := do
  let hdr ← str? (← field j "hdr")
  let fmt ← str? (← field j "fmt")
  let tbl ← trajs? (← field j "table")
  let lines := TextIO.writeTable hdr.toList (if fmt == "f0" then .f0 else .f5) tbl
  return Json.mkObj [("model", Json.mkObj [("ok", Json.arr (lines.map (fun l => Json.str (String.ofList l))).toArray)]), ("holds", Json.bool true)]

/-- C16: what `opentxt` / `opentxt_limits` / `openmicrostates` read -/
def opIoRead (j : Json) : Except String Json := do
  let lines ← strs? (← field j "lines")
  let cols ← optNats? j "usecols"
  let nrows ← optNat? j "nrows"
  let limits ← optNats? j "limits"
  let dt := match (j.getObjVal? "dtype").toOption.bind (fun v => v.getStr?.toOption) with
    | some "int8" => some TextIO.IntDtype.i8 | some "int16" => some .i16 | some "int32" => some .i32 | some "int64" => some .i64
    | _ => none
  let dtName := match TextIO.microDtype dt with | .i8 => "int8" | .i16 => "int16" | .i32 => "int32" | .i64 => "int64"
  match TextIO.readTable (lines.map String.toList) with
  | none => return Json.mkObj [("model", Json.mkObj [("err", "ParseError")]), ("holds", Json.bool true)]
  | some tbl0 =>
    let tbl1 := match nrows with | some n => tbl0.take n | none => tbl0
    let tbl := match cols with | some c => TextIO.selectColsCode c tbl1 | none => tbl1
    let spec := match cols with | some c => TextIO.selectCols c tbl1 | none => tbl1
    match limits with
    | none => return Json.mkObj [("model", Json.mkObj [("ok", Json.mkObj [("table", ofTrajs tbl), ("dtype", Json.str dtName)])]),
        ("holds", Json.bool (tbl == spec))]
    | some ls =>
      match TextIO.splitLimits ls tbl with
      | none => return Json.mkObj [("model", Json.mkObj [("err", "ValueError")]), ("holds", Json.bool true)]
      | some pieces => return Json.mkObj [("model", Json.mkObj [("ok", Json.mkObj [("pieces", ofList ofTrajs pieces), ("dtype", Json.str dtName)])]),
          ("holds", Json.bool (tbl == spec))]

/-- C19: chunking of the figure commands -/
def opChunks (j : Json) : Except String Json := do
  let l ← ints? (← field j "list")
  let c ← nat? (← field j "c")
  return Json.mkObj [("model", Json.mkObj [("ok", ofTrajs (TextIO.chunks l c))]), ("holds", Json.bool true)]

/-- C19: the dynamical-coring command as file plumbing: read the state file, split by limits, core each piece iteratively,
write one value per line.  Returns the expected DATA values (header lines are not compared). -/
def opCliCoring (j : Json) : Except String Json := do
  let lines ← strs? (← field j "lines")
  let limits ← optNats? j "limits"
  let τ ← nat? (← field j "tau")
  match TextIO.readTable (lines.map String.toList) with
  | none => return Json.mkObj [("model", Json.mkObj [("err", "ParseError")]), ("holds", Json.bool true)]
  | some tbl =>
    let col := tbl.map (fun r => r.getD 0 0)
    match TextIO.splitLimits (limits.getD [col.length]) col with
    | none => return Json.mkObj [("model", Json.mkObj [("err", "ValueError")]), ("holds", Json.bool true)]
    | some pieces =>
      match Coring.refSet pieces (τ : Int) true with
      | .error e => return Json.mkObj [("model", Json.mkObj [("err", Json.str e.name)]), ("holds", Json.bool true)]
      | .ok cored => return Json.mkObj [("model", Json.mkObj [("ok", ofInts cored.flatten)]), ("holds", Json.bool true)]

/-- C12: small deterministic utilities (`row_normalize_matrix`, `matrix_power`, `find_first`) -/
def opUtils (j : Json) : Except String Json := do
  let kind ← str? (← field j "kind")
  match kind with
  | "rownorm" =>
    let m ← ratMat? (← field j "M")
    return Json.mkObj [("model", Json.mkObj [("ok", ofRatMat (Msm.rowNormalizeQ m))]), ("holds", Json.bool true)]
  | "matpow" =>
    let m ← ratMat? (← field j "M")
    let k ← nat? (← field j "k")
    return Json.mkObj [("model", Json.mkObj [("ok", ofRatMat (Linalg.powFast m k))]), ("holds", Json.bool true)]
  | "find_first" =>
    let l ← ints? (← field j "list")
    let v ← int? (← field j "val")
    let r : Int := if l.contains v then (l.idxOf v : Nat) else -1
    return Json.mkObj [("model", Json.mkObj [("ok", ofInt r)]), ("holds", Json.bool true)]
  | _ => throw "bad utils kind"

def dispatch (j : Json) : Except String Json := do
  let op ← str? (← field j "op")
  match op with
  | "ping" => return Json.mkObj [("pong", Json.bool true)]
  | "coring" => opCoring j
  | "coring_kernel" => opCoringKernel j
  | "estimate" => opEstimate j
  | "md_wt" => opMdWt j
  | "md_paths" => opMdPaths j
  | "cummat_judge" => opCummatJudge j
  | "tmat_cum_judge" => opTmatCumJudge j
  | "chain" => opChain j
  | "mcmc_public" => opMcmcPublic j
  | "tmat_public" => opTmatPublic j
  | "msm_times" => opMsmTimes j
  | "msm_paths" => opMsmPaths j
  | "compare" => opCompare j
  | "shift" => opShift j
  | "rename" => opRename j
  | "unique" => opUnique j
  | "tests" => opTests j
  | "peq" => opPeq j
  | "hs" => opHs j
  | "its" => opIts j
  | "filter" => opFilter j
  | "ck" => opCk j
  | "heap_run" => opHeapRun j
  | "io_write" => opIoWrite j
  | "io_read" => opIoRead j
  | "chunks" => opChunks j
  | "cli_coring" => opCliCoring j
  | "utils" => opUtils j
  | _ => throw s!"unknown op {op}"

end MsmVerif.Driver
