"""C02 — StateTraj / LumpedStateTraj are faithful, isolated views of the input (op-sequence differential on a heap model)."""
import numpy as np

import core
import gen

PID = 'C02'
ANCHORS = [('src/msmhelper/statetraj.py', ['StateTraj.__new__', 'StateTraj.__init__', 'StateTraj.states', 'StateTraj.trajs', 'StateTraj.trajs_flatten',
                                           'StateTraj.index_trajs', 'StateTraj.index_trajs_flatten', 'StateTraj.__iter__', 'StateTraj.__getitem__',
                                           'StateTraj.nframes', 'StateTraj.ntrajs', 'StateTraj.nstates',
                                           'LumpedStateTraj.__new__', 'LumpedStateTraj.__init__', 'LumpedStateTraj.trajs', 'LumpedStateTraj.index_trajs',
                                           'LumpedStateTraj.states', 'LumpedStateTraj.microstate_trajs', 'LumpedStateTraj.microstate_index_trajs',
                                           'LumpedStateTraj.microstates', 'LumpedStateTraj.state_assignment']),
           ('src/msmhelper/utils/_utils.py', ['format_state_traj', 'shift_data'])]
RULE = ('random histories of 3-25 ops (quick) / up to 120 (thorough) on real StateTraj / LumpedStateTraj objects built from 1-4 trajectories in every '
        'alphabet class and several container forms (list of arrays of the common dtype, mixed dtypes, 2-d array, lists; lumped objects also with '
        'micro data in the narrowest signed / unsigned dtype and macro labels outside that dtype): accessor calls (trajs, '
        'index_trajs, states, flattened forms, iteration, indexing with int and numpy ints, microstate_*, state_assignment, counters, repr), in-place '
        'writes into any array returned so far and into the constructor arguments, model estimation with the returned matrix / state array overwritten in '
        'place, re-construction from the object. After every op the value returned '
        'is compared with the heap model; finally the full report. Non-trivial = history contains >=1 write before a later read; distinct by history.')
RELATION = 'trace of returned values of the real object under the op sequence = trace of Heap.run on the heap model (constructor copies, accessors allocate fresh)'
TRUSTED = ['numpy aliasing itself is executed, not modelled; the caller is assumed to reach private arrays only through public accessors (also probed with np.shares_memory)']
PLAIN_ACC = ['trajs', 'index_trajs', 'states', 'trajs_flatten', 'index_trajs_flatten', 'getitem', 'iter', 'counters', 'repr']
LUMPED_ACC = PLAIN_ACC + ['microstate_trajs', 'microstate_index_trajs', 'microstates', 'state_assignment']


def _mk(args, macro, ops, form, src='rand'):
    return {'op': 'heap_run', 'args': args, 'macro': macro, 'ops': ops, 'form': form, 'src': src}


def gen_ops(rng, nargs, lens, lumped, nops, labels):
    ops, nacc = [], 0
    ret_sizes = []          # per access op: list of lengths of the returned arrays (filled approximately; positions are clipped at run time)
    for _ in range(nops):
        r = rng.random()
        if r < 0.5 or not ops:
            a = rng.choice(LUMPED_ACC if lumped else PLAIN_ACC)
            o = {'op': 'access', 'acc': a}
            if a == 'getitem':
                o['k'] = rng.randrange(len(lens))
                o['npint'] = rng.random() < 0.5
            ops.append(o)
            nacc += 1
        elif r < 0.56 and not lumped:
            # estimate a model from the object and overwrite the returned matrix and state array in place (invisible to the heap
            # model: the arrays an analysis returns are fresh, so nothing the object reports may change)
            ops.append({'op': 'estimate_overwrite', 'lag': rng.randint(1, 3)})
        elif r < 0.93:
            if rng.random() < 0.4 or nacc == 0:
                tgt = {'arg': rng.randrange(nargs)}
            else:
                tgt = {'ret': [rng.randrange(nacc), rng.randrange(4)]}
            ops.append({'op': 'write', 'target': tgt, 'pos': rng.randrange(60), 'val': rng.choice(labels + [labels[0] + 1000, -7])})
        else:
            ops.append({'op': 'reconstruct'})
    return ops


def cases(tier, rng, boost=1):
    # corpus: write into a 0-based argument of the common dtype, then read
    yield _mk([[0, 1, 2, 1, 0], [2, 2, 1]], None,
              [{'op': 'write', 'target': {'arg': 0}, 'pos': 1, 'val': 2}, {'op': 'access', 'acc': 'trajs'},
               {'op': 'access', 'acc': 'index_trajs_flatten'}], 'list_of_arrays', src='corpus')
    yield _mk([[0, 1, 2, 3, 2, 1, 0]], [[1, 1, 2, 2, 2, 1, 1]],
              [{'op': 'access', 'acc': 'getitem', 'k': 0, 'npint': False}, {'op': 'access', 'acc': 'getitem', 'k': 0, 'npint': True},
               {'op': 'access', 'acc': 'trajs'}], 'list_of_arrays', src='corpus')
    yield _mk([[0, 1, 2, 1, 0, 2, 2, 1]], [[300, 300, -1, 300, 300, -1, -1, 300]],
              [{'op': 'access', 'acc': 'trajs'}, {'op': 'access', 'acc': 'states'}, {'op': 'access', 'acc': 'state_assignment'},
               {'op': 'access', 'acc': 'trajs_flatten'}], 'narrow_signed', src='corpus')
    yield _mk([[0, 1, 2, 1, 0, 2, 2, 1]], [[300, 300, -1, 300, 300, -1, -1, 300]],
              [{'op': 'access', 'acc': 'trajs'}, {'op': 'access', 'acc': 'getitem', 'k': 0, 'npint': False}], 'narrow_unsigned', src='corpus')
    yield _mk([list(range(100)) * 2, list(range(200)) + list(range(199, -1, -1))], None,
              [{'op': 'access', 'acc': 'trajs'}, {'op': 'access', 'acc': 'index_trajs'}, {'op': 'access', 'acc': 'states'}], 'first_narrow', src='corpus')
    n = {'quick': 700, 'thorough': 8000, 'search': 2000}[tier] * boost
    for _ in range(n):
        ns = rng.randint(1, 6)
        labs, cls = gen.alphabet(rng, ns)
        idx = gen.random_trajs(rng, ns, rng.randint(1, 4), 1, 12, sticky=0.4, distinct_lengths=rng.random() < 0.7)
        args = gen.relabel(idx, labs)
        lumped = rng.random() < 0.35 and ns >= 2
        macro = None
        if lumped:
            m = rng.randint(1, ns)
            f = [rng.randrange(m) for _ in range(ns)]
            alabs, _ = gen.alphabet(rng, m)
            macro = [[alabs[f[i]] for i in t] for t in idx]
        form = rng.choice(['list_of_arrays', 'list_of_arrays', 'mixed_arrays', 'array2d', 'list_of_lists'])
        if lumped and rng.random() < 0.35:
            # micro trajectories in the narrowest dtype, macro labels that do not fit into it (or negative ones next to unsigned micro data)
            wide = rng.sample([300, 1000, 40000, -1, -300, 129, 255, 256], m)
            macro = [[wide[f[i]] for i in t] for t in idx]
            form = rng.choice(['narrow_signed', 'narrow_unsigned']) if min(x for t in args for x in t) >= 0 else 'narrow_signed'
        nops = rng.randint(3, 25 if tier == 'quick' else 120)
        nargs = len(args) + (len(macro) if macro else 0)
        labels = sorted({x for t in args for x in t})
        yield _mk(args, macro, gen_ops(rng, nargs, [len(t) for t in args], lumped, nops, labels), form)


def _arrays(trajs, form, rng):
    """constructor argument + the list of writable arrays the caller holds (one per trajectory)"""
    if form == 'array2d' and len(set(map(len, trajs))) == 1:
        a = np.array(trajs, dtype=np.int64)
        return a, [a[i] for i in range(len(trajs))]
    if form == 'list_of_lists':
        # python lists: the "arrays" the caller holds are the lists themselves
        ls = [list(t) for t in trajs]
        return ls, ls
    if form == 'mixed_arrays':
        arrs = gen.as_arrays(trajs, rng, mixed=True)
        return arrs, arrs
    if form in ('narrow_signed', 'narrow_unsigned'):
        if form == 'narrow_unsigned' and all(x >= 0 for t in trajs for x in t):
            hi = max(x for t in trajs for x in t)
            dt = [d for d in (np.uint8, np.uint16, np.uint32) if hi <= np.iinfo(d).max][0]
        else:
            dt = gen.min_dtype(trajs)
        arrs = [np.array(t, dtype=dt) for t in trajs]
        return arrs, arrs
    if form == 'first_narrow':
        arrs = [np.array(t, dtype=(gen.min_dtype([t]) if i == 0 else np.int64)) for i, t in enumerate(trajs)]
        return arrs, arrs
    arrs = [np.array(t, dtype=np.int64) for t in trajs]
    return arrs, arrs


def real(case):
    import msmhelper as mh
    rng = core.Rng(hash(str(case['args'])) & 0xffff)
    lumped = case['macro'] is not None

    def run():
        arg, held = _arrays(case['args'], case['form'], rng)
        if lumped:
            marg, mheld = _arrays(case['macro'], 'list_of_arrays', rng)
            obj = mh.LumpedStateTraj(marg, arg)
            held = held + mheld
        else:
            obj = mh.StateTraj(arg)
        rets, outs = [], []
        for o in case['ops']:
            if o['op'] == 'access':
                a = o['acc']
                if a == 'getitem':
                    k = np.int64(o['k']) if o.get('npint') else o['k']
                    vals = [obj[k]]
                elif a == 'iter':
                    vals = list(iter(obj))
                elif a == 'counters':
                    vals = [np.array([obj.ntrajs, obj.nframes, obj.nstates, len(obj)])]
                elif a == 'repr':
                    repr(obj), str(obj)
                    vals = []
                else:
                    v = getattr(obj, a)
                    vals = list(v) if isinstance(v, list) else [v]
                for v in vals:
                    if not isinstance(v, np.ndarray):
                        raise AssertionError('accessor %s returned %s' % (a, type(v)))
                rets.append(vals)
                outs.append({'acc': a, 'vals': [[int(x) for x in np.asarray(v).reshape(-1)] for v in vals]})
            elif o['op'] == 'estimate_overwrite':
                try:
                    T_, st_ = obj.estimate_markov_model(o['lag'])
                    np.asarray(T_)[...] = -1.0
                    st_ += 1000
                except Exception:  # noqa
                    pass
                outs.append(None)
            elif o['op'] == 'write':
                t = o['target']
                if 'arg' in t:
                    arr = held[t['arg'] % len(held)]
                else:
                    n, k = t['ret']
                    acc_rets = [r for r in rets]
                    if n >= len(acc_rets) or not acc_rets[n]:
                        outs.append(None)
                        continue
                    arr = acc_rets[n][k % len(acc_rets[n])]
                if len(arr) == 0 or (isinstance(arr, np.ndarray) and arr.ndim != 1):
                    outs.append(None)
                    continue
                arr[o['pos'] % len(arr)] = o['val'] if not isinstance(arr, np.ndarray) else np.asarray(o['val']).astype(arr.dtype)
                outs.append(None)
            else:
                same = mh.LumpedStateTraj(obj) if lumped else mh.StateTraj(obj)
                if same is not obj:
                    raise AssertionError('constructing from an existing object does not return that object')
                outs.append(None)
        return {'outs': outs, 'final_index_trajs': [[int(x) for x in t] for t in (obj.microstate_index_trajs if lumped else obj.index_trajs)],
                'final_states': [int(x) for x in (obj.microstates if lumped else obj.states)]}
    out = core.call(run)
    out.pop('msg', None)
    return out


def _model_ops(case):
    """translate the case ops into model ops; iter → trajs; counters / repr are value-only and handled in `agree`"""
    mops = []
    nargs = len(case['args']) + (len(case['macro']) if case['macro'] else 0)
    for o in case['ops']:
        if o['op'] == 'access':
            a = o['acc']
            if a in ('counters', 'repr'):
                mops.append({'op': 'access', 'acc': 'states'})      # placeholder keeping the access numbering aligned
            else:
                mops.append({'op': 'access', 'acc': 'trajs' if a == 'iter' else a, 'k': o.get('k', 0)})
        elif o['op'] == 'write':
            mops.append(dict(o))
        else:
            mops.append({'op': 'reconstruct'})
    return mops, nargs


def request(case, obs):
    # write positions/targets are resolved modulo the actual sizes: replay them on the model with the same resolution
    mops, nargs = _model_ops(case)
    args = [list(t) for t in case['args']]
    held_lens = [len(t) for t in case['args']] + ([len(t) for t in case['macro']] if case['macro'] else [])
    ret_lens = []
    fixed = []
    outs = obs.get('ok', {}).get('outs', []) if 'ok' in obs else []
    for i, o in enumerate(mops):
        if o['op'] == 'access':
            real_o = outs[i] if i < len(outs) and outs[i] else {'vals': []}
            ret_lens.append(None)
            fixed.append(o)
        elif o['op'] == 'write':
            fixed.append(o)
        else:
            fixed.append(o)
    r = {'op': 'heap_run', 'args': case['args'], 'ops': fixed, 'resolve_mod': True}
    if case['macro'] is not None:
        r['macro'] = case['macro']
    return r


def agree(case, obs, reply):
    if 'err' in obs:
        return False
    mo = reply['model']['ok']
    lumped = case['macro'] is not None
    nstates = len({x for t in (case['macro'] if lumped else case['args']) for x in t})
    for o, real_o, model_o in zip(case['ops'], obs['ok']['outs'], mo['outs']):
        if o['op'] != 'access':
            continue
        if o['acc'] == 'counters':
            exp = [len(case['args']), sum(len(t) for t in case['args']), nstates, len(case['args'])]
            if real_o['vals'] != [exp]:
                return False
        elif o['acc'] == 'repr':
            continue
        elif real_o['vals'] != model_o:
            return False
    rep = mo['report']
    return rep is not None and rep['index_trajs'] == obs['ok']['final_index_trajs'] and rep['states'] == obs['ok']['final_states']


def holds(case, obs, reply):
    return agree(case, obs, reply)


def nontrivial(case, obs, reply):
    seen_write = False
    for o in case['ops']:
        if o['op'] == 'write':
            seen_write = True
        elif o['op'] == 'access' and seen_write:
            return True
    return False


def key(case):
    return [case['args'], case['macro'], case['ops'], case['form']]


def classify(case, obs, reply):
    return '%s/%s/%s' % ('lumped' if case['macro'] is not None else 'plain', case['form'], obs.get('err', 'ok'))


def known_match(k, case, obs, reply):
    return False


def shrink(case):
    ops = case['ops']
    for i in range(len(ops)):
        yield dict(case, ops=ops[:i] + ops[i + 1:])
