/-
Props/C07.lean — property theorems for C07 (Markov-chain propagation samples exactly the model).
Helper lemmas live in Lemmas/Mcmc.lean.

Model of the code: `Mcmc.step` (`_propagate_MCMC_step`: linear search for the first breakpoint strictly above the
draw, `argmax` fallback), `Mcmc.chainFrom`/`Mcmc.chain` (`_propagate_MCMC`), `Mcmc.cumRow` (`_get_cummat` for one
row, in exact rational arithmetic, including the forcing to 1), `Mcmc.cumsum` with the identity permutation
(`propagate_tmat`).  `Mcmc.intervalOf cum k = (c_{k-1}, c_k)` (`c_{-1} = 0`) is the half-open interval `[c_{k-1}, c_k)`
of draws that belongs to column `k`.

Which statements are exact-arithmetic facts: everything about `cumRow`/`cumsum` (sections 2, 3, 7) speaks about the
cumulative row computed with exact rationals.  The statements about `step` and `chain` (sections 1, 4, 5, 6) hold for
ANY non-decreasing breakpoints, in particular for the float breakpoints of the real code read as exact rationals;
`robust` and `holdsCummat_interval` connect the two (float breakpoints within `ε` of the exact ones give interval
lengths within `2ε` of `T_ij`).
-/
import MsmVerif.Lemmas.Mcmc

namespace MsmVerif.C07
open MsmVerif MsmVerif.Msm MsmVerif.Mcmc

/-! ### 1. `step` is the inverse CDF: the preimage of position `k` is exactly `[c_{k-1}, c_k)` -/

/-- For non-decreasing breakpoints, every draw in `[c_{k-1}, c_k)` is mapped to the state stored at position `k`.
(No assumption on the sign of `u` or on the last breakpoint is needed for this direction.) -/
theorem step_interval (cum : List Rat) (perm : List Nat) (u : Rat)
    (hmono : cum.Pairwise (· ≤ ·)) (hlen : perm.length = cum.length)
    (k : Nat) (hk : k < cum.length)
    (hlo : (intervalOf cum k).1 ≤ u) (hhi : u < (intervalOf cum k).2) :
    step cum perm u = perm.getD k 0 := by
  obtain ⟨h1, h2⟩ := first_of_interval hmono hk hlo hhi
  rw [step_of_first cum perm u hlen k hk h1 h2, List.getD_eq_getElem?_getD,
    List.getElem?_eq_getElem (by omega)]
  rfl

/-- Every draw `0 ≤ u < last breakpoint` lands in some position `k`: the search succeeds there, returns `perm[k]`,
and `u` lies in `[c_{k-1}, c_k)`.  (Holds for arbitrary breakpoints, monotone or not.) -/
theorem step_lands (cum : List Rat) (perm : List Nat) (u : Rat) (hlen : perm.length = cum.length)
    (h0 : 0 ≤ u) (hlast : u < cum.getLastD 0) :
    ∃ k, k < cum.length ∧ step cum perm u = perm.getD k 0 ∧
      (intervalOf cum k).1 ≤ u ∧ u < (intervalOf cum k).2 := by
  obtain ⟨k, hk, h1, h2⟩ := exists_first cum u (exists_gt_of_lt_last cum u h0 hlast)
  refine ⟨k, hk, ?_, interval_of_first h0 hk h1 h2⟩
  rw [step_of_first cum perm u hlen k hk h1 h2, List.getD_eq_getElem?_getD,
    List.getElem?_eq_getElem (by omega)]
  rfl

/-- Converse of `step_interval`: if the states of the row are distinct and `step` returns the state at position `k`,
then the draw was in `[c_{k-1}, c_k)`. -/
theorem step_interval_conv (cum : List Rat) (perm : List Nat) (u : Rat)
    (hlen : perm.length = cum.length) (hnd : perm.Nodup) (h0 : 0 ≤ u) (hlast : u < cum.getLastD 0)
    (k : Nat) (hk : k < cum.length) (h : step cum perm u = perm.getD k 0) :
    (intervalOf cum k).1 ≤ u ∧ u < (intervalOf cum k).2 := by
  obtain ⟨k', hk', hs, hint⟩ := step_lands cum perm u hlen h0 hlast
  rw [hs] at h
  have hkk : k' = k := (List.getD_inj (by omega) (by omega) hnd).mp h
  subst hkk
  exact hint

/-- The preimage of position `k` under `step` is exactly the interval `[c_{k-1}, c_k)`. -/
theorem step_interval_iff (cum : List Rat) (perm : List Nat) (u : Rat)
    (hmono : cum.Pairwise (· ≤ ·)) (hlen : perm.length = cum.length) (hnd : perm.Nodup)
    (h0 : 0 ≤ u) (hlast : u < cum.getLastD 0) (k : Nat) (hk : k < cum.length) :
    step cum perm u = perm.getD k 0 ↔ (intervalOf cum k).1 ≤ u ∧ u < (intervalOf cum k).2 :=
  ⟨step_interval_conv cum perm u hlen hnd h0 hlast k hk,
   fun h => step_interval cum perm u hmono hlen k hk h.1 h.2⟩

/-- The intervals of a non-decreasing row are pairwise disjoint: a draw lies in at most one of them. -/
theorem interval_unique (cum : List Rat) (u : Rat) (hmono : cum.Pairwise (· ≤ ·))
    (k k' : Nat) (hk : k < cum.length) (hk' : k' < cum.length)
    (h : (intervalOf cum k).1 ≤ u ∧ u < (intervalOf cum k).2)
    (h' : (intervalOf cum k').1 ≤ u ∧ u < (intervalOf cum k').2) : k = k' := by
  obtain ⟨a1, a2⟩ := first_of_interval hmono hk h.1 h.2
  obtain ⟨b1, b2⟩ := first_of_interval hmono hk' h'.1 h'.2
  exact first_unique hk hk' a1 a2 b1 b2

example : ([1/2, 5/6, 1, 1] : List Rat).Pairwise (· ≤ ·) ∧ ([0, 2, 3, 1] : List Nat).Nodup ∧
    (intervalOf [1/2, 5/6, 1, 1] 1).1 ≤ (2/3 : Rat) ∧ (2/3 : Rat) < (intervalOf [1/2, 5/6, 1, 1] 1).2 ∧
    step [1/2, 5/6, 1, 1] [0, 2, 3, 1] (2/3) = 2 := by
  refine ⟨?_, by decide, ?_, ?_, ?_⟩ <;> simp [intervalOf, step] <;> norm_num

/-! ### 2. the exact cumulative row gives state `j` an interval of length `T_ij` -/

/-- EXACT ARITHMETIC.  For a probability row visited in non-increasing order the forcing to 1 of `_get_cummat`
(from the last positive entry on, and in the last column) changes nothing: the cumulative row is the plain running
sum, because the running sum is already exactly 1 there. -/
theorem cumRow_exact (row : List Rat) (order : List Nat)
    (hnn : ∀ p ∈ row, 0 ≤ p) (hsum : row.sum = 1)
    (hperm : isPermOfRange order row.length = true)
    (hsort : nonIncreasing (order.map (fun j => row.getD j 0)) = true) :
    cumRow row order = cumsum (order.map (fun j => row.getD j 0)) :=
  cumRow_eq_cumsum row order hnn hsum hperm hsort

/-- EXACT ARITHMETIC.  For a probability row and a permutation `order` sorting it non-increasingly, `cumRow row order`
has one breakpoint per state, is non-decreasing, ends in 1, and the interval of position `k` has length exactly
`row[order[k]]`: state `j` gets exactly one interval, of length `T_ij`. -/
theorem cumRow_spec (row : List Rat) (order : List Nat)
    (hnn : ∀ p ∈ row, 0 ≤ p) (hsum : row.sum = 1)
    (hperm : isPermOfRange order row.length = true)
    (hsort : nonIncreasing (order.map (fun j => row.getD j 0)) = true) :
    (cumRow row order).length = row.length ∧
    (cumRow row order).Pairwise (· ≤ ·) ∧
    (cumRow row order).getLastD 0 = 1 ∧
    ∀ k, k < row.length →
      (intervalOf (cumRow row order) k).2 - (intervalOf (cumRow row order) k).1
        = row.getD (order.getD k 0) 0 :=
  cumRow_spec_aux row order hnn hsum hperm hsort

example : (∀ p ∈ ([1/2, 0, 1/3, 1/6] : List Rat), 0 ≤ p) ∧ ([1/2, 0, 1/3, 1/6] : List Rat).sum = 1 ∧
    isPermOfRange [0, 2, 3, 1] ([1/2, 0, 1/3, 1/6] : List Rat).length = true ∧
    nonIncreasing (([0, 2, 3, 1] : List Nat).map (fun j => ([1/2, 0, 1/3, 1/6] : List Rat).getD j 0)) = true := by
  refine ⟨?_, ?_, by decide, ?_⟩
  · intro p hp; simp at hp; rcases hp with rfl | rfl | rfl | rfl <;> norm_num
  · norm_num
  · simp [nonIncreasing]; norm_num

/-! ### 3. transitions with `T_ij = 0` are never sampled; every draw is mapped -/

/-- EXACT ARITHMETIC.  With the exact cumulative row, a draw `u ∈ [0,1)` is always mapped to a state of positive
probability: a transition with `T_ij = 0` is never sampled. -/
theorem zero_never (row : List Rat) (order : List Nat) (u : Rat)
    (hnn : ∀ p ∈ row, 0 ≤ p) (hsum : row.sum = 1)
    (hperm : isPermOfRange order row.length = true)
    (hsort : nonIncreasing (order.map (fun j => row.getD j 0)) = true)
    (h0 : 0 ≤ u) (h1 : u < 1) :
    0 < row.getD (step (cumRow row order) order u) 0 := by
  obtain ⟨hlen, _, hlast, hint⟩ := cumRow_spec row order hnn hsum hperm hsort
  have hol : order.length = (cumRow row order).length := by
    rw [hlen]; exact (perm_of_isPermOfRange order _ hperm).length_eq.trans (by simp)
  obtain ⟨k, hk, hs, hlo, hhi⟩ := step_lands (cumRow row order) order u hol h0 (by rw [hlast]; exact h1)
  rw [hs, ← hint k (by omega)]
  linarith

/-- EXACT ARITHMETIC.  With the exact cumulative row the search in `step` succeeds for every `u ∈ [0,1)`:
the `argmax` fallback is unreachable. -/
theorem total (row : List Rat) (order : List Nat) (u : Rat)
    (hnn : ∀ p ∈ row, 0 ≤ p) (hsum : row.sum = 1)
    (hperm : isPermOfRange order row.length = true)
    (hsort : nonIncreasing (order.map (fun j => row.getD j 0)) = true)
    (h0 : 0 ≤ u) (h1 : u < 1) :
    (((cumRow row order).zip order).find? (fun cp => decide (u < cp.1))).isSome = true := by
  obtain ⟨hlen, _, hlast, _⟩ := cumRow_spec row order hnn hsum hperm hsort
  have hol : order.length = (cumRow row order).length := by
    rw [hlen]; exact (perm_of_isPermOfRange order _ hperm).length_eq.trans (by simp)
  exact find_isSome_of_lt_last _ order u hol h0 (by rw [hlast]; exact h1)

/-- The same for arbitrary (e.g. float) breakpoints: as long as the last breakpoint exceeds the draw, the search of
`step` succeeds.  The real `_get_cummat` forces the last column to exactly 1, so this covers every `u ∈ [0,1)`. -/
theorem total_of_lt_last (cum : List Rat) (perm : List Nat) (u : Rat) (hlen : perm.length = cum.length)
    (h0 : 0 ≤ u) (hlast : u < cum.getLastD 0) :
    ((cum.zip perm).find? (fun cp => decide (u < cp.1))).isSome = true :=
  find_isSome_of_lt_last cum perm u hlen h0 hlast

example : 0 < ([1/2, 0, 1/3, 1/6] : List Rat).getD
    (step (cumRow [1/2, 0, 1/3, 1/6] [0, 2, 3, 1]) [0, 2, 3, 1] (11/12)) 0 := by
  have h : cumRow [1/2, 0, 1/3, 1/6] [0, 2, 3, 1] = [1/2, 5/6, 1, 1] := by
    simp [cumRow, cumsum, List.range, List.range.loop]
    norm_num
  rw [h]
  simp [step]
  norm_num

/-! ### 4. robustness against rounding of the breakpoints -/

/-- If the (float) breakpoints `c'` are non-decreasing and each is within `ε` of the exact breakpoint `c`, then the
preimage of position `k` under `step c' perm` is the interval `[c'_{k-1}, c'_k)`, and its length differs from the exact
length `c_k - c_{k-1}` by at most `2ε`. -/
theorem robust (c c' : List Rat) (perm : List Nat) (ε : Rat)
    (hlenc : c'.length = c.length) (hlen : perm.length = c'.length) (hnd : perm.Nodup)
    (hmono : c'.Pairwise (· ≤ ·))
    (hclose : ∀ j, j < c.length → absQ (c'.getD j 0 - c.getD j 0) ≤ ε)
    (k : Nat) (hk : k < c.length) :
    (∀ u, 0 ≤ u → u < c'.getLastD 0 →
      (step c' perm u = perm.getD k 0 ↔ (intervalOf c' k).1 ≤ u ∧ u < (intervalOf c' k).2)) ∧
    absQ (((intervalOf c' k).2 - (intervalOf c' k).1) - ((intervalOf c k).2 - (intervalOf c k).1)) ≤ 2 * ε :=
  ⟨fun u h0 hlast => step_interval_iff c' perm u hmono hlen hnd h0 hlast k (by omega),
   interval_length_close c c' ε hclose k hk⟩

example : ([51/100, 1] : List Rat).length = ([1/2, 1] : List Rat).length ∧
    ([51/100, 1] : List Rat).Pairwise (· ≤ ·) ∧
    ∀ j, j < ([1/2, 1] : List Rat).length →
      absQ (([51/100, 1] : List Rat).getD j 0 - ([1/2, 1] : List Rat).getD j 0) ≤ 1/100 := by
  refine ⟨rfl, by simp; norm_num, ?_⟩
  intro j hj
  have : j = 0 ∨ j = 1 := by simp at hj; omega
  rcases this with rfl | rfl
  · simp [absQ]; norm_num
  · simp [absQ]

/-- The float cumulative matrix accepted by the oracle `holdsCummat` gives, in every probability row `i` of `T`,
position `k` an interval whose length is within `2·n·2⁻⁵³` of `T[i][perm[i][k]]`. -/
theorem holdsCummat_interval (T : RatMat) (cum : List (List Rat)) (perm : List (List Nat))
    (h : holdsCummat T cum perm = true) (i : Nat) (hi : i < T.length)
    (hrowlen : (T.getD i []).length = T.length)
    (hnn : ∀ p ∈ T.getD i [], 0 ≤ p) (hsum : (T.getD i []).sum = 1)
    (k : Nat) (hk : k < T.length) :
    absQ (((intervalOf (cum.getD i []) k).2 - (intervalOf (cum.getD i []) k).1)
        - (T.getD i []).getD ((perm.getD i []).getD k 0) 0)
      ≤ 2 * ((T.length : Rat) / 9007199254740992) :=
  holdsCummat_interval_aux T cum perm h i hi hrowlen hnn hsum k hk

example : holdsCummat [[1/2, 1/2], [1/4, 3/4]] [[1/2, 1], [3/4 + 1/9007199254740992, 1]] [[0, 1], [1, 0]] = true := by
  simp [holdsCummat, isPermOfRange, nonIncreasing, cumRow, cumsum, absQ, List.range, List.range.loop]
  norm_num

/-- FLOAT LEVEL.  For any float cumulative matrix accepted by the oracle `holdsCummat` (exactly 1 wherever the exact
cumulative row is 1, within `n·2⁻⁵³` elsewhere) and any probability row `i` of `T`: every draw `u ∈ [0,1)` is mapped
by the search (the `argmax` fallback is unreachable) and the sampled state has `T_ij > 0`.  This is what the forcing
to 1 "from the last positive entry on" buys; no monotonicity of the float breakpoints is needed. -/
theorem zero_never_float (T : RatMat) (cum : List (List Rat)) (perm : List (List Nat))
    (h : holdsCummat T cum perm = true) (i : Nat) (hi : i < T.length)
    (hrowlen : (T.getD i []).length = T.length)
    (hnn : ∀ p ∈ T.getD i [], 0 ≤ p) (hsum : (T.getD i []).sum = 1)
    (u : Rat) (h0 : 0 ≤ u) (h1 : u < 1) :
    ((((cum.getD i []).zip (perm.getD i [])).find? (fun cp => decide (u < cp.1))).isSome = true) ∧
    0 < (T.getD i []).getD (step (cum.getD i []) (perm.getD i []) u) 0 :=
  zero_never_float_aux T cum perm h i hi hrowlen hnn hsum u h0 h1

/-! ### 5. shape of the chain -/

/-- A chain of requested length `steps` has exactly `steps` frames (given enough draws). -/
theorem chain_length (cummat : List (List Rat)) (perm : List (List Nat)) (start steps : Nat) (us : List Rat)
    (hus : steps - 1 ≤ us.length) : (chain cummat perm start steps us).length = steps := by
  unfold chain
  split
  · simp [*]
  · simp only [List.length_cons, length_chainFrom, List.length_take]; omega

/-- A chain of length `≥ 1` starts in the requested state. -/
theorem chain_head (cummat : List (List Rat)) (perm : List (List Nat)) (start steps : Nat) (us : List Rat)
    (hsteps : 1 ≤ steps) : (chain cummat perm start steps us).head? = some start := by
  unfold chain
  rw [if_neg (by omega)]
  rfl

/-- Every later frame is the inverse-CDF step from the previous frame, using the previous frame's row of the
cumulative matrix and the corresponding draw. -/
theorem chain_step (cummat : List (List Rat)) (perm : List (List Nat)) (start steps : Nat) (us : List Rat)
    (hus : steps - 1 ≤ us.length) (i : Nat) (hi : i + 1 < steps) :
    (chain cummat perm start steps us).getD (i + 1) 0 =
      step (cummat.getD ((chain cummat perm start steps us).getD i 0) [])
        (perm.getD ((chain cummat perm start steps us).getD i 0) []) (us.getD i 0) :=
  chain_getD_succ cummat perm start steps us hus i hi

/-- If every row of `perm` only holds state indices `< n` and `start < n`, every frame of the chain is `< n`. -/
theorem chain_lt (cummat : List (List Rat)) (perm : List (List Nat)) (start steps : Nat) (us : List Rat) (n : Nat)
    (hstart : start < n) (hperm : ∀ s, s < n → ∀ x ∈ perm.getD s [], x < n) :
    ∀ x ∈ chain cummat perm start steps us, x < n := by
  unfold chain
  split
  · simp
  · intro x hx
    rcases List.mem_cons.mp hx with rfl | hx
    · exact hstart
    · exact chainFrom_lt cummat perm n hperm start hstart _ x hx

/-- In particular when every row of `perm` is a permutation of `range n`. -/
theorem chain_lt_of_perm (cummat : List (List Rat)) (perm : List (List Nat)) (start steps : Nat) (us : List Rat)
    (n : Nat) (hstart : start < n) (hperm : ∀ s, s < n → isPermOfRange (perm.getD s []) n = true) :
    ∀ x ∈ chain cummat perm start steps us, x < n :=
  chain_lt cummat perm start steps us n hstart (fun s hs _ hx =>
    List.mem_range.mp ((perm_of_isPermOfRange _ n (hperm s hs)).mem_iff.mp hx))

/-- The three shape facts together. -/
theorem chain_shape (cummat : List (List Rat)) (perm : List (List Nat)) (start steps : Nat) (us : List Rat)
    (hus : steps - 1 ≤ us.length) :
    (chain cummat perm start steps us).length = steps ∧
    (1 ≤ steps → (chain cummat perm start steps us).head? = some start) ∧
    ∀ i, i + 1 < steps →
      (chain cummat perm start steps us).getD (i + 1) 0 =
        step (cummat.getD ((chain cummat perm start steps us).getD i 0) [])
          (perm.getD ((chain cummat perm start steps us).getD i 0) []) (us.getD i 0) :=
  ⟨chain_length cummat perm start steps us hus, chain_head cummat perm start steps us,
   chain_step cummat perm start steps us hus⟩

/-- A shorter chain is the beginning of a longer one with the same draws (whether or not all states are visited). -/
theorem chain_prefix_le (cummat : List (List Rat)) (perm : List (List Nat)) (start steps steps' : Nat)
    (us : List Rat) (h : steps ≤ steps') :
    chain cummat perm start steps us <+: chain cummat perm start steps' us := by
  unfold chain
  by_cases h0 : steps = 0
  · simp [h0]
  · rw [if_neg h0, if_neg (by omega)]
    exact List.cons_prefix_cons.mpr ⟨rfl, chainFrom_prefix cummat perm start _ _
      (List.take_prefix_take_left (by omega))⟩

/-- The chain for `steps` is a prefix of the chain for `steps + 1`. -/
theorem chain_prefix (cummat : List (List Rat)) (perm : List (List Nat)) (start steps : Nat) (us : List Rat) :
    chain cummat perm start steps us <+: chain cummat perm start (steps + 1) us :=
  chain_prefix_le cummat perm start steps (steps + 1) us (by omega)

/-- The chain is a function of `(cummat, perm, start, steps, draws)`: identical inputs and draws give identical
chains. -/
theorem chain_deterministic (cummat cummat' : List (List Rat)) (perm perm' : List (List Nat))
    (start start' steps steps' : Nat) (us us' : List Rat)
    (h1 : cummat = cummat') (h2 : perm = perm') (h3 : start = start') (h4 : steps = steps') (h5 : us = us') :
    chain cummat perm start steps us = chain cummat' perm' start' steps' us' := by
  subst h1 h2 h3 h4 h5; rfl

/-- The chain only depends on the first `steps - 1` draws. -/
theorem chain_congr (cummat : List (List Rat)) (perm : List (List Nat)) (start steps : Nat) (us us' : List Rat)
    (h : us.take (steps - 1) = us'.take (steps - 1)) :
    chain cummat perm start steps us = chain cummat perm start steps us' := by
  unfold chain
  rw [h]

example : chain [[1/2, 1], [1/4, 1]] [[0, 1], [1, 0]] 0 4 [3/4, 1/8, 1/2] = [0, 1, 1, 0] := by
  simp [chain, chainFrom, step]; norm_num

/-! ### 6. the chain oracle accepts the model -/

/-- The oracle `holdsChain` accepts the labelled model chain. -/
theorem holdsChain_of_model (cummat : List (List Rat)) (perm : List (List Nat)) (sts : List Int)
    (start steps : Nat) (us : List Rat) :
    holdsChain cummat perm sts start steps us
      ((chain cummat perm start steps us).map (fun (i : Nat) => labelOf sts (i : Int))) = true := by
  simp [holdsChain]

/-! ### 7. `propagate_tmat`: identity permutation, unforced running sums -/

/-- EXACT ARITHMETIC.  For a probability row the unforced running sums `cumsum row` are non-decreasing, end in
`row.sum = 1`, and position `k` (= state `k`, identity permutation) gets an interval of length `row[k]`. -/
theorem identity_perm (row : List Rat) (hnn : ∀ p ∈ row, 0 ≤ p) (hsum : row.sum = 1) :
    (cumsum row).length = row.length ∧
    (cumsum row).Pairwise (· ≤ ·) ∧
    (cumsum row).getLastD 0 = 1 ∧
    ∀ k, k < row.length →
      (intervalOf (cumsum row) k).2 - (intervalOf (cumsum row) k).1 = row.getD k 0 :=
  identity_perm_aux row hnn hsum

/-- EXACT ARITHMETIC.  With the identity permutation every `u ∈ [0,1)` is mapped by the search (no fallback), to a
valid state of positive probability, and the preimage of state `k` is exactly `[c_{k-1}, c_k)`. -/
theorem identity_perm_step (row : List Rat) (hnn : ∀ p ∈ row, 0 ≤ p) (hsum : row.sum = 1)
    (u : Rat) (h0 : 0 ≤ u) (h1 : u < 1) :
    (((cumsum row).zip (List.range row.length)).find? (fun cp => decide (u < cp.1))).isSome = true ∧
    step (cumsum row) (List.range row.length) u < row.length ∧
    0 < row.getD (step (cumsum row) (List.range row.length) u) 0 ∧
    ∀ k, k < row.length →
      (step (cumsum row) (List.range row.length) u = k ↔
        (intervalOf (cumsum row) k).1 ≤ u ∧ u < (intervalOf (cumsum row) k).2) := by
  obtain ⟨hlen, hmono, hlast, hint⟩ := identity_perm row hnn hsum
  have hrl : (List.range row.length).length = (cumsum row).length := by simp
  have hlt : u < (cumsum row).getLastD 0 := by rw [hlast]; exact h1
  obtain ⟨k, hk, hs, hlo, hhi⟩ := step_lands (cumsum row) (List.range row.length) u hrl h0 hlt
  have hk' : k < row.length := by omega
  have hgk : ∀ j, j < row.length → (List.range row.length).getD j 0 = j := by
    intro j hj; simp [List.getD_eq_getElem?_getD, hj]
  rw [hgk k hk'] at hs
  refine ⟨find_isSome_of_lt_last _ _ u hrl h0 hlt, by omega, ?_, ?_⟩
  · rw [hs, ← hint k hk']; linarith
  · intro j hj
    have := step_interval_iff (cumsum row) (List.range row.length) u hmono hrl List.nodup_range h0 hlt j
      (by omega)
    rwa [hgk j hj] at this

example : (∀ p ∈ ([1/2, 0, 1/3, 1/6] : List Rat), 0 ≤ p) ∧ ([1/2, 0, 1/3, 1/6] : List Rat).sum = 1 ∧
    step (cumsum [1/2, 0, 1/3, 1/6]) (List.range 4) (1/2) = 2 := by
  refine ⟨?_, ?_, ?_⟩
  · intro p hp; simp at hp; rcases hp with rfl | rfl | rfl | rfl <;> norm_num
  · norm_num
  · simp [cumsum, step, List.range, List.range.loop]

end MsmVerif.C07
