#!/bin/bash
# tools/confirm_parallel.sh <jobs> <seeded-id> [...] — confirm seeded changes (tools/confirm_mutant.sh) in <jobs> scratch worktrees of /repo
jobs="$1"; shift
mkdir -p /tmp/wt /tmp/trial_out
for j in $(seq 1 "$jobs"); do git -C /repo worktree add -q --detach /tmp/wt/c$$_$j HEAD; done
printf '%s\n' "$@" > /tmp/trial_out/cqueue.$$
worker() {
  j="$1"
  while true; do
    id=$(flock /tmp/trial_out/cqueue.$$.lock sh -c "head -1 /tmp/trial_out/cqueue.$$; sed -i 1d /tmp/trial_out/cqueue.$$")
    [ -z "$id" ] && break
    /verif/tools/confirm_mutant.sh "$id" /tmp/wt/c$$_$j
  done
}
for j in $(seq 1 "$jobs"); do worker $j & done
wait
for j in $(seq 1 "$jobs"); do git -C /repo worktree remove --force /tmp/wt/c$$_$j; done
rm -f /tmp/trial_out/cqueue.$$ /tmp/trial_out/cqueue.$$.lock
