import MsmVerif.Model.Events
import Mathlib.Tactic.FieldSimp
import Mathlib.Tactic.Ring
import Mathlib.Algebra.Order.Ring.Rat
open MsmVerif MsmVerif.Events
example (c t l : Nat) (ht : 0 < t) (hl : 0 < l) : ((c:Rat) / ((t:Rat) * (l:Rat))) * (l:Rat) = (c:Rat)/(t:Rat) := by
  have : (t:Rat) ≠ 0 := by exact_mod_cast (Nat.pos_iff_ne_zero.mp ht)
  have : (l:Rat) ≠ 0 := by exact_mod_cast (Nat.pos_iff_ne_zero.mp hl)
  field_simp
#check @List.find?_range_eq_some
#check @List.head?_filter
#check @List.take_succ_eq_append_getElem
#check @List.getElem?_zip_eq_some
#check @List.sorted_mergeSort
#check @List.mergeSort_perm
#check @List.pairwise_mergeSort
