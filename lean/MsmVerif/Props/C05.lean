/-
Props/C05.lean — property theorems for C05 (dynamical coring).  Helper lemmas live in Lemmas/Coring.lean.

Reading of the property: the *reference rule* is `Coring.coreRef τ` (first core = first window of `τ` equal
frames; a frame opens a new core iff the window test `remains τ` holds on the suffix starting there;
otherwise it takes the current core), `Coring.refOne` applies it with windows `2..τ` (iterative) or `τ`,
`Coring.refSet` maps it over the trajectories.  The *model of the code* is `Coring.dynamicalCoring`
(StateTraj encoding, sentinel `-1`, last-frame shortcut, stage-wise schedule over the whole set).
-/
import MsmVerif.Lemmas.Coring
import MsmVerif.Lemmas.Coring2
import MsmVerif.Lemmas.StateTraj

namespace MsmVerif.C05
open MsmVerif MsmVerif.Coring

/-- the window test is the declarative window predicate: `τ` frames starting here, inside the trajectory,
all carrying the label of the first -/
theorem remains_iff_window (τ : Nat) (hτ : 1 ≤ τ) (x : Int) (rest : List Int) :
    remains τ (x :: rest) = true ↔
      τ ≤ (x :: rest).length ∧ ∀ j, j < τ → (x :: rest)[j]? = some x := by
  simp only [remains, Bool.and_eq_true, decide_eq_true_eq, List.all_eq_true, beq_iff_eq, List.length_cons]
  constructor
  · rintro ⟨h1, h2⟩
    refine ⟨h1, ?_⟩
    intro j hj
    cases j with
    | zero => simp
    | succ j =>
      have hlt : j < rest.length := by omega
      simp only [List.getElem?_cons_succ]
      rw [List.getElem?_eq_getElem hlt]
      congr 1
      apply h2
      exact List.mem_take_iff_getElem.mpr ⟨j, by omega, rfl⟩
  · rintro ⟨h1, h2⟩
    refine ⟨h1, ?_⟩
    intro y hy
    obtain ⟨j, hj, rfl⟩ := List.mem_take_iff_getElem.mp hy
    have := h2 (j + 1) (by omega)
    simp only [List.getElem?_cons_succ] at this
    have hlt : j < rest.length := by omega
    rw [List.getElem?_eq_getElem hlt] at this
    exact Option.some.inj this

/-- same number of frames -/
theorem length (τ : Nat) (t r : List Int) (h : coreRef τ t = some r) : r.length = t.length := by
  simp only [coreRef, Option.map_eq_some_iff] at h
  obtain ⟨c, _, rfl⟩ := h
  exact scanWith_length _ _ _

/-- only labels of that input trajectory -/
theorem labels_subset (τ : Nat) (t r : List Int) (h : coreRef τ t = some r) : ∀ y ∈ r, y ∈ t := by
  simp only [coreRef, Option.map_eq_some_iff] at h
  obtain ⟨c, hc, rfl⟩ := h
  intro y hy
  rcases scanWith_mem _ _ _ _ hy with h | h
  · exact h ▸ firstCore_mem τ t c hc
  · exact h

/-- every maximal constant run of the result is at least `τ` frames long -/
theorem runs_ge (τ : Nat) (hτ : 1 ≤ τ) (t r : List Int) (h : coreRef τ t = some r) : AllRunsGE τ r := by
  simp only [coreRef, Option.map_eq_some_iff] at h
  obtain ⟨c, hc, rfl⟩ := h
  exact okFrom_zero_allRuns hτ c _ (scan_firstCore_okFrom τ t c 0 hc)

/-- a trajectory all of whose runs are `≥ τ` is a fixed point of the rule -/
theorem fixed_of_runs (τ : Nat) (hτ : 1 ≤ τ) : ∀ (t : List Int), t ≠ [] → AllRunsGE τ t → coreRef τ t = some t := by
  intro t hne h
  cases t with
  | nil => exact absurd rfl hne
  | cons x xs =>
    have key : ∀ (l : List Int) (c : Int) (j : Nat), okFrom τ c j l → scanWith (remains τ) c l = l := by
      intro l
      induction l with
      | nil => intro c j _; simp [scanWith]
      | cons y ys ih =>
        intro c j hl
        by_cases hy : y = c
        · subst hy
          simp only [okFrom, if_true] at hl
          simp only [scanWith, if_true, ih y (j + 1) hl]
        · simp only [okFrom, if_neg hy] at hl
          have hr : remains τ (y :: ys) = true := by
            simp only [remains, Bool.and_eq_true, decide_eq_true_eq, List.all_eq_true, beq_iff_eq]
            refine ⟨by have := okFrom_length ys y 1 hl.2; omega, ?_⟩
            intro z hz
            obtain ⟨i, hi, rfl⟩ := List.mem_take_iff_getElem.mp hz
            have hi' : i < ys.length := by omega
            have := okFrom_prefix ys y 1 i hl.2 (by omega)
            rw [List.getElem?_eq_getElem hi'] at this
            exact Option.some.inj this
          simp only [scanWith, if_neg hy, hr, if_true, ih y 1 hl.2]
    have hx : okFrom τ x 1 xs := h
    have hr : remains τ (x :: xs) = true := by
      simp only [remains, Bool.and_eq_true, decide_eq_true_eq, List.all_eq_true, beq_iff_eq]
      refine ⟨by have := okFrom_length xs x 1 hx; omega, ?_⟩
      intro z hz
      obtain ⟨i, hi, rfl⟩ := List.mem_take_iff_getElem.mp hz
      have hi' : i < xs.length := by omega
      have := okFrom_prefix xs x 1 i hx (by omega)
      rw [List.getElem?_eq_getElem hi'] at this
      exact Option.some.inj this
    simp only [coreRef, firstCore, hr, if_true, Option.map_some, scanWith, key xs x 1 hx]

/-- coring an already cored result changes nothing -/
theorem idempotent (τ : Nat) (hτ : 1 ≤ τ) (t r : List Int) (h : coreRef τ t = some r) : coreRef τ r = some r := by
  have hne : r ≠ [] := by
    intro e
    have hl := length τ t r h
    simp only [coreRef, Option.map_eq_some_iff] at h
    obtain ⟨c, hc, _⟩ := h
    have := firstCore_mem τ t c hc
    subst e
    simp at hl
    have : t = [] := List.eq_nil_of_length_eq_zero hl.symm
    subst this
    simp at *
  exact fixed_of_runs τ hτ r hne (runs_ge τ hτ t r h)

/-- the last-frame shortcut of the iterative mode is sound on input whose runs are all `≥ τ - 1`:
the loop with the shortcut test computes exactly the reference rule -/
theorem shortcut_sound (τ : Nat) (hτ : 2 ≤ τ) (t : List Int) (c : Int) (h : AllRunsGE (τ - 1) t) :
    scanWith (remainsShort τ) c t = scanWith (remains τ) c t := by
  apply scanWith_congr
  intro pre x rest e
  cases t with
  | nil => simp at e
  | cons y ys =>
    apply remainsShort_eq_remains hτ
    cases pre with
    | nil =>
      simp at e
      obtain ⟨rfl, rfl⟩ := e
      exact okFrom_tailOk _ _ _ h
    | cons p pre =>
      simp at e
      obtain ⟨rfl, rfl⟩ := e
      exact okFrom_suffix_tailOk _ _ _ h pre x rest rfl

/-- an error is raised exactly when the trajectory has no window of `τ` equal frames anywhere -/
theorem error_iff_no_core (τ : Nat) (t : List Int) :
    coreRef τ t = none ↔
      ∀ (pre : List Int) (x : Int) (rest : List Int), t = pre ++ x :: rest → remains τ (x :: rest) = false := by
  simp only [coreRef, Option.map_eq_none_iff]
  exact firstCore_none τ t

/-- `tau = 1` returns the input (public API; also for the reference) -/
theorem tau_one (ts : Trajs) (iter : Bool) : refSet ts 1 iter = .ok ts := by
  simp [refSet]

/-! ## Second batch: runs, kernel = reference, stage-wise pipeline, equivariance, whole-pipeline properties -/

/-- every maximal constant run is at least one frame long — holds for every trajectory -/
theorem allRuns_one (t : List Int) : AllRunsGE 1 t := allRunsGE_one t

/-- "all runs `≥ k`" gets weaker when `k` gets smaller -/
theorem allRuns_mono {k k' : Nat} (h : k' ≤ k) (t : List Int) (ht : AllRunsGE k t) : AllRunsGE k' t :=
  allRunsGE_mono h t ht

/-- `AllRunsGE τ t` says exactly: every entry of the list of maximal-run lengths of `t` is `≥ τ` -/
theorem allRunsGE_iff_runLengths (τ : Nat) (t : List Int) :
    AllRunsGE τ t ↔ ∀ n ∈ runLengths t, τ ≤ n := allRunsGE_iff_runLengths' τ t

example : AllRunsGE 2 [1, 1, 3, 3, 3] := (allRunsGE_iff_runLengths 2 _).mpr (by decide)
example : ¬ AllRunsGE 3 [1, 1, 3, 3, 3] := fun h => absurd ((allRunsGE_iff_runLengths 3 _).mp h) (by decide)
example : runLengths [1, 1, 3, 3, 3, 2] = [2, 3, 1] := by decide

/-- on index trajectories (labels `≥ 0`) the kernel with the full window test is the reference rule:
the sentinel `-1` for "no core" cannot collide with a label -/
theorem kernel_eq_ref_single_full (τ : Nat) (t : List Int) (hpos : ∀ y ∈ t, 0 ≤ y) :
    kernelSingle τ false t = coreRef τ t := by
  cases hc : firstCore τ t with
  | none => simp [kernelSingle, coreRef, firstCoreSentinel, hc]
  | some c =>
    have := hpos c (firstCore_mem τ t c hc)
    have hne : c ≠ -1 := by omega
    simp [kernelSingle, coreRef, firstCoreSentinel, hc, hne]

/-- on index trajectories whose runs are all `≥ τ - 1` (what the previous iterative stage guarantees) the kernel
with the last-frame shortcut is the reference rule -/
theorem kernel_eq_ref_single_short (τ : Nat) (hτ : 2 ≤ τ) (t : List Int) (hpos : ∀ y ∈ t, 0 ≤ y)
    (hruns : AllRunsGE (τ - 1) t) : kernelSingle τ true t = coreRef τ t := by
  cases hc : firstCore τ t with
  | none => simp [kernelSingle, coreRef, firstCoreSentinel, hc]
  | some c =>
    have := hpos c (firstCore_mem τ t c hc)
    have hne : c ≠ -1 := by omega
    simp [kernelSingle, coreRef, firstCoreSentinel, hc, hne, shortcut_sound τ hτ t c hruns]

/-- both modes at once: the single-trajectory kernel equals the reference rule on index trajectories; the
iterative mode (shortcut test) additionally needs `2 ≤ τ` and all runs of the input `≥ τ - 1` -/
theorem kernel_eq_ref_single (τ : Nat) (iter : Bool) (t : List Int) (hpos : ∀ y ∈ t, 0 ≤ y)
    (hiter : iter = true → 2 ≤ τ ∧ AllRunsGE (τ - 1) t) : kernelSingle τ iter t = coreRef τ t := by
  cases iter with
  | false => exact kernel_eq_ref_single_full τ t hpos
  | true => exact kernel_eq_ref_single_short τ (hiter rfl).1 t hpos (hiter rfl).2

example : (∀ y ∈ [0, 0, 1, 0, 2, 2, 2], (0 : Int) ≤ y) ∧ AllRunsGE (2 - 1) [0, 0, 1, 0, 2, 2, 2] :=
  ⟨by decide, allRuns_one _⟩
example : kernelSingle 2 true [0, 0, 1, 0, 2, 2, 2] = some [0, 0, 0, 0, 2, 2, 2] := by decide

/-- the hypothesis `0 ≤ y` is necessary: a first core labelled `-1` makes the kernel report "no core"
(`LagtimeError`) although the reference rule succeeds.  This is the sentinel defect of the raw kernel; the
public function avoids it by coring index trajectories. -/
example : kernelSingle 2 false [-1, -1, 0] = none ∧ coreRef 2 [-1, -1, 0] = some [-1, -1, -1] := by decide

/-- the hypothesis on the runs is necessary for the shortcut: with a run of length 1 inside the window the
last-frame test accepts a window the full test rejects -/
example : kernelSingle 3 true [0, 0, 0, 1, 0, 1, 1] = some [0, 0, 0, 1, 1, 1, 1] ∧
    coreRef 3 [0, 0, 0, 1, 0, 1, 1] = some [0, 0, 0, 0, 0, 0, 0] := by decide

/-- one trajectory with labels `≥ 0` pushed through the kernel's stages (`2..τ` with the shortcut test when
iterative, `τ` alone otherwise) gives exactly the successive application of the reference rule, errors included -/
theorem iter_eq_successive (τ : Nat) (iter : Bool) (t : List Int) (hpos : ∀ y ∈ t, 0 ≤ y) :
    (schedule τ iter).foldlM (fun acc s => kernelSingle s iter acc) t = refOne τ iter t := by
  cases iter with
  | false =>
    simp only [refOne, schedule_false, List.foldlM_cons, List.foldlM_nil]
    rw [kernel_eq_ref_single_full τ t hpos]
  | true =>
    simp only [refOne, schedule, if_true]
    exact foldlM_range_congr (fun s a => kernelSingle s true a) (fun s a => coreRef s a)
      (fun s a => 2 ≤ s ∧ AllRunsGE (s - 1) a ∧ ∀ y ∈ a, 0 ≤ y)
      (fun s a h => kernel_eq_ref_single_short s h.1 a h.2.2 h.2.1)
      (fun s a b h hb => ⟨by omega, by simpa using runs_ge s (by omega) a b hb,
        fun y hy => h.2.2 y (labels_subset s a b hb y hy)⟩)
      (τ - 1) 2 t ⟨Nat.le_refl _, allRuns_one t, hpos⟩

example : refOne 3 true [0, 1, 1, 0, 0, 0, 2, 1, 1, 1] = some [1, 1, 1, 0, 0, 0, 0, 1, 1, 1] := by decide

/-- the stage-wise processing of a whole set (every stage maps over all trajectories, any failure fails the
stage) equals processing each trajectory alone through all stages with the reference rule -/
theorem per_traj (τ : Nat) (iter : Bool) (ts : Trajs) (hpos : ∀ t ∈ ts, ∀ y ∈ t, 0 ≤ y) :
    kernelAll τ iter ts = ts.mapM (refOne τ iter) := by
  simp only [kernelAll, kernelStage]
  rw [foldlM_mapM_comm (fun s a => kernelSingle s iter a)]
  exact mapM_congr_opt _ _ ts (fun t ht => iter_eq_successive τ iter t (hpos t ht))

/-- on success the result has as many trajectories as the input and trajectory `i` of the result is the
reference applied to trajectory `i` of the input alone (same order, no mixing) -/
theorem per_traj_ok (τ : Nat) (iter : Bool) (ts r : Trajs) (hpos : ∀ t ∈ ts, ∀ y ∈ t, 0 ≤ y) :
    kernelAll τ iter ts = some r ↔
      r.length = ts.length ∧ ∀ i (h : i < ts.length), refOne τ iter ts[i] = r[i]? := by
  rw [per_traj τ iter ts hpos]
  exact mapM_eq_some_opt _ ts r

/-- the set fails exactly when some trajectory on its own has no core at some stage -/
theorem per_traj_error (τ : Nat) (iter : Bool) (ts : Trajs) (hpos : ∀ t ∈ ts, ∀ y ∈ t, 0 ≤ y) :
    kernelAll τ iter ts = none ↔ ∃ t ∈ ts, refOne τ iter t = none := by
  rw [per_traj τ iter ts hpos]
  exact mapM_eq_none_opt _ ts

example : kernelAll 3 true [[0, 0, 0, 1], [1, 1, 1, 0, 0]] = some [[0, 0, 0, 0], [1, 1, 1, 1, 1]] := by decide
example : kernelAll 3 true [[0, 0, 0, 1], [1, 1, 0, 0]] = none := by decide

/-- relabelling with a map that is injective on the labels present commutes with the reference rule -/
theorem equivariant (f : Int → Int) (τ : Nat) (t : List Int)
    (hinj : ∀ a ∈ t, ∀ b ∈ t, f a = f b → a = b) :
    coreRef τ (t.map f) = (coreRef τ t).map (·.map f) := coreRef_map f τ t hinj

/-- … and with the whole pipeline of successive windows -/
theorem equivariant_refOne (f : Int → Int) (τ : Nat) (iter : Bool) (t : List Int)
    (hinj : ∀ a ∈ t, ∀ b ∈ t, f a = f b → a = b) :
    refOne τ iter (t.map f) = (refOne τ iter t).map (·.map f) := by
  simp only [refOne]
  generalize schedule τ iter = ss
  induction ss generalizing t with
  | nil => simp
  | cons s ss ih =>
    simp only [List.foldlM_cons, equivariant f s t hinj]
    cases hc : coreRef s t with
    | none => simp
    | some r =>
      simp only [Option.map_some, Option.bind_eq_bind, Option.bind_some]
      exact ih r (fun a ha b hb => hinj a (labels_subset s t r hc a ha) b (labels_subset s t r hc b hb))

example : ∀ a ∈ [5, 5, 7, 5, 5], ∀ b ∈ [5, 5, 7, 5, 5], (fun x : Int => 3 - x) a = (fun x : Int => 3 - x) b → a = b := by
  decide

/-- properties of the whole pipeline (`refOne`, windows `2..τ` or `τ`): same length, only labels of the input,
all runs of the result `≥ τ`, and the pipeline applied to its own result changes nothing -/
theorem refOne_props (τ : Nat) (hτ : 1 ≤ τ) (iter : Bool) (t r : List Int) (h : refOne τ iter t = some r) :
    r.length = t.length ∧ (∀ y ∈ r, y ∈ t) ∧ AllRunsGE τ r ∧ refOne τ iter r = some r := by
  have hrel : r.length = t.length ∧ ∀ y ∈ r, y ∈ t :=
    foldlM_rel (fun s a => coreRef s a) (fun a b => b.length = a.length ∧ ∀ y ∈ b, y ∈ a)
      (fun a => ⟨rfl, fun _ h => h⟩)
      (fun a b c hab hbc => ⟨hbc.1.trans hab.1, fun y hy => hab.2 y (hbc.2 y hy)⟩)
      (fun s a b hb => ⟨length s a b hb, labels_subset s a b hb⟩)
      (schedule τ iter) t r h
  refine ⟨hrel.1, hrel.2, ?_⟩
  rcases refOne_last τ iter t r h with ⟨hi, hle, _⟩ | ⟨r', hr'⟩
  · have h1 : τ = 1 := by omega
    subst h1 hi
    exact ⟨allRuns_one r, by simp [refOne, schedule_true_le_one]⟩
  · have hruns : AllRunsGE τ r := runs_ge τ hτ r' r hr'
    refine ⟨hruns, ?_⟩
    apply foldlM_fixed (fun s a => coreRef s a) r (schedule τ iter)
    intro s hs
    have hs' := mem_schedule τ iter hτ s hs
    exact fixed_of_runs s hs'.1 r (coreRef_ne_nil τ r' r hr') (allRuns_mono hs'.2 r hruns)

example : refOne 3 true [0, 1, 1, 0, 0, 0, 2, 1, 1, 1] = some [1, 1, 1, 0, 0, 0, 0, 1, 1, 1] ∧
    refOne 3 false [0, 1, 1, 0, 0, 0, 2, 1, 1, 1] = some [0, 0, 0, 0, 0, 0, 0, 1, 1, 1] := by decide

/-- the public API model equals the reference for ANY encoding `f` of labels into indices that `StateTraj.mk'`
produces, as long as indices are `≥ 0` and `labelOf ss` decodes them (`labelOf ss (f x) = x` on the labels present);
all branches agree, errors included (`ValueError` for `τ ≤ 0`, identity for `τ = 1`, `LagtimeError` iff some
trajectory alone has no core at some stage) -/
theorem model_meets_spec_of_encoding (ts : Trajs) (τ : Int) (iter : Bool) (f : Int → Int) (ss : List Int)
    (h_mk : StateTraj.mk' ts = .ok ⟨ts.map (·.map f), ss⟩)
    (h_nonneg : ∀ t ∈ ts, ∀ x ∈ t, 0 ≤ f x)
    (h_label : ∀ t ∈ ts, ∀ x ∈ t, labelOf ss (f x) = x) :
    dynamicalCoring ts τ iter = refSet ts τ iter := by
  simp only [dynamicalCoring, refSet, h_mk]
  by_cases h0 : τ ≤ 0
  · simp [h0]
  simp only [if_neg h0]
  by_cases h1 : τ = 1
  · simp [h1]
  simp only [if_neg h1]
  have hτ : 1 ≤ τ.toNat := by omega
  have hinj : ∀ t ∈ ts, ∀ a ∈ t, ∀ b ∈ t, f a = f b → a = b := by
    intro t ht a ha b hb e
    rw [← h_label t ht a ha, ← h_label t ht b hb, e]
  have hk : kernelAll τ.toNat iter (ts.map (·.map f)) =
      (ts.mapM (refOne τ.toNat iter)).map (·.map (·.map f)) := by
    rw [per_traj]
    · rw [List.mapM_map, ← mapM_map_opt]
      exact mapM_congr_opt _ _ ts (fun t ht => equivariant_refOne f τ.toNat iter t (hinj t ht))
    · intro t' ht' y hy
      obtain ⟨t, ht, rfl⟩ := List.mem_map.mp ht'
      obtain ⟨x, hx, rfl⟩ := List.mem_map.mp hy
      exact h_nonneg t ht x hx
  rw [hk]
  cases hr : ts.mapM (refOne τ.toNat iter) with
  | none => simp
  | some r =>
    simp only [Option.map_some, List.map_map]
    congr 1
    conv => rhs; rw [← List.map_id r]
    apply List.map_congr_left
    intro q hq
    obtain ⟨t, ht, hq'⟩ := mapM_some_mem_opt _ ts r hr q hq
    have hsub := (refOne_props τ.toNat hτ iter t q hq').2.1
    simp only [Function.comp, List.map_map, id]
    conv => rhs; rw [← List.map_id q]
    apply List.map_congr_left
    intro y hy
    exact h_label t ht y (hsub y hy)

/-- **model meets spec**: for every trajectory set whose labels pass the 32-bit guard of the `StateTraj`
lookup table (`LabelGuard`: all labels in `[-2^29, 2^29]`), every `lagtime` (any integer) and both modes, the model
of the public `dynamical_coring` (StateTraj encoding, sentinel `-1`, last-frame shortcut, stage-wise schedule over the
whole set, decoding through `states[·]`) returns exactly what the reference rule applied to each trajectory alone
returns — values and errors alike -/
theorem model_meets_spec (ts : Trajs) (τ : Int) (iter : Bool) (hg : LabelGuard ts) :
    dynamicalCoring ts τ iter = refSet ts τ iter :=
  model_meets_spec_of_encoding ts τ iter (fun x => (rank (states ts) x : Int)) (states ts)
    (mk'_eq_rank hg) (fun _ _ _ _ => Int.natCast_nonneg _)
    (fun t ht _ hx => labelOf_rank (mem_states.mpr (List.mem_flatten.mpr ⟨t, ht, hx⟩)))

/-- the same under the general window guard of `Lemmas/StateTraj.lean` (labels in `[lo, hi]`, `lo ≤ 0`,
`hi - 2*lo < 2^31`), e.g. all non-negative labels below `2^31` -/
theorem model_meets_spec_of_window (ts : Trajs) (τ : Int) (iter : Bool) {lo hi : Int}
    (hw : LabelWindow ts lo hi) : dynamicalCoring ts τ iter = refSet ts τ iter :=
  model_meets_spec_of_encoding ts τ iter (fun x => (rank (states ts) x : Int)) (states ts)
    (mk'_eq_rank_of_window hw) (fun _ _ _ _ => Int.natCast_nonneg _)
    (fun t ht _ hx => labelOf_rank (mem_states.mpr (List.mem_flatten.mpr ⟨t, ht, hx⟩)))

example : LabelGuard [[-1, -1, 7, -1, -1, -1], [7, 7, 7, -1]] := by decide
/-- a first core labelled `-1` is handled correctly by the public function (contrast with the raw kernel above) -/
example : dynamicalCoring [[-1, -1, 7, -1, -1, -1], [7, 7, 7, -1]] 3 true
    = .ok [[-1, -1, -1, -1, -1, -1], [7, 7, 7, 7]] := by
  rw [model_meets_spec _ _ _ (by decide)]; rfl
example : dynamicalCoring [[-1, -1, 7, -1, -1, -1], [7, -1, 7]] 3 true = .error .lagtime := by
  rw [model_meets_spec _ _ _ (by decide)]; rfl
/-- … and directly on the model, without the theorem (oracle `holds` compares with the reference) -/
example : holds [[-1, -1, 7, -1, -1, -1], [7, 7, 7, -1]] 3 true
    (dynamicalCoring [[-1, -1, 7, -1, -1, -1], [7, 7, 7, -1]] 3 true) = true := by decide

end MsmVerif.C05
