/-
Refine/Cummat.lean — task RP9 (properties C07, C08): the TRANSLATED `_get_cummat` of `src/msmhelper/msm/timescales.py`
(`Gen/MsmCummat.lean`, array dialect; the estimation of the matrix from trajectories is replaced by the parameter `msm`)
computes exactly the model's `Mcmc.cumRow`, row by row.

`np.argsort` is an ORACLE parameter `ext_argsort` (its tie order is unspecified).  Contract assumed for every row of the input:
the oracle's answer, reversed (`[::-1]`) and read as naturals, is a permutation of `range n` (`Mcmc.isPermOfRange`).  That it is
also a descending sort is not needed for the equality.  Helper lemmas: `Refine/CummatLemmas.lean`.
-/
import MsmVerif.Refine.CummatLemmas

namespace MsmVerif.Refine.Cummat
open MsmVerif MsmVerif.Gen

/-- The runtime's `np.cumsum` (a left fold carrying the running sum) is the model's recursive `cumsum`, for every list. -/
theorem npCumsum_eq_cumsum (v : List Rat) : Gen.npCumsum v = Mcmc.cumsum v :=
  npCumsum_eq v

/-- For a matrix with any number of rows, all of length `n ≥ 1`, without negative entries, and an argsort oracle that answers
every row `r` of the matrix with (the reverse of) a permutation `ord r` of `range n`: `_get_cummat` raises nothing and returns,
row by row, exactly the model's cumulative row for the oracle's order, together with that order:
`cummat[i] = cumRow msm[i] (ord msm[i])`, `state_perm[i] = ord msm[i]`.  (Squareness is not needed; see `get_cummat_refines`.) -/
theorem get_cummat_refines_rect (ext_argsort : List Rat → Py (List Int)) (msm : List (List Rat)) (n : Nat) (hn : 1 ≤ n)
    (hrect : ∀ r ∈ msm, r.length = n) (hnonneg : ∀ r ∈ msm, ∀ x ∈ r, 0 ≤ x) (ord : List Rat → List Nat)
    (horacle : ∀ row ∈ msm, Mcmc.isPermOfRange (ord row) n = true
      ∧ ext_argsort row = .ok (((ord row).map Int.ofNat).reverse)) :
    Gen.MsmCummat.get_cummat ext_argsort msm
      = .ok (msm.map (fun row => Mcmc.cumRow row (ord row)), msm.map (fun row => (ord row).map Int.ofNat)) :=
  get_cummat_closed ext_argsort msm n hn hnonneg ord
    (fun r hr => ⟨hrect r hr, (horacle r hr).1, (horacle r hr).2⟩)

/-- For a square n×n matrix (n ≥ 1) without negative entries and an argsort oracle returning permutations, `_get_cummat` raises
nothing and returns, row by row, exactly the model's cumulative row for the oracle's order, together with that order:
`cummat[i] = cumRow msm[i] (ord msm[i])`, `state_perm[i] = ord msm[i]`. -/
theorem get_cummat_refines (ext_argsort : List Rat → Py (List Int)) (msm : List (List Rat)) (n : Nat) (hn : 1 ≤ n)
    (hsq : msm.length = n ∧ ∀ r ∈ msm, r.length = n) (hnonneg : ∀ r ∈ msm, ∀ x ∈ r, 0 ≤ x) (ord : List Rat → List Nat)
    (horacle : ∀ row ∈ msm, Mcmc.isPermOfRange (ord row) n = true
      ∧ ext_argsort row = .ok (((ord row).map Int.ofNat).reverse)) :
    Gen.MsmCummat.get_cummat ext_argsort msm
      = .ok (msm.map (fun row => Mcmc.cumRow row (ord row)), msm.map (fun row => (ord row).map Int.ofNat)) :=
  get_cummat_refines_rect ext_argsort msm n hn hsq.2 hnonneg ord horacle

/-- The same with the oracle contract in existential form (for every row SOME permutation of `range n` is what the oracle
returns, reversed): the visiting order is then read off the oracle's answer (`ordOf ext_argsort row` = the answer reversed,
as naturals); it is a permutation of `range n` for every row, and `_get_cummat` returns the model's cumulative rows for it. -/
theorem get_cummat_refines_exists (ext_argsort : List Rat → Py (List Int)) (msm : List (List Rat)) (n : Nat) (hn : 1 ≤ n)
    (hsq : msm.length = n ∧ ∀ r ∈ msm, r.length = n) (hnonneg : ∀ r ∈ msm, ∀ x ∈ r, 0 ≤ x)
    (horacle : ∀ row ∈ msm, ∃ order : List Nat, Mcmc.isPermOfRange order n = true
      ∧ ext_argsort row = .ok ((order.map Int.ofNat).reverse)) :
    (∀ row ∈ msm, Mcmc.isPermOfRange (ordOf ext_argsort row) n = true) ∧
    Gen.MsmCummat.get_cummat ext_argsort msm
      = .ok (msm.map (fun row => Mcmc.cumRow row (ordOf ext_argsort row)),
          msm.map (fun row => (ordOf ext_argsort row).map Int.ofNat)) := by
  have h : ∀ row ∈ msm, Mcmc.isPermOfRange (ordOf ext_argsort row) n = true
      ∧ ext_argsort row = .ok (((ordOf ext_argsort row).map Int.ofNat).reverse) := by
    intro row hrow
    obtain ⟨order, hperm, hext⟩ := horacle row hrow
    rw [ordOf_eq ext_argsort row order hext]
    exact ⟨hperm, hext⟩
  exact ⟨fun row hrow => (h row hrow).1, get_cummat_refines ext_argsort msm n hn hsq hnonneg _ h⟩

/-- A negative entry anywhere in the matrix ⇒ `ValueError`, whatever the oracle does (it is not consulted) and whatever the
shape of the matrix. -/
theorem get_cummat_negative (ext_argsort : List Rat → Py (List Int)) (msm : List (List Rat))
    (h : ∃ r ∈ msm, ∃ x ∈ r, x < 0) : Gen.MsmCummat.get_cummat ext_argsort msm = .error .value := by
  rw [get_cummat_unfold, if_pos ((any_neg_iff msm).mpr h)]

/-- Consequence used by C07 (`zero_never`), stated on the result of `_get_cummat`: under the hypotheses of
`get_cummat_refines`, if the call returns `(cum, perm)` then in row `i` every position `k ≥ npositive − 1` (where
`npositive ≥ 1` is the number of non-zero entries of `msm[i]`), and in any case the last position `k = n − 1`, holds exactly 1. -/
theorem get_cummat_forced_one (ext_argsort : List Rat → Py (List Int)) (msm : List (List Rat)) (n : Nat) (hn : 1 ≤ n)
    (hsq : msm.length = n ∧ ∀ r ∈ msm, r.length = n) (hnonneg : ∀ r ∈ msm, ∀ x ∈ r, 0 ≤ x) (ord : List Rat → List Nat)
    (horacle : ∀ row ∈ msm, Mcmc.isPermOfRange (ord row) n = true
      ∧ ext_argsort row = .ok (((ord row).map Int.ofNat).reverse))
    (cum : List (List Rat)) (perm : List (List Int))
    (hres : Gen.MsmCummat.get_cummat ext_argsort msm = .ok (cum, perm))
    (i k : Nat) (hi : i < n) (hk : k < n)
    (hforce : (((msm.getD i []).filter (fun p => p != 0)).length ≠ 0
        ∧ ((msm.getD i []).filter (fun p => p != 0)).length - 1 ≤ k) ∨ k + 1 = n) :
    (cum.getD i []).getD k 0 = 1 := by
  rw [get_cummat_refines ext_argsort msm n hn hsq hnonneg ord horacle] at hres
  have hcum : cum = msm.map (fun row => Mcmc.cumRow row (ord row)) := by
    injection hres with h; injection h with h1 _; exact h1.symm
  have him : i < msm.length := by omega
  have hmem : msm[i] ∈ msm := List.getElem_mem him
  have hol := (mem_lt_of_perm _ _ (horacle _ hmem).1).1
  rw [Mcmc.getD_of_lt _ _ him] at hforce
  rw [hcum, Mcmc.getD_of_lt (msm.map (fun row => Mcmc.cumRow row (ord row))) [] (k := i) (by simpa using him),
    List.getElem_map, cumRow_getD _ _ _ (by omega), hol,
    if_pos hforce]

/-- The same in the words of the source comment ("probability sums up to 1 at the last state with T_ij > 0"): if row `i` has a
non-zero entry and every state visited AFTER position `k` (in the oracle's order) has probability 0 in that row, then the
returned cumulative row holds exactly 1 at position `k` — so a uniform draw `u < 1` never gets past position `k`. -/
theorem get_cummat_forced_one_tail (ext_argsort : List Rat → Py (List Int)) (msm : List (List Rat)) (n : Nat) (hn : 1 ≤ n)
    (hsq : msm.length = n ∧ ∀ r ∈ msm, r.length = n) (hnonneg : ∀ r ∈ msm, ∀ x ∈ r, 0 ≤ x) (ord : List Rat → List Nat)
    (horacle : ∀ row ∈ msm, Mcmc.isPermOfRange (ord row) n = true
      ∧ ext_argsort row = .ok (((ord row).map Int.ofNat).reverse))
    (cum : List (List Rat)) (perm : List (List Int))
    (hres : Gen.MsmCummat.get_cummat ext_argsort msm = .ok (cum, perm))
    (i k : Nat) (hi : i < n) (hk : k < n)
    (hpos : ∃ x ∈ msm.getD i [], x ≠ 0)
    (htail : ∀ j, k < j → j < n → (msm.getD i []).getD ((ord (msm.getD i [])).getD j 0) 0 = 0) :
    (cum.getD i []).getD k 0 = 1 := by
  apply get_cummat_forced_one ext_argsort msm n hn hsq hnonneg ord horacle cum perm hres i k hi hk
  left
  have him : i < msm.length := by omega
  have hmem : msm[i] ∈ msm := List.getElem_mem him
  rw [Mcmc.getD_of_lt _ _ him] at hpos htail ⊢
  have hperm := (horacle _ hmem).1
  have hol := (mem_lt_of_perm _ _ hperm).1
  have hlen : msm[i].length = n := hsq.2 _ hmem
  constructor
  · obtain ⟨x, hx, hx0⟩ := hpos
    have : x ∈ msm[i].filter (fun p => p != 0) := by simp [hx, hx0]
    exact Nat.ne_of_gt (List.length_pos_of_mem this)
  · have := npos_le_of_tail_zero msm[i] (ord msm[i]) (by rw [hlen]; exact hperm) k
      (tail_zero_of_index _ _ _ (fun j h1 h2 => htail j h1 (by omega)))
    omega

/-! ### Non-vacuity: a concrete 3×3 matrix (one all-zero row, one row with a zero in the middle) and a concrete oracle -/

/-- a concrete argsort oracle: ascending positions from the model's descending insertion sort -/
private def exOrd (row : List Rat) : List Nat := (Mcmc.sortDesc row).map (·.2)
private def exArgsort (row : List Rat) : Py (List Int) := .ok (((exOrd row).map Int.ofNat).reverse)
private def exM : List (List Rat) := [[0, 0, 0], [1/2, 0, 1/2], [1/4, 1/2, 1/4]]

/-- the hypotheses of `get_cummat_refines` hold for the example -/
example : (exM.length = 3 ∧ ∀ r ∈ exM, r.length = 3) ∧ (∀ r ∈ exM, ∀ x ∈ r, 0 ≤ x) ∧
    (∀ row ∈ exM, Mcmc.isPermOfRange (exOrd row) 3 = true
      ∧ exArgsort row = .ok (((exOrd row).map Int.ofNat).reverse)) := by
  decide +kernel

/-- both sides of `get_cummat_refines` evaluate to the same concrete value -/
example : Gen.MsmCummat.get_cummat exArgsort exM
    = .ok ([[0, 0, 1], [1/2, 1, 1], [1/2, 3/4, 1]], [[2, 1, 0], [2, 0, 1], [1, 2, 0]]) := by
  decide +kernel

example : (exM.map (fun row => Mcmc.cumRow row (exOrd row)), exM.map (fun row => (exOrd row).map Int.ofNat))
    = ([[0, 0, 1], [1/2, 1, 1], [1/2, 3/4, 1]], [[2, 1, 0], [2, 0, 1], [1, 2, 0]]) := by
  decide +kernel

/-- corner `n = 1` (zero and non-zero entry), and `npositive = n` -/
example : Gen.MsmCummat.get_cummat exArgsort [[0]] = .ok ([Mcmc.cumRow [0] [0]], [[0]]) := by decide +kernel
example : Gen.MsmCummat.get_cummat exArgsort [[5]] = .ok ([Mcmc.cumRow [5] [0]], [[0]]) := by decide +kernel
example : Gen.MsmCummat.get_cummat exArgsort [[1/3, 2/3], [1/2, 1/2]]
    = .ok ([Mcmc.cumRow [1/3, 2/3] [1, 0], Mcmc.cumRow [1/2, 1/2] [1, 0]], [[1, 0], [1, 0]]) := by decide +kernel

/-- the hypotheses of `get_cummat_forced_one` / `get_cummat_forced_one_tail` hold for row 1 = `[1/2, 0, 1/2]` of the example at
position `k = 1` (`npositive = 2`; the state visited after position 1 has probability 0), and the returned entry is indeed 1;
in the all-zero row 0 only the last column is forced (position 1 holds 0) -/
example : ∃ cum perm, Gen.MsmCummat.get_cummat exArgsort exM = .ok (cum, perm)
    ∧ (((exM.getD 1 []).filter (fun p => p != 0)).length ≠ 0 ∧ ((exM.getD 1 []).filter (fun p => p != 0)).length - 1 ≤ 1)
    ∧ (∃ x ∈ exM.getD 1 [], x ≠ 0)
    ∧ (∀ j, 1 < j → j < 3 → (exM.getD 1 []).getD ((exOrd (exM.getD 1 [])).getD j 0) 0 = 0)
    ∧ (cum.getD 1 []).getD 1 0 = 1 ∧ (cum.getD 0 []).getD 1 0 = 0 ∧ (cum.getD 0 []).getD 2 0 = 1 :=
  ⟨[[0, 0, 1], [1/2, 1, 1], [1/2, 3/4, 1]], [[2, 1, 0], [2, 0, 1], [1, 2, 0]], by decide +kernel, by decide +kernel,
    by decide +kernel,
    (by intro j h1 h2
        obtain rfl : j = 2 := by omega
        decide +kernel),
    by decide +kernel, by decide +kernel, by decide +kernel⟩

/-- the hypothesis of `get_cummat_negative` is satisfiable, and the call raises `ValueError` -/
example : (∃ r ∈ [[1, 0], [(-1 : Rat)/2, 3/2]], ∃ x ∈ r, x < 0)
    ∧ Gen.MsmCummat.get_cummat exArgsort [[1, 0], [(-1 : Rat)/2, 3/2]] = .error .value := by
  decide +kernel

end MsmVerif.Refine.Cummat
