/-
Refine/ItsPlain.lean — task RP31 (property C10): the public `implied_timescales(trajs, lagtimes, ntimescales, reversible)` of
`src/msmhelper/msm/timescales.py` on PLAIN label trajectories, END TO END — the translated estimator (translated constructor
`StateTraj.__init__`, then the translated method `StateTraj.estimate_markov_model`: exactly the term `Refine/Public.lean` composes) plugged
into the estimator oracle of the translated public function (`Gen/MsmIts.lean`), with `nstates` = the number of states the constructor
stored.  Composition of `Refine/ItsEnd.lean` (public function relative to an estimator oracle, the contracts of `np.linalg.eig`, `argsort`
and `np.log`) with `Refine/Public.lean` / `Refine/Init.lean` (constructor + method = `Msm.estimate` under `LabelGuard`).

Two forms of the composed program are treated and shown equal (`its_plain_once_eq`, unconditional):
* `Gen.MsmIts.implied_timescales_n (plainEst ts flag) … (states ts).length …` — the estimator oracle replaced by `plainEst ts flag`;
* `itsPlainN … ts …` — construct the object ONCE, then run the public function on its state with `nstates = len(states)` (what Python does).

Results:
* `plain_estimate_total`, `plain_estimate_long_lag`: the plugged estimator is `Msm.estimate` and never fails for a lag `≥ 1`;
* `its_plain_refines`: for ALL oracles the estimator disappears — `mapM` of the row function on `Msm.specT ts τ`;
* `its_plain_end_to_end` (+ `_contracts`, `its_plain_eigenvalue_order`), `its_plain_default` (+ `_degenerate`), `its_plain_slowest_first`;
* errors: `its_plain_estimate_error`, `its_plain_solver_error`, `its_plain_too_many`, `its_plain_rejections`, `its_plain_long_lag`.

FINDING: the task expected a `LagtimeError` of the estimation for a lag time no trajectory is longer than.  There is none in this code path
(`LagtimeError` is raised only in `md/corrections.py`): `Msm.estimate`, and the translated estimator, return the ZERO matrix for such a lag,
its eigenvalues are all `0`, and the row of that lag consists of NaN (`its_plain_long_lag`).  Under `LabelGuard` the estimator raises
nothing at all, so "an estimation error propagates" (`its_plain_estimate_error`, first part) is true but never applies to guarded data.

Helper lemmas and the definitions `plainEst`, `itsPlainN`, `itsPlainDefault`: `Refine/ItsPlainLemmas.lean` (same namespace).
-/
import MsmVerif.Refine.ItsPlainLemmas

namespace MsmVerif.Refine.ItsPlain
open MsmVerif MsmVerif.Gen MsmVerif.Timescales
open MsmVerif.Refine.Its (LogContract entry)
open MsmVerif.Refine.Eigen (Accepted EigOk ArgsortOk SquareN sortedVals sortedVecs CxLeftEigenpair EigContractAt ArgsortContract)
open MsmVerif.Refine.ItsEnd (retEvs LogMonotone RealIn01)

variable {log : List Cx → Py (List Cx)} {L : Cx → Cx}
  {eig : List (List Rat) → Py (List Cx × List (List Cx))} {argsort : List Cx → Py (List Int)}

/-! ### the plugged estimator -/

/-- **The plugged estimator never fails (finding).**  For plain trajectories with labels in `[-2^29, 2^29]` and EVERY lag time `τ ≥ 1`
    — also one that no trajectory is longer than — constructing the `StateTraj` object and calling its `estimate_markov_model(τ)` (either
    value of the `DISABLE_JIT` flag) raises nothing: it returns the transition matrix `Msm.specT ts τ` (row-normalised lagged counts over
    the ascending distinct labels) and the state list, which is exactly what the model `Msm.estimate ts τ` returns.  In particular there is
    NO `LagtimeError` in this code path (`LagtimeError` exists only in `md/corrections.py`). -/
theorem plain_estimate_total (ts : Trajs) (hguard : LabelGuard ts) (flag : Bool) (τ : Int) (hτ : 1 ≤ τ) :
    plainEst ts flag τ = .ok (Msm.specT ts τ.toNat, states ts) ∧
    plainEst ts flag τ = (Msm.estimate ts τ.toNat).map (fun r => (r.2.1, r.2.2)) ∧
    Msm.estimate ts τ.toNat = .ok (Msm.specCounts ts τ.toNat, Msm.specT ts τ.toNat, states ts) :=
  ⟨plainEst_ok ts hguard flag τ hτ, plainEst_refines ts hguard flag τ hτ, estimate_ok ts hguard τ hτ⟩

/-- **A lag time no trajectory is longer than gives the ZERO matrix, not an error (finding).**  If every trajectory has at most `τ`
    frames (`τ ≥ 1`, labels within the guard) the plugged estimator returns the `n × n` zero matrix (`n` = number of distinct labels): there
    is no pair of frames `τ` apart, every row total is `0`, and `row_normalize_matrix` divides such rows by `1`. -/
theorem plain_estimate_long_lag (ts : Trajs) (hguard : LabelGuard ts) (flag : Bool) (τ : Int) (hτ : 1 ≤ τ)
    (hlong : ∀ t ∈ ts, (t.length : Int) ≤ τ) :
    plainEst ts flag τ = .ok (List.replicate (states ts).length (List.replicate (states ts).length 0), states ts) := by
  rw [plainEst_ok ts hguard flag τ hτ, specT_of_long ts τ.toNat (fun t ht => by have := hlong t ht; omega)]

/-- **Constructing once = plugging the estimator.**  For every trajectory set (no guard needed: the constructor never raises and stores the
    ascending distinct labels) and all arguments, the program "construct the `StateTraj` object, then run the public function with the
    object's method as estimator and `nstates = len(states)`" is the translated public function with `plainEst ts flag` as estimator
    oracle and `nstates` = the number of distinct labels — for an explicit `ntimescales` and for `ntimescales=None`. -/
theorem its_plain_once_eq (log : List Cx → Py (List Cx)) (eig : List (List Rat) → Py (List Cx × List (List Cx)))
    (argsort : List Cx → Py (List Int)) (ts : Trajs) (lags : List Int) (nts : Int) (rev flag : Bool) :
    itsPlainN log eig argsort ts lags nts rev flag =
      Gen.MsmIts.implied_timescales_n (plainEst ts flag) log eig argsort ((states ts).length : Int) lags nts rev ∧
    itsPlainDefault log eig argsort ts lags rev flag =
      Gen.MsmIts.implied_timescales_default (plainEst ts flag) log eig argsort ((states ts).length : Int) lags rev :=
  ⟨itsPlainN_eq log eig argsort ts lags nts rev flag, itsPlainDefault_eq log eig argsort ts lags rev flag⟩

/-- **The estimator disappears: the public function on plain trajectories for ALL oracles.**  Labels within the guard, lag times all
    `≥ 1`, `reversible = False`, `0 ≤ ntimescales`; NO assumption on the logarithm, the eigen-solver or `argsort`.  The public function with
    the translated estimator plugged in (and the construct-once program) is `mapM`, over the lag times in the order of the argument, of:
    run `_implied_timescales` on the matrix `Msm.specT ts τ` of `Msm.estimate ts τ`, raise `ValueError` unless the row has `ntimescales`
    entries, take the real part.  Hence every error the call can raise comes from the row function (eigen-solver wrapper, logarithm) or the
    shape check — never from the estimation. -/
theorem its_plain_refines (log : List Cx → Py (List Cx)) (eig : List (List Rat) → Py (List Cx × List (List Cx)))
    (argsort : List Cx → Py (List Int)) (ts : Trajs) (hguard : LabelGuard ts) (flag : Bool) (lags : List Int) (nts : Int)
    (hpos : ∀ l ∈ lags, 1 ≤ l) (hnts : 0 ≤ nts) :
    Gen.MsmIts.implied_timescales_n (plainEst ts flag) log eig argsort ((states ts).length : Int) lags nts false =
      lags.mapM (fun τ => do
        let row ← Gen.MsmIts.implied_timescales log eig argsort (Msm.specT ts τ.toNat) τ nts
        if (row.length : Int) = nts then pure (row.map cxReal) else throw Err.value) ∧
    itsPlainN log eig argsort ts lags nts false flag =
      lags.mapM (fun τ => do
        let row ← Gen.MsmIts.implied_timescales log eig argsort (Msm.specT ts τ.toNat) τ nts
        if (row.length : Int) = nts then pure (row.map cxReal) else throw Err.value) := by
  have h1 : Gen.MsmIts.implied_timescales_n (plainEst ts flag) log eig argsort ((states ts).length : Int) lags nts false =
      lags.mapM (fun τ => do
        let row ← Gen.MsmIts.implied_timescales log eig argsort (Msm.specT ts τ.toNat) τ nts
        if (row.length : Int) = nts then pure (row.map cxReal) else throw Err.value) := by
    rw [Its.its_api_refines _ log eig argsort _ lags nts hpos hnts]
    apply mapM_congr
    intro τ hτ
    rw [plainEst_ok ts hguard flag τ (hpos τ hτ)]
    rfl
  exact ⟨h1, by rw [itsPlainN_eq]; exact h1⟩

/-! ### the public function on plain trajectories -/

/-- **`implied_timescales` on plain trajectories, end to end.**  Plain label trajectories `ts` (ragged, empty ones allowed) with labels in
    `[-2^29, 2^29]`, `n` = number of distinct labels; lag times all `≥ 1` in any order, repetitions allowed; `reversible = False`;
    `0 ≤ ntimescales`, `ntimescales + 1 ≤ n`; the logarithm meets its contract; for every listed lag time `τ` the eigen-solver and `argsort`
    meet their contracts on the transpose of the estimated matrix `Msm.specT ts τ` (answers `w τ`, `V τ`, `p τ`; this needs `n ≥ 2`).  Then
    the public function with the translated estimator plugged in — and equally the program that constructs the object once — raises nothing
    and returns `res` with one row per lag time in the order of the argument.  For row `i`: `Msm.estimate ts lags[i]` returns the matrix
    `T = Msm.specT ts lags[i]`; the row has `ntimescales` entries; entry `k` is the REAL PART of `entry lags[i] L ev` where `ev` is the
    `(k+2)`-th largest eigenvalue the wrapper returned: it is (up to `real_if_close`) the solver's `(k+2)`-th largest eigenvalue `λ`, and `λ`
    is a LEFT eigenvalue of `T` (`v T = λ v` for a non-zero `v`).  (`entry τ L ev` is NaN or `-τ / L(ev)` with positive real part according to
    `Timescales.codeKind`, see `Its.entry_kind`.) -/
theorem its_plain_end_to_end (hlog : LogContract log L) (ts : Trajs) (hguard : LabelGuard ts) (flag : Bool)
    (lags : List Int) (nts : Int) (w : Int → List Cx) (V : Int → List (List Cx)) (p : Int → List Int)
    (hpos : ∀ l ∈ lags, 1 ≤ l) (h0 : 0 ≤ nts) (hn : nts + 1 ≤ ((states ts).length : Int))
    (hacc : ∀ τ ∈ lags, Accepted eig argsort (npTranspose (Msm.specT ts τ.toNat)) (states ts).length (w τ) (V τ) (p τ)) :
    ∃ res, Gen.MsmIts.implied_timescales_n (plainEst ts flag) log eig argsort ((states ts).length : Int) lags nts false = .ok res ∧
      itsPlainN log eig argsort ts lags nts false flag = .ok res ∧
      res = lags.map (fun τ => ((retEvs (w τ) (p τ) nts).drop 1).map (fun ev => cxReal (entry τ L ev))) ∧
      res.length = lags.length ∧
      ∀ (i : Nat) (hi : i < lags.length),
        Msm.estimate ts lags[i].toNat = .ok (Msm.specCounts ts lags[i].toNat, Msm.specT ts lags[i].toNat, states ts) ∧
        (res.getD i []).length = nts.toNat ∧
        ∀ k, k < nts.toNat → ∃ ev lam v,
          ev = (retEvs (w lags[i]) (p lags[i]) nts).getD (k + 1) none ∧
          lam = (sortedVals (w lags[i]) (p lags[i])).getD (k + 1) none ∧ lam ∈ w lags[i] ∧
          CxLeftEigenpair (Msm.specT ts lags[i].toNat) lam v ∧
          (ev = lam ∨ (cxImagSmall lam = true ∧ ev = cxReal lam)) ∧
          (res.getD i []).getD k none = cxReal (entry lags[i] L ev) := by
  have hest : ∀ τ ∈ lags, ∃ sts, plainEst ts flag τ = .ok (Msm.specT ts τ.toNat, sts) :=
    fun τ hτ => ⟨_, plainEst_ok ts hguard flag τ (hpos τ hτ)⟩
  obtain ⟨res, hres, hv, hl, hrows⟩ := ItsEnd.its_api_end_to_end (plainEst ts flag) hlog ((states ts).length : Int) lags nts
    (fun τ => Msm.specT ts τ.toNat) (fun _ => (states ts).length) w V p hpos h0 hest hacc (fun _ _ => hn)
  refine ⟨res, hres, by rw [itsPlainN_eq]; exact hres, hv, hl, ?_⟩
  intro i hi
  have hmem : lags[i] ∈ lags := List.getElem_mem hi
  obtain ⟨-, hlen, hget⟩ := hrows i hi
  obtain ⟨-, -, -, heig⟩ := ItsEnd.its_row_eigenvalues (specT_square ts lags[i].toNat) (hacc _ hmem) nts h0 hn
  refine ⟨estimate_ok ts hguard _ (hpos _ hmem), hlen, ?_⟩
  intro k hk
  obtain ⟨lam, v, hlam, hmemw, hpair, hor⟩ := heig (k + 1) (by omega)
  exact ⟨_, lam, v, rfl, hlam, hmemw, hpair, hor, hget k hk⟩

/-- **Order of the eigenvalues behind a row.**  Hypotheses of `its_plain_end_to_end`, `τ` a listed lag time: the `ntimescales + 1` values
    `retEvs (w τ) (p τ) ntimescales` the row of `τ` is computed from are descending in numpy's lexicographic order, and the first one — the
    one the row skips (the stationary eigenvalue `1` for a stochastic matrix) — is the largest of all eigenvalues the solver found. -/
theorem its_plain_eigenvalue_order (ts : Trajs) (nts : Int) (τ : Int) {w : List Cx} {V : List (List Cx)} {p : List Int}
    (h0 : 0 ≤ nts) (hn : nts + 1 ≤ ((states ts).length : Int))
    (hacc : Accepted eig argsort (npTranspose (Msm.specT ts τ.toNat)) (states ts).length w V p) :
    (retEvs w p nts).length = nts.toNat + 1 ∧
    (retEvs w p nts).Pairwise (fun a b => cxGe a b = true) ∧
    (∀ z ∈ w, cxGe ((sortedVals w p).getD 0 none) z = true) := by
  obtain ⟨h1, h2, h3, -⟩ := ItsEnd.its_row_eigenvalues (specT_square ts τ.toNat) hacc nts h0 hn
  exact ⟨h1, h2, h3⟩

/-- **The same with the oracle CONTRACTS as hypotheses.**  Instead of naming the oracles' answers: `argsort` meets its contract
    (`ArgsortContract`: on every NaN-free array a sorting permutation) and the eigen-solver meets its contract on the transpose of every
    estimated matrix (`EigContractAt`: `n` eigenvalues and an `n × n` table whose columns are eigenvectors); `n ≥ 2` distinct labels.  Then
    there are answers `w, V, p` with all hypotheses — hence all conclusions — of `its_plain_end_to_end`; the value is repeated here. -/
theorem its_plain_end_to_end_contracts (hlog : LogContract log L) (hsort : ArgsortContract argsort) (ts : Trajs)
    (hguard : LabelGuard ts) (flag : Bool) (lags : List Int) (nts : Int)
    (hpos : ∀ l ∈ lags, 1 ≤ l) (h0 : 0 ≤ nts) (hn : nts + 1 ≤ ((states ts).length : Int)) (h2 : 2 ≤ (states ts).length)
    (heig : ∀ τ ∈ lags, EigContractAt eig (npTranspose (Msm.specT ts τ.toNat))) :
    ∃ (w : Int → List Cx) (V : Int → List (List Cx)) (p : Int → List Int),
      (∀ τ ∈ lags, Accepted eig argsort (npTranspose (Msm.specT ts τ.toNat)) (states ts).length (w τ) (V τ) (p τ)) ∧
      Gen.MsmIts.implied_timescales_n (plainEst ts flag) log eig argsort ((states ts).length : Int) lags nts false =
        .ok (lags.map (fun τ => ((retEvs (w τ) (p τ) nts).drop 1).map (fun ev => cxReal (entry τ L ev)))) ∧
      itsPlainN log eig argsort ts lags nts false flag =
        .ok (lags.map (fun τ => ((retEvs (w τ) (p τ) nts).drop 1).map (fun ev => cxReal (entry τ L ev)))) := by
  have hex : ∀ τ : Int, ∃ a : List Cx × List (List Cx) × List Int, τ ∈ lags →
      Accepted eig argsort (npTranspose (Msm.specT ts τ.toNat)) (states ts).length a.1 a.2.1 a.2.2 := by
    intro τ
    by_cases hτ : τ ∈ lags
    · obtain ⟨w, V, p, h⟩ := Eigen.accepted_transpose_of_contracts (specT_square ts τ.toNat) h2 (heig τ hτ) hsort
      exact ⟨(w, V, p), fun _ => h⟩
    · exact ⟨([], [], []), fun h => absurd h hτ⟩
  have hacc : ∀ τ ∈ lags, Accepted eig argsort (npTranspose (Msm.specT ts τ.toNat)) (states ts).length
      (Classical.choose (hex τ)).1 (Classical.choose (hex τ)).2.1 (Classical.choose (hex τ)).2.2 :=
    fun τ hτ => Classical.choose_spec (hex τ) hτ
  obtain ⟨res, hres, hres', hv, -⟩ := its_plain_end_to_end hlog ts hguard flag lags nts _ _ _ hpos h0 hn hacc
  exact ⟨_, _, _, hacc, by rw [hres, hv], by rw [hres', hv]⟩

/-- **The default `ntimescales = nstates − 1` on plain trajectories.**  `ntimescales=None`: the number of timescales is
    (number of distinct labels) `− 1`, where the number of distinct labels `n` is the length of the state list the constructor stored
    (`its_plain_once_eq`).  Trajectories within the label guard with at least one frame (`n ≥ 1`), lag times all `≥ 1`, contracts as in
    `its_plain_end_to_end`: no exception; one row per lag time in the order of the argument; every row has `n − 1` entries, one for EVERY
    eigenvalue the solver returned for `Msm.specT ts τ` except the largest (stationary) one, computed from `real_if_close` of all `n`
    eigenvalues in descending order.  The call equals the call with the explicit `ntimescales = n − 1`, so all statements of
    `its_plain_end_to_end` apply to it. -/
theorem its_plain_default (hlog : LogContract log L) (ts : Trajs) (hguard : LabelGuard ts) (flag : Bool)
    (lags : List Int) (w : Int → List Cx) (V : Int → List (List Cx)) (p : Int → List Int)
    (hpos : ∀ l ∈ lags, 1 ≤ l) (hn1 : 1 ≤ (states ts).length)
    (hacc : ∀ τ ∈ lags, Accepted eig argsort (npTranspose (Msm.specT ts τ.toNat)) (states ts).length (w τ) (V τ) (p τ)) :
    ∃ res, Gen.MsmIts.implied_timescales_default (plainEst ts flag) log eig argsort ((states ts).length : Int) lags false = .ok res ∧
      itsPlainDefault log eig argsort ts lags false flag = .ok res ∧
      Gen.MsmIts.implied_timescales_n (plainEst ts flag) log eig argsort ((states ts).length : Int) lags
        (((states ts).length : Int) - 1) false = .ok res ∧
      res = lags.map (fun τ => ((npRealIfClose1 (sortedVals (w τ) (p τ))).drop 1).map (fun ev => cxReal (entry τ L ev))) ∧
      res.length = lags.length ∧ ∀ r ∈ res, r.length = (states ts).length - 1 := by
  have hest : ∀ τ ∈ lags, ∃ sts, plainEst ts flag τ = .ok (Msm.specT ts τ.toNat, sts) :=
    fun τ hτ => ⟨_, plainEst_ok ts hguard flag τ (hpos τ hτ)⟩
  obtain ⟨res, hres, hv, hl, hrl⟩ := ItsEnd.its_api_default_end_to_end (plainEst ts flag) hlog lags (states ts).length hn1
    (fun τ => Msm.specT ts τ.toNat) w V p hpos hest hacc
  exact ⟨res, hres, by rw [itsPlainDefault_eq]; exact hres, by rw [← Its.its_api_default_eq]; exact hres, hv, hl, hrl⟩

/-- **The default without frames, and with a single state.**  `ntimescales=None`, lag times all `≥ 1`.  (a) If the trajectories hold no
    frame at all (no labels, `n = 0`) the default is `ntimescales = −1` and the call raises `ValueError` (`np.zeros` with a negative
    dimension), also for the empty lag-time list.  (b) If there is exactly one distinct label (`n = 1`, within the guard) the default is
    `ntimescales = 0`, and for a non-empty lag-time list the call raises `TypeError`: the estimated matrix is `1 × 1`, which
    `linalg._eigenvectors` (`is_quadratic`) rejects — whatever the oracles are. -/
theorem its_plain_default_degenerate (log : List Cx → Py (List Cx)) (eig : List (List Rat) → Py (List Cx × List (List Cx)))
    (argsort : List Cx → Py (List Int)) (ts : Trajs) (flag : Bool) (lags : List Int) (hpos : ∀ l ∈ lags, 1 ≤ l) :
    ((states ts).length = 0 →
      Gen.MsmIts.implied_timescales_default (plainEst ts flag) log eig argsort ((states ts).length : Int) lags false = .error .value ∧
      itsPlainDefault log eig argsort ts lags false flag = .error .value) ∧
    ((states ts).length = 1 → LabelGuard ts → lags ≠ [] →
      Gen.MsmIts.implied_timescales_default (plainEst ts flag) log eig argsort ((states ts).length : Int) lags false = .error .type ∧
      itsPlainDefault log eig argsort ts lags false flag = .error .type) := by
  constructor
  · intro h
    have h1 : Gen.MsmIts.implied_timescales_default (plainEst ts flag) log eig argsort ((states ts).length : Int) lags false
        = .error .value := by
      rw [Its.its_api_default_eq]
      exact Its.its_api_rejects_negative_ntimescales _ _ _ _ _ _ _ hpos (by omega)
    exact ⟨h1, by rw [itsPlainDefault_eq]; exact h1⟩
  · intro h hguard hne
    have h1 : Gen.MsmIts.implied_timescales_default (plainEst ts flag) log eig argsort ((states ts).length : Int) lags false
        = .error .type := by
      rw [Its.its_api_default_eq]
      obtain ⟨τ0, rest, rfl⟩ := List.exists_cons_of_ne_nil hne
      have hτ0 : 1 ≤ τ0 := hpos τ0 List.mem_cons_self
      refine Its.its_api_first_error _ _ _ _ _ _ [] τ0 rest .type hpos (by omega) (fun _ h => absurd h List.not_mem_nil) ?_
      unfold Its.apiRow
      rw [plainEst_ok ts hguard flag τ0 hτ0]
      simp only [bind, Except.bind]
      rw [Its.its_row_error log eig argsort _ τ0 _ .type (one_state_solver_error eig argsort ts τ0.toNat h _)]
    exact ⟨h1, by rw [itsPlainDefault_eq]; exact h1⟩

/-- **"Slowest first" on plain trajectories.**  Hypotheses of `its_plain_end_to_end`, the logarithm stand-in is monotone on the positive
    real axis, and for every listed lag time the returned eigenvalues but the first are real numbers of `(0, 1)`: every row of the result
    consists of `ntimescales` positive REAL numbers in NON-INCREASING order. -/
theorem its_plain_slowest_first (hlog : LogContract log L) (hmono : LogMonotone L) (ts : Trajs) (hguard : LabelGuard ts) (flag : Bool)
    (lags : List Int) (nts : Int) (w : Int → List Cx) (V : Int → List (List Cx)) (p : Int → List Int)
    (hpos : ∀ l ∈ lags, 1 ≤ l) (h0 : 0 ≤ nts) (hn : nts + 1 ≤ ((states ts).length : Int))
    (hacc : ∀ τ ∈ lags, Accepted eig argsort (npTranspose (Msm.specT ts τ.toNat)) (states ts).length (w τ) (V τ) (p τ))
    (hreal : ∀ τ ∈ lags, ∀ z ∈ (retEvs (w τ) (p τ) nts).drop 1, RealIn01 z) :
    ∃ res, Gen.MsmIts.implied_timescales_n (plainEst ts flag) log eig argsort ((states ts).length : Int) lags nts false = .ok res ∧
      itsPlainN log eig argsort ts lags nts false flag = .ok res ∧ res.length = lags.length ∧
      ∀ r ∈ res, ∃ xs : List Rat, r = xs.map (fun t => some (t, 0)) ∧ xs.length = nts.toNat ∧ (∀ t ∈ xs, 0 < t) ∧
        xs.Pairwise (fun s t => t ≤ s) := by
  have hest : ∀ τ ∈ lags, ∃ sts, plainEst ts flag τ = .ok (Msm.specT ts τ.toNat, sts) :=
    fun τ hτ => ⟨_, plainEst_ok ts hguard flag τ (hpos τ hτ)⟩
  obtain ⟨res, hres, hl, hrows⟩ := ItsEnd.its_api_slowest_first (plainEst ts flag) hlog hmono ((states ts).length : Int) lags nts
    (fun τ => Msm.specT ts τ.toNat) (fun _ => (states ts).length) w V p hpos h0 hest hacc (fun _ _ => hn) hreal
  exact ⟨res, hres, by rw [itsPlainN_eq]; exact hres, hl, hrows⟩

/-- **A lag time no trajectory is longer than gives a row of NaN (finding: not a `LagtimeError`).**  Hypotheses of
    `its_plain_end_to_end`.  If `lags[i]` is at least the length of every trajectory, the estimated matrix is the zero matrix, all its
    eigenvalues are `0` — whatever a solver meeting its contract answers — and row `i` of the result consists of `ntimescales` NaN. -/
theorem its_plain_long_lag (hlog : LogContract log L) (ts : Trajs) (hguard : LabelGuard ts) (flag : Bool)
    (lags : List Int) (nts : Int) (w : Int → List Cx) (V : Int → List (List Cx)) (p : Int → List Int)
    (hpos : ∀ l ∈ lags, 1 ≤ l) (h0 : 0 ≤ nts) (hn : nts + 1 ≤ ((states ts).length : Int))
    (hacc : ∀ τ ∈ lags, Accepted eig argsort (npTranspose (Msm.specT ts τ.toNat)) (states ts).length (w τ) (V τ) (p τ)) :
    ∃ res, Gen.MsmIts.implied_timescales_n (plainEst ts flag) log eig argsort ((states ts).length : Int) lags nts false = .ok res ∧
      ∀ (i : Nat) (hi : i < lags.length), (∀ t ∈ ts, (t.length : Int) ≤ lags[i]) →
        res.getD i [] = List.replicate nts.toNat none := by
  obtain ⟨res, hres, -, -, -, hrows⟩ := its_plain_end_to_end hlog ts hguard flag lags nts w V p hpos h0 hn hacc
  refine ⟨res, hres, ?_⟩
  intro i hi hlong
  obtain ⟨-, hlen, hk⟩ := hrows i hi
  have hzero : ∀ r ∈ Msm.specT ts lags[i].toNat, ∀ x ∈ r, x = 0 := by
    rw [specT_of_long ts lags[i].toNat (fun t ht => by have := hlong t ht; omega)]
    exact replicate_entries_zero _
  apply List.ext_getElem
  · rw [hlen, List.length_replicate]
  · intro k h1 h2
    rw [List.length_replicate] at h2
    obtain ⟨ev, lam, v, -, -, -, hpair, hor, hval⟩ := hk k h2
    have hlam := left_eigenvalue_of_zero hzero hpair
    have hev : ev = some (0, 0) := by
      rcases hor with h | ⟨-, h⟩
      · rw [h, hlam]
      · rw [h, hlam]; rfl
    have hg : (res.getD i []).getD k none = (res.getD i [])[k] := by
      rw [List.getD_eq_getElem?_getD, List.getElem?_eq_getElem h1]; rfl
    rw [List.getElem_replicate, ← hg, hval, hev, entry_zero hlog]

/-! ### errors -/

/-- **An estimation error would propagate — but under the label guard there is none (finding).**  For EVERY trajectory set (no guard) and
    all oracles: all lag times `≥ 1`, `reversible = False`, `0 ≤ ntimescales`, the lag-time list is `pre ++ τ₀ :: rest`, every lag time of
    `pre` yields an accepted row, and the plugged estimator raises `e` at `τ₀` — then the public function (and the construct-once program)
    raises `e`; the lag times of `rest` are not tried.  However (second part) for labels within the guard the premise is unsatisfiable:
    the plugged estimator raises at NO lag time `≥ 1`; in particular the `LagtimeError` the task expected for a lag no trajectory is longer
    than does not exist (see `plain_estimate_long_lag`, `its_plain_long_lag`: such a lag yields the zero matrix and a row of NaN). -/
theorem its_plain_estimate_error (log : List Cx → Py (List Cx)) (eig : List (List Rat) → Py (List Cx × List (List Cx)))
    (argsort : List Cx → Py (List Int)) (ts : Trajs) (flag : Bool) (nts : Int) (pre : List Int) (τ0 : Int) (rest : List Int) (e : Err)
    (hpos : ∀ l ∈ pre ++ τ0 :: rest, 1 ≤ l) (hnts : 0 ≤ nts)
    (hpre : ∀ τ ∈ pre, ∃ v, Its.apiRow (plainEst ts flag) log eig argsort nts τ = .ok v) :
    (plainEst ts flag τ0 = .error e →
      Gen.MsmIts.implied_timescales_n (plainEst ts flag) log eig argsort ((states ts).length : Int) (pre ++ τ0 :: rest) nts false
        = .error e ∧
      itsPlainN log eig argsort ts (pre ++ τ0 :: rest) nts false flag = .error e) ∧
    (LabelGuard ts → plainEst ts flag τ0 ≠ .error e) := by
  constructor
  · intro h
    have h1 : Gen.MsmIts.implied_timescales_n (plainEst ts flag) log eig argsort ((states ts).length : Int) (pre ++ τ0 :: rest)
        nts false = .error e := by
      refine Its.its_api_first_error _ _ _ _ _ _ pre τ0 rest e hpos hnts hpre ?_
      unfold Its.apiRow
      rw [h]
      rfl
    exact ⟨h1, by rw [itsPlainN_eq]; exact h1⟩
  · intro hguard h
    rw [plainEst_ok ts hguard flag τ0 (hpos τ0 (by simp))] at h
    cases h

/-- **An error of the eigen-solver wrapper propagates.**  Labels within the guard, all lag times `≥ 1`, `reversible = False`,
    `0 ≤ ntimescales`, the logarithm meets its contract; the lag-time list is `pre ++ τ₀ :: rest`; for the lag times of `pre` the solver
    and `argsort` meet their contracts (with `ntimescales + 1 ≤ n`), and for `τ₀` the wrapper `left_eigenvalues(T, ntimescales + 1)` raises
    `e` on the estimated matrix `T = Msm.specT ts τ₀` (e.g. an error of `np.linalg.eig`, or the `TypeError` of `its_plain_too_many`).  Then
    the public function raises `e`. -/
theorem its_plain_solver_error (hlog : LogContract log L) (ts : Trajs) (hguard : LabelGuard ts) (flag : Bool) (nts : Int)
    (pre : List Int) (τ0 : Int) (rest : List Int) (e : Err)
    (w : Int → List Cx) (V : Int → List (List Cx)) (p : Int → List Int)
    (hpos : ∀ l ∈ pre ++ τ0 :: rest, 1 ≤ l) (h0 : 0 ≤ nts) (hn : nts + 1 ≤ ((states ts).length : Int))
    (hacc : ∀ τ ∈ pre, Accepted eig argsort (npTranspose (Msm.specT ts τ.toNat)) (states ts).length (w τ) (V τ) (p τ))
    (herr : Gen.MsmLinalg.left_eigenvalues_n eig argsort (Msm.specT ts τ0.toNat) (nts + 1) = .error e) :
    Gen.MsmIts.implied_timescales_n (plainEst ts flag) log eig argsort ((states ts).length : Int) (pre ++ τ0 :: rest) nts false
      = .error e ∧
    itsPlainN log eig argsort ts (pre ++ τ0 :: rest) nts false flag = .error e := by
  have h1 : Gen.MsmIts.implied_timescales_n (plainEst ts flag) log eig argsort ((states ts).length : Int) (pre ++ τ0 :: rest)
      nts false = .error e := by
    refine Its.its_api_first_error _ _ _ _ _ _ pre τ0 rest e hpos h0 ?_ ?_
    · intro τ hτ
      have hτ1 : 1 ≤ τ := hpos τ (List.mem_append_left _ hτ)
      obtain ⟨row, hrow, -, hlen, -⟩ := ItsEnd.its_row_end_to_end hlog (hacc τ hτ) τ nts h0 hn
      refine ⟨row.map cxReal, ?_⟩
      unfold Its.apiRow
      rw [plainEst_ok ts hguard flag τ hτ1]
      simp only [bind, Except.bind]
      rw [hrow]
      simp only
      rw [if_pos hlen]
      rfl
    · unfold Its.apiRow
      rw [plainEst_ok ts hguard flag τ0 (hpos τ0 (by simp))]
      simp only [bind, Except.bind]
      rw [Its.its_row_error log eig argsort _ τ0 nts e herr]
  exact ⟨h1, by rw [itsPlainN_eq]; exact h1⟩

/-- **More timescales than the matrix has further eigenvalues: `TypeError`.**  Labels within the guard, `n ≥ 2` distinct labels, a non-empty
    list of lag times `≥ 1`, `reversible = False`, `ntimescales + 1 > n`: the call raises `TypeError` (`linalg._eigenvectors` refuses
    `nvals > n`) at the first lag time — whatever the oracles are (they are not consulted). -/
theorem its_plain_too_many (log : List Cx → Py (List Cx)) (eig : List (List Rat) → Py (List Cx × List (List Cx)))
    (argsort : List Cx → Py (List Int)) (ts : Trajs) (hguard : LabelGuard ts) (flag : Bool) (nts : Int)
    (τ0 : Int) (rest : List Int) (hpos : ∀ l ∈ τ0 :: rest, 1 ≤ l) (h2 : 2 ≤ (states ts).length)
    (hn : ((states ts).length : Int) < nts + 1) :
    Gen.MsmIts.implied_timescales_n (plainEst ts flag) log eig argsort ((states ts).length : Int) (τ0 :: rest) nts false
      = .error .type ∧
    itsPlainN log eig argsort ts (τ0 :: rest) nts false flag = .error .type := by
  have h1 : Gen.MsmIts.implied_timescales_n (plainEst ts flag) log eig argsort ((states ts).length : Int) (τ0 :: rest)
      nts false = .error .type := by
    refine Its.its_api_first_error _ _ _ _ _ _ [] τ0 rest .type hpos (by omega) (fun _ h => absurd h List.not_mem_nil) ?_
    unfold Its.apiRow
    rw [plainEst_ok ts hguard flag τ0 (hpos τ0 List.mem_cons_self)]
    simp only [bind, Except.bind]
    rw [Its.its_row_error log eig argsort _ τ0 nts .type (too_many_solver_error eig argsort ts τ0.toNat h2 _ hn)]
  exact ⟨h1, by rw [itsPlainN_eq]; exact h1⟩

/-- **The argument checks on plain trajectories** (no guard needed — the constructor never raises): a lag time `≤ 0` anywhere in the list is
    a `TypeError`; otherwise `reversible = True` is a `NotImplementedError`; otherwise a negative `ntimescales` is a `ValueError`. -/
theorem its_plain_rejections (log : List Cx → Py (List Cx)) (eig : List (List Rat) → Py (List Cx × List (List Cx)))
    (argsort : List Cx → Py (List Int)) (ts : Trajs) (flag : Bool) (lags : List Int) (nts : Int) :
    (∀ rev l, l ∈ lags → l ≤ 0 → itsPlainN log eig argsort ts lags nts rev flag = .error .type) ∧
    ((∀ l ∈ lags, 1 ≤ l) → itsPlainN log eig argsort ts lags nts true flag = .error .notImplemented) ∧
    ((∀ l ∈ lags, 1 ≤ l) → nts < 0 → itsPlainN log eig argsort ts lags nts false flag = .error .value) := by
  refine ⟨fun rev l hl hl0 => ?_, fun hpos => ?_, fun hpos hnts => ?_⟩
  · rw [itsPlainN_eq]; exact Its.its_api_rejects_nonpositive_lag _ _ _ _ _ _ _ _ l hl hl0
  · rw [itsPlainN_eq]; exact Its.its_api_rejects_reversible _ _ _ _ _ _ _ hpos
  · rw [itsPlainN_eq]; exact Its.its_api_rejects_negative_ntimescales _ _ _ _ _ _ _ hpos hnts

/-! ### non-vacuity: concrete trajectories, concrete oracles -/

open MsmVerif.Refine.ItsEnd (exL exLog exLog_contract exL_monotone exArgsort)

/-- two labels `-5 < 3`: a ragged set with a one-frame and an empty trajectory (longest trajectory: 7 frames) -/
def exTs : Trajs := [[-5, -5, -5, -5, 3, 3, -5], [3], []]
/-- three labels `-5 < 3 < 7` -/
def exTs3 : Trajs := [[-5, -5, 3, 3, 7, 7], [3, 7], [3, 7]]

/-- the model of `exTs` at lag 2: eigenvalues `1, -½` -/
def exB : List (List Rat) := [[1/2, 1/2], [1, 0]]
/-- … and at lag 7 (no trajectory is longer): the zero matrix -/
def exZ : List (List Rat) := [[0, 0], [0, 0]]
/-- the model of `exTs3` at lag 2: nilpotent, eigenvalues `0, 0, 0` (a single eigen-direction) -/
def exN : List (List Rat) := [[0, 1, 0], [0, 0, 1], [0, 0, 0]]

/-- what the estimator returns on the two sets: at lag 1 the matrices `exA` (eigenvalues `1, ¼`) and `exT` (eigenvalues `1, ½, ¼`) of
    `Refine/ItsEnd.lean` -/
example : LabelGuard exTs ∧ LabelGuard exTs3 ∧ states exTs = [-5, 3] ∧ states exTs3 = [-5, 3, 7] := by decide +kernel
example : Msm.specT exTs (1 : Int).toNat = ItsEnd.exA ∧ Msm.specT exTs (2 : Int).toNat = exB ∧ Msm.specT exTs (7 : Int).toNat = exZ ∧
    Msm.specT exTs3 (1 : Int).toNat = ItsEnd.exT ∧ Msm.specT exTs3 (2 : Int).toNat = exN := by decide +kernel
/-- `plain_estimate_total`, evaluated: the translated constructor + method on `exTs` -/
example : plainEst exTs true 1 = .ok (ItsEnd.exA, [-5, 3]) ∧ plainEst exTs false 2 = .ok (exB, [-5, 3]) ∧
    plainEst exTs true 7 = .ok (exZ, [-5, 3]) ∧ plainEst exTs3 false 1 = .ok (ItsEnd.exT, [-5, 3, 7]) := by decide +kernel
/-- `plain_estimate_long_lag` applies to lag 7 (and the expected `LagtimeError` is not raised) -/
example : (∀ t ∈ exTs, (t.length : Int) ≤ 7) ∧ plainEst exTs true 7 ≠ .error .lagtime := by decide +kernel

/-- `np.linalg.eig` on the transposes of the five matrices: correct answers, eigenvalues in an arbitrary (unsorted) order; the columns of
    the tables are left eigenvectors of the matrices -/
def exEig : List (List Rat) → Py (List Cx × List (List Cx)) := Eigen.tblOracle [
  (npTranspose ItsEnd.exA, ([Eigen.re (1/4), Eigen.re 1], [[Eigen.re 1, Eigen.re 2], [Eigen.re (-1), Eigen.re 1]])),
  (npTranspose exB, ([Eigen.re (-1/2), Eigen.re 1], [[Eigen.re 1, Eigen.re 2], [Eigen.re (-1), Eigen.re 1]])),
  (npTranspose exZ, ([Eigen.re 0, Eigen.re 0], [[Eigen.re 1, Eigen.re 0], [Eigen.re 0, Eigen.re 1]])),
  (npTranspose ItsEnd.exT, ([Eigen.re (1/2), Eigen.re (1/4), Eigen.re 1], ItsEnd.exV)),
  (npTranspose exN, ([Eigen.re 0, Eigen.re 0, Eigen.re 0],
    [[Eigen.re 0, Eigen.re 0, Eigen.re 0], [Eigen.re 0, Eigen.re 0, Eigen.re 0], [Eigen.re 1, Eigen.re 1, Eigen.re 1]]))]

/-- the solver's answers for `exTs` as functions of the lag time -/
def exW : Int → List Cx := fun τ =>
  if τ = 1 then [Eigen.re (1/4), Eigen.re 1] else if τ = 2 then [Eigen.re (-1/2), Eigen.re 1] else [Eigen.re 0, Eigen.re 0]
def exVv : Int → List (List Cx) := fun τ =>
  if τ = 7 then [[Eigen.re 1, Eigen.re 0], [Eigen.re 0, Eigen.re 1]] else [[Eigen.re 1, Eigen.re 2], [Eigen.re (-1), Eigen.re 1]]
/-- … and for `exTs3` -/
def exW3 : Int → List Cx := fun τ =>
  if τ = 1 then [Eigen.re (1/2), Eigen.re (1/4), Eigen.re 1] else [Eigen.re 0, Eigen.re 0, Eigen.re 0]
def exV3 : Int → List (List Cx) := fun τ =>
  if τ = 1 then ItsEnd.exV
  else [[Eigen.re 0, Eigen.re 0, Eigen.re 0], [Eigen.re 0, Eigen.re 0, Eigen.re 0], [Eigen.re 1, Eigen.re 1, Eigen.re 1]]
def exP3 : Int → List Int := fun τ => if τ = 1 then [1, 0, 2] else [0, 1, 2]

theorem accepted_exTs (τ : Int) (hτ : τ ∈ [2, 1, 7, 1]) :
    Accepted exEig exArgsort (npTranspose (Msm.specT exTs τ.toNat)) (states exTs).length (exW τ) (exVv τ) [0, 1] := by
  simp only [List.mem_cons, List.not_mem_nil, or_false] at hτ
  rcases hτ with rfl | rfl | rfl | rfl <;>
    exact ⟨by decide +kernel, by decide +kernel, by decide +kernel, by decide +kernel, by decide +kernel, by decide +kernel⟩

theorem accepted_exTs3 (τ : Int) (hτ : τ ∈ [2, 1]) :
    Accepted exEig exArgsort (npTranspose (Msm.specT exTs3 τ.toNat)) (states exTs3).length (exW3 τ) (exV3 τ) (exP3 τ) := by
  simp only [List.mem_cons, List.not_mem_nil, or_false] at hτ
  rcases hτ with rfl | rfl <;>
    exact ⟨by decide +kernel, by decide +kernel, by decide +kernel, by decide +kernel, by decide +kernel, by decide +kernel⟩

/-- `its_plain_end_to_end` on `exTs`: unsorted lag times with a repetition and with the over-long lag 7, `ntimescales = 1` — all hypotheses
    hold … -/
example := its_plain_end_to_end (eig := exEig) (argsort := exArgsort) exLog_contract exTs (by decide) true [2, 1, 7, 1] 1
  exW exVv (fun _ => [0, 1]) (by decide) (by decide) (by decide +kernel) accepted_exTs
/-- … and this is the value, for the oracle-plugged form and for the construct-once program: lag 2 has the second eigenvalue `-½` (NaN),
    lag 1 has `¼` (`1 / (15/16) = 16/15`), lag 7 has only the eigenvalue `0` (NaN) -/
example : Gen.MsmIts.implied_timescales_n (plainEst exTs true) exLog exEig exArgsort 2 [2, 1, 7, 1] 1 false
    = .ok [[none], [some (16/15, 0)], [none], [some (16/15, 0)]] := by decide +kernel
example : itsPlainN exLog exEig exArgsort exTs [2, 1, 7, 1] 1 false false
    = .ok [[none], [some (16/15, 0)], [none], [some (16/15, 0)]] := by decide +kernel
/-- `its_plain_long_lag`: row 2 (lag 7) is all NaN -/
example : ∃ res, Gen.MsmIts.implied_timescales_n (plainEst exTs true) exLog exEig exArgsort ((states exTs).length : Int) [2, 1, 7, 1] 1 false
      = .ok res ∧ ∀ (i : Nat) (hi : i < [2, 1, 7, (1 : Int)].length), (∀ t ∈ exTs, (t.length : Int) ≤ [2, 1, 7, (1 : Int)][i]) →
        res.getD i [] = List.replicate (1 : Int).toNat none :=
  its_plain_long_lag exLog_contract exTs (by decide) true [2, 1, 7, 1] 1 exW exVv (fun _ => [0, 1]) (by decide) (by decide)
    (by decide +kernel) accepted_exTs
/-- `its_plain_end_to_end_contracts`: with the reference `argsort` of `Refine/Eigen.lean` (which meets `ArgsortContract`) and the table
    eigen-solver (which meets `EigContractAt` where it is asked) all hypotheses hold -/
example := its_plain_end_to_end_contracts (eig := exEig) exLog_contract Eigen.refArgsort_contract exTs (by decide) true [2, 1, 7, 1] 1
  (by decide) (by decide) (by decide +kernel) (by decide +kernel)
  (fun τ hτ => ⟨_, _, (accepted_exTs τ hτ).heig, (accepted_exTs τ hτ).eigOk⟩)

/-- `its_plain_default` on the three-label set `exTs3`, lag times `[2, 1]`: the default is `3 − 1 = 2` timescales — hypotheses hold … -/
example := its_plain_default (eig := exEig) (argsort := exArgsort) exLog_contract exTs3 (by decide) false [2, 1]
  exW3 exV3 exP3 (by decide) (by decide +kernel) accepted_exTs3
/-- … the value: lag 2 (nilpotent matrix) gives NaN, lag 1 gives `1 / (3/4) = 4/3 ≥ 1 / (15/16) = 16/15` -/
example : Gen.MsmIts.implied_timescales_default (plainEst exTs3 false) exLog exEig exArgsort ((states exTs3).length : Int) [2, 1] false
    = .ok [[none, none], [some (4/3, 0), some (16/15, 0)]] := by decide +kernel
example : itsPlainDefault exLog exEig exArgsort exTs3 [2, 1] false true
    = .ok [[none, none], [some (4/3, 0), some (16/15, 0)]] := by decide +kernel
/-- the default without a frame (`ValueError`) and with a single label (`TypeError`) -/
example : itsPlainDefault exLog exEig exArgsort [[], []] [1] false true = .error .value :=
  ((its_plain_default_degenerate exLog exEig exArgsort [[], []] true [1] (by decide)).1 (by decide +kernel)).2
example : itsPlainDefault exLog exEig exArgsort [[4, 4, 4]] [1, 2] false true = .error .type :=
  ((its_plain_default_degenerate exLog exEig exArgsort [[4, 4, 4]] true [1, 2] (by decide)).2 (by decide +kernel) (by decide)
    (by decide)).2

/-- `its_plain_slowest_first` on `exTs3`, lag times `[1, 1]`, `ntimescales = 2`: the eigenvalues behind the rows are `½, ¼` -/
example : ∃ res, Gen.MsmIts.implied_timescales_n (plainEst exTs3 true) exLog exEig exArgsort ((states exTs3).length : Int) [1, 1] 2 false
      = .ok res ∧ itsPlainN exLog exEig exArgsort exTs3 [1, 1] 2 false true = .ok res ∧ res.length = 2 ∧
      ∀ r ∈ res, ∃ xs : List Rat, r = xs.map (fun t => some (t, 0)) ∧ xs.length = (2 : Int).toNat ∧ (∀ t ∈ xs, 0 < t) ∧
        xs.Pairwise (fun s t => t ≤ s) :=
  its_plain_slowest_first exLog_contract exL_monotone exTs3 (by decide) true [1, 1] 2 exW3 exV3 exP3 (by decide) (by decide)
    (by decide +kernel)
    (fun τ hτ => accepted_exTs3 τ (by
      simp only [List.mem_cons, List.not_mem_nil, or_false, or_self] at hτ
      subst hτ; decide))
    (by intro τ hτ
        simp only [List.mem_cons, List.not_mem_nil, or_false, or_self] at hτ
        subst hτ
        have h : (retEvs (exW3 1) (exP3 1) 2).drop 1 = [some (1/2, 0), some (1/4, 0)] := by decide +kernel
        rw [h]
        intro z hz
        simp only [List.mem_cons, List.not_mem_nil, or_false] at hz
        rcases hz with rfl | rfl
        · exact ⟨1/2, rfl, by norm_num, by norm_num⟩
        · exact ⟨1/4, rfl, by norm_num, by norm_num⟩)

/-- `its_plain_refines`: its hypotheses hold for `exTs` and ANY oracles, e.g. oracles that always fail — then the call fails with the error
    of the eigen-solver -/
example : itsPlainN (fun _ => .error .other) (fun _ => .error .notImplemented) (fun _ => .error .other) exTs [2, 1] 1 false true
    = .error .notImplemented := by
  rw [(its_plain_refines _ _ _ exTs (by decide) true [2, 1] 1 (by decide) (by decide)).2]
  decide +kernel
/-- `its_plain_solver_error`: the table oracle does not know the matrix of lag 3 (`[[1/3, 2/3], [1, 0]]`) and raises; lag 1 before it is
    accepted, lag 2 after it is not tried -/
example : itsPlainN exLog exEig exArgsort exTs ([1] ++ 3 :: [2]) 1 false true = .error .other :=
  (its_plain_solver_error exLog_contract exTs (by decide) true 1 [1] 3 [2] .other exW exVv (fun _ => [0, 1]) (by decide) (by decide)
    (by decide +kernel) (fun τ hτ => accepted_exTs τ (by
      simp only [List.mem_cons, List.not_mem_nil, or_false] at hτ
      subst hτ; decide))
    (by decide +kernel)).2
/-- `its_plain_too_many`: two timescales from a two-state model -/
example : itsPlainN exLog exEig exArgsort exTs (1 :: [2]) 2 false true = .error .type :=
  (its_plain_too_many exLog exEig exArgsort exTs (by decide) true 2 1 [2] (by decide) (by decide +kernel) (by decide +kernel)).2
example : itsPlainN exLog exEig exArgsort exTs [1, 2] 2 false true = .error .type := by decide +kernel
/-- `its_plain_estimate_error`, second part: under the guard the estimator does not raise (so the first part never fires for such data;
    beyond the guard the constructor's `shift_data` needs an array of more than `2^29` cells, which cannot be evaluated here) -/
example : plainEst exTs true 7 ≠ .error .lagtime :=
  (its_plain_estimate_error exLog exEig exArgsort exTs true 1 [1] 7 [2] .lagtime (by decide) (by decide)
    (by intro τ hτ
        simp only [List.mem_cons, List.not_mem_nil, or_false] at hτ
        subst hτ
        exact ⟨[some (16/15, 0)], by decide +kernel⟩)).2 (by decide)
/-- the argument checks -/
example : itsPlainN exLog exEig exArgsort exTs [2, 0, 1] 1 false true = .error .type :=
  (its_plain_rejections exLog exEig exArgsort exTs true [2, 0, 1] 1).1 false 0 (by decide) (by decide)
example : itsPlainN exLog exEig exArgsort exTs [2, 1] 1 true true = .error .notImplemented :=
  (its_plain_rejections exLog exEig exArgsort exTs true [2, 1] 1).2.1 (by decide)
example : itsPlainN exLog exEig exArgsort exTs [2, 1] (-1) false true = .error .value :=
  (its_plain_rejections exLog exEig exArgsort exTs true [2, 1] (-1)).2.2 (by decide) (by decide)

end MsmVerif.Refine.ItsPlain
