/-
Refine/RelabelTransfer.lean (task RP39) — the laws of C17 (representation independence) and C02 (accessor round trips)
stated DIRECTLY about the translated public functions: the translated constructor `StateTraj.__init__` followed by the
translated `estimate_markov_model`, `md.dynamical_coring`, `md.estimate_waiting_times`, `md.estimate_paths`,
`md.compare_discretization`, and the translated `StateTraj` / `LumpedStateTraj` accessors.  Each theorem combines a
refinement theorem ("translated function = model") with a property theorem ("the model satisfies the law").
-/
import MsmVerif.Refine.Public
import MsmVerif.Refine.CoringApi
import MsmVerif.Refine.TimesApi
import MsmVerif.Refine.CompareTransfer
import MsmVerif.Refine.Accessors
import MsmVerif.Refine.Init
import MsmVerif.Props.C17
import MsmVerif.Props.C02
open MsmVerif MsmVerif.Gen

namespace MsmVerif.Refine.RelabelTransfer
open MsmVerif.Relabelling

/-- notation: translated constructor, then translated `estimate_markov_model(lag)`; result `(T, states)` -/
abbrev estimatePipe (ts : Trajs) (lag : Nat) (flag : Bool) : Py (List (List Rat) × List Int) :=
  do let (i, s) ← Gen.StateTrajInit.init ts; Gen.StateTrajEst.estimate_markov_model i s (lag : Int) flag

/-- notation: translated constructor, then the translated public `md.dynamical_coring` on the object's attributes -/
abbrev coringPipe (ts : Trajs) (τ : Int) (iter flag : Bool) : Py (List (List Int)) :=
  do let (i, s) ← Gen.StateTrajInit.init ts; Gen.MdCoringApi.dynamical_coring s i ts false τ iter flag

/-- notation: translated constructor, then the translated public `md.estimate_waiting_times` -/
abbrev wtPipe (ts : Trajs) (start final : List Int) (flag : Bool) : Py (List Int) :=
  do let (_, s) ← Gen.StateTrajInit.init ts; Gen.MdTimesApi.estimate_waiting_times s ts start final flag

/-- notation: translated constructor, then the translated public `md.estimate_paths` -/
abbrev pathsPipe (ts : Trajs) (start final : List Int) (flag : Bool) : Py (List (List Int × List Int)) :=
  do let (_, s) ← Gen.StateTrajInit.init ts; Gen.MdTimesApi.estimate_paths s ts start final flag

/-! ## C17, clause 1: strictly increasing relabelling -/

/-- **C17, clause "a strictly increasing relabelling leaves the index trajectories unchanged and maps the state list through `f`"**,
for the translated constructor: both constructor calls succeed, store the SAME index trajectories, and the state list of the
relabelled set is `f` applied to the state list of the original, in the same order. -/
theorem init_relabel_mono (f : Int → Int) (ts : Trajs)
    (hf : ∀ a ∈ ts.flatten, ∀ b ∈ ts.flatten, a < b → f a < f b)
    (hguard : LabelGuard ts) (hguard' : LabelGuard (ts.map (·.map f))) :
    ∃ idx sts, Gen.StateTrajInit.init ts = .ok (idx, sts) ∧
      Gen.StateTrajInit.init (ts.map (·.map f)) = .ok (idx, sts.map f) :=
  ⟨_, _, (Init.init_relabel f ts hf hguard hguard').1, (Init.init_relabel f ts hf hguard hguard').2⟩

/-- **C17, clause "a strictly increasing relabelling leaves T unchanged and maps the state list through `f`"**, for the
translated constructor + estimator: the call on the relabelled set returns what the call on the original returns, with the
SAME transition matrix and the state list mapped through `f` (no error on either side; either value of the flag). -/
theorem estimate_relabel_mono (f : Int → Int) (ts : Trajs)
    (hf : ∀ a ∈ ts.flatten, ∀ b ∈ ts.flatten, a < b → f a < f b)
    (hguard : LabelGuard ts) (hguard' : LabelGuard (ts.map (·.map f))) (lag : Nat) (hlag : 1 ≤ lag) (flag flag' : Bool) :
    estimatePipe (ts.map (·.map f)) lag flag = (estimatePipe ts lag flag').map (fun r => (r.1, r.2.map f)) ∧
    ∃ T, estimatePipe ts lag flag' = .ok (T, states ts) := by
  have h1 : estimatePipe (ts.map (·.map f)) lag flag = .ok (Msm.specT ts lag, (states ts).map f) :=
    Public.public_estimate_relabel f ts hf hguard hguard' lag hlag flag
  have h0 : estimatePipe ts lag flag' = .ok (Msm.specT ts lag, states ts) :=
    Public.public_estimate_meets_spec ts hguard lag hlag flag'
  refine ⟨?_, _, h0⟩
  rw [h1, h0]
  rfl

/-- non-vacuity of `init_relabel_mono` / `estimate_relabel_mono`: `x ↦ 2x + 3` on the labels `-5, 3, 7` (ragged set) -/
example : (∀ a ∈ ([[-5, 3, 7], [3, 7]] : Trajs).flatten, ∀ b ∈ ([[-5, 3, 7], [3, 7]] : Trajs).flatten,
    a < b → 2 * a + 3 < 2 * b + 3) ∧ LabelGuard [[-5, 3, 7], [3, 7]] ∧
    LabelGuard (([[-5, 3, 7], [3, 7]] : Trajs).map (·.map (fun x => 2 * x + 3))) := by decide +kernel
example : Gen.StateTrajInit.init [[-5, 3, 7], [3, 7]] = .ok ([[0, 1, 2], [1, 2]], [-5, 3, 7]) ∧
    Gen.StateTrajInit.init (([[-5, 3, 7], [3, 7]] : Trajs).map (·.map (fun x => 2 * x + 3)))
      = .ok ([[0, 1, 2], [1, 2]], [-7, 9, 17]) := by decide +kernel
example : estimatePipe [[-5, 3, 7], [3, 7]] 1 true = .ok ([[0, 1, 0], [0, 0, 1], [0, 0, 0]], [-5, 3, 7]) ∧
    estimatePipe (([[-5, 3, 7], [3, 7]] : Trajs).map (·.map (fun x => 2 * x + 3))) 1 false
      = .ok ([[0, 1, 0], [0, 0, 1], [0, 0, 0]], [-7, 9, 17]) := by decide +kernel

/-! ## C17, clause 2: injective relabelling -/

/-- **C17, clause "an injective relabelling permutes T consistently"**, for the translated constructor + estimator: both calls
succeed; the state list of the relabelled set is a permutation of `f(states)`; and whenever position `i'` / `j'` of the new state list
holds the image of the label at position `i` / `j` of the old one, entry `T'[i'][j']` of the new matrix equals entry `T[i][j]` of the
old one — rows and columns are permuted by the permutation `f` induces on the state list. -/
theorem estimate_relabel_inj (f : Int → Int) (ts : Trajs) (hf : InjOn f ts.flatten)
    (hguard : LabelGuard ts) (hguard' : LabelGuard (relabel f ts)) (lag : Nat) (hlag : 1 ≤ lag) (flag flag' : Bool) :
    ∃ T T', estimatePipe ts lag flag' = .ok (T, states ts) ∧
      estimatePipe (relabel f ts) lag flag = .ok (T', states (relabel f ts)) ∧
      (states (relabel f ts)).Perm ((states ts).map f) ∧
      ∀ i j i' j' (hi : i < (states ts).length) (hj : j < (states ts).length)
        (hi' : i' < (states (relabel f ts)).length) (hj' : j' < (states (relabel f ts)).length),
        (states (relabel f ts))[i'] = f (states ts)[i] → (states (relabel f ts))[j'] = f (states ts)[j] →
        (T'.getD i' []).getD j' 0 = (T.getD i []).getD j 0 := by
  obtain ⟨T, hT, hTe⟩ := Public.public_estimate_entry ts hguard lag hlag flag'
  obtain ⟨T', hT', hTe'⟩ := Public.public_estimate_entry (relabel f ts) hguard' lag hlag flag
  refine ⟨T, T', hT, hT', C17.states_perm f ts hf, ?_⟩
  intro i j i' j' hi hj hi' hj' ei ej
  rw [hTe i j hi hj, hTe' i' j' hi' hj', ei, ej]
  exact (C17.bijective_T f ts lag hf _ _ (mem_states.mp (List.getElem_mem hi)) (mem_states.mp (List.getElem_mem hj))).2

/-- non-vacuity of `estimate_relabel_inj`: `x ↦ -x` (order reversing) on the labels `1, 5, 7` -/
example : InjOn (fun x => -x) ([[1, 1, 5], [5, 7]] : Trajs).flatten ∧ LabelGuard [[1, 1, 5], [5, 7]] ∧
    LabelGuard (relabel (fun x => -x) [[1, 1, 5], [5, 7]]) := by unfold InjOn; decide +kernel
example : estimatePipe [[1, 1, 5], [5, 7]] 1 true = .ok ([[1/2, 1/2, 0], [0, 0, 1], [0, 0, 0]], [1, 5, 7]) ∧
    estimatePipe (relabel (fun x => -x) [[1, 1, 5], [5, 7]]) 1 true
      = .ok ([[0, 0, 0], [1, 0, 0], [0, 1/2, 1/2]], [-7, -5, -1]) := by decide +kernel

/-! ## C17, clause 3: coring commutes with relabelling -/

/-- the translated constructor followed by the translated public `md.dynamical_coring` is the public model (guarded input) -/
theorem coringPipe_eq (ts : Trajs) (hguard : LabelGuard ts) (τ : Int) (iter flag : Bool) :
    coringPipe ts τ iter flag = Coring.dynamicalCoring ts τ iter := by
  unfold coringPipe
  rw [Init.init_eq_rank ts hguard]
  exact CoringApi.dynamical_coring_api_refines_rank ts hguard τ iter flag

/-- **C17, clause "coring commutes with relabelling"**, for the translated constructor + public `md.dynamical_coring`: for `f` injective
inside every single trajectory (both sets within the label guard), the cored trajectories of the relabelled input are the relabelled
cored trajectories of the original input — and the errors (`ValueError` for `lagtime ≤ 0`, `LagtimeError`) are the same; all lag
times, both modes, either value of the flag. -/
theorem coring_relabel (f : Int → Int) (ts : Trajs) (τ : Int) (iter : Bool)
    (hf : ∀ t ∈ ts, ∀ a ∈ t, ∀ b ∈ t, f a = f b → a = b)
    (hguard : LabelGuard ts) (hguard' : LabelGuard (ts.map (·.map f))) (flag flag' : Bool) :
    coringPipe (ts.map (·.map f)) τ iter flag = (coringPipe ts τ iter flag').map (·.map (·.map f)) := by
  rw [coringPipe_eq _ hguard', coringPipe_eq _ hguard, C17.coring_relabel_public f ts τ iter hf hguard hguard']

/-- non-vacuity of `coring_relabel`: `x ↦ -x` -/
example : coringPipe [[1, 1, 5, 1, 1], [5, 5, 1]] 2 false true = .ok [[1, 1, 1, 1, 1], [5, 5, 5]] ∧
    coringPipe (([[1, 1, 5, 1, 1], [5, 5, 1]] : Trajs).map (·.map (fun x => -x))) 2 false true
      = .ok [[-1, -1, -1, -1, -1], [-5, -5, -5]] := by decide +kernel

/-! ## C17, clause 4: waiting times and pathways -/

/-- the translated constructor followed by the translated public `md.estimate_waiting_times` is the public model (EVERY input) -/
theorem wtPipe_eq (ts : Trajs) (start final : List Int) (flag : Bool) :
    wtPipe ts start final flag = (Events.mdWaitingTimes ts start final).map (·.map Int.ofNat) := by
  obtain ⟨st, hst, -⟩ := CoringApi.constructor_total ts
  unfold wtPipe
  rw [Init.init_eq_mk' ts, hst]
  exact TimesApi.estimate_waiting_times_api_refines ts st hst start final flag

/-- the translated constructor followed by the translated public `md.estimate_paths` is the public model, grouped into the
insertion-ordered dictionary (EVERY input) -/
theorem pathsPipe_eq (ts : Trajs) (start final : List Int) (flag : Bool) :
    pathsPipe ts start final flag
      = (Events.mdPaths ts start final).map (fun l => TimesApi.dictI (TimesApi.groupFirst l)) := by
  obtain ⟨st, hst, -⟩ := CoringApi.constructor_total ts
  unfold pathsPipe
  rw [Init.init_eq_mk' ts, hst]
  exact TimesApi.estimate_paths_api_refines ts st hst start final flag

/-- **C17, clause "waiting times are unchanged when start / final are relabelled along"**, for the translated constructor + public
`md.estimate_waiting_times`: for `f` injective on the labels of the data together with `start` and `final` (both sets within the
guard), the call on the relabelled data with the relabelled `start` / `final` returns exactly what the original call returns —
the same waiting times in the same order, or the same `ValueError`. -/
theorem waiting_times_relabel (f : Int → Int) (start final : List Int) (ts : Trajs)
    (hf : ∀ a ∈ ts.flatten ++ start ++ final, ∀ b ∈ ts.flatten ++ start ++ final, f a = f b → a = b)
    (hguard : LabelGuard ts) (hguard' : LabelGuard (ts.map (·.map f))) (flag flag' : Bool) :
    wtPipe (ts.map (·.map f)) (start.map f) (final.map f) flag = wtPipe ts start final flag' := by
  rw [wtPipe_eq, wtPipe_eq, (C17.md_relabel_public f start final ts hf hguard hguard').1]

/-- **C17, clause "paths are relabelled entrywise"**, for the translated constructor + public `md.estimate_paths`: for `f` injective on
the labels of the data together with `start` and `final` (both sets within the guard), the original call returns the dictionary of
the model's (path, time) tuples (`mdPaths`), and the call on the relabelled data with relabelled `start` / `final` returns the
dictionary of the SAME tuples with every path mapped entrywise through `f` (times and order of occurrence unchanged) — or both raise
the same `ValueError`. -/
theorem paths_relabel (f : Int → Int) (start final : List Int) (ts : Trajs)
    (hf : ∀ a ∈ ts.flatten ++ start ++ final, ∀ b ∈ ts.flatten ++ start ++ final, f a = f b → a = b)
    (hguard : LabelGuard ts) (hguard' : LabelGuard (ts.map (·.map f))) (flag flag' : Bool) :
    pathsPipe ts start final flag'
      = (Events.mdPaths ts start final).map (fun l => TimesApi.dictI (TimesApi.groupFirst l)) ∧
    pathsPipe (ts.map (·.map f)) (start.map f) (final.map f) flag
      = (Events.mdPaths ts start final).map
          (fun l => TimesApi.dictI (TimesApi.groupFirst (l.map (fun p => (p.1.map f, p.2))))) := by
  refine ⟨pathsPipe_eq _ _ _ _, ?_⟩
  rw [pathsPipe_eq, (C17.md_relabel_public f start final ts hf hguard hguard').2]
  cases Events.mdPaths ts start final <;> rfl

/-- **… hence the same `ValueError`s**: the relabelled `estimate_paths` call fails exactly when the original one does. -/
theorem paths_relabel_error (f : Int → Int) (start final : List Int) (ts : Trajs)
    (hf : ∀ a ∈ ts.flatten ++ start ++ final, ∀ b ∈ ts.flatten ++ start ++ final, f a = f b → a = b)
    (hguard : LabelGuard ts) (hguard' : LabelGuard (ts.map (·.map f))) (flag flag' : Bool) (e : Err) :
    pathsPipe (ts.map (·.map f)) (start.map f) (final.map f) flag = .error e ↔ pathsPipe ts start final flag' = .error e := by
  obtain ⟨h1, h2⟩ := paths_relabel f start final ts hf hguard hguard' flag flag'
  rw [h1, h2]
  cases Events.mdPaths ts start final <;> simp [Except.map]

/-- non-vacuity of `waiting_times_relabel` / `paths_relabel`: `x ↦ 10 - x` -/
example : wtPipe [[1, 2, 3, 2, 3, 4]] [1] [4] true = .ok [5] ∧
    wtPipe (([[1, 2, 3, 2, 3, 4]] : Trajs).map (·.map (fun x => 10 - x))) [9] [6] true = .ok [5] := by decide +kernel
example : pathsPipe [[1, 2, 3, 2, 3, 4]] [1] [4] true = .ok [([1, 2, 3, 4], [5])] ∧
    pathsPipe (([[1, 2, 3, 2, 3, 4]] : Trajs).map (·.map (fun x => 10 - x))) [9] [6] true = .ok [([9, 8, 7, 6], [5])] := by
  decide +kernel

section Dict
open MsmVerif.Refine.TimesApi

/-- distinct keys in order of first appearance commute with an injective key map -/
theorem firstKeys_map_inj (g : List Int → List Int) (hg : ∀ a b, g a = g b → a = b) (ks : List (List Int)) :
    firstKeys (ks.map g) = (firstKeys ks).map g := by
  induction ks with
  | nil => rfl
  | cons k ks ih =>
    simp only [List.map_cons, firstKeys, ih, List.filter_map]
    congr 2
    apply List.filter_congr
    intro x _
    simp only [Function.comp, bne_eq, Bool.not_eq_eq_eq_not]
    by_cases h : x = k
    · subst h; simp
    · have : g x ≠ g k := fun e => h (hg _ _ e)
      simp [h, this]

/-- the bucket of the image key in the key-mapped list is the bucket of the key -/
theorem bucket_map_inj {β : Type} (g : List Int → List Int) (hg : ∀ a b, g a = g b → a = b) (l : List (List Int × β))
    (k : List Int) : bucket (l.map (fun p => (g p.1, p.2))) (g k) = bucket l k := by
  unfold bucket
  rw [List.filter_map, List.map_map]
  have : (l.filter ((fun e : List Int × β => e.1 == g k) ∘ fun p => (g p.1, p.2))) = l.filter (fun e => e.1 == k) := by
    apply List.filter_congr
    intro x _
    simp only [Function.comp]
    by_cases h : x.1 = k
    · simp [h]
    · have : g x.1 ≠ g k := fun e => h (hg _ _ e)
      simp [h, this]
  rw [this]
  rfl

/-- the insertion-ordered dictionary of a key-mapped tuple list is the key-mapped dictionary (injective key map) -/
theorem groupFirst_map_key {β : Type} (g : List Int → List Int) (hg : ∀ a b, g a = g b → a = b) (l : List (List Int × β)) :
    groupFirst (l.map (fun p => (g p.1, p.2))) = (groupFirst l).map (fun e => (g e.1, e.2)) := by
  unfold groupFirst
  rw [List.map_map]
  have : ((fun x : List Int × β => x.1) ∘ fun (p : List Int × β) => (g p.1, p.2)) = g ∘ (fun (x : List Int × β) => x.1) := rfl
  rw [this, ← List.map_map, firstKeys_map_inj g hg, List.map_map, List.map_map]
  apply List.map_congr_left
  intro k _
  simp only [Function.comp, bucket_map_inj g hg]

/-- **C17, clause "paths are relabelled entrywise", dictionary form**, for the translated constructor + public `md.estimate_paths`:
for a relabelling `f` that is injective (on all integers; both sets within the guard), the dictionary returned for the relabelled data
with relabelled `start` / `final` is the original dictionary with every key (path) mapped entrywise through `f` — same key order, same
lists of times — or both calls raise the same `ValueError`. -/
theorem paths_relabel_dict (f : Int → Int) (hfi : ∀ a b, f a = f b → a = b) (start final : List Int) (ts : Trajs)
    (hguard : LabelGuard ts) (hguard' : LabelGuard (ts.map (·.map f))) (flag flag' : Bool) :
    pathsPipe (ts.map (·.map f)) (start.map f) (final.map f) flag
      = (pathsPipe ts start final flag').map (List.map (fun e => (e.1.map f, e.2))) := by
  have hmi : ∀ a b : List Int, a.map f = b.map f → a = b :=
    fun a b e => List.map_injective_iff.mpr (fun x y h => hfi x y h) e
  rw [pathsPipe_eq, pathsPipe_eq,
    (C17.md_relabel_public f start final ts (fun a _ b _ e => hfi a b e) hguard hguard').2]
  cases Events.mdPaths ts start final with
  | error e => rfl
  | ok l =>
    show Except.ok (dictI (groupFirst (l.map (fun p => (p.1.map f, p.2))))) = Except.ok _
    rw [groupFirst_map_key (List.map f) hmi]
    simp [dictI, List.map_map, Function.comp_def]

example : pathsPipe [[1, 2, 3, 2, 3, 4, 1, 4]] [1] [4] true = .ok [([1, 2, 3, 4], [5]), ([1, 4], [1])] := by decide +kernel

end Dict

/-! ## C17, clause 5: similarity of two discretisations -/

/-- **C17, clause "the similarity is unchanged"**, for the translated public `compare_discretization` (both methods) called on the
attributes of constructed objects: renaming the labels of the first set by `f` and of the second by `g`, each injective on the labels
present (all four sets within the guard, not both sets without frames), changes neither the value nor the error. -/
theorem similarity_relabel {t1 t2 : Trajs} {s1 s2 s1' s2' : StateTraj} (f g : Int → Int)
    (hmk1 : StateTraj.mk' t1 = .ok s1) (hmk2 : StateTraj.mk' t2 = .ok s2)
    (hmk1' : StateTraj.mk' (relabel f t1) = .ok s1') (hmk2' : StateTraj.mk' (relabel g t2) = .ok s2')
    (hf : InjOn f t1.flatten) (hg : InjOn g t2.flatten)
    (hg1 : LabelGuard t1) (hg2 : LabelGuard t2) (hg1' : LabelGuard (relabel f t1)) (hg2' : LabelGuard (relabel g t2))
    (hne : t1.flatten ≠ [] ∨ t2.flatten ≠ []) (flag flag' : Bool) :
    CompareTransfer.symApi s1' s2' flag = CompareTransfer.symApi s1 s2 flag' ∧
    CompareTransfer.dirApi s1' s2' flag = CompareTransfer.dirApi s1 s2 flag' :=
  CompareTransfer.api_rename ⟨hmk1, hmk2, hg1, hg2, hne⟩ f g hf hg hmk1' hmk2' hg1' hg2' flag flag'

/-! ## C02: the translated accessors of a constructed object -/

/-- **C02, clause "`trajs` returns the input trajectories" (round trip)**: for every guarded input, translated constructor then
translated `trajs` (resp. `trajs_flatten`) gives back the input (resp. its concatenation), no error. -/
theorem trajs_roundtrip (ts : Trajs) (hguard : LabelGuard ts) :
    (do let (i, s) ← StateTrajInit.init ts; StateTrajAcc.trajs i s) = .ok ts ∧
    (do let (i, s) ← StateTrajInit.init ts; StateTrajAcc.trajs_flatten i s) = .ok ts.flatten :=
  ⟨Accessors.construct_then_trajs ts hguard, Accessors.construct_then_trajs_flatten ts hguard⟩

/-- **C02, clause "`index_trajs` are the ranks"**: for every guarded input, `index_trajs` of the constructed object is the rank of
every label in the ascending state list, in the shape of the input (and `index_trajs_flatten` the same, concatenated). -/
theorem index_trajs_ranks (ts : Trajs) (hguard : LabelGuard ts) :
    (do let (i, _) ← StateTrajInit.init ts; StateTrajAcc.index_trajs i) = .ok (rankTrajs ts) ∧
    (do let (i, _) ← StateTrajInit.init ts; StateTrajAcc.index_trajs_flatten i)
      = .ok (ts.flatten.map (fun x => (rank (states ts) x : Int))) :=
  Accessors.construct_then_index_trajs ts hguard

/-- **C02, clause "`states` are the ascending distinct labels, `nstates` their number"** — for EVERY input: the list returned is
`states ts`, it is strictly ascending (hence without duplicates) and contains exactly the labels of the input. -/
theorem states_ascending (ts : Trajs) :
    (do let (_, s) ← StateTrajInit.init ts; StateTrajAcc.states s) = .ok (states ts) ∧
    (do let (_, s) ← StateTrajInit.init ts; StateTrajAcc.nstates s) = .ok ((states ts).length : Int) ∧
    (states ts).Nodup ∧ ∀ x, x ∈ states ts ↔ x ∈ ts.flatten :=
  ⟨(Accessors.construct_then_states ts).1, (Accessors.construct_then_states ts).2, states_nodup ts, fun _ => mem_states⟩

/-- **C02, clause "`ntrajs` / `nframes` are the obvious counts"** — for EVERY input: the number of input trajectories and the total
number of input frames. -/
theorem counters (ts : Trajs) :
    (do let (i, _) ← StateTrajInit.init ts; StateTrajAcc.ntrajs i) = .ok (ts.length : Int) ∧
    (do let (i, _) ← StateTrajInit.init ts; StateTrajAcc.nframes i) = .ok (((ts.map List.length).sum : Nat) : Int) :=
  Accessors.construct_then_counters ts

/-- **C02, lumped object, clause "`microstate_trajs` returns the micro trajectories"**: same shape, micro labels within the guard. -/
theorem lumped_microstate_trajs_roundtrip (mac mic : Trajs) (pos : Bool)
    (hshape : mac.map List.length = mic.map List.length) (hguard : LabelGuard mic) :
    (do let (_, ms, i, s, _) ← LumpedAcc.init mac mic pos; LumpedAcc.microstate_trajs i s ms) = .ok mic :=
  Accessors.lumped_construct_then_microstate_trajs mac mic pos hshape hguard

/-- **C02, lumped object, clause "`trajs` returns the macro trajectories"**: for a consistent lumping (`mac = f ∘ mic`), all labels
within the guard, data not all-empty; and `index_trajs` are the ranks of the macro labels. -/
theorem lumped_trajs_roundtrip (mac mic : Trajs) (f : Int → Int) (pos : Bool)
    (hf : mac = mic.map (·.map f)) (hguard : LabelGuard mic) (hguardM : LabelGuard mac) (hne : mic.flatten ≠ []) :
    (do let (_, _, i, s, a) ← LumpedAcc.init mac mic pos; LumpedAcc.trajs i s a) = .ok mac ∧
    (do let (_, ms, i, s, a) ← LumpedAcc.init mac mic pos; LumpedAcc.index_trajs i s ms a) = .ok (rankTrajs mac) :=
  ⟨Accessors.lumped_construct_then_trajs mac mic f pos hf hguard hguardM hne,
   Accessors.lumped_construct_then_index_trajs mac mic f pos hf hguard hguardM hne⟩

/-- non-vacuity of the C02 round trips: a ragged set with a negative label and an empty trajectory; a consistent lumping -/
example : LabelGuard [[-5, 3, 7, -5], [3], []] ∧
    (do let (i, s) ← StateTrajInit.init [[-5, 3, 7, -5], [3], []]; StateTrajAcc.trajs i s) = .ok [[-5, 3, 7, -5], [3], []] := by
  decide +kernel
example : (do let (_, _, i, s, a) ← LumpedAcc.init [[1, 1, 2], [2]] [[10, 11, 20], [20]] true; LumpedAcc.trajs i s a)
    = .ok [[1, 1, 2], [2]] := by decide +kernel

end MsmVerif.Refine.RelabelTransfer
