#!/usr/bin/env python3
"""Regenerates MANIFEST.json from the table below (kept in one place so the manifest stays valid)."""
import json, os
HOME = os.path.dirname(os.path.dirname(os.path.abspath(__file__)))
ALL = ['C%02d' % i for i in range(1, 21)]

import sys
sys.path.insert(0, os.path.dirname(os.path.abspath(__file__)))
from claims import CLAIMS, NOTE_COMMON   # noqa: E402

import re
REG = json.load(open(os.path.join(HOME, 'lean', 'registry.json')))
# translated (regenerated from the source on every run) functions whose refinement theorems are obligations of the property
TRANSLATED = {
    'C01': 'StateTraj.__init__, StateTraj.estimate_markov_model, _estimate_markov_model, _generate_transition_count_matrix, row_normalize_matrix (composed end to end)',
    'C11': '_generate_transition_count_matrix, _estimate_markov_model, the md event / pathway kernels and their public wrappers',
    'C05': 'the five dynamical-coring kernels and the public wrapper md.dynamical_coring',
    'C06': 'the five event / waiting-time / pathway kernels, _intersect and the public wrappers md.estimate_waiting_times / md.estimate_paths',
    'C07': '_propagate_MCMC_step, _propagate_MCMC, _get_cummat, the public wrappers propagate_MCMC and propagate_tmat',
    'C08': '_estimate_waiting_times, _estimate_transition_times (msm), _get_cummat, _estimate_times (list and histogram form), StateTraj.state_to_idx, the public estimate_waiting_times / estimate_transition_times / estimate_paths of msm/timescales.py',
    'C13': '_intersect, _intersect_array, _compare_trajs_symmetric, _compare_trajs_directed, _compare_discretization (both methods), the public compare_discretization (all three method cases)',
    'C12': 'the public wrappers that branch on numba.config.DISABLE_JIT (md.dynamical_coring, md.estimate_waiting_times / estimate_paths, _compare_discretization, _estimate_markov_model, _estimate_times): proved equal to the flag-free model for BOTH values of the flag',
    'C20': 'runningmean, gaussian_filter (1-d / 2-d / 3-d form; the scipy filters as oracles named after their keyword arguments)', 'C16': 'open_limits, swapcols, opentxt (pandas branch: usecols order restored), opentxt_limits, openmicrostates', 'C15': 'unique, shift_data, rename_by_index, rename_by_population (list-of-arrays form)',
    'C02': 'StateTraj.__init__, the StateTraj accessors, LumpedStateTraj.__init__ and its accessors, the relabelling utilities they use', 'C17': 'StateTraj.__init__, rename_by_index, shift_data',
    'C14': 'is_quadratic, is_transition_matrix, is_ergodic, is_fuzzy_ergodic, ergodic_mask',
    'C04': 'equilibrium_population (LAPACK eigen-solver as an oracle with the contract v M = v, v != 0), is_ergodic, ergodic_mask, row_normalize_matrix', 'C03': 'LumpedStateTraj.__init__, LumpedStateTraj.estimate_markov_model, LumpedStateTraj._estimate_markov_model (Hummer-Szabo projection), row_normalize_matrix, is_ergodic',
    'C10': 'the eigen-solver wrappers of msm/utils/linalg.py (left/right eigenvalues / eigenvectors, both nvals forms; LAPACK and argsort as oracles with the eigenpair / sorting contract), _implied_timescales (np.log as an oracle with the sign contract), the public implied_timescales',
    'C18': 'the randomised kernels _propagate_MCMC_step, _propagate_MCMC, _estimate_waiting_times, _estimate_transition_times (msm): for EVERY stream of draws the result is the model function of (arguments, stream) - reproducibility from the generator state alone; purity of the arguments is the static argument-write analysis over all functions of the package',
    'C09': 'the public chapman_kolmogorov_test, _chapman_kolmogorov_test, _chapman_kolmogorov_test_md, _calc_times (estimators and the rounded geometric grid as oracles)', 'C19': '_split_array, open_limits, opentxt_limits, openmicrostates',
}


def claim_text(pid, t):
    thms = REG.get(pid, {}).get('theorems', [])
    nref = sum(1 for x in thms if '.Refine.' in x['name'])
    nprop = len(thms) - nref
    t = re.sub(r'^Theorems \(\d+\)', 'Theorems (%d)' % nprop, t)
    if nref:
        t += (' Refinement (%d theorems): the Lean translation of %s, regenerated from the working tree by the translator on every run, is proved '
              'equal to the hand-written model for all inputs, and executed against the real functions (translator validation).' % (nref, TRANSLATED.get(pid, 'the kernels')))
    return t


CLAIMED = {pid: dict(text=claim_text(pid, t), note=NOTE_COMMON + n + ('; translator + runtime libraries PyRt/NpRt (validated per run)' if pid in TRANSLATED else ''),
                     technique=tech + (' + source-to-Lean translation with refinement proofs' if pid in TRANSLATED else ''), ref='§7 ' + pid)
           for pid, (t, n, tech) in CLAIMS.items()}


def main():
    checks = []
    for pid in ALL:
        if pid not in CLAIMED:
            continue
        c = CLAIMED[pid]
        checks.append({
            'property_id': pid,
            'quick_cmd': './bin/check %s quick' % pid,
            'thorough_cmd': './bin/check %s thorough' % pid,
            'evidence_file': 'evidence/%s.json' % pid,
            'replay_cmd_template': './bin/check %s --replay {path}' % pid,
            'engine': 'lean-model+correspondence',
            'level_claimed': {'category': 'proof', 'text': c['text'], 'design_ref': c['ref']},
            'level_note': c['note'],
            'technique': c['technique'],
        })
    na = [{'property_id': p, 'reason': 'no check registered'} for p in ALL if p not in CLAIMED]
    man = {
        'version': 1,
        'setup_cmd': 'cd lean && lake build',
        'hooks': {
            'guard': 'MSMHELPER_VERIF',
            'enable': 'no source hooks: the checks run the working tree via PYTHONPATH=/repo/src; randomness is '
                      'controlled through numba._helperlib.rnd_set_state and module globals',
            'baseline_off_cmd': './bin/baseline_off',
            'source_commits': [],
            'add_only': True,
        },
        'engines': [{'name': 'lean-model+correspondence', 'path': 'lean/ + harness/',
                     'serves_properties': sorted(CLAIMED),
                     'kind_free_text': 'hand-written Lean 4 model with machine-checked theorems; Python correspondence '
                                       'harness drives the model through a JSON line protocol and judges real outputs '
                                       'with the Lean `holds` oracle; translator (py2lean / np2lean) regenerates Lean code for the '
                                       'numba kernels and numpy-vectorised core functions from the working tree on every run, '
                                       'refinement theorems prove it equal to the model'}],
        'checks': checks,
        'not_applicable': na,
        'notes': 'See DESIGN.md. Exit 0 held / 1 violation / 2 machinery failure.',
    }
    json.dump(man, open(os.path.join(HOME, 'MANIFEST.json'), 'w'), indent=1)
    print('claimed', len(checks), 'not_applicable', len(na))

if __name__ == '__main__':
    main()
