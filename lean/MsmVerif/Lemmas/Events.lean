/-
Lemmas/Events.lean — helper lemmas for C06 (md waiting times, pathways) and C08 (msm event loops).
-/
import MsmVerif.Model.Events
import Mathlib.Tactic.FieldSimp
import Mathlib.Tactic.Ring
import Mathlib.Algebra.Order.Ring.Rat

namespace MsmVerif.Events
open MsmVerif

/-! ### `intersect` -/

theorem intersect_eq_filter (A B : List Int) (hA : A.Pairwise (· < ·)) (hB : B.Pairwise (· < ·)) :
    intersect A B = (A.filter (fun x => B.contains x)).length := by
  fun_induction intersect A B with
  | case1 B => simp
  | case2 A hne =>
    rw [List.filter_eq_nil_iff.mpr (by simp)]; rfl
  | case3 as a bs ih =>
    have hA' := List.pairwise_cons.mp hA
    have hB' := List.pairwise_cons.mp hB
    rw [ih hA'.2 hB'.2]
    have h1 : as.filter (fun x => (a :: bs).contains x) = as.filter (fun x => bs.contains x) := by
      apply List.filter_congr
      intro x hx
      have := hA'.1 x hx
      have h2 : (x == a) = false := by simp; omega
      simp only [List.contains_cons, h2, Bool.false_or]
    rw [List.filter_cons_of_pos (by simp), h1, List.length_cons]
  | case4 a as b bs hab hgt ih =>
    have hB' := List.pairwise_cons.mp hB
    rw [ih hA hB'.2]
    congr 1
    apply List.filter_congr
    intro x hx
    have hax : a ≤ x := by
      rcases List.mem_cons.mp hx with h | h
      · omega
      · have := (List.pairwise_cons.mp hA).1 x h; omega
    have h2 : (x == b) = false := by simp; omega
    simp only [List.contains_cons, h2, Bool.false_or]
  | case5 a as b bs hab hgt ih =>
    have hA' := List.pairwise_cons.mp hA
    rw [ih hA'.2 hB]
    have h2 : ¬ ((b :: bs).contains a = true) := by
      simp only [List.contains_eq_mem, decide_eq_true_eq]
      intro h
      rcases List.mem_cons.mp h with h | h
      · exact hab h
      · have := (List.pairwise_cons.mp hB).1 a h
        omega
    rw [List.filter_cons_of_neg h2]

theorem intersect_eq_zero_iff (A B : List Int) (hA : A.Pairwise (· < ·)) (hB : B.Pairwise (· < ·)) :
    intersect A B = 0 ↔ ∀ x ∈ A, x ∉ B := by
  rw [intersect_eq_filter A B hA hB]
  simp [List.filter_eq_nil_iff]

theorem intersect_eq_length_iff (A B : List Int) (hA : A.Pairwise (· < ·)) (hB : B.Pairwise (· < ·)) :
    intersect A B = A.length ↔ ∀ x ∈ A, x ∈ B := by
  rw [intersect_eq_filter A B hA hB]
  simp [List.length_filter_eq_length_iff]

/-! ### `sortDedup` -/

theorem mem_insertSorted (x y : Int) (l : List Int) : y ∈ insertSorted x l ↔ y = x ∨ y ∈ l := by
  induction l with
  | nil => simp [insertSorted]
  | cons z zs ih =>
    simp only [insertSorted]
    split
    · simp
    · split
      · subst_vars; simp
      · simp [ih]; grind

theorem pairwise_insertSorted (x : Int) (l : List Int) (h : l.Pairwise (· < ·)) :
    (insertSorted x l).Pairwise (· < ·) := by
  induction l with
  | nil => simp [insertSorted]
  | cons z zs ih =>
    have h' := List.pairwise_cons.mp h
    simp only [insertSorted]
    split
    · rename_i hxz
      refine List.pairwise_cons.mpr ⟨?_, h⟩
      intro y hy
      rcases List.mem_cons.mp hy with rfl | hy
      · exact hxz
      · have := h'.1 y hy; omega
    · split
      · exact h
      · refine List.pairwise_cons.mpr ⟨?_, ih h'.2⟩
        intro y hy
        rcases (mem_insertSorted x y zs).mp hy with rfl | hy
        · omega
        · exact h'.1 y hy

theorem pairwise_sortDedup (l : List Int) : (sortDedup l).Pairwise (· < ·) := by
  induction l with
  | nil => simp [sortDedup]
  | cons x xs ih => exact pairwise_insertSorted x _ ih

theorem mem_sortDedup (l : List Int) (y : Int) : y ∈ sortDedup l ↔ y ∈ l := by
  induction l with
  | nil => simp [sortDedup]
  | cons x xs ih =>
    show y ∈ insertSorted x (sortDedup xs) ↔ _
    rw [mem_insertSorted, ih]; simp

theorem pairwise_states (ts : Trajs) : (states ts).Pairwise (· < ·) := pairwise_sortDedup _

theorem mem_states (ts : Trajs) (y : Int) : y ∈ states ts ↔ y ∈ ts.flatten := mem_sortDedup _ _


/-! ### `firstIdx` -/

theorem firstIdx_eq_some_iff (p : Int → Bool) (t : List Int) (lo i : Nat) :
    firstIdx p t lo = some i ↔
      lo ≤ i ∧ i < t.length ∧ p (t.getD i 0) = true ∧ ∀ m, lo ≤ m → m < i → p (t.getD m 0) = false := by
  unfold firstIdx
  rw [List.head?_filter, List.find?_range_eq_some]
  simp only [Bool.and_eq_true, decide_eq_true_eq, List.mem_range, Bool.not_eq_true', Bool.and_eq_false_iff,
    decide_eq_false_iff_not]
  constructor
  · rintro ⟨⟨h1, h2⟩, h3, h4⟩
    refine ⟨h1, h3, h2, ?_⟩
    intro m hm hmi
    rcases h4 m hmi with h | h
    · omega
    · exact h
  · rintro ⟨h1, h2, h3, h4⟩
    refine ⟨⟨h1, h3⟩, h2, ?_⟩
    intro m hmi
    by_cases hm : lo ≤ m
    · exact Or.inr (h4 m hm hmi)
    · exact Or.inl hm

theorem firstIdx_eq_none_iff (p : Int → Bool) (t : List Int) (lo : Nat) :
    firstIdx p t lo = none ↔ ∀ m, lo ≤ m → m < t.length → p (t.getD m 0) = false := by
  unfold firstIdx
  rw [List.head?_filter, List.find?_eq_none]
  simp only [List.mem_range, Bool.and_eq_true, decide_eq_true_eq, not_and, Bool.not_eq_true]
  constructor
  · intro h m h1 h2; exact h m h2 h1
  · intro h m h1 h2; exact h m h2 h1

theorem firstIdx_of_ge (p : Int → Bool) (t : List Int) (lo : Nat) (h : t.length ≤ lo) :
    firstIdx p t lo = none := by
  rw [firstIdx_eq_none_iff]; intro m h1 h2; omega

theorem firstIdx_step_pos (p : Int → Bool) (t : List Int) (k : Nat) (hk : k < t.length)
    (hp : p (t.getD k 0) = true) : firstIdx p t k = some k := by
  rw [firstIdx_eq_some_iff]; exact ⟨Nat.le_refl _, hk, hp, by intro m h1 h2; omega⟩

theorem firstIdx_step_neg (p : Int → Bool) (t : List Int) (k : Nat)
    (hp : p (t.getD k 0) = false) : firstIdx p t k = firstIdx p t (k + 1) := by
  cases h : firstIdx p t (k + 1) with
  | none =>
    rw [firstIdx_eq_none_iff] at h ⊢
    intro m h1 h2
    by_cases hm : m = k
    · subst hm; exact hp
    · exact h m (by omega) h2
  | some i =>
    rw [firstIdx_eq_some_iff] at h ⊢
    obtain ⟨h1, h2, h3, h4⟩ := h
    refine ⟨by omega, h2, h3, ?_⟩
    intro m hm hmi
    by_cases hmk : m = k
    · subst hmk; exact hp
    · exact h4 m (by omega) hmi

/-! ### fuel of `specEventsFrom` -/

theorem specEventsFrom_fuel (S F t : List Int) (f1 f2 lo : Nat)
    (h1 : t.length ≤ lo + f1) (h2 : t.length ≤ lo + f2) :
    specEventsFrom S F t f1 lo = specEventsFrom S F t f2 lo := by
  induction f1 generalizing f2 lo with
  | zero =>
    cases f2 with
    | zero => rfl
    | succ f2 =>
      simp only [specEventsFrom]
      rw [firstIdx_of_ge _ _ _ (by omega)]
  | succ f1 ih =>
    cases f2 with
    | zero =>
      simp only [specEventsFrom]
      rw [firstIdx_of_ge _ _ _ (by omega)]
    | succ f2 =>
      simp only [specEventsFrom]
      cases hi : firstIdx (fun x => S.contains x) t lo with
      | none => rfl
      | some i =>
        simp only
        cases hj : firstIdx (fun x => F.contains x) t (i + 1) with
        | none => rfl
        | some j =>
          simp only
          have hi' := ((firstIdx_eq_some_iff _ _ _ _).mp hi).1
          have hj' := ((firstIdx_eq_some_iff _ _ _ _).mp hj).1
          rw [ih f2 (j + 1) (by omega) (by omega)]

/-- fuel-free unfolding of the spec at the canonical fuel `t.length + 1` -/
theorem specEventsFrom_unfold (S F t : List Int) (lo : Nat) :
    specEventsFrom S F t (t.length + 1) lo =
      match firstIdx (fun x => S.contains x) t lo with
      | none => []
      | some i =>
        match firstIdx (fun x => F.contains x) t (i + 1) with
        | none => []
        | some j => (i, j) :: specEventsFrom S F t (t.length + 1) (j + 1) := by
  rw [specEventsFrom]
  cases firstIdx (fun x => S.contains x) t lo with
  | none => rfl
  | some i =>
    simp only
    cases firstIdx (fun x => F.contains x) t (i + 1) with
    | none => rfl
    | some j =>
      simp only
      rw [specEventsFrom_fuel S F t t.length (t.length + 1) (j + 1) (by omega) (by omega)]

theorem drop_eq_cons {t : List Int} {k : Nat} {x : Int} {rest : List Int} (h : t.drop k = x :: rest) :
    k < t.length ∧ t.getD k 0 = x ∧ t.drop (k + 1) = rest := by
  have hk : k < t.length := by
    by_cases hk : k < t.length
    · exact hk
    · rw [List.drop_eq_nil_of_le (by omega)] at h; cases h
  refine ⟨hk, ?_, ?_⟩
  · rw [List.drop_eq_getElem_cons hk] at h
    simp only [List.getD_eq_getElem?_getD, List.getElem?_eq_getElem hk, Option.getD_some]
    exact (List.cons.inj h).1
  · rw [List.drop_eq_getElem_cons hk] at h
    exact (List.cons.inj h).2

/-- the automaton, started at frame `k` of `t`, against the spec (both automaton states) -/
theorem eventsFrom_eq_spec (S F t : List Int) (l : List Int) (k : Nat) (hl : t.drop k = l) :
    (∀ s, eventsFrom S F { open_ := false, start := s } k l = specEventsFrom S F t (t.length + 1) k) ∧
    (∀ i, eventsFrom S F { open_ := true, start := i } k l =
      match firstIdx (fun x => F.contains x) t k with
      | none => []
      | some j => (i, j) :: specEventsFrom S F t (t.length + 1) (j + 1)) := by
  induction l generalizing k with
  | nil =>
    have hk : t.length ≤ k := by
      by_cases hk : t.length ≤ k
      · exact hk
      · have := congrArg List.length hl; simp at this; omega
    constructor
    · intro s
      rw [specEventsFrom_unfold, firstIdx_of_ge _ _ _ hk]; rfl
    · intro i
      rw [firstIdx_of_ge _ _ _ hk]; rfl
  | cons x rest ih =>
    obtain ⟨hk, hx, hrest⟩ := drop_eq_cons hl
    obtain ⟨ihc, iho⟩ := ih (k + 1) hrest
    constructor
    · intro s
      rw [specEventsFrom_unfold]
      by_cases hS : S.contains x = true
      · rw [firstIdx_step_pos (fun x => S.contains x) t k hk (by rw [hx]; exact hS)]
        simp only [eventsFrom, autoStep, hS, Bool.not_false, Bool.and_self, if_true]
        rw [iho k]
      · have hS' : S.contains x = false := by simpa using hS
        rw [firstIdx_step_neg (fun x => S.contains x) t k (by rw [hx]; exact hS')]
        simp only [eventsFrom, autoStep, hS', Bool.and_false, Bool.false_and, if_false, Bool.false_eq_true]
        rw [ihc s, specEventsFrom_unfold]
    · intro i
      by_cases hF : F.contains x = true
      · rw [firstIdx_step_pos (fun x => F.contains x) t k hk (by rw [hx]; exact hF)]
        simp only [eventsFrom, autoStep, hF, Bool.not_true, Bool.false_and, Bool.and_self, if_true,
          if_false, Bool.false_eq_true]
        rw [ihc i]
      · have hF' : F.contains x = false := by simpa using hF
        rw [firstIdx_step_neg (fun x => F.contains x) t k (by rw [hx]; exact hF')]
        simp only [eventsFrom, autoStep, hF', Bool.not_true, Bool.false_and, Bool.and_false, if_false,
          Bool.false_eq_true]
        rw [iho i]

theorem events_eq_specEvents (S F t : List Int) : events S F t = specEvents S F t :=
  (eventsFrom_eq_spec S F t t 0 (by simp)).1 0

/-! ### membership in the spec events -/

/-- the search bound in force for the event that follows the events `pre` -/
def nextLo (lo : Nat) (pre : List (Nat × Nat)) : Nat :=
  match pre.getLast? with
  | none => lo
  | some e => e.2 + 1

theorem specEventsFrom_split (S F t : List Int) (fuel lo : Nat) (pre post : List (Nat × Nat)) (i j : Nat)
    (h : specEventsFrom S F t fuel lo = pre ++ (i, j) :: post) :
    firstIdx (fun x => S.contains x) t (nextLo lo pre) = some i ∧
    firstIdx (fun x => F.contains x) t (i + 1) = some j := by
  induction fuel generalizing lo pre with
  | zero => simp [specEventsFrom] at h
  | succ fuel ih =>
    simp only [specEventsFrom] at h
    cases hi : firstIdx (fun x => S.contains x) t lo with
    | none => rw [hi] at h; simp at h
    | some i0 =>
      rw [hi] at h
      simp only at h
      cases hj : firstIdx (fun x => F.contains x) t (i0 + 1) with
      | none => rw [hj] at h; simp at h
      | some j0 =>
        rw [hj] at h
        simp only at h
        cases pre with
        | nil =>
          simp only [List.nil_append, List.cons.injEq, Prod.mk.injEq] at h
          obtain ⟨⟨rfl, rfl⟩, _⟩ := h
          exact ⟨hi, hj⟩
        | cons e pre' =>
          simp only [List.cons_append, List.cons.injEq] at h
          obtain ⟨rfl, h⟩ := h
          have := ih (j0 + 1) pre' h
          have hlo : nextLo lo ((i0, j0) :: pre') = nextLo (j0 + 1) pre' := by
            unfold nextLo
            cases pre' with
            | nil => simp
            | cons e' pre'' =>
              rw [List.getLast?_cons_cons]
              cases hg : (e' :: pre'').getLast? with
              | none => simp at hg
              | some e => rfl
          rw [hlo]; exact this

/-! ### loop erasure -/

theorem take_idxOf_append (p : List Int) (x : Int) (hx : x ∈ p) :
    p.take (p.idxOf x) ++ [x] = p.take (p.idxOf x + 1) := by
  have hlt : p.idxOf x < p.length := List.idxOf_lt_length_of_mem hx
  rw [List.take_succ_eq_append_getElem hlt, List.getElem_idxOf]

theorem lerwStep_of_mem (p : List Int) (x : Int) (hx : x ∈ p) :
    lerwStep p x = p.take (p.idxOf x + 1) := by
  simp only [lerwStep, List.contains_eq_mem, hx, decide_true, if_true]
  exact take_idxOf_append p x hx

theorem lerwStep_of_not_mem (p : List Int) (x : Int) (hx : x ∉ p) : lerwStep p x = p ++ [x] := by
  simp [lerwStep, hx]

theorem pathStep_of_S (S p : List Int) (x : Int) (hx : S.contains x = true) : pathStep S p x = [x] := by
  simp only [pathStep, hx, if_true]

theorem pathStep_of_not_S (S p : List Int) (x : Int) (hx : S.contains x = false) :
    pathStep S p x = lerwStep p x := by
  simp only [pathStep, lerwStep, hx, Bool.false_eq_true, if_false]

theorem loopErase_append_singleton (S seg : List Int) (x : Int) :
    loopErase S (seg ++ [x]) = pathStep S (loopErase S seg) x := by
  simp [loopErase, List.foldl_append]

theorem lerw_append_singleton (seg : List Int) (x : Int) :
    lerw (seg ++ [x]) = lerwStep (lerw seg) x := by
  simp [lerw, List.foldl_append]

theorem lastSuffix_cons (S : List Int) (y : Int) (seg : List Int) :
    lastSuffix S (y :: seg) =
      if (lastSuffix S seg).any (fun z => S.contains z) = true then lastSuffix S seg else y :: seg := rfl

theorem lastSuffix_append_singleton (S seg : List Int) (x : Int) :
    lastSuffix S (seg ++ [x]) = if S.contains x = true then [x] else lastSuffix S seg ++ [x] := by
  induction seg with
  | nil =>
    by_cases hx : S.contains x = true
    · rw [if_pos hx]; rfl
    · rw [if_neg hx]; rfl
  | cons y seg ih =>
    rw [List.cons_append, lastSuffix_cons, ih, lastSuffix_cons]
    by_cases hx : S.contains x = true
    · rw [if_pos hx, if_pos hx, if_pos (by simpa using hx)]
    · have hx' : S.contains x = false := by simpa using hx
      rw [if_neg hx, if_neg hx]
      have hany : (lastSuffix S seg ++ [x]).any (fun z => S.contains z)
          = (lastSuffix S seg).any (fun z => S.contains z) := by
        rw [List.any_append]; simp only [List.any_cons, List.any_nil, hx', Bool.or_false]
      rw [hany]
      by_cases hr : (lastSuffix S seg).any (fun z => S.contains z) = true
      · rw [if_pos hr, if_pos hr]
      · rw [if_neg hr, if_neg hr]; rfl

/-- reverse induction on lists, core only -/
theorem list_reverse_induction {α : Type} {P : List α → Prop} (h0 : P [])
    (h1 : ∀ l x, P l → P (l ++ [x])) (l : List α) : P l := by
  have : ∀ r : List α, P r.reverse := by
    intro r
    induction r with
    | nil => exact h0
    | cons x r ih => rw [List.reverse_cons]; exact h1 _ _ ih
  simpa using this l.reverse

/-- the code's path loop equals the spec path, for every segment -/
theorem loopErase_eq_specPath (S seg : List Int) : loopErase S seg = specPath S seg := by
  induction seg using list_reverse_induction with
  | h0 => rfl
  | h1 seg x ih =>
    rw [loopErase_append_singleton, specPath, lastSuffix_append_singleton]
    by_cases hx : S.contains x = true
    · rw [pathStep_of_S S _ x hx, if_pos hx]; rfl
    · have hx' : S.contains x = false := by simpa using hx
      rw [pathStep_of_not_S S _ x hx', ih]
      rw [if_neg hx, lerw_append_singleton]; rfl

/-- consecutive pairs of a list -/
theorem mem_zip_tail_iff (l : List Int) (a b : Int) :
    (a, b) ∈ l.zip l.tail ↔ ∃ k, l[k]? = some a ∧ l[k + 1]? = some b := by
  rw [List.mem_iff_getElem?]
  simp only [List.getElem?_zip_eq_some, List.getElem?_tail]

theorem zip_tail_of_prefix {l1 l2 : List Int} (h : l1 <+: l2) (ab : Int × Int)
    (hab : ab ∈ l1.zip l1.tail) : ab ∈ l2.zip l2.tail := by
  obtain ⟨a, b⟩ := ab
  rw [mem_zip_tail_iff] at hab ⊢
  obtain ⟨k, h1, h2⟩ := hab
  obtain ⟨r, rfl⟩ := h
  refine ⟨k, ?_, ?_⟩
  · have := List.getElem?_eq_some_iff.mp h1
    obtain ⟨hk, _⟩ := this
    rw [List.getElem?_append_left hk]; exact h1
  · have := List.getElem?_eq_some_iff.mp h2
    obtain ⟨hk, _⟩ := this
    rw [List.getElem?_append_left hk]; exact h2

theorem zip_tail_append_singleton (l : List Int) (x : Int) (ab : Int × Int)
    (hab : ab ∈ (l ++ [x]).zip (l ++ [x]).tail) :
    ab ∈ l.zip l.tail ∨ (l.getLast? = some ab.1 ∧ ab.2 = x) := by
  obtain ⟨a, b⟩ := ab
  rw [mem_zip_tail_iff] at hab
  obtain ⟨k, h1, h2⟩ := hab
  have hk2 : k + 1 < (l ++ [x]).length := (List.getElem?_eq_some_iff.mp h2).1
  simp only [List.length_append, List.length_singleton] at hk2
  by_cases hk : k + 1 < l.length
  · left
    rw [mem_zip_tail_iff]
    refine ⟨k, ?_, ?_⟩
    · rw [List.getElem?_append_left (by omega)] at h1; exact h1
    · rw [List.getElem?_append_left hk] at h2; exact h2
  · right
    have hkl : k + 1 = l.length := by omega
    constructor
    · rw [List.getElem?_append_left (by omega)] at h1
      rw [List.getLast?_eq_getElem?]
      have : l.length - 1 = k := by omega
      rw [this]; exact h1
    · rw [List.getElem?_append_right (by omega)] at h2
      have : k + 1 - l.length = 0 := by omega
      rw [this] at h2
      simpa using h2.symm

/-- invariant of the path loop after the frames `pre` have been processed -/
structure PathInv (pre p : List Int) : Prop where
  nodup : p.Nodup
  last : p.getLast? = pre.getLast?
  adj : ∀ ab ∈ p.zip p.tail, ab ∈ pre.zip pre.tail

theorem PathInv.nil : PathInv [] [] := ⟨List.nodup_nil, rfl, by simp⟩

theorem PathInv.step {S pre p : List Int} (h : PathInv pre p) (x : Int) :
    PathInv (pre ++ [x]) (pathStep S p x) := by
  by_cases hS : S.contains x = true
  · rw [pathStep_of_S S p x hS]
    exact ⟨by simp, by simp, by simp⟩
  · have hS' : S.contains x = false := by simpa using hS
    rw [pathStep_of_not_S S p x hS']
    by_cases hx : x ∈ p
    · rw [lerwStep_of_mem p x hx]
      have hlt : p.idxOf x < p.length := List.idxOf_lt_length_of_mem hx
      refine ⟨(List.take_sublist _ _).nodup h.nodup, ?_, ?_⟩
      · rw [← take_idxOf_append p x hx]; simp
      · intro ab hab
        have h1 := zip_tail_of_prefix (List.take_prefix _ p) ab hab
        have h2 := h.adj ab h1
        exact zip_tail_of_prefix (List.prefix_append pre [x]) ab h2
    · rw [lerwStep_of_not_mem p x hx]
      refine ⟨?_, by simp, ?_⟩
      · rw [List.nodup_append]
        refine ⟨h.nodup, by simp, ?_⟩
        intro a ha b hb
        simp at hb; subst hb
        intro hab; subst hab; exact hx ha
      · intro ab hab
        rcases zip_tail_append_singleton p x ab hab with h1 | ⟨h1, h2⟩
        · exact zip_tail_of_prefix (List.prefix_append pre [x]) ab (h.adj ab h1)
        · obtain ⟨a, b⟩ := ab
          simp only at h1 h2
          subst h2
          rw [mem_zip_tail_iff]
          rw [h.last, List.getLast?_eq_getElem?] at h1
          have hk : pre.length - 1 < pre.length := (List.getElem?_eq_some_iff.mp h1).1
          refine ⟨pre.length - 1, ?_, ?_⟩
          · rw [List.getElem?_append_left hk]; exact h1
          · rw [List.getElem?_append_right (by omega)]
            have : pre.length - 1 + 1 - pre.length = 0 := by omega
            rw [this]; rfl


theorem pathInv_loopErase (S seg : List Int) : PathInv seg (loopErase S seg) := by
  induction seg using list_reverse_induction with
  | h0 => exact PathInv.nil
  | h1 seg x ih => rw [loopErase_append_singleton]; exact ih.step x

theorem loopErase_nodup (S seg : List Int) : (loopErase S seg).Nodup := (pathInv_loopErase S seg).nodup

theorem loopErase_getLast? (S seg : List Int) : (loopErase S seg).getLast? = seg.getLast? :=
  (pathInv_loopErase S seg).last

theorem loopErase_adj (S seg : List Int) (ab : Int × Int)
    (h : ab ∈ (loopErase S seg).zip (loopErase S seg).tail) : ab ∈ seg.zip seg.tail :=
  (pathInv_loopErase S seg).adj ab h

theorem loopErase_ne_nil (S seg : List Int) (h : seg ≠ []) : loopErase S seg ≠ [] := by
  intro h0
  have := loopErase_getLast? S seg
  rw [h0] at this
  simp only [List.getLast?_nil] at this
  exact h (List.getLast?_eq_none_iff.mp this.symm)

theorem lerwStep_head? (p : List Int) (x : Int) (hp : p ≠ []) : (lerwStep p x).head? = p.head? := by
  by_cases hx : x ∈ p
  · rw [lerwStep_of_mem p x hx, List.head?_take]; simp
  · rw [lerwStep_of_not_mem p x hx, List.head?_append_of_ne_nil _ hp]

/-- if the segment starts with a start-set frame, the path starts with the LAST start-set frame -/
theorem loopErase_head? (S seg : List Int) (hs : ∀ s, seg.head? = some s → S.contains s = true) :
    (loopErase S seg).head? = seg.reverse.find? (fun x => S.contains x) := by
  induction seg using list_reverse_induction with
  | h0 => rfl
  | h1 seg x ih =>
    rw [loopErase_append_singleton, List.reverse_append, List.reverse_singleton, List.singleton_append,
      List.find?_cons]
    by_cases hx : S.contains x = true
    · rw [pathStep_of_S S _ x hx]; simp only [hx]; rfl
    · have hx' : S.contains x = false := by simpa using hx
      rw [pathStep_of_not_S S _ x hx']
      simp only [hx']
      cases seg with
      | nil =>
        have := hs x (by simp)
        rw [this] at hx'; cases hx'
      | cons y seg' =>
        rw [lerwStep_head? _ _ (loopErase_ne_nil S _ (by simp))]
        exact ih (by intro s h; exact hs s (by simpa using h))

theorem pathShapeOk_loopErase (S F t : List Int) (e : Nat × Nat)
    (hs : ∀ s, ((t.drop e.1).take (e.2 - e.1 + 1)).head? = some s → S.contains s = true) :
    pathShapeOk S F t e (loopErase S ((t.drop e.1).take (e.2 - e.1 + 1))) = true := by
  simp only [pathShapeOk, Bool.and_eq_true, beq_iff_eq, decide_eq_true_eq, List.all_eq_true]
  refine ⟨⟨⟨loopErase_head? S _ hs, loopErase_getLast? S _⟩, loopErase_nodup S _⟩, ?_⟩
  intro ab hab
  rw [List.contains_eq_mem, decide_eq_true_eq]
  exact loopErase_adj S _ ab hab

/-! ### `groupPaths` -/

/-- durations of the tuples of `l` whose path is `k`, in order of occurrence -/
def durOf (l : List (List Int × Nat)) (k : List Int) : List Nat :=
  (l.filter (fun e => e.1 == k)).map (·.2)

/-- the bucket update of `groupPaths` -/
def bump (p : List Int) (d : Nat) (e : List Int × List Nat) : List Int × List Nat :=
  if e.1 == p then (e.1, d :: e.2) else e

theorem groupPaths_cons (p : List Int) (d : Nat) (rest : List (List Int × Nat)) :
    groupPaths ((p, d) :: rest) =
      match (groupPaths rest).find? (fun e => e.1 == p) with
      | some _ => (groupPaths rest).map (bump p d)
      | none => (p, [d]) :: groupPaths rest := rfl

theorem bump_fst (p : List Int) (d : Nat) (e : List Int × List Nat) : (bump p d e).1 = e.1 := by
  unfold bump; split <;> rfl

theorem map_bump_keys (p : List Int) (d : Nat) (g : List (List Int × List Nat)) :
    (g.map (bump p d)).map (·.1) = g.map (·.1) := by
  rw [List.map_map]; apply List.map_congr_left; intro e _; exact bump_fst p d e

theorem durOf_cons_pos (p : List Int) (d : Nat) (rest : List (List Int × Nat)) :
    durOf ((p, d) :: rest) p = d :: durOf rest p := by
  simp [durOf]

theorem durOf_cons_neg (p k : List Int) (d : Nat) (rest : List (List Int × Nat)) (h : p ≠ k) :
    durOf ((p, d) :: rest) k = durOf rest k := by
  simp [durOf, h]

theorem durOf_eq_nil (l : List (List Int × Nat)) (k : List Int) (h : ∀ e ∈ l, e.1 ≠ k) : durOf l k = [] := by
  simp only [durOf, List.map_eq_nil_iff, List.filter_eq_nil_iff, beq_iff_eq]
  exact h

structure GroupInv (l : List (List Int × Nat)) (g : List (List Int × List Nat)) : Prop where
  nodup : (g.map (·.1)).Nodup
  val : ∀ e ∈ g, e.2 = durOf l e.1 ∧ e.2 ≠ []
  keys : ∀ e ∈ l, e.1 ∈ g.map (·.1)

theorem groupInv_groupPaths (l : List (List Int × Nat)) : GroupInv l (groupPaths l) := by
  induction l with
  | nil => exact ⟨by simp [groupPaths], by simp [groupPaths], by simp⟩
  | cons pd rest ih =>
    obtain ⟨p, d⟩ := pd
    rw [groupPaths_cons]
    cases hf : (groupPaths rest).find? (fun e => e.1 == p) with
    | some e0 =>
      simp only
      have he0 : e0 ∈ groupPaths rest := List.mem_of_find?_eq_some hf
      have he0p : e0.1 = p := by simpa using List.find?_some hf
      refine ⟨by rw [map_bump_keys]; exact ih.nodup, ?_, ?_⟩
      · intro e' he'
        obtain ⟨e, he, rfl⟩ := List.mem_map.mp he'
        obtain ⟨h1, h2⟩ := ih.val e he
        by_cases hk : e.1 = p
        · have : bump p d e = (e.1, d :: e.2) := by simp [bump, hk]
          rw [this]; simp only
          rw [hk, durOf_cons_pos, ← hk, ← h1]
          exact ⟨rfl, by simp⟩
        · have : bump p d e = e := by simp [bump, hk]
          rw [this, durOf_cons_neg p e.1 d rest (fun h => hk h.symm)]
          exact ⟨h1, h2⟩
      · intro e he
        rw [map_bump_keys]
        rcases List.mem_cons.mp he with rfl | he
        · exact List.mem_map.mpr ⟨e0, he0, he0p⟩
        · exact ih.keys e he
    | none =>
      simp only
      have hp : p ∉ (groupPaths rest).map (·.1) := by
        intro h
        obtain ⟨e, he, hep⟩ := List.mem_map.mp h
        have := List.find?_eq_none.mp hf e he
        simp at this; exact this hep
      refine ⟨?_, ?_, ?_⟩
      · rw [List.map_cons, List.nodup_cons]; exact ⟨hp, ih.nodup⟩
      · intro e he
        rcases List.mem_cons.mp he with rfl | he
        · simp only
          rw [durOf_cons_pos, durOf_eq_nil rest p (fun e he hep => hp (hep ▸ ih.keys e he))]
          exact ⟨rfl, by simp⟩
        · have hne : p ≠ e.1 := fun h => hp (h ▸ List.mem_map.mpr ⟨e, he, rfl⟩)
          rw [durOf_cons_neg p e.1 d rest hne]
          exact ih.val e he
      · intro e he
        rw [List.map_cons]
        rcases List.mem_cons.mp he with rfl | he
        · exact List.mem_cons_self
        · exact List.mem_cons_of_mem _ (ih.keys e he)

theorem groupPaths_keys_nodup (l : List (List Int × Nat)) : ((groupPaths l).map (·.1)).Nodup :=
  (groupInv_groupPaths l).nodup

/-- the dictionary has exactly one bucket per occurring path, holding that path's durations in order -/
theorem mem_groupPaths_iff (l : List (List Int × Nat)) (k : List Int) (ds : List Nat) :
    (k, ds) ∈ groupPaths l ↔ ds ≠ [] ∧ ds = durOf l k := by
  have inv := groupInv_groupPaths l
  constructor
  · intro h
    have := inv.val _ h
    exact ⟨this.2, this.1⟩
  · rintro ⟨hne, rfl⟩
    have : ∃ e ∈ l, e.1 = k := by
      cases hd : durOf l k with
      | nil => exact absurd hd hne
      | cons a as =>
        have : a ∈ durOf l k := by rw [hd]; exact List.mem_cons_self
        simp only [durOf, List.mem_map, List.mem_filter, beq_iff_eq] at this
        obtain ⟨e, ⟨he, hk⟩, _⟩ := this
        exact ⟨e, he, hk⟩
    obtain ⟨e, he, rfl⟩ := this
    obtain ⟨e', he', hk'⟩ := List.mem_map.mp (inv.keys e he)
    have := (inv.val e' he').1
    rw [hk'] at this
    rw [← this, ← hk']
    exact he'

theorem flatten_bump_perm (p : List Int) (d : Nat) (g : List (List Int × List Nat))
    (hn : (g.map (·.1)).Nodup) (hp : p ∈ g.map (·.1)) :
    (((g.map (bump p d)).map (·.2)).flatten).Perm (d :: (g.map (·.2)).flatten) := by
  induction g with
  | nil => simp at hp
  | cons e g ih =>
    rw [List.map_cons, List.nodup_cons] at hn
    by_cases hk : e.1 = p
    · have hb : bump p d e = (e.1, d :: e.2) := by simp [bump, hk]
      have hg : g.map (bump p d) = g := by
        rw [List.map_congr_left (g := id)]
        · simp
        · intro e' he'
          have : e'.1 ≠ p := fun h => hn.1 (hk ▸ h ▸ List.mem_map.mpr ⟨e', he', rfl⟩)
          simp [bump, this]
      simp only [List.map_cons, List.flatten_cons, hb, hg, List.cons_append]
      exact List.Perm.refl _
    · have hb : bump p d e = e := by simp [bump, hk]
      have hp' : p ∈ g.map (·.1) := by
        rw [List.map_cons] at hp
        rcases List.mem_cons.mp hp with h | h
        · exact absurd h.symm hk
        · exact h
      simp only [List.map_cons, List.flatten_cons, hb]
      exact ((ih hn.2 hp').append_left e.2).trans List.perm_middle

theorem groupPaths_flatten_perm (l : List (List Int × Nat)) :
    (((groupPaths l).map (·.2)).flatten).Perm (l.map (·.2)) := by
  induction l with
  | nil => simp [groupPaths]
  | cons pd rest ih =>
    obtain ⟨p, d⟩ := pd
    rw [groupPaths_cons]
    cases hf : (groupPaths rest).find? (fun e => e.1 == p) with
    | some e0 =>
      simp only
      have he0 : e0 ∈ groupPaths rest := List.mem_of_find?_eq_some hf
      have he0p : e0.1 = p := by simpa using List.find?_some hf
      refine (flatten_bump_perm p d _ (groupPaths_keys_nodup rest) (List.mem_map.mpr ⟨e0, he0, he0p⟩)).trans ?_
      simp only [List.map_cons]
      exact List.Perm.cons d ih
    | none =>
      simp only [List.map_cons, List.flatten_cons, List.singleton_append]
      exact List.Perm.cons d ih

theorem pathsAll_durations (S F : List Int) (ts : Trajs) :
    (pathsAll S F ts).map (·.2) = waitingTimes S F ts := by
  simp only [pathsAll, waitingTimes, List.map_flatten, List.map_map]
  congr 1
  apply List.map_congr_left
  intro t _
  simp [pathsSingle, List.map_map, Function.comp_def]

/-! ### validation and the entry points -/

/-- the rejection condition of the oracles, on the unique-sorted sets -/
def badSets (S F sts : List Int) : Bool :=
  S.any (fun x => F.contains x) || S.any (fun x => !sts.contains x) || F.any (fun x => !sts.contains x)

theorem badSets_eq_true_iff (S F sts : List Int) :
    badSets S F sts = true ↔ (∃ x ∈ S, x ∈ F) ∨ (∃ x ∈ S, x ∉ sts) ∨ (∃ x ∈ F, x ∉ sts) := by
  simp [badSets, or_assoc]

theorem validate_eq (start final sts : List Int) (hsts : sts.Pairwise (· < ·)) :
    validate start final sts =
      if badSets (sortDedup start) (sortDedup final) sts = true then .error .value
      else .ok (sortDedup start, sortDedup final) := by
  have hS := pairwise_sortDedup start
  have hF := pairwise_sortDedup final
  have h1 := intersect_eq_zero_iff _ _ hS hF
  have h2 := intersect_eq_length_iff _ _ hS hsts
  have h3 := intersect_eq_length_iff _ _ hF hsts
  unfold validate
  simp only
  by_cases c1 : intersect (sortDedup start) (sortDedup final) = 0
  · by_cases c2 : intersect (sortDedup start) sts = (sortDedup start).length
    · by_cases c3 : intersect (sortDedup final) sts = (sortDedup final).length
      · have hb : ¬ (badSets (sortDedup start) (sortDedup final) sts = true) := by
          rw [badSets_eq_true_iff]
          rintro (⟨x, hx, hx'⟩ | ⟨x, hx, hx'⟩ | ⟨x, hx, hx'⟩)
          · exact h1.mp c1 x hx hx'
          · exact hx' (h2.mp c2 x hx)
          · exact hx' (h3.mp c3 x hx)
        rw [if_neg (by simpa using c1), if_neg (by simpa using c2), if_neg (by simpa using c3), if_neg hb]
      · have hb : badSets (sortDedup start) (sortDedup final) sts = true := by
          rw [badSets_eq_true_iff]
          right; right
          rw [h3] at c3
          simpa using c3
        rw [if_neg (by simpa using c1), if_neg (by simpa using c2), if_pos c3, if_pos hb]
    · have hb : badSets (sortDedup start) (sortDedup final) sts = true := by
        rw [badSets_eq_true_iff]
        right; left
        rw [h2] at c2
        simpa using c2
      rw [if_neg (by simpa using c1), if_pos c2, if_pos hb]
  · have hb : badSets (sortDedup start) (sortDedup final) sts = true := by
      rw [badSets_eq_true_iff]
      left
      rw [h1] at c1
      simpa using c1
    rw [if_pos c1, if_pos hb]

theorem mk'_sts (ts : Trajs) (st : StateTraj) (h : StateTraj.mk' ts = .ok st) : st.sts = states ts := by
  unfold StateTraj.mk' at h
  simp only at h
  split at h
  · cases h; rfl
  · split at h
    · cases h; rfl
    · cases hs : shiftTrajs ts (states ts) ((List.range (states ts).length).map (fun (i : Nat) => (i : Int))) with
      | error e => rw [hs] at h; cases h
      | ok r => rw [hs] at h; cases h; rfl

theorem mdWaitingTimes_eq (ts : Trajs) (start final : List Int) (st : StateTraj)
    (h : StateTraj.mk' ts = .ok st) :
    mdWaitingTimes ts start final =
      if badSets (sortDedup start) (sortDedup final) (states ts) = true then .error .value
      else .ok (waitingTimes (sortDedup start) (sortDedup final) ts) := by
  unfold mdWaitingTimes
  rw [h]
  simp only
  rw [mk'_sts ts st h, validate_eq _ _ _ (pairwise_states ts)]
  by_cases hb : badSets (sortDedup start) (sortDedup final) (states ts) = true
  · rw [if_pos hb, if_pos hb]
  · rw [if_neg hb, if_neg hb]

theorem mdPaths_eq (ts : Trajs) (start final : List Int) (st : StateTraj)
    (h : StateTraj.mk' ts = .ok st) :
    mdPaths ts start final =
      if badSets (sortDedup start) (sortDedup final) (states ts) = true then .error .value
      else .ok (pathsAll (sortDedup start) (sortDedup final) ts) := by
  unfold mdPaths
  rw [h]
  simp only
  rw [mk'_sts ts st h, validate_eq _ _ _ (pairwise_states ts)]
  by_cases hb : badSets (sortDedup start) (sortDedup final) (states ts) = true
  · rw [if_pos hb, if_pos hb]
  · rw [if_neg hb, if_neg hb]

theorem waitingTimes_eq_spec (S F : List Int) (ts : Trajs) :
    waitingTimes S F ts = (ts.map (fun t => (specEvents S F t).map (fun e => e.2 - e.1))).flatten := by
  simp only [waitingTimes, events_eq_specEvents]

theorem pathsAll_eq_specTuples (S F : List Int) (ts : Trajs) : pathsAll S F ts = specTuples S F ts := by
  have : pathsSingle S F = fun t => (specEvents S F t).map (fun e =>
      (specPath S ((t.drop e.1).take (e.2 - e.1 + 1)), e.2 - e.1)) := by
    funext t
    simp only [pathsSingle, events_eq_specEvents, loopErase_eq_specPath]
  rw [pathsAll, specTuples, this]

theorem sameDict_self (a : List (List Int × List Nat)) (h : (a.map (·.1)).Nodup) : sameDict a a = true := by
  simp only [sameDict, beq_self_eq_true, Bool.true_and, Bool.and_eq_true, decide_eq_true_eq,
    List.all_eq_true, List.any_eq_true, beq_iff_eq]
  exact ⟨⟨h, h⟩, fun e he => ⟨e, he, rfl, rfl⟩⟩

theorem canonDict_keys (d : List (List Int × List Nat)) : (canonDict d).map (·.1) = d.map (·.1) := by
  simp [canonDict, List.map_map, Function.comp_def]

theorem holdsWt_model (ts : Trajs) (start final : List Int) (st : StateTraj)
    (h : StateTraj.mk' ts = .ok st) : holdsWt ts start final (mdWaitingTimes ts start final) = true := by
  rw [mdWaitingTimes_eq ts start final st h]
  by_cases hb : badSets (sortDedup start) (sortDedup final) (states ts) = true
  · rw [if_pos hb]
    unfold badSets at hb
    simp only [holdsWt, hb]
    rfl
  · rw [if_neg hb]
    have hb' : badSets (sortDedup start) (sortDedup final) (states ts) = false := by simpa using hb
    unfold badSets at hb'
    simp only [holdsWt, hb', waitingTimes_eq_spec]
    simp

theorem holdsPaths_model (ts : Trajs) (start final : List Int) (st : StateTraj)
    (h : StateTraj.mk' ts = .ok st) :
    holdsPaths ts start final ((mdPaths ts start final).map groupPaths) = true := by
  rw [mdPaths_eq ts start final st h]
  by_cases hb : badSets (sortDedup start) (sortDedup final) (states ts) = true
  · rw [if_pos hb]
    unfold badSets at hb
    simp only [holdsPaths, hb, Except.map]
    rfl
  · rw [if_neg hb]
    have hb' : badSets (sortDedup start) (sortDedup final) (states ts) = false := by simpa using hb
    unfold badSets at hb'
    simp only [holdsPaths, hb', Except.map, pathsAll_eq_specTuples]
    rw [sameDict_self _ (by rw [canonDict_keys]; exact groupPaths_keys_nodup _)]
    rfl

/-! ### histograms (`histInsert`) -/

/-- the count stored for key `k` (sum over all entries with that key; one entry when keys are `Nodup`) -/
def cnt (h : List (Nat × Nat)) (k : Nat) : Nat := ((h.filter (fun e => e.1 == k)).map (·.2)).sum

def incr (a : Nat) (e : Nat × Nat) : Nat × Nat := if e.1 == a then (e.1, e.2 + 1) else e

theorem histInsert_eq (h : List (Nat × Nat)) (a : Nat) :
    histInsert h a = if a ∈ h.map (·.1) then h.map (incr a) else h ++ [(a, 1)] := by
  unfold histInsert
  by_cases ha : a ∈ h.map (·.1)
  · have : h.any (fun e => e.1 == a) = true := by
      obtain ⟨e, he, hea⟩ := List.mem_map.mp ha
      exact List.any_eq_true.mpr ⟨e, he, by simpa using hea⟩
    rw [if_pos this, if_pos ha]; rfl
  · have : ¬ (h.any (fun e => e.1 == a) = true) := by
      intro hh
      obtain ⟨e, he, hea⟩ := List.any_eq_true.mp hh
      exact ha (List.mem_map.mpr ⟨e, he, by simpa using hea⟩)
    rw [if_neg this, if_neg ha]

theorem incr_fst (a : Nat) (e : Nat × Nat) : (incr a e).1 = e.1 := by
  unfold incr; split <;> rfl

theorem map_incr_keys (a : Nat) (h : List (Nat × Nat)) : (h.map (incr a)).map (·.1) = h.map (·.1) := by
  rw [List.map_map]; apply List.map_congr_left; intro e _; exact incr_fst a e

theorem histInsert_keys (h : List (Nat × Nat)) (a : Nat) :
    (histInsert h a).map (·.1) = if a ∈ h.map (·.1) then h.map (·.1) else h.map (·.1) ++ [a] := by
  rw [histInsert_eq]
  by_cases ha : a ∈ h.map (·.1)
  · rw [if_pos ha, if_pos ha, map_incr_keys]
  · rw [if_neg ha, if_neg ha]; simp

theorem histInsert_nodup (h : List (Nat × Nat)) (a : Nat) (hn : (h.map (·.1)).Nodup) :
    ((histInsert h a).map (·.1)).Nodup := by
  rw [histInsert_keys]
  by_cases ha : a ∈ h.map (·.1)
  · rw [if_pos ha]; exact hn
  · rw [if_neg ha, List.nodup_append]
    refine ⟨hn, by simp, ?_⟩
    intro x hx y hy
    simp at hy; subst hy
    intro hxy; subst hxy; exact ha hx

theorem cnt_cons (e : Nat × Nat) (h : List (Nat × Nat)) (k : Nat) :
    cnt (e :: h) k = (if e.1 = k then e.2 else 0) + cnt h k := by
  unfold cnt
  by_cases he : e.1 = k
  · simp [he]
  · simp [he]

theorem cnt_nil (k : Nat) : cnt [] k = 0 := rfl

theorem cnt_append (h1 h2 : List (Nat × Nat)) (k : Nat) : cnt (h1 ++ h2) k = cnt h1 k + cnt h2 k := by
  simp [cnt, List.filter_append]

theorem cnt_of_not_mem (h : List (Nat × Nat)) (k : Nat) (hk : k ∉ h.map (·.1)) : cnt h k = 0 := by
  induction h with
  | nil => rfl
  | cons e h ih =>
    rw [List.map_cons, List.mem_cons, not_or] at hk
    rw [cnt_cons, if_neg (fun h => hk.1 h.symm), ih hk.2]

theorem cnt_of_mem (h : List (Nat × Nat)) (k c : Nat) (hn : (h.map (·.1)).Nodup) (hm : (k, c) ∈ h) :
    cnt h k = c := by
  induction h with
  | nil => cases hm
  | cons e h ih =>
    rw [List.map_cons, List.nodup_cons] at hn
    rw [cnt_cons]
    rcases List.mem_cons.mp hm with rfl | hm
    · simp only [if_true]
      rw [cnt_of_not_mem h k hn.1]; rfl
    · have : e.1 ≠ k := fun he => hn.1 (he ▸ List.mem_map.mpr ⟨(k, c), hm, rfl⟩)
      rw [if_neg this, ih hn.2 hm, Nat.zero_add]

theorem cnt_map_incr (h : List (Nat × Nat)) (a k : Nat) (hn : (h.map (·.1)).Nodup) (ha : a ∈ h.map (·.1)) :
    cnt (h.map (incr a)) k = cnt h k + (if a = k then 1 else 0) := by
  induction h with
  | nil => simp at ha
  | cons e h ih =>
    rw [List.map_cons, List.nodup_cons] at hn
    rw [List.map_cons, cnt_cons, cnt_cons, incr_fst]
    by_cases hea : e.1 = a
    · have hnot : a ∉ h.map (·.1) := hea ▸ hn.1
      have hid : h.map (incr a) = h := by
        rw [List.map_congr_left (g := id)]
        · simp
        · intro e' he'
          have : e'.1 ≠ a := fun hh => hnot (hh ▸ List.mem_map.mpr ⟨e', he', rfl⟩)
          simp [incr, this]
      have h2 : (incr a e).2 = e.2 + 1 := by simp [incr, hea]
      rw [hid, h2, hea]
      by_cases hak : a = k
      · simp only [hak, if_true]; omega
      · simp only [hak, if_false]; omega
    · have h2 : (incr a e).2 = e.2 := by simp [incr, hea]
      have ha' : a ∈ h.map (·.1) := by
        rw [List.map_cons] at ha
        rcases List.mem_cons.mp ha with hh | hh
        · exact absurd hh.symm hea
        · exact hh
      rw [h2, ih hn.2 ha']; omega

theorem cnt_histInsert (h : List (Nat × Nat)) (a k : Nat) (hn : (h.map (·.1)).Nodup) :
    cnt (histInsert h a) k = cnt h k + (if a = k then 1 else 0) := by
  rw [histInsert_eq]
  by_cases ha : a ∈ h.map (·.1)
  · rw [if_pos ha, cnt_map_incr h a k hn ha]
  · rw [if_neg ha, cnt_append, cnt_cons, cnt_nil]; simp

theorem foldl_histInsert_nodup (l : List Nat) (h : List (Nat × Nat)) (hn : (h.map (·.1)).Nodup) :
    ((l.foldl histInsert h).map (·.1)).Nodup := by
  induction l generalizing h with
  | nil => exact hn
  | cons a l ih => exact ih _ (histInsert_nodup h a hn)

theorem cnt_foldl_histInsert (l : List Nat) (h : List (Nat × Nat)) (k : Nat) (hn : (h.map (·.1)).Nodup) :
    cnt (l.foldl histInsert h) k = cnt h k + l.count k := by
  induction l generalizing h with
  | nil => simp
  | cons a l ih =>
    rw [List.foldl_cons, ih _ (histInsert_nodup h a hn), cnt_histInsert h a k hn, List.count_cons]
    by_cases hak : a = k
    · simp [hak]; omega
    · simp [hak]

theorem mem_keys_foldl_histInsert (l : List Nat) (h : List (Nat × Nat)) (k : Nat) :
    k ∈ (l.foldl histInsert h).map (·.1) ↔ k ∈ h.map (·.1) ∨ k ∈ l := by
  induction l generalizing h with
  | nil => simp
  | cons a l ih =>
    rw [List.foldl_cons, ih, histInsert_keys]
    by_cases ha : a ∈ h.map (·.1)
    · rw [if_pos ha, List.mem_cons]
      constructor
      · rintro (h1 | h1)
        · exact Or.inl h1
        · exact Or.inr (Or.inr h1)
      · rintro (h1 | h1 | h1)
        · exact Or.inl h1
        · exact Or.inl (h1 ▸ ha)
        · exact Or.inr h1
    · rw [if_neg ha, List.mem_append, List.mem_singleton, List.mem_cons]
      constructor
      · rintro ((h1 | h1) | h1)
        · exact Or.inl h1
        · exact Or.inr (Or.inl h1)
        · exact Or.inr (Or.inr h1)
      · rintro (h1 | h1 | h1)
        · exact Or.inl (Or.inl h1)
        · exact Or.inl (Or.inr h1)
        · exact Or.inr h1

/-- the histogram built by the insertion loop: one entry per distinct value, holding its multiplicity -/
theorem mem_hist_iff (l : List Nat) (k c : Nat) :
    (k, c) ∈ l.foldl histInsert [] ↔ k ∈ l ∧ c = l.count k := by
  have hn := foldl_histInsert_nodup l [] (by simp)
  have hc := cnt_foldl_histInsert l [] k (by simp)
  rw [cnt_nil, Nat.zero_add] at hc
  constructor
  · intro hm
    refine ⟨?_, ?_⟩
    · have := (mem_keys_foldl_histInsert l [] k).mp (List.mem_map.mpr ⟨(k, c), hm, rfl⟩)
      simpa using this
    · rw [← hc, cnt_of_mem _ k c hn hm]
  · rintro ⟨hk, rfl⟩
    have := (mem_keys_foldl_histInsert l [] k).mpr (Or.inr hk)
    obtain ⟨e, he, hek⟩ := List.mem_map.mp this
    obtain ⟨k', c'⟩ := e
    simp only at hek; subst hek
    rw [← hc, cnt_of_mem _ k' c' hn he]; exact he

theorem keys_foldl_histInsert (l : List Nat) (h : List (Nat × Nat)) :
    (l.foldl histInsert h).map (·.1) =
      h.map (·.1) ++ (l.filter (fun a => !(h.map (·.1)).contains a)).eraseDups := by
  induction l generalizing h with
  | nil => simp
  | cons a l ih =>
    rw [List.foldl_cons, ih, histInsert_keys]
    by_cases ha : a ∈ h.map (·.1)
    · rw [if_pos ha, List.filter_cons_of_neg (by simpa using ha)]
    · rw [if_neg ha, List.filter_cons_of_pos (by simpa using ha), List.eraseDups_cons, List.filter_filter,
        List.append_assoc, List.singleton_append]
      congr 3
      apply List.filter_congr
      intro x _
      simp only [List.contains_eq_mem, List.mem_append, List.mem_singleton]
      by_cases hx : x ∈ h.map (·.1) <;> by_cases hxa : x = a <;> simp [hx, hxa]

/-- keys of the histogram appear in order of first occurrence -/
theorem keys_hist (l : List Nat) : (l.foldl histInsert []).map (·.1) = l.eraseDups := by
  rw [keys_foldl_histInsert]; simp

/-! ### the transition-time loop -/

/-- `ttFrom` instrumented to emit the pair `(start frame, closing frame)` instead of the difference -/
def ttPairsFrom (S F : List Int) : Auto → Nat → List Int → List (Nat × Nat)
  | _, _, [] => []
  | a, idx, x :: rest =>
    if S.contains x then ttPairsFrom S F { open_ := true, start := idx } (idx + 1) rest
    else if a.open_ && F.contains x then
      (a.start, idx) :: ttPairsFrom S F { open_ := false, start := a.start } (idx + 1) rest
    else ttPairsFrom S F a (idx + 1) rest

theorem ttFrom_eq_map (S F : List Int) (a : Auto) (k : Nat) (l : List Int) :
    ttFrom S F a k l = (ttPairsFrom S F a k l).map (fun e => e.2 - e.1) := by
  induction l generalizing a k with
  | nil => rfl
  | cons x rest ih =>
    simp only [ttFrom, ttPairsFrom]
    split
    · exact ih _ _
    · split
      · rw [List.map_cons, ih]
      · exact ih _ _

/-- frame `j ≥ k` is the first frame at or after `k` that lies in `S ∪ F`, and it lies in `F \ S` -/
def OpenHit (S F t : List Int) (k j : Nat) : Prop :=
  k ≤ j ∧ j < t.length ∧ F.contains (t.getD j 0) = true ∧ S.contains (t.getD j 0) = false ∧
    ∀ m, k ≤ m → m < j → S.contains (t.getD m 0) = false ∧ F.contains (t.getD m 0) = false

theorem openHit_of_S {S F t : List Int} {k j : Nat} (hS : S.contains (t.getD k 0) = true) :
    ¬ OpenHit S F t k j := by
  rintro ⟨h1, _, _, h4, h5⟩
  by_cases hjk : j = k
  · subst hjk; rw [hS] at h4; cases h4
  · have := (h5 k (Nat.le_refl _) (by omega)).1
    rw [hS] at this; cases this

theorem openHit_of_F {S F t : List Int} {k j : Nat} (hk : k < t.length)
    (hS : S.contains (t.getD k 0) = false) (hF : F.contains (t.getD k 0) = true) :
    OpenHit S F t k j ↔ j = k := by
  constructor
  · rintro ⟨h1, _, _, _, h5⟩
    by_cases hjk : j = k
    · exact hjk
    · have := (h5 k (Nat.le_refl _) (by omega)).2
      rw [hF] at this; cases this
  · rintro rfl
    exact ⟨Nat.le_refl _, hk, hF, hS, by intro m h1 h2; omega⟩

theorem openHit_of_neither {S F t : List Int} {k j : Nat}
    (hS : S.contains (t.getD k 0) = false) (hF : F.contains (t.getD k 0) = false) :
    OpenHit S F t k j ↔ OpenHit S F t (k + 1) j := by
  constructor
  · rintro ⟨h1, h2, h3, h4, h5⟩
    have hjk : j ≠ k := by rintro rfl; rw [hF] at h3; cases h3
    exact ⟨by omega, h2, h3, h4, fun m hm hmj => h5 m (by omega) hmj⟩
  · rintro ⟨h1, h2, h3, h4, h5⟩
    refine ⟨by omega, h2, h3, h4, ?_⟩
    intro m hm hmj
    by_cases hmk : m = k
    · subst hmk; exact ⟨hS, hF⟩
    · exact h5 m (by omega) hmj

theorem mem_ttPairsFrom (S F t : List Int) (l : List Int) (k : Nat) (hl : t.drop k = l) (i j : Nat) :
    (∀ s, (i, j) ∈ ttPairsFrom S F { open_ := false, start := s } k l ↔
      k ≤ i ∧ S.contains (t.getD i 0) = true ∧ OpenHit S F t (i + 1) j) ∧
    (∀ s, (i, j) ∈ ttPairsFrom S F { open_ := true, start := s } k l ↔
      (i = s ∧ OpenHit S F t k j) ∨
      (k ≤ i ∧ S.contains (t.getD i 0) = true ∧ OpenHit S F t (i + 1) j)) := by
  induction l generalizing k with
  | nil =>
    have hk : t.length ≤ k := by
      by_cases hk : t.length ≤ k
      · exact hk
      · have := congrArg List.length hl; simp at this; omega
    constructor
    · intro s
      simp only [ttPairsFrom, List.not_mem_nil, false_iff]
      rintro ⟨h1, _, h3, h4, _⟩; omega
    · intro s
      simp only [ttPairsFrom, List.not_mem_nil, false_iff]
      rintro (⟨_, h3, h4, _⟩ | ⟨h1, _, h3, h4, _⟩) <;> omega
  | cons x rest ih =>
    obtain ⟨hk, hx, hrest⟩ := drop_eq_cons hl
    obtain ⟨ihc, iho⟩ := ih (k + 1) hrest
    -- the closed-state characterisation moves from `k` to `k + 1`
    have closedS : S.contains x = true →
        ((k ≤ i ∧ S.contains (t.getD i 0) = true ∧ OpenHit S F t (i + 1) j) ↔
         ((i = k ∧ OpenHit S F t (k + 1) j) ∨
          (k + 1 ≤ i ∧ S.contains (t.getD i 0) = true ∧ OpenHit S F t (i + 1) j))) := by
      intro hS
      constructor
      · rintro ⟨h1, h2, h3⟩
        by_cases hik : i = k
        · subst hik; exact Or.inl ⟨rfl, h3⟩
        · exact Or.inr ⟨by omega, h2, h3⟩
      · rintro (⟨rfl, h3⟩ | ⟨h1, h2, h3⟩)
        · exact ⟨Nat.le_refl _, by rw [hx]; exact hS, h3⟩
        · exact ⟨by omega, h2, h3⟩
    have closedN : S.contains x = false →
        ((k ≤ i ∧ S.contains (t.getD i 0) = true ∧ OpenHit S F t (i + 1) j) ↔
         (k + 1 ≤ i ∧ S.contains (t.getD i 0) = true ∧ OpenHit S F t (i + 1) j)) := by
      intro hS
      constructor
      · rintro ⟨h1, h2, h3⟩
        have : i ≠ k := by rintro rfl; rw [hx, hS] at h2; cases h2
        exact ⟨by omega, h2, h3⟩
      · rintro ⟨h1, h2, h3⟩
        exact ⟨by omega, h2, h3⟩
    constructor
    · intro s
      by_cases hS : S.contains x = true
      · simp only [ttPairsFrom, hS, if_true]
        rw [iho k, closedS hS]
      · have hS' : S.contains x = false := by simpa using hS
        simp only [ttPairsFrom, hS', Bool.false_eq_true, if_false, Bool.false_and]
        rw [ihc s, closedN hS']
    · intro s
      by_cases hS : S.contains x = true
      · simp only [ttPairsFrom, hS, if_true]
        rw [iho k, closedS hS]
        have : ¬ OpenHit S F t k j := openHit_of_S (by rw [hx]; exact hS)
        simp only [this, and_false, false_or]
      · have hS' : S.contains x = false := by simpa using hS
        by_cases hF : F.contains x = true
        · simp only [ttPairsFrom, hS', hF, Bool.false_eq_true, if_false, Bool.and_self, if_true,
            List.mem_cons, Prod.mk.injEq]
          rw [ihc s, closedN hS', openHit_of_F hk (by rw [hx]; exact hS') (by rw [hx]; exact hF)]
        · have hF' : F.contains x = false := by simpa using hF
          simp only [ttPairsFrom, hS', hF', Bool.false_eq_true, if_false, Bool.and_false]
          rw [iho s, closedN hS', openHit_of_neither (k := k) (j := j) (by rw [hx]; exact hS') (by rw [hx]; exact hF')]

theorem ttPairsFrom_lower (S F : List Int) (a : Auto) (k : Nat) (l : List Int) :
    ∀ e ∈ ttPairsFrom S F a k l, (a.open_ = true ∧ e.1 = a.start ∧ k ≤ e.2) ∨ k ≤ e.1 := by
  induction l generalizing a k with
  | nil => intro e he; cases he
  | cons x rest ih =>
    intro e he
    simp only [ttPairsFrom] at he
    split at he
    · rcases ih _ _ e he with ⟨_, h2, _⟩ | h
      · right; simp only at h2; omega
      · right; omega
    · split at he
      · rename_i _ hop
        simp only [Bool.and_eq_true] at hop
        rcases List.mem_cons.mp he with rfl | he
        · left; exact ⟨hop.1, rfl, Nat.le_refl _⟩
        · rcases ih _ _ e he with ⟨h1, _⟩ | h
          · cases h1
          · right; omega
      · rcases ih _ _ e he with ⟨h1, h2, h3⟩ | h
        · left; exact ⟨h1, h2, by omega⟩
        · right; omega

theorem ttPairsFrom_pairwise (S F : List Int) (a : Auto) (k : Nat) (l : List Int) :
    (ttPairsFrom S F a k l).Pairwise (fun e e' => e.2 < e'.1) := by
  induction l generalizing a k with
  | nil => exact List.Pairwise.nil
  | cons x rest ih =>
    simp only [ttPairsFrom]
    split
    · exact ih _ _
    · split
      · refine List.pairwise_cons.mpr ⟨?_, ih _ _⟩
        intro e he
        rcases ttPairsFrom_lower S F _ _ _ e he with ⟨h1, _⟩ | h
        · cases h1
        · simp only; omega
      · exact ih _ _

/-! ### `histList` and `histDensity` -/

/-- `np.repeat(keys, values)` -/
def expand (h : List (Nat × Nat)) : List Nat := (h.map (fun e => List.replicate e.2 e.1)).flatten

theorem histList_eq (h : List (Nat × Nat)) (lag : Nat) :
    histList h lag = ((expand h).mergeSort (· ≤ ·)).map (· * lag) := rfl

theorem histList_pairwise (h : List (Nat × Nat)) (lag : Nat) : (histList h lag).Pairwise (· ≤ ·) := by
  rw [histList_eq, List.pairwise_map]
  have := List.pairwise_mergeSort (le := fun (a b : Nat) => decide (a ≤ b))
    (by intro a b c; simp only [decide_eq_true_eq]; omega)
    (by intro a b; simp only [Bool.or_eq_true, decide_eq_true_eq]; omega) (expand h)
  refine this.imp ?_
  intro a b hab
  simp only [decide_eq_true_eq] at hab
  exact Nat.mul_le_mul_right lag hab

theorem histList_perm (h : List (Nat × Nat)) (lag : Nat) :
    (histList h lag).Perm ((expand h).map (· * lag)) := by
  rw [histList_eq]
  exact (List.mergeSort_perm _ _).map _

theorem count_expand (h : List (Nat × Nat)) (k : Nat) : (expand h).count k = cnt h k := by
  induction h with
  | nil => rfl
  | cons e h ih =>
    rw [cnt_cons, ← ih]
    simp only [expand, List.map_cons, List.flatten_cons, List.count_append, List.count_replicate]
    by_cases he : e.1 = k
    · simp [he]
    · simp [he]

/-- the largest key (`max(hist.keys())`, 0 for the empty histogram) -/
def maxKey (h : List (Nat × Nat)) : Nat := (h.map (·.1)).foldl max 0

theorem foldl_max_ge (l : List Nat) (a : Nat) : a ≤ l.foldl max a ∧ ∀ x ∈ l, x ≤ l.foldl max a := by
  induction l generalizing a with
  | nil => simp
  | cons y l ih =>
    rw [List.foldl_cons]
    obtain ⟨h1, h2⟩ := ih (max a y)
    refine ⟨by omega, ?_⟩
    intro x hx
    rcases List.mem_cons.mp hx with rfl | hx
    · omega
    · exact h2 x hx

theorem le_maxKey (h : List (Nat × Nat)) (e : Nat × Nat) (he : e ∈ h) : e.1 ≤ maxKey h :=
  (foldl_max_ge _ 0).2 e.1 (List.mem_map.mpr ⟨e, he, rfl⟩)

/-- bin counts `pts` of `histDensity` -/
def pts (h : List (Nat × Nat)) : List Nat := (List.range (maxKey h + 1)).map (cnt h)

theorem sum_range_indicator (n k c : Nat) :
    ((List.range n).map (fun m => if k = m then c else 0)).sum = if k < n then c else 0 := by
  induction n with
  | zero => simp
  | succ n ih =>
    rw [List.range_succ, List.map_append, List.sum_append, ih]
    simp only [List.map_cons, List.map_nil, List.sum_cons, List.sum_nil, Nat.add_zero]
    by_cases h1 : k < n
    · simp [h1, show k < n + 1 by omega, show k ≠ n by omega]
    · by_cases h2 : k = n
      · simp [h2]
      · simp [h1, h2, show ¬ k < n + 1 by omega]

theorem sum_map_add (l : List Nat) (f g : Nat → Nat) :
    (l.map (fun m => f m + g m)).sum = (l.map f).sum + (l.map g).sum := by
  induction l with
  | nil => rfl
  | cons x l ih => simp only [List.map_cons, List.sum_cons, ih]; omega

theorem sum_cnt_range (h : List (Nat × Nat)) (n : Nat) (hn : ∀ e ∈ h, e.1 < n) :
    ((List.range n).map (cnt h)).sum = (h.map (·.2)).sum := by
  induction h with
  | nil =>
    have : (List.range n).map (cnt []) = (List.range n).map (fun _ => 0) := rfl
    rw [this]; simp
  | cons e h ih =>
    have : (List.range n).map (cnt (e :: h)) =
        (List.range n).map (fun m => (if e.1 = m then e.2 else 0) + cnt h m) := by
      apply List.map_congr_left; intro m _; exact cnt_cons e h m
    rw [this, sum_map_add, sum_range_indicator, if_pos (hn e List.mem_cons_self),
      ih (fun e' he' => hn e' (List.mem_cons_of_mem _ he'))]
    simp

/-- the bins cover every key, so the bin counts add up to the total count -/
theorem sum_pts (h : List (Nat × Nat)) : (pts h).sum = (h.map (·.2)).sum :=
  sum_cnt_range h _ (fun e he => Nat.lt_succ_of_le (le_maxKey h e he))

theorem histDensity_eq (h : List (Nat × Nat)) (lag : Nat) :
    histDensity h lag =
      ((pts h).map (fun (c : Nat) => (c : Rat) / ((((pts h).sum : Nat) : Rat) * (lag : Rat))),
       (List.range (maxKey h + 2)).map (· * lag)) := rfl

theorem sum_map_cast_div (l : List Nat) (D : Rat) :
    (l.map (fun (c : Nat) => (c : Rat) / D)).sum = ((l.sum : Nat) : Rat) / D := by
  induction l with
  | nil => simp
  | cons x l ih =>
    rw [List.map_cons, List.sum_cons, ih, List.sum_cons, Nat.cast_add, add_div]

theorem sum_map_mul_right_rat (l : List Rat) (c : Rat) : (l.map (· * c)).sum = l.sum * c := by
  induction l with
  | nil => simp
  | cons x l ih => rw [List.map_cons, List.sum_cons, ih, List.sum_cons, add_mul]

theorem density_mul_lag (c tot lag : Nat) (hlag : 0 < lag) :
    (c : Rat) / ((tot : Rat) * (lag : Rat)) * (lag : Rat) = (c : Rat) / (tot : Rat) := by
  have hl : (lag : Rat) ≠ 0 := by exact_mod_cast (Nat.pos_iff_ne_zero.mp hlag)
  by_cases ht : (tot : Rat) = 0
  · rw [ht]; simp
  · field_simp

theorem density_total (tot lag : Nat) (htot : 0 < tot) (hlag : 0 < lag) :
    (tot : Rat) / ((tot : Rat) * (lag : Rat)) * (lag : Rat) = 1 := by
  have hl : (lag : Rat) ≠ 0 := by exact_mod_cast (Nat.pos_iff_ne_zero.mp hlag)
  have ht : (tot : Rat) ≠ 0 := by exact_mod_cast (Nat.pos_iff_ne_zero.mp htot)
  field_simp

/-! ### further facts on the event automaton -/

theorem eventsFrom_noF (S F : List Int) (a : Auto) (k : Nat) (u : List Int)
    (hu : ∀ x ∈ u, F.contains x = false) : eventsFrom S F a k u = [] := by
  induction u generalizing a k with
  | nil => rfl
  | cons x u ih =>
    have hx := hu x List.mem_cons_self
    have hu' : ∀ y ∈ u, F.contains y = false := fun y hy => hu y (List.mem_cons_of_mem _ hy)
    by_cases hc : (!a.open_ && S.contains x) = true
    · simp only [eventsFrom, autoStep, hc, if_true]
      exact ih _ _ hu'
    · simp only [eventsFrom, autoStep, hc, hx, Bool.and_false, Bool.false_eq_true, if_false]
      exact ih _ _ hu'

theorem eventsFrom_append_noF (S F : List Int) (a : Auto) (k : Nat) (l u : List Int)
    (hu : ∀ x ∈ u, F.contains x = false) : eventsFrom S F a k (l ++ u) = eventsFrom S F a k l := by
  induction l generalizing a k with
  | nil => rw [List.nil_append, eventsFrom_noF S F a k u hu]; rfl
  | cons x l ih =>
    simp only [List.cons_append, eventsFrom]
    split <;> simp only [ih]

theorem seg_head? (t : List Int) (i n : Nat) (hi : i < t.length) :
    ((t.drop i).take (n + 1)).head? = some (t.getD i 0) := by
  rw [List.head?_take, if_neg (by omega), List.head?_drop, List.getElem?_eq_getElem hi]
  simp [List.getD_eq_getElem?_getD, List.getElem?_eq_getElem hi]

theorem mem_specEvents_firstIdx (S F t : List Int) (i j : Nat) (h : (i, j) ∈ specEvents S F t) :
    ∃ lo, firstIdx (fun x => S.contains x) t lo = some i ∧
      firstIdx (fun x => F.contains x) t (i + 1) = some j := by
  obtain ⟨pre, post, hsplit⟩ := List.append_of_mem h
  exact ⟨_, specEventsFrom_split S F t _ 0 pre post i j hsplit⟩

theorem count_map_mul (l : List Nat) (lag k : Nat) (hlag : 0 < lag) :
    (l.map (· * lag)).count (k * lag) = l.count k := by
  induction l with
  | nil => rfl
  | cons x l ih =>
    rw [List.map_cons, List.count_cons, List.count_cons, ih]
    by_cases hx : x = k
    · simp [hx]
    · have : x * lag ≠ k * lag := fun h => hx (Nat.eq_of_mul_eq_mul_right hlag h)
      simp [hx, this]

theorem histList_count (h : List (Nat × Nat)) (lag k : Nat) (hlag : 0 < lag) :
    (histList h lag).count (k * lag) = cnt h k := by
  rw [(histList_perm h lag).count_eq, count_map_mul _ _ _ hlag, count_expand]

end MsmVerif.Events
