"""argwrites — static check used by the translator: does a function write through one of its PARAMETERS?

The Lean translation treats every array as an immutable value (`x[i] = v` re-binds the local `x`).  That is only faithful when the
Python function never mutates an object it received from its caller — which is also the first sentence of property C18.  This pass
walks the ORIGINAL function body in order and tracks which local names may still alias a parameter:

* a parameter aliases itself; `y = x`, `y = np.asarray(x)`, `np.asanyarray`, `np.atleast_1d/2d/3d(x)`, `np.ravel(x)`, `np.reshape`,
  `np.transpose(x)`, `np.squeeze`, `x.T`, `x.reshape(..)`, `x.ravel()`, `x.view(..)`, `x.squeeze()`, `x.transpose()`, `x[...]`
  (basic indexing yields a view), `x if c else y` keep the alias;
* any other right-hand side (a call that builds a new array, arithmetic, `.copy()`, `np.array(x)`, `.astype(..)`, fancy results)
  makes the target fresh — but only for an assignment at the top level of the function; inside `if` / loops a name that aliased
  before is conservatively kept as aliasing;
* a WRITE is `n[..] = v`, `n[..] op= v`, `n.T[..] = v`, `n op= v` (in place for arrays), `n.sort()`, `n.fill(..)`, `n.resize(..)`,
  `n.itemset(..)`, `n.partition(..)`, `n.put(..)`, `np.put(n, ..)`, `np.place`, `np.putmask`, `np.copyto(n, ..)`, `n.append/extend/
  insert/pop/remove/clear/reverse/update/setdefault(..)` and `del n[..]` on an aliasing name `n`.

Returns the list of (line, name, description).  Conservative in the direction that matters: it may flag a write that in fact hits a
fresh object (then the function is reported as "no longer translated" and the ordinary failing-input search decides), it does not
miss a direct write through a parameter or a view of it.  (Writes hidden inside callees are found when the callee is checked.)"""
import ast

ALIAS_FUNCS = {'np.asarray', 'np.asanyarray', 'np.atleast_1d', 'np.atleast_2d', 'np.atleast_3d', 'np.ravel', 'np.reshape', 'np.transpose',
               'np.squeeze', 'np.ascontiguousarray', '_np.asarray', 'numpy.asarray', 'np.swapaxes', 'np.real', 'np.imag', 'np.diagonal'}
ALIAS_METHODS = {'reshape', 'ravel', 'view', 'squeeze', 'transpose', 'swapaxes', 'diagonal'}
ALIAS_ATTRS = {'T', 'real', 'imag', 'flat'}
WRITE_METHODS = {'sort', 'fill', 'resize', 'itemset', 'partition', 'put', 'append', 'extend', 'insert', 'pop', 'remove', 'clear', 'reverse',
                 'update', 'setdefault', 'popitem', 'setflags', 'byteswap'}
WRITE_FUNCS = {'np.put', 'np.place', 'np.putmask', 'np.copyto', 'np.put_along_axis', 'np.fill_diagonal', 'random.shuffle', 'np.random.shuffle'}


def _dotted(n):
    parts = []
    while isinstance(n, ast.Attribute):
        parts.append(n.attr)
        n = n.value
    if isinstance(n, ast.Name):
        parts.append(n.id)
        return '.'.join(reversed(parts))
    return None


def alias_of(e, tainted):
    """the tainted name `e` may alias, or None"""
    if isinstance(e, ast.Name):
        return e.id if e.id in tainted else None
    if isinstance(e, ast.Attribute) and e.attr in ALIAS_ATTRS:
        return alias_of(e.value, tainted)
    if isinstance(e, ast.Subscript):
        return alias_of(e.value, tainted)          # basic indexing is a view (fancy indexing copies: conservative)
    if isinstance(e, ast.IfExp):
        return alias_of(e.body, tainted) or alias_of(e.orelse, tainted)
    if isinstance(e, ast.Call):
        name = _dotted(e.func)
        if name in ALIAS_FUNCS and e.args:
            return alias_of(e.args[0], tainted)
        if isinstance(e.func, ast.Attribute) and e.func.attr in ALIAS_METHODS:
            return alias_of(e.func.value, tainted)
    if isinstance(e, (ast.Tuple, ast.List)):
        for x in e.elts:
            a = alias_of(x, tainted)
            if a:
                return a
    return None


def arg_writes(fn, skip_params=('self', 'cls')):
    tainted = {a.arg: a.arg for a in fn.args.args + fn.args.kwonlyargs + fn.args.posonlyargs if a.arg not in skip_params}
    if fn.args.vararg:
        tainted[fn.args.vararg.arg] = fn.args.vararg.arg
    out = []

    def root(n):
        return tainted.get(n)

    def note(node, name, what):
        out.append((getattr(node, 'lineno', 0), name, what))

    def target_write(t, node):
        # a store through a subscript / attribute-of-subscript of an aliasing name
        base = t
        while isinstance(base, (ast.Subscript, ast.Attribute)):
            if isinstance(base, ast.Subscript):
                a = alias_of(base.value, tainted)
                if a:
                    note(node, a, 'element assignment through `%s`' % ast.unparse(t))
                    return
            base = base.value

    def assign_name(name, value, top):
        a = alias_of(value, tainted)
        if a:
            tainted[name] = tainted[a]
        elif top:
            tainted.pop(name, None)

    def visit(stmts, top):
        for s in stmts:
            if isinstance(s, ast.Assign):
                for t in s.targets:
                    if isinstance(t, ast.Name):
                        assign_name(t.id, s.value, top)
                    elif isinstance(t, ast.Tuple) and isinstance(s.value, ast.Tuple) and len(t.elts) == len(s.value.elts):
                        for te, ve in zip(t.elts, s.value.elts):
                            if isinstance(te, ast.Name):
                                assign_name(te.id, ve, top)
                            else:
                                target_write(te, s)
                    elif isinstance(t, ast.Tuple):
                        for te in t.elts:
                            if isinstance(te, ast.Name) and top:
                                tainted.pop(te.id, None)
                            elif not isinstance(te, ast.Name):
                                target_write(te, s)
                    else:
                        target_write(t, s)
            elif isinstance(s, ast.AugAssign):
                if isinstance(s.target, ast.Name):
                    if s.target.id in tainted:
                        note(s, tainted[s.target.id], 'in-place operator on `%s`' % s.target.id)
                else:
                    target_write(s.target, s)
            elif isinstance(s, ast.Delete):
                for t in s.targets:
                    if not isinstance(t, ast.Name):
                        target_write(t, s)
            elif isinstance(s, (ast.For, ast.While)):
                if isinstance(s, ast.For) and isinstance(s.target, ast.Name):
                    a = alias_of(s.iter, tainted)        # iterating over a list of arrays yields the caller's arrays
                    if a:
                        tainted[s.target.id] = tainted[a]
                visit(s.body, False)
                visit(s.orelse, False)
            elif isinstance(s, ast.If):
                visit(s.body, False)
                visit(s.orelse, False)
            elif isinstance(s, (ast.With, ast.Try)):
                visit(getattr(s, 'body', []), False)
                for h in getattr(s, 'handlers', []):
                    visit(h.body, False)
                visit(getattr(s, 'orelse', []), False)
                visit(getattr(s, 'finalbody', []), False)
            # in-place methods / functions anywhere in the statement
            for n in ast.walk(s):
                if isinstance(n, ast.Call):
                    if isinstance(n.func, ast.Attribute) and n.func.attr in WRITE_METHODS:
                        a = alias_of(n.func.value, tainted)
                        if a and not (n.func.attr in ('pop', 'update', 'setdefault') and a in ('kwargs',)):
                            note(n, tainted[a], 'in-place method `.%s()` on `%s`' % (n.func.attr, ast.unparse(n.func.value)))
                    name = _dotted(n.func)
                    if name in WRITE_FUNCS and n.args:
                        a = alias_of(n.args[0], tainted)
                        if a:
                            note(n, tainted[a], 'in-place function `%s`' % name)
    visit(fn.body, True)
    # de-duplicate
    seen, res = set(), []
    for x in out:
        if x not in seen:
            seen.add(x)
            res.append(x)
    return res


if __name__ == '__main__':
    import sys, os
    root_ = sys.argv[1] if len(sys.argv) > 1 else '/repo/src/msmhelper'
    for dp, _dn, fns in os.walk(root_):
        for f in sorted(fns):
            if f.endswith('.py'):
                tree = ast.parse(open(os.path.join(dp, f)).read())
                for n in ast.walk(tree):
                    if isinstance(n, (ast.FunctionDef, ast.AsyncFunctionDef)):
                        for (ln, nm, what) in arg_writes(n):
                            print('%s:%d %s(): argument `%s`: %s' % (os.path.relpath(os.path.join(dp, f), root_), ln, n.name, nm, what))
