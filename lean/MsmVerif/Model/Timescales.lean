/-
Model/Timescales.lean — model of the decision logic of `implied_timescales` (`msm/timescales.py`, C10) and of the
time grids and curves of the Chapman–Kolmogorov test (`msm/tests.py`, C09).
The logarithm is not computable over ℚ: the *value* of a defined entry is compared by the harness with
`-τ / ln λ`; the model decides WHICH entries are defined and what sign they must have.
-/
import MsmVerif.Model.Basic
import MsmVerif.Model.Linalg

namespace MsmVerif.Timescales
open MsmVerif.Linalg

/-- what an entry of the implied-timescale row may be -/
inductive Kind where
  | nan            -- must be NaN
  | pos            -- must be a positive finite number equal (within tolerance) to `-τ / ln λ`
  | posOrNan       -- positive finite number or NaN (complex eigenvalue, eigenvalue within rounding of 1)
  deriving Repr, DecidableEq

/-- property C10 for one eigenvalue `λ = re + i·im` (exact value of the floats LAPACK returned):
real and not positive → NaN; real in (0,1) well inside → `-τ/ln λ`; complex or within `1e-9` of 1 → positive or NaN -/
def required (re im : Rat) : Kind :=
  if im = 0 then
    if re ≤ 0 then .nan
    else if re < 1 - 1 / 1000000000 then .pos
    else .posOrNan
  else .posOrNan

/-- model of the code path after the repair, as a classification of what the code returns:
`eigenvalues[eigenvalues <= 0] = nan` (complex numbers compare lexicographically), masked division,
`filled(nan)`, entries whose real part is not `> 0` set to NaN.  `signLog` is the sign of `ln |λ|`
(`-1` for `|λ| < 1`, `0` for `|λ| = 1`, `1` for `|λ| > 1`), which decides the sign of `Re(-τ / log λ)`. -/
def codeKind (re im : Rat) : Kind :=
  let lexNonPos := re < 0 ∨ (re = 0 ∧ im ≤ 0)
  if lexNonPos then .nan
  else
    let m2 := re * re + im * im       -- |λ|²
    if m2 < 1 then .pos else .nan     -- |λ| = 1 gives 0 or ±rounding → NaN after the repair; |λ| > 1 negative → NaN

/-- does an observed entry (`none` = NaN) satisfy the requirement?  `ref` is the harness's float evaluation of
`-τ / ln λ` for real `λ ∈ (0,1)` -/
def entryOk (k : Kind) (obs : Option Rat) (ref : Option Rat) : Bool :=
  match k, obs with
  | .nan, none => true
  | .nan, some _ => false
  | .pos, some t =>
    decide (0 < t) &&
    (match ref with
     | some r => decide (absQ (t - r) ≤ (absQ r + 1) / 1000000000)
     | none => false)
  | .pos, none => false
  | .posOrNan, none => true
  | .posOrNan, some t => decide (0 < t)

/-! ### Chapman–Kolmogorov test (C09) -/

/-- `_calc_times(lagtime, tmax)` : `lagtime * arange(1, floor(tmax / lagtime) + 1)` -/
def ckTimes (lag tmax : Nat) : List Nat := (List.range (tmax / lag)).map (fun k => (k + 1) * lag)

/-- model curves: `(T^k)_{ss}` for `k = 1 .. tmax / lag`, one list per state index -/
def ckCurves (T : Mat) (lag tmax : Nat) : List (List Rat) :=
  let pows := (List.range (tmax / lag)).map (fun k => pow T (k + 1))
  (List.range T.length).map (fun s => pows.map (fun p => entry p s s))

/-- predicate on the reference time grid: strictly increasing integers, head = smallest lag, all ≤ tmax -/
def refGridOk (times : List Nat) (tmin tmax : Nat) : Bool :=
  times.head? == some tmin && times.all (fun t => t ≤ tmax) &&
  (times.zip times.tail).all (fun p => p.1 < p.2)

end MsmVerif.Timescales
