/-
Refine/LumpedTransfer.lean — task RP37: the laws of C01 and C03 stated DIRECTLY about the TRANSLATED public estimators.

The refinement theorems of `Refine/Public.lean` say "translated constructor + translated method = model"; the property theorems
of `Props/C01.lean`, `Props/C03.lean` say "the model satisfies the law".  Here the two are combined:

* `plainCall ts lag flag` — translated `StateTraj.__init__` followed by the translated `StateTraj.estimate_markov_model`;
* `lumpedCall mac mic pos lag flag` — translated `LumpedStateTraj.__init__` followed by the translated
  `LumpedStateTraj.estimate_markov_model`, with the exact stationary solver `HS.exactPeq` plugged into the `mh.msm.peq` oracle.

Both are reducible abbreviations of the `do` blocks of `Refine/Public.lean` (`plainCall_def`, `lumpedCall_def` are `rfl`).
The micro model of the lumped theorems is `Msm.specT mic lag` (the `T` of `Msm.estimate mic lag`, `C01.model_meets_spec`).
-/
import MsmVerif.Refine.Public
import MsmVerif.Lemmas.Relabelling

namespace MsmVerif.Refine.LumpedTransfer
open MsmVerif MsmVerif.Gen MsmVerif.Refine.Public

/-- `StateTraj(ts).estimate_markov_model(lag)`: translated constructor, then translated method (configuration flag `flag`) -/
abbrev plainCall (ts : Trajs) (lag : Nat) (flag : Bool) : Py (List (List Rat) × List Int) :=
  do let (i, s) ← Gen.StateTrajInit.init ts; Gen.StateTrajEst.estimate_markov_model i s (lag : Int) flag

/-- `LumpedStateTraj(mac, mic, positive=pos).estimate_markov_model(lag)`: translated constructor, then translated method, the oracle
`mh.msm.peq` being the exact stationary solver `HS.exactPeq` -/
abbrev lumpedCall (mac mic : Trajs) (pos : Bool) (lag : Nat) (flag : Bool) : Py (List (List Rat) × List Int) :=
  do let (p, ms, i, s, a) ← Gen.LumpedAcc.init mac mic pos
     Gen.LumpedEst.estimate_markov_model HS.exactPeq i s ms a p (lag : Int) flag

/-- for every micro state (ascending) the position of its macro label `f s` in the ascending macro state list -/
abbrev macroIndex (mac mic : Trajs) (f : Int → Int) : List Nat := (states mic).map (fun s => rank (states mac) (f s))

theorem plainCall_def (ts : Trajs) (lag : Nat) (flag : Bool) :
    plainCall ts lag flag
      = (do let (i, s) ← Gen.StateTrajInit.init ts; Gen.StateTrajEst.estimate_markov_model i s (lag : Int) flag) := rfl

theorem lumpedCall_def (mac mic : Trajs) (pos : Bool) (lag : Nat) (flag : Bool) :
    lumpedCall mac mic pos lag flag
      = (do let (p, ms, i, s, a) ← Gen.LumpedAcc.init mac mic pos
            Gen.LumpedEst.estimate_markov_model HS.exactPeq i s ms a p (lag : Int) flag) := rfl

/-! ## C01: the plain estimator -/

/-- **C01, totality and value.**  Labels in `[-2^29, 2^29]`, lag ≥ 1: the translated call raises nothing and returns the spec matrix
(lagged-count quotients over the ascending labels) and the ascending distinct labels. -/
theorem plain_returns (ts : Trajs) (hguard : LabelGuard ts) (lag : Nat) (hlag : 1 ≤ lag) (flag : Bool) :
    plainCall ts lag flag = .ok (Msm.specT ts lag, states ts) :=
  public_estimate_meets_spec ts hguard lag hlag flag

private theorem plain_inv (ts : Trajs) (hguard : LabelGuard ts) (lag : Nat) (hlag : 1 ≤ lag) (flag : Bool)
    {T : List (List Rat)} {ss : List Int} (h : plainCall ts lag flag = .ok (T, ss)) :
    T = Msm.specT ts lag ∧ ss = states ts := by
  rw [plain_returns ts hguard lag hlag flag, Except.ok.injEq, Prod.mk.injEq] at h
  exact ⟨h.1.symm, h.2.symm⟩

/-- **C01, clause "every entry of T lies in [0, 1]".**  Whatever matrix the translated call returns, all its entries are between 0
and 1. -/
theorem plain_entries_unit (ts : Trajs) (hguard : LabelGuard ts) (lag : Nat) (hlag : 1 ≤ lag) (flag : Bool)
    {T : List (List Rat)} {ss : List Int} (h : plainCall ts lag flag = .ok (T, ss)) :
    ∀ row ∈ T, ∀ x ∈ row, 0 ≤ x ∧ x ≤ 1 := by
  obtain ⟨rfl, rfl⟩ := plain_inv ts hguard lag hlag flag h
  intro row hrow x hx
  unfold Msm.specT at hrow
  obtain ⟨a, -, rfl⟩ := List.mem_map.mp hrow
  obtain ⟨b, hb, rfl⟩ := List.mem_map.mp hx
  exact C01.entries_unit ts lag a b hb

/-- **C01, clause "every row sums to 1 or 0".**  Every row of the returned matrix sums to one or to zero; precisely, row `i` sums
to 0 if the `i`-th state has no outgoing pair (`rowTotal = 0`) and to 1 otherwise. -/
theorem plain_row_sums (ts : Trajs) (hguard : LabelGuard ts) (lag : Nat) (hlag : 1 ≤ lag) (flag : Bool)
    {T : List (List Rat)} {ss : List Int} (h : plainCall ts lag flag = .ok (T, ss)) :
    (∀ row ∈ T, row.sum = 1 ∨ row.sum = 0) ∧
    ∀ i (hi : i < ss.length), (T.getD i []).sum = if Msm.rowTotal ts lag ss[i] = 0 then 0 else 1 := by
  obtain ⟨rfl, rfl⟩ := plain_inv ts hguard lag hlag flag h
  constructor
  · intro row hrow
    unfold Msm.specT at hrow
    obtain ⟨a, -, rfl⟩ := List.mem_map.mp hrow
    rw [C01.row_sum]
    split
    · exact Or.inr rfl
    · exact Or.inl rfl
  · intro i hi
    have : (Msm.specT ts lag).getD i [] = (states ts).map (fun b => Msm.T ts lag (states ts)[i] b) := by
      simp [Msm.specT, List.getD_eq_getElem?_getD, hi]
    rw [this, C01.row_sum]

/-- **C01, clause "rows without outgoing pairs are zero".**  If no counted pair leaves the `i`-th state (its count towards every
state is 0), every entry of row `i` of the returned matrix is 0. -/
theorem plain_zero_rows (ts : Trajs) (hguard : LabelGuard ts) (lag : Nat) (hlag : 1 ≤ lag) (flag : Bool)
    {T : List (List Rat)} {ss : List Int} (h : plainCall ts lag flag = .ok (T, ss))
    (i : Nat) (hi : i < ss.length) (hout : ∀ b ∈ ss, Msm.count ts lag ss[i] b = 0) :
    ∀ x ∈ T.getD i [], x = 0 := by
  obtain ⟨rfl, rfl⟩ := plain_inv ts hguard lag hlag flag h
  have hrow : (Msm.specT ts lag).getD i [] = (states ts).map (fun b => Msm.T ts lag (states ts)[i] b) := by
    simp [Msm.specT, List.getD_eq_getElem?_getD, hi]
  have h0 : Msm.rowTotal ts lag (states ts)[i] = 0 := by
    unfold Msm.rowTotal
    apply List.sum_eq_zero
    intro x hx
    obtain ⟨b, hb, rfl⟩ := List.mem_map.mp hx
    exact hout b hb
  intro x hx
  rw [hrow] at hx
  obtain ⟨b, -, rfl⟩ := List.mem_map.mp hx
  unfold Msm.T
  rw [if_pos h0]

/-- **C01, clause "states = ascending distinct labels".**  The returned state list is strictly ascending (hence without
repetition), contains exactly the labels occurring in the data, and the returned matrix is square of that size. -/
theorem plain_states (ts : Trajs) (hguard : LabelGuard ts) (lag : Nat) (hlag : 1 ≤ lag) (flag : Bool)
    {T : List (List Rat)} {ss : List Int} (h : plainCall ts lag flag = .ok (T, ss)) :
    ss = states ts ∧ ss.Pairwise (· < ·) ∧ (∀ x, x ∈ ss ↔ x ∈ ts.flatten) ∧
      T.length = ss.length ∧ ∀ row ∈ T, row.length = ss.length := by
  obtain ⟨rfl, rfl⟩ := plain_inv ts hguard lag hlag flag h
  refine ⟨rfl, states_pairwise ts, fun x => mem_states, by simp [Msm.specT], ?_⟩
  intro row hrow
  unfold Msm.specT at hrow
  obtain ⟨a, -, rfl⟩ := List.mem_map.mp hrow
  simp

/-- **C01, clause "no pair counted across a trajectory boundary; only the given lag".**  Entry `(i, j)` of the returned matrix is
the lagged-count quotient `count / rowTotal` (0 for an empty row) of the `i`-th and `j`-th state, where `count` is the sum over
the SINGLE trajectories of their own pair counts (so it never exceeds the count of the glued data), and inside a trajectory `t`
counts the positions `p` with `p + lag < len t`, `t[p] = a`, `t[p + lag] = b`. -/
theorem plain_entry_no_seam (ts : Trajs) (hguard : LabelGuard ts) (lag : Nat) (hlag : 1 ≤ lag) (flag : Bool)
    {T : List (List Rat)} {ss : List Int} (h : plainCall ts lag flag = .ok (T, ss)) :
    (∀ i j (hi : i < ss.length) (hj : j < ss.length),
      (T.getD i []).getD j 0
        = if Msm.rowTotal ts lag ss[i] = 0 then 0
          else (Msm.count ts lag ss[i] ss[j] : Rat) / (Msm.rowTotal ts lag ss[i] : Rat)) ∧
    (∀ a b, Msm.count ts lag a b = (ts.map (fun t => Msm.count [t] lag a b)).sum ∧
      Msm.count ts lag a b ≤ Msm.count [ts.flatten] lag a b ∧
      Msm.count ts lag a b = (ts.map (fun t => (List.range (t.length - lag)).countP
          (fun p => decide (t.getD p 0 = a ∧ t.getD (p + lag) 0 = b)))).sum) := by
  obtain ⟨rfl, rfl⟩ := plain_inv ts hguard lag hlag flag h
  constructor
  · intro i j hi hj
    simp [Msm.specT, Msm.T, List.getD_eq_getElem?_getD, hi, hj]
  · intro a b
    exact ⟨(C01.no_seam ts lag a b).1, (C01.no_seam ts lag a b).2, C01.no_other_lag ts lag a b⟩

/-! non-vacuity -/

example : LabelGuard [[-5, 3, 7, -5, 7, 3, -5, -5], [3, 3, 7, 7], []] ∧ 1 ≤ 1 ∧
    plainCall [[-5, 3, 7, -5, 7, 3, -5, -5], [3, 3, 7, 7], []] 1 true
      = .ok ([[1/3, 1/3, 1/3], [1/4, 1/4, 1/2], [1/3, 1/3, 1/3]], [-5, 3, 7]) := by decide +kernel
/-- a state without outgoing pair (`7`, last frame only): its row is zero -/
example : LabelGuard [[3, 5, 3, 7]] ∧ plainCall [[3, 5, 3, 7]] 1 false = .ok ([[0, 1/2, 1/2], [1, 0, 0], [0, 0, 0]], [3, 5, 7]) ∧
    (∀ b ∈ [3, 5, 7], Msm.count [[3, 5, 3, 7]] 1 ([3, 5, 7][2]) b = 0) := by decide +kernel

/-! ## C03: the lumped estimator -/

private theorem micro_facts {mac mic : Trajs} {f : Int → Int} {lag : Nat} (hlag : 1 ≤ lag)
    (hf : mac = mic.map (·.map f)) (hguard : LabelGuard mic) (hguardM : LabelGuard mac)
    (herg : Linalg.isErgodic (Msm.specT mic lag) = true) :
    Bridge.WF (states mic).length (states mic).length (Msm.specT mic lag) ∧ (∀ r ∈ Msm.specT mic lag, r.sum = 1) ∧
      (macroIndex mac mic f).length = (states mic).length ∧ (∀ s ∈ macroIndex mac mic f, s < (states mac).length) := by
  obtain ⟨hasg, hsub, -, -⟩ := consistent_facts hf hguardM
  refine ⟨microT_eq_specT hguard lag hlag ▸ microT_wf mic lag,
    rows_of_ergodic (specT_nonneg mic lag) (specT_row mic lag) herg, List.length_map _, ?_⟩
  intro s hs
  obtain ⟨a, ha, rfl⟩ := List.mem_map.mp hs
  exact rank_lt (hsub _ (by rw [hasg]; exact List.mem_map.mpr ⟨a, ha, rfl⟩))

/-- **C03, the translated lumped call is the Hummer–Szabo projection of the micro model.**  Consistent lumping `mac = f ∘ mic`,
labels within the guard, data not all-empty, lag ≥ 1, micro model `Msm.specT mic lag` ergodic: the translated call with the exact
stationary solver as oracle returns `hsProject (micro model) macroIndex k positive` with the ascending macro states, `LinAlgError`
exactly when the model has `none`. -/
theorem lumped_returns (mac mic : Trajs) (f : Int → Int) (pos : Bool) (lag : Nat) (hlag : 1 ≤ lag) (flag : Bool)
    (hf : mac = mic.map (·.map f)) (hguard : LabelGuard mic) (hguardM : LabelGuard mac) (hne : mic.flatten ≠ [])
    (herg : Linalg.isErgodic (Msm.specT mic lag) = true) :
    lumpedCall mac mic pos lag flag
      = (match Linalg.hsProject (Msm.specT mic lag) (macroIndex mac mic f) (states mac).length pos with
         | some M => .ok (M, states mac)
         | none => .error .other) :=
  lumped_estimate_refines HS.exactPeq mac mic f pos lag hlag flag hf hguard hguardM hne
    (C01.model_meets_spec mic lag hlag hguard) herg exactPeq_spec

private theorem lumped_inv {mac mic : Trajs} {f : Int → Int} {pos : Bool} {lag : Nat} (hlag : 1 ≤ lag) {flag : Bool}
    (hf : mac = mic.map (·.map f)) (hguard : LabelGuard mic) (hguardM : LabelGuard mac) (hne : mic.flatten ≠ [])
    (herg : Linalg.isErgodic (Msm.specT mic lag) = true)
    {R : List (List Rat)} {ms : List Int} (h : lumpedCall mac mic pos lag flag = .ok (R, ms)) :
    Linalg.hsProject (Msm.specT mic lag) (macroIndex mac mic f) (states mac).length pos = some R ∧ ms = states mac := by
  rw [lumped_returns mac mic f pos lag hlag flag hf hguard hguardM hne herg] at h
  split at h
  · next M hM =>
    rw [Except.ok.injEq, Prod.mk.injEq] at h
    exact ⟨h.1 ▸ hM, h.2.symm⟩
  · cases h

/-- **C03, clause "the lumped matrix equals the Hummer–Szabo formula of the micro model".**  With `positive = False` the returned
matrix is `1 + 1 π_Aᵀ − M D_{π_A}` (`HS.hsL`), where `π` is the stationary vector of the micro model `T_i`, `π_A` its aggregation
over the macro states (`HS.lumpL`), `Z = (1 + 1πᵀ − T_i)⁻¹` and `M = (Aᵀ D_π Z A)⁻¹`; the returned states are the ascending macro
states. -/
theorem lumped_formula (mac mic : Trajs) (f : Int → Int) (lag : Nat) (hlag : 1 ≤ lag) (flag : Bool)
    (hf : mac = mic.map (·.map f)) (hguard : LabelGuard mic) (hguardM : LabelGuard mac) (hne : mic.flatten ≠ [])
    (herg : Linalg.isErgodic (Msm.specT mic lag) = true)
    {R : List (List Rat)} {ms : List Int} (h : lumpedCall mac mic false lag flag = .ok (R, ms)) :
    ms = states mac ∧
    ∃ pi Z M, Linalg.stationary (Msm.specT mic lag) = some pi ∧
      Linalg.inverse (HS.kMatL (Msm.specT mic lag) pi) = some Z ∧
      Linalg.inverse (HS.nMatL pi (macroIndex mac mic f) (states mac).length Z) = some M ∧
      R = HS.hsL M (HS.lumpL pi (macroIndex mac mic f) (states mac).length) (states mac).length := by
  obtain ⟨hp, rfl⟩ := lumped_inv hlag hf hguard hguardM hne herg h
  obtain ⟨wf, hsum, hlen, hlt⟩ := micro_facts hlag hf hguard hguardM herg
  obtain ⟨pi, Z, M, h1, h2, h3, -, -, h4, -⟩ := C03.model_formula_unclipped wf hsum hlen hlt hp
  exact ⟨rfl, pi, Z, M, h1, h2, h3, h4⟩

/-- **C03, clause "the formula, with clipping".**  For either value of `positive` the returned matrix is the row-normalised,
(if `positive`) clipped Hummer–Szabo matrix of the micro model. -/
theorem lumped_formula_clipped (mac mic : Trajs) (f : Int → Int) (pos : Bool) (lag : Nat) (hlag : 1 ≤ lag) (flag : Bool)
    (hf : mac = mic.map (·.map f)) (hguard : LabelGuard mic) (hguardM : LabelGuard mac) (hne : mic.flatten ≠ [])
    (herg : Linalg.isErgodic (Msm.specT mic lag) = true)
    {R : List (List Rat)} {ms : List Int} (h : lumpedCall mac mic pos lag flag = .ok (R, ms)) :
    ms = states mac ∧
    ∃ pi Z M, Linalg.stationary (Msm.specT mic lag) = some pi ∧
      Linalg.inverse (HS.kMatL (Msm.specT mic lag) pi) = some Z ∧
      Linalg.inverse (HS.nMatL pi (macroIndex mac mic f) (states mac).length Z) = some M ∧
      R = Msm.rowNormalizeQ (HS.clipIf pos
        (HS.hsL M (HS.lumpL pi (macroIndex mac mic f) (states mac).length) (states mac).length)) := by
  obtain ⟨hp, rfl⟩ := lumped_inv hlag hf hguard hguardM hne herg h
  exact ⟨rfl, HS.hsProject_eq_some_iff.mp hp⟩

/-- **C03, clause "rows sum to one".**  The returned matrix is `k × k` (`k` macro states) and each of its rows sums to one, for
either value of `positive`. -/
theorem lumped_rows_sum_one (mac mic : Trajs) (f : Int → Int) (pos : Bool) (lag : Nat) (hlag : 1 ≤ lag) (flag : Bool)
    (hf : mac = mic.map (·.map f)) (hguard : LabelGuard mic) (hguardM : LabelGuard mac) (hne : mic.flatten ≠ [])
    (herg : Linalg.isErgodic (Msm.specT mic lag) = true)
    {R : List (List Rat)} {ms : List Int} (h : lumpedCall mac mic pos lag flag = .ok (R, ms)) :
    ms = states mac ∧ R.length = ms.length ∧ ∀ row ∈ R, row.length = ms.length ∧ row.sum = 1 := by
  obtain ⟨h1, h2, h3, -⟩ := lumped_estimate_stochastic HS.exactPeq mac mic f pos lag hlag flag hf hguard hguardM hne
    (C01.model_meets_spec mic lag hlag hguard) herg exactPeq_spec h
  subst h1
  exact ⟨rfl, h2, h3⟩

/-- **C03, clause "the aggregated micro equilibrium is stationary for the lumped matrix".**  With `positive = False`: `π_A`, the
per-macro-state sums of the stationary vector `π` of the micro model, satisfies `π_A R = π_A` and `Σ π_A = 1` for the returned
matrix `R`. -/
theorem lumped_stationary (mac mic : Trajs) (f : Int → Int) (lag : Nat) (hlag : 1 ≤ lag) (flag : Bool)
    (hf : mac = mic.map (·.map f)) (hguard : LabelGuard mic) (hguardM : LabelGuard mac) (hne : mic.flatten ≠ [])
    (herg : Linalg.isErgodic (Msm.specT mic lag) = true)
    {R : List (List Rat)} {ms : List Int} (h : lumpedCall mac mic false lag flag = .ok (R, ms)) :
    ∃ pi, Linalg.stationary (Msm.specT mic lag) = some pi ∧
      Linalg.vecMat (HS.lumpL pi (macroIndex mac mic f) (states mac).length) R
        = HS.lumpL pi (macroIndex mac mic f) (states mac).length ∧
      (HS.lumpL pi (macroIndex mac mic f) (states mac).length).sum = 1 := by
  obtain ⟨hp, rfl⟩ := lumped_inv hlag hf hguard hguardM hne herg h
  obtain ⟨wf, hsum, hlen, hlt⟩ := micro_facts hlag hf hguard hguardM herg
  exact C03.lumped_stationary wf hsum hlen hlt hp

/-- **C03, clause "singleton lumping returns the micro model".**  If the macro trajectories ARE the micro trajectories (every
macro state consists of exactly one micro state), then with `positive = False` whatever the call returns is the micro model itself
with the micro states. -/
theorem lumped_singleton (mic : Trajs) (lag : Nat) (hlag : 1 ≤ lag) (flag : Bool)
    (hguard : LabelGuard mic) (hne : mic.flatten ≠ [])
    (herg : Linalg.isErgodic (Msm.specT mic lag) = true)
    {R : List (List Rat)} {ms : List Int} (h : lumpedCall mic mic false lag flag = .ok (R, ms)) :
    R = Msm.specT mic lag ∧ ms = states mic := by
  have hf : mic = mic.map (·.map id) := by simp
  obtain ⟨hp, rfl⟩ := lumped_inv hlag hf hguard hguard hne herg h
  obtain ⟨wf, hsum, -, -⟩ := micro_facts hlag hf hguard hguard herg
  have hidx : macroIndex mic mic id = List.range (states mic).length := by
    apply List.ext_getElem (by simp)
    intro i h1 h2
    simp only [List.getElem_map, List.getElem_range, id]
    exact rank_getElem (states_nodup mic) _
  rw [hidx] at hp
  exact ⟨C03.identity_lumping wf hsum hp, rfl⟩

/-- **C03, clause "singleton lumping returns the micro model", with renamed states.**  If the macro label is a strictly increasing
function `f` of the micro label (every macro state consists of exactly one micro state, in the same order), then with
`positive = False` whatever the call returns is the micro model itself, with the renamed states `f(states)`. -/
theorem lumped_singleton_relabel (mac mic : Trajs) (f : Int → Int) (lag : Nat) (hlag : 1 ≤ lag) (flag : Bool)
    (hf : mac = mic.map (·.map f)) (hmono : ∀ a ∈ mic.flatten, ∀ b ∈ mic.flatten, a < b → f a < f b)
    (hguard : LabelGuard mic) (hguardM : LabelGuard mac) (hne : mic.flatten ≠ [])
    (herg : Linalg.isErgodic (Msm.specT mic lag) = true)
    {R : List (List Rat)} {ms : List Int} (h : lumpedCall mac mic false lag flag = .ok (R, ms)) :
    R = Msm.specT mic lag ∧ ms = (states mic).map f := by
  obtain ⟨hp, rfl⟩ := lumped_inv hlag hf hguard hguardM hne herg h
  obtain ⟨wf, hsum, -, -⟩ := micro_facts hlag hf hguard hguardM herg
  have hst : states mac = (states mic).map f := by
    rw [hf]; exact Relabelling.states_relabel_mono (f := f) (ts := mic) hmono
  have hidx : macroIndex mac mic f = List.range (states mic).length := by
    apply List.ext_getElem (by simp)
    intro i h1 h2
    simp only [List.getElem_map, List.getElem_range]
    have hm : (states mic)[i]'(by simpa using h1) ∈ mic.flatten := mem_states.mp (List.getElem_mem _)
    have := Relabelling.rank_relabel_mono (f := f) (ts := mic) hmono hm
    unfold Relabelling.relabel at this
    rw [← hf] at this
    rw [this]
    exact rank_getElem (states_nodup mic) _
  have hk : (states mac).length = (states mic).length := by rw [hst, List.length_map]
  rw [hidx, hk] at hp
  exact ⟨C03.identity_lumping wf hsum hp, hst⟩

/-- **C03, clause "positive=True gives no negative entry".**  With `positive = True` every entry of the returned matrix is ≥ 0 (and
every row still sums to one). -/
theorem lumped_positive (mac mic : Trajs) (f : Int → Int) (lag : Nat) (hlag : 1 ≤ lag) (flag : Bool)
    (hf : mac = mic.map (·.map f)) (hguard : LabelGuard mic) (hguardM : LabelGuard mac) (hne : mic.flatten ≠ [])
    (herg : Linalg.isErgodic (Msm.specT mic lag) = true)
    {R : List (List Rat)} {ms : List Int} (h : lumpedCall mac mic true lag flag = .ok (R, ms)) :
    ∀ row ∈ R, (∀ x ∈ row, 0 ≤ x) ∧ row.sum = 1 := by
  obtain ⟨-, -, h3, h4⟩ := lumped_estimate_stochastic HS.exactPeq mac mic f true lag hlag flag hf hguard hguardM hne
    (C01.model_meets_spec mic lag hlag hguard) herg exactPeq_spec h
  exact fun row hrow => ⟨h4 rfl row hrow, (h3 row hrow).2⟩

/-- **C03, clause "a non-ergodic micro model is refused with TypeError".**  Macro and micro trajectories of the same shape (any
lumping), micro labels within the guard, data not all-empty, lag ≥ 1: if the micro model `Msm.specT mic lag` is not ergodic the
translated call raises `TypeError`. -/
theorem lumped_not_ergodic (mac mic : Trajs) (pos : Bool) (lag : Nat) (hlag : 1 ≤ lag) (flag : Bool)
    (hshape : mac.map List.length = mic.map List.length) (hguard : LabelGuard mic) (hne : mic.flatten ≠ [])
    (herg : Linalg.isErgodic (Msm.specT mic lag) = false) :
    lumpedCall mac mic pos lag flag = .error .type :=
  lumped_estimate_not_ergodic HS.exactPeq mac mic pos lag hlag flag hshape hguard hne
    (C01.model_meets_spec mic lag hlag hguard) herg

/-- **C03, `TypeError` exactly for a non-ergodic micro model.**  For a consistent lumping the translated call raises `TypeError`
if and only if the micro model is not ergodic. -/
theorem lumped_type_error_iff (mac mic : Trajs) (f : Int → Int) (pos : Bool) (lag : Nat) (hlag : 1 ≤ lag) (flag : Bool)
    (hf : mac = mic.map (·.map f)) (hguard : LabelGuard mic) (hguardM : LabelGuard mac) (hne : mic.flatten ≠ []) :
    lumpedCall mac mic pos lag flag = .error .type ↔ Linalg.isErgodic (Msm.specT mic lag) = false :=
  lumped_estimate_type_error_iff HS.exactPeq mac mic f pos lag hlag flag hf hguard hguardM hne
    (C01.model_meets_spec mic lag hlag hguard) exactPeq_spec

/-! non-vacuity: the data of `Refine/Public.lean` (micro states `-5, 3, 7`; `-5, 3 ↦ 2`, `7 ↦ -1`) -/

/-- all hypotheses of the lumped theorems hold and the call returns a matrix -/
example : exMac = exMic.map (·.map exF) ∧ LabelGuard exMic ∧ LabelGuard exMac ∧ exMic.flatten ≠ [] ∧
    Linalg.isErgodic (Msm.specT exMic 1) = true ∧
    lumpedCall exMac exMic false 1 true = .ok ([[1/3, 2/3], [5/12, 7/12]], [-1, 2]) := by decide +kernel
/-- singleton lumping: the call returns the micro model -/
example : lumpedCall exMic exMic false 1 false = .ok (exT, [-5, 3, 7]) := by decide +kernel
/-- lag 3: not ergodic, `TypeError` -/
example : exMac.map List.length = exMic.map List.length ∧ Linalg.isErgodic (Msm.specT exMic 3) = false ∧
    lumpedCall exMac exMic true 3 false = .error .type := by decide +kernel

end MsmVerif.Refine.LumpedTransfer

section AxiomCheck
open MsmVerif.Refine.LumpedTransfer
end AxiomCheck
