/-
Refine/CkApiLemmas.lean — helper lemmas for task RP22 (property C09): the translated public `chapman_kolmogorov_test` of
`src/msmhelper/msm/tests.py` (`Gen/MsmCkApi.lean`) evaluated step by step: the three argument checks, the dictionary loop
`for lagtime in lagtimes: ckeqs[lagtime] = …` over the SORTED lag times (`pyAssocSet` on an association list: a repeated key
overwrites its — equal — value, a new largest key is appended), `lagtimes[0]` of the sorted array, and facts on `sortDedup`
(a strictly ascending list is determined by its members).  The theorems with docstrings are in `Refine/CkApi.lean`.
-/
import MsmVerif.Gen.MsmCkApi
import MsmVerif.Refine.CkTest

namespace MsmVerif.Refine.CkApi
open MsmVerif MsmVerif.Gen

/-- the loop `for lagtime in lagtimes: ckeqs[lagtime] = f(lagtime)`, then `md(lagtimes[0])` -/
def apiTail {β γ : Type} (f : Int → Py β) (md : Int → Py γ) (L : List Int) : Py (List (Int × β) × γ) := do
  let s ← forIn L ([] : List (Int × β)) (fun lag s => do let t ← f lag; pure (ForInStep.yield (pyAssocSet s lag t)))
  let t2 ← pyGet L 0
  let t3 ← md t2
  pure (s, t3)

theorem api_unfold (est estp : Int → Py ((List (List Rat)) × (List Int))) (geo : Int → Int → Int → Py (List Int))
    (n : Int) (states lags : List Int) (tmax : Int) :
    Gen.MsmCkApi.chapman_kolmogorov_test est estp geo n states lags tmax =
      if (npSortInt lags).all (fun x => decide (0 < x)) = false then .error .type
      else if tmax < 0 then .error .type
      else apiTail (fun τ => Gen.MsmTests.chapman_kolmogorov_test est n states τ tmax)
        (fun t => Gen.MsmTests.chapman_kolmogorov_test_md estp geo n states t tmax 30) (npSortInt lags) := by
  unfold Gen.MsmCkApi.chapman_kolmogorov_test
  have hall : npAll1 ((npSortInt lags).map (fun x_ => decide (x_ > (0 : Int)))) = (npSortInt lags).all (fun x => decide (0 < x)) := by
    simp [npAll1, List.all_map]
  simp only [hall]
  by_cases h1 : (npSortInt lags).all (fun x => decide (0 < x)) = false
  · rw [if_pos h1]
    simp only [h1]
    rfl
  · rw [if_neg h1]
    have h1' : (npSortInt lags).all (fun x => decide (0 < x)) = true := by simpa using h1
    simp only [h1']
    by_cases h2 : tmax < 0
    · rw [if_pos h2]
      simp only [h2]
      rfl
    · rw [if_neg h2]
      simp only [h2]
      rfl

/-! ### strictly ascending lists are determined by their members -/

theorem eq_of_strict_of_mem (l1 l2 : List Int) (h1 : l1.Pairwise (· < ·)) (h2 : l2.Pairwise (· < ·))
    (hm : ∀ x, x ∈ l1 ↔ x ∈ l2) : l1 = l2 := by
  have n1 : l1.Nodup := h1.imp (fun h => Int.ne_of_lt h)
  have n2 : l2.Nodup := h2.imp (fun h => Int.ne_of_lt h)
  exact List.Perm.eq_of_pairwise (le := (· < ·)) (fun a b _ _ hab hba => by omega) h1 h2
    ((List.perm_ext_iff_of_nodup n1 n2).mpr hm)

theorem sortDedup_congr (l1 l2 : List Int) (hm : ∀ x, x ∈ l1 ↔ x ∈ l2) : sortDedup l1 = sortDedup l2 :=
  eq_of_strict_of_mem _ _ (sortDedup_pairwise l1) (sortDedup_pairwise l2)
    (fun x => by rw [mem_sortDedup, mem_sortDedup, hm])

theorem sortDedup_snoc_mem (L : List Int) (x : Int) (hx : x ∈ L) : sortDedup (L ++ [x]) = sortDedup L :=
  sortDedup_congr _ _ (fun y => by simp; intro h; exact h ▸ hx)

theorem sortDedup_snoc_new (L : List Int) (x : Int) (hle : ∀ y ∈ L, y ≤ x) (hx : x ∉ L) :
    sortDedup (L ++ [x]) = sortDedup L ++ [x] := by
  apply eq_of_strict_of_mem _ _ (sortDedup_pairwise _)
  · rw [List.pairwise_append]
    refine ⟨sortDedup_pairwise L, List.pairwise_singleton _ _, ?_⟩
    intro a ha b hb
    rw [mem_sortDedup] at ha
    rw [List.mem_singleton] at hb
    subst hb
    have := hle a ha
    have : a ≠ b := fun h => hx (h ▸ ha)
    omega
  · intro y
    simp [mem_sortDedup]

/-! ### the dictionary loop -/

/-- one dictionary entry `(τ, f τ)` -/
def apiEntry {β : Type} (f : Int → Py β) (τ : Int) : Py (Int × β) := do
  let r ← f τ
  pure (τ, r)

theorem mapM_entry_ok {β : Type} (f : Int → Py β) : ∀ (S : List Int) (d : List (Int × β)),
    S.mapM (apiEntry f) = .ok d → d.map Prod.fst = S ∧ ∀ p ∈ d, f p.1 = .ok p.2 := by
  intro S
  induction S with
  | nil =>
    intro d h
    cases h
    simp
  | cons x xs ih =>
    intro d h
    rw [List.mapM_cons] at h
    cases hx : f x with
    | error e => simp [apiEntry, hx, bind, Except.bind] at h
    | ok v =>
      cases hxs : xs.mapM (apiEntry f) with
      | error e => simp [apiEntry, hx, hxs, bind, Except.bind, pure, Except.pure] at h
      | ok d' =>
        simp [apiEntry, hx, hxs, bind, Except.bind, pure, Except.pure] at h
        subst h
        obtain ⟨h1, h2⟩ := ih d' hxs
        refine ⟨by simp [h1], ?_⟩
        intro p hp
        rcases List.mem_cons.mp hp with rfl | hp
        · exact hx
        · exact h2 p hp

theorem pyAssocSet_new {β : Type} (d : List (Int × β)) (k : Int) (v : β) (h : k ∉ d.map Prod.fst) :
    pyAssocSet d k v = d ++ [(k, v)] := by
  unfold pyAssocSet
  rw [if_neg]
  simp only [List.any_eq_true, not_exists, not_and]
  intro p hp hk
  exact h (List.mem_map.mpr ⟨p, hp, by simpa using hk⟩)

theorem pyAssocSet_same {β : Type} (d : List (Int × β)) (k : Int) (v : β) (h : k ∈ d.map Prod.fst)
    (hv : ∀ p ∈ d, p.1 = k → p.2 = v) : pyAssocSet d k v = d := by
  unfold pyAssocSet
  obtain ⟨p, hp, hk⟩ := List.mem_map.mp h
  rw [if_pos (List.any_eq_true.mpr ⟨p, hp, by simpa using hk⟩)]
  conv => rhs; rw [← List.map_id d]
  apply List.map_congr_left
  intro q hq
  by_cases hqk : q.1 = k
  · have hq2 := hv q hq hqk
    rw [if_pos (by simpa using hqk), ← hq2]
    rfl
  · rw [if_neg (by simpa using hqk)]
    rfl

theorem loop_eq {β : Type} (f : Int → Py β) : ∀ (n : Nat) (L : List Int), L.length = n → L.Pairwise (· ≤ ·) →
    L.foldlM (fun b a => pyAssocSet b a <$> f a) ([] : List (Int × β)) = (sortDedup L).mapM (apiEntry f) := by
  intro n
  induction n with
  | zero =>
    intro L hL _
    have : L = [] := List.eq_nil_of_length_eq_zero hL
    subst this
    rfl
  | succ n ih =>
    intro L hL hs
    rcases List.eq_nil_or_concat L with rfl | ⟨L', x, rfl⟩
    · simp at hL
    · rw [List.concat_eq_append] at hL hs ⊢
      have hlen : L'.length = n := by simpa using hL
      rw [List.pairwise_append] at hs
      obtain ⟨hs', -, hle⟩ := hs
      have hle' : ∀ y ∈ L', y ≤ x := fun y hy => hle y hy x (List.mem_singleton.mpr rfl)
      rw [List.foldlM_append, ih L' hlen hs']
      by_cases hx : x ∈ L'
      · rw [sortDedup_snoc_mem L' x hx]
        cases hd : (sortDedup L').mapM (apiEntry f) with
        | error e => rfl
        | ok d =>
          obtain ⟨h1, h2⟩ := mapM_entry_ok f _ d hd
          have hxd : x ∈ d.map Prod.fst := by rw [h1, mem_sortDedup]; exact hx
          obtain ⟨p, hp, hpx⟩ := List.mem_map.mp hxd
          have hfx : f x = .ok p.2 := by rw [← hpx]; exact h2 p hp
          show (List.foldlM (fun b a => pyAssocSet b a <$> f a) d [x]) = _
          rw [List.foldlM_cons, hfx]
          show Except.ok (pyAssocSet d x p.2) = _
          rw [pyAssocSet_same d x p.2 hxd]
          intro q hq hqx
          have := h2 q hq
          rw [hqx, hfx] at this
          exact (Except.ok.inj this).symm
      · rw [sortDedup_snoc_new L' x hle' hx, List.mapM_append]
        cases hd : (sortDedup L').mapM (apiEntry f) with
        | error e => rfl
        | ok d =>
          obtain ⟨h1, h2⟩ := mapM_entry_ok f _ d hd
          have hxd : x ∉ d.map Prod.fst := by rw [h1, mem_sortDedup]; exact hx
          show (List.foldlM (fun b a => pyAssocSet b a <$> f a) d [x]) = (do let r ← [x].mapM (apiEntry f); pure (d ++ r))
          rw [List.foldlM_cons, List.mapM_cons, List.mapM_nil]
          cases hfx : f x with
          | error e => simp [apiEntry, hfx, bind, Except.bind, Functor.map, Except.map]
          | ok v =>
            show Except.ok (pyAssocSet d x v) = _
            rw [pyAssocSet_new d x v hxd]
            simp [apiEntry, hfx, bind, Except.bind, pure, Except.pure]

theorem forIn_eq_foldlM {β : Type} (f : Int → Py β) (L : List Int) (d : List (Int × β)) :
    forIn L d (fun lag s => do let t ← f lag; pure (ForInStep.yield (pyAssocSet s lag t)))
      = L.foldlM (fun b a => pyAssocSet b a <$> f a) d := by
  have hbody : (fun (lag : Int) (s : List (Int × β)) => (do let t ← f lag; pure (ForInStep.yield (pyAssocSet s lag t)) : Py _))
      = (fun a b => (fun c => ForInStep.yield (pyAssocSet b a c)) <$> f a) := by
    funext a b
    cases f a <;> rfl
  rw [hbody]
  exact List.forIn_yield_eq_foldlM (fun a _ => f a) (fun a b c => pyAssocSet b a c) d

/-- the loop and the reference call, for an ascending list `L` -/
theorem apiTail_eq {β γ : Type} (f : Int → Py β) (md : Int → Py γ) (L : List Int) (hs : L.Pairwise (· ≤ ·)) :
    apiTail f md L = (do
      let entries ← (sortDedup L).mapM (apiEntry f)
      let t2 ← pyGet L 0
      let t3 ← md t2
      pure (entries, t3)) := by
  unfold apiTail
  rw [forIn_eq_foldlM, loop_eq f L.length L rfl hs]

theorem pyGet_zero_cons {α : Type} (a : α) (l : List α) : pyGet (a :: l) 0 = .ok a := by
  unfold pyGet normIdx
  simp

/-- the first element of the ascending arrangement is the minimum -/
theorem npSortInt_head (lags : List Int) (m : Int) (hm : m ∈ lags) (hmin : ∀ l ∈ lags, m ≤ l) :
    pyGet (npSortInt lags) 0 = .ok m := by
  obtain ⟨hs, hp⟩ := Times.npSortInt_sorted_perm lags
  cases hL : npSortInt lags with
  | nil =>
    rw [hL] at hp
    have := hp.symm.subset hm
    simp at this
  | cons a rest =>
    rw [hL] at hs hp
    rw [pyGet_zero_cons]
    have h1 : a ≤ m := by
      have hm' : m ∈ a :: rest := hp.symm.subset hm
      rcases List.mem_cons.mp hm' with rfl | hm'
      · exact Int.le_refl _
      · exact (List.pairwise_cons.mp hs).1 m hm'
    have h2 : m ≤ a := hmin a (hp.subset List.mem_cons_self)
    congr 1
    omega

theorem all_pos_iff (lags : List Int) :
    (npSortInt lags).all (fun x => decide (0 < x)) = true ↔ ∀ l ∈ lags, 1 ≤ l := by
  have hp := Times.npSortInt_perm lags
  rw [List.all_eq_true]
  constructor
  · intro h l hl
    have := h l (hp.symm.subset hl)
    simp at this
    omega
  · intro h l hl
    have := h l (hp.subset hl)
    simp
    omega

theorem exists_min (lags : List Int) (hne : lags ≠ []) : ∃ m, m ∈ lags ∧ ∀ l ∈ lags, m ≤ l := by
  obtain ⟨hs, hp⟩ := Times.npSortInt_sorted_perm lags
  cases hL : npSortInt lags with
  | nil =>
    rw [hL] at hp
    exact absurd hp.symm.eq_nil hne
  | cons a rest =>
    rw [hL] at hs hp
    refine ⟨a, hp.subset List.mem_cons_self, ?_⟩
    intro l hl
    rcases List.mem_cons.mp (hp.symm.subset hl) with rfl | hl'
    · exact Int.le_refl _
    · exact (List.pairwise_cons.mp hs).1 l hl'

theorem mapM_entry_of_ok {β : Type} (f : Int → Py β) (v : Int → β) : ∀ (S : List Int), (∀ τ ∈ S, f τ = .ok (v τ)) →
    S.mapM (apiEntry f) = .ok (S.map (fun τ => (τ, v τ))) := by
  intro S
  induction S with
  | nil => intro _; rfl
  | cons x xs ih =>
    intro h
    rw [List.mapM_cons, ih (fun τ hτ => h τ (List.mem_cons_of_mem _ hτ))]
    simp [apiEntry, h x List.mem_cons_self, bind, Except.bind, pure, Except.pure]

theorem mapM_entry_error {β : Type} (f : Int → Py β) (e : Err) : ∀ (pre : List Int) (t0 : Int) (rest : List Int),
    (∀ τ ∈ pre, ∃ v, f τ = .ok v) → f t0 = .error e →
    (pre ++ t0 :: rest).mapM (apiEntry f) = .error e := by
  intro pre
  induction pre with
  | nil =>
    intro t0 rest _ h0
    rw [List.nil_append, List.mapM_cons]
    simp [apiEntry, h0, bind, Except.bind]
  | cons x xs ih =>
    intro t0 rest h h0
    obtain ⟨v, hv⟩ := h x List.mem_cons_self
    rw [List.cons_append, List.mapM_cons, ih t0 rest (fun τ hτ => h τ (List.mem_cons_of_mem _ hτ)) h0]
    simp [apiEntry, hv, bind, Except.bind, pure, Except.pure]

theorem exists_ok_of_isOk {α : Type} {x : Py α} (h : x.isOk = true) : ∃ v, x = .ok v := by
  cases x with
  | error e => cases h
  | ok v => exact ⟨v, rfl⟩

end MsmVerif.Refine.CkApi
