/-
Refine/Init.lean — task RP17 (properties C01, C02, C17): the TRANSLATED constructor `StateTraj.__init__` of
`src/msmhelper/statetraj.py` (`Gen/StateTrajInit.lean`, container form "list of 1-d integer arrays") leaves exactly the
object state `(self._trajs, self._states)` that the hand-written model `StateTraj.mk'` (`Model/Basic.lean`) describes:
same three branches (labels `0..n-1` copied, labels `1..n` minus one, otherwise `rename_by_index`), same result, same
error.

The third branch calls the translated `rename_by_index` (`Gen/UtilsRelabel.lean`) whose refinement is proved separately
(task RP16, `Refine/Relabel.lean`); the theorems here that touch this branch are stated RELATIVE to it, with the hypothesis

  `hrename : rename_by_index ts = (shiftTrajs ts (states ts) (range n as Int)).map (fun r => (r, states ts))`.

The first two branches need nothing (`init_arange0`, `init_arange1`).  The last section discharges `hrename` with
`Refine.Relabel.rename_by_index_refines` and gives the UNCONDITIONAL theorems (`init_eq_mk'`, `init_ok`, `init_eq_rank`, …).
Helper lemmas: `Refine/InitLemmas.lean`.
-/
import MsmVerif.Refine.InitLemmas
import MsmVerif.Refine.Relabel
import MsmVerif.Props.C02
import MsmVerif.Props.C17
open MsmVerif MsmVerif.Gen

namespace MsmVerif.Refine.Init

/-- what the refinement of the translated `rename_by_index` (task RP16) says for the set `ts`: it returns the model's
lookup-table relabelling of `ts` from the ascending distinct labels to `0, 1, …, n-1`, paired with those labels — or the same
error -/
def RenameSpec (ts : List (List Int)) : Prop :=
  UtilsRelabel.rename_by_index ts
    = (shiftTrajs ts (states ts) ((List.range (states ts).length).map Int.ofNat)).map (fun r => (r, states ts))

/-! ### the pieces -/

/-- **The translated `mh.utils.unique` is the model's `states`**: it never raises and returns the ascending distinct labels
of all trajectories. -/
theorem unique_refines (ts : List (List Int)) : UtilsRelabel.unique ts = .ok (states ts) :=
  unique_eq_states ts

/-- **First branch test**: `np.array_equal(states, np.arange(len(states)))` in the translation is the model's `isArange 0`,
for every list `ss`. -/
theorem test_arange0 (ss : List Int) : (ss == npArange 0 (pyLen ss)) = isArange 0 ss := arange0_test ss

/-- **Second branch test**: `np.array_equal(states, np.arange(1, len(states) + 1))` in the translation is the model's
`isArange 1`, for every list `ss`. -/
theorem test_arange1 (ss : List Int) : (ss == npArange 1 (pyLen ss + 1)) = isArange 1 ss := arange1_test ss

/-- **The translated constructor as three branches** on the model's tests of the model's state list: copy; minus one;
otherwise whatever the translated `rename_by_index` returns (result or error).  No hypothesis. -/
theorem init_branches (ts : List (List Int)) :
    StateTrajInit.init ts
      = if isArange 0 (states ts) then .ok (ts, states ts)
        else if isArange 1 (states ts) then .ok (ts.map (·.map (· - 1)), states ts)
        else UtilsRelabel.rename_by_index ts :=
  init_unfold ts

/-- **Branch 1, unconditional**: if the distinct labels are exactly `0, 1, …, n-1`, the constructor stores the trajectories
unchanged together with the state list, and raises nothing. -/
theorem init_arange0 (ts : List (List Int)) (h : isArange 0 (states ts) = true) :
    StateTrajInit.init ts = .ok (ts, states ts) := by
  rw [init_unfold, if_pos h]

/-- **Branch 2, unconditional**: if the distinct labels are exactly `1, 2, …, n` (and not `0..n-1`, i.e. there is at least
one label), the constructor stores every label minus one together with the state list, and raises nothing. -/
theorem init_arange1 (ts : List (List Int)) (h0 : isArange 0 (states ts) = false) (h1 : isArange 1 (states ts) = true) :
    StateTrajInit.init ts = .ok (ts.map (·.map (· - 1)), states ts) := by
  rw [init_unfold, if_neg (by simp [h0]), if_pos h1]

/-- **Branch 3**: in every other case the constructor's result (or error) is that of the translated `rename_by_index`. -/
theorem init_general (ts : List (List Int)) (h0 : isArange 0 (states ts) = false) (h1 : isArange 1 (states ts) = false) :
    StateTrajInit.init ts = UtilsRelabel.rename_by_index ts := by
  rw [init_unfold, if_neg (by simp [h0]), if_neg (by simp [h1])]

/-- the all-empty input (no trajectory, or only empty ones) takes branch 1 in the translation as in the model: `np.unique`
of nothing is the empty state list, which equals `np.arange(0)` -/
theorem init_of_flatten_nil (ts : List (List Int)) (h : ts.flatten = []) : StateTrajInit.init ts = .ok (ts, []) := by
  have hs : states ts = [] := by simp [states, h, sortDedup]
  have := init_arange0 ts (by rw [hs]; rfl)
  rwa [hs] at this

/-! ### MAIN -/

/-- **MAIN — the translated constructor is the model constructor.**  For every list of integer trajectories `ts` (any
number, any lengths, empty ones included, any labels), given that the translated `rename_by_index` refines the model on `ts`
(`hrename`, needed only when the labels are neither `0..n-1` nor `1..n`), `StateTraj.__init__` leaves exactly the object state
the model describes — `self._trajs` = the model's index trajectories, `self._states` = the model's state list — or raises the
same error as the model (`ValueError`/`IndexError` of the lookup-table branch). -/
theorem init_refines (ts : List (List Int))
    (hrename : UtilsRelabel.rename_by_index ts
      = (shiftTrajs ts (states ts) ((List.range (states ts).length).map Int.ofNat)).map (fun r => (r, states ts))) :
    StateTrajInit.init ts = (StateTraj.mk' ts).map (fun st => (st.idx, st.sts)) := by
  rw [init_unfold, mk'_unfold, hrename]

/-- the same with the hypothesis required only in the branch that uses it: `hrename` has to hold only if the labels are
neither `0..n-1` nor `1..n` -/
theorem init_refines' (ts : List (List Int))
    (hrename : isArange 0 (states ts) = false → isArange 1 (states ts) = false → RenameSpec ts) :
    StateTrajInit.init ts = (StateTraj.mk' ts).map (fun st => (st.idx, st.sts)) := by
  rw [init_unfold, mk'_unfold]
  by_cases h0 : isArange 0 (states ts) = true
  · simp only [h0, if_true]
  · by_cases h1 : isArange 1 (states ts) = true
    · simp only [h0, h1, if_true]
    · simp only [h0, h1]
      exact hrename (by simpa using h0) (by simpa using h1)

/-- **Conversely the constructor determines the model**: whenever the translated constructor returns `(idx, sts)` the model
constructor returns the object with these two fields, and whenever it raises `e` so does the model (relative to `hrename`). -/
theorem mk'_of_init (ts : List (List Int)) (hrename : RenameSpec ts) :
    StateTraj.mk' ts = (StateTrajInit.init ts).map (fun p => ⟨p.1, p.2⟩) := by
  rw [init_refines ts hrename]
  cases StateTraj.mk' ts <;> rfl

/-- **No error, ever.**  The model constructor never raises, for any labels (without a guard the 32-bit table may wrap values,
but the table is always large enough for every old label); hence, relative to `hrename`, the translated constructor returns
a result for EVERY input — in particular no `IndexError` and no `ValueError` from the lookup-table branch. -/
theorem init_no_raise (ts : List (List Int)) (hrename : RenameSpec ts) :
    ∃ idx sts, StateTrajInit.init ts = .ok (idx, sts) := by
  obtain ⟨st, hst⟩ := mk'_isOk ts
  exact ⟨st.idx, st.sts, by rw [init_refines ts hrename, hst]; rfl⟩

/-- the state list the constructor stores is always the ascending list of distinct labels of the input -/
theorem init_states (ts : List (List Int)) (hrename : RenameSpec ts) {idx : List (List Int)} {sts : List Int}
    (h : StateTrajInit.init ts = .ok (idx, sts)) : sts = states ts := by
  rw [init_unfold, hrename] at h
  split at h
  · simp only [Except.ok.injEq, Prod.mk.injEq] at h; exact h.2.symm
  · split at h
    · simp only [Except.ok.injEq, Prod.mk.injEq] at h; exact h.2.symm
    · cases hs : shiftTrajs ts (states ts) ((List.range (states ts).length).map Int.ofNat) with
      | error e => rw [hs] at h; simp [Except.map] at h
      | ok r => rw [hs] at h; simp only [Except.map, Except.ok.injEq, Prod.mk.injEq] at h; exact h.2.symm

/-! ### consequences through the model theorems (C01 / C02 / C17) -/

/-- **Index trajectories = ranks (general guard).**  If all labels lie in a window `[lo, hi]` with `lo ≤ 0` and
`hi - 2·lo < 2^31` (the 32-bit lookup table of `shift_data` does not wrap), the constructor raises nothing and stores, for
every frame, the rank of its label in the ascending state list, together with that state list — through all three branches. -/
theorem init_rank_of_window (ts : List (List Int)) {lo hi : Int} (hw : LabelWindow ts lo hi) (hrename : RenameSpec ts) :
    StateTrajInit.init ts = .ok (rankTrajs ts, states ts) := by
  rw [init_refines ts hrename, mk'_eq_rank_of_window hw]; rfl

/-- **Index trajectories = ranks (concrete guard).**  If every label lies in `[-2^29, 2^29]` (`LabelGuard`), the constructor
raises nothing and stores the rank trajectories and the ascending distinct labels — the fact the estimators of C01 start from. -/
theorem init_rank (ts : List (List Int)) (hguard : LabelGuard ts) (hrename : RenameSpec ts) :
    StateTrajInit.init ts = .ok (rankTrajs ts, states ts) :=
  init_rank_of_window ts hguard.window hrename

/-- under the guard every stored index is a valid state index: `0 ≤ i < nstates` -/
theorem init_index_range (ts : List (List Int)) (hguard : LabelGuard ts) (hrename : RenameSpec ts)
    {idx : List (List Int)} {sts : List Int} (h : StateTrajInit.init ts = .ok (idx, sts)) :
    ∀ i ∈ idx.flatten, 0 ≤ i ∧ i < (sts.length : Int) := by
  rw [init_rank ts hguard hrename] at h
  simp only [Except.ok.injEq, Prod.mk.injEq] at h
  obtain ⟨rfl, rfl⟩ := h
  intro i hi
  obtain ⟨x, hx, rfl⟩ := mem_rankTrajs_flatten.mp hi
  have := rank_lt (mem_states.mpr hx)
  omega

/-- **Round trip (C02).**  Under the guard, decoding the stored object state with the model's `StateTraj.trajs`
(index → label, again three branches) gives back the input trajectories. -/
theorem init_roundtrip (ts : List (List Int)) (hguard : LabelGuard ts) (hrename : RenameSpec ts)
    {idx : List (List Int)} {sts : List Int} (h : StateTrajInit.init ts = .ok (idx, sts)) :
    StateTraj.trajs ⟨idx, sts⟩ = .ok ts := by
  apply trajs_roundtrip hguard
  rw [mk'_of_init ts hrename, h]; rfl

/-- **Link to the heap model of C02.**  Under the guard, the object that the heap model's `construct` step creates from the
arrays at `args` reports exactly the state list and the index trajectories which the translated constructor computes from the
contents of these arrays. -/
theorem init_eq_heap_report {s : Heap.State} {args : List Heap.Addr} {ts : Trajs} (hts : args.map s.read = ts)
    (hguard : LabelGuard ts) (hrename : RenameSpec ts) :
    ∃ r, Heap.report (Heap.step s (.construct args)).1 = some r ∧ StateTrajInit.init ts = .ok (r.idxTrajs, r.sts) := by
  obtain ⟨r, hr, hs, hi, _⟩ := C02.roundtrip hts hguard
  exact ⟨r, hr, by rw [hs, hi]; exact init_rank ts hguard hrename⟩

/-- **Representation independence (C17).**  If the relabelling `f` is strictly increasing on the labels present and both the
original and the relabelled set satisfy the guard, the constructor stores the SAME index trajectories for both, and the
relabelled state list `f(states)` in the same order. -/
theorem init_relabel_mono (f : Int → Int) (ts : List (List Int))
    (hf : ∀ a ∈ ts.flatten, ∀ b ∈ ts.flatten, a < b → f a < f b)
    (hguard : LabelGuard ts) (hguard' : LabelGuard (ts.map (·.map f)))
    (hrename : RenameSpec ts) (hrename' : RenameSpec (ts.map (·.map f))) :
    StateTrajInit.init ts = .ok (rankTrajs ts, states ts) ∧
    StateTrajInit.init (ts.map (·.map f)) = .ok (rankTrajs ts, (states ts).map f) := by
  refine ⟨init_rank ts hguard hrename, ?_⟩
  rw [init_rank _ hguard' hrename', C17.rankTrajs_map f ts hf, C17.states_map f ts hf]

/-! ### unconditional theorems (with the refinement of `rename_by_index`, `Refine/Relabel.lean`) -/

/-- the hypothesis `hrename` holds for every input: this is `Refine.Relabel.rename_by_index_refines` -/
theorem renameSpec (ts : List (List Int)) : RenameSpec ts := Relabel.rename_by_index_refines ts

/-- **MAIN, unconditional — the translated constructor is the model constructor.**  For every list of integer trajectories
the translated `StateTraj.__init__` leaves exactly the object state of the model `StateTraj.mk'` (index trajectories and
state list), or raises the same error.  No hypothesis. -/
theorem init_eq_mk' (ts : List (List Int)) :
    StateTrajInit.init ts = (StateTraj.mk' ts).map (fun st => (st.idx, st.sts)) :=
  init_refines ts (renameSpec ts)

/-- **Unconditional: the constructor never raises**, for any list of integer trajectories and any labels. -/
theorem init_ok (ts : List (List Int)) : ∃ idx sts, StateTrajInit.init ts = .ok (idx, sts) :=
  init_no_raise ts (renameSpec ts)

/-- **Unconditional: the stored state list** is the ascending list of distinct labels of the input. -/
theorem init_states_eq (ts : List (List Int)) {idx : List (List Int)} {sts : List Int}
    (h : StateTrajInit.init ts = .ok (idx, sts)) : sts = states ts :=
  init_states ts (renameSpec ts) h

/-- **Unconditional (only the 32-bit guard): index trajectories = ranks.**  If every label lies in `[-2^29, 2^29]` the
constructor returns the rank of every label in the ascending state list, and that state list. -/
theorem init_eq_rank (ts : List (List Int)) (hguard : LabelGuard ts) :
    StateTrajInit.init ts = .ok (rankTrajs ts, states ts) :=
  init_rank ts hguard (renameSpec ts)

/-- the same under the general window guard (`lo ≤ 0`, `hi - 2·lo < 2^31`, all labels in `[lo, hi]`) -/
theorem init_eq_rank_of_window (ts : List (List Int)) {lo hi : Int} (hw : LabelWindow ts lo hi) :
    StateTrajInit.init ts = .ok (rankTrajs ts, states ts) :=
  init_rank_of_window ts hw (renameSpec ts)

/-- **Unconditional round trip (C02)**: under the guard, decoding what the constructor stored with the model's
`StateTraj.trajs` gives back the input. -/
theorem init_trajs_roundtrip (ts : List (List Int)) (hguard : LabelGuard ts) {idx : List (List Int)} {sts : List Int}
    (h : StateTrajInit.init ts = .ok (idx, sts)) : StateTraj.trajs ⟨idx, sts⟩ = .ok ts :=
  init_roundtrip ts hguard (renameSpec ts) h

/-- **Unconditional link to the heap model (C02)**: the object created by the heap model's `construct` step reports the
state list and index trajectories that the translated constructor computes from the arrays' contents. -/
theorem init_eq_heap_report' {s : Heap.State} {args : List Heap.Addr} {ts : Trajs} (hts : args.map s.read = ts)
    (hguard : LabelGuard ts) :
    ∃ r, Heap.report (Heap.step s (.construct args)).1 = some r ∧ StateTrajInit.init ts = .ok (r.idxTrajs, r.sts) :=
  init_eq_heap_report hts hguard (renameSpec ts)

/-- **Unconditional representation independence (C17)**: a relabelling that is strictly increasing on the labels present
(both sets within the guard) does not change the stored index trajectories; the state list is relabelled in place. -/
theorem init_relabel (f : Int → Int) (ts : List (List Int))
    (hf : ∀ a ∈ ts.flatten, ∀ b ∈ ts.flatten, a < b → f a < f b)
    (hguard : LabelGuard ts) (hguard' : LabelGuard (ts.map (·.map f))) :
    StateTrajInit.init ts = .ok (rankTrajs ts, states ts) ∧
    StateTrajInit.init (ts.map (·.map f)) = .ok (rankTrajs ts, (states ts).map f) :=
  init_relabel_mono f ts hf hguard hguard' (renameSpec _) (renameSpec _)

/-! ### non-vacuity: each of the three branches, the error case, the hypotheses -/

/-- branch 1 (labels `0,1,2`): copied -/
example : StateTrajInit.init [[0, 1, 0], [2], []] = .ok ([[0, 1, 0], [2], []], [0, 1, 2]) := by decide +kernel
/-- branch 2 (labels `1,2,3`): minus one -/
example : StateTrajInit.init [[1, 2, 1], [], [3]] = .ok ([[0, 1, 0], [], [2]], [1, 2, 3]) := by decide +kernel
/-- branch 3 (labels `-5,3,7`, ragged set with an empty trajectory): ranks through the lookup table -/
example : StateTrajInit.init [[3, -5, 3], [7], []] = .ok ([[1, 0, 1], [2], []], [-5, 3, 7]) := by decide +kernel
/-- the all-empty inputs take branch 1 in both -/
example : StateTrajInit.init [] = .ok ([], []) ∧ StateTrajInit.init [[], []] = .ok ([[], []], []) := by decide +kernel
example : (StateTraj.mk' [[], []]).map (fun st => (st.idx, st.sts)) = .ok ([[], []], []) := by decide +kernel
/-- the tests are the model's on concrete lists -/
example : isArange 0 (states [[0, 1, 0], [2]]) = true ∧ isArange 1 (states [[1, 2, 1], [3]]) = true ∧
    isArange 0 (states [[1, 2, 1], [3]]) = false ∧
    isArange 0 (states [[3, -5, 3], [7]]) = false ∧ isArange 1 (states [[3, -5, 3], [7]]) = false := by decide +kernel
/-- the hypothesis `hrename` holds on a concrete branch-3 input -/
example : RenameSpec [[3, -5, 3], [7], []] := by unfold RenameSpec; decide +kernel
example : LabelGuard [[3, -5, 3], [7], []] := by decide
/-- `init_refines` on concrete inputs of each branch -/
example : StateTrajInit.init [[3, -5, 3], [7], []]
    = (StateTraj.mk' [[3, -5, 3], [7], []]).map (fun st => (st.idx, st.sts)) :=
  init_refines _ (by decide +kernel)
/-- `init_relabel_mono`: `x ↦ 2x + 3` on the labels `1, 5, 7` -/
example : ∀ a ∈ ([[1, 1, 5], [5, 7]] : Trajs).flatten, ∀ b ∈ ([[1, 1, 5], [5, 7]] : Trajs).flatten,
    a < b → 2 * a + 3 < 2 * b + 3 := by decide
example : LabelGuard (([[1, 1, 5], [5, 7]] : Trajs).map (·.map (fun x => 2 * x + 3))) := by decide

end MsmVerif.Refine.Init
