"""C05 — dynamical coring follows the published rule on every trajectory separately."""
import numpy as np

import core
import gen

PID = 'C05'
ANCHORS = [('src/msmhelper/md/corrections.py',
            ['dynamical_coring', '_dynamical_coring', '_dynamical_coring_single_lagtime',
             '_dynamical_coring_single_traj', '_remains_in_core', '_find_first_core'])]
RULE = ('exhaustive: every trajectory over 3 labels up to length 7 (quick) / 10 (thorough) x tau 1..5 x both modes, '
        'through the public API with label alphabets {0,1,2},{-1,0,1},{7,-3,40}; random: 1-5 trajectories of '
        'different lengths, arbitrary labels, tau<=12, several container forms. Non-trivial = output differs from '
        'input or an error is raised; distinct by (trajectories, tau, mode).')
RELATION = 'canon(msmhelper.md.dynamical_coring(trajs, tau, iterative)) = Coring.dynamicalCoring trajs tau iterative'
TRUSTED = ['numba typed-list conversion and StateTraj re-wrapping are executed, not modelled beyond their result']
ALPHAS = [[0, 1, 2], [-1, 0, 1], [7, -3, 40]]


def _mk(trajs, tau, it, form='list_of_arrays', src='rand'):
    return {'op': 'coring', 'trajs': trajs, 'tau': tau, 'iter': it, 'form': form, 'src': src}


def cases(tier, rng, boost=1):
    # corpus: minimised past failures first
    yield _mk([[-1, -1, -1, 2, 2, 2]], 2, True, src='corpus')          # D1
    yield _mk([[0, 0, 0, 1, 1, 1], [1, 1, 1, 0, 0, 0, 0]], 2, True, src='corpus')   # D8
    yield _mk([[-1, -1, 3, 3, 3]], 3, False, src='corpus')
    # many states (beyond the 8-bit range), narrow per-array dtypes, long runs: index / label arithmetic in a narrow dtype would wrap
    brng = core.Rng(41)
    big = []
    for _k in range(3):
        t = []
        for _j in range(120):
            t += [brng.randrange(300)] * brng.choice([1, 2, 3, 4, 6])
        big.append(t)
    for form in ('per_array_narrow', 'list_of_arrays', 'statetraj'):
        yield _mk(big, 3, True, form=form, src='corpus-big')
        yield _mk([[x - 150 for x in t] for t in big], 2, False, form=form, src='corpus-big')
    for lt, _N in gen.long_sets(tier):
        yield _mk(lt, 3, True, src='corpus-long')
        yield _mk([[x * 5 - 7 for x in t] for t in lt], 4, False, form='statetraj', src='corpus-long')
    yield _mk([[1, 1, 2, 2, 1, 1, 1]], 0, True, src='corpus')
    yield _mk([[1, 1, 2, 2, 1, 1, 1]], -2, False, src='corpus')
    maxlen = {'quick': 7, 'thorough': 10, 'search': 8}[tier]
    k = 0
    for t in gen.all_trajs(3, maxlen):
        k += 1
        for tau in range(1, 6):
            for it in (True, False):
                if tier == 'quick' or len(t) <= 7:
                    alphas = ALPHAS
                else:
                    alphas = [ALPHAS[k % 3]]
                for a in alphas:
                    yield _mk([[a[i] for i in t]], tau, it, src='enum')
    nrand = {'quick': 1500, 'thorough': 20000, 'search': 6000}[tier] * boost
    for _ in range(nrand):
        n = rng.randint(1, 6)
        labs, _cls = gen.alphabet(rng, n)
        ntraj = rng.randint(1, 5)
        trajs = gen.relabel(gen.random_trajs(rng, n, ntraj, 1, 40, sticky=rng.choice([0.5, 0.7, 0.85])), labs)
        tau = rng.randint(1, 12)
        form = rng.choice(gen.FORMS)
        yield _mk(trajs, tau, rng.random() < 0.6, form=form, src='rand')


def real(case):
    import msmhelper as mh
    rng = core.Rng(hash(str(case['trajs'])) & 0xffff)
    def mkarg():
        return gen.to_form(case['trajs'], case.get('form', 'list_of_arrays'), rng)

    def run():
        arg = mkarg()
        res = mh.md.dynamical_coring(arg, lagtime=case['tau'], iterative=case['iter'])
        if not isinstance(res, mh.StateTraj):
            raise AssertionError('result is not a StateTraj')
        out_trajs = [t.tolist() for t in res.trajs]
        if [int(x) for x in res.states] != sorted({x for t in out_trajs for x in t}):
            raise AssertionError('returned StateTraj reports states that are not the states of its trajectories')
        return out_trajs
    out = core.call(run)
    out.pop('msg', None)
    return out


def request(case, obs):
    return {'op': 'coring', 'trajs': case['trajs'], 'tau': case['tau'], 'iter': case['iter'], 'obs': obs}


def agree(case, obs, reply):
    return reply['model'] == obs


def holds(case, obs, reply):
    return bool(reply['holds'])


def nontrivial(case, obs, reply):
    return 'err' in obs or obs.get('ok') != case['trajs']


def key(case):
    return [case['trajs'], case['tau'], case['iter']]


def classify(case, obs, reply):
    return '%s/%s/%s' % (case['src'], 'iter' if case['iter'] else 'single',
                         obs.get('err', 'changed' if obs.get('ok') != case['trajs'] else 'same'))


def known_match(k, case, obs, reply):
    return False


def shrink(case):
    ts = case['trajs']
    if len(ts) > 1:
        for i in range(len(ts)):
            yield dict(case, trajs=ts[:i] + ts[i + 1:])
    for i, t in enumerate(ts):
        if len(t) > 1:
            for j in range(len(t)):
                yield dict(case, trajs=ts[:i] + [t[:j] + t[j + 1:]] + ts[i + 1:])
    if case['tau'] > 2:
        yield dict(case, tau=case['tau'] - 1)
    if case.get('form') != 'list_of_arrays':
        yield dict(case, form='list_of_arrays')


def mutate(case, rng):
    out = []
    for _ in range(30):
        ts = [list(t) for t in case['trajs']]
        i = rng.randrange(len(ts))
        if ts[i]:
            j = rng.randrange(len(ts[i]))
            ts[i][j] = rng.choice([x for t in ts for x in t])
        out.append(dict(case, trajs=ts, tau=max(1, case['tau'] + rng.choice([-1, 0, 0, 1]))))
    return out
