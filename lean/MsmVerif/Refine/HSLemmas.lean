/-
Refine/HSLemmas.lean — helper lemmas for `MsmVerif/Refine/HS.lean` (task RP8, property C03): the numpy runtime pieces used by the
translated `LumpedStateTraj._estimate_markov_model` (`Gen/NpRt.lean`: Gauss–Jordan inverse, matrix product, broadcasting, masks,
fancy-index assignment, row normalisation) computed on well-shaped arrays are the list-level pieces of the model `Linalg.hsProject`.
-/
import MsmVerif.Gen.StateTrajHS
import MsmVerif.Model.Linalg
import MsmVerif.Lemmas.HS

namespace MsmVerif.Refine.HS
open MsmVerif MsmVerif.Gen MsmVerif.Linalg MsmVerif.Msm

/-! ### the `Except` monad -/

theorem ok_bind {α β : Type} (a : α) (f : α → Py β) : (Except.ok a : Py α) >>= f = f a := rfl
theorem error_bind {α β : Type} (e : Err) (f : α → Py β) : (Except.error e : Py α) >>= f = .error e := rfl

theorem mapM_ok {α β : Type} (l : List α) (g : α → Py β) (h : α → β) (hg : ∀ x ∈ l, g x = .ok (h x)) :
    l.mapM g = .ok (l.map h) := by
  induction l with
  | nil => rfl
  | cons x xs ih =>
    rw [List.mapM_cons, hg x (by simp), ok_bind, ih (fun y hy => hg y (by simp [hy])), ok_bind]
    rfl

theorem mapM_id_ok {β : Type} (l : List (Py β)) (l' : List β) (h : l = l'.map Except.ok) :
    l.mapM id = .ok l' := by
  subst h
  rw [List.mapM_map]
  have := mapM_ok l' (fun x => (id (Except.ok x) : Py β)) id (fun _ _ => rfl)
  simpa using this

/-! ### runtime pieces = model pieces -/

theorem npGjStep_eq : npGjStep = gjStep := rfl
theorem npEye_eq : npEye = identity := rfl
theorem npDiag_eq (v : List Rat) : npDiag 0 v = diag v := rfl
theorem npTranspose_eq (m : List (List Rat)) : npTranspose m = transpose m := by
  cases m <;> rfl

theorem npDot_eq (a b : List Rat) : npDot a b = dot a b := by
  unfold npDot dot
  rw [List.map_zip_eq_zipWith]
  rfl

theorem npMul_eq (a b : List (List Rat)) : npMul a b = mul a b := by
  unfold npMul mul
  simp only [npTranspose_eq, npDot_eq]

theorem npInv_eq (m : List (List Rat)) (hsq : npShape0 m = npShape1 m) :
    npInv m = (match inverse m with | some a => .ok a | none => .error .other) := by
  unfold npInv inverse
  simp only [hsq, ne_eq, not_true_eq_false, if_false, npEye_eq, npGjStep_eq]
  cases (List.range m.length).foldl (fun (acc : Option (List (List Rat))) c => acc.bind (fun a => gjStep a c))
    (some ((List.zip m (identity m.length)).map (fun p => p.1 ++ p.2))) <;> rfl

/-! ### broadcasting -/

theorem npBroadcast1_ok {α β γ : Type} (f : α → β → γ) (a : List α) (b : List β) (h : a.length = b.length) :
    npBroadcast1 f a b = .ok (List.zipWith f a b) := by
  unfold npBroadcast1
  split
  · match b, h with
    | [y], _ => rfl
  · match a, h with
    | [x], _ => rfl
  · rw [if_pos h]

theorem npBroadcast2_ok {α β γ : Type} (f : α → β → γ) (a : List (List α)) (b : List (List β))
    (h : List.Forall₂ (fun r s => r.length = s.length) a b) :
    npBroadcast2 f a b = .ok (List.zipWith (List.zipWith f) a b) := by
  unfold npBroadcast2
  rw [npBroadcast1_ok _ _ _ h.length_eq, ok_bind]
  apply mapM_id_ok
  induction h with
  | nil => rfl
  | cons hrs _ ih =>
    simp only [List.zipWith_cons_cons, List.map_cons, ih, npBroadcast1_ok _ _ _ hrs]





/-! ### row normalisation -/

theorem npMatCol_ok {α β γ : Type} (f : α → β → γ) (m : List (List α)) (c : List β) (h : m.length = c.length) :
    npMatCol f m c = .ok (List.zipWith (fun r y => r.map (fun x => f x y)) m c) := by
  unfold npMatCol
  split
  · match c, h with
    | [y], _ => rfl
  · match m, h with
    | [r], _ => rfl
  · rw [if_pos h]

theorem npMaskSet_ok {α : Type} (v : List α) (mask : List Bool) (x : α) (h : v.length = mask.length) :
    npMaskSet v mask x = .ok (List.zipWith (fun a b => if b then x else a) v mask) := by
  unfold npMaskSet
  rw [if_pos h]

theorem row_normalize_ok (mat : List (List Rat)) :
    Gen.MsmNorm.row_normalize_matrix mat = .ok (rowNormalizeQ mat) := by
  have key : ∀ rs : List Rat, rs.length = mat.length →
      (do let t1 ← npReshapeCol rs (npShape0 mat, npShape1 mat).1
          npMatCol (fun x_ y_ => x_ / y_) mat t1 : Py (List (List Rat)))
        = .ok (List.zipWith (fun r y => r.map (fun x => x / y)) mat rs) := by
    intro rs hrs
    have : npReshapeCol rs (npShape0 mat, npShape1 mat).1 = .ok rs := by
      unfold npReshapeCol npShape0
      rw [if_pos (by simp [hrs])]
    rw [this, ok_bind, npMatCol_ok _ _ _ hrs.symm]
  have fin : List.zipWith (fun r y => r.map (fun x => x / y)) mat
      (mat.map (fun r => if r.sum = 0 then (1 : Rat) else r.sum)) = rowNormalizeQ mat := by
    unfold rowNormalizeQ
    rw [List.zipWith_map_right, List.zipWith_self]
  unfold Gen.MsmNorm.row_normalize_matrix
  simp only []
  split
  · -- some row sum is zero: replace
    rw [npMaskSet_ok _ _ _ (by simp), ok_bind, key _ (by simp [npSumAxis1]), ← fin]
    congr 2
    unfold npSumAxis1
    rw [List.zipWith_map_right, List.zipWith_self, List.map_map]
    apply List.map_congr_left
    intro r _
    simp only [Function.comp_apply]
    by_cases h0 : r.sum = 0 <;> simp [h0]
  · next hall =>
    rw [key _ (by simp [npSumAxis1]), ← fin]
    congr 2
    unfold npSumAxis1
    apply List.map_congr_left
    intro r hr
    have : r.sum ≠ 0 := by
      simp only [npAll1, npSumAxis1, Bool.not_eq_true', Bool.not_eq_false, List.all_eq_true] at hall
      have := hall (r.sum != 0) (by simp only [List.map_map, List.mem_map]; exact ⟨r, hr, rfl⟩)
      simpa using this
    rw [if_neg this]

/-! ### clipping -/

theorem clip_ok (m : List (List Rat)) :
    npMaskSet2 m (m.map (fun r_ => r_.map (fun x_ => decide (x_ < (((0 : Int) : Int) : Rat))))) (0 : Rat)
      = .ok (HS.clip m) := by
  unfold npMaskSet2
  rw [if_pos (by simp)]
  apply mapM_id_ok
  unfold HS.clip
  rw [List.zipWith_map_right, List.zipWith_self, List.map_map]
  apply List.map_congr_left
  intro r _
  simp only [Function.comp_apply]
  rw [npMaskSet_ok _ _ _ (by simp), List.zipWith_map_right, List.zipWith_self]
  congr 1
  apply List.map_congr_left
  intro x _
  simp

/-! ### identity and `1 πᵀ` -/

theorem idPlusOnes {α : Type} (l : List α) (v : List Rat) :
    List.zipWith (List.zipWith (fun (x_ : Int) (y_ : Rat) => (x_ : Rat) + y_))
        (npDiag (0 : Int) (npFullLike l (1 : Int)))
        (npOuter (fun (x_ : Int) (y_ : Rat) => (x_ : Rat) * y_) (npFullLike l (1 : Int)) v)
      = add (identity l.length) (List.replicate l.length v) := by
  have h1 : npOuter (fun (x_ : Int) (y_ : Rat) => (x_ : Rat) * y_) (npFullLike l (1 : Int)) v
      = List.replicate l.length v := by
    unfold npOuter npFullLike
    rw [List.map_map, ← List.map_const']
    apply List.map_congr_left
    intro _ _
    simp
  have h2 : (npDiag (0 : Int) (npFullLike l (1 : Int))).map (fun r => r.map (fun (x : Int) => (x : Rat)))
      = identity l.length := by
    unfold npDiag npFullLike identity
    simp only [List.length_map, List.map_map]
    apply List.map_congr_left
    intro i hi
    simp only [Function.comp_apply, List.map_map]
    apply List.map_congr_left
    intro j _
    simp only [Function.comp_apply]
    by_cases hij : i = j
    · have : i < l.length := by simpa using hi
      subst hij
      simp [List.getD_eq_getElem?_getD, this]
    · simp [hij]
  rw [h1, ← h2]
  unfold add
  rw [List.map_zip_eq_zipWith, List.zipWith_map_left]
  congr 1
  funext r s
  simp only [Function.curry]
  rw [List.map_zip_eq_zipWith, List.zipWith_map_left]
  rfl

theorem sub_eq_zipWith (a b : List (List Rat)) :
    List.zipWith (List.zipWith (fun (x_ y_ : Rat) => x_ - y_)) a b = sub a b := by
  unfold sub
  rw [List.map_zip_eq_zipWith]
  congr 1
  funext r s
  simp only [Function.curry]
  rw [List.map_zip_eq_zipWith]
  rfl




/-! ### lumped populations -/

theorem peqA_ok (pi : List Rat) (states sa : List Int) (assign : List Nat) (k : Nat)
    (hk : states.length = k) (hnd : states.Nodup) (hlt : ∀ s ∈ assign, s < k)
    (hsa : sa = assign.map (fun a => states.getD a 0)) (hpi : pi.length = assign.length) :
    states.mapM (fun state => do
        let t2 ← npMaskGet pi (sa.map (fun x_ => x_ == state))
        pure (npSum1 t2))
      = (.ok (HS.lumpL pi assign k) : Py (List Rat)) := by
  rw [mapM_ok states _ (fun state =>
    ((pi.zip (sa.map (fun x_ => x_ == state))).filterMap (fun p => if p.2 then some p.1 else none)).sum)]
  · congr 1
    unfold HS.lumpL
    subst hk
    apply List.ext_getElem
    · simp
    · intro a h1 h2
      have ha : a < states.length := by simpa using h1
      simp only [List.getElem_map, List.getElem_range]
      congr 1
      subst hsa
      rw [List.map_map, List.zip_map_right, List.filterMap_map]
      apply List.filterMap_congr
      rintro ⟨p, s⟩ hps
      have hs : s < states.length := hlt s (List.of_mem_zip hps).2
      simp only [Function.comp_apply, Prod.map_apply, id_eq, List.getD_eq_getElem?_getD,
        List.getElem?_eq_getElem hs, Option.getD_some, beq_iff_eq, hnd.getElem_inj_iff]
  · intro state _
    unfold npMaskGet
    rw [if_pos (by simp [hsa, hpi]), ok_bind]
    rfl

/-! ### aggregation matrix -/

theorem unitRow (k s : Nat) :
    (List.replicate k (0 : Rat)).set s 1 = (List.range k).map (fun a => if s = a then (1 : Rat) else 0) := by
  apply List.ext_getElem
  · simp
  · intro i h1 h2
    simp only [List.getElem_set, List.getElem_replicate, List.getElem_map, List.getElem_range]

theorem pySet2_fresh (k : Nat) (pre post : List (List Rat)) (s : Nat) (hs : s < k) :
    pySet2 (pre ++ List.replicate k (0 : Rat) :: post) (pre.length : Int) (s : Int) (1 : Rat)
      = .ok ((pre ++ [(List.range k).map (fun a => if s = a then (1 : Rat) else 0)]) ++ post) := by
  have hn : normIdx (pre ++ List.replicate k (0 : Rat) :: post).length (pre.length : Int) = some pre.length := by
    unfold normIdx
    rw [if_pos (by omega), if_pos (by simp)]
    simp
  have hs' : normIdx (List.replicate k (0 : Rat)).length (s : Int) = some s := by
    unfold normIdx
    rw [if_pos (by omega), if_pos (by simp [hs])]
    simp
  unfold pySet2 pyGet pySet
  simp only [hn, hs', List.getElem?_append_right (Nat.le_refl _), Nat.sub_self, List.getElem?_cons_zero, ok_bind,
    unitRow k s]
  simp

theorem setPairs_loop (k : Nat) (suffix : List Nat) (hs : ∀ s ∈ suffix, s < k) (pre : List (List Rat)) :
    (List.zip ((List.range suffix.length).map (fun (j : Nat) => ((pre.length : Nat) : Int) + (j : Int)))
        (suffix.map Int.ofNat)).foldlM (fun acc p => pySet2 acc p.1 p.2 (1 : Rat))
        (pre ++ List.replicate suffix.length (List.replicate k (0 : Rat)))
      = .ok (pre ++ HS.aggrL suffix k) := by
  induction suffix generalizing pre with
  | nil => simp [HS.aggrL]; rfl
  | cons s rest ih =>
    have hs0 : s < k := hs s (by simp)
    simp only [List.length_cons, List.range_succ_eq_map, List.map_cons, Nat.cast_zero, Int.add_zero, List.map_map,
      List.zip_cons_cons, List.foldlM_cons, List.replicate_succ]
    have := pySet2_fresh k pre (List.replicate rest.length (List.replicate k (0 : Rat))) s hs0
    simp only [Int.ofNat_eq_natCast]
    rw [this, ok_bind]
    have ih' := ih (fun x hx => hs x (by simp [hx])) (pre ++ [(List.range k).map (fun a => if s = a then (1 : Rat) else 0)])
    simp only [List.length_append, List.length_cons, List.length_nil, Nat.zero_add] at ih'
    have e : ((fun (j : Nat) => ((pre.length : Nat) : Int) + (j : Int)) ∘ Nat.succ)
        = (fun (j : Nat) => ((pre.length + 1 : Nat) : Int) + (j : Int)) := by
      funext j
      simp only [Function.comp_apply, Nat.succ_eq_add_one]
      omega
    rw [e]
    rw [ih']
    simp [HS.aggrL]

theorem aggret_ok (assign : List Nat) (n k : Nat) (hlen : assign.length = n) (hlt : ∀ s ∈ assign, s < k) :
    npSetPairs (pyFull2 (n : Int) (k : Int) (0 : Rat)) (npArange 0 (n : Int)) (assign.map Int.ofNat) (1 : Rat)
      = .ok (HS.aggrL assign k) := by
  unfold npSetPairs npArange pyRange pyFull2
  subst hlen
  rw [if_pos (by simp)]
  have := setPairs_loop k assign hlt []
  simp only [List.length_nil, Nat.cast_zero, List.nil_append] at this
  simp only [Int.sub_zero, Int.toNat_natCast]
  exact this


/-! ### shapes, the model split at the stationary vector, and the assembled refinement -/

section Shapes
open MsmVerif.Bridge

/-- the part of `Linalg.hsProject` after the stationary vector `pi` has been obtained -/
def hsWith (T : Mat) (pi : Vec) (assign : List Nat) (m : Nat) (positive : Bool) : Option Mat :=
  (inverse (HS.kMatL T pi)).bind fun Z =>
    (inverse (HS.nMatL pi assign m Z)).bind fun M =>
      some (rowNormalizeQ (HS.clipIf positive (HS.hsL M (HS.lumpL pi assign m) m)))

theorem hsProject_eq_hsWith (T : Mat) (assign : List Nat) (m : Nat) (positive : Bool) :
    hsProject T assign m positive = (stationary T).bind (fun pi => hsWith T pi assign m positive) := by
  cases positive <;> rfl

theorem shape_of_WF {n m : Nat} {X : List (List Rat)} (h : WF n m X) (hn : 0 < n) :
    npShape0 X = (n : Int) ∧ npShape1 X = (m : Int) := by
  obtain ⟨h1, h2⟩ := h
  cases X with
  | nil => simp at h1; omega
  | cons r rs =>
    refine ⟨by simp [npShape0, h1], ?_⟩
    simp [npShape1, h2 r (by simp)]

theorem forall₂_of_shape {α β : Type} {n m : Nat} {X : List (List α)} {Y : List (List β)}
    (hX : X.length = n ∧ ∀ r ∈ X, r.length = m) (hY : Y.length = n ∧ ∀ r ∈ Y, r.length = m) :
    List.Forall₂ (fun r s => r.length = s.length) X Y := by
  rw [List.forall₂_iff_get]
  refine ⟨by rw [hX.1, hY.1], ?_⟩
  intro i h1 h2
  rw [hX.2 _ (List.get_mem _ _), hY.2 _ (List.get_mem _ _)]

theorem shape_idInt {α : Type} (l : List α) :
    (npDiag (0 : Int) (npFullLike l (1 : Int))).length = l.length ∧
      ∀ r ∈ npDiag (0 : Int) (npFullLike l (1 : Int)), r.length = l.length := by
  unfold npDiag npFullLike
  refine ⟨by simp, ?_⟩
  intro r hr
  simp only [List.mem_map] at hr
  obtain ⟨i, -, rfl⟩ := hr
  simp

theorem shape_outer {α : Type} (l : List α) (v : List Rat) :
    (npOuter (fun (x_ : Int) (y_ : Rat) => (x_ : Rat) * y_) (npFullLike l (1 : Int)) v).length = l.length ∧
      ∀ r ∈ npOuter (fun (x_ : Int) (y_ : Rat) => (x_ : Rat) * y_) (npFullLike l (1 : Int)) v, r.length = v.length := by
  unfold npOuter npFullLike
  refine ⟨by simp, ?_⟩
  intro r hr
  simp only [List.mem_map] at hr
  obtain ⟨i, -, rfl⟩ := hr
  simp

theorem npMatMul_ok {p q r : Nat} {a b : List (List Rat)} (ha : WF p q a) (hb : WF q r b) (hp : 0 < p) (hq : 0 < q) :
    npMatMul a b = .ok (mul a b) := by
  unfold npMatMul
  rw [if_pos (by rw [(shape_of_WF ha hp).2, (shape_of_WF hb hq).1]), npMul_eq]


theorem hs_core (ext_peq : List (List Rat) → Py (List Rat)) (micro states sa saIdx : List Int) (assign : List Nat)
    (n k : Nat) (positive : Bool) (T : List (List Rat)) (pi : List Rat)
    (hT : WF n n T) (hn : 0 < n) (hmicro : micro.length = n) (hstates : states.length = k) (hnd : states.Nodup)
    (hlen : assign.length = n) (hlt : ∀ s ∈ assign, s < k)
    (hsa : sa = assign.map (fun a => states.getD a 0)) (hidx : saIdx = assign.map Int.ofNat)
    (hpi : pi.length = n) (hpeq : ext_peq T = .ok pi) :
    Gen.StateTrajHS.estimate_markov_model ext_peq micro states sa saIdx (n : Int) (k : Int) positive T
      = (match hsWith T pi assign k positive with | some M => .ok M | none => .error .other) := by
  have hk : 0 < k := by
    cases assign with
    | nil => simp at hlen; omega
    | cons s _ => have := hlt s (by simp); omega
  unfold Gen.StateTrajHS.estimate_markov_model hsWith
  simp only []
  rw [hpeq, ok_bind, peqA_ok pi states sa assign k hstates hnd hlt hsa (by rw [hpi, hlen]), ok_bind, hidx,
    aggret_ok assign n k hlen hlt, ok_bind]
  -- K = 1 + 1 πᵀ - T
  have hKadd : WF n n (add (identity n) (List.replicate n pi)) := (WF.identity n).add (WF.replicate hpi)
  have hKeq : HS.kMatL T pi = sub (add (identity n) (List.replicate n pi)) T := by
    unfold HS.kMatL; rw [hT.1]
  have hK : WF n n (HS.kMatL T pi) := HS.wf_kMatL hT hpi
  rw [npBroadcast2_ok _ _ _ (forall₂_of_shape (n := n) (m := n) (by simpa [hmicro] using shape_idInt micro)
      (by simpa [hmicro, hpi] using shape_outer micro pi)), ok_bind, idPlusOnes micro pi, hmicro,
    npBroadcast2_ok _ _ _ (forall₂_of_shape hKadd hT), ok_bind, sub_eq_zipWith, ← hKeq,
    npInv_eq _ (by rw [(shape_of_WF hK hn).1, (shape_of_WF hK hn).2])]
  cases hZ : inverse (HS.kMatL T pi) with
  | none => rfl
  | some Z =>
    simp only [ok_bind, Option.bind_some]
    have hA : WF n k (HS.aggrL assign k) := HS.wf_aggrL hlen k
    have hAt : WF k n (transpose (HS.aggrL assign k)) := hA.transpose hn
    have hD : WF n n (diag pi) := WF.diag hpi
    have h7 := hAt.mul hD hn
    have hZw : WF n n Z := wf_inverse hK hZ
    have h8 := h7.mul hZw hn
    have h9 := h8.mul hA hn
    have hN : HS.nMatL pi assign k Z
        = mul (mul (mul (transpose (HS.aggrL assign k)) (diag pi)) Z) (HS.aggrL assign k) := rfl
    rw [npTranspose_eq, npDiag_eq, npMatMul_ok hAt hD hk hn, ok_bind, npMatMul_ok h7 hZw hk hn, ok_bind,
      npMatMul_ok h8 hA hk hn, ok_bind, ← hN]
    rw [← hN] at h9
    rw [npInv_eq _ (by rw [(shape_of_WF h9 hk).1, (shape_of_WF h9 hk).2])]
    cases hM : inverse (HS.nMatL pi assign k Z) with
    | none => rfl
    | some M =>
      simp only [ok_bind, Option.bind_some]
      have hpA : (HS.lumpL pi assign k).length = k := HS.length_lumpL pi assign k
      have hMw : WF k k M := wf_inverse h9 hM
      have hDa : WF k k (diag (HS.lumpL pi assign k)) := WF.diag hpA
      have hadd : WF k k (add (identity k) (List.replicate k (HS.lumpL pi assign k))) :=
        (WF.identity k).add (WF.replicate hpA)
      have hmul := hMw.mul hDa hk
      have hL : HS.hsL M (HS.lumpL pi assign k) k
          = sub (add (identity k) (List.replicate k (HS.lumpL pi assign k))) (mul M (diag (HS.lumpL pi assign k))) := rfl
      rw [npBroadcast2_ok _ _ _ (forall₂_of_shape (n := k) (m := k) (by simpa [hstates] using shape_idInt states)
          (by simpa [hstates, hpA] using shape_outer states (HS.lumpL pi assign k))), ok_bind,
        idPlusOnes states (HS.lumpL pi assign k), hstates, npDiag_eq, npMatMul_ok hMw hDa hk hk, ok_bind,
        npBroadcast2_ok _ _ _ (forall₂_of_shape hadd hmul), ok_bind, sub_eq_zipWith, ← hL]
      cases positive with
      | false =>
        simp only [Bool.false_eq_true, if_false, HS.clipIf]
        rw [row_normalize_ok]
      | true =>
        simp only [if_true, HS.clipIf]
        rw [clip_ok, ok_bind, row_normalize_ok]


end Shapes

end MsmVerif.Refine.HS
