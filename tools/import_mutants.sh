#!/bin/bash
# tools/import_mutants.sh <outdir> <letter> [<letter> ...]   — copy sub-agent deliveries <outdir>/<Cxx>/<letter>/{patch.diff,demo.py,meta.json}
# to seeded/<Cxx>-<letter>/ (meta.json is created when the agent did not write one)
out="$1"; shift
for d in "$out"/C*/; do
  pid=$(basename "$d")
  for L in "$@"; do
    src="$d$L"
    [ -f "$src/patch.diff" ] && [ -f "$src/demo.py" ] || { echo "skip $pid-$L (incomplete)"; continue; }
    dst=/verif/seeded/$pid-$L
    [ -d "$dst" ] && continue        # already imported (meta.json may hold confirmation data)
    mkdir -p "$dst"
    cp "$src/patch.diff" "$src/demo.py" "$dst/"
    if [ -f "$src/meta.json" ]; then cp "$src/meta.json" "$dst/"; else
      printf '{"property": "%s", "mutant": "%s", "summary": "(no meta.json delivered; see demo.py header and patch.diff)", "needs": "see demo.py"}\n' "$pid" "$L" > "$dst/meta.json"; fi
    echo "imported $pid-$L"
  done
done
