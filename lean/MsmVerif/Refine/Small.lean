/-
Refine/Small.lean — task RP15 (properties C01/C11, C07, C20, C16): four small functions TRANSLATED from Python compute what the
hand-written models compute.
* `Gen.MsmEstimate.estimate_markov_model_perm/_default` (`_estimate_markov_model` of `msm/msm.py`)  = `Msm.rowNormalize (Msm.countMatrix …)`;
* `Gen.MsmMcmcApi.propagate_MCMC` (public wrapper of `msm/timescales.py`): start-state handling, rank conversion, label mapping;
* `Gen.UtilsFiltering.runningmean` (`np.convolve(x, ones(w)/w, 'same')`) = `Filter.runningMean` for `1 ≤ w ≤ |x|`; what it is otherwise;
* `Gen.IoLimits.open_limits_file` (`io.open_limits`) = cumulative sums iff they end at `data_length`; link to `TextIO.splitLimits`.
Helper lemmas and the auxiliary definitions `mcmcTail`, `convWindow`, `cumsums` live in Refine/SmallLemmas.lean.
-/
import MsmVerif.Refine.SmallLemmas

namespace MsmVerif.Refine.Small
open MsmVerif MsmVerif.Gen

/-! ### 1. `_estimate_markov_model` -/

/-- `_estimate_markov_model(trajs, lagtime, nstates, perm)` with a permutation given: for all index trajectories with entries in `[0, n)`,
    every lag ≥ 1, every `perm` and both values of the `DISABLE_JIT` configuration flag the translation raises no error and returns the
    row-normalised count matrix of the model together with the permutation passed through unchanged. -/
theorem estimate_markov_model_perm_refines (idx : List (List Int)) (lag n : Nat) (hlag : 1 ≤ lag)
    (hidx : ∀ t ∈ idx, ∀ x ∈ t, 0 ≤ x ∧ x < (n : Int)) (perm : List Int) (flag : Bool) :
    Gen.MsmEstimate.estimate_markov_model_perm idx (lag : Int) (n : Int) perm flag
      = .ok (Msm.rowNormalize (Msm.countMatrix idx lag n), perm) := by
  unfold Gen.MsmEstimate.estimate_markov_model_perm
  cases flag <;>
  simp only [MsmVerif.Refine.Msm.count_matrix_refines idx lag n hlag hidx, cast_natMat,
    MsmVerif.Refine.Norm.row_normalize_refines_any, MsmVerif.Refine.Norm.rowNormalizeQ_cast,
    bind, Except.bind, pure, Except.pure] <;> rfl

/-- `_estimate_markov_model(trajs, lagtime, nstates, perm=None)`: for all index trajectories with entries in `[0, n)`, every lag ≥ 1 and
    both values of the configuration flag the translation raises no error and returns the row-normalised count matrix of the model together
    with the identity permutation `arange(n)`. -/
theorem estimate_markov_model_default_refines (idx : List (List Int)) (lag n : Nat) (hlag : 1 ≤ lag)
    (hidx : ∀ t ∈ idx, ∀ x ∈ t, 0 ≤ x ∧ x < (n : Int)) (flag : Bool) :
    Gen.MsmEstimate.estimate_markov_model_default idx (lag : Int) (n : Int) flag
      = .ok (Msm.rowNormalize (Msm.countMatrix idx lag n), (List.range n).map Int.ofNat) := by
  unfold Gen.MsmEstimate.estimate_markov_model_default
  cases flag <;>
  simp only [MsmVerif.Refine.Msm.count_matrix_refines idx lag n hlag hidx, cast_natMat,
    MsmVerif.Refine.Norm.row_normalize_refines_any, MsmVerif.Refine.Norm.rowNormalizeQ_cast,
    bind, Except.bind, pure, Except.pure, arange_eq] <;> rfl

/-- Link to the model of the public `estimate_markov_model` (`Msm.estimate`): for label trajectories inside the 32-bit guard and lag ≥ 1,
    the translated `_estimate_markov_model` applied to what the `StateTraj` constructor stores (rank trajectories, number of states)
    returns exactly the transition matrix `T` of `Msm.estimate ts lag` (whose third component is the ascending state list). -/
theorem estimate_markov_model_estimate (ts : Trajs) (lag : Nat) (hlag : 1 ≤ lag) (hg : LabelGuard ts) (flag : Bool) :
    ∃ c T, Msm.estimate ts lag = .ok (c, T, states ts) ∧
      Gen.MsmEstimate.estimate_markov_model_default (rankTrajs ts) (lag : Int) ((states ts).length : Int) flag
        = .ok (T, (List.range (states ts).length).map Int.ofNat) := by
  refine ⟨Msm.countMatrix (rankTrajs ts) lag (states ts).length,
    Msm.rowNormalize (Msm.countMatrix (rankTrajs ts) lag (states ts).length), ?_, ?_⟩
  · unfold Msm.estimate
    rw [mk'_eq_rank hg]
    rfl
  · apply estimate_markov_model_default_refines _ _ _ hlag
    intro t ht x hx
    have hmem : x ∈ (rankTrajs ts).flatten := List.mem_flatten.mpr ⟨t, ht, hx⟩
    obtain ⟨y, hy, rfl⟩ := mem_rankTrajs_flatten.mp hmem
    have := rank_lt (mem_states.mpr hy)
    omega

/-! non-vacuity -/

example : (1 ≤ 2) ∧ ∀ t ∈ [[0, 1, 2, 1, 0], [2, 2, 1]], ∀ x ∈ t, 0 ≤ x ∧ x < ((3 : Nat) : Int) := by decide
example : Gen.MsmEstimate.estimate_markov_model_perm [[0, 1, 2, 1, 0], [2, 2, 1]] ((1 : Nat) : Int) ((3 : Nat) : Int) [2, 0, 1] false
    = .ok (Msm.rowNormalize (Msm.countMatrix [[0, 1, 2, 1, 0], [2, 2, 1]] 1 3), [2, 0, 1]) :=
  estimate_markov_model_perm_refines _ 1 3 (by decide) (by decide) _ _
example : Msm.rowNormalize (Msm.countMatrix [[0, 1, 2, 1, 0], [2, 2, 1]] 1 3) = [[0, 1, 0], [1/2, 0, 1/2], [0, 2/3, 1/3]] := by
  decide +kernel
example : Gen.MsmEstimate.estimate_markov_model_default [[0, 1, 2, 1, 0], [2, 2, 1]] ((1 : Nat) : Int) ((3 : Nat) : Int) true
    = .ok ([[0, 1, 0], [1/2, 0, 1/2], [0, 2/3, 1/3]], [0, 1, 2]) := by
  rw [estimate_markov_model_default_refines _ 1 3 (by decide) (by decide)]
  decide +kernel
example : LabelGuard [[5, 7, 5, 9], [9, 9]] := by decide

/-! ### 2. `propagate_MCMC` (public wrapper) -/

/-- Complete description of the translated `propagate_MCMC` for EVERY state list, start value and oracle triple: the start state is the
    oracle's choice if `start = -1`, `start` itself if it is a state, `ValueError` otherwise; then (`mcmcTail`) the start state is converted
    to its rank (`ValueError` if the chosen value is not a state), the cumulative matrix is obtained, the chain kernel is run with that rank
    and `steps`, and the index chain is read through `states[·]`.  Errors of the oracles are passed on unchanged. -/
theorem propagate_MCMC_api_general (choice : List Int → Py Int)
    (getc : Int → Py ((List (List Rat)) × (List (List Int))))
    (prop : ((List (List Rat)) × (List (List Int))) → Int → Int → Py (List Int))
    (ss : List Int) (lag steps start : Int) :
    Gen.MsmMcmcApi.propagate_MCMC choice getc prop ss lag steps start
      = (if start = -1 then choice ss else if start ∈ ss then .ok start else .error .value)
          >>= fun s => mcmcTail getc prop ss lag steps s :=
  propagate_eq choice getc prop ss lag steps start

/-- `propagate_MCMC(trajs, lagtime, steps, start)` with a start label that is one of the states (and is not the sentinel −1): the
    `np.random.choice` oracle is not consulted (the statement holds for every `choice`), the chain kernel is called with the cumulative matrix
    delivered by the `_get_cummat` oracle, the RANK of the start label in the state list and `steps`; if the kernel's index chain `c` has all
    entries in `[0, |ss|)` the result is — without `IndexError` — the chain of labels `ss[c_i]`.
    (No property of the state list is needed for this equation; for the ascending duplicate-free list of a `StateTraj` the rank is the
    index of the state.) -/
theorem propagate_MCMC_api_refines (choice : List Int → Py Int)
    (getc : Int → Py ((List (List Rat)) × (List (List Int))))
    (prop : ((List (List Rat)) × (List (List Int))) → Int → Int → Py (List Int))
    (ss : List Int) (lag steps start : Int) (hstart : start ≠ -1) (hmem : start ∈ ss)
    (cm : (List (List Rat)) × (List (List Int))) (hcm : getc lag = .ok cm)
    (c : List Int) (hc : prop cm ((rank ss start : Nat) : Int) steps = .ok c)
    (hcb : ∀ i ∈ c, 0 ≤ i ∧ i < (ss.length : Int)) :
    Gen.MsmMcmcApi.propagate_MCMC choice getc prop ss lag steps start = .ok (c.map (labelOf ss)) := by
  rw [propagate_eq, if_neg hstart, if_pos hmem]
  show mcmcTail getc prop ss lag steps start = _
  unfold mcmcTail
  rw [if_pos hmem, hcm]
  show (prop cm ((rank ss start : Nat) : Int) steps >>= fun c => npTake ss c) = _
  rw [hc]
  exact npTake_ok ss c hcb

/-- Consequences for the returned chain (same hypotheses as `propagate_MCMC_api_refines`): it has as many entries as the kernel's chain, every
    entry is a label of the state list, and if the kernel's chain starts with the index it was given (as `_propagate_MCMC` does:
    `mcmc[0] = start`) the returned chain starts with the requested start label — the D2 repair: no `shift_data`, no `IndexError`. -/
theorem propagate_MCMC_api_chain (choice : List Int → Py Int)
    (getc : Int → Py ((List (List Rat)) × (List (List Int))))
    (prop : ((List (List Rat)) × (List (List Int))) → Int → Int → Py (List Int))
    (ss : List Int) (lag steps start : Int) (hstart : start ≠ -1) (hmem : start ∈ ss)
    (cm : (List (List Rat)) × (List (List Int))) (hcm : getc lag = .ok cm)
    (c : List Int) (hc : prop cm ((rank ss start : Nat) : Int) steps = .ok c)
    (hcb : ∀ i ∈ c, 0 ≤ i ∧ i < (ss.length : Int)) :
    ∃ r, Gen.MsmMcmcApi.propagate_MCMC choice getc prop ss lag steps start = .ok r ∧ r.length = c.length ∧
      (∀ x ∈ r, x ∈ ss) ∧ (c.head? = some ((rank ss start : Nat) : Int) → r.head? = some start) := by
  refine ⟨c.map (labelOf ss), propagate_MCMC_api_refines choice getc prop ss lag steps start hstart hmem cm hcm c hc hcb,
    List.length_map _, ?_, ?_⟩
  · intro x hx
    obtain ⟨i, hi, rfl⟩ := List.mem_map.mp hx
    have hb := hcb i hi
    unfold labelOf
    rw [List.getD_eq_getElem?_getD, List.getElem?_eq_getElem (by omega)]
    exact List.getElem_mem _
  · intro hh
    rw [List.head?_map, hh]
    show some (labelOf ss ((rank ss start : Nat) : Int)) = some start
    rw [labelOf_rank' hmem]

/-- `propagate_MCMC` with a start value that is neither −1 nor one of the states raises `ValueError`, whatever the three oracles
    (`np.random.choice`, `_get_cummat`, the chain kernel) would do — none of them is consulted. -/
theorem propagate_MCMC_api_rejects (choice : List Int → Py Int)
    (getc : Int → Py ((List (List Rat)) × (List (List Int))))
    (prop : ((List (List Rat)) × (List (List Int))) → Int → Int → Py (List Int))
    (ss : List Int) (lag steps start : Int) (hstart : start ≠ -1) (hmem : start ∉ ss) :
    Gen.MsmMcmcApi.propagate_MCMC choice getc prop ss lag steps start = .error .value := by
  rw [propagate_eq, if_neg hstart, if_neg hmem]
  rfl

/-- `propagate_MCMC` with `start = -1` (the default): the start label is what the `np.random.choice(states)` oracle returns on the state
    list; if that label `s` is one of the states, the run continues exactly as with an explicit start `s`: kernel called with the rank of `s`,
    index chain mapped to labels. -/
theorem propagate_MCMC_api_random_start (choice : List Int → Py Int)
    (getc : Int → Py ((List (List Rat)) × (List (List Int))))
    (prop : ((List (List Rat)) × (List (List Int))) → Int → Int → Py (List Int))
    (ss : List Int) (lag steps : Int) (s : Int) (hs : choice ss = .ok s) (hmem : s ∈ ss)
    (cm : (List (List Rat)) × (List (List Int))) (hcm : getc lag = .ok cm)
    (c : List Int) (hc : prop cm ((rank ss s : Nat) : Int) steps = .ok c)
    (hcb : ∀ i ∈ c, 0 ≤ i ∧ i < (ss.length : Int)) :
    Gen.MsmMcmcApi.propagate_MCMC choice getc prop ss lag steps (-1) = .ok (c.map (labelOf ss)) := by
  rw [propagate_eq, if_pos rfl, hs]
  show mcmcTail getc prop ss lag steps s = _
  unfold mcmcTail
  rw [if_pos hmem, hcm]
  show (prop cm ((rank ss s : Nat) : Int) steps >>= fun c => npTake ss c) = _
  rw [hc]
  exact npTake_ok ss c hcb

/-- `propagate_MCMC` with `start = -1`: an error of the `np.random.choice` oracle (e.g. `ValueError` for an empty state list) is passed on,
    and a choice that is not a state is rejected with `ValueError` by `state_to_idx` before any other oracle is consulted. -/
theorem propagate_MCMC_api_random_start_fails (choice : List Int → Py Int)
    (getc : Int → Py ((List (List Rat)) × (List (List Int))))
    (prop : ((List (List Rat)) × (List (List Int))) → Int → Int → Py (List Int))
    (ss : List Int) (lag steps : Int) :
    (∀ e, choice ss = .error e → Gen.MsmMcmcApi.propagate_MCMC choice getc prop ss lag steps (-1) = .error e) ∧
    (∀ s, choice ss = .ok s → s ∉ ss → Gen.MsmMcmcApi.propagate_MCMC choice getc prop ss lag steps (-1) = .error .value) := by
  constructor
  · intro e he
    rw [propagate_eq, if_pos rfl, he]
    rfl
  · intro s hs hmem
    rw [propagate_eq, if_pos rfl, hs]
    show mcmcTail getc prop ss lag steps s = _
    unfold mcmcTail
    rw [if_neg hmem]

/-! non-vacuity: states `[3, 5, 8]`, a kernel oracle that returns the chain `start, 2, 0, 1` -/

example : Gen.MsmMcmcApi.propagate_MCMC (fun _ => .error .other) (fun _ => .ok ([], [])) (fun _ i _ => .ok [i, 2, 0, 1]) [3, 5, 8] 1 4 5
    = .ok [5, 8, 3, 5] := by
  rw [propagate_MCMC_api_refines _ _ _ [3, 5, 8] 1 4 5 (by decide) (by decide) ([], []) rfl [1, 2, 0, 1] (by decide) (by decide)]
  decide
example : Gen.MsmMcmcApi.propagate_MCMC (fun _ => .ok 8) (fun _ => .ok ([], [])) (fun _ i _ => .ok [i, 2, 0, 1]) [3, 5, 8] 1 4 (-1)
    = .ok [8, 8, 3, 5] := by
  rw [propagate_MCMC_api_random_start _ _ _ [3, 5, 8] 1 4 8 rfl (by decide) ([], []) rfl [2, 2, 0, 1] (by decide) (by decide)]
  decide
example : Gen.MsmMcmcApi.propagate_MCMC (fun _ => .ok 8) (fun _ => .ok ([], [])) (fun _ i _ => .ok [i, 2, 0, 1]) [3, 5, 8] 1 4 4
    = .error .value :=
  propagate_MCMC_api_rejects _ _ _ _ _ _ _ (by decide) (by decide)

/-! ### 3. `runningmean` -/

/-- `runningmean(x, w)` for every non-empty signal and EVERY window `w ≥ 1` raises no error and returns `convWindow x w`: `max(|x|, w)`
    entries, entry `j` being the sum of the samples `x[i]` with `j + off - w < i ≤ j + off`, `off = (min(|x|, w) - 1) / 2`, divided by `w`. -/
theorem runningmean_general (x : List Rat) (w : Nat) (hx : x ≠ []) (hw : 1 ≤ w) :
    Gen.UtilsFiltering.runningmean x (w : Int) = .ok (convWindow x w) := by
  unfold Gen.UtilsFiltering.runningmean
  simp only [kernel_eq, convolve_eq x w hx hw]

/-- `runningmean(x, w)` for `1 ≤ w ≤ |x|` raises no error and is exactly the model's `Filter.runningMean x w` (hence, by `C20.rm_window`,
    the documented centred window `i - w/2 … i + (w-1)/2` with zeros outside, and by `C20.rm_len` of the input's length). -/
theorem runningmean_refines (x : List Rat) (w : Nat) (hw : 1 ≤ w) (hwx : w ≤ x.length) :
    Gen.UtilsFiltering.runningmean x (w : Int) = .ok (Filter.runningMean x w) := by
  have hx : x ≠ [] := by
    intro h; subst h; simp at hwx; omega
  rw [runningmean_general x w hx hw, convWindow_eq_doc x w hw hwx, Misc.runningMean_eq_doc x w hw]

/-- `runningmean(x, w)` for `1 ≤ w ≤ |x|` is the documented running mean: entry `i` is the sum of the samples at the positions
    `i - w/2 … i + (w-1)/2` that lie inside the signal (zeros outside), divided by `w`. -/
theorem runningmean_documented (x : List Rat) (w : Nat) (hw : 1 ≤ w) (hwx : w ≤ x.length) :
    Gen.UtilsFiltering.runningmean x (w : Int) = .ok (Filter.runningMeanDoc x w) := by
  rw [runningmean_refines x w hw hwx, Misc.runningMean_eq_doc x w hw]

/-- A window longer than the (non-empty) signal: no error, but the result has `w` entries, not `|x|` (numpy's `'same'` mode takes the
    length of the longer operand) — so it is NOT the model's `runningMean x w` (which has `|x|` entries) and not "of the same length as
    the input" as the docstring of `runningmean` says. -/
theorem runningmean_long_window (x : List Rat) (w : Nat) (hx : x ≠ []) (hwx : x.length < w) :
    ∃ r, Gen.UtilsFiltering.runningmean x (w : Int) = .ok r ∧ r.length = w ∧ r ≠ Filter.runningMean x w := by
  refine ⟨convWindow x w, runningmean_general x w hx (by omega), ?_, ?_⟩
  · unfold convWindow
    rw [List.length_map, List.length_range]
    omega
  · intro h
    have h1 := congrArg List.length h
    rw [Misc.runningMean_length] at h1
    unfold convWindow at h1
    rw [List.length_map, List.length_range] at h1
    omega

/-- `runningmean(x, 0)` (and any window ≤ 0): `np.ones(window)` is empty (numpy rejects a negative size), `np.convolve` raises `ValueError`
    for an empty operand — for every signal. -/
theorem runningmean_window_zero (x : List Rat) (w : Int) (hw : w ≤ 0) :
    Gen.UtilsFiltering.runningmean x w = .error .value := by
  unfold Gen.UtilsFiltering.runningmean npConvolveSame pyFull1
  have : w.toNat = 0 := by omega
  rw [this]
  simp only [List.replicate_zero, List.map_nil, List.length_nil, or_true, if_true]

/-- `runningmean([], w)`: `ValueError` for every window (empty operand of `np.convolve`). -/
theorem runningmean_empty (w : Int) : Gen.UtilsFiltering.runningmean [] w = .error .value := by
  unfold Gen.UtilsFiltering.runningmean npConvolveSame
  simp only [List.length_nil, true_or, if_true]

/-! non-vacuity -/

example : Gen.UtilsFiltering.runningmean [1, 2, 3, 4] ((2 : Nat) : Int) = .ok [1/2, 3/2, 5/2, 7/2] := by
  rw [runningmean_refines _ 2 (by decide) (by decide)]; decide +kernel
example : Gen.UtilsFiltering.runningmean [1, 2, 3, 4] ((3 : Nat) : Int) = .ok [1, 2, 3, 7/3] := by
  rw [runningmean_refines _ 3 (by decide) (by decide)]; decide +kernel
example : Gen.UtilsFiltering.runningmean [1, 2, 3, 4] ((4 : Nat) : Int) = .ok [3/4, 3/2, 5/2, 9/4] := by
  rw [runningmean_refines _ 4 (by decide) (by decide)]; decide +kernel
/-- window 3 on two samples: three entries (numpy: `convolve([3, 6], ones(3)/3, 'same') = [1, 3, 3]`), the model has two -/
example : Gen.UtilsFiltering.runningmean [3, 6] ((3 : Nat) : Int) = .ok [1, 3, 3] ∧ Filter.runningMean [3, 6] 3 = [3, 3] := by
  rw [runningmean_general _ 3 (by simp) (by decide)]; decide +kernel
example : Gen.UtilsFiltering.runningmean [3, 6] 0 = .error .value := runningmean_window_zero _ 0 (by decide)

/-! ### 4. `open_limits` -/

/-- `open_limits(data_length, limits_file)` when reading the limits file yields the integer list `lim` (any integers): `IndexError` for an
    empty file (`limits[-1]` of an empty array), otherwise the cumulative sums `lim[0], lim[0]+lim[1], …` if the last of them (the total)
    equals `data_length`, and `ValueError` if not.  The `FileError` branch (`len(limits.shape) != 1`) is dead for a 1-d array. -/
theorem open_limits_refines (ext : Int → Py (List Int)) (dl lf : Int) (lim : List Int) (hext : ext lf = .ok lim) :
    Gen.IoLimits.open_limits_file ext dl lf
      = if lim = [] then .error .index else if dl = lim.sum then .ok (cumsums lim) else .error .value := by
  rw [open_limits_eq, hext]
  rfl

/-- `open_limits`: an error raised while reading the limits file (`opentxt`) is passed on unchanged, for every data length. -/
theorem open_limits_reader_error (ext : Int → Py (List Int)) (dl lf : Int) (e : Err) (hext : ext lf = .error e) :
    Gen.IoLimits.open_limits_file ext dl lf = .error e := by
  rw [open_limits_eq, hext]
  rfl

/-- Link to the model `TextIO.splitLimits` for a limits file holding the non-negative integers `lim` and data `rows`: `open_limits` with
    `data_length = len(rows)` succeeds iff the file is not empty and the model accepts the limits (they sum to the number of rows).
    For the empty file the two differ: the model returns `some []` on empty data, the code raises `IndexError`. -/
theorem open_limits_iff_splitLimits {α : Type} (ext : Int → Py (List Int)) (lf : Int) (lim : List Nat) (rows : List α)
    (hext : ext lf = .ok (lim.map Int.ofNat)) :
    (∃ r, Gen.IoLimits.open_limits_file ext (rows.length : Int) lf = .ok r) ↔
      (lim ≠ [] ∧ ∃ pieces, TextIO.splitLimits lim rows = some pieces) := by
  rw [open_limits_refines ext _ lf _ hext, sum_map_ofNat]
  by_cases hl : lim = []
  · subst hl
    simp
  · have hl' : lim.map Int.ofNat ≠ [] := by simpa using hl
    rw [if_neg hl']
    by_cases hs : lim.sum = rows.length
    · have h1 : (rows.length : Int) = ((lim.sum : Nat) : Int) := by omega
      rw [if_pos h1]
      refine ⟨fun _ => ⟨hl, ?_⟩, fun _ => ⟨_, rfl⟩⟩
      cases h : TextIO.splitLimits lim rows with
      | some p => exact ⟨p, rfl⟩
      | none => exact absurd hs ((TextIO.splitLimits_none lim rows).mp h)
    · have h1 : ¬ (rows.length : Int) = ((lim.sum : Nat) : Int) := by omega
      rw [if_neg h1]
      constructor
      · rintro ⟨r, hr⟩
        cases hr
      · rintro ⟨_, p, hp⟩
        exact absurd (TextIO.splitLimits_some lim rows p hp).1 hs

/-- When the model splits the data into `pieces` (and the file is not empty), `open_limits` returns exactly the cumulative lengths of
    those pieces — the positions at which `np.split` then cuts the data. -/
theorem open_limits_pieces {α : Type} (ext : Int → Py (List Int)) (lf : Int) (lim : List Nat) (rows : List α) (hl : lim ≠ [])
    (hext : ext lf = .ok (lim.map Int.ofNat)) (pieces : List (List α)) (hp : TextIO.splitLimits lim rows = some pieces) :
    Gen.IoLimits.open_limits_file ext (rows.length : Int) lf
      = .ok (cumsums ((pieces.map List.length).map Int.ofNat)) := by
  obtain ⟨hs, hlen, _⟩ := TextIO.splitLimits_some lim rows pieces hp
  rw [open_limits_refines ext _ lf _ hext, sum_map_ofNat, hlen]
  have hl' : lim.map Int.ofNat ≠ [] := by simpa using hl
  have h1 : (rows.length : Int) = ((lim.sum : Nat) : Int) := by omega
  rw [if_neg hl', if_pos h1]

/-- The empty limits file: `open_limits` raises `IndexError` for every data length, although the model `splitLimits` accepts empty limits
    for empty data (returning no pieces) — the one input on which code and model differ. -/
theorem open_limits_empty_file (ext : Int → Py (List Int)) (dl lf : Int) (hext : ext lf = .ok []) :
    Gen.IoLimits.open_limits_file ext dl lf = .error .index
      ∧ TextIO.splitLimits ([] : List Nat) ([] : List Int) = some [] := by
  rw [open_limits_refines ext dl lf [] hext]
  exact ⟨rfl, rfl⟩

/-! non-vacuity -/

example : Gen.IoLimits.open_limits_file (fun _ => .ok [2, 0, 3]) 5 0 = .ok [2, 2, 5] := by
  rw [open_limits_refines _ 5 0 [2, 0, 3] rfl]; decide
example : Gen.IoLimits.open_limits_file (fun _ => .ok [2, 2]) 5 0 = .error .value := by
  rw [open_limits_refines _ 5 0 [2, 2] rfl]; decide
example : Gen.IoLimits.open_limits_file (fun _ => .ok []) 0 0 = .error .index :=
  (open_limits_empty_file _ 0 0 rfl).1
example : ([2, 0, 3] : List Nat) ≠ [] ∧ TextIO.splitLimits [2, 0, 3] [1, 2, 3, 4, 5] = some [[1, 2], [], [3, 4, 5]] := by decide
example : ∃ r, Gen.IoLimits.open_limits_file (fun _ => .ok (([2, 0, 3] : List Nat).map Int.ofNat)) (([1, 2, 3, 4, 5] : List Int).length : Int) 0 = .ok r :=
  (open_limits_iff_splitLimits (fun _ => .ok (([2, 0, 3] : List Nat).map Int.ofNat)) 0 [2, 0, 3] [1, 2, 3, 4, 5] rfl).mpr
    ⟨by decide, [[1, 2], [], [3, 4, 5]], by decide⟩

end MsmVerif.Refine.Small
