"""C13 — discretization similarity equals its contingency-table formula."""
import itertools
from fractions import Fraction

import numpy as np

import core
import gen

PID = 'C13'
ANCHORS = [('src/msmhelper/md/comparison.py', ['compare_discretization', '_compare_discretization', '_compare_trajs_symmetric',
                                               '_compare_trajs_directed', '_intersect_array', '_intersect'])]
RULE = ('exhaustive: all pairs of labelings of <=4 frames plus every 4th pair of 5 frames (quick) / all <=6 (thorough) with <=3 states; random: N up to 400 (a few up to 1e5 in '
        'thorough), 2-12 states, arbitrary labels, unbalanced populations (rare states), 1-4 trajectories, NUMBA_NUM_THREADS in {1,2,3,16}; '
        'malformed: unequal frame counts, single state, unknown method. Non-trivial = contingency table not diagonal; distinct by (t1,t2,method).')
RELATION = '|compare_discretization(t1, t2, method) - Compare.compare t1 t2 method| <= 1e-9 (exact rational model), same rejection'
ENV = {'NUMBA_NUM_THREADS': '16'}
METHODS = ['symmetric', 'directed', 'bogus']


def _mk(t1, t2, method, threads=16, form='list_of_arrays', src='rand'):
    return {'op': 'compare', 't1': t1, 't2': t2, 'method': method, 'threads': threads, 'form': form, 'src': src}


def cases(tier, rng, boost=1):
    yield _mk([[1, 1, 1, 2, 2, 3]], [[1, 1, 2, 2, 2, 3]], 0, src='corpus')
    # many states on both sides (contingency table larger than the 8- and 16-bit ranges), narrow per-array dtypes
    brng = core.Rng(47)
    a_ = [[brng.randrange(260) for _ in range(800)]]
    b_ = [[(x * 7 + brng.randrange(3)) % 20 for x in a_[0]]]
    for m_ in (0, 1):
        yield _mk(a_, b_, m_, form='per_array_narrow', src='corpus-big')
        yield _mk(a_, b_, m_, form='unsigned_mixed', src='corpus-big')
    yield _mk([[0] * 30 + [1] * 4 + [0] * 3], [[0] * 31 + [1] * 3 + [2] * 3], 1, threads=16, src='corpus')   # N=37, rare state
    # container shapes learned from seeded changes (mixed integer widths, narrow first / narrow tail, signed then unsigned): the first labeling in that form
    for trajs_, form_, _tag in gen.special_sets(core.Rng(17)):
        other_ = [[(x * 3 + 1) % 5 for x in t] for t in trajs_]
        for m_ in (0, 1):
            yield _mk(trajs_, other_, m_, form=form_, threads=3, src='corpus-forms')
    # long inputs just above the powers of two where blocked / chunked kernels change their path (prime frame counts: never divisible by the thread count)
    for N_ in (1031, 2053, 4099, 8209) + ((16411, 65537) if tier != 'quick' else ()):
        lrng = core.Rng(N_)
        f1 = gen.random_traj(lrng, 4, N_, 0.7)
        f2 = [(x + (1 if lrng.random() < 0.2 else 0)) % 5 for x in f1]
        for m_ in (0, 1):
            for th_ in (3, 16):
                yield _mk([f1], [f2], m_, threads=th_, src='corpus-long')
    maxn = {'quick': 5, 'thorough': 6, 'search': 5}[tier]
    k = 0
    for n in range(2, maxn + 1):
        for a in itertools.product(range(3), repeat=n):
            if a[0] != 0:           # canonical first label (renaming invariance is covered by the random stream)
                continue
            for b in itertools.product(range(3), repeat=n):
                k += 1
                if tier == 'quick' and n == maxn and k % 4:
                    continue
                for m in (0, 1):
                    yield _mk([list(a)], [list(b)], m, threads=3, src='enum')
    nrand = {'quick': 1200, 'thorough': 15000, 'search': 4000}[tier] * boost
    for k in range(nrand):
        n1, n2 = rng.randint(1, 12), rng.randint(1, 12)
        if rng.random() < 0.9:
            n1, n2 = max(n1, 2), max(n2, 2)
        l1, _ = gen.alphabet(rng, n1)
        l2, _ = gen.alphabet(rng, n2)
        N = rng.choice([2, 3, 5, 17, 37, 50, 101, 200, 400])
        if tier == 'thorough' and k % 2000 == 0:
            N = 100000
        ntraj = rng.randint(1, 4)
        cuts = sorted(rng.sample(range(1, N), min(ntraj - 1, N - 1))) if N > 1 else []
        sticky = rng.choice([0.0, 0.5, 0.9, 0.98])
        f1 = gen.random_traj(rng, n1, N, sticky)
        f2 = gen.random_traj(rng, n2, N, sticky)
        if rng.random() < 0.3:      # rare state at the end / unbalanced populations
            f1[-1] = n1 - 1
            f2[-rng.randint(1, 3):] = [n2 - 1] * 1
        if rng.random() < 0.15:     # refinement: second labeling refines the first
            f2 = [a * 2 + (i % 2) for i, a in enumerate(f1)]
            l2 = list(range(2 * n1 + 2))
        A = [l1[i] for i in f1]
        B = [l2[i] for i in f2]
        bounds = [0] + cuts + [N]
        t1 = [A[a:b] for a, b in zip(bounds, bounds[1:])]
        cuts2 = sorted(rng.sample(range(1, N), min(rng.randint(0, 3), N - 1))) if N > 1 else []
        b2 = [0] + cuts2 + [N]
        t2 = [B[a:b] for a, b in zip(b2, b2[1:])]
        if rng.random() < 0.05 and len(t2[-1]) > 1:
            t2[-1] = t2[-1][:-1]     # unequal frame counts
        m = rng.choice([0, 0, 1, 1, 2]) if rng.random() < 0.3 else rng.choice([0, 1])
        yield _mk(t1, t2, m, threads=rng.choice([1, 2, 3, 16]), form=rng.choice(['list_of_arrays', 'mixed_arrays', 'statetraj']))


def real(case):
    import msmhelper as mh
    import numba
    rng = core.Rng(hash(str(case['t1'])) & 0xffff)
    try:
        numba.set_num_threads(min(case['threads'], numba.config.NUMBA_NUM_THREADS))
    except Exception:  # noqa
        pass
    a1 = gen.to_form(case['t1'], case.get('form', 'list_of_arrays'), rng)
    a2 = gen.to_form(case['t2'], 'list_of_arrays', rng)
    out = core.call(lambda: core.rat_str(float(mh.md.compare_discretization(a1, a2, method=METHODS[case['method']]))))
    out.pop('msg', None)
    return out


def request(case, obs):
    return {'op': 'compare', 't1': case['t1'], 't2': case['t2'], 'method': case['method'], 'obs': obs}


def agree(case, obs, reply):
    m = reply['model']
    if 'err' in m or 'err' in obs:
        return m.get('err') == obs.get('err')
    return abs(Fraction(m['ok']) - Fraction(obs['ok'])) <= Fraction(1, 10 ** 9)


def holds(case, obs, reply):
    return bool(reply['holds'])


def nontrivial(case, obs, reply):
    if 'ok' not in obs:
        return False
    return Fraction(obs['ok']) != 1


def key(case):
    return [case['t1'], case['t2'], case['method']]


def classify(case, obs, reply):
    return '%s/m%d/thr%d/%s' % (case['src'], case['method'], case['threads'], obs.get('err', 'ok'))


def known_match(k, case, obs, reply):
    return False


def shrink(case):
    f1 = [x for t in case['t1'] for x in t]
    f2 = [x for t in case['t2'] for x in t]
    if len(case['t1']) > 1 or len(case['t2']) > 1:
        yield dict(case, t1=[f1], t2=[f2])
    n = min(len(f1), len(f2))
    if len(case['t1']) == 1 and len(case['t2']) == 1 and n > 2:
        yield dict(case, t1=[f1[:n // 2]], t2=[f2[:n // 2]])
        yield dict(case, t1=[f1[n // 2:]], t2=[f2[n // 2:]])
        for j in range(n):
            yield dict(case, t1=[f1[:j] + f1[j + 1:]], t2=[f2[:j] + f2[j + 1:]])
