/-
Props/C15.lean — property theorems for C15 (relabelling utilities of `src/msmhelper/utils/_utils.py`) and the data
part of C02.  Helper lemmas live in Lemmas/Relabel.lean and Lemmas/StateTraj.lean.

Model of the code: `shiftFlat` (Model/Basic.lean: `shift_data` on the flattened values — offset, lookup table `conv`,
sequential assignment `conv[val_old] = val_new`, `astype(int32)`), `Relabel.shiftData` (the same on a container:
flattened values + remembered structure), `Relabel.renameByIndex`, `Relabel.renameByPopulationWith` (for a given
sorting permutation of the states), `Relabel.unique`, `Relabel.uniqueCounts`.
Declarative reference: `Relabel.subst old new x` = `new[k]` for the LAST `k` with `old[k] = x`, else `x`.
Executable oracles used on the real output: `holdsShift`, `holdsRenameIndex`, `holdsRenamePop`.

Guards.  `shift_data`: `Relabel.guardOk` (documented guard: all old values within `[min data, max data]`, same number
of old and new values, everything fits 32 bit after the offset).  `rename_by_index`: non-empty data and P1's label
guard `LabelGuard [d.vals]` (labels in `[-2^29, 2^29]`) or `LabelWindow [d.vals] lo hi` (`lo ≤ 0`, `hi - 2*lo < 2^31`).
`rename_by_population`: non-empty data and `LabelGuard [d.vals]`, or a window with `lo ≤ 1` and
`hi - 2*lo + 1 < 2^31` (one more than for `rename_by_index`, because the new labels start at 1; see
`rename_population_window_sharp` for an input where the weaker window is not enough).
-/
import MsmVerif.Lemmas.Relabel

namespace MsmVerif.C15
open MsmVerif MsmVerif.Relabel

/-! ### 1. the two formulations of simultaneous substitution agree -/

/-- `Relabel.subst` (look for the last pair `(old[k], new[k])` with `old[k] = x` by searching the reversed pair list)
and the `subst` of Lemmas/StateTraj.lean (fold over the pairs, later pairs overwrite earlier ones) are the same
function, for all lists (also of different length: surplus entries of the longer list are ignored by both). -/
theorem subst_agree (old new : List Int) (x : Int) :
    Relabel.subst old new x = MsmVerif.subst old new x :=
  subst_eq_subst old new x

example : Relabel.subst [1, 2, 1] [10, 20, 30] 1 = 30 ∧ MsmVerif.subst [1, 2, 1] [10, 20, 30] 1 = 30 := by decide

/-! ### 2. `shift_data` is the simultaneous substitution -/

/-- Under the documented guard (`guardOk`: data and `new` non-empty, as many old as new values, every old value within
`[min data, max data]`, `max (max data) (max new) - min (min data) (min new) < 2^31`, offset `≥ -2^31`),
`shift_data` succeeds, keeps the container structure and replaces every value `x` by `subst old new x`.
(`guardOk` is strong enough for `shiftFlat_eq_subst'`; its last conjunct `-2^31 ≤ offset` is not even needed.) -/
theorem shift_eq_subst {d : Data} {old new : List Int} (h : guardOk d.vals old new = true) :
    shiftData d old new = .ok ⟨d.vals.map (Relabel.subst old new), d.shape⟩ := by
  unfold shiftData
  rw [shiftFlat_of_guardOk h, subst_eq_subst_fun]
  rfl

example : guardOk [5, 7, 9, 7] [5, 9] [6, 5] = true := by decide
example : shiftData ⟨[5, 7, 9, 7], .mat 2 2⟩ [5, 9] [6, 5] = .ok ⟨[6, 7, 5, 7], .mat 2 2⟩ := by rfl

/-- The oracle `holdsShift` accepts the model's own output, for every input (inside the guard by `shift_eq_subst`,
outside the guard the oracle demands nothing). -/
theorem holds_of_model (d : Data) (old new : List Int) :
    holdsShift d old new (shiftData d old new) = true := by
  unfold holdsShift
  split
  · next h => rw [shift_eq_subst h]; simp
  · rfl

/-! ### 3. the substitution is simultaneous (no chaining) -/

/-- Swap: with `old = [a, b]`, `new = [b, a]`, `a ≠ b`, the value `a` becomes `b`, `b` becomes `a` (it is not sent on
to `b` again), everything else is untouched. -/
theorem simultaneous_swap (a b : Int) (hab : a ≠ b) (x : Int) :
    Relabel.subst [a, b] [b, a] a = b ∧ Relabel.subst [a, b] [b, a] b = a ∧
    (x ≠ a → x ≠ b → Relabel.subst [a, b] [b, a] x = x) := by
  refine ⟨?_, ?_, ?_⟩
  · simp [Relabel.subst, Ne.symm hab]
  · simp [Relabel.subst]
  · intro hxa hxb
    simp [Relabel.subst, Ne.symm hxa, Ne.symm hxb]

example : [1, 2, 3, 1].map (Relabel.subst [1, 2] [2, 1]) = [2, 1, 3, 2] := by decide

/-- Cycle: with `old = [a, b, c]`, `new = [b, c, a]` (pairwise distinct), `a ↦ b`, `b ↦ c`, `c ↦ a`, everything else is
untouched. -/
theorem simultaneous_cycle (a b c : Int) (hab : a ≠ b) (hac : a ≠ c) (hbc : b ≠ c) (x : Int) :
    Relabel.subst [a, b, c] [b, c, a] a = b ∧ Relabel.subst [a, b, c] [b, c, a] b = c ∧
    Relabel.subst [a, b, c] [b, c, a] c = a ∧
    (x ≠ a → x ≠ b → x ≠ c → Relabel.subst [a, b, c] [b, c, a] x = x) := by
  refine ⟨?_, ?_, ?_, ?_⟩
  · simp [Relabel.subst, Ne.symm hab, Ne.symm hac]
  · simp [Relabel.subst, Ne.symm hbc]
  · simp [Relabel.subst]
  · intro hxa hxb hxc
    simp [Relabel.subst, Ne.symm hxa, Ne.symm hxb, Ne.symm hxc]

example : [1, 2, 3, 4].map (Relabel.subst [1, 2, 3] [2, 3, 1]) = [2, 3, 1, 4] := by decide

/-- General statement: if the old values are pairwise distinct, the `k`-th old value is sent to the `k`-th new value —
whether or not that new value (or any other) occurs among the old values: the result is never substituted again. -/
theorem simultaneous {old new : List Int} (hnd : old.Nodup) {k : Nat} (hk : k < old.length) (hk' : k < new.length) :
    Relabel.subst old new old[k] = new[k] := by
  rw [subst_agree]
  exact subst_getElem_of_nodup hnd hk hk'

/-- Values that are not among the old values are untouched. -/
theorem subst_not_mem {old new : List Int} {x : Int} (h : x ∉ old) : Relabel.subst old new x = x := by
  rw [subst_agree]
  exact subst_of_not_mem h

/-- Without the distinctness assumption: the LAST occurrence among the old values decides. -/
theorem subst_last {old new : List Int} {x : Int} {k : Nat} (hk : k < old.length) (hk' : k < new.length)
    (hx : old[k] = x) (hlast : ∀ j (hj : j < old.length), k < j → old[j] ≠ x) :
    Relabel.subst old new x = new[k] := by
  rw [subst_agree]
  exact subst_eq_last hk hk' hx hlast

example : ([4, 7, 9] : List Int).Nodup ∧ (7 : Int) ∉ ([4, 9] : List Int) := by decide

/-! ### 4. structure is preserved -/

/-- Whenever `shift_data` returns (guard or not), the result has the same container structure and the same number
of values as the input: array shape / the lengths of the list of arrays are unchanged. -/
theorem shift_structure {d r : Data} {old new : List Int} (h : shiftData d old new = .ok r) :
    r.shape = d.shape ∧ r.vals.length = d.vals.length := by
  obtain ⟨h1, h2⟩ := shiftData_ok_iff.mp h
  exact ⟨h2, shiftFlat_length h1⟩

example : shiftData ⟨[3, 5, 3, 8, 8], .ragged [2, 3]⟩ [3] [4] = .ok ⟨[4, 5, 4, 8, 8], .ragged [2, 3]⟩ := by rfl

/-- List of arrays: under the guard on the concatenated values, `shift_data` on a list of trajectories returns the
list of trajectories with the same lengths, every value replaced by `subst old new` (flatten → table → `np.split`). -/
theorem shift_list_of_arrays {ts : Trajs} {old new : List Int} (h : guardOk ts.flatten old new = true) :
    shiftTrajs ts old new = .ok (ts.map (·.map (Relabel.subst old new))) := by
  unfold shiftTrajs
  rw [shiftFlat_of_guardOk h, subst_eq_subst_fun]
  simp only [Except.map, unflatten_map_flatten]

example : guardOk [[3, 5], [3, 8, 8]].flatten [3] [4] = true := by decide

/-! ### 5. `rename_by_index` -/

/-- `rename_by_index` (window form of the guard): on non-empty data whose labels lie in a window `[lo, hi]` with
`lo ≤ 0` and `hi - 2*lo < 2^31`, every value is replaced by its rank among the ascending distinct labels, the
structure is kept, and the returned permutation is the ascending list of distinct labels. -/
theorem rename_index_of_window {d : Data} {lo hi : Int} (hw : LabelWindow [d.vals] lo hi) (hne : d.vals ≠ []) :
    renameByIndex d
      = .ok (⟨d.vals.map (fun x => (rank (sortDedup d.vals) x : Int)), d.shape⟩, sortDedup d.vals) := by
  unfold renameByIndex shiftData
  simp only [shiftFlat_sortDedup_eq_rank hw hne]
  rfl

/-- `rename_by_index` under P1's guard (all labels in `[-2^29, 2^29]`, data non-empty): result = ranks,
permutation = ascending distinct labels. -/
theorem rename_index {d : Data} (hg : LabelGuard [d.vals]) (hne : d.vals ≠ []) :
    renameByIndex d
      = .ok (⟨d.vals.map (fun x => (rank (sortDedup d.vals) x : Int)), d.shape⟩, sortDedup d.vals) :=
  rename_index_of_window hg.window hne

example : LabelGuard [[7, -2, 7, 40]] ∧ ([7, -2, 7, 40] : List Int) ≠ [] := by decide
example : renameByIndex ⟨[7, -2, 7, 40], .flat⟩ = .ok (⟨[1, 0, 1, 2], .flat⟩, [-2, 7, 40]) := by rfl

/-- Indexing the permutation with the renamed data reproduces the input: `perm[renamed] = data`
(pure statement about ranks, no guard needed). -/
theorem rename_index_roundtrip (l : List Int) :
    (l.map (fun x => (rank (sortDedup l) x : Int))).map (fun i => (sortDedup l).getD i.toNat 0) = l :=
  map_getD_rank l

/-- The new labels are exactly `0 … n-1` positions: every renamed value is a valid index into the permutation. -/
theorem rename_index_range (l : List Int) :
    ∀ v ∈ l.map (fun x => (rank (sortDedup l) x : Int)), 0 ≤ v ∧ v < (sortDedup l).length := by
  intro v hv
  obtain ⟨x, hx, rfl⟩ := List.mem_map.mp hv
  have := rank_lt (mem_sortDedup.mpr hx)
  omega

/-- The oracle `holdsRenameIndex` accepts the model's output on every guarded non-empty input. -/
theorem holds_of_model_rename_index {d : Data} (hg : LabelGuard [d.vals]) (hne : d.vals ≠ []) :
    holdsRenameIndex d (renameByIndex d) = true := by
  rw [rename_index hg hne]
  simp only [holdsRenameIndex, Bool.and_eq_true]
  refine ⟨⟨⟨?_, ?_⟩, ?_⟩, ?_⟩
  · exact beq_self_eq_true _
  · exact beq_self_eq_true _
  · exact beq_self_eq_true _
  · rw [rename_index_roundtrip]; exact beq_self_eq_true _

/-- Empty data is rejected (`np.min` of an empty array raises `ValueError`), hence the hypothesis `d.vals ≠ []`. -/
theorem rename_index_empty (s : Shape) : renameByIndex ⟨[], s⟩ = .error .value := rfl

/-! ### 6. `rename_by_population` -/

/-- `rename_by_population` for ANY ordering `perm` of the distinct labels (window form of the guard: labels in `[lo, hi]`,
`lo ≤ 1`, `hi - 2*lo + 1 < 2^31`, data non-empty): every value `x` is replaced by `1 +` its position in `perm`, the
structure is kept and `perm` is returned as the permutation. -/
theorem rename_population_of_window {d : Data} {perm : List Int} {lo hi : Int}
    (hmem : ∀ x ∈ d.vals, lo ≤ x ∧ x ≤ hi) (hlo : lo ≤ 1) (hnarrow : hi - 2 * lo + 1 < 2147483648)
    (hne : d.vals ≠ []) (hp : perm.Perm (sortDedup d.vals)) :
    renameByPopulationWith d perm
      = .ok (⟨d.vals.map (fun x => (perm.idxOf x : Int) + 1), d.shape⟩, perm) := by
  unfold renameByPopulationWith shiftData
  simp only [shiftFlat_perm_eq_idxOf hmem hlo hnarrow hne hp]
  rfl

/-- `rename_by_population` under P1's guard (labels in `[-2^29, 2^29]`, data non-empty), for every ordering `perm` of
the distinct labels. -/
theorem rename_population {d : Data} {perm : List Int} (hg : LabelGuard [d.vals]) (hne : d.vals ≠ [])
    (hp : perm.Perm (sortDedup d.vals)) :
    renameByPopulationWith d perm
      = .ok (⟨d.vals.map (fun x => (perm.idxOf x : Int) + 1), d.shape⟩, perm) :=
  rename_population_of_window (lo := -536870912) (hi := 536870912)
    (fun x hx => hg x (by simpa using hx)) (by omega) (by omega) hne hp

example : LabelGuard [[7, -2, 7, 40, 7, 40]] ∧ ([7, 40, -2] : List Int).Perm (sortDedup [7, -2, 7, 40, 7, 40]) := by
  decide
example : renameByPopulationWith ⟨[7, -2, 7, 40, 7, 40], .flat⟩ [7, 40, -2]
    = .ok (⟨[1, 3, 1, 2, 1, 2], .flat⟩, [7, 40, -2]) := by rfl

/-- The window of `rename_by_index` (`hi - 2*lo < 2^31`) is NOT enough for `rename_by_population`: five consecutive labels
starting at `-2147483643` satisfy it, yet the new label `5` minus the offset is `2^31` and the `int32` cast wraps. -/
theorem rename_population_window_sharp :
    LabelWindow [[-2147483643, -2147483642, -2147483641, -2147483640, -2147483639]] (-2147483643) (-2147483639) ∧
    renameByPopulationWith ⟨[-2147483643, -2147483642, -2147483641, -2147483640, -2147483639], .flat⟩
        [-2147483643, -2147483642, -2147483641, -2147483640, -2147483639]
      = .ok (⟨[1, 2, 3, 4, -4294967291], .flat⟩,
          [-2147483643, -2147483642, -2147483641, -2147483640, -2147483639]) := by
  refine ⟨⟨by decide, by decide, by decide⟩, by rfl⟩

/-- The new labels lie in `1 … n` (`n` = number of distinct labels). -/
theorem rename_population_range {l perm : List Int} (hp : perm.Perm (sortDedup l)) :
    ∀ v ∈ l.map (fun x => (perm.idxOf x : Int) + 1), 1 ≤ v ∧ v ≤ perm.length := by
  intro v hv
  obtain ⟨x, hx, rfl⟩ := List.mem_map.mp hv
  have := rank_lt (hp.mem_iff.mpr (mem_sortDedup.mpr hx))
  simp only [rank] at this
  omega

/-- `perm[renamed - 1] = data`: the `i`-th new state is the old state `perm[i-1]`. -/
theorem rename_population_roundtrip {l perm : List Int} (hp : perm.Perm (sortDedup l)) :
    (l.map (fun x => (perm.idxOf x : Int) + 1)).map (fun v => perm.getD (v - 1).toNat 0) = l :=
  map_getD_idxOf (fun _ hx => hp.mem_iff.mpr (mem_sortDedup.mpr hx))

/-- The population of the new label `i+1` is the population of the old label `perm[i]`. -/
theorem rename_population_counts {l perm : List Int} (hp : perm.Perm (sortDedup l)) :
    (List.range perm.length).map (fun (i : Nat) => (l.map (fun x => (perm.idxOf x : Int) + 1)).count ((i : Int) + 1))
      = perm.map (fun x => l.count x) :=
  pop_new_eq_pop_perm (hp.nodup_iff.mpr (sortDedup_nodup l)) (fun _ hx => hp.mem_iff.mpr (mem_sortDedup.mpr hx))

/-- If `perm` lists the distinct labels by non-increasing population (any tie order), then the populations of the new
labels `1, 2, …, n` are non-increasing. -/
theorem rename_population_sorted {l perm : List Int} (hp : perm.Perm (sortDedup l))
    (hs : nonIncreasingNat (perm.map (fun x => l.count x)) = true) :
    nonIncreasingNat ((List.range perm.length).map
      (fun (i : Nat) => (l.map (fun x => (perm.idxOf x : Int) + 1)).count ((i : Int) + 1))) = true := by
  rw [rename_population_counts hp]; exact hs

/-- `nonIncreasingNat` (adjacent comparison) means: every earlier entry is `≥` every later entry. -/
theorem nonIncreasingNat_iff (l : List Nat) : nonIncreasingNat l = true ↔ l.Pairwise (· ≥ ·) :=
  nonIncreasingNat_iff_pairwise l

/-- The oracle `holdsRenamePop` accepts the model's output for every sorting permutation `perm` (distinct labels ordered
by non-increasing population, ties in any order) on guarded non-empty data. -/
theorem holds_of_model_rename_pop {d : Data} {perm : List Int} (hg : LabelGuard [d.vals]) (hne : d.vals ≠ [])
    (hp : perm.Perm (sortDedup d.vals))
    (hs : nonIncreasingNat (perm.map (fun x => d.vals.count x)) = true) :
    holdsRenamePop d (renameByPopulationWith d perm) = true := by
  rw [rename_population hg hne hp]
  simp only [holdsRenamePop, Bool.and_eq_true]
  refine ⟨⟨⟨⟨⟨⟨⟨?_, ?_⟩, ?_⟩, ?_⟩, ?_⟩, ?_⟩, ?_⟩, ?_⟩
  · simp [hp.length_eq]
  · simp only [List.all_eq_true, List.contains_iff_mem]
    intro _ hx; exact hp.mem_iff.mpr hx
  · simp only [List.all_eq_true, List.contains_iff_mem]
    intro _ hx; exact hp.mem_iff.mp hx
  · exact hs
  · simp
  · simp only [List.all_eq_true, Bool.and_eq_true, decide_eq_true_eq]
    exact rename_population_range hp
  · rw [rename_population_roundtrip hp]; exact beq_self_eq_true _
  · exact rename_population_sorted hp hs

example : nonIncreasingNat (([7, 40, -2] : List Int).map (fun x => ([7, -2, 7, 40, 7, 40] : List Int).count x)) = true := by
  decide

/-! ### 7. `unique` -/

/-- `unique` returns the distinct values of the data in strictly ascending order: it is strictly ascending and has
exactly the members of the data. -/
theorem unique_spec (d : Data) :
    (unique d).Pairwise (· < ·) ∧ (unique d).Nodup ∧ ∀ x, x ∈ unique d ↔ x ∈ d.vals :=
  ⟨sortDedup_pairwise _, sortDedup_nodup _, fun _ => mem_sortDedup⟩

/-- `unique(..., return_counts=True)`: the values are those of `unique`, the `i`-th count is the number of occurrences of
the `i`-th value (hence positive), and the counts sum to the number of data values. -/
theorem uniqueCounts_spec (d : Data) :
    (uniqueCounts d).1 = unique d ∧
    (uniqueCounts d).2 = (unique d).map (fun x => d.vals.count x) ∧
    (∀ c ∈ (uniqueCounts d).2, 0 < c) ∧
    (uniqueCounts d).2.sum = d.vals.length := by
  refine ⟨rfl, rfl, ?_, ?_⟩
  · intro c hc
    obtain ⟨x, hx, rfl⟩ := List.mem_map.mp hc
    exact List.count_pos_iff.mpr (mem_sortDedup.mp hx)
  · exact sum_count_eq_length _ _ (sortDedup_nodup _) (fun x hx => mem_sortDedup.mpr hx)

example : uniqueCounts ⟨[7, -2, 7, 40, 7, 40], .flat⟩ = ([-2, 7, 40], [1, 3, 2]) := by decide

end MsmVerif.C15
