/-
Props/C14Mask.lean — property theorems for the second sentence of C14: "for a row-stochastic matrix whose classes are
all aperiodic and whose largest closed class is larger than every transient class, the ergodic mask marks exactly the
states of the largest closed class (of all largest closed classes when they tie)".
Helper lemmas live in Lemmas/MaskClasses.lean.

Vocabulary (all on the support graph `b = support m`, edge `u → v` iff `m_uv ≠ 0`, vertices `0 … n-1`, `n = m.length`):
* `Walk b k i j` — a walk of length exactly `k` from `i` to `j` (Props/C14.lean, `walk_is_walk`);
* `Reach b i j := ∃ k, Walk b k i j` (`k = 0` allowed), `Comm b i j := Reach b i j ∧ Reach b j i`; the (communicating)
  class of `i` is `{j | Comm b i j}`; `classCard b n i` is the number of `j < n` in it;
* `ClosedClass b n i` — no edge leaves the class of `i`; `MaxClosed b n i` — the class of `i` is closed and no closed
  class is larger; `AperiodicClass b n i` — some `k ≥ 1` has walks of length exactly `k` between all ordered pairs of
  members of the class of `i` (the class digraph is primitive; such walks cannot leave the class, `walks_stay_in_class`);
  `LooplessSingleton b n i` — the class of `i` is `{i}` and `i` has no self-loop;
* `maskRel m i j` — the relation inside `ergodic_mask`: `(m^K)_ij > atol` and `(m^K)_ji > atol`, `K = (n-1)² + 1`,
  `atol = 1e-8`; `maskCnt m i` — the number of `j < n` with `maskRel m i j` (Lemmas/Linalg.lean, `C14.mask_marks_max`).

Standing hypotheses: `m` has non-negative entries, `is_transition_matrix m` holds, and positive entries of `m^K` exceed
`atol` (the threshold hypothesis; the property guarantees it by "smallest stationary probability ≥ 1e-6").

Sections: 0 vocabulary; 1 `maskRel` = class membership; 2 `maskCnt` = class size; 3 the mask clause (`mask_complete`);
4 the executable graph oracle (`closure` = reachability, `period = 1` ⇔ aperiodic, `maskHypothesis m = some e` ⇒
`ergodicMask m = some e`); 5 C04 for ergodic matrices (`stationary` succeeds, the model output satisfies `holdsPeq`).
-/
import MsmVerif.Lemmas.MaskClasses
import MsmVerif.Props.C14

namespace MsmVerif.C14Mask
open MsmVerif MsmVerif.Msm MsmVerif.Linalg

/-- the running example: closed classes `{0,1}` and `{2,3}` (both aperiodic, same size) and the transient state `4`
without self-loop -/
def M5 : Mat :=
  [[0, 1, 0, 0, 0], [1/2, 1/2, 0, 0, 0], [0, 0, 1/2, 1/2, 0], [0, 0, 1/2, 1/2, 0], [1/2, 0, 1/2, 0, 0]]

/-! ### 0. the vocabulary is the usual one -/

/-- Mutual reachability is an equivalence relation (so "the class of `i`" makes sense). -/
theorem comm_equivalence (b : List (List Bool)) :
    (∀ i, Comm b i i) ∧ (∀ i j, Comm b i j → Comm b j i) ∧ (∀ i l j, Comm b i l → Comm b l j → Comm b i j) :=
  ⟨Comm.refl b, fun _ _ h => h.symm, fun _ _ _ h1 h2 => h1.trans h2⟩

/-- A walk between two members `u`, `v` of the class of `i` never leaves the class: every vertex `l` at which the walk
can be cut (`u → … → l → … → v`) is a member of the class of `i`. -/
theorem walks_stay_in_class (b : List (List Bool)) (i u v l a c : Nat) (hu : Comm b i u) (hv : Comm b i v)
    (h1 : Walk b a u l) (h2 : Walk b c l v) : Comm b i l :=
  Comm.of_split hu hv h1 h2

/-- For a class that consists of the single state `i`, "aperiodic" means exactly "`i` has a self-loop". -/
theorem aperiodic_singleton (n : Nat) (b : List (List Bool)) (hb : b.length ≤ n) (i : Nat) (hi : i < n)
    (hs : ∀ j, j < n → Comm b i j → j = i) : AperiodicClass b n i ↔ bent b i i = true :=
  aperiodicClass_singleton hb hi hs

/-! ### 1. the relation of `ergodic_mask` is class membership -/

/-- Under the threshold hypothesis the relation of `ergodic_mask` says: there are walks of length exactly `K` from `i` to
`j` and from `j` to `i`. -/
theorem mutual_iff_walks (m : Mat) (hnn : ∀ r ∈ m, ∀ x ∈ r, 0 ≤ x) (ht : isTmat m = true)
    (hthr : ∀ i j, i < m.length → j < m.length → 0 < entry (pow m (wielandtExp m.length)) i j →
      atol < entry (pow m (wielandtExp m.length)) i j)
    (i j : Nat) (hi : i < m.length) (hj : j < m.length) :
    maskRel m i j = true ↔
      Walk (support m) (wielandtExp m.length) i j ∧ Walk (support m) (wielandtExp m.length) j i :=
  maskRel_iff_walks hnn ht hthr hi hj

/-- **Same class ⇔ related.**  Let the class of `i` be aperiodic.  Then for every `j < n`: `ergodic_mask` relates `i`
and `j` (walks of length exactly `K` in both directions, entries above the threshold) if and only if `j` is in the class
of `i`.  (⇒ needs no aperiodicity; ⇐ is Wielandt's theorem inside the class, whose size is at most `n`, plus upward
closure of the set of good walk lengths.) -/
theorem mutual_iff_same_class (m : Mat) (hnn : ∀ r ∈ m, ∀ x ∈ r, 0 ≤ x) (ht : isTmat m = true)
    (hthr : ∀ i j, i < m.length → j < m.length → 0 < entry (pow m (wielandtExp m.length)) i j →
      atol < entry (pow m (wielandtExp m.length)) i j)
    (i j : Nat) (hi : i < m.length) (hj : j < m.length) (hap : AperiodicClass (support m) m.length i) :
    maskRel m i j = true ↔ Comm (support m) i j :=
  maskRel_iff_comm hnn ht hthr hi hj hap

/-- A state whose class is a single state without self-loop is related to no state at all (not even to itself). -/
theorem mutual_loopless (m : Mat) (hnn : ∀ r ∈ m, ∀ x ∈ r, 0 ≤ x) (ht : isTmat m = true)
    (i : Nat) (hi : i < m.length) (hs : LooplessSingleton (support m) m.length i) (j : Nat) :
    maskRel m i j = false :=
  maskRel_loopless hnn ht hi hs j

/-- the standing hypotheses hold for the running example -/
theorem M5_hyps : (∀ r ∈ M5, ∀ x ∈ r, 0 ≤ x) ∧ isTmat M5 = true ∧
    (∀ i j, i < M5.length → j < M5.length → 0 < entry (pow M5 (wielandtExp M5.length)) i j →
      atol < entry (pow M5 (wielandtExp M5.length)) i j) := by
  refine ⟨by decide +kernel, by decide +kernel, ?_⟩
  intro i j hi hj
  exact (by decide +kernel : ∀ i, i < M5.length → ∀ j, j < M5.length →
    0 < entry (pow M5 (wielandtExp M5.length)) i j → atol < entry (pow M5 (wielandtExp M5.length)) i j) i hi j hj

/-- Non-vacuity: in the running example the class of state `0` is `{0, 1}`, it is aperiodic (walks of length 2 join all
pairs), `0` is related to `1` but not to `2`; state `4` is a loop-less singleton. -/
example : AperiodicClass (support M5) M5.length 0 ∧ Comm (support M5) 0 1 ∧ ¬ Comm (support M5) 0 2 ∧
    maskRel M5 0 1 = true ∧ maskRel M5 0 2 = false ∧ LooplessSingleton (support M5) M5.length 4 := by
  have hl : (support M5).length = M5.length := support_length M5
  have hcomm : ∀ i, i < 5 → ∀ j, j < 5 →
      (Comm (support M5) i j ↔ (classOf (closure (support M5)) i).getD j false = true) := by
    intro i hi j hj
    rw [classOf_closure_iff (support M5) (by rw [hl]; exact hi)]
    exact ⟨fun h => ⟨by rw [hl]; exact hj, h⟩, fun h => h.2⟩
  refine ⟨?_, ?_, ?_, by decide +kernel, by decide +kernel, ?_, by decide +kernel⟩
  · refine ⟨2, by decide, ?_⟩
    intro u v hu hv cu cv
    rw [hcomm 0 (by decide) u hu] at cu
    rw [hcomm 0 (by decide) v hv] at cv
    exact (bent_bpow_iff_walk (n := 5) (by decide +kernel) 2 hu hv).mp
      ((by decide +kernel : ∀ u, u < 5 → ∀ v, v < 5 → (classOf (closure (support M5)) 0).getD u false = true →
        (classOf (closure (support M5)) 0).getD v false = true → bent (bpow (support M5) 5 2) u v = true)
        u hu v hv cu cv)
  · rw [hcomm 0 (by decide) 1 (by decide)]; decide +kernel
  · rw [hcomm 0 (by decide) 2 (by decide)]; decide +kernel
  · intro j hj hc
    rw [hcomm 4 (by decide) j hj] at hc
    exact (by decide +kernel : ∀ j, j < 5 → (classOf (closure (support M5)) 4).getD j false = true → j = 4) j hj hc

/-! ### 2. the counts of `ergodic_mask` are class sizes -/

/-- If the class of `i` is aperiodic, the number of states related to `i` equals the number of states in the class of
`i`. -/
theorem maskCnt_eq_class_size (m : Mat) (hnn : ∀ r ∈ m, ∀ x ∈ r, 0 ≤ x) (ht : isTmat m = true)
    (hthr : ∀ i j, i < m.length → j < m.length → 0 < entry (pow m (wielandtExp m.length)) i j →
      atol < entry (pow m (wielandtExp m.length)) i j)
    (i : Nat) (hi : i < m.length) (hap : AperiodicClass (support m) m.length i) :
    maskCnt m i = classCard (support m) m.length i :=
  maskCnt_eq_classCard hnn ht hthr hi hap

/-- If the class of `i` is a single state without self-loop, the count of `i` is `0` (its class has size `1`). -/
theorem maskCnt_loopless_singleton (m : Mat) (hnn : ∀ r ∈ m, ∀ x ∈ r, 0 ≤ x) (ht : isTmat m = true)
    (i : Nat) (hi : i < m.length) (hs : LooplessSingleton (support m) m.length i) : maskCnt m i = 0 :=
  maskCnt_loopless hnn ht hi hs

/-- With no assumption on the class of `i` (periodic classes included, no threshold hypothesis): the count of `i` never
exceeds the size of its class, which is at least `1`. -/
theorem maskCnt_le_class_size (m : Mat) (hnn : ∀ r ∈ m, ∀ x ∈ r, 0 ≤ x) (ht : isTmat m = true)
    (i : Nat) (hi : i < m.length) :
    maskCnt m i ≤ classCard (support m) m.length i ∧ 1 ≤ classCard (support m) m.length i :=
  ⟨maskCnt_le_classCard hnn ht hi, classCard_pos hi⟩

example : (List.range M5.length).map (maskCnt M5) = [2, 2, 2, 2, 0] := by decide +kernel

/-! ### 3. the mask marks exactly the largest closed classes -/

/-- **The mask clause of C14.**  Assume that every closed class is aperiodic and that every closed class of maximal size
(among the closed classes) is strictly larger than every non-closed (transient) class.  Then `ergodic_mask` returns a
mask of length `n` which marks state `i` if and only if `i` lies in a closed class of maximal size — all of them when
several closed classes tie.  (Nothing is assumed about the periodicity of transient classes.) -/
theorem mask_complete (m : Mat) (hnn : ∀ r ∈ m, ∀ x ∈ r, 0 ≤ x) (ht : isTmat m = true)
    (hthr : ∀ i j, i < m.length → j < m.length → 0 < entry (pow m (wielandtExp m.length)) i j →
      atol < entry (pow m (wielandtExp m.length)) i j)
    (hcls : ∀ i, i < m.length → ClosedClass (support m) m.length i → AperiodicClass (support m) m.length i)
    (hbig : ∀ i j, i < m.length → j < m.length → MaxClosed (support m) m.length i →
      ¬ ClosedClass (support m) m.length j →
      classCard (support m) m.length j < classCard (support m) m.length i) :
    ∃ mask, ergodicMask m = some mask ∧ mask.length = m.length ∧
      ∀ i, i < m.length → (mask.getD i false = true ↔ MaxClosed (support m) m.length i) := by
  have he := ergodicMask_eq ht
  obtain ⟨hlen, hmark⟩ := C14.mask_marks_max m _ he
  refine ⟨_, he, hlen, ?_⟩
  intro i hi
  rw [hmark i hi]
  exact maskCnt_max_iff hnn ht hthr hcls hbig hi

/-- The mask clause with the hypothesis in the words of the property: every class is aperiodic, except that a transient
class may also be a single state without self-loop. -/
theorem mask_complete_all_classes (m : Mat) (hnn : ∀ r ∈ m, ∀ x ∈ r, 0 ≤ x) (ht : isTmat m = true)
    (hthr : ∀ i j, i < m.length → j < m.length → 0 < entry (pow m (wielandtExp m.length)) i j →
      atol < entry (pow m (wielandtExp m.length)) i j)
    (hcls : ∀ i, i < m.length → AperiodicClass (support m) m.length i ∨
      (LooplessSingleton (support m) m.length i ∧ ¬ ClosedClass (support m) m.length i))
    (hbig : ∀ i j, i < m.length → j < m.length → MaxClosed (support m) m.length i →
      ¬ ClosedClass (support m) m.length j →
      classCard (support m) m.length j < classCard (support m) m.length i) :
    ∃ mask, ergodicMask m = some mask ∧ mask.length = m.length ∧
      ∀ i, i < m.length → (mask.getD i false = true ↔ MaxClosed (support m) m.length i) := by
  apply mask_complete m hnn ht hthr _ hbig
  intro i hi hc
  rcases hcls i hi with h | h
  · exact h
  · exact absurd hc h.2

/-- Why a loop-less singleton must be transient in `mask_complete_all_classes`: `is_transition_matrix` accepts a state that
is never entered or left (zero row and zero column).  Its class `{0}` is closed, has no self-loop and count 0, so when
the other closed classes have size 1 as well it lies in a closed class of maximal size without being marked.  The
executable hypothesis `maskHypothesis` rejects this input (the period of a closed class must be 1). -/
example : isTmat [[0, 0], [0, 1]] = true ∧ ergodicMask [[0, 0], [0, 1]] = some [false, true] ∧
    isClosed (support [[0, 0], [0, 1]]) (classOf (closure (support [[0, 0], [0, 1]])) 0) = true ∧
    maskHypothesis [[0, 0], [0, 1]] = none := by decide +kernel

/-- Non-vacuity: the running example satisfies both class hypotheses of `mask_complete` (closed classes `{0,1}`, `{2,3}`
aperiodic and of size 2, transient class `{4}` of size 1); its mask marks the four states of the two tied closed
classes. -/
example : (∀ i, i < M5.length → ClosedClass (support M5) M5.length i → AperiodicClass (support M5) M5.length i) ∧
    (∀ i j, i < M5.length → j < M5.length → MaxClosed (support M5) M5.length i →
      ¬ ClosedClass (support M5) M5.length j →
      classCard (support M5) M5.length j < classCard (support M5) M5.length i) ∧
    ergodicMask M5 = some [true, true, true, true, false] := by
  have hl : (support M5).length = M5.length := support_length M5
  rw [← hl]
  exact ⟨classesOK_of_exec (support M5) 2 (by decide) (by decide +kernel),
    closedDominates_of_exec (support M5) (by decide +kernel), by decide +kernel⟩

/-! ### 4. the executable graph oracle computes these notions -/

/-- **Warshall's algorithm is correct**: for a boolean pattern `b` with `n` rows and `i, j < n`, the entry `(i, j)` of
`closure b` is `true` iff `j` is reachable from `i` by a walk of some length `≥ 0`. -/
theorem closure_computes_reach (b : List (List Bool)) (i j : Nat) (hi : i < b.length) (hj : j < b.length) :
    bent (closure b) i j = true ↔ Reach b i j :=
  bent_closure_iff b hi hj

/-- The oracle's class list, closedness test and class size are the mathematical ones: for `i < n`, `classOf (closure b) i`
marks exactly the `j < n` that communicate with `i`, `isClosed` holds iff no edge leaves the class, and `classSize` is
the number of members. -/
theorem oracle_classes (b : List (List Bool)) (i : Nat) (hi : i < b.length) :
    (∀ j, (classOf (closure b) i).getD j false = true ↔ j < b.length ∧ Comm b i j) ∧
    (isClosed b (classOf (closure b) i) = true ↔ ClosedClass b b.length i) ∧
    classSize (classOf (closure b) i) = classCard b b.length i :=
  ⟨fun _ => classOf_closure_iff b hi, isClosed_classOf_iff b hi, classSize_classOf b hi⟩

/-- **The graph oracle of the harness agrees with the code.**  `maskHypothesis m` is the executable form of the hypothesis of
the mask clause (classes by Warshall closure, closedness, period by BFS levels and a gcd): it succeeds with `e` when all
closed classes have period 1, all transient classes have period 1 or 0 and are smaller than the largest closed class,
and then `e` marks the members of the largest closed classes.  Whenever it succeeds on a non-negative transition matrix
that satisfies the threshold hypothesis, `ergodic_mask` returns exactly `e`. -/
theorem graph_oracle_agrees (m : Mat) (hnn : ∀ r ∈ m, ∀ x ∈ r, 0 ≤ x) (ht : isTmat m = true)
    (hthr : ∀ i j, i < m.length → j < m.length → 0 < entry (pow m (wielandtExp m.length)) i j →
      atol < entry (pow m (wielandtExp m.length)) i j)
    (e : List Bool) (h : maskHypothesis m = some e) : ergodicMask m = some e := by
  have hn : 0 < m.length := by have := two_le_of_isTmat ht; omega
  obtain ⟨hcls, hbig, hlen, hmark⟩ := hyps_of_maskHypothesis hn h
  obtain ⟨mask, hmask, hl, hm⟩ := mask_complete m hnn ht hthr hcls hbig
  rw [hmask]
  congr 1
  apply boolList_ext (by rw [hl, hlen])
  intro i hi
  rw [hl] at hi
  rw [hm i hi, hmark i hi]

/-- What a successful `maskHypothesis` means mathematically: every closed class is aperiodic (the BFS/gcd period test is
sound), the closed classes of maximal size are strictly larger than every non-closed class, and the returned list
marks exactly the members of the closed classes of maximal size. -/
theorem oracle_hypothesis_sound (m : Mat) (hn : 0 < m.length) (e : List Bool) (h : maskHypothesis m = some e) :
    (∀ i, i < m.length → ClosedClass (support m) m.length i → AperiodicClass (support m) m.length i) ∧
    (∀ i j, i < m.length → j < m.length → MaxClosed (support m) m.length i →
      ¬ ClosedClass (support m) m.length j →
      classCard (support m) m.length j < classCard (support m) m.length i) ∧
    e.length = m.length ∧
    ∀ i, i < m.length → (e.getD i false = true ↔ MaxClosed (support m) m.length i) :=
  hyps_of_maskHypothesis hn h

/-- Non-vacuity: `maskHypothesis` succeeds on the running example, and `graph_oracle_agrees` then yields its mask. -/
example : maskHypothesis M5 = some [true, true, true, true, false] ∧
    ergodicMask M5 = some [true, true, true, true, false] :=
  ⟨by decide +kernel, graph_oracle_agrees M5 M5_hyps.1 M5_hyps.2.1 M5_hyps.2.2 _ (by decide +kernel)⟩

/-- **The period test of the oracle decides aperiodicity.**  For `i < n`, the BFS/gcd computation `period` (gcd over the
edges `u → v` inside the class of `d(u) + 1 - d(v)`, `d` = BFS level from the first member) returns `1` on the class of
`i` if and only if the class of `i` is aperiodic (its digraph is primitive). -/
theorem period_oracle_iff_aperiodic (b : List (List Bool)) (i : Nat) (hi : i < b.length) :
    period b (classOf (closure b) i) = 1 ↔ AperiodicClass b b.length i :=
  period_one_iff_aperiodic b hi

example : period (support M5) (classOf (closure (support M5)) 0) = 1 ∧
    period (support M5) (classOf (closure (support M5)) 4) = 0 := by decide +kernel

example : closure (support M5) =
    [[true, true, false, false, false], [true, true, false, false, false], [false, false, true, true, false],
     [false, false, true, true, false], [true, true, true, true, true]] := by decide +kernel

/-! ### 5. C04: on an ergodic matrix the exact equilibrium population satisfies the oracle -/

/-- For a non-negative matrix accepted by `is_ergodic`, the graph oracle sees what it should: the support graph has the
single class "all states", this class is closed and has period 1; hence `graphErgodic` holds and
`uniqueLargestClosed` returns the all-`true` membership list. -/
theorem oracle_on_ergodic (T : Mat) (hnn : ∀ r ∈ T, ∀ x ∈ r, 0 ≤ x) (h : isErgodic T = true) :
    classes (support T) = [(List.range T.length).map (fun _ => true)] ∧
    period (support T) ((List.range T.length).map (fun _ => true)) = 1 ∧
    graphErgodic T = true ∧ uniqueLargestClosed T = some ((List.range T.length).map (fun _ => true)) :=
  ⟨(oracle_of_isErgodic hnn h).1, (oracle_of_isErgodic hnn h).2.2, graphErgodic_of_isErgodic hnn h,
    uniqueLargestClosed_of_isErgodic hnn h⟩

/-- **C04, ergodic case: the model output meets the oracle.**  Let `T` have non-negative entries and rows that sum to
exactly 1, and let `is_ergodic` accept `T`.  Whenever the model `equilibrium T allow` (either value of
`allow_non_ergodic`) returns a vector `v` — the exact solution of the stationary linear system — the oracle `holdsPeq`
accepts `v` as observed output: `T` is recognised as graph-ergodic, its unique largest closed class is the whole state
space, and `v` coincides with the stationary vector of `T` restricted to that class. -/
theorem equilibrium_meets_oracle_ergodic (T : Mat) (hnn : ∀ r ∈ T, ∀ x ∈ r, 0 ≤ x) (hrow : ∀ r ∈ T, r.sum = 1)
    (h : isErgodic T = true) (allow : Bool) (v : Vec) (heq : equilibrium T allow = .ok (some v)) :
    holdsPeq T allow (.ok v) = true := by
  have hs : stationary T = some v := by
    unfold equilibrium at heq
    simp only [h, ↓reduceIte] at heq
    injection heq
  exact holdsPeq_of_isErgodic hnn hrow h hs allow

/-- **The linear solve succeeds on irreducible matrices.**  For a well-formed `n × n` matrix (`n ≥ 1`) with non-negative
entries, rows summing to exactly 1 and a strongly connected support graph, the exact Gauss–Jordan solve behind
`equilibrium_population` (`stationary T`) returns a vector: the system `[Tᵀ - 1 without its last row ; 1ᵀ] x = e_n` is
non-singular and its solution passes the final check `x T = x`. -/
theorem stationary_succeeds (n : Nat) (T : Mat) (h : T.length = n ∧ ∀ r ∈ T, r.length = n) (hn : 1 ≤ n)
    (hnn : ∀ r ∈ T, ∀ x ∈ r, 0 ≤ x) (hrow : ∀ r ∈ T, r.sum = 1)
    (hirr : ∀ i j, i < n → j < n → ∃ k, Walk (support T) k i j) : ∃ x, stationary T = some x :=
  stationary_complete (n := n) h hn hnn hrow hirr

/-- non-vacuity: the periodic chain `0 ↔ 1 ↔ 2` is irreducible and `stationary` solves it -/
example : stationary [[0, 1, 0], [1/2, 0, 1/2], [0, 1, 0]] = some [1/4, 1/2, 1/4] := by decide +kernel

/-- **C04, ergodic case, end to end.**  Let `T` have non-negative entries and rows that sum to exactly 1, and let
`is_ergodic` accept `T`.  Then for either value of `allow_non_ergodic` the model returns a vector `v`
(`equilibrium T allow = .ok (some v)`), the oracle `holdsPeq` accepts `v`, and `v` is a left fixed vector of `T` with
entry sum 1 and strictly positive entries. -/
theorem equilibrium_ergodic_total (T : Mat) (hnn : ∀ r ∈ T, ∀ x ∈ r, 0 ≤ x) (hrow : ∀ r ∈ T, r.sum = 1)
    (h : isErgodic T = true) (allow : Bool) :
    ∃ v, equilibrium T allow = .ok (some v) ∧ holdsPeq T allow (.ok v) = true ∧
      vecMat v T = v ∧ v.sum = 1 ∧ ∀ i, i < T.length → 0 < v.getD i 0 := by
  obtain ⟨v, hs⟩ := stationary_of_isErgodic hnn hrow h
  have hw := WF_of_isTmat (isTmat_of_isErgodic h)
  obtain ⟨hfix, hsum, _⟩ := stationary_spec hw hs
  refine ⟨v, ?_, holdsPeq_of_isErgodic hnn hrow h hs allow, hfix, hsum, ?_⟩
  · unfold equilibrium
    simp only [h, ↓reduceIte, hs]
  · exact stationary_pos hw hnn hrow (fun i j hi hj => ⟨_, walk_of_isErgodic hnn h hi hj⟩) hfix hsum

example : (∀ r ∈ ([[1/2, 1/2], [1/3, 2/3]] : Mat), ∀ x ∈ r, 0 ≤ x) ∧
    (∀ r ∈ ([[1/2, 1/2], [1/3, 2/3]] : Mat), r.sum = 1) ∧ isErgodic [[1/2, 1/2], [1/3, 2/3]] = true ∧
    equilibrium [[1/2, 1/2], [1/3, 2/3]] false = .ok (some [2/5, 3/5]) ∧
    holdsPeq [[1/2, 1/2], [1/3, 2/3]] false (.ok [2/5, 3/5]) = true := by decide +kernel

end MsmVerif.C14Mask
