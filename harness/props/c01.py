"""C01 — MSM estimate equals row-normalised lagged transition counts."""
import itertools
from fractions import Fraction

import numpy as np

import core
import gen

PID = 'C01'
ANCHORS = [('src/msmhelper/msm/msm.py', ['estimate_markov_model', '_estimate_markov_model',
                                         '_generate_transition_count_matrix', 'row_normalize_matrix']),
           ('src/msmhelper/statetraj.py', ['StateTraj.__init__', 'StateTraj.estimate_markov_model',
                                           'StateTraj.index_trajs', 'StateTraj.states']),
           ('src/msmhelper/utils/_utils.py', ['shift_data', 'rename_by_index', 'unique', 'format_state_traj',
                                              '_flatten_data', '_unflatten_data'])]
RULE = ('exhaustive: all sets of <=3 trajectories over <=3 labels with total length <=5 (quick) / <=7 (thorough), lags 1..4 '
        '(incl. lag >= length), 5 label alphabets each; random: 1-6 trajectories, lengths 0-60, 2-9 states, labels in +-10^4, '
        'dtypes int8..int64, container forms, lags 1-12. Every entry compared exactly (IEEE division of two integers is '
        'correctly rounded). Non-trivial = >=2 states and >=1 counted pair; distinct by (trajs, lag).')
RELATION = 'canon(estimate_markov_model(trajs, lag)) = Msm.estimate trajs lag  (entrywise float(C/R) equality, states exact)'
ALPHAS3 = {'zero': [0, 1, 2], 'one': [1, 2, 3], 'gapped': [2, 5, 9], 'negative': [-1, 0, 2], 'unsorted': [7, -2, 3]}


def compositions(n, maxparts):
    """all ways to cut a sequence of length n into 1..maxparts non-empty consecutive pieces (as cut tuples)"""
    for k in range(1, maxparts + 1):
        for cuts in itertools.combinations(range(1, n), k - 1):
            yield (0,) + cuts + (n,)


def _mk(trajs, lag, form='list_of_arrays', src='rand', cls='?'):
    return {'op': 'estimate', 'trajs': trajs, 'lag': lag, 'form': form, 'src': src, 'cls': cls}


def cases(tier, rng, boost=1):
    yield _mk([[0, 1, 0, 1], [1, 0, 1]], 1, form='mixed_arrays', src='corpus', cls='zero')     # D7
    yield _mk([[5, 7], [7, 7, 7, 5]], 3, src='corpus', cls='gapped')
    yield _mk([[-1, 0, 2, 2, -1, 0]], 1, src='corpus', cls='negative')
    yield _mk([[0, 1], [2, 2, 2, 2, 2, 0, 0, 0, 0, 1, 1, 1, 1]], 3, src='corpus', cls='zero')
    # narrow dtypes whose label RANGE exceeds the dtype (offset arithmetic must not be done in the input dtype)
    yield _mk([[-128, -1, 0, 127, -1, -128, 0, 127, 127, -1]], 1, form='narrow_arrays', src='corpus', cls='narrow_wide')
    yield _mk([[-100, 100, 100, -100, -1, 100, -1, -100]], 1, form='narrow_arrays', src='corpus', cls='narrow_wide')
    yield _mk([[-20000, 3, 20000, 3, -20000, 20000, 20000, 3]], 2, form='narrow_arrays', src='corpus', cls='narrow_wide')
    # many frames in many trajectories: unsynchronised parallel counting would lose increments
    brng = core.Rng(7)
    big = [[brng.randrange(3) for _ in range(60000 if tier == 'quick' else 200000)] for _ in range(16)]
    yield _mk(big, 1, src='corpus', cls='zero')
    for trajs, form, tag in gen.special_sets(core.Rng(11)):
        yield _mk(trajs, 1, form=form, src='corpus', cls=tag)
        yield _mk(trajs, 3, form=form, src='corpus', cls=tag)
    total = {'quick': 5, 'thorough': 7, 'search': 6}[tier]
    k = 0
    names = list(ALPHAS3)
    for L in range(1, total + 1):
        for seq in itertools.product(range(3), repeat=L):
            for cuts in compositions(L, 3):
                trajs_i = [list(seq[a:b]) for a, b in zip(cuts, cuts[1:])]
                for lag in range(1, 5):
                    k += 1
                    cl = names if (tier == 'quick' or L <= 5) else [names[k % 5]]
                    for c in cl:
                        a = ALPHAS3[c]
                        yield _mk([[a[i] for i in t] for t in trajs_i], lag, src='enum', cls=c)
    nrand = {'quick': 1500, 'thorough': 20000, 'search': 6000}[tier] * boost
    for _ in range(nrand):
        n = rng.randint(2, 9)
        labs, cls = gen.alphabet(rng, n)
        if rng.random() < 0.15:
            labs = [x * rng.choice([1, 100, 1000]) for x in labs]
        ntraj = rng.randint(1, 6)
        trajs = gen.relabel(gen.random_trajs(rng, n, ntraj, 0 if rng.random() < 0.1 else 1, 60,
                                             sticky=rng.choice([0.2, 0.5, 0.8])), labs)
        if not any(trajs):
            continue
        lag = rng.choice([1, 1, 2, 3, 4, 5, 8, 12])
        if rng.random() < 0.08:
            # labels spanning more than the narrowest dtype that holds them, stored in that dtype
            lo, hi = rng.choice([(-128, 127), (-120, 110), (-32768, 32767), (-30000, 29000)])
            wl = sorted({lo, hi} | {rng.randint(lo, hi) for _ in range(n - 2)})
            trajs = [[wl[i % len(wl)] for i in t] for t in gen.random_trajs(rng, len(wl), ntraj, 1, 40)]
            if any(trajs):
                yield _mk(trajs, lag, form='narrow_arrays', src='rand', cls='narrow_wide')
            continue
        yield _mk(trajs, lag, form=rng.choice(gen.FORMS), src='rand', cls=cls)


def canon_model(T, states):
    return {'states': [int(s) for s in states],
            'T': [[core.rat_str(float(v)) for v in row] for row in np.asarray(T, dtype=np.float64)]}


def real(case):
    import msmhelper as mh
    rng = core.Rng(hash(str(case['trajs'])) & 0xffff)
    def mkarg():
        return gen.to_form(case['trajs'], case.get('form', 'list_of_arrays'), rng)

    def run():
        arg = mkarg()
        T, st = mh.msm.estimate_markov_model(arg, case['lag'])
        obj = mh.StateTraj(arg)
        T2, st2 = obj.estimate_markov_model(case['lag'])
        T = np.asarray(T)
        if T.dtype.kind != 'f' or T.ndim != 2:
            raise AssertionError('matrix is not a 2-d float array')
        if not (np.array_equal(T, np.asarray(T2)) and np.array_equal(st, st2)):
            raise AssertionError('function API and StateTraj method differ')
        # the estimate is a function of the trajectories only: what the caller does with a returned array afterwards
        # (here: overwrite both results in place) must not change the next estimate from the same object
        res = canon_model(T, st)
        try:
            np.asarray(T2)[...] = -1.0
            st2 -= 7
        except (ValueError, TypeError):
            pass
        # … nor what the caller does with the arrays an accessor handed out (index_trajs, trajs, iteration, states)
        try:
            for acc in (obj.index_trajs, obj.trajs, list(obj), [obj.states]):
                for a_ in acc:
                    if isinstance(a_, np.ndarray) and a_.size:
                        a_[...] = a_.max() if a_.flat[0] != a_.max() else a_.min()
        except (ValueError, TypeError):
            pass
        T3, st3 = obj.estimate_markov_model(case['lag'])
        if not (np.array_equal(T, np.asarray(T3)) and np.array_equal(st, st3)):
            raise AssertionError('second estimate from the same StateTraj differs after the first result / the accessor arrays were overwritten')
        return res
    out = core.call(run)
    out.pop('msg', None)
    return out


def request(case, obs):
    nstates = len({x for t in case['trajs'] for x in t})
    if nstates > 40:
        # the oracle recomputes row totals per entry (cubic); for large alphabets only the model is evaluated and
        # `holds` follows from exact agreement with it (theorem C01.holds_of_estimate: the model satisfies the oracle)
        return {'op': 'estimate', 'trajs': case['trajs'], 'lag': case['lag']}
    return {'op': 'estimate', 'trajs': case['trajs'], 'lag': case['lag'], 'obs': obs}


def agree(case, obs, reply):
    m = reply['model']
    if 'err' in m or 'err' in obs:
        return m == obs
    mo, oo = m['ok'], obs['ok']
    if mo['states'] != oo['states']:
        return False
    if len(mo['T']) != len(oo['T']):
        return False
    for r1, r2 in zip(mo['T'], oo['T']):
        if len(r1) != len(r2):
            return False
        for a, b in zip(r1, r2):
            if float(Fraction(a)) != float(Fraction(b)):
                return False
    return True


def holds(case, obs, reply):
    if 'holds' not in reply:
        return agree(case, obs, reply)
    return bool(reply['holds'])


def nontrivial(case, obs, reply):
    m = reply['model'].get('ok')
    return bool(m) and len(m['states']) >= 2 and any(any(r) for r in m['counts'])


def key(case):
    return [case['trajs'], case['lag']]


def classify(case, obs, reply):
    return '%s/%s/%s' % (case['src'], case['cls'], obs.get('err', 'ok'))


def known_match(k, case, obs, reply):
    return False


def shrink(case):
    ts = case['trajs']
    if len(ts) > 1:
        for i in range(len(ts)):
            yield dict(case, trajs=ts[:i] + ts[i + 1:])
    for i, t in enumerate(ts):
        if len(t) > 1:
            for j in range(len(t)):
                yield dict(case, trajs=ts[:i] + [t[:j] + t[j + 1:]] + ts[i + 1:])
    if case['lag'] > 1:
        yield dict(case, lag=case['lag'] - 1)
    if case.get('form') != 'list_of_arrays':
        yield dict(case, form='list_of_arrays')
