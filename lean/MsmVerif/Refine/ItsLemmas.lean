/-
Refine/ItsLemmas.lean — helper definitions and lemmas for task RP24 (property C10): the translated `_implied_timescales` and the public
`implied_timescales` of `src/msmhelper/msm/timescales.py` (`Gen/MsmIts.lean`) evaluated step by step.

* the row function: the two boolean-mask assignments (`npMaskSet` with a mask computed from the array itself is an element-wise map), the
  slice `[1:]`, the element-wise logarithm oracle and the masked division — together one element-wise function `entry`;
* the arithmetic of one entry over ℚ (sign of the real part of `-τ / (a + i b)`);
* the public function: the two argument checks, and the loop `for idx, lagtime in enumerate(lagtimes): impl_timescales[idx] = …` on the
  zero-initialised `len(lagtimes) × ntimescales` array (`np.zeros`: a negative `ntimescales` is a `ValueError`), as a `mapM` over the lag times.

The theorems with docstrings are in `Refine/Its.lean`.
-/
import MsmVerif.Gen.MsmIts
import MsmVerif.Lemmas.Misc
import Mathlib.Algebra.Order.Field.Basic
import Mathlib.Tactic.FieldSimp

namespace MsmVerif.Refine.Its
open MsmVerif MsmVerif.Gen MsmVerif.Timescales

/-! ### definitions -/

/-- **Contract of the logarithm oracle** `np.log` (element-wise on a 1-d complex array): it never raises, maps NaN to NaN, and for a
non-zero `z = x + i y` returns `a + i b` where the sign of `a` is the sign of `ln |z|` (`a < 0 ↔ |z|² < 1`, `a = 0 ↔ |z|² = 1`) and `b` (the
argument of `z`) vanishes exactly on the positive real axis.  Nothing is assumed about `log 0`. -/
structure LogContract (log : List Cx → Py (List Cx)) (L : Cx → Cx) : Prop where
  eval : ∀ zs, log zs = .ok (zs.map L)
  nan : L none = none
  val : ∀ x y : Rat, ¬ (x = 0 ∧ y = 0) → ∃ a b : Rat, L (some (x, y)) = some (a, b) ∧
    (a < 0 ↔ x * x + y * y < 1) ∧ (a = 0 ↔ x * x + y * y = 1) ∧ (b = 0 ↔ (y = 0 ∧ 0 < x))

/-- `eigenvalues[eigenvalues <= 0] = nan` for one eigenvalue (complex numbers compare lexicographically; NaN compares false and stays) -/
def maskNonPos (ev : Cx) : Cx := if cxLe ev (cxOfRat 0) then cxNan else ev

/-- `timescales[~(np.real(timescales) > 0)] = nan` for one entry -/
def keepPos (t : Cx) : Cx := if cxGt (cxReal t) (cxOfRat 0) then t else cxNan

/-- one entry of the row: what the code computes from the eigenvalue `ev` for the lag time `τ` (`L` = the logarithm) -/
def entry (τ : Int) (L : Cx → Cx) (ev : Cx) : Cx :=
  keepPos (cxDivReal ((-τ : Int) : Rat) (L (maskNonPos ev)))

/-- one row of the public function's result: estimate, `_implied_timescales`, shape check of the row assignment, real part -/
def apiRow (est : Int → Py ((List (List Rat)) × (List Int))) (log : List Cx → Py (List Cx))
    (eig : List (List Rat) → Py (List Cx × List (List Cx))) (argsort : List Cx → Py (List Int))
    (nts : Int) (τ : Int) : Py (List Cx) := do
  let m ← est τ
  let row ← Gen.MsmIts.implied_timescales log eig argsort m.1 τ nts
  if row.length = nts.toNat then pure (row.map cxReal) else throw Err.value

/-- the loop of the public function on the zero-initialised array -/
def apiLoop (est : Int → Py ((List (List Rat)) × (List Int))) (log : List Cx → Py (List Cx))
    (eig : List (List Rat) → Py (List Cx × List (List Cx))) (argsort : List Cx → Py (List Int))
    (lags : List Int) (nts : Int) : Py (List (List Cx)) :=
  forIn (pyEnumerate lags) (pyFull2 (pyLen lags) nts (cxOfRat 0)) (fun x s => do
    let t1 ← est x.2
    let t3 ← Gen.MsmIts.implied_timescales log eig argsort t1.1 x.2 nts
    let s' ← npSetRow s x.1 (t3.map cxReal)
    pure (ForInStep.yield s'))

/-- a row `g τ` accepted by the row assignment into an array of width `w` -/
def checkRow (g : Int → Py (List Cx)) (w : Nat) (τ : Int) : Py (List Cx) := do
  let row ← g τ
  if row.length = w then pure row else throw Err.value

/-! ### runtime primitives -/

theorem npMaskSet_map {α : Type} (v : List α) (p : α → Bool) (x : α) :
    npMaskSet v (v.map p) x = .ok (v.map (fun a => if p a then x else a)) := by
  unfold npMaskSet
  rw [if_pos (by simp)]
  congr 1
  induction v with
  | nil => rfl
  | cons a as ih => simp [ih]

theorem pySlice_one {α : Type} (l : List α) : pySlice l (some 1) none = l.drop 1 := by
  unfold pySlice pyBound
  simp only
  rw [if_neg (by omega)]
  cases l with
  | nil => rfl
  | cons a as =>
    have : min (Int.toNat 1) (a :: as).length = 1 := by simp
    rw [this]
    apply List.take_of_length_le
    simp

theorem normIdx_nat (n k : Nat) (h : k < n) : normIdx n (k : Int) = some k := by
  unfold normIdx
  rw [if_pos (by omega), if_pos (by omega)]
  simp

theorem pyGet_nat {α : Type} (l : List α) (k : Nat) (h : k < l.length) : pyGet l (k : Int) = .ok l[k] := by
  unfold pyGet
  rw [normIdx_nat _ _ h]
  simp [h]

theorem pySet_nat {α : Type} (l : List α) (k : Nat) (h : k < l.length) (v : α) :
    pySet l (k : Int) v = .ok (l.set k v) := by
  unfold pySet
  rw [normIdx_nat _ _ h]

theorem npSetRow_mid {α : Type} (pre post : List (List α)) (r0 row : List α) :
    npSetRow (pre ++ r0 :: post) (pre.length : Int) row =
      if r0.length = row.length then .ok ((pre ++ [row]) ++ post) else .error .value := by
  unfold npSetRow
  have hlt : pre.length < (pre ++ r0 :: post).length := by simp
  rw [pyGet_nat _ _ hlt]
  simp only [bind, Except.bind, List.getElem_append_right (Nat.le_refl _), Nat.sub_self, List.getElem_cons_zero]
  by_cases h : r0.length = row.length
  · rw [if_pos h, if_pos h, pySet_nat _ _ hlt]
    simp
  · rw [if_neg h, if_neg h]

theorem pyEnumerate_eq {α : Type} (l : List α) :
    pyEnumerate l = ((List.range' 0 l.length).map (fun k : Nat => (k : Int))).zip l := by
  unfold pyEnumerate pyRange pyLen
  congr 1
  rw [List.range_eq_range']
  simp

/-! ### the row function, unfolded -/

theorem row_unfold (log : List Cx → Py (List Cx)) (eig : List (List Rat) → Py (List Cx × List (List Cx)))
    (argsort : List Cx → Py (List Int)) (tmat : List (List Rat)) (τ nts : Int) :
    Gen.MsmIts.implied_timescales log eig argsort tmat τ nts =
      (do let evs ← Gen.MsmLinalg.left_eigenvalues_n eig argsort tmat (nts + 1)
          let t2 ← log ((evs.drop 1).map maskNonPos)
          pure ((npMaDivideFilledNan ((-τ : Int) : Rat) t2).map keepPos)) := by
  unfold Gen.MsmIts.implied_timescales
  dsimp only
  cases Gen.MsmLinalg.left_eigenvalues_n eig argsort tmat (nts + 1) with
  | error e => rfl
  | ok evs =>
    simp only [bind, Except.bind, pure, Except.pure]
    rw [npMaskSet_map]
    simp only [pySlice_one, ← List.map_drop, Int.cast_zero]
    have h1 : (List.map (fun a => if cxLe a (cxOfRat 0) = true then cxNan else a) (List.drop 1 evs))
        = (evs.drop 1).map maskNonPos := rfl
    rw [h1]
    cases h2 : log ((evs.drop 1).map maskNonPos) with
    | error e => rfl
    | ok t2 =>
      simp only [List.map_map]
      rw [npMaskSet_map]
      congr 1
      apply List.map_congr_left
      intro t _
      simp only [keepPos, Function.comp]
      by_cases hc : cxGt (cxReal t) (cxOfRat 0) = true <;> simp [hc]

/-! ### one entry -/

theorem maskNonPos_none : maskNonPos none = none := rfl

theorem maskNonPos_some (re im : Rat) :
    maskNonPos (some (re, im)) = if re < 0 ∨ (re = 0 ∧ im ≤ 0) then none else some (re, im) := by
  unfold maskNonPos cxLe cxOfRat
  simp only [decide_eq_true_eq]
  rfl

theorem keepPos_none : keepPos none = none := rfl

theorem keepPos_some (u v : Rat) : keepPos (some (u, v)) = if 0 < u then some (u, v) else none := by
  unfold keepPos cxGt cxLt cxReal cxOfRat
  simp only [Option.map_some, decide_eq_true_eq]
  have : (0 < u ∨ (0 = u ∧ (0 : Rat) < 0)) ↔ 0 < u := by
    constructor
    · rintro (h | ⟨_, h⟩)
      · exact h
      · exact absurd h (lt_irrefl _)
    · exact Or.inl
  simp only [this]
  rfl

/-- whatever it is applied to, `keepPos` yields NaN or a number with positive real part -/
theorem keepPos_none_or_pos (z : Cx) : keepPos z = none ∨ ∃ t : Rat × Rat, keepPos z = some t ∧ 0 < t.1 := by
  cases z with
  | none => exact Or.inl rfl
  | some t =>
    obtain ⟨u, v⟩ := t
    rw [keepPos_some]
    by_cases hu : 0 < u
    · rw [if_pos hu]; exact Or.inr ⟨_, rfl, hu⟩
    · rw [if_neg hu]; exact Or.inl rfl

theorem sq_add_sq_pos (a b : Rat) (h : ¬ (a = 0 ∧ b = 0)) : 0 < a * a + b * b := by
  by_cases ha : a = 0
  · have hb : b ≠ 0 := fun hb => h ⟨ha, hb⟩
    have := mul_self_pos.mpr hb
    nlinarith [mul_self_nonneg a]
  · have := mul_self_pos.mpr ha
    nlinarith [mul_self_nonneg b]

/-- the real part of `-τ / (a + i b)` is positive iff `a < 0` (for `τ ≥ 1`) -/
theorem divReal_re_pos_iff (τ : Int) (hτ : 1 ≤ τ) (a b : Rat) (h : ¬ (a = 0 ∧ b = 0)) :
    0 < ((-τ : Int) : Rat) * a / (a * a + b * b) ↔ a < 0 := by
  have hd := sq_add_sq_pos a b h
  have hτ' : (0 : Rat) < (τ : Rat) := by exact_mod_cast (by omega : 0 < τ)
  rw [div_pos_iff_of_pos_right hd]
  push_cast
  constructor
  · intro h1
    by_contra h2
    have : 0 ≤ a := not_lt.mp h2
    nlinarith
  · intro h1
    nlinarith

theorem lexPos_ne_zero (re im : Rat) (h : ¬ (re < 0 ∨ (re = 0 ∧ im ≤ 0))) : ¬ (re = 0 ∧ im = 0) := by
  rintro ⟨h1, h2⟩
  exact h (Or.inr ⟨h1, le_of_eq h2⟩)

theorem codeKind_eq (re im : Rat) :
    codeKind re im =
      if re < 0 ∨ (re = 0 ∧ im ≤ 0) then .nan else if re * re + im * im < 1 then .pos else .nan := rfl

/-- the entry of a lexicographically positive eigenvalue in terms of its logarithm `a + i b` -/
theorem entry_lexPos (τ : Int) (hτ : 1 ≤ τ) (L : Cx → Cx) (re im a b : Rat)
    (hlex : ¬ (re < 0 ∨ (re = 0 ∧ im ≤ 0))) (hL : L (some (re, im)) = some (a, b)) :
    entry τ L (some (re, im)) =
      if a < 0 then some (((-τ : Int) : Rat) * a / (a * a + b * b), -(((-τ : Int) : Rat) * b) / (a * a + b * b))
      else none := by
  unfold entry
  rw [maskNonPos_some, if_neg hlex, hL]
  unfold cxDivReal
  simp only
  by_cases h0 : a = 0 ∧ b = 0
  · rw [if_pos h0, if_neg (by rw [h0.1]; exact lt_irrefl _)]
    rfl
  · rw [if_neg h0, keepPos_some]
    by_cases ha : a < 0
    · rw [if_pos ((divReal_re_pos_iff τ hτ a b h0).mpr ha), if_pos ha]
    · rw [if_neg (fun h => ha ((divReal_re_pos_iff τ hτ a b h0).mp h)), if_neg ha]

/-- the entry of a lexicographically non-positive eigenvalue is NaN -/
theorem entry_lexNonPos (τ : Int) (L : Cx → Cx) (hL : L none = none) (re im : Rat)
    (hlex : re < 0 ∨ (re = 0 ∧ im ≤ 0)) : entry τ L (some (re, im)) = none := by
  unfold entry
  rw [maskNonPos_some, if_pos hlex, hL]
  rfl

/-! ### `mapM` in `Except` -/

theorem mapM_ok_get {α β : Type} (f : α → Py β) : ∀ (xs : List α) (ys : List β), xs.mapM f = .ok ys →
    ys.length = xs.length ∧ ∀ (i : Nat) (h1 : i < xs.length) (h2 : i < ys.length), f xs[i] = .ok ys[i] := by
  intro xs
  induction xs with
  | nil =>
    intro ys h
    cases h
    exact ⟨rfl, fun i h1 => absurd h1 (Nat.not_lt_zero _)⟩
  | cons x xs ih =>
    intro ys h
    rw [List.mapM_cons] at h
    cases hx : f x with
    | error e => simp [hx, bind, Except.bind] at h
    | ok v =>
      cases hxs : xs.mapM f with
      | error e => simp [hx, hxs, bind, Except.bind] at h
      | ok ys' =>
        simp only [hx, hxs, bind, Except.bind, pure, Except.pure] at h
        cases h
        obtain ⟨hl, hi⟩ := ih ys' hxs
        refine ⟨by simp [hl], ?_⟩
        intro i h1 h2
        cases i with
        | zero => exact hx
        | succ j => exact hi j (by simpa using h1) (by simpa using h2)

theorem mapM_of_ok {α β : Type} (f : α → Py β) (g : α → β) : ∀ (xs : List α), (∀ x ∈ xs, f x = .ok (g x)) →
    xs.mapM f = .ok (xs.map g) := by
  intro xs
  induction xs with
  | nil => intro _; rfl
  | cons x xs ih =>
    intro h
    rw [List.mapM_cons, h x List.mem_cons_self, ih (fun y hy => h y (List.mem_cons_of_mem _ hy))]
    rfl

theorem mapM_first_error {α β : Type} (f : α → Py β) (e : Err) : ∀ (pre : List α) (x0 : α) (rest : List α),
    (∀ x ∈ pre, ∃ v, f x = .ok v) → f x0 = .error e → (pre ++ x0 :: rest).mapM f = .error e := by
  intro pre
  induction pre with
  | nil =>
    intro x0 rest _ h0
    rw [List.nil_append, List.mapM_cons, h0]
    rfl
  | cons x xs ih =>
    intro x0 rest hpre h0
    obtain ⟨v, hv⟩ := hpre x List.mem_cons_self
    rw [List.cons_append, List.mapM_cons, hv, ih x0 rest (fun y hy => hpre y (List.mem_cons_of_mem _ hy)) h0]
    rfl

/-! ### the public function -/

theorem all_pos_iff (lags : List Int) :
    npAll1 (lags.map (fun x_ => decide (x_ > (0 : Int)))) = true ↔ ∀ l ∈ lags, 1 ≤ l := by
  simp only [npAll1, List.all_map, List.all_eq_true, Function.comp, id, decide_eq_true_eq]
  constructor
  · intro h l hl; have := h l hl; omega
  · intro h l hl; have := h l hl; omega

theorem api_unfold (est : Int → Py ((List (List Rat)) × (List Int))) (log : List Cx → Py (List Cx))
    (eig : List (List Rat) → Py (List Cx × List (List Cx))) (argsort : List Cx → Py (List Int))
    (nstates : Int) (lags : List Int) (nts : Int) (rev : Bool) :
    Gen.MsmIts.implied_timescales_n est log eig argsort nstates lags nts rev =
      if npAll1 (lags.map (fun x_ => decide (x_ > (0 : Int)))) = false then .error .type
      else if rev = true then .error .notImplemented
      else if nts < 0 then .error .value
      else apiLoop est log eig argsort lags nts := by
  unfold Gen.MsmIts.implied_timescales_n
  dsimp only
  cases npAll1 (lags.map (fun x_ => decide (x_ > (0 : Int)))) with
  | false => rfl
  | true =>
    cases rev with
    | true => rfl
    | false =>
      simp only [Bool.not_true, Bool.false_eq_true, if_false]
      unfold npZeros2 pyLen
      by_cases hn : nts < 0
      · rw [if_pos hn, if_pos (Or.inr hn)]
        rfl
      · rw [if_neg hn, if_neg (by omega)]
        unfold apiLoop pyLen
        rw [if_neg Bool.noConfusion]
        exact bind_pure (m := Py) _

/-- the row-assignment loop over `enumerate(xs)`, started at row `pre.length` of an array whose remaining rows are still the initial
`r0`: the rows are produced in order; a row of the wrong length is a `ValueError` -/
theorem loop_eq (g : Int → Py (List Cx)) (r0 : List Cx) :
    ∀ (xs : List Int) (pre : List (List Cx)),
      forIn (((List.range' pre.length xs.length).map (fun k : Nat => (k : Int))).zip xs)
          (pre ++ List.replicate xs.length r0)
          (fun x s => do
            let row ← g x.2
            let s' ← npSetRow s x.1 row
            pure (ForInStep.yield s'))
        = (fun rows => pre ++ rows) <$> xs.mapM (checkRow g r0.length) := by
  intro xs
  induction xs with
  | nil =>
    intro pre
    simp [pure, Except.pure, Functor.map, Except.map]
  | cons τ xs ih =>
    intro pre
    simp only [List.length_cons, List.range'_succ, List.map_cons, List.zip_cons_cons, List.forIn_cons,
      List.replicate_succ, List.mapM_cons]
    cases hg : g τ with
    | error e => simp [checkRow, hg, bind, Except.bind, Functor.map, Except.map]
    | ok row =>
      simp only [bind, Except.bind, checkRow, hg]
      rw [npSetRow_mid]
      by_cases hlen : r0.length = row.length
      · rw [if_pos hlen, if_pos hlen.symm]
        simp only [pure, Except.pure]
        have := ih (pre ++ [row])
        simp only [List.length_append, List.length_singleton] at this
        simp only [bind, Except.bind, pure, Except.pure] at this
        rw [this]
        cases xs.mapM (checkRow g r0.length) with
        | error e => rfl
        | ok rows => simp [Functor.map, Except.map]
      · rw [if_neg hlen, if_neg (fun h => hlen h.symm)]
        rfl

theorem apiLoop_eq (est : Int → Py ((List (List Rat)) × (List Int))) (log : List Cx → Py (List Cx))
    (eig : List (List Rat) → Py (List Cx × List (List Cx))) (argsort : List Cx → Py (List Int))
    (lags : List Int) (nts : Int) :
    apiLoop est log eig argsort lags nts = lags.mapM (apiRow est log eig argsort nts) := by
  unfold apiLoop
  rw [pyEnumerate_eq]
  have h0 : pyFull2 (pyLen lags) nts (cxOfRat 0)
      = [] ++ List.replicate lags.length (List.replicate nts.toNat (cxOfRat 0)) := by
    simp [pyFull2, pyLen]
  rw [h0]
  have := loop_eq (fun τ => do
      let t1 ← est τ
      let t3 ← Gen.MsmIts.implied_timescales log eig argsort t1.1 τ nts
      pure (t3.map cxReal)) (List.replicate nts.toNat (cxOfRat 0)) lags []
  simp only [List.length_nil, List.nil_append] at this ⊢
  refine Eq.trans (Eq.trans ?_ this) ?_
  · congr 1
    funext x s
    simp only [bind, Except.bind, pure, Except.pure]
    cases est x.2 with
    | error e => rfl
    | ok t1 =>
      simp only
      cases Gen.MsmIts.implied_timescales log eig argsort t1.1 x.2 nts <;> rfl
  · have hf : checkRow (fun τ => do
          let t1 ← est τ
          let t3 ← Gen.MsmIts.implied_timescales log eig argsort t1.1 τ nts
          pure (t3.map cxReal)) (List.replicate nts.toNat (cxOfRat 0)).length = apiRow est log eig argsort nts := by
      funext τ
      unfold checkRow apiRow
      simp only [bind, Except.bind, pure, Except.pure]
      cases est τ with
      | error e => rfl
      | ok t1 =>
        simp only
        cases Gen.MsmIts.implied_timescales log eig argsort t1.1 τ nts with
        | error e => rfl
        | ok row => simp
    rw [hf]
    cases lags.mapM (apiRow est log eig argsort nts) <;> rfl

end MsmVerif.Refine.Its
