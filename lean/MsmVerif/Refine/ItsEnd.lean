/-
Refine/ItsEnd.lean — task RP27 (property C10, first sentence): the public `implied_timescales` END TO END — the composition of

* the eigen-solver wrapper `linalg.left_eigenvalues` (`Refine/Eigen.lean`, task RP23): relative to the contracts of `np.linalg.eig` and
  `ndarray.argsort` on the transposed matrix (`Accepted eig argsort (npTranspose T) n w V p`) it returns `real_if_close` of the `nvals` largest
  eigenvalues in descending order;
* the row function `_implied_timescales` and the public loop (`Refine/Its.lean`, task RP24): relative to the contract of `np.log`
  (`LogContract log L`) every entry is `entry τ L ev`.

Results:
* `its_row_end_to_end` (+ `_kind`, `its_row_eigenvalues`): `_implied_timescales T τ nts` returns exactly `nts` entries, entry `k` is
  `entry τ L` of the `(k+2)`-th largest eigenvalue returned by the solver (`retEvs w p nts` at index `k + 1`; the largest — the stationary
  one — is skipped); NaN / positive real part according to `Timescales.codeKind`; each of these eigenvalues is (up to `real_if_close`) a
  left eigenvalue of `T`, they are descending and the skipped one dominates all eigenvalues;
* `its_row_slowest_first` (+ `_solver`): for real eigenvalues in `(0, 1)` and a monotone logarithm the row is real, positive and
  NON-INCREASING ("slowest first");
* `its_api_end_to_end`, `its_api_default_end_to_end`, `its_api_slowest_first`: the public function.

Helper lemmas and the definitions `retEvs`, `LogMonotone`, `RealIn01`: `Refine/ItsEndLemmas.lean` (same namespace).
-/
import MsmVerif.Refine.ItsEndLemmas

namespace MsmVerif.Refine.ItsEnd
open MsmVerif MsmVerif.Gen MsmVerif.Timescales
open MsmVerif.Refine.Its (LogContract entry)
open MsmVerif.Refine.Eigen (Accepted EigOk ArgsortOk SquareN sortedVals sortedVecs CxLeftEigenpair)

variable {log : List Cx → Py (List Cx)} {L : Cx → Cx}
  {eig : List (List Rat) → Py (List Cx × List (List Cx))} {argsort : List Cx → Py (List Int)}
  {T : List (List Rat)} {n : Nat} {w : List Cx} {V : List (List Cx)} {p : List Int}

/-! ### one row -/

/-- **One row, end to end.**  The eigen-solver and `argsort` meet their contracts on the transpose of `T` (`n × n`, `n ≥ 2`), the logarithm
    meets its contract, `0 ≤ ntimescales` and `ntimescales + 1 ≤ n`; any lag time.  Then `_implied_timescales(T, τ, ntimescales)` raises
    nothing and returns exactly `ntimescales` entries; entry `k` is `entry τ L` of the `(k+2)`-th LARGEST eigenvalue returned by the solver,
    i.e. of `real_if_close(w[argsort(w)[::-1]][:ntimescales+1])[k+1]` — the largest (stationary) eigenvalue is skipped. -/
theorem its_row_end_to_end (hlog : LogContract log L) (h : Accepted eig argsort (npTranspose T) n w V p)
    (τ nts : Int) (h0 : 0 ≤ nts) (hn : nts + 1 ≤ (n : Int)) :
    ∃ row, Gen.MsmIts.implied_timescales log eig argsort T τ nts = .ok row ∧
      row = ((retEvs w p nts).drop 1).map (entry τ L) ∧ row.length = nts.toNat ∧
      ∀ k, k < nts.toNat → row.getD k none = entry τ L ((retEvs w p nts).getD (k + 1) none) := by
  have hev : Gen.MsmLinalg.left_eigenvalues_n eig argsort T (nts + 1) = .ok (retEvs w p nts) :=
    Eigen.left_eigenvalues_n_refines h (by omega) hn
  have hlen := retEvs_length h h0 hn
  have hlen' : ((retEvs w p nts).drop 1).length = nts.toNat := by rw [List.length_drop, hlen]; omega
  refine ⟨_, Its.its_row_refines hlog eig argsort T τ nts _ hev, rfl, by rw [List.length_map, hlen'], ?_⟩
  intro k hk
  rw [Eigen.getD_map (entry τ L) _ k none none (by rw [hlen']; exact hk), getD_drop_one]

/-- **One row, end to end: which entries are NaN.**  As `its_row_end_to_end`, lag time `τ ≥ 1`.  The eigenvalue behind entry `k` is a
    number `x + i·y` (the solver returns no NaN), and according to the model's `Timescales.codeKind x y` the entry is NaN (`.nan`:
    lexicographically `≤ 0`, or not strictly inside the unit circle) or the number `-τ / L(x + i·y)` whose real part is positive (`.pos`). -/
theorem its_row_end_to_end_kind (hlog : LogContract log L) (h : Accepted eig argsort (npTranspose T) n w V p)
    (τ nts : Int) (hτ : 1 ≤ τ) (h0 : 0 ≤ nts) (hn : nts + 1 ≤ (n : Int)) :
    ∃ row, Gen.MsmIts.implied_timescales log eig argsort T τ nts = .ok row ∧ row.length = nts.toNat ∧
      ∀ k, k < nts.toNat → ∃ x y : Rat, (retEvs w p nts).getD (k + 1) none = some (x, y) ∧
        match codeKind x y with
        | .nan => row.getD k none = none
        | .pos => ∃ t : Rat × Rat, row.getD k none = some t ∧ 0 < t.1 ∧
            cxDivReal ((-τ : Int) : Rat) (L (some (x, y))) = some t
        | .posOrNan => False := by
  obtain ⟨row, hrow, _, hlen, hget⟩ := its_row_end_to_end hlog h τ nts h0 hn
  refine ⟨row, hrow, hlen, fun k hk => ?_⟩
  have hk1 : k + 1 < (retEvs w p nts).length := by rw [retEvs_length h h0 hn]; omega
  have hsome := retEvs_nanfree (nts := nts) h _ (Eigen.getD_mem (retEvs w p nts) (k + 1) none hk1)
  obtain ⟨⟨x, y⟩, hxy⟩ := Option.isSome_iff_exists.1 hsome
  refine ⟨x, y, hxy, ?_⟩
  rw [hget k hk, hxy]
  cases hkind : codeKind x y with
  | nan => exact (Its.entry_nan_iff hlog τ hτ x y).mpr hkind
  | pos =>
    obtain ⟨_, _, _, _, t, ht, hpos, hdiv, _⟩ := Its.entry_pos_value hlog τ hτ x y hkind
    exact ⟨t, ht, hpos, hdiv⟩
  | posOrNan => exact Misc.codeKind_ne_posOrNan x y hkind

/-- **The eigenvalues behind the row.**  `T` is `n × n`, contracts as above.  The `ntimescales + 1` values `retEvs w p nts` the row is
    computed from are descending in numpy's lexicographic order; value `k` is — up to `real_if_close`, which replaces it by its real part
    only if its imaginary part is below the tolerance — the `(k+1)`-th largest eigenvalue `λ` in the solver's answer `w`, and `λ` is a LEFT
    eigenvalue of `T` (`v T = λ v` for a non-zero `v`); the first one (skipped by the row) dominates every eigenvalue in `w`. -/
theorem its_row_eigenvalues (hT : SquareN T n) (h : Accepted eig argsort (npTranspose T) n w V p)
    (nts : Int) (h0 : 0 ≤ nts) (hn : nts + 1 ≤ (n : Int)) :
    (retEvs w p nts).length = nts.toNat + 1 ∧
    (retEvs w p nts).Pairwise (fun a b => cxGe a b = true) ∧
    (∀ z ∈ w, cxGe ((sortedVals w p).getD 0 none) z = true) ∧
    ∀ k, k < nts.toNat + 1 → ∃ lam v, lam = (sortedVals w p).getD k none ∧ lam ∈ w ∧ CxLeftEigenpair T lam v ∧
      ((retEvs w p nts).getD k none = lam ∨ (cxImagSmall lam = true ∧ (retEvs w p nts).getD k none = cxReal lam)) := by
  have hw : w.length = n := h.eigOk.1.trans h.sq.1
  refine ⟨retEvs_length h h0 hn, retEvs_descending h, Eigen.sortedVals_head_max h.sortOk (Eigen.eigOk_nanfree h.eigOk), ?_⟩
  intro k hk
  have hkn : k < (npTranspose T).length := by rw [h.sq.1]; omega
  have hkt : k < (nts + 1).toNat := by omega
  have hl0 : k < (sortedVals w p).length := by rw [Eigen.sortedVals_length h.sortOk, hw]; omega
  have hl1 : k < ((sortedVals w p).take (nts + 1).toNat).length := by rw [List.length_take]; omega
  refine ⟨_, (sortedVecs V p).getD k [], rfl, (Eigen.sortedVals_perm h.sortOk).mem_iff.1 (Eigen.getD_mem _ k none hl0),
    (Eigen.cx_right_transpose_iff hT (by have := h.two; omega) _ _).1 (Eigen.sorted_eigenpair h.eigOk h.sortOk hkn), ?_⟩
  unfold retEvs
  rcases Eigen.npRealIfClose1_cases ((sortedVals w p).take (nts + 1).toNat) with h' | ⟨hs, h'⟩ <;> rw [h']
  · left; exact Eigen.getD_take _ _ _ _ hkt
  · right
    rw [Eigen.getD_map cxReal _ k none none hl1, Eigen.getD_take _ _ _ _ hkt]
    exact ⟨by have := hs _ (Eigen.getD_mem _ k none hl1); rwa [Eigen.getD_take _ _ _ _ hkt] at this, rfl⟩

/-- **"Slowest first" for real spectra.**  Contracts as above, lag time `τ ≥ 1`, and the logarithm stand-in is monotone on the positive real
    axis.  If the returned eigenvalues behind the row (all but the first) are real numbers of `(0, 1)`, the row consists of real numbers
    `t_0, t_1, …` (imaginary part exactly `0`), all positive, in NON-INCREASING order: `t_i ≥ t_j` for `i < j`. -/
theorem its_row_slowest_first (hlog : LogContract log L) (hmono : LogMonotone L)
    (h : Accepted eig argsort (npTranspose T) n w V p)
    (τ nts : Int) (hτ : 1 ≤ τ) (h0 : 0 ≤ nts) (hn : nts + 1 ≤ (n : Int))
    (hreal : ∀ z ∈ (retEvs w p nts).drop 1, RealIn01 z) :
    ∃ ts : List Rat, Gen.MsmIts.implied_timescales log eig argsort T τ nts = .ok (ts.map (fun t => some (t, 0))) ∧
      ts.length = nts.toNat ∧ (∀ t ∈ ts, 0 < t) ∧ ts.Pairwise (fun s t => t ≤ s) := by
  obtain ⟨row, hrow, hval, hlen, _⟩ := its_row_end_to_end hlog h τ nts h0 hn
  obtain ⟨ts, hts, htl, hpos, hpw⟩ := row_slowest_first hlog hmono τ hτ ((retEvs w p nts).drop 1) hreal
    ((retEvs_descending h).sublist (List.drop_sublist _ _))
  refine ⟨ts, by rw [hrow, hval, hts], ?_, hpos, hpw⟩
  rw [htl, List.length_drop, retEvs_length h h0 hn]
  omega

/-- the same with the hypothesis on the solver's own answer: the 2nd … `(ntimescales+1)`-th largest eigenvalues in `w` are real numbers of `(0, 1)` -/
theorem its_row_slowest_first_solver (hlog : LogContract log L) (hmono : LogMonotone L)
    (h : Accepted eig argsort (npTranspose T) n w V p)
    (τ nts : Int) (hτ : 1 ≤ τ) (h0 : 0 ≤ nts) (hn : nts + 1 ≤ (n : Int))
    (hreal : ∀ z ∈ ((sortedVals w p).take (nts + 1).toNat).drop 1, RealIn01 z) :
    ∃ ts : List Rat, Gen.MsmIts.implied_timescales log eig argsort T τ nts = .ok (ts.map (fun t => some (t, 0))) ∧
      ts.length = nts.toNat ∧ (∀ t ∈ ts, 0 < t) ∧ ts.Pairwise (fun s t => t ≤ s) :=
  its_row_slowest_first hlog hmono h τ nts hτ h0 hn (retEvs_drop_real01 hreal)

/-! ### the public function -/

/-- **The public function, end to end.**  All lag times `≥ 1`, `reversible = False`, `0 ≤ ntimescales`; for every listed lag time `τ` the
    estimator answers a matrix `T τ` (`n τ × n τ`, `ntimescales + 1 ≤ n τ`) on whose transpose the eigen-solver and `argsort` meet their
    contracts; the logarithm meets its contract.  Then `implied_timescales` raises nothing; the result has one row per lag time in the
    order of the argument, each with `ntimescales` entries; row `i` is the real part of the row `_implied_timescales(T lags[i], lags[i],
    ntimescales)`, and its entry `k` is the real part of `entry lags[i] L` of the `(k+2)`-th largest eigenvalue returned for `lags[i]`. -/
theorem its_api_end_to_end (est : Int → Py ((List (List Rat)) × (List Int))) (hlog : LogContract log L)
    (nstates : Int) (lags : List Int) (nts : Int)
    (T : Int → List (List Rat)) (n : Int → Nat) (w : Int → List Cx) (V : Int → List (List Cx)) (p : Int → List Int)
    (hpos : ∀ l ∈ lags, 1 ≤ l) (h0 : 0 ≤ nts)
    (hest : ∀ τ ∈ lags, ∃ sts, est τ = .ok (T τ, sts))
    (hacc : ∀ τ ∈ lags, Accepted eig argsort (npTranspose (T τ)) (n τ) (w τ) (V τ) (p τ))
    (hn : ∀ τ ∈ lags, nts + 1 ≤ (n τ : Int)) :
    ∃ res, Gen.MsmIts.implied_timescales_n est log eig argsort nstates lags nts false = .ok res ∧
      res = lags.map (fun τ => ((retEvs (w τ) (p τ) nts).drop 1).map (fun ev => cxReal (entry τ L ev))) ∧
      res.length = lags.length ∧
      ∀ (i : Nat) (hi : i < lags.length),
        (∃ row, Gen.MsmIts.implied_timescales log eig argsort (T lags[i]) lags[i] nts = .ok row ∧ res.getD i [] = row.map cxReal) ∧
        (res.getD i []).length = nts.toNat ∧
        ∀ k, k < nts.toNat →
          (res.getD i []).getD k none = cxReal (entry lags[i] L ((retEvs (w lags[i]) (p lags[i]) nts).getD (k + 1) none)) := by
  have hval := Its.its_api_value est hlog eig argsort nstates lags nts T (fun τ => retEvs (w τ) (p τ) nts) hpos h0 hest
    (fun τ hτ => Eigen.left_eigenvalues_n_refines (hacc τ hτ) (by omega) (hn τ hτ))
    (fun τ hτ => retEvs_length (hacc τ hτ) h0 (hn τ hτ))
  refine ⟨_, hval, rfl, by simp, ?_⟩
  intro i hi
  have hmem : lags[i] ∈ lags := List.getElem_mem hi
  obtain ⟨row, hrow, hrv, hrl, hrg⟩ := its_row_end_to_end hlog (hacc _ hmem) lags[i] nts h0 (hn _ hmem)
  have hgi : (lags.map (fun τ => ((retEvs (w τ) (p τ) nts).drop 1).map (fun ev => cxReal (entry τ L ev)))).getD i []
      = row.map cxReal := by
    have hg : lags.getD i 0 = lags[i] := by simp [List.getD_eq_getElem?_getD, List.getElem?_eq_getElem hi]
    rw [Eigen.getD_map _ lags i 0 [] hi, hg, hrv, List.map_map]
    rfl
  rw [hgi]
  refine ⟨⟨row, hrow, rfl⟩, by rw [List.length_map, hrl], ?_⟩
  intro k hk
  rw [Eigen.getD_map cxReal row k none none (by rw [hrl]; exact hk), hrg k hk]

/-- **The default `ntimescales = nstates − 1`, end to end.**  `ntimescales=None`, `nstates = n ≥ 2`, every estimated matrix is `n × n`
    (contracts as above): each row holds one entry for EVERY eigenvalue the solver returned except the largest (stationary) one —
    `n − 1` entries, computed from `real_if_close` of all `n` eigenvalues in descending order. -/
theorem its_api_default_end_to_end (est : Int → Py ((List (List Rat)) × (List Int))) (hlog : LogContract log L)
    (lags : List Int) (n : Nat) (hn1 : 1 ≤ n)
    (T : Int → List (List Rat)) (w : Int → List Cx) (V : Int → List (List Cx)) (p : Int → List Int)
    (hpos : ∀ l ∈ lags, 1 ≤ l)
    (hest : ∀ τ ∈ lags, ∃ sts, est τ = .ok (T τ, sts))
    (hacc : ∀ τ ∈ lags, Accepted eig argsort (npTranspose (T τ)) n (w τ) (V τ) (p τ)) :
    ∃ res, Gen.MsmIts.implied_timescales_default est log eig argsort (n : Int) lags false = .ok res ∧
      res = lags.map (fun τ => ((npRealIfClose1 (sortedVals (w τ) (p τ))).drop 1).map (fun ev => cxReal (entry τ L ev))) ∧
      res.length = lags.length ∧ ∀ r ∈ res, r.length = n - 1 := by
  rw [Its.its_api_default_eq]
  obtain ⟨res, hres, hv, hl, _⟩ := its_api_end_to_end est hlog (n : Int) lags ((n : Int) - 1) T (fun _ => n) w V p hpos
    (by omega) hest hacc (fun _ _ => by omega)
  have hv' : res = lags.map
      (fun τ => ((npRealIfClose1 (sortedVals (w τ) (p τ))).drop 1).map (fun ev => cxReal (entry τ L ev))) := by
    rw [hv]
    apply List.map_congr_left
    intro τ hτ
    rw [retEvs_all (hacc τ hτ)]
  refine ⟨res, hres, hv', hl, ?_⟩
  intro r hr
  rw [hv'] at hr
  obtain ⟨τ, hτ, rfl⟩ := List.mem_map.1 hr
  have hw : (w τ).length = n := (hacc τ hτ).eigOk.1.trans (hacc τ hτ).sq.1
  rw [List.length_map, List.length_drop, Eigen.npRealIfClose1_length, Eigen.sortedVals_length (hacc τ hτ).sortOk, hw]

/-- **"Slowest first" for the public function.**  Hypotheses of `its_api_end_to_end`, the logarithm stand-in is monotone on the positive
    real axis, and for every listed lag time the returned eigenvalues but the first are real numbers of `(0, 1)`: every row of the result
    consists of `ntimescales` positive real numbers in NON-INCREASING order. -/
theorem its_api_slowest_first (est : Int → Py ((List (List Rat)) × (List Int))) (hlog : LogContract log L) (hmono : LogMonotone L)
    (nstates : Int) (lags : List Int) (nts : Int)
    (T : Int → List (List Rat)) (n : Int → Nat) (w : Int → List Cx) (V : Int → List (List Cx)) (p : Int → List Int)
    (hpos : ∀ l ∈ lags, 1 ≤ l) (h0 : 0 ≤ nts)
    (hest : ∀ τ ∈ lags, ∃ sts, est τ = .ok (T τ, sts))
    (hacc : ∀ τ ∈ lags, Accepted eig argsort (npTranspose (T τ)) (n τ) (w τ) (V τ) (p τ))
    (hn : ∀ τ ∈ lags, nts + 1 ≤ (n τ : Int))
    (hreal : ∀ τ ∈ lags, ∀ z ∈ (retEvs (w τ) (p τ) nts).drop 1, RealIn01 z) :
    ∃ res, Gen.MsmIts.implied_timescales_n est log eig argsort nstates lags nts false = .ok res ∧ res.length = lags.length ∧
      ∀ r ∈ res, ∃ ts : List Rat, r = ts.map (fun t => some (t, 0)) ∧ ts.length = nts.toNat ∧ (∀ t ∈ ts, 0 < t) ∧
        ts.Pairwise (fun s t => t ≤ s) := by
  obtain ⟨res, hres, hv, hl, _⟩ := its_api_end_to_end est hlog nstates lags nts T n w V p hpos h0 hest hacc hn
  refine ⟨res, hres, hl, ?_⟩
  intro r hr
  rw [hv] at hr
  obtain ⟨τ, hτ, rfl⟩ := List.mem_map.1 hr
  obtain ⟨ts, hts, htl, htpos, hpw⟩ := row_slowest_first hlog hmono τ (hpos τ hτ) ((retEvs (w τ) (p τ) nts).drop 1) (hreal τ hτ)
    ((retEvs_descending (hacc τ hτ)).sublist (List.drop_sublist _ _))
  refine ⟨ts, ?_, ?_, htpos, hpw⟩
  · have : ((retEvs (w τ) (p τ) nts).drop 1).map (fun ev => cxReal (entry τ L ev))
        = (((retEvs (w τ) (p τ) nts).drop 1).map (entry τ L)).map cxReal := by rw [List.map_map]; rfl
    rw [this, hts, List.map_map]
    rfl
  · rw [htl, List.length_drop, retEvs_length (hacc τ hτ) h0 (hn τ hτ)]
    omega

/-! ### non-vacuity: concrete oracles -/

/-- a stand-in for the complex logarithm that meets the contract AND is monotone on the positive real axis: `(|z|² − 1) + i·[z not on the
    positive real axis]` -/
def exL : Cx → Cx
  | none => none
  | some (x, y) => some (x * x + y * y - 1, if y = 0 ∧ 0 < x then 0 else 1)

def exLog : List Cx → Py (List Cx) := fun zs => .ok (zs.map exL)

theorem exLog_contract : LogContract exLog exL where
  eval := fun _ => rfl
  nan := rfl
  val := by
    intro x y _
    refine ⟨_, _, rfl, ⟨fun h => by linarith, fun h => by linarith⟩, ⟨fun h => by linarith, fun h => by linarith⟩, ?_⟩
    by_cases h5 : y = 0 ∧ 0 < x
    · rw [if_pos h5]; exact ⟨fun _ => h5, fun _ => rfl⟩
    · rw [if_neg h5]; exact ⟨fun h => absurd h one_ne_zero, fun h => absurd h h5⟩

theorem exL_monotone : LogMonotone exL := by
  intro x y a b a' b' hx hxy h1 h2
  simp only [exL, Option.some.injEq, Prod.mk.injEq] at h1 h2
  rw [← h1.1, ← h2.1]
  nlinarith

/-- a 3-state transition matrix with the eigenvalues `1, ½, ¼` … -/
def exT : List (List Rat) := [[1/2, 1/2, 0], [0, 1/4, 3/4], [0, 0, 1]]
/-- … and its square (the same chain at twice the lag time): eigenvalues `1, ¼, 1/16` -/
def exT2 : List (List Rat) := [[1/4, 3/8, 3/8], [0, 1/16, 15/16], [0, 0, 1]]
/-- the 2-state matrix of the task: eigenvalues `1, ¼` -/
def exA : List (List Rat) := [[3/4, 1/4], [1/2, 1/2]]

/-- the left eigenvectors of `exT` and of `exT2` (as COLUMNS): `(1, 2, -3)`, `(0, 1, -1)`, `(0, 0, 1)` -/
def exV : List (List Cx) := [[Eigen.re 1, Eigen.re 0, Eigen.re 0], [Eigen.re 2, Eigen.re 1, Eigen.re 0], [Eigen.re (-3), Eigen.re (-1), Eigen.re 1]]

/-- `np.linalg.eig` on the transposes: correct answers, eigenvalues in an arbitrary (unsorted) order as LAPACK might return them -/
def exEig : List (List Rat) → Py (List Cx × List (List Cx)) := Eigen.tblOracle [
  (npTranspose exT, ([Eigen.re (1/2), Eigen.re (1/4), Eigen.re 1], exV)),
  (npTranspose exT2, ([Eigen.re (1/4), Eigen.re (1/16), Eigen.re 1], exV)),
  (npTranspose exA, ([Eigen.re (1/4), Eigen.re 1], [[Eigen.re 1, Eigen.re 2], [Eigen.re (-1), Eigen.re 1]]))]

/-- `argsort`: the insertion sort of `Refine/Its.lean` -/
def exArgsort : List Cx → Py (List Int) := Its.exArgsort

/-- the estimator: lag time 1 gives `exT`, lag time 2 its square, lag time 7 the 2-state matrix -/
def exEst : Int → Py (List (List Rat) × List Int) := fun τ =>
  if τ = 1 then .ok (exT, [0, 1, 2]) else if τ = 2 then .ok (exT2, [0, 1, 2]) else if τ = 7 then .ok (exA, [0, 1]) else .error .lagtime

theorem accepted_exT : Accepted exEig exArgsort (npTranspose exT) 3 [Eigen.re (1/2), Eigen.re (1/4), Eigen.re 1] exV [1, 0, 2] :=
  ⟨by decide +kernel, by decide, by decide +kernel, by decide +kernel, by decide +kernel, by decide +kernel⟩

theorem accepted_exT2 : Accepted exEig exArgsort (npTranspose exT2) 3 [Eigen.re (1/4), Eigen.re (1/16), Eigen.re 1] exV [1, 0, 2] :=
  ⟨by decide +kernel, by decide, by decide +kernel, by decide +kernel, by decide +kernel, by decide +kernel⟩

theorem accepted_exA : Accepted exEig exArgsort (npTranspose exA) 2 [Eigen.re (1/4), Eigen.re 1]
    [[Eigen.re 1, Eigen.re 2], [Eigen.re (-1), Eigen.re 1]] [0, 1] :=
  ⟨by decide +kernel, by decide, by decide +kernel, by decide +kernel, by decide +kernel, by decide +kernel⟩

/-- the returned eigenvalues: descending, the stationary one first -/
example : retEvs [Eigen.re (1/2), Eigen.re (1/4), Eigen.re 1] [1, 0, 2] 2 = [some (1, 0), some (1/2, 0), some (1/4, 0)] := by decide +kernel
example : retEvs [Eigen.re (1/2), Eigen.re (1/4), Eigen.re 1] [1, 0, 2] 1 = [some (1, 0), some (1/2, 0)] := by decide +kernel

/-- `its_row_end_to_end` applies to the matrix of the task `[[3/4,1/4],[1/2,1/2]]` (`ntimescales = 1`, lag time 3) … -/
example : ∃ row, Gen.MsmIts.implied_timescales exLog exEig exArgsort exA 3 1 = .ok row ∧
    row = ((retEvs [Eigen.re (1/4), Eigen.re 1] [0, 1] 1).drop 1).map (entry 3 exL) ∧ row.length = (1 : Int).toNat ∧
    ∀ k, k < (1 : Int).toNat → row.getD k none = entry 3 exL ((retEvs [Eigen.re (1/4), Eigen.re 1] [0, 1] 1).getD (k + 1) none) :=
  its_row_end_to_end exLog_contract accepted_exA 3 1 (by decide) (by decide)
/-- … the row is `-3 / L(¼) = 3 / (15/16) = 16/5` -/
example : Gen.MsmIts.implied_timescales exLog exEig exArgsort exA 3 1 = .ok [some (16/5, 0)] := by decide +kernel

/-- the 3-state matrix, `ntimescales = 2`, lag time 3: hypotheses of `its_row_end_to_end_kind`, `its_row_eigenvalues`, `its_row_slowest_first` hold -/
example : ∃ row, Gen.MsmIts.implied_timescales exLog exEig exArgsort exT 3 2 = .ok row ∧ row.length = (2 : Int).toNat ∧
    ∀ k, k < (2 : Int).toNat → ∃ x y : Rat,
      (retEvs [Eigen.re (1/2), Eigen.re (1/4), Eigen.re 1] [1, 0, 2] 2).getD (k + 1) none = some (x, y) ∧
      match codeKind x y with
      | .nan => row.getD k none = none
      | .pos => ∃ t : Rat × Rat, row.getD k none = some t ∧ 0 < t.1 ∧ cxDivReal ((-3 : Int) : Rat) (exL (some (x, y))) = some t
      | .posOrNan => False :=
  its_row_end_to_end_kind exLog_contract accepted_exT 3 2 (by decide) (by decide) (by decide)
example : SquareN exT 3 := by decide +kernel
example : ∀ z ∈ (retEvs [Eigen.re (1/2), Eigen.re (1/4), Eigen.re 1] [1, 0, 2] 2).drop 1, RealIn01 z := by
  have h : (retEvs [Eigen.re (1/2), Eigen.re (1/4), Eigen.re 1] [1, 0, 2] 2).drop 1 = [some (1/2, 0), some (1/4, 0)] := by decide +kernel
  rw [h]
  intro z hz
  simp only [List.mem_cons, List.not_mem_nil, or_false] at hz
  rcases hz with rfl | rfl
  · exact ⟨1/2, rfl, by norm_num, by norm_num⟩
  · exact ⟨1/4, rfl, by norm_num, by norm_num⟩
/-- the row: `3 / (3/4) = 4 ≥ 3 / (15/16) = 16/5` — slowest first -/
example : Gen.MsmIts.implied_timescales exLog exEig exArgsort exT 3 2 = .ok [some (4, 0), some (16/5, 0)] := by decide +kernel
/-- `ntimescales = 0`: an empty row -/
example : Gen.MsmIts.implied_timescales exLog exEig exArgsort exT 3 0 = .ok [] := by decide +kernel

/-- the public function on lag times `[2, 1]` with `ntimescales = 2` (hypotheses of `its_api_end_to_end` hold) … -/
example : ∃ res, Gen.MsmIts.implied_timescales_n exEst exLog exEig exArgsort 3 [2, 1] 2 false = .ok res ∧ res.length = 2 ∧
    ∀ r ∈ res, ∃ ts : List Rat, r = ts.map (fun t => some (t, 0)) ∧ ts.length = (2 : Int).toNat ∧ (∀ t ∈ ts, 0 < t) ∧
      ts.Pairwise (fun s t => t ≤ s) :=
  its_api_slowest_first exEst exLog_contract exL_monotone 3 [2, 1] 2
    (fun τ => if τ = 1 then exT else exT2) (fun _ => 3)
    (fun τ => if τ = 1 then [Eigen.re (1/2), Eigen.re (1/4), Eigen.re 1] else [Eigen.re (1/4), Eigen.re (1/16), Eigen.re 1])
    (fun _ => exV) (fun _ => [1, 0, 2]) (by decide) (by decide)
    (by intro τ hτ
        simp only [List.mem_cons, List.not_mem_nil, or_false] at hτ
        rcases hτ with rfl | rfl
        · exact ⟨[0, 1, 2], by decide +kernel⟩
        · exact ⟨[0, 1, 2], by decide +kernel⟩)
    (by intro τ hτ
        simp only [List.mem_cons, List.not_mem_nil, or_false] at hτ
        rcases hτ with rfl | rfl
        · exact accepted_exT2
        · exact accepted_exT)
    (by intro τ hτ; decide)
    (by intro τ hτ
        simp only [List.mem_cons, List.not_mem_nil, or_false] at hτ
        rcases hτ with rfl | rfl
        · have h : (retEvs [Eigen.re (1/4), Eigen.re (1/16), Eigen.re 1] [1, 0, 2] 2).drop 1 = [some (1/4, 0), some (1/16, 0)] := by
            decide +kernel
          simp only [show ((2 : Int) = 1) = False from by decide, if_false]
          rw [h]
          intro z hz
          simp only [List.mem_cons, List.not_mem_nil, or_false] at hz
          rcases hz with rfl | rfl
          · exact ⟨1/4, rfl, by norm_num, by norm_num⟩
          · exact ⟨1/16, rfl, by norm_num, by norm_num⟩
        · have h : (retEvs [Eigen.re (1/2), Eigen.re (1/4), Eigen.re 1] [1, 0, 2] 2).drop 1 = [some (1/2, 0), some (1/4, 0)] := by
            decide +kernel
          simp only [if_true]
          rw [h]
          intro z hz
          simp only [List.mem_cons, List.not_mem_nil, or_false] at hz
          rcases hz with rfl | rfl
          · exact ⟨1/2, rfl, by norm_num, by norm_num⟩
          · exact ⟨1/4, rfl, by norm_num, by norm_num⟩)
/-- … its value: one row per lag time in the order of the argument, each non-increasing -/
example : Gen.MsmIts.implied_timescales_n exEst exLog exEig exArgsort 3 [2, 1] 2 false
    = .ok [[some (32/15, 0), some (512/255, 0)], [some (4/3, 0), some (16/15, 0)]] := by decide +kernel
/-- the default `ntimescales = nstates − 1 = 2` -/
example : Gen.MsmIts.implied_timescales_default exEst exLog exEig exArgsort 3 [2, 1] false
    = .ok [[some (32/15, 0), some (512/255, 0)], [some (4/3, 0), some (16/15, 0)]] := by decide +kernel
/-- … and the 2-state matrix of the task with the default: `7 / (15/16) = 112/15` -/
example : Gen.MsmIts.implied_timescales_default exEst exLog exEig exArgsort 2 [7] false = .ok [[some (112/15, 0)]] := by decide +kernel
/-- the hypotheses of `its_api_default_end_to_end` hold for these oracles (`nstates = n = 2`, lag times `[7, 7]`) -/
example : ∃ res, Gen.MsmIts.implied_timescales_default exEst exLog exEig exArgsort ((2 : Nat) : Int) [7, 7] false = .ok res ∧
    res = [7, 7].map (fun τ => ((npRealIfClose1 (sortedVals [Eigen.re (1/4), Eigen.re 1] [0, 1])).drop 1).map
      (fun ev => cxReal (entry τ exL ev))) ∧
    res.length = 2 ∧ ∀ r ∈ res, r.length = 2 - 1 :=
  its_api_default_end_to_end exEst exLog_contract [7, 7] 2 (by decide) (fun _ => exA) (fun _ => [Eigen.re (1/4), Eigen.re 1])
    (fun _ => [[Eigen.re 1, Eigen.re 2], [Eigen.re (-1), Eigen.re 1]]) (fun _ => [0, 1]) (by decide)
    (by intro τ hτ
        simp only [List.mem_cons, List.not_mem_nil, or_false, or_self] at hτ
        subst hτ
        exact ⟨[0, 1], by decide +kernel⟩)
    (fun _ _ => accepted_exA)
/-- `its_row_eigenvalues` applies: `exT` is `3 × 3` -/
example := its_row_eigenvalues (T := exT) (by decide +kernel) accepted_exT 2 (by decide) (by decide)
/-- the monotonicity hypothesis of `its_row_slowest_first` cannot be dropped: the stand-in `Its.exL` meets `LogContract` (`Its.exLog_contract`)
    but is not monotone (`L ½ = -1 < L (3/10) = -91/100`), and the larger eigenvalue `½` gets the SMALLER entry -/
example : LogContract Its.exLog Its.exL ∧ cxGe (some (1/2, 0)) (some (3/10, 0)) = true ∧
    entry 1 Its.exL (some (1/2, 0)) = some (1, 0) ∧ entry 1 Its.exL (some (3/10, 0)) = some (100/91, 0) :=
  ⟨Its.exLog_contract, by decide +kernel, by decide +kernel, by decide +kernel⟩

end MsmVerif.Refine.ItsEnd
