/-
Refine/CompareLemmas.lean — helper lemmas for `Refine/Compare.lean` (task RP5): runtime primitives of `Gen/PyRt.lean`
on in-range arguments, the loop bodies of the translated kernels of `Gen/MdComparison.lean` as named functions
(tied to the generated text by `rfl`), and the loop lemmas from an arbitrary cursor position.
-/
import MsmVerif.Gen.MdComparison
import MsmVerif.Model.Compare
open MsmVerif MsmVerif.Gen

namespace MsmVerif.Refine.Compare

/-! ### runtime primitives -/

theorem pyGet_nat {α : Type} (l : List α) (k : Nat) (h : k < l.length) :
    pyGet l (k : Int) = .ok l[k] := by
  unfold pyGet normIdx
  have h1 : (0 : Int) ≤ (k : Int) := Int.natCast_nonneg k
  have h2 : (k : Int) < (l.length : Int) := by omega
  simp only [h1, h2, if_true, Int.toNat_natCast, List.getElem?_eq_getElem h]

theorem pyGet_of_nonneg {α : Type} (l : List α) (i : Int) (h0 : 0 ≤ i) (h : i.toNat < l.length) :
    pyGet l i = .ok l[i.toNat] := by
  have := pyGet_nat l i.toNat h
  rwa [Int.toNat_of_nonneg h0] at this

theorem pyGet_append {α : Type} (p s : List α) (x : α) :
    pyGet (p ++ x :: s) (p.length : Int) = .ok x := by
  rw [pyGet_nat _ _ (by simp)]
  simp

theorem pySet_nat {α : Type} (l : List α) (k : Nat) (v : α) (h : k < l.length) :
    pySet l (k : Int) v = .ok (l.set k v) := by
  unfold pySet normIdx
  have h1 : (0 : Int) ≤ (k : Int) := Int.natCast_nonneg k
  have h2 : (k : Int) < (l.length : Int) := by omega
  simp only [h1, h2, if_true, Int.toNat_natCast]

theorem pyRange_cons (a b : Int) (h : a < b) : pyRange a b = a :: pyRange (a + 1) b := by
  unfold pyRange
  have : (b - a).toNat = (b - (a + 1)).toNat + 1 := by omega
  rw [this, List.range_succ_eq_map]
  simp only [List.map_cons, List.map_map]
  congr 1
  · simp
  · apply List.map_congr_left
    intro k _
    simp only [Function.comp_apply, Int.natCast_succ]
    omega

theorem pyRange_self (a : Int) : pyRange a a = [] := by
  simp [pyRange]

/-! ### `_intersect` -/

/-- body of the translated `while` loop of `_intersect` -/
def intersectBody (ar1 ar2 : List Int) (_x : Nat) (s : Int × Int × Int) : Py (ForInStep (Int × Int × Int)) :=
  let idx1 := s.1
  let idx2 := s.2.1
  let count := s.2.2
  if (!((decide (idx1 < pyLen ar1)) && (decide (idx2 < pyLen ar2)))) then
    pure (ForInStep.done (idx1, idx2, count))
  else do
    let t1 ← pyGet ar1 idx1
    let t2 ← pyGet ar2 idx2
    if (t1 == t2) then
      pure (ForInStep.yield (idx1 + 1, idx2 + 1, count + 1))
    else do
      let t3 ← pyGet ar1 idx1
      let t4 ← pyGet ar2 idx2
      if (decide (t3 > t4)) then
        pure (ForInStep.yield (idx1, idx2 + 1, count))
      else
        pure (ForInStep.yield (idx1 + 1, idx2, count))

theorem intersect_unfold (fuel : Nat) (a b : List Int) :
    Gen.MdComparison.intersect fuel a b =
      (do
        let s ← forIn (List.range fuel) ((0 : Int), (0 : Int), (0 : Int)) (intersectBody a b)
        if ((decide (s.1 < pyLen a)) && (decide (s.2.1 < pyLen b))) then throw pyFuel else pure s.2.2) := rfl


theorem intersectBody_done (a b : List Int) (x : Nat) (i j c : Int)
    (h : ¬ (i < (a.length : Int) ∧ j < (b.length : Int))) :
    intersectBody a b x (i, j, c) = .ok (ForInStep.done (i, j, c)) := by
  unfold intersectBody pyLen
  have : (!(decide (i < (a.length : Int)) && decide (j < (b.length : Int)))) = true := by
    simp only [Bool.not_eq_true', Bool.and_eq_false_iff, decide_eq_false_iff_not]
    omega
  simp only [this, if_true]
  rfl

theorem intersectBody_step (pa sa pb sb : List Int) (x y : Int) (k : Nat) (c : Int) :
    intersectBody (pa ++ x :: sa) (pb ++ y :: sb) k ((pa.length : Int), (pb.length : Int), c) =
      .ok (ForInStep.yield
        (if x = y then ((pa.length : Int) + 1, (pb.length : Int) + 1, c + 1)
         else if x > y then ((pa.length : Int), (pb.length : Int) + 1, c)
         else ((pa.length : Int) + 1, (pb.length : Int), c))) := by
  unfold intersectBody pyLen
  have : (!(decide ((pa.length : Int) < ((pa ++ x :: sa).length : Int)) &&
      decide ((pb.length : Int) < ((pb ++ y :: sb).length : Int)))) = false := by
    simp only [List.length_append, List.length_cons, Bool.not_eq_false', Bool.and_eq_true, decide_eq_true_eq]
    omega
  simp only [this, pyGet_append, Bool.false_eq_true, if_false]
  by_cases hxy : x = y
  · subst hxy
    simp [bind, Except.bind, pure, Except.pure]
  · by_cases hgt : x > y
    · simp [bind, Except.bind, pure, Except.pure, hxy, hgt]
    · simp [bind, Except.bind, pure, Except.pure, hxy, hgt]

/-- the loop from an arbitrary cursor position; `xs` is the remaining fuel -/
theorem intersect_loop (sa sb : List Int) : ∀ (pa pb : List Int) (c : Int) (xs : List Nat),
    sa.length + sb.length ≤ xs.length →
    ∃ i' j' : Int,
      forIn xs ((pa.length : Int), (pb.length : Int), c) (intersectBody (pa ++ sa) (pb ++ sb))
        = .ok (i', j', c + (Events.intersect sa sb : Nat)) ∧
      ¬ (i' < ((pa ++ sa).length : Int) ∧ j' < ((pb ++ sb).length : Int)) := by
  fun_induction Events.intersect sa sb with
  | case1 sb =>
    intro pa pb c xs _
    refine ⟨pa.length, pb.length, ?_, by simp⟩
    cases xs with
    | nil => simp [pure, Except.pure]
    | cons x xs =>
      rw [List.forIn_cons, intersectBody_done _ _ _ _ _ _ (by simp)]
      simp [bind, Except.bind, pure, Except.pure]
  | case2 sa hsa =>
    intro pa pb c xs _
    refine ⟨pa.length, pb.length, ?_, by simp⟩
    cases xs with
    | nil => simp [pure, Except.pure]
    | cons x xs =>
      rw [List.forIn_cons, intersectBody_done _ _ _ _ _ _ (by simp)]
      simp [bind, Except.bind, pure, Except.pure]
  | case3 as a bs ih =>
    intro pa pb c xs hx
    cases xs with
    | nil => simp at hx
    | cons x xs =>
      rw [List.forIn_cons, intersectBody_step]
      simp only [if_true]
      obtain ⟨i', j', h1, h2⟩ := ih (pa ++ [a]) (pb ++ [a]) (c + 1) xs (by simp at hx ⊢; omega)
      refine ⟨i', j', ?_, by simpa using h2⟩
      simp only [List.length_append, List.length_cons, List.length_nil, List.append_assoc, List.cons_append,
        List.nil_append, Nat.zero_add, Int.natCast_add, Int.natCast_one] at h1
      simp only [bind, Except.bind]
      rw [h1]
      congr 3
      simp only [Int.natCast_add, Int.natCast_one]; omega
  | case4 a as b bs hne hgt ih =>
    intro pa pb c xs hx
    cases xs with
    | nil => simp at hx
    | cons x xs =>
      rw [List.forIn_cons, intersectBody_step]
      simp only [hne, hgt, if_true, if_false]
      obtain ⟨i', j', h1, h2⟩ := ih pa (pb ++ [b]) c xs (by simp at hx ⊢; omega)
      refine ⟨i', j', ?_, by simpa using h2⟩
      simp only [List.length_append, List.length_cons, List.length_nil, List.append_assoc, List.cons_append,
        List.nil_append, Nat.zero_add, Int.natCast_add, Int.natCast_one] at h1
      simp only [bind, Except.bind]
      rw [h1]
  | case5 a as b bs hne hgt ih =>
    intro pa pb c xs hx
    cases xs with
    | nil => simp at hx
    | cons x xs =>
      rw [List.forIn_cons, intersectBody_step]
      simp only [hne, hgt, if_false]
      obtain ⟨i', j', h1, h2⟩ := ih (pa ++ [a]) pb c xs (by simp at hx ⊢; omega)
      refine ⟨i', j', ?_, by simpa using h2⟩
      simp only [List.length_append, List.length_cons, List.length_nil, List.append_assoc, List.cons_append,
        List.nil_append, Nat.zero_add, Int.natCast_add, Int.natCast_one] at h1
      simp only [bind, Except.bind]
      rw [h1]

/-- `_intersect` with enough fuel returns the model's merge count (restated as `intersect_refines`) -/
theorem intersect_ok (a b : List Int) (fuel : Nat) (hf : a.length + b.length ≤ fuel) :
    Gen.MdComparison.intersect fuel a b = .ok ((Events.intersect a b : Nat) : Int) := by
  rw [intersect_unfold]
  obtain ⟨i', j', h1, h2⟩ := intersect_loop a b [] [] 0 (List.range fuel) (by simpa using hf)
  simp only [List.nil_append, List.length_nil, Int.natCast_zero, Int.zero_add] at h1 h2
  rw [h1]
  have : (decide (i' < pyLen a) && decide (j' < pyLen b)) = false := by
    simp only [pyLen, Bool.and_eq_false_iff]
    by_cases hi : i' < (a.length : Int)
    · exact Or.inr (decide_eq_false (fun hj => h2 ⟨hi, hj⟩))
    · exact Or.inl (decide_eq_false hi)
  simp only [bind, Except.bind, this, Bool.false_eq_true, if_false]
  rfl

/-! ### `_intersect_array` -/

def arrInner (fuel : Nat) (idx1 idx2 : List (List Int)) (i : Int) (j : Int) (m : List (List Rat)) :
    Py (ForInStep (List (List Rat))) := do
  let t1 ← pyGet idx1 i
  let t2 ← pyGet idx2 j
  let t3 ← Gen.MdComparison.intersect fuel t1 t2
  let m ← pySet2 m i j ((t3 : Int) : Rat)
  pure (ForInStep.yield m)

def arrOuter (fuel : Nat) (idx1 idx2 : List (List Int)) (i : Int) (m : List (List Rat)) :
    Py (ForInStep (List (List Rat))) := do
  let s ← forIn (pyRange 0 (pyLen idx2)) m (arrInner fuel idx1 idx2 i)
  pure (ForInStep.yield s)

theorem intersect_array_unfold (fuel : Nat) (A B : List (List Int)) :
    Gen.MdComparison.intersect_array fuel A B =
      (forIn (pyRange 0 (pyLen A)) (pyFull2 (pyLen A) (pyLen B) (0 : Rat)) (arrOuter fuel A B)
        >>= fun s => pure s) := rfl

theorem pySet2_nat {α : Type} (M : List (List α)) (i j : Nat) (v : α) (hi : i < M.length) (hj : j < M[i].length) :
    pySet2 M (i : Int) (j : Int) v = .ok (M.set i (M[i].set j v)) := by
  unfold pySet2
  rw [pyGet_nat M i hi]
  simp only [bind, Except.bind]
  rw [pySet_nat _ j v hj]
  simp only []
  rw [pySet_nat _ i _ hi]

/-- inner loop (columns) from an arbitrary cursor -/
theorem arr_inner_loop (fuel : Nat) (A : List (List Int)) (i : Nat) (hiA : i < A.length) :
    ∀ (Bs Bp : List (List Int)) (rowp rows : List Rat) (M : List (List Rat)) (hiM : i < M.length),
      M[i] = rowp ++ rows → rowp.length = Bp.length → rows.length = Bs.length →
      (∀ b ∈ Bs, A[i].length + b.length ≤ fuel) →
      forIn (pyRange (Bp.length : Int) ((Bp.length : Int) + (Bs.length : Int))) M (arrInner fuel A (Bp ++ Bs) (i : Int))
        = .ok (M.set i (rowp ++ Bs.map (fun b => ((Events.intersect A[i] b : Nat) : Rat)))) := by
  intro Bs
  induction Bs with
  | nil =>
    intro Bp rowp rows M hiM hM _ hrows _
    have : rows = [] := List.eq_nil_of_length_eq_zero (by simpa using hrows)
    subst this
    simp only [List.length_nil, Int.natCast_zero, Int.add_zero, pyRange_self, List.forIn_nil, List.map_nil]
    rw [← hM, List.set_getElem_self]
    rfl
  | cons b bs ih =>
    intro Bp rowp rows M hiM hM hrowp hrows hfuel
    cases rows with
    | nil => simp at hrows
    | cons r rows' =>
      rw [pyRange_cons _ _ (by simp only [List.length_cons, Int.natCast_add, Int.natCast_one]; omega), List.forIn_cons]
      have hstep : arrInner fuel A (Bp ++ b :: bs) (i : Int) (Bp.length : Int) M =
          .ok (ForInStep.yield (M.set i (rowp ++ ((Events.intersect A[i] b : Nat) : Rat) :: rows'))) := by
        unfold arrInner
        rw [pyGet_nat A i hiA, pyGet_append]
        simp only [bind, Except.bind]
        rw [intersect_ok _ _ _ (hfuel b (by simp))]
        simp only []
        have hj : Bp.length < M[i].length := by rw [hM]; simp; omega
        rw [pySet2_nat M i Bp.length _ hiM hj]
        simp only [pure, Except.pure, Rat.intCast_natCast]
        congr 3
        rw [hM, ← hrowp, List.set_append_right _ _ (Nat.le_refl _)]
        simp
      rw [hstep]
      simp only [bind, Except.bind]
      have := ih (Bp ++ [b]) (rowp ++ [((Events.intersect A[i] b : Nat) : Rat)]) rows'
        (M.set i (rowp ++ ((Events.intersect A[i] b : Nat) : Rat) :: rows')) (by simpa using hiM)
        (by simp) (by simp [hrowp]) (by simpa using hrows) (fun b' hb' => hfuel b' (by simp [hb']))
      simp only [List.length_append, List.length_cons, List.length_nil, Nat.zero_add, Int.natCast_add, Int.natCast_one,
        List.append_assoc, List.cons_append, List.nil_append, List.set_set] at this
      simp only [List.length_cons, Int.natCast_add, Int.natCast_one, List.map_cons]
      rw [← this]
      congr 2
      omega

theorem arr_inner_full (fuel : Nat) (A B : List (List Int)) (i : Nat) (hiA : i < A.length)
    (M : List (List Rat)) (hiM : i < M.length) (hM : M[i].length = B.length)
    (hfuel : ∀ b ∈ B, A[i].length + b.length ≤ fuel) :
    forIn (pyRange 0 (pyLen B)) M (arrInner fuel A B (i : Int))
      = .ok (M.set i (B.map (fun b => ((Events.intersect A[i] b : Nat) : Rat)))) := by
  have := arr_inner_loop fuel A i hiA B [] [] M[i] M hiM rfl rfl hM hfuel
  simpa [pyLen] using this

/-- outer loop (rows) from an arbitrary cursor -/
theorem arr_outer_loop (fuel : Nat) (B : List (List Int)) :
    ∀ (As Ap : List (List Int)) (Mp Ms : List (List Rat)),
      Mp.length = Ap.length → Ms.length = As.length → (∀ r ∈ Ms, r.length = B.length) →
      (∀ a ∈ As, ∀ b ∈ B, a.length + b.length ≤ fuel) →
      forIn (pyRange (Ap.length : Int) ((Ap.length : Int) + (As.length : Int))) (Mp ++ Ms) (arrOuter fuel (Ap ++ As) B)
        = .ok (Mp ++ As.map (fun a => B.map (fun b => ((Events.intersect a b : Nat) : Rat)))) := by
  intro As
  induction As with
  | nil =>
    intro Ap Mp Ms _ hMs _ _
    have : Ms = [] := List.eq_nil_of_length_eq_zero (by simpa using hMs)
    subst this
    simp only [List.length_nil, Int.natCast_zero, Int.add_zero, pyRange_self, List.forIn_nil, List.map_nil]
    rfl
  | cons a as ih =>
    intro Ap Mp Ms hMp hMs hrows hfuel
    cases Ms with
    | nil => simp at hMs
    | cons r ms =>
      rw [pyRange_cons _ _ (by simp only [List.length_cons, Int.natCast_add, Int.natCast_one]; omega), List.forIn_cons]
      have hiA : Ap.length < (Ap ++ a :: as).length := by simp
      have hiM : Ap.length < (Mp ++ r :: ms).length := by simp; omega
      have hAi : (Ap ++ a :: as)[Ap.length] = a := by simp
      have hMi : (Mp ++ r :: ms)[Ap.length] = r := by
        rw [List.getElem_append_right (by omega)]; simp [hMp]
      have hstep : arrOuter fuel (Ap ++ a :: as) B (Ap.length : Int) (Mp ++ r :: ms) =
          .ok (ForInStep.yield (Mp ++ (B.map (fun b => ((Events.intersect a b : Nat) : Rat))) :: ms)) := by
        unfold arrOuter
        rw [arr_inner_full fuel _ B Ap.length hiA _ hiM (by rw [hMi]; exact hrows r (by simp))
          (by rw [hAi]; exact hfuel a (by simp))]
        simp only [bind, Except.bind, pure, Except.pure, hAi]
        congr 2
        rw [← hMp, List.set_append_right _ _ (Nat.le_refl _)]
        simp
      rw [hstep]
      simp only [bind, Except.bind]
      have := ih (Ap ++ [a]) (Mp ++ [B.map (fun b => ((Events.intersect a b : Nat) : Rat))]) ms
        (by simp [hMp]) (by simpa using hMs) (fun r' hr' => hrows r' (by simp [hr']))
        (fun a' ha' => hfuel a' (by simp [ha']))
      simp only [List.length_append, List.length_cons, List.length_nil, Nat.zero_add, Int.natCast_add, Int.natCast_one,
        List.append_assoc, List.cons_append, List.nil_append] at this
      simp only [List.length_cons, Int.natCast_add, Int.natCast_one, List.map_cons]
      rw [← this]
      congr 2
      omega

/-! ### the frame-sum kernels -/

theorem pyGet2_ok {α : Type} (M : List (List α)) (i j : Int) (d : α) (hi : 0 ≤ i) (hi' : i.toNat < M.length)
    (hj : 0 ≤ j) (hj' : j.toNat < (M.getD i.toNat []).length) :
    pyGet2 M i j = .ok ((M.getD i.toNat []).getD j.toNat d) := by
  unfold pyGet2
  rw [pyGet_of_nonneg M i hi hi']
  simp only [bind, Except.bind]
  have e : M.getD i.toNat [] = M[i.toNat] := by simp [List.getD_eq_getElem?_getD, hi']
  rw [e] at hj' ⊢
  rw [pyGet_of_nonneg _ j hj hj']
  simp [List.getD_eq_getElem?_getD, hj']

/-- `max([a, b])` of the kernel is the model's `maxQ` -/
theorem pyMaxOf_eq_maxQ (a b : Rat) : pyMaxOf a [b] = Compare.maxQ a b := by
  simp only [pyMaxOf, List.foldl_cons, List.foldl_nil, Compare.maxQ, Rat.max_def]
  grind

/-- `pyMaxOf a [b]` is `max a b` -/
theorem pyMaxOf_eq_max (a b : Rat) : pyMaxOf a [b] = max a b := rfl

/-- left fold from 0 (the kernel's accumulation) equals `List.sum` (right fold) over exact rationals -/
theorem foldl_add_eq_sum (l : List Rat) (acc : Rat) : l.foldl (· + ·) acc = acc + l.sum := by
  induction l generalizing acc with
  | nil => simp [Rat.add_zero]
  | cons x xs ih => rw [List.foldl_cons, ih, List.sum_cons, Rat.add_assoc]

/-- generic accumulation loop over the frames: the body reads frame `k` of both trajectories and adds `term` -/
theorem frames_loop (f1 f2 : List Int) (hlen : f1.length = f2.length)
    (body : Int → Int × Int × Rat → Py (ForInStep (Int × Int × Rat))) (term : Int → Int → Rat)
    (hstep : ∀ (k : Nat) (hk1 : k < f1.length) (hk2 : k < f2.length) (x y : Int) (acc : Rat),
      body (k : Int) (x, y, acc) = .ok (ForInStep.yield (f1[k], f2[k], acc + term f1[k] f2[k]))) :
    ∀ (n k : Nat), k + n = f1.length → ∀ (x y : Int) (acc : Rat), ∃ x' y' : Int,
      forIn (pyRange (k : Int) ((k : Int) + (n : Int))) (x, y, acc) body
        = .ok (x', y', acc + (((f1.drop k).zip (f2.drop k)).map (fun (a, b) => term a b)).sum) := by
  intro n
  induction n with
  | zero =>
    intro k hk x y acc
    refine ⟨x, y, ?_⟩
    have h1 : f1.drop k = [] := List.drop_eq_nil_of_le (by omega)
    simp [pyRange_self, h1, Rat.add_zero, pure, Except.pure]
  | succ n ih =>
    intro k hk x y acc
    have hk1 : k < f1.length := by omega
    have hk2 : k < f2.length := by omega
    rw [pyRange_cons _ _ (by omega), List.forIn_cons, hstep k hk1 hk2]
    simp only [bind, Except.bind]
    obtain ⟨x', y', h⟩ := ih (k + 1) (by omega) f1[k] f2[k] (acc + term f1[k] f2[k])
    refine ⟨x', y', ?_⟩
    have e : ((k : Int) + ((n + 1 : Nat) : Int)) = (((k + 1 : Nat) : Int) + (n : Int)) := by omega
    rw [e, show ((k : Int) + 1) = ((k + 1 : Nat) : Int) by omega, h]
    rw [List.drop_eq_getElem_cons hk1, List.drop_eq_getElem_cons hk2]
    simp only [List.zip_cons_cons, List.map_cons, List.sum_cons, Rat.add_assoc]

def symBody (traj1 traj2 : List Int) (i12 i21 : List (List Rat)) (idx : Int) (s : Int × Int × Rat) :
    Py (ForInStep (Int × Int × Rat)) := do
  let t1 ← pyGet traj1 idx
  let t2 ← pyGet traj2 idx
  let t3 ← pyGet2 i12 t1 t2
  let t4 ← pyGet2 i21 t2 t1
  pure (ForInStep.yield (t1, t2, s.2.2 + pyMaxOf t3 [t4]))

def dirBody (traj1 traj2 : List Int) (i21 : List (List Rat)) (idx : Int) (s : Int × Int × Rat) :
    Py (ForInStep (Int × Int × Rat)) := do
  let t1 ← pyGet traj1 idx
  let t2 ← pyGet traj2 idx
  let t3 ← pyGet2 i21 t2 t1
  pure (ForInStep.yield (t1, t2, s.2.2 + t3))

theorem symmetric_unfold (f1 f2 : List Int) (i12 i21 : List (List Rat)) :
    Gen.MdComparison.compare_trajs_symmetric f1 f2 i12 i21 =
      (forIn (pyRange 0 (pyLen f1)) ((default : Int), (default : Int), (0 : Rat)) (symBody f1 f2 i12 i21)
        >>= fun s => pyTrueDiv s.2.2 ((pyLen f1 : Int) : Rat)) := rfl

theorem directed_unfold (f1 f2 : List Int) (i12 i21 : List (List Rat)) :
    Gen.MdComparison.compare_trajs_directed f1 f2 i12 i21 =
      (forIn (pyRange 0 (pyLen f1)) ((default : Int), (default : Int), (0 : Rat)) (dirBody f1 f2 i21)
        >>= fun s => pyTrueDiv s.2.2 ((pyLen f1 : Int) : Rat)) := rfl

theorem getD_row_length {α : Type} (M : List (List α)) (n m : Nat) (s : M.length = n ∧ ∀ r ∈ M, r.length = m)
    (i : Nat) (hi : i < n) : (M.getD i []).length = m := by
  have hi' : i < M.length := by omega
  have e : M.getD i [] = M[i] := by simp [List.getD_eq_getElem?_getD, hi']
  rw [e]
  exact s.2 _ (List.getElem_mem hi')

theorem pyGet2_table (M : List (List Rat)) (n m : Nat) (s : M.length = n ∧ ∀ r ∈ M, r.length = m)
    (i j : Int) (hi : 0 ≤ i ∧ i < (n : Int)) (hj : 0 ≤ j ∧ j < (m : Int)) :
    pyGet2 M i j = .ok ((M.getD i.toNat []).getD j.toNat 0) := by
  have h1 : i.toNat < n := by omega
  apply pyGet2_ok M i j 0 hi.1 (by omega) hj.1
  rw [getD_row_length M n m s _ h1]
  omega

theorem pyTrueDiv_len (s : Rat) (n : Nat) (h : 1 ≤ n) : pyTrueDiv s ((n : Int) : Rat) = .ok (s / (n : Nat)) := by
  unfold pyTrueDiv
  rw [Rat.intCast_natCast]
  have : ((n : Nat) : Rat) ≠ 0 := by simp; omega
  rw [if_neg this]

/-! ### list helpers -/

theorem getD_map_range' {α : Type} (n : Nat) (F : Nat → α) (d : α) (i : Nat) (h : i < n) :
    ((List.range n).map F).getD i d = F i := by
  simp [List.getD_eq_getElem?_getD, h]

theorem getD_getD_cast {α β : Type} (A : List α) (B : List β) (g : α → β → Nat) (i j : Nat) :
    ((A.map fun a => B.map fun b => ((g a b : Nat) : Rat)).getD i []).getD j 0
      = ((((A.map fun a => B.map fun b => g a b).getD i []).getD j 0 : Nat) : Rat) := by
  simp only [List.getD_eq_getElem?_getD, List.getElem?_map]
  cases A[i]? with
  | none => simp
  | some a =>
    simp only [Option.map_some, Option.getD_some, List.getElem?_map]
    cases B[j]? with
    | none => simp
    | some b => simp

theorem frameIdx_length_le (f : List Int) (s : Int) : (Compare.frameIdx f s).length ≤ f.length := by
  unfold Compare.frameIdx
  rw [List.length_map]
  exact Nat.le_trans (List.length_filter_le _ _) (by simp)

end MsmVerif.Refine.Compare
