/-
Refine/Mcmc.lean — task RP4 (properties C07, C08): the TRANSLATED Markov-chain kernels of `msm/timescales.py`
(`Gen/MsmTimescales.lean`: `_propagate_MCMC_step`, `_propagate_MCMC`, `_estimate_waiting_times`,
`_estimate_transition_times`) compute exactly what the hand-written models `Model/Mcmc.lean` (`step`, `chain`,
`realised`) and `Model/Events.lean` (`msmWtLoop`, `msmTtLoop`) compute — for every well-formed cumulative matrix, every
size, every number of steps and every stream of draws; including memory safety (result `.ok …`), the exact number of
draws consumed, and an error (never a defaulted value) when the stream of draws is too short.

`WF`, `permI`, `histI` and all helper lemmas live in `Refine/McmcLemmas.lean` (same namespace).
-/
import MsmVerif.Refine.McmcLemmas

namespace MsmVerif.Refine.Mcmc
open MsmVerif MsmVerif.Gen

/-! ### the worked example used for the non-vacuity checks -/

/-- cumulative matrix of the example (2 states) -/
def exCum : List (List Rat) := [[1/2, 1], [1/3, 1]]
/-- permutation of the example -/
def exPerm : List (List Nat) := [[0, 1], [1, 0]]
/-- the six uniform draws of the example -/
def exUs : List Rat := [1/4, 3/4, 1/2, 0, 9/10, 1/7]

/-- the example is well-formed -/
theorem exWF : WF exCum exPerm 2 := by
  constructor <;> simp [exCum, exPerm]

/-! ### `np.argmax` -/

/-- the runtime's `np.argmax` is the model's `argmax` -/
theorem argmax_refines (l : List Rat) : pyArgmax l = ((Mcmc.argmax l : Nat) : Int) := pyArgmax_eq l

example : pyArgmax [1/3, 1, 1/2, 1] = 1 ∧ Mcmc.argmax [1/3, 1, 1/2, 1] = 1 := by decide +kernel

/-! ### one step -/

/-- **`_propagate_MCMC_step` refines `Mcmc.step`.**  For a well-formed cumulative matrix and a valid state `s`, the translated
kernel pops exactly one draw `u`, raises no error and returns the model's next state (first column whose cumulative value
exceeds `u`, else the `argmax` fallback) of row `s`. -/
theorem step_refines (cum perm n) (h : WF cum perm n) (s : Nat) (hs : s < n) (u : Rat) (us : List Rat) :
    (Gen.MsmTimescales.propagate_MCMC_step (cum, permI perm) (s : Int)).run (u :: us)
      = .ok (((Mcmc.step (cum.getD s []) (perm.getD s []) u : Nat) : Int), us) :=
  step_ok cum perm n h s hs u us

/-- the next state is again a valid index -/
theorem step_lt (cum perm n) (h : WF cum perm n) (s : Nat) (hs : s < n) (u : Rat) :
    Mcmc.step (cum.getD s []) (perm.getD s []) u < n :=
  step_next_lt cum perm n h s hs u

/-- `_propagate_MCMC_step` without a draw left: an error, whatever the arguments -/
theorem step_exhausted (c : List (List Rat) × List (List Int)) (s : Int) :
    (Gen.MsmTimescales.propagate_MCMC_step c s).run [] = .error .other :=
  step_fail c s

example : (Gen.MsmTimescales.propagate_MCMC_step (exCum, permI exPerm) ((1 : Nat) : Int)).run ((1/2 : Rat) :: [0])
    = .ok (((Mcmc.step (exCum.getD 1 []) (exPerm.getD 1 []) (1/2) : Nat) : Int), [0]) :=
  step_refines exCum exPerm 2 exWF 1 (by decide) _ _
/-- in the example, state 1 with draw 1/2 moves to state 0 (second column of the permuted row `[1, 0]`);
a draw `≥` every breakpoint takes the `argmax` fallback -/
example : Mcmc.step (exCum.getD 1 []) (exPerm.getD 1 []) (1/2) = 0
    ∧ Mcmc.step (exCum.getD 1 []) (exPerm.getD 1 []) (1/4) = 1
    ∧ Mcmc.step (exCum.getD 1 []) (exPerm.getD 1 []) 1 = 0 := by decide +kernel

/-! ### the chain -/

/-- **`_propagate_MCMC` refines `Mcmc.chain`.**  For a well-formed cumulative matrix, a valid start state, `steps ≥ 1`
and at least `steps - 1` draws, the translated kernel raises no error (no `IndexError`), returns exactly the
model chain (as integers), and consumes exactly `steps - 1` draws. -/
theorem chain_refines {cum perm n} (h : WF cum perm n) (start steps : Nat) (hs : start < n) (hsteps : 1 ≤ steps)
    (us : List Rat) (hus : steps - 1 ≤ us.length) :
    (Gen.MsmTimescales.propagate_MCMC (cum, permI perm) (start : Int) (steps : Int)).run us
      = .ok ((Mcmc.chain cum perm start steps us).map Int.ofNat, us.drop (steps - 1)) := by
  unfold Gen.MsmTimescales.propagate_MCMC
  have h0 : pySet (pyFull1 (steps : Int) (0 : Int)) (0 : Int) (start : Int)
      = .ok (chainEnc steps ([(start : Int)], start)).1 := by
    have := pySet_nat (pyFull1 (steps : Int) (0 : Int)) 0 (start : Int) (by simp [pyFull1]; omega)
    rw [Int.natCast_zero] at this
    rw [this]
    obtain ⟨r, rfl⟩ : ∃ r, steps = r + 1 := ⟨steps - 1, by omega⟩
    simp [pyFull1, chainEnc, List.replicate_succ]
  have e : (steps : Int) - 1 = (0 : Int) + ((steps - 1 : Nat) : Int) := by omega
  have hloop := loop_ok (chainBody (cum, permI perm)) (chainEnc steps)
    (fun k t => t.1.length = k + 1 ∧ t.2 < n) (chainNext cum perm) (steps - 1)
    (fun k t u us hi hk => chain_body cum perm n h steps k t u us hi hk)
    (fun k t u hi _ => chain_inv cum perm n h k t u hi)
    (steps - 1) 0 ([(start : Int)], start) us ⟨rfl, hs⟩ (by omega) hus
  simp only [StateT.run_bind, run_lift_ok _ _ h0, ok_bind, e]
  unfold chainBody at hloop
  rw [Int.natCast_zero] at hloop
  have e2 : ((chainEnc steps ([(start : Int)], start)).fst, (start : Int)) = chainEnc steps ([(start : Int)], start) := rfl
  rw [e2, hloop, ok_bind]
  have hlen : (iter (chainNext cum perm) 0 ([(start : Int)], start) (List.take (steps - 1) us)).1.length = steps := by
    rw [chain_iter]; simp [chainFrom_length]; omega
  simp only [chainEnc, hlen, Nat.sub_self, List.replicate_zero, List.append_nil]
  rw [chain_iter]
  have : steps ≠ 0 := by omega
  simp [Mcmc.chain, this]
  rfl

example : (Gen.MsmTimescales.propagate_MCMC (exCum, permI exPerm) ((0 : Nat) : Int) ((5 : Nat) : Int)).run exUs
    = .ok ((Mcmc.chain exCum exPerm 0 5 exUs).map Int.ofNat, exUs.drop (5 - 1)) :=
  chain_refines exWF 0 5 (by decide) (by decide) exUs (by decide)
example : Mcmc.chain exCum exPerm 0 5 exUs = [0, 0, 1, 0, 0] := by decide +kernel

/-- `_propagate_MCMC` with fewer than `steps - 1` draws: an error, never a value (no draw is defaulted). -/
theorem chain_exhausted {cum perm n} (h : WF cum perm n) (start steps : Nat) (hs : start < n)
    (us : List Rat) (hus : us.length < steps - 1) :
    (Gen.MsmTimescales.propagate_MCMC (cum, permI perm) (start : Int) (steps : Int)).run us = .error .other := by
  unfold Gen.MsmTimescales.propagate_MCMC
  have h0 : pySet (pyFull1 (steps : Int) (0 : Int)) (0 : Int) (start : Int)
      = .ok (chainEnc steps ([(start : Int)], start)).1 := by
    have := pySet_nat (pyFull1 (steps : Int) (0 : Int)) 0 (start : Int) (by simp [pyFull1]; omega)
    rw [Int.natCast_zero] at this
    rw [this]
    obtain ⟨r, rfl⟩ : ∃ r, steps = r + 1 := ⟨steps - 1, by omega⟩
    simp [pyFull1, chainEnc, List.replicate_succ]
  have e : (steps : Int) - 1 = (0 : Int) + ((steps - 1 : Nat) : Int) := by omega
  have hloop := loop_err (chainBody (cum, permI perm)) (chainEnc steps)
    (fun k t => t.1.length = k + 1 ∧ t.2 < n) (chainNext cum perm) (steps - 1)
    (fun k t u us hi hk => chain_body cum perm n h steps k t u us hi hk)
    (fun k t u hi _ => chain_inv cum perm n h k t u hi)
    (fun k s => by unfold chainBody; simp only [StateT.run_bind, step_fail, err_bind])
    (steps - 1) 0 ([(start : Int)], start) us ⟨rfl, hs⟩ (by omega) hus
  simp only [StateT.run_bind, run_lift_ok _ _ h0, ok_bind, e]
  unfold chainBody at hloop
  rw [Int.natCast_zero] at hloop
  have e2 : ((chainEnc steps ([(start : Int)], start)).fst, (start : Int)) = chainEnc steps ([(start : Int)], start) := rfl
  rw [e2, hloop, err_bind]

example : (Gen.MsmTimescales.propagate_MCMC (exCum, permI exPerm) ((0 : Nat) : Int) ((8 : Nat) : Int)).run exUs
    = .error .other :=
  chain_exhausted exWF 0 8 (by decide) exUs (by decide)

/-! ### the event loops -/

/-- **`_estimate_waiting_times` (msm) refines `Events.msmWtLoop`.**  With at least `steps` draws the translated kernel raises
no error, consumes exactly `steps` draws and returns the dictionary (insertion order included) that the model
computes from the realised states of the chain: the events of the start/final automaton, folded into a histogram. -/
theorem wt_loop_refines {cum perm n} (h : WF cum perm n) (start steps : Nat) (hs : start < n) (S F : List Int)
    (us : List Rat) (hus : steps ≤ us.length) :
    (Gen.MsmTimescales.estimate_waiting_times (cum, permI perm) (start : Int) S F (steps : Int)).run us
      = .ok (histI (Events.msmWtLoop S F ((Mcmc.realised cum perm start steps us).map Int.ofNat)), us.drop steps) := by
  have hloop := loop_ok (wtBody (cum, permI perm) S F) evEnc (evInv n) (wtNext cum perm S F) steps
    (fun k t u us hi _ => wt_body cum perm n h S F k t u us hi)
    (fun k t u hi _ => wt_inv cum perm n h S F k t u hi)
    steps 0 ((0 : Int), [], {}, start) us ⟨Nat.le_refl _, hs, by simp⟩ (by omega) hus
  rw [Int.natCast_zero, Int.zero_add] at hloop
  unfold Gen.MsmTimescales.estimate_waiting_times
  show (do let __s ← forIn (pyRange 0 (steps : Int)) (evEnc ((0 : Int), [], {}, start)) (wtBody (cum, permI perm) S F)
           pure __s.2.1 : PyR PyDict).run us = _
  simp only [StateT.run_bind, hloop, ok_bind]
  unfold Events.msmWtLoop Events.events Mcmc.realised
  rw [← wt_iter cum perm S F 0 0 [] {} start]
  rfl

example : (Gen.MsmTimescales.estimate_waiting_times (exCum, permI exPerm) ((0 : Nat) : Int) [0] [1] ((6 : Nat) : Int)).run exUs
    = .ok (histI (Events.msmWtLoop [0] [1] ((Mcmc.realised exCum exPerm 0 6 exUs).map Int.ofNat)), exUs.drop 6) :=
  wt_loop_refines exWF 0 6 (by decide) [0] [1] exUs (by decide)
example : Mcmc.realised exCum exPerm 0 6 exUs = [0, 1, 0, 0, 1, 1]
    ∧ Events.msmWtLoop [0] [1] ((Mcmc.realised exCum exPerm 0 6 exUs).map Int.ofNat) = [(1, 1), (2, 1)] := by
  decide +kernel

/-- `_estimate_waiting_times` with fewer than `steps` draws: an error, never a value. -/
theorem wt_loop_exhausted {cum perm n} (h : WF cum perm n) (start steps : Nat) (hs : start < n) (S F : List Int)
    (us : List Rat) (hus : us.length < steps) :
    (Gen.MsmTimescales.estimate_waiting_times (cum, permI perm) (start : Int) S F (steps : Int)).run us
      = .error .other := by
  have hloop := loop_err (wtBody (cum, permI perm) S F) evEnc (evInv n) (wtNext cum perm S F) steps
    (fun k t u us hi _ => wt_body cum perm n h S F k t u us hi)
    (fun k t u hi _ => wt_inv cum perm n h S F k t u hi)
    (fun k s => by unfold wtBody; simp only [StateT.run_bind, step_fail, err_bind])
    steps 0 ((0 : Int), [], {}, start) us ⟨Nat.le_refl _, hs, by simp⟩ (by omega) hus
  rw [Int.natCast_zero, Int.zero_add] at hloop
  unfold Gen.MsmTimescales.estimate_waiting_times
  show (do let __s ← forIn (pyRange 0 (steps : Int)) (evEnc ((0 : Int), [], {}, start)) (wtBody (cum, permI perm) S F)
           pure __s.2.1 : PyR PyDict).run us = _
  simp only [StateT.run_bind, hloop, err_bind]

example : (Gen.MsmTimescales.estimate_waiting_times (exCum, permI exPerm) ((0 : Nat) : Int) [0] [1] ((7 : Nat) : Int)).run exUs
    = .error .other :=
  wt_loop_exhausted exWF 0 7 (by decide) [0] [1] exUs (by decide)

/-- **`_estimate_transition_times` (msm) refines `Events.msmTtLoop`.**  Same statement as `wt_loop_refines` for the
transition-time loop (which re-opens on every start-set hit). -/
theorem tt_loop_refines {cum perm n} (h : WF cum perm n) (start steps : Nat) (hs : start < n) (S F : List Int)
    (us : List Rat) (hus : steps ≤ us.length) :
    (Gen.MsmTimescales.estimate_transition_times (cum, permI perm) (start : Int) S F (steps : Int)).run us
      = .ok (histI (Events.msmTtLoop S F ((Mcmc.realised cum perm start steps us).map Int.ofNat)), us.drop steps) := by
  have hloop := loop_ok (ttBody (cum, permI perm) S F) evEnc (evInv n) (ttNext cum perm S F) steps
    (fun k t u us hi _ => tt_body cum perm n h S F k t u us hi)
    (fun k t u hi _ => tt_inv cum perm n h S F k t u hi)
    steps 0 ((0 : Int), [], {}, start) us ⟨Nat.le_refl _, hs, by simp⟩ (by omega) hus
  rw [Int.natCast_zero, Int.zero_add] at hloop
  unfold Gen.MsmTimescales.estimate_transition_times
  show (do let __s ← forIn (pyRange 0 (steps : Int)) (evEnc ((0 : Int), [], {}, start)) (ttBody (cum, permI perm) S F)
           pure __s.2.1 : PyR PyDict).run us = _
  simp only [StateT.run_bind, hloop, ok_bind]
  unfold Events.msmTtLoop Mcmc.realised
  rw [← tt_iter cum perm S F 0 0 [] {} start]
  rfl

example : (Gen.MsmTimescales.estimate_transition_times (exCum, permI exPerm) ((0 : Nat) : Int) [0] [1] ((6 : Nat) : Int)).run exUs
    = .ok (histI (Events.msmTtLoop [0] [1] ((Mcmc.realised exCum exPerm 0 6 exUs).map Int.ofNat)), exUs.drop 6) :=
  tt_loop_refines exWF 0 6 (by decide) [0] [1] exUs (by decide)
/-- the example exercises both dictionary branches (new key, then the same key again) -/
example : Events.msmTtLoop [0] [1] ((Mcmc.realised exCum exPerm 0 6 exUs).map Int.ofNat) = [(1, 2)] := by
  decide +kernel

/-- `_estimate_transition_times` with fewer than `steps` draws: an error, never a value. -/
theorem tt_loop_exhausted {cum perm n} (h : WF cum perm n) (start steps : Nat) (hs : start < n) (S F : List Int)
    (us : List Rat) (hus : us.length < steps) :
    (Gen.MsmTimescales.estimate_transition_times (cum, permI perm) (start : Int) S F (steps : Int)).run us
      = .error .other := by
  have hloop := loop_err (ttBody (cum, permI perm) S F) evEnc (evInv n) (ttNext cum perm S F) steps
    (fun k t u us hi _ => tt_body cum perm n h S F k t u us hi)
    (fun k t u hi _ => tt_inv cum perm n h S F k t u hi)
    (fun k s => by unfold ttBody; simp only [StateT.run_bind, step_fail, err_bind])
    steps 0 ((0 : Int), [], {}, start) us ⟨Nat.le_refl _, hs, by simp⟩ (by omega) hus
  rw [Int.natCast_zero, Int.zero_add] at hloop
  unfold Gen.MsmTimescales.estimate_transition_times
  show (do let __s ← forIn (pyRange 0 (steps : Int)) (evEnc ((0 : Int), [], {}, start)) (ttBody (cum, permI perm) S F)
           pure __s.2.1 : PyR PyDict).run us = _
  simp only [StateT.run_bind, hloop, err_bind]

example : (Gen.MsmTimescales.estimate_transition_times (exCum, permI exPerm) ((0 : Nat) : Int) [0] [1] ((7 : Nat) : Int)).run exUs
    = .error .other :=
  tt_loop_exhausted exWF 0 7 (by decide) [0] [1] exUs (by decide)

/-- **Draws exhausted.**  With fewer draws than needed each of the four kernels returns the error `.other`
(the runtime's "no draw left"), never a value: nothing is defaulted. -/
theorem draws_exhausted {cum perm n} (h : WF cum perm n) (start steps : Nat) (hs : start < n) (S F : List Int)
    (us : List Rat) :
    (Gen.MsmTimescales.propagate_MCMC_step (cum, permI perm) (start : Int)).run [] = .error .other
    ∧ (us.length < steps - 1 →
        (Gen.MsmTimescales.propagate_MCMC (cum, permI perm) (start : Int) (steps : Int)).run us = .error .other)
    ∧ (us.length < steps →
        (Gen.MsmTimescales.estimate_waiting_times (cum, permI perm) (start : Int) S F (steps : Int)).run us = .error .other)
    ∧ (us.length < steps →
        (Gen.MsmTimescales.estimate_transition_times (cum, permI perm) (start : Int) S F (steps : Int)).run us
          = .error .other) :=
  ⟨step_exhausted _ _, chain_exhausted h start steps hs us, wt_loop_exhausted h start steps hs S F us,
    tt_loop_exhausted h start steps hs S F us⟩

end MsmVerif.Refine.Mcmc
