/-
Refine/CoringLemmas.lean — helper lemmas for `Refine/Coring.lean` (task RP2):
runtime facts (`pyGet`/`pySet` at natural indices, `pyRange` unfolding), the loop bodies of the translated
kernels of `Gen/MdCorrections.lean` as named functions, and the loop lemmas (induction on the remaining range).
-/
import MsmVerif.Gen.MdCorrections
import MsmVerif.Model.Coring

namespace MsmVerif.Refine.Coring
open MsmVerif MsmVerif.Gen MsmVerif.Gen.MdCorrections

/-- `some a ↦ .ok a`, `none ↦ .error e` -/
def optErr {α : Type} (e : Err) : Option α → Except Err α
  | some a => .ok a
  | none => .error e

theorem ok_bind {α β : Type} (a : α) (f : α → Py β) : (Except.ok a >>= f) = f a := rfl

theorem pyGet_nat {α : Type} (l : List α) (i : Nat) (h : i < l.length) : pyGet l (i : Int) = .ok l[i] := by
  unfold pyGet normIdx
  simp [h]

theorem pySet_nat {α : Type} (l : List α) (i : Nat) (v : α) (h : i < l.length) :
    pySet l (i : Int) v = .ok (l.set i v) := by
  unfold pySet normIdx
  simp [h]

theorem pyRange_nil (a b : Int) (h : b ≤ a) : pyRange a b = [] := by
  unfold pyRange
  have : (b - a).toNat = 0 := by omega
  simp [this]

theorem pyRange_cons (a b : Int) (h : a < b) : pyRange a b = a :: pyRange (a + 1) b := by
  unfold pyRange
  have : (b - a).toNat = (b - (a + 1)).toNat + 1 := by omega
  rw [this, List.range_succ_eq_map]
  simp only [List.map_cons, List.map_map, Int.cast_ofNat_Int, Int.add_zero]
  congr 1
  apply List.map_congr_left
  intro k _
  simp only [Function.comp, Nat.succ_eq_add_one, Int.natCast_add, Int.cast_ofNat_Int]
  omega

/-- body of the window loop of `_remains_in_core` -/
def remBody (traj : List Int) (idx : Int) (idxNext : Int) (_s : Option Bool × Unit) :
    Py (ForInStep (Option Bool × Unit)) := do
  let t3 ← pyGet traj idx
  let t4 ← pyGet traj idxNext
  if (t3 != t4) = true then pure (ForInStep.done (some false, ())) else pure (ForInStep.yield (none, ()))

theorem remBody_eq (traj : List Int) (idx j : Nat) (hidx : idx < traj.length) (hj : j < traj.length) (s) :
    remBody traj idx j s = .ok (if traj[idx] != traj[j] then ForInStep.done (some false, ()) else ForInStep.yield (none, ())) := by
  unfold remBody
  rw [pyGet_nat _ _ hidx, ok_bind, pyGet_nat _ _ hj, ok_bind]
  split <;> rfl

/-- the window loop of `_remains_in_core` (non-iterative) from position `j`, `n` frames -/
theorem remains_loop (traj : List Int) (idx : Nat) (hidx : idx < traj.length)
    (n : Nat) : ∀ (j : Nat), j + n ≤ traj.length →
    forIn (m := Py) (pyRange (j : Int) ((j : Int) + n)) ((none : Option Bool), ()) (remBody traj idx)
      = .ok (if ((traj.drop j).take n).all (· == traj[idx]) then (none, ()) else (some false, ())) := by
  induction n with
  | zero =>
    intro j _
    rw [pyRange_nil _ _ (by omega)]
    simp [pure, Except.pure]
  | succ n ih =>
    intro j hj
    rw [pyRange_cons _ _ (by omega)]
    have hj' : j < traj.length := by omega
    have hd : traj.drop j = traj[j] :: traj.drop (j + 1) := List.drop_eq_getElem_cons hj'
    have ih' := ih (j + 1) (by omega)
    have e : ((j : Int) + ((n + 1 : Nat) : Int)) = (((j + 1 : Nat) : Int) + (n : Int)) := by omega
    have e2 : ((j : Int) + 1) = ((j + 1 : Nat) : Int) := by omega
    rw [e, e2, List.forIn_cons, remBody_eq _ _ _ hidx hj', ok_bind, hd, 
      List.take_succ_cons, List.all_cons]
    by_cases hc : traj[idx] = traj[j]
    · have h1 : (traj[idx] != traj[j]) = false := by simp [hc]
      have h2 : (traj[j] == traj[idx]) = true := by simp [hc]
      rw [h1, h2, if_neg (by simp), Bool.true_and]
      exact ih'
    · have h1 : (traj[idx] != traj[j]) = true := by simp [hc]
      have h2 : (traj[j] == traj[idx]) = false := by simp; exact fun h => hc h.symm
      rw [h1, h2, if_pos rfl, Bool.false_and, if_neg (by simp)]
      rfl


/-! ### `_remains_in_core` -/

theorem remains_eq (traj : List Int) (idx τ : Nat) (hidx : idx < traj.length) (hτ : 1 ≤ τ) :
    remains_in_core (idx : Int) traj (τ : Int) false = .ok (Coring.remains τ (traj.drop idx)) := by
  rw [List.drop_eq_getElem_cons hidx]
  unfold remains_in_core Coring.remains pyLen
  by_cases h : (traj.length : Int) + 1 ≤ idx + τ
  · have : ¬ (τ ≤ (traj.drop (idx + 1)).length + 1) := by simp only [List.length_drop]; omega
    simp only [h, this, decide_true, decide_false, if_true, Bool.false_and]; rfl
  · have h' : τ ≤ (traj.drop (idx + 1)).length + 1 := by simp only [List.length_drop]; omega
    have e1 : ((idx : Int) + 1) = ((idx + 1 : Nat) : Int) := by omega
    have e2 : ((idx : Int) + τ) = ((idx + 1 : Nat) : Int) + ((τ - 1 : Nat) : Int) := by omega
    simp only [h, h', decide_true, decide_false, Bool.true_and, Bool.false_eq_true, if_false]
    change (forIn (m := Py) _ _ (remBody traj idx) >>= _) = _
    rw [e1, e2, remains_loop traj idx hidx (τ - 1) (idx + 1) (by omega), ok_bind]
    by_cases hc : ((traj.drop (idx + 1)).take (τ - 1)).all (· == traj[idx]) = true
    · rw [hc, if_pos rfl]; rfl
    · rw [if_neg hc]
      simp only [Bool.not_eq_true] at hc
      rw [hc]; rfl

theorem remainsShort_eq (traj : List Int) (idx τ : Nat) (hidx : idx < traj.length) (hτ : 1 ≤ τ) :
    remains_in_core (idx : Int) traj (τ : Int) true = .ok (Coring.remainsShort τ (traj.drop idx)) := by
  unfold remains_in_core
  rw [List.drop_eq_getElem_cons hidx]
  unfold Coring.remainsShort pyLen
  by_cases h : (traj.length : Int) + 1 ≤ idx + τ
  · have : ¬ (τ ≤ (traj.drop (idx + 1)).length + 1) := by simp only [List.length_drop]; omega
    simp only [h, this, decide_true, decide_false, if_true, Bool.false_and]; rfl
  · have h' : τ ≤ (traj.drop (idx + 1)).length + 1 := by simp only [List.length_drop]; omega
    have h2 : idx + (τ - 1) < traj.length := by omega
    have e2 : ((idx : Int) + τ - 1) = ((idx + (τ - 1) : Nat) : Int) := by omega
    simp only [h, h', decide_true, decide_false, if_true, Bool.true_and, Bool.false_eq_true, if_false]
    rw [pyGet_nat _ _ hidx, ok_bind, e2, pyGet_nat _ _ h2, ok_bind]
    rw [← List.drop_eq_getElem_cons hidx, List.getElem?_drop, List.getElem?_eq_getElem h2]
    show Except.ok _ = Except.ok _
    congr 1
    by_cases hc : traj[idx] = traj[idx + (τ - 1)]
    · simp [hc]
    · have : ¬ traj[idx + (τ - 1)] = traj[idx] := fun h => hc h.symm
      have a : (traj[idx] == traj[idx + (τ - 1)]) = false := by simpa using hc
      have b : (some traj[idx + (τ - 1)] == some traj[idx]) = false := by simpa using this
      rw [a, b]


/-! ### `_find_first_core` -/

/-- body of the loop of `_find_first_core` -/
def ffcBody (traj : List Int) (lagtime : Int) (idx : Int) (_s : Option Int × Unit) :
    Py (ForInStep (Option Int × Unit)) := do
  let t1 ← remains_in_core idx traj lagtime false
  if t1 = true then do
      let t2 ← pyGet traj idx
      pure (ForInStep.done (some t2, ()))
    else pure (ForInStep.yield (none, ()))

theorem ffc_loop (traj : List Int) (τ : Nat) (hτ : 1 ≤ τ) (n : Nat) : ∀ (j : Nat), j + n = traj.length →
    forIn (m := Py) (pyRange (j : Int) (traj.length : Int)) ((none : Option Int), ()) (ffcBody traj τ)
      = .ok (Coring.firstCore τ (traj.drop j), ()) := by
  induction n with
  | zero =>
    intro j hj
    rw [pyRange_nil _ _ (by omega), List.drop_eq_nil_of_le (by omega)]
    rfl
  | succ n ih =>
    intro j hj
    have hj' : j < traj.length := by omega
    have e2 : ((j : Int) + 1) = ((j + 1 : Nat) : Int) := by omega
    rw [pyRange_cons _ _ (by omega), List.forIn_cons, e2]
    have hb : ffcBody traj τ j (none, ()) = .ok (if Coring.remains τ (traj.drop j) then ForInStep.done (some traj[j], ())
        else ForInStep.yield (none, ())) := by
      unfold ffcBody
      rw [remains_eq traj j τ hj' hτ, ok_bind]
      split
      · rw [pyGet_nat _ _ hj', ok_bind]; rfl
      · rfl
    rw [hb, ok_bind]
    conv => rhs; rw [List.drop_eq_getElem_cons hj']; unfold Coring.firstCore
    rw [← List.drop_eq_getElem_cons hj']
    by_cases hc : Coring.remains τ (traj.drop j) = true
    · rw [if_pos hc, if_pos hc]; rfl
    · rw [if_neg hc, if_neg hc]; exact ih (j + 1) (by omega)

/-! ### `_dynamical_coring_single_traj` -/

/-- the window test selected by `iterative` -/
def remOf (τ : Nat) (iter : Bool) : List Int → Bool := if iter then Coring.remainsShort τ else Coring.remains τ

theorem remains_any_refines (traj : List Int) (idx τ : Nat) (hidx : idx < traj.length) (hτ : 1 ≤ τ) (iter : Bool) :
    remains_in_core (idx : Int) traj (τ : Int) iter = .ok (remOf τ iter (traj.drop idx)) := by
  cases iter
  · exact remains_eq traj idx τ hidx hτ
  · exact remainsShort_eq traj idx τ hidx hτ

/-- body of the relabelling loop of `_dynamical_coring_single_traj` -/
def sctBody (lagtime : Int) (iterative : Bool) (idx : Int) (s : Int × List Int) :
    Py (ForInStep (Int × List Int)) := do
  let t2 ← pyGet s.2 idx
  if (t2 == s.1) = true then pure (ForInStep.yield (s.1, s.2))
  else do
    let t3 ← remains_in_core idx s.2 lagtime iterative
    if t3 = true then do
      let t4 ← pyGet s.2 idx
      pure (ForInStep.yield (t4, s.2))
    else do
      let c ← pySet s.2 idx s.1
      pure (ForInStep.yield (s.1, c))

theorem sctBody_eq (τ : Nat) (hτ : 1 ≤ τ) (iter : Bool) (j : Nat) (core : Int) (cored : List Int) (hj : j < cored.length) :
    sctBody τ iter j (core, cored) = .ok (ForInStep.yield (
      if cored[j] = core then (core, cored)
      else if remOf τ iter (cored.drop j) then (cored[j], cored)
      else (core, cored.set j core))) := by
  unfold sctBody
  simp only
  rw [pyGet_nat _ _ hj, ok_bind]
  by_cases h1 : cored[j] = core
  · rw [if_pos (by simp [h1]), if_pos h1]; rfl
  · rw [if_neg (by simp [h1]), if_neg h1, remains_any_refines _ _ _ hj hτ, ok_bind]
    by_cases h2 : remOf τ iter (cored.drop j) = true
    · rw [if_pos h2, if_pos h2]; rfl
    · rw [if_neg h2, if_neg h2, pySet_nat _ _ _ hj, ok_bind]; rfl

/-- loop invariant of `_dynamical_coring_single_traj`: after the positions `< j` have been processed the
working copy is (scanned prefix) ++ (untouched input suffix); the remaining iterations scan that suffix. -/
theorem sct_loop (τ : Nat) (hτ : 1 ≤ τ) (iter : Bool) (L : Nat) (n : Nat) :
    ∀ (j : Nat) (core : Int) (cored : List Int), cored.length = L → j + n = L →
    ∃ c', forIn (m := Py) (pyRange (j : Int) (L : Int)) (core, cored) (sctBody τ iter)
      = .ok (c', cored.take j ++ Coring.scanWith (remOf τ iter) core (cored.drop j)) := by
  induction n with
  | zero =>
    intro j core cored hL hj
    rw [pyRange_nil _ _ (by omega), List.drop_eq_nil_of_le (by omega), List.take_of_length_le (by omega)]
    exact ⟨core, by simp [Coring.scanWith, pure, Except.pure]⟩
  | succ n ih =>
    intro j core cored hL hj
    have hj' : j < cored.length := by omega
    have e2 : ((j : Int) + 1) = ((j + 1 : Nat) : Int) := by omega
    rw [pyRange_cons _ _ (by omega), List.forIn_cons, e2, sctBody_eq τ hτ iter j core cored hj', ok_bind]
    simp only
    have hd := List.drop_eq_getElem_cons hj'
    have ht : cored.take (j + 1) = cored.take j ++ [cored[j]] := by
      rw [List.take_succ_eq_append_getElem hj']
    conv => enter [1, c', 2, 1, 2, 2]; rw [hd]; unfold Coring.scanWith
    rw [← hd]
    by_cases h1 : cored[j] = core
    · rw [if_pos h1, if_pos h1]
      obtain ⟨c', hc'⟩ := ih (j + 1) core cored hL (by omega)
      refine ⟨c', ?_⟩
      rw [hc', ht, h1, List.append_assoc]; rfl
    · rw [if_neg h1, if_neg h1]
      by_cases h2 : remOf τ iter (cored.drop j) = true
      · rw [if_pos h2, if_pos h2]
        obtain ⟨c', hc'⟩ := ih (j + 1) cored[j] cored hL (by omega)
        refine ⟨c', ?_⟩
        rw [hc', ht, List.append_assoc]; rfl
      · rw [if_neg h2, if_neg h2]
        obtain ⟨c', hc'⟩ := ih (j + 1) core (cored.set j core) (by rw [List.length_set]; exact hL) (by omega)
        refine ⟨c', ?_⟩
        rw [hc']
        have a : (cored.set j core).take (j + 1) = cored.take j ++ [core] := by
          rw [List.take_succ_eq_append_getElem (by rw [List.length_set]; exact hj'), List.take_set_of_le (Nat.le_refl j)]
          simp
        have b : (cored.set j core).drop (j + 1) = cored.drop (j + 1) := by
          rw [List.drop_set_of_lt (by omega)]
        rw [a, b, List.append_assoc]; rfl



/-- general form without the bound on `idx`: past the end the length test of the kernel fails and the
model sees the empty suffix -/
theorem remains_any_refines_general (traj : List Int) (idx τ : Nat) (hτ : 1 ≤ τ) (iter : Bool) :
    remains_in_core (idx : Int) traj (τ : Int) iter = .ok (remOf τ iter (traj.drop idx)) := by
  by_cases hidx : idx < traj.length
  · exact remains_any_refines traj idx τ hidx hτ iter
  · rw [List.drop_eq_nil_of_le (by omega)]
    unfold remains_in_core pyLen
    rw [if_pos (by simp only [decide_eq_true_eq]; omega)]
    cases iter <;> rfl

/-! ### `_dynamical_coring` -/

/-- body of the stage loop of `_dynamical_coring` -/
def dcBody (iterative : Bool) (tau : Int) (s : List (List Int)) : Py (ForInStep (List (List Int))) := do
  let t1 ← dynamical_coring_single_lagtime s tau iterative
  pure (ForInStep.yield t1)

theorem schedule_cast (τ : Nat) (iter : Bool) :
    (if iter = true then pyRange (2 : Int) ((τ : Int) + 1) else [(τ : Int)])
      = (Coring.schedule τ iter).map (fun (s : Nat) => (s : Int)) := by
  unfold Coring.schedule
  cases iter
  · rfl
  · simp only [if_true, pyRange, List.map_map]
    have : ((τ : Int) + 1 - 2).toNat = τ - 1 := by omega
    rw [this]
    apply List.map_congr_left
    intro k _
    simp only [Function.comp, Int.natCast_add, Int.cast_ofNat_Int]
    omega

theorem schedule_pos (τ : Nat) (hτ : 1 ≤ τ) (iter : Bool) : ∀ s ∈ Coring.schedule τ iter, 1 ≤ s := by
  unfold Coring.schedule
  cases iter
  · intro s hs; simp at hs; omega
  · intro s hs; simp at hs; obtain ⟨a, _, rfl⟩ := hs; omega

end MsmVerif.Refine.Coring
