"""C10 — implied timescales are -tau/ln(lambda) of the model eigenvalues, else undefined."""
import math
from fractions import Fraction

import numpy as np

import core
import gen
from props.c03 import sample_chain

PID = 'C10'
ANCHORS = [('src/msmhelper/msm/timescales.py', ['implied_timescales', '_implied_timescales']),
           ('src/msmhelper/msm/utils/linalg.py', ['left_eigenvectors', 'right_eigenvectors', '_eigenvectors', 'left_eigenvalues',
                                                  'right_eigenvalues', '_eigenvalues'])]
RULE = ('trajectories with 2-6 states engineered for negative (alternating), zero, complex (directed cycles, also perfectly periodic of period 3-7) '
        'and positive spectra, reducible sets (eigenvalue 1 repeated), plain and lumped, all ntimescales incl. default, lag lists 1-3; the eigen-solvers '
        'on random real square matrices. Per entry the Lean oracle decides NaN / positive / value; the value -tau/ln(lambda) itself is evaluated in '
        'floating point by the harness. Non-trivial = >=1 eigenvalue that is not real-positive; distinct by (trajs, lags, ntimescales).')
RELATION = 'every entry of implied_timescales satisfies Timescales.entryOk (Timescales.required lambda) for the eigenvalue lambda the library solver returned'
TRUSTED = ['LAPACK is not modelled: eigenpairs are validated per input by residuals |vT - lambda v| <= 1e-8 and descending order',
           'the numerical value -tau/ln(lambda) is computed by the harness in IEEE arithmetic (math.log); the Lean theorems C10.pos/antitone/complex_pos are about the real function']
PARTIAL = 'eigen-solver validated, not proved; logarithm evaluated in floating point'


def _mk(trajs, lags, nts, micro=None, src='rand', kind=''):
    return {'op': 'its', 'trajs': trajs, 'lags': lags, 'nts': nts, 'micro': micro, 'src': src, 'kind': kind}


def cases(tier, rng, boost=1):
    yield _mk([[0, 1, 0, 1, 0, 1, 0, 1, 1, 0, 1, 0, 1, 0, 0, 1, 0, 1]], [1, 2, 3], None, src='corpus', kind='negative')    # D5
    yield _mk([[1, 0, 0, 0]], [1], None, src='corpus', kind='zero')
    yield _mk([[0, 1, 2, 3, 4] * 5], [1], None, src='corpus', kind='periodic')                                          # D9
    yield _mk([[0, 1, 2, 3, 4, 5] * 5], [1, 2], None, src='corpus', kind='periodic')
    yield _mk([[0, 1, 0, 1, 1, 0, 0, 1], [2, 3, 3, 2, 2, 3, 2, 2, 3]], [1, 2], None, src='corpus', kind='reducible')
    yield _mk([[0, 1, 1, 0, 1], [0, 0, 1, 0, 1, 1, 0, 0, 0, 1, 0, 1, 1, 1, 0, 1, 0, 0, 1, 1]], [8, 1, 2], None, src='corpus', kind='shortfirst')
    # many states, few requested timescales, a strongly negative eigenvalue (two states visited alternately)
    brng = core.Rng(3)
    for nbig, nts_big in ((80, 4), (70, 1), (130, 6)):
        t = []
        for _i in range(40):
            t += list(range(2, nbig))
            t += [0, 1] * brng.randint(2, 5)
            t += [brng.randrange(2, nbig) for _ in range(30)]
        yield _mk([t], [1, 3], nts_big, src='corpus', kind='big_flipflop')
    # strongly metastable two- and three-state models: the second eigenvalue is real and within 1e-5 of 1 (but not within rounding of it) — the timescale
    # must be the large positive number -tau / ln(lambda), not NaN
    yield _mk([[0] * 250000 + [1] * 250000 + [0] * 250000], [1, 2], None, src='corpus', kind='metastable')
    yield _mk([[0] * 120000 + [1] * 150000 + [2] * 90000 + [1] * 100000 + [0] * 110000], [1], 1, src='corpus', kind='metastable')
    n = {'quick': 250, 'thorough': 4000, 'search': 800}[tier] * boost
    for _ in range(n):
        kind = rng.choice(['chain', 'chain', 'alternating', 'cycle', 'periodic', 'reducible', 'lumped', 'solver'])
        ns = rng.randint(2, 6)
        labs, _ = gen.alphabet(rng, ns)
        if kind == 'alternating':
            idx = [[(i + (rng.random() < 0.1)) % ns for i in range(rng.randint(10, 40))]]
        elif kind == 'cycle':
            idx = [sample_chain(rng, ns, rng.choice([40, 100]), cyc_bias=0.5)]
        elif kind == 'periodic':
            p = rng.randint(3, 7)
            ns = p
            labs, _ = gen.alphabet(rng, ns)
            idx = [list(range(p)) * rng.randint(2, 6)]
        elif kind == 'reducible':
            a = sample_chain(rng, 2, 20)
            b = [x + 2 for x in sample_chain(rng, max(2, ns - 2), 30)]
            idx = [a, b]
            ns = 2 + max(2, ns - 2)
            labs, _ = gen.alphabet(rng, ns)
        else:
            idx = [sample_chain(rng, ns, rng.choice([20, 50, 120])) for _ in range(rng.randint(1, 3))]
        trajs = gen.relabel(idx, labs)
        nstates = len({x for t in trajs for x in t})
        if nstates < 2:
            continue
        lags = rng.sample([1, 2, 3, 4], rng.randint(1, 3))
        if kind == 'chain' and rng.random() < 0.3:
            idx = [idx[0][:rng.randint(2, 6)]] + idx          # a short leading trajectory and a large lag listed FIRST
            trajs = gen.relabel(idx, labs)
            lags = [rng.randint(6, 9)] + lags
        nts = rng.choice([None] + list(range(1, nstates)))
        if kind == 'lumped' and nstates >= 3:
            occ = sorted({x for t in trajs for x in t})
            m = rng.randint(2, nstates - 1)
            f = {s: rng.randrange(m) for s in occ}
            for a in range(m):
                f[rng.choice(occ)] = a
            if len(set(f.values())) == m:
                macro = [[f[x] + 10 for x in t] for t in trajs]
                yield _mk(macro, lags, rng.choice([None] + list(range(1, m))), micro=trajs, kind='lumped')
                continue
        if kind == 'solver':
            k = rng.randint(2, 6)
            yield {'op': 'solver', 'M': [[rng.choice([0, 0, 1, 2, -1, 3]) / rng.choice([1, 2, 4]) for _ in range(k)] for _ in range(k)],
                   'src': 'rand', 'kind': 'solver', 'trajs': None, 'lags': None, 'nts': rng.choice([None, 1, k]), 'micro': None}
            continue
        yield _mk(trajs, lags, nts, kind=kind)


def _solver_ok(M, nvals=None):
    """the solver clause: v T = lambda v (left) resp. T v = lambda v (right), descending order — validated numerically"""
    import msmhelper as mh
    from msmhelper.msm.utils import linalg
    M = np.asarray(M, dtype=np.float64)
    lv, lvec = linalg.left_eigenvectors(M, nvals)
    rv, rvec = linalg.right_eigenvectors(M, nvals)
    scale = 1 + np.abs(M).max()
    for lam, v in zip(lv, lvec):
        if np.max(np.abs(v @ M - lam * v)) > 1e-8 * scale or not np.any(np.abs(v) > 1e-12):
            return False, 'left residual'
    for lam, v in zip(rv, rvec):
        if np.max(np.abs(M @ v - lam * v)) > 1e-8 * scale or not np.any(np.abs(v) > 1e-12):
            return False, 'right residual'
    for vals in (lv, rv):
        c = np.asarray(vals, dtype=complex)
        for a, b in zip(c, c[1:]):
            if (a.real, a.imag) < (b.real, b.imag) and abs(a - b) > 1e-9:
                return False, 'order'
    n_expect = len(M) if nvals is None else nvals
    if len(lv) != n_expect or len(rv) != n_expect:
        return False, 'count'
    # the returned values must be the n_expect LARGEST eigenvalues: independent dense reference. Compared as multisets with a
    # tolerance that covers defective eigenvalues (a k-fold defective eigenvalue is only determined to eps^(1/k), ~1e-3 for k = 5):
    # every returned value matches an unused reference value, and no unmatched reference value lies clearly above the returned ones
    ref = [complex(z) for z in np.linalg.eigvals(M)]
    tol = 2e-3 * scale
    for vals in (lv, rv):
        got = [complex(z) for z in np.asarray(vals, dtype=complex)]
        used = [False] * len(ref)
        for z in got:
            hit = [i for i, w in enumerate(ref) if not used[i] and abs(z - w) <= tol]
            if not hit:
                return False, 'not eigenvalues of the matrix'
            used[min(hit, key=lambda i: abs(z - ref[i]))] = True
        rest = [w.real for i, w in enumerate(ref) if not used[i]]
        if rest and got and min(z.real for z in got) < max(rest) - tol:
            return False, 'not the largest eigenvalues'
    if not (np.allclose(np.sort_complex(np.asarray(linalg.left_eigenvalues(M, nvals), dtype=complex)), np.sort_complex(np.asarray(lv, dtype=complex)))):
        return False, 'eigenvalues vs eigenvectors'
    return True, ''


def real(case):
    import msmhelper as mh
    from msmhelper.msm.utils import linalg
    if case['op'] == 'solver':
        out = core.call(lambda: _solver_ok(case['M'], case['nts']))
        out.pop('msg', None)
        if 'ok' in out:
            out = {'ok': {'solver_ok': out['ok'][0], 'why': out['ok'][1], 'rows': []}}
        return out
    if case['micro'] is not None:
        arg = mh.LumpedStateTraj([np.array(t) for t in case['trajs']], [np.array(t) for t in case['micro']])
    else:
        arg = mh.StateTraj([np.array(t) for t in case['trajs']])

    def run():
        kw = {} if case['nts'] is None else {'ntimescales': case['nts']}
        its = np.asarray(mh.msm.implied_timescales(arg, case['lags'], **kw))
        nts = arg.nstates - 1 if case['nts'] is None else case['nts']
        if its.shape != (len(case['lags']), nts):
            raise AssertionError('shape %s' % (its.shape,))
        rows, sol_ok, why = [], True, ''
        for lag, row in zip(case['lags'], its):
            T, _ = arg.estimate_markov_model(lag)
            ev = np.asarray(linalg.left_eigenvalues(T, nvals=nts + 1), dtype=complex)
            ok, w = _solver_ok(T)
            sol_ok, why = sol_ok and ok, why or w
            ok, w = _solver_ok(T, nts + 1)
            sol_ok, why = sol_ok and ok, why or w
            eigs, refs = [], []
            for lam in ev[1:]:
                eigs.append({'re': core.rat_str(float(lam.real)), 'im': core.rat_str(float(lam.imag))})
                if lam.imag == 0 and 0 < lam.real < 1:
                    refs.append(core.rat_str(-lag / math.log(lam.real)))
                else:
                    refs.append(None)
            obs = [None if (isinstance(v, float) and math.isnan(v)) or np.isnan(v) else
                   (core.rat_str(float(v)) if np.isfinite(v) else 'inf') for v in row]
            rows.append({'lag': int(lag), 'eigs': eigs, 'obs': obs, 'refs': refs})
        return {'rows': rows, 'solver_ok': sol_ok, 'why': why}
    out = core.call(run)
    out.pop('msg', None)
    return out


def request(case, obs):
    if 'err' in obs or case['op'] == 'solver':
        return {'op': 'ping'}
    rows = []
    for r in obs['ok']['rows']:
        # +inf is not a finite number: encode as a non-positive value so that every requirement kind rejects it
        rows.append({'eigs': r['eigs'], 'obs': [('-1' if v == 'inf' else v) for v in r['obs']], 'refs': r['refs']})
    return {'op': 'its', 'rows': rows}


def agree(case, obs, reply):
    return holds(case, obs, reply)


def holds(case, obs, reply):
    if 'err' in obs:
        # a lumped model is refused when the micro model is not ergodic
        return case['micro'] is not None and obs['err'] == 'TypeError'
    if case['op'] == 'solver':
        return bool(obs['ok']['solver_ok'])
    return bool(reply.get('holds')) and bool(obs['ok']['solver_ok'])


def nontrivial(case, obs, reply):
    if 'ok' not in obs or case['op'] == 'solver':
        return case['op'] == 'solver'
    for r in obs['ok']['rows']:
        for e in r['eigs']:
            if Fraction(e['im']) != 0 or Fraction(e['re']) <= 0:
                return True
    return False


def key(case):
    return [case.get('M'), case['trajs'], case['micro'], case['lags'], case['nts']]


def classify(case, obs, reply):
    return '%s/%s/%s' % (case['src'], case['kind'], obs.get('err', 'ok'))


def known_match(k, case, obs, reply):
    return False
