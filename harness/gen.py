"""Generators shared by the property checks: label alphabets, trajectory sets, container forms."""
import itertools

import numpy as np

ALPHABET_CLASSES = ['zero', 'one', 'gapped', 'negative', 'unsorted']


def alphabet(rng, n, cls=None):
    """n distinct labels of the given class; index i ↦ label (in *index order of first use*, not sorted)."""
    cls = cls or rng.choice(ALPHABET_CLASSES)
    if cls == 'zero':
        labs = list(range(n))
    elif cls == 'one':
        labs = list(range(1, n + 1))
    elif cls == 'gapped':
        labs = sorted(rng.sample(range(0, 10 * n + 5), n))
    elif cls == 'negative':
        labs = sorted(rng.sample(range(-6 * n - 3, 4 * n + 3), n))
        if labs[0] >= 0:
            labs[0] = -1 - rng.randint(0, 5)
        if rng.random() < 0.3:
            labs = sorted(set(labs) | {-1})[:n] if len(set(labs) | {-1}) >= n else labs
    else:  # unsorted first appearance: labels permuted relative to index
        labs = rng.sample(range(-20, 60), n)
    if cls in ('zero', 'one', 'gapped', 'negative') and rng.random() < 0.5:
        rng.shuffle(labs)
    return labs, cls


def all_trajs(nlabels, maxlen, minlen=1):
    """all index trajectories over nlabels labels with minlen ≤ length ≤ maxlen, canonical order"""
    for L in range(minlen, maxlen + 1):
        for t in itertools.product(range(nlabels), repeat=L):
            yield list(t)


def random_traj(rng, n, length, sticky=0.6):
    """index trajectory with sticky dynamics (long runs are what coring / events need)"""
    if length == 0:
        return []
    t = [rng.randrange(n)]
    for _ in range(length - 1):
        t.append(t[-1] if rng.random() < sticky else rng.randrange(n))
    return t


def random_trajs(rng, n, ntraj, lo, hi, sticky=0.6, distinct_lengths=True):
    lens = set()
    out = []
    for _ in range(ntraj):
        L = rng.randint(lo, hi)
        tries = 0
        while distinct_lengths and L in lens and tries < 20:
            L = rng.randint(lo, hi)
            tries += 1
        lens.add(L)
        out.append(random_traj(rng, n, L, sticky))
    return out


def relabel(trajs, labs):
    return [[labs[i] for i in t] for t in trajs]


def min_dtype(trajs):
    flat = [x for t in trajs for x in t] or [0]
    lo, hi = min(flat), max(flat)
    for dt in (np.int8, np.int16, np.int32, np.int64):
        ii = np.iinfo(dt)
        if ii.min <= lo and hi <= ii.max:
            return dt
    return np.int64


DTYPES = [np.int8, np.int16, np.int32, np.int64]


def fitting_dtypes(trajs):
    m = min_dtype(trajs)
    return DTYPES[DTYPES.index(m):]


def as_arrays(trajs, rng=None, mixed=False):
    """list of ndarrays; with `mixed` each array gets its own fitting signed dtype"""
    fit = fitting_dtypes(trajs)
    if rng is None:
        return [np.array(t, dtype=np.int64) for t in trajs]
    if mixed:
        return [np.array(t, dtype=rng.choice(fit)) for t in trajs]
    dt = rng.choice(fit)
    return [np.array(t, dtype=dt) for t in trajs]


FORMS = ['list_of_lists', 'list_of_arrays', 'mixed_arrays', 'statetraj', 'array2d', 'list_of_ints', 'array1d', 'per_array_narrow',
         'unsigned_mixed']


def to_form(trajs, form, rng):
    """container form of the same trajectories (forms that do not apply fall back to list_of_arrays)"""
    import msmhelper as mh
    if form == 'list_of_ints' and len(trajs) == 1:
        return list(trajs[0])
    if form == 'array1d' and len(trajs) == 1:
        return np.array(trajs[0], dtype=rng.choice(fitting_dtypes(trajs)))
    if form == 'array2d' and len(set(map(len, trajs))) == 1 and len(trajs[0]) > 0:
        return np.array(trajs, dtype=rng.choice(fitting_dtypes(trajs)))
    if form == 'list_of_lists' and all(len(t) > 0 for t in trajs):
        return [list(t) for t in trajs]
    if form == 'mixed_arrays':
        return as_arrays(trajs, rng, mixed=True)
    if form == 'narrow_arrays':
        dt = min_dtype(trajs)
        return [np.array(t, dtype=dt) for t in trajs]
    if form == 'per_array_narrow':
        # every array in the narrowest signed dtype that holds ITS OWN values (the arrays of one set differ in width)
        return [np.array(t, dtype=min_dtype([t])) for t in trajs]
    if form == 'unsigned_mixed' and all(x >= 0 for t in trajs for x in t):
        # signed and unsigned widths side by side (not safely castable into each other: the common dtype is wider than both)
        out = []
        for k, t in enumerate(trajs):
            hi = max(t) if t else 0
            fam = (np.int8, np.int16, np.int32, np.int64) if k % 2 == 0 else (np.uint8, np.uint16, np.uint32, np.int64)
            out.append(np.array(t, dtype=[dt for dt in fam if hi <= np.iinfo(dt).max][0]))
        return out
    if form == 'statetraj':
        return mh.StateTraj(as_arrays(trajs, rng))
    if form == 'lumped_statetraj' and all(len(t) > 0 for t in trajs):
        # a lumped object whose MACROstate trajectories are these (two microstates under every macrostate): for everything that works on the state
        # trajectory (coring, md waiting times / paths, similarity, iteration) it must behave like the plain trajectories
        macro = [np.array(t, dtype=np.int64) for t in trajs]
        occ = sorted({x for t in trajs for x in t})
        rank = {x: k for k, x in enumerate(occ)}
        micro = [np.array([2 * rank[x] + (1 if (i * 7919 + 3 * rank[x]) % 13 < 6 else 0) for i, x in enumerate(t)], dtype=np.int64) for t in trajs]
        return mh.LumpedStateTraj(macro, micro)
    return as_arrays(trajs, rng)


def long_sets(tier):
    """few-state trajectory sets whose lengths are primes just above powers of two (where blocked / chunked / parallel kernels change their path and a
    frame count is never divisible by the thread count), plus one short companion trajectory: (trajs, N)"""
    import core
    for N in (1031, 4099, 8209) + ((16411, 65537) if tier == 'thorough' else ()):
        r = core.Rng(N)
        yield [random_traj(r, 4, N, 0.85), random_traj(r, 4, 37, 0.85)], N


def special_sets(rng):
    """trajectory sets whose CONTAINER shape is the point (learned from seeded changes): (trajs, form, tag)"""
    # > 32 trajectories, 0-based contiguous alphabet with > 127 states, wide labels only in the leading trajectories and
    # narrow (int8) trajectories at the end: the common dtype must be taken over ALL arrays
    n = 131
    lead = [list(range(n)) + [rng.randrange(n) for _ in range(20)] for _ in range(2)]
    mid = [[rng.randrange(n) for _ in range(rng.randint(2, 6))] for _ in range(33)]
    tail = [[rng.randrange(100) for _ in range(rng.randint(2, 6))] for _ in range(4)]
    yield lead + mid + tail, 'per_array_narrow', 'many_trajs_narrow_tail'
    # the same with a 1-based alphabet
    yield [[x + 1 for x in t] for t in lead + mid + tail], 'per_array_narrow', 'many_trajs_narrow_tail'
    # signed before unsigned, labels beyond the signed range only in the unsigned arrays, contiguous alphabet
    a = [rng.randrange(100) for _ in range(30)] + list(range(100))
    b = list(range(100, 201)) + [rng.randrange(201) for _ in range(30)]
    yield [a, b], 'unsigned_mixed', 'signed_then_unsigned'
    yield [a, b, [rng.randrange(50) for _ in range(10)]], 'unsigned_mixed', 'signed_then_unsigned'
    yield [[x + 1 for x in a], [x + 1 for x in b]], 'unsigned_mixed', 'signed_then_unsigned'
    # a CONTIGUOUS alphabet that spans more than the narrow dtype holding it (int8 labels -100..100, int16 labels -20000..20000 would be too many states)
    c = list(range(-100, 101)) + [rng.randint(-100, 100) for _ in range(60)] + list(range(100, -101, -1))
    yield [c], 'narrow_arrays', 'contiguous_wide_int8'
    yield [c[:150], c[150:]], 'narrow_arrays', 'contiguous_wide_int8'
    # the FIRST array is the narrowest (int8), a later one needs 16 bits; contiguous 0-based and 1-based alphabets (the common dtype is not the first one's)
    first = [rng.randrange(90) for _ in range(40)]
    later = list(range(140)) + [rng.randrange(140) for _ in range(30)]
    yield [first, later], 'per_array_narrow', 'narrow_first'
    yield [[x + 1 for x in first], [x + 1 for x in later], [1, 2, 1]], 'per_array_narrow', 'narrow_first'


# --------------------------------------------------------------------------- matrices (C04, C14)

def wielandt(n):
    """cycle 0→1→…→n-1→0 plus the edge n-1→1: primitive with exponent exactly (n-1)^2+1"""
    c = [[0] * n for _ in range(n)]
    for i in range(n - 1):
        c[i][i + 1] = 1
    c[n - 1][0] = 1
    if n > 1:
        c[n - 1][1] = 1
    return c


def block_diag(blocks):
    n = sum(len(b) for b in blocks)
    m = [[0] * n for _ in range(n)]
    o = 0
    for b in blocks:
        for i, r in enumerate(b):
            for j, v in enumerate(r):
                m[o + i][o + j] = v
        o += len(b)
    return m


def rand_irreducible(rng, n, aperiodic=True):
    c = [[0] * n for _ in range(n)]
    perm = list(range(n))
    rng.shuffle(perm)
    for a, b in zip(perm, perm[1:] + perm[:1]):
        c[a][b] = rng.randint(1, 3)
    for _ in range(rng.randint(0, n)):
        c[rng.randrange(n)][rng.randrange(n)] += rng.randint(1, 3)
    if aperiodic:
        i = rng.randrange(n)
        c[i][i] += 1
    return c


def count_matrices(tier, rng, boost=1):
    """yields (count matrix, tag); rows are normalised by the caller"""
    import itertools
    for c in itertools.product(range(3), repeat=4):
        yield [list(c[:2]), list(c[2:])], 'enum2'
    k = 0
    for c in itertools.product(range(3), repeat=9):
        k += 1
        if tier == 'quick' and k % 6:
            continue
        yield [list(c[0:3]), list(c[3:6]), list(c[6:9])], 'enum3'
    for n in range(2, 9):
        yield wielandt(n), 'wielandt'
        w = wielandt(n)
        p = list(range(n))
        rng.shuffle(p)
        yield [[w[p[i]][p[j]] for j in range(n)] for i in range(n)], 'wielandt_perm'
        cyc = [[1 if j == (i + 1) % n else 0 for j in range(n)] for i in range(n)]
        yield cyc, 'cycle'
    # large reducible matrices: a dense block plus isolated states (0/1 path counts of the block overflow a float near 24 states)
    for m_, extra in ((24, [[1]]), (27, [[0]])) if tier == 'quick' else ((24, [[1]]), (27, [[0]]), (33, [[1]]), (40, [[1]])):
        dense = [[1 + ((i * 7 + j * 3) % 3) for j in range(m_)] for i in range(m_)]
        yield block_diag([dense, extra]), 'big_reducible'
    # rare bridges: the matrix is connected only through ONE transition of small probability p = 1/N (far above the 1e-8 connectivity threshold of the
    # library; stationary probabilities stay >= 1e-6): a verdict that changes when p is treated as zero shows a wrong threshold
    for N_ in (1000, 10000, 100000, 400000):
        yield [[N_ - 1, 1, 0], [1, 1, 0], [0, 1, 1]], 'rare_bridge'                 # 0 -> 1 rare; irreducible? no: 2 is transient -> mask {0, 1}
        yield [[N_ - 1, 1], [1, 1]], 'rare_bridge'                                  # ergodic only through the rare step
        yield [[N_ - 1, 1, 0], [0, 1, 1], [1, 0, 1]], 'rare_bridge'                 # a 3-cycle with self loops, one rare edge
        yield [[1, 1, 0], [N_ - 1, 0, 1], [0, 1, 1]], 'rare_bridge'                 # rare exit to a second part
    nrand = {'quick': 400, 'thorough': 6000, 'search': 1500}[tier] * boost
    for _ in range(nrand):
        kind = rng.choice(['irr', 'irr_per', 'two_closed', 'tie', 'transient', 'absorbing', 'unvisited', 'never_entered', 'mixed'])
        n = rng.randint(2, 8)
        if kind == 'irr':
            m = rand_irreducible(rng, n)
        elif kind == 'irr_per':
            m = rand_irreducible(rng, n, aperiodic=False)
        elif kind == 'two_closed':
            a = rng.randint(1, max(1, n - 1))
            m = block_diag([rand_irreducible(rng, a), rand_irreducible(rng, max(1, n - a))])
        elif kind == 'tie':
            a = rng.randint(1, 3)
            m = block_diag([rand_irreducible(rng, a), rand_irreducible(rng, a)] + ([rand_irreducible(rng, 1)] if rng.random() < .3 else []))
        elif kind == 'transient':
            a = rng.randint(1, max(1, n - 1))
            m = block_diag([rand_irreducible(rng, a), rand_irreducible(rng, max(1, n - a))])
            m[rng.randrange(a)][a + rng.randrange(len(m) - a)] += 1      # leak from the first block into the second
        elif kind == 'absorbing':
            m = block_diag([rand_irreducible(rng, max(1, n - 1)), [[1]]])
            if rng.random() < 0.5:
                m[rng.randrange(len(m) - 1)][len(m) - 1] += 1
        elif kind == 'unvisited':
            m = block_diag([rand_irreducible(rng, max(1, n - 1)), [[0]]])
        elif kind == 'never_entered':
            m = block_diag([[[0]], rand_irreducible(rng, max(1, n - 1))])
            m[0][1 + rng.randrange(len(m) - 1)] = 1
        else:
            m = [[rng.choice([0, 0, 1, 2]) for _ in range(n)] for _ in range(n)]
        if rng.random() < 0.5:
            p = list(range(len(m)))
            rng.shuffle(p)
            m = [[m[p[i]][p[j]] for j in range(len(m))] for i in range(len(m))]
        yield m, kind


def normalise_counts(c):
    """float matrix the way a user would build it: counts / row sums (zero rows stay zero)"""
    a = np.array(c, dtype=np.float64)
    rs = a.sum(axis=1, keepdims=True)
    rs[rs == 0] = 1
    return a / rs
