/-
Main.lean — line-protocol driver.  One JSON object per input line, one JSON object per output line.
Run with `lake env lean --run Main.lean` (interpreted; model files import no Mathlib).
-/
import MsmVerif.Driver.Ops

open Lean MsmVerif

partial def loop (h : IO.FS.Stream) (out : IO.FS.Stream) : IO Unit := do
  let line ← h.getLine
  if line.isEmpty then return ()
  let trimmed := line.trimAscii.toString
  if trimmed.isEmpty then loop h out else
  let reply : Json :=
    match Json.parse trimmed with
    | .error e => Json.mkObj [("driver_error", Json.str s!"parse: {e}")]
    | .ok j =>
      match Driver.dispatch j with
      | .ok r => r
      | .error e => Json.mkObj [("driver_error", Json.str e)]
  out.putStrLn reply.compress
  out.flush
  loop h out

def main : IO Unit := do
  let out ← IO.getStdout
  loop (← IO.getStdin) out
  out.flush
