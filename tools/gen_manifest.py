#!/usr/bin/env python3
"""Regenerates MANIFEST.json from the table below (kept in one place so the manifest stays valid)."""
import json, os
HOME = os.path.dirname(os.path.dirname(os.path.abspath(__file__)))
ALL = ['C%02d' % i for i in range(1, 21)]

CLAIMED = {
 'C05': dict(
   text='Lean 4 proofs about the executable coring model (length, labels, per-trajectory, tau=1, runs >= tau, '
        'shortcut soundness, iterative = successive, idempotence, error iff no core, equivariance) for all trajectories, '
        'all tau, all label maps; the model is tied to md.dynamical_coring by an exhaustive small-scope + random '
        'correspondence check through the public API, and every real output is judged by the Lean `holds` oracle.',
   note='Lean kernel; axioms propext/Classical.choice/Quot.sound only; model = code is checked on the explored cases, not proved; '
        'numba typed-list conversion executed, not modelled.',
   technique='Lean 4 proof (list induction) + differential correspondence against the real code', ref='§7 C05'),
}

def main():
    checks = []
    for pid in ALL:
        if pid not in CLAIMED:
            continue
        c = CLAIMED[pid]
        checks.append({
            'property_id': pid,
            'quick_cmd': './bin/check %s quick' % pid,
            'thorough_cmd': './bin/check %s thorough' % pid,
            'evidence_file': 'evidence/%s.json' % pid,
            'replay_cmd_template': './bin/check %s --replay {path}' % pid,
            'engine': 'lean-model+correspondence',
            'level_claimed': {'category': 'proof', 'text': c['text'], 'design_ref': c['ref']},
            'level_note': c['note'],
            'technique': c['technique'],
        })
    na = [{'property_id': p, 'reason': 'check not built yet in this round (work in progress; see DESIGN.md §7)'}
          for p in ALL if p not in CLAIMED]
    man = {
        'version': 1,
        'setup_cmd': 'cd lean && lake build',
        'hooks': {
            'guard': 'MSMHELPER_VERIF',
            'enable': 'no source hooks: the checks run the working tree via PYTHONPATH=/repo/src; randomness is '
                      'controlled through numba._helperlib.rnd_set_state and module globals',
            'baseline_off_cmd': './bin/baseline_off',
            'source_commits': [],
            'add_only': True,
        },
        'engines': [{'name': 'lean-model+correspondence', 'path': 'lean/ + harness/',
                     'serves_properties': sorted(CLAIMED),
                     'kind_free_text': 'hand-written Lean 4 model with machine-checked theorems; Python correspondence '
                                       'harness drives the model through a JSON line protocol and judges real outputs '
                                       'with the Lean `holds` oracle'}],
        'checks': checks,
        'not_applicable': na,
        'notes': 'See DESIGN.md. Exit 0 held / 1 violation / 2 machinery failure.',
    }
    json.dump(man, open(os.path.join(HOME, 'MANIFEST.json'), 'w'), indent=1)
    print('claimed', len(checks), 'not_applicable', len(na))

if __name__ == '__main__':
    main()
