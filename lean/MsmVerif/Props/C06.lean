/-
Props/C06.lean — property theorems for C06 (md waiting times and loop-erased pathways).
Helper lemmas live in Lemmas/Events.lean.

Model of the code: `Events.events` (the open/closed automaton of `_estimate_events_singletraj`),
`Events.waitingTimes`, `Events.loopErase`/`Events.pathsAll`, `Events.validate`, `Events.mdWaitingTimes`, `Events.mdPaths`,
`Events.intersect` (`_intersect`).  Declarative reference: `Events.specEvents` ("first start frame, then the next final
frame, repeat"), `Events.specPath` (restart at the last start frame, then chronological loop erasure), `Events.groupPaths`.
Frames are read with `t.getD i 0` (the index is always in range where it matters).
-/
import MsmVerif.Lemmas.Events

namespace MsmVerif.C06
open MsmVerif MsmVerif.Events

/-! ### 1. merge-intersection -/

/-- On strictly ascending lists the merge loop `_intersect` returns the number of elements of `A` that occur in `B`,
i.e. `|A ∩ B|`. -/
theorem intersect_correct (A B : List Int) (hA : A.Pairwise (· < ·)) (hB : B.Pairwise (· < ·)) :
    intersect A B = (A.filter (fun x => B.contains x)).length :=
  intersect_eq_filter A B hA hB

example : List.Pairwise (· < ·) ([1, 3, 5] : List Int) ∧ List.Pairwise (· < ·) ([2, 3, 5, 8] : List Int) ∧
    (([1, 3, 5] : List Int).filter (fun x => ([2, 3, 5, 8] : List Int).contains x)).length = 2 := by decide

/-- `_intersect` returns 0 exactly for disjoint (strictly ascending) lists. -/
theorem intersect_eq_zero_iff (A B : List Int) (hA : A.Pairwise (· < ·)) (hB : B.Pairwise (· < ·)) :
    intersect A B = 0 ↔ ∀ x ∈ A, x ∉ B :=
  Events.intersect_eq_zero_iff A B hA hB

/-- `_intersect` returns `len(A)` exactly when `A ⊆ B` (strictly ascending lists). -/
theorem intersect_eq_length_iff (A B : List Int) (hA : A.Pairwise (· < ·)) (hB : B.Pairwise (· < ·)) :
    intersect A B = A.length ↔ ∀ x ∈ A, x ∈ B :=
  Events.intersect_eq_length_iff A B hA hB

/-! ### 3. the automaton equals the declarative events (soundness and completeness) -/

/-- The open/closed automaton returns exactly the spec events "first `S`-frame at or after the end of the previous
event + 1, then the first `F`-frame after it, repeat", in the same order.  No disjointness of `S` and `F` is needed. -/
theorem events_eq_spec (S F t : List Int) : events S F t = specEvents S F t :=
  events_eq_specEvents S F t

example : events [1] [2] [0, 1, 1, 3, 2, 2, 1, 2, 1] = [(1, 4), (6, 7)] := by decide

/-- What `firstIdx` means: `i` is the first frame at or after `lo` that satisfies `p`. -/
theorem firstIdx_spec (p : Int → Bool) (t : List Int) (lo i : Nat) :
    firstIdx p t lo = some i ↔
      lo ≤ i ∧ i < t.length ∧ p (t.getD i 0) = true ∧ ∀ m, lo ≤ m → m < i → p (t.getD m 0) = false :=
  firstIdx_eq_some_iff p t lo i

/-- The fuel `t.length + 1` of `specEvents` never runs out: the spec satisfies the fuel-free recursion. -/
theorem specEvents_unfold (S F t : List Int) (lo : Nat) :
    specEventsFrom S F t (t.length + 1) lo =
      match firstIdx (fun x => S.contains x) t lo with
      | none => []
      | some i =>
        match firstIdx (fun x => F.contains x) t (i + 1) with
        | none => []
        | some j => (i, j) :: specEventsFrom S F t (t.length + 1) (j + 1) :=
  specEventsFrom_unfold S F t lo

/-! ### 2. soundness in elementary terms -/

/-- Every event `(i, j)` returned for `t` starts in `S`, ends in `F`, lies inside the trajectory, and no frame strictly
between `i` and `j` is in `F` (the first `F`-frame closes the event). -/
theorem events_sound (S F t : List Int) (i j : Nat) (h : (i, j) ∈ events S F t) :
    i < j ∧ j < t.length ∧ t.getD i 0 ∈ S ∧ t.getD j 0 ∈ F ∧ ∀ m, i < m → m < j → t.getD m 0 ∉ F := by
  rw [events_eq_specEvents] at h
  obtain ⟨lo, h1, h2⟩ := mem_specEvents_firstIdx S F t i j h
  rw [firstIdx_eq_some_iff] at h1 h2
  obtain ⟨_, _, hS, _⟩ := h1
  obtain ⟨hij, hj, hF, hno⟩ := h2
  refine ⟨by omega, hj, by simpa using hS, by simpa using hF, ?_⟩
  intro m h1 h2
  have := hno m (by omega) h2
  simpa using this

/-- The start frame of each event is the FIRST `S`-frame at or after `lo`, where `lo = 0` for the first event and
`lo = (end of the previous event) + 1` otherwise. -/
theorem events_start_first (S F t : List Int) (pre post : List (Nat × Nat)) (i j : Nat)
    (h : events S F t = pre ++ (i, j) :: post) :
    (match pre.getLast? with | none => 0 | some e => e.2 + 1) ≤ i ∧
    ∀ m, (match pre.getLast? with | none => 0 | some e => e.2 + 1) ≤ m → m < i → t.getD m 0 ∉ S := by
  rw [events_eq_specEvents] at h
  have h1 := (specEventsFrom_split S F t _ 0 pre post i j h).1
  rw [firstIdx_eq_some_iff] at h1
  obtain ⟨hlo, _, _, hno⟩ := h1
  refine ⟨hlo, ?_⟩
  intro m hm hmi
  have := hno m hm hmi
  simpa using this

example : (6, 7) ∈ events [1] [2] [0, 1, 1, 3, 2, 2, 1, 2, 1] ∧
    events [1] [2] [0, 1, 1, 3, 2, 2, 1, 2, 1] = [(1, 4)] ++ (6, 7) :: [] := by decide

/-! ### 4. trajectories are handled one by one -/

/-- Waiting times of a concatenated trajectory set are the concatenation: no event spans two trajectories, each
trajectory starts from the initial (closed) automaton state. -/
theorem per_traj (S F : List Int) (A B : Trajs) :
    waitingTimes S F (A ++ B) = waitingTimes S F A ++ waitingTimes S F B := by
  simp [waitingTimes]

/-- Same for the (path, duration) tuples. -/
theorem per_traj_paths (S F : List Int) (A B : Trajs) :
    pathsAll S F (A ++ B) = pathsAll S F A ++ pathsAll S F B := by
  simp [pathsAll]

/-- A duration is reported iff it is the length `j - i` of an event of one single trajectory. -/
theorem mem_waitingTimes_iff (S F : List Int) (ts : Trajs) (d : Nat) :
    d ∈ waitingTimes S F ts ↔ ∃ t ∈ ts, ∃ e ∈ events S F t, d = e.2 - e.1 := by
  simp only [waitingTimes, List.mem_flatten, List.mem_map]
  constructor
  · rintro ⟨l, ⟨t, ht, rfl⟩, hd⟩
    obtain ⟨e, he, rfl⟩ := List.mem_map.mp hd
    exact ⟨t, ht, e, he, rfl⟩
  · rintro ⟨t, ht, e, he, rfl⟩
    exact ⟨_, ⟨t, ht, rfl⟩, List.mem_map.mpr ⟨e, he, rfl⟩⟩

/-- An event that is still open at the end of a trajectory is dropped: frames without any `F`-label appended to a
trajectory do not change its events (in particular a trajectory without `F`-frames has no events). -/
theorem open_event_dropped (S F t u : List Int) (hu : ∀ x ∈ u, x ∉ F) : events S F (t ++ u) = events S F t :=
  eventsFrom_append_noF S F {} 0 t u (fun x hx => by simpa using hu x hx)

example : events [1] [2] ([0, 1, 3, 2] ++ [3, 1, 3]) = [(1, 3)] ∧ ∀ x ∈ ([3, 1, 3] : List Int), x ∉ ([2] : List Int) := by
  decide

/-! ### 5. loop-erased paths -/

/-- The code's path loop ("reset on a start-basin label, cut back on a revisit, else append") equals the spec path:
restart at the LAST `S`-frame of the segment, then chronological loop erasure.  Holds for every segment (an event
segment always starts with an `S`-frame). -/
theorem loopErase_eq_spec (S seg : List Int) : loopErase S seg = specPath S seg :=
  loopErase_eq_specPath S seg

example : loopErase [1] [1, 3, 1, 4, 3, 4, 2] = [1, 4, 2] ∧ specPath [1] [1, 3, 1, 4, 3, 4, 2] = [1, 4, 2] := by decide

/-- If the segment starts with an `S`-frame, the path starts with the LAST `S`-frame of the segment. -/
theorem path_head (S seg : List Int) (hs : ∀ s, seg.head? = some s → s ∈ S) :
    (loopErase S seg).head? = seg.reverse.find? (fun x => S.contains x) :=
  loopErase_head? S seg (fun s h => by simpa using hs s h)

example : (∀ s, ([1, 3, 1, 4, 3, 4, 2] : List Int).head? = some s → s ∈ ([1] : List Int)) ∧
    (loopErase [1] [1, 3, 1, 4, 3, 4, 2]).head? = some 1 := by
  refine ⟨?_, by decide⟩
  intro s hs; cases hs; decide

/-- The path ends with the last frame of the segment. -/
theorem path_last (S seg : List Int) : (loopErase S seg).getLast? = seg.getLast? := loopErase_getLast? S seg

/-- No label is repeated in the path. -/
theorem path_nodup (S seg : List Int) : (loopErase S seg).Nodup := loopErase_nodup S seg

/-- Every consecutive pair of labels of the path occurs consecutively in the segment. -/
theorem path_adj (S seg : List Int) (a b : Int)
    (h : (a, b) ∈ (loopErase S seg).zip (loopErase S seg).tail) : (a, b) ∈ seg.zip seg.tail :=
  loopErase_adj S seg (a, b) h

/-- For every event of a trajectory the loop-erased path of its segment `t[i..j]` has the required shape (all four
facts above, packaged by `pathShapeOk`).  No disjointness of `S`, `F` is needed. -/
theorem path_shape (S F t : List Int) (e : Nat × Nat) (he : e ∈ events S F t) :
    pathShapeOk S F t e (loopErase S ((t.drop e.1).take (e.2 - e.1 + 1))) = true := by
  obtain ⟨i, j⟩ := e
  obtain ⟨hij, hj, hS, _⟩ := events_sound S F t i j he
  apply pathShapeOk_loopErase
  intro s hs
  rw [seg_head? t i (j - i) (by omega)] at hs
  cases hs
  simpa using hS

/-- The same for the spec path. -/
theorem path_shape_spec (S F t : List Int) (e : Nat × Nat) (he : e ∈ specEvents S F t) :
    pathShapeOk S F t e (specPath S ((t.drop e.1).take (e.2 - e.1 + 1))) = true := by
  rw [← loopErase_eq_specPath]
  exact path_shape S F t e (by rw [events_eq_specEvents]; exact he)

example : (0, 6) ∈ events [1] [2] [1, 3, 1, 4, 3, 4, 2] ∧
    loopErase [1] (([1, 3, 1, 4, 3, 4, 2] : List Int).drop 0 |>.take (6 - 0 + 1)) = [1, 4, 2] := by decide

/-! ### 6. the dictionary is a partition of the waiting times -/

/-- The durations of the (path, duration) tuples are exactly the waiting times, in order. -/
theorem paths_durations (S F : List Int) (ts : Trajs) : (pathsAll S F ts).map (·.2) = waitingTimes S F ts :=
  pathsAll_durations S F ts

/-- All durations stored in the dictionary, taken together, are a permutation of the durations of the tuples. -/
theorem partition (l : List (List Int × Nat)) : (((groupPaths l).map (·.2)).flatten).Perm (l.map (·.2)) :=
  groupPaths_flatten_perm l

/-- Hence the dictionary values of `estimate_paths` form a partition (as a multiset) of the waiting times. -/
theorem partition_waitingTimes (S F : List Int) (ts : Trajs) :
    (((groupPaths (pathsAll S F ts)).map (·.2)).flatten).Perm (waitingTimes S F ts) := by
  rw [← pathsAll_durations]; exact groupPaths_flatten_perm _

/-- The dictionary keys are pairwise different. -/
theorem dict_keys_nodup (l : List (List Int × Nat)) : ((groupPaths l).map (·.1)).Nodup := groupPaths_keys_nodup l

/-- Each event lands under exactly its own path: the bucket of path `k` exists iff `k` occurs, and then it holds
precisely the durations of the tuples with path `k`, in order of occurrence. -/
theorem dict_bucket (l : List (List Int × Nat)) (k : List Int) (ds : List Nat) :
    (k, ds) ∈ groupPaths l ↔ ds ≠ [] ∧ ds = (l.filter (fun e => e.1 == k)).map (·.2) :=
  mem_groupPaths_iff l k ds

example : groupPaths [([1, 2], 3), ([1, 3, 2], 5), ([1, 2], 1)] = [([1, 3, 2], [5]), ([1, 2], [3, 1])] := by decide

/-! ### 7. rejection -/

/-- `estimate_waiting_times` raises `ValueError` exactly when `start` and `final` overlap or one of them contains a
label that does not occur in the trajectories (given that the `StateTraj` constructor succeeded). -/
theorem reject (ts : Trajs) (start final : List Int) (st : StateTraj) (h : StateTraj.mk' ts = .ok st) :
    mdWaitingTimes ts start final = .error .value ↔
      (∃ x ∈ start, x ∈ final) ∨ (∃ x ∈ start, x ∉ ts.flatten) ∨ (∃ x ∈ final, x ∉ ts.flatten) := by
  rw [mdWaitingTimes_eq ts start final st h]
  have hb := badSets_eq_true_iff (sortDedup start) (sortDedup final) (states ts)
  simp only [mem_sortDedup, mem_states] at hb
  rw [← hb]
  by_cases hbad : badSets (sortDedup start) (sortDedup final) (states ts) = true
  · rw [if_pos hbad]; simp [hbad]
  · rw [if_neg hbad]; simp [hbad]

/-- Otherwise it succeeds with the waiting times for the unique-sorted sets; no other error is possible. -/
theorem accept (ts : Trajs) (start final : List Int) (st : StateTraj) (h : StateTraj.mk' ts = .ok st)
    (hok : ¬ ((∃ x ∈ start, x ∈ final) ∨ (∃ x ∈ start, x ∉ ts.flatten) ∨ (∃ x ∈ final, x ∉ ts.flatten))) :
    mdWaitingTimes ts start final = .ok (waitingTimes (sortDedup start) (sortDedup final) ts) := by
  rw [mdWaitingTimes_eq ts start final st h]
  have hb := badSets_eq_true_iff (sortDedup start) (sortDedup final) (states ts)
  simp only [mem_sortDedup, mem_states] at hb
  rw [← hb] at hok
  rw [if_neg hok]

/-- The same rejection rule for `estimate_paths`. -/
theorem reject_paths (ts : Trajs) (start final : List Int) (st : StateTraj) (h : StateTraj.mk' ts = .ok st) :
    mdPaths ts start final = .error .value ↔
      (∃ x ∈ start, x ∈ final) ∨ (∃ x ∈ start, x ∉ ts.flatten) ∨ (∃ x ∈ final, x ∉ ts.flatten) := by
  rw [mdPaths_eq ts start final st h]
  have hb := badSets_eq_true_iff (sortDedup start) (sortDedup final) (states ts)
  simp only [mem_sortDedup, mem_states] at hb
  rw [← hb]
  by_cases hbad : badSets (sortDedup start) (sortDedup final) (states ts) = true
  · rw [if_pos hbad]; simp [hbad]
  · rw [if_neg hbad]; simp [hbad]

/-- `np.unique` of the labels is strictly ascending and has the same members — what `_intersect` relies on. -/
theorem states_sorted (ts : Trajs) : (states ts).Pairwise (· < ·) ∧ ∀ x, x ∈ states ts ↔ x ∈ ts.flatten :=
  ⟨pairwise_states ts, mem_states ts⟩

example : StateTraj.mk' [[0, 1, 2, 1], [2, 0]] = .ok ⟨[[0, 1, 2, 1], [2, 0]], [0, 1, 2]⟩ := by decide

/-! ### 8. the model satisfies the oracles -/

/-- The modelled `estimate_waiting_times` satisfies the oracle `holdsWt` (error exactly on bad sets; otherwise the
durations of the spec events, trajectory by trajectory). -/
theorem holds_of_model (ts : Trajs) (start final : List Int) (st : StateTraj) (h : StateTraj.mk' ts = .ok st) :
    holdsWt ts start final (mdWaitingTimes ts start final) = true :=
  holdsWt_model ts start final st h

/-- The modelled `estimate_paths` (tuples grouped into the dictionary) satisfies the oracle `holdsPaths`: the same
finite map as grouping the spec events by their spec path. -/
theorem holds_of_model_paths (ts : Trajs) (start final : List Int) (st : StateTraj) (h : StateTraj.mk' ts = .ok st) :
    holdsPaths ts start final ((mdPaths ts start final).map groupPaths) = true :=
  holdsPaths_model ts start final st h

end MsmVerif.C06
