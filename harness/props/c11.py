"""C11 — trajectories are independent pieces in every analysis (ragged sets, permutations, cuts; delegated to the per-function models)."""
import numpy as np

import core
import gen
from props import c01, c05, c06, c13

PID = 'C11'
ANCHORS = c01.ANCHORS + c05.ANCHORS + c06.ANCHORS + [('src/msmhelper/msm/tests.py', ['chapman_kolmogorov_test']),
                                                       ('src/msmhelper/msm/timescales.py', ['implied_timescales', '_get_cummat'])]
RULE = ('sets of 1-6 trajectories of mutually different lengths (incl. length 1 and shorter than the lag), every alphabet class; for each set: the set '
        'itself, a random permutation (all permutations for <=3 trajectories in thorough) and every cut position of one trajectory (sampled in quick); '
        'functions: estimate_markov_model, dynamical_coring, md waiting times, md paths, compare_discretization — each compared with the Lean model of '
        'the whole set (the theorems C11.count_append/count_perm/count_cut, C06.per_traj, C05.per_traj say what the model does with sets); plus '
        'real-vs-real invariance of implied_timescales, ck_test and the sampling cummat under permutation. Non-trivial = >=2 trajectories; distinct by case.')
RELATION = 'public function on a ragged / permuted / cut set = Lean model of that function on the same set; aggregated outputs identical under permutation'
SUB = {'estimate': c01, 'coring': c05, 'md_wt': c06, 'md_paths': c06, 'compare': c13}


def _variants(rng, trajs, tier):
    yield 'orig', trajs
    p = list(range(len(trajs)))
    rng.shuffle(p)
    yield 'perm', [trajs[i] for i in p]
    cand = [(i, pos) for i, t in enumerate(trajs) for pos in range(1, len(t))]
    if cand:
        picks = cand if tier == 'thorough' and len(cand) <= 12 else rng.sample(cand, min(2, len(cand)))
        for i, pos in picks:
            yield 'cut', trajs[:i] + [trajs[i][:pos], trajs[i][pos:]] + trajs[i + 1:]


def cases(tier, rng, boost=1):
    # corpus: a leading trajectory shorter than the lag; an event pending at a trajectory end
    base = [[[0, 1], [1, 2, 2, 0, 0, 1, 2, 1, 0, 2, 2]], [[1, 2, 2, 1, 3, 1, 2], [2, 1, 2, 3, 3, 1, 3]]]
    yield dict(c01._mk(base[0], 3, src='corpus', cls='zero'), fn='estimate', variant='orig')
    yield dict(c06._mk('md_wt', base[1], [1], [3], src='corpus'), fn='md_wt', variant='orig')
    for trajs, form, tag in gen.special_sets(core.Rng(13)):
        yield dict(c01._mk(trajs, 2, form=form, src='corpus', cls=tag), fn='estimate', variant='orig')
        yield dict(c01._mk(trajs[::-1], 2, form=form, src='corpus', cls=tag), fn='estimate', variant='perm')
    n = {'quick': 250, 'thorough': 3000, 'search': 700}[tier] * boost
    for _ in range(n):
        ns = rng.randint(2, 5)
        labs, cls = gen.alphabet(rng, ns)
        ntraj = rng.randint(1, 6)
        idx = gen.random_trajs(rng, ns, ntraj, 1, 25, sticky=rng.choice([0.4, 0.7]), distinct_lengths=True)
        if rng.random() < 0.3:
            idx[rng.randrange(len(idx))] = idx[0][:1]          # a trajectory of length 1
        trajs0 = gen.relabel(idx, labs)
        occ = sorted({x for t in trajs0 for x in t})
        fn = rng.choice(['estimate', 'estimate', 'coring', 'md_wt', 'md_paths', 'compare'])
        lag = rng.choice([1, 2, 3, 5, 8])
        tau = rng.randint(1, 5)
        S = [rng.choice(occ)]
        F = [rng.choice([o for o in occ if o not in S] or [occ[0] + 99])]
        for variant, trajs in _variants(rng, trajs0, tier):
            if fn == 'estimate':
                c = c01._mk(trajs, lag, form=rng.choice(['list_of_arrays', 'mixed_arrays', 'per_array_narrow', 'unsigned_mixed']), cls=cls)
            elif fn == 'coring':
                c = c05._mk(trajs, tau, rng.random() < 0.6)
            elif fn in ('md_wt', 'md_paths'):
                c = c06._mk(fn, trajs, S, F)
            else:
                if len(occ) < 2:
                    continue
                other = [[(x * 7 + 3) % 5 for x in t] for t in trajs]
                c = c13._mk(trajs, other, rng.choice([0, 1]), threads=rng.choice([1, 3, 16]))
            yield dict(c, fn=fn, variant=variant, base=trajs0 if variant == 'perm' and fn == 'estimate' else None, lag0=lag)


def _meta_perm(case):
    """real-vs-real: aggregated outputs are identical when the trajectories are permuted"""
    import msmhelper as mh
    a = [np.array(t) for t in case['base']]
    b = [np.array(t) for t in case['trajs']]
    lag = case['lag0']
    out = {}
    try:
        ia, ib = mh.msm.implied_timescales(a, [lag]), mh.msm.implied_timescales(b, [lag])
        out['its'] = bool(np.array_equal(ia, ib, equal_nan=True))
    except Exception as e:  # noqa
        out['its'] = 'err:' + core.err_name(e)
    try:
        ca, cb = mh.msm.ck_test(a, [lag], tmax=3 * lag), mh.msm.ck_test(b, [lag], tmax=3 * lag)
        ok = True
        for k in ca:
            for s in ca[k]['ck']:
                ok = ok and np.array_equal(ca[k]['ck'][s], cb[k]['ck'][s], equal_nan=True)
            ok = ok and np.array_equal(ca[k]['time'], cb[k]['time'])
        out['ck'] = bool(ok)
    except Exception as e:  # noqa
        out['ck'] = 'err:' + core.err_name(e)
    try:
        from msmhelper.msm import timescales as ts
        qa, qb = ts._get_cummat(a, lag), ts._get_cummat(b, lag)
        out['cummat'] = bool(np.array_equal(qa[0], qb[0]) and np.array_equal(qa[1], qb[1]))
    except Exception as e:  # noqa
        out['cummat'] = 'err:' + core.err_name(e)
    return out


def real(case):
    obs = SUB[case['fn']].real(case)
    if case.get('base'):
        obs = dict(obs, meta=_meta_perm(case))
    return obs


def request(case, obs):
    o = dict(obs)
    o.pop('meta', None)
    return SUB[case['fn']].request(case, o)


def agree(case, obs, reply):
    return SUB[case['fn']].agree(case, obs, reply)


def holds(case, obs, reply):
    ok = SUB[case['fn']].holds(case, obs, reply)
    meta = obs.get('meta')
    if meta:
        ok = ok and all(v is True or (isinstance(v, str) and v.startswith('err:')) for v in meta.values())
        # an error must be the same kind of error for both orders: covered by equality of the Lean-judged outputs
    return ok


def nontrivial(case, obs, reply):
    return len(case.get('trajs', case.get('t1', []))) >= 2


def key(case):
    return [case['fn'], case['variant'], SUB[case['fn']].key(case)]


def classify(case, obs, reply):
    return '%s/%s/%s' % (case['fn'], case['variant'], obs.get('err', 'ok'))


def known_match(k, case, obs, reply):
    return False


def shrink(case):
    sub = SUB[case['fn']]
    if hasattr(sub, 'shrink'):
        for c in sub.shrink(case):
            yield dict(c, base=None)
