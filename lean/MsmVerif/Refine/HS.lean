/-
Refine/HS.lean — task RP8 (property C03): the function TRANSLATED from `LumpedStateTraj._estimate_markov_model`
(`Gen.StateTrajHS.estimate_markov_model`, numpy runtime `Gen/NpRt.lean`) computes exactly the hand-written model
`Linalg.hsProject` (Hummer–Szabo projection), for every coherent object state and every well-shaped micro matrix, once the
oracle call `mh.msm.peq(msm_i)` returns the stationary vector the model uses.  Also: the runtime's Gauss–Jordan inverse, matrix
product and the translated `row_normalize_matrix` are the model's `inverse`, `mul`, `rowNormalizeQ`.

Coherence of the object's attributes (what the constructor of `LumpedStateTraj` establishes), with `n` micro states, `k` macro
states and `assign : List Nat` the macro index of every micro index:
`micro.length = n`, `states.length = k`, `states.Nodup`, `assign.length = n`, all entries of `assign` are `< k`,
`sa = assign.map (states[·])`, `saIdx = assign.map Int.ofNat`, `nmicrostates = n`, `nstates = k`.
("Every macro state is used" is NOT needed for the equality.)
-/
import MsmVerif.Refine.HSLemmas

namespace MsmVerif.Refine.HS
open MsmVerif MsmVerif.Gen MsmVerif.Linalg MsmVerif.Msm MsmVerif.Bridge

/-! ### runtime = model for the pieces -/

/-- the runtime's Gauss–Jordan elimination round is literally the model's -/
theorem npGjStep_eq_gjStep : Gen.npGjStep = Linalg.gjStep := rfl

/-- the runtime's `np.eye` is the model's identity matrix -/
theorem npEye_eq_identity : Gen.npEye = Linalg.identity := rfl

/-- the runtime's transpose of a rational 2-d array is the model's transpose (any array, also ragged or empty) -/
theorem npTranspose_eq_transpose (m : List (List Rat)) : Gen.npTranspose m = Linalg.transpose m := npTranspose_eq m

/-- the runtime's unchecked matrix product is the model's `mul` (any arrays) -/
theorem npMul_eq_mul (a b : List (List Rat)) : Gen.npMul a b = Linalg.mul a b := npMul_eq a b

/-- `a @ b` raises no `ValueError` and is the model's product when the inner dimensions agree -/
theorem npMatMul_eq_mul (a b : List (List Rat)) (h : Gen.npShape1 a = Gen.npShape0 b) :
    Gen.npMatMul a b = .ok (Linalg.mul a b) := by
  unfold npMatMul
  rw [if_pos h, npMul_eq]

/-- `np.linalg.inv` of the runtime on an array whose two shape entries agree is the model's `inverse`
    (`LinAlgError` ↦ `none`) -/
theorem npInv_eq_inverse_of_shape (m : List (List Rat)) (hsq : Gen.npShape0 m = Gen.npShape1 m) :
    Gen.npInv m = (match Linalg.inverse m with | some a => .ok a | none => .error .other) := npInv_eq m hsq

/-- `np.linalg.inv` of the runtime on a square matrix (every row as long as the matrix has rows; any size, also `0 × 0`) is
    the model's `inverse`: same result when invertible, `LinAlgError` exactly when the model returns `none` -/
theorem npInv_eq_inverse (m : List (List Rat)) (hsq : ∀ r ∈ m, r.length = m.length) :
    Gen.npInv m = (match Linalg.inverse m with | some a => .ok a | none => .error .other) := by
  apply npInv_eq
  cases m with
  | nil => rfl
  | cons r rs =>
    have := hsq r (by simp)
    simp only [npShape0, npShape1, this]

/-- on an array whose two shape entries differ the runtime's `np.linalg.inv` raises `LinAlgError` (the model's `inverse` is only
    meant for square input, so nothing is claimed about it there) -/
theorem npInv_nonsquare (m : List (List Rat)) (h : Gen.npShape0 m ≠ Gen.npShape1 m) : Gen.npInv m = .error .other := by
  unfold npInv
  simp only [h, ne_eq, not_false_eq_true, if_true]

/-- the translated `row_normalize_matrix` never raises and returns the model's `rowNormalizeQ` — for EVERY 2-d array
    (rows with sum 0 are divided by 1); in particular every division has a non-zero divisor -/
theorem row_normalize_refines (mat : List (List Rat)) :
    Gen.MsmNorm.row_normalize_matrix mat = .ok (Msm.rowNormalizeQ mat) := row_normalize_ok mat

/-- the fancy-index assignment `aggret[(arange(n), idx)] = 1` on the zero `n × k` array raises no `IndexError` and yields the
    model's aggregation matrix (row `i` is the unit vector of macro state `assign[i]`) -/
theorem aggregation_refines (assign : List Nat) (n k : Nat) (hlen : assign.length = n) (hlt : ∀ s ∈ assign, s < k) :
    Gen.npSetPairs (Gen.pyFull2 (n : Int) (k : Int) (0 : Rat)) (Gen.npArange 0 (n : Int)) (assign.map Int.ofNat) (1 : Rat)
      = .ok (assign.map (fun s => (List.range k).map (fun a => if s = a then (1 : Rat) else 0))) :=
  aggret_ok assign n k hlen hlt

/-- the list comprehension `[sum(peq_i[state_assignment == state]) for state in states]` raises no `IndexError` and yields the
    model's per-macro-state sums of `π` -/
theorem lumped_population_refines (pi : List Rat) (states sa : List Int) (assign : List Nat) (k : Nat)
    (hk : states.length = k) (hnd : states.Nodup) (hlt : ∀ s ∈ assign, s < k)
    (hsa : sa = assign.map (fun a => states.getD a 0)) (hpi : pi.length = assign.length) :
    states.mapM (fun state => do
        let t2 ← Gen.npMaskGet pi (sa.map (fun x_ => x_ == state))
        pure (Gen.npSum1 t2))
      = (.ok ((List.range k).map (fun a =>
          ((List.zip pi assign).filterMap (fun (p, s) => if s = a then some p else none)).sum)) : Py (List Rat)) :=
  peqA_ok pi states sa assign k hk hnd hlt hsa hpi

/-- `msm_a[msm_a < 0] = 0` raises no `IndexError` and replaces exactly the negative entries by 0 (any 2-d array) -/
theorem clip_refines (m : List (List Rat)) :
    Gen.npMaskSet2 m (m.map (fun r_ => r_.map (fun x_ => decide (x_ < (((0 : Int) : Int) : Rat))))) (0 : Rat)
      = .ok (m.map (fun r => r.map (fun x => if x < 0 then 0 else x))) := clip_ok m

/-! ### the projection -/

/-- the model splits at the stationary vector: `hsProject` is `stationary T` followed by `hsWith` (the two inverses, the
    aggregation, the outer products, clipping and row normalisation for a given `π`) -/
theorem hsProject_eq_stationary_bind (T : Mat) (assign : List Nat) (m : Nat) (positive : Bool) :
    Linalg.hsProject T assign m positive = (Linalg.stationary T).bind (fun pi => hsWith T pi assign m positive) :=
  hsProject_eq_hsWith T assign m positive

/-- For a coherent object, a rectangular `n × n` micro matrix `T` (`n ≥ 1`) and ANY vector `π` of length `n` returned by the oracle
    `peq`, the translated function returns exactly the model's computation downstream of `π` (`hsWith`): no `IndexError` or
    `ValueError` is raised, and `LinAlgError` is raised exactly when one of the two matrices to invert is singular. -/
theorem hs_refines_core (ext_peq : List (List Rat) → Py (List Rat)) (micro states sa saIdx : List Int) (assign : List Nat)
    (n k : Nat) (positive : Bool) (T : List (List Rat)) (pi : List Rat)
    (hT : WF n n T) (hn : 0 < n) (hmicro : micro.length = n) (hstates : states.length = k) (hnd : states.Nodup)
    (hlen : assign.length = n) (hlt : ∀ s ∈ assign, s < k)
    (hsa : sa = assign.map (fun a => states.getD a 0)) (hidx : saIdx = assign.map Int.ofNat)
    (hpi : pi.length = n) (hpeq : ext_peq T = .ok pi) :
    Gen.StateTrajHS.estimate_markov_model ext_peq micro states sa saIdx (n : Int) (k : Int) positive T
      = (match hsWith T pi assign k positive with | some M => .ok M | none => .error .other) :=
  hs_core ext_peq micro states sa saIdx assign n k positive T pi hT hn hmicro hstates hnd hlen hlt hsa hidx hpi hpeq

/-- If the oracle returns the exact stationary vector the model uses (`Linalg.stationary T = some π`, `ext_peq T = .ok π`), then
    for every coherent object and every rectangular `n × n` micro matrix the translated projection returns exactly the model's
    `hsProject` (LinAlgError ↦ `none`); in particular the two inverses, the aggregation matrix, the outer products `1 πᵀ`, the
    clipping for `positive=True` and the final row normalisation are the model's, and no `IndexError`/`ValueError` occurs. -/
theorem hs_refines (ext_peq : List (List Rat) → Py (List Rat)) (micro states sa saIdx : List Int) (assign : List Nat)
    (n k : Nat) (positive : Bool) (T : List (List Rat)) (pi : List Rat)
    (hT : WF n n T) (hmicro : micro.length = n) (hstates : states.length = k) (hnd : states.Nodup)
    (hlen : assign.length = n) (hlt : ∀ s ∈ assign, s < k)
    (hsa : sa = assign.map (fun a => states.getD a 0)) (hidx : saIdx = assign.map Int.ofNat)
    (hstat : Linalg.stationary T = some pi) (hpeq : ext_peq T = .ok pi) :
    Gen.StateTrajHS.estimate_markov_model ext_peq micro states sa saIdx (n : Int) (k : Int) positive T
      = (match Linalg.hsProject T assign k positive with | some M => .ok M | none => .error .other) := by
  obtain ⟨hn, hpi, -⟩ := MsmVerif.HS.stationary_spec hT hstat
  rw [hsProject_eq_hsWith, hstat, Option.bind_some]
  exact hs_core ext_peq micro states sa saIdx assign n k positive T pi hT hn hmicro hstates hnd hlen hlt hsa hidx hpi hpeq

/-- If the oracle `peq` raises an error, the translated function raises the same error (for all arguments). -/
theorem hs_oracle_error (ext_peq : List (List Rat) → Py (List Rat)) (micro states sa saIdx : List Int)
    (nmicro nstates : Int) (positive : Bool) (T : List (List Rat)) (e : Err) (hpeq : ext_peq T = .error e) :
    Gen.StateTrajHS.estimate_markov_model ext_peq micro states sa saIdx nmicro nstates positive T = .error e := by
  unfold Gen.StateTrajHS.estimate_markov_model
  simp only []
  rw [hpeq]
  rfl

/-! ### non-vacuity: concrete inputs satisfying all hypotheses, both sides evaluate to the same matrix -/

/-- an oracle that returns the model's stationary vector -/
def exactPeq (T : List (List Rat)) : Py (List Rat) :=
  match Linalg.stationary T with
  | some p => .ok p
  | none => .error .value

/-- 3 micro states (labels 10, 11, 12) lumped into 2 macro states (labels 3, 7): all hypotheses of `hs_refines` hold, and both
    sides are the matrix `[[3/4, 1/4], [2/3, 1/3]]` -/
example :
    let T : Mat := [[1/2, 1/4, 1/4], [1/4, 1/2, 1/4], [1/3, 1/3, 1/3]]
    let states : List Int := [3, 7]
    let assign : List Nat := [0, 0, 1]
    WF 3 3 T ∧ [10, 11, 12].length = 3 ∧ states.length = 2 ∧ states.Nodup ∧ assign.length = 3 ∧ (∀ s ∈ assign, s < 2) ∧
      [3, 3, 7] = assign.map (fun a => states.getD a 0) ∧ [0, 0, 1] = assign.map Int.ofNat ∧
      Linalg.stationary T = some [4/11, 4/11, 3/11] ∧ exactPeq T = .ok [4/11, 4/11, 3/11] ∧
      Gen.StateTrajHS.estimate_markov_model exactPeq [10, 11, 12] states [3, 3, 7] [0, 0, 1] 3 2 false T
        = .ok [[3/4, 1/4], [2/3, 1/3]] ∧
      Linalg.hsProject T assign 2 false = some [[3/4, 1/4], [2/3, 1/3]] := by
  unfold WF; decide +kernel

/-- a cyclic 3-state chain with `positive = True`: the clipping branch is exercised (the un-clipped projection has the entry `-1/3`);
    translation and model agree on `[[1/3, 2/3], [1, 0]]` -/
example :
    let T : Mat := [[0, 1, 0], [0, 0, 1], [1, 0, 0]]
    Linalg.stationary T = some [1/3, 1/3, 1/3] ∧ exactPeq T = .ok [1/3, 1/3, 1/3] ∧
      Gen.StateTrajHS.estimate_markov_model exactPeq [10, 11, 12] [3, 7] [3, 3, 7] [0, 0, 1] 3 2 true T
        = .ok [[1/3, 2/3], [1, 0]] ∧
      Linalg.hsProject T [0, 0, 1] 2 true = some [[1/3, 2/3], [1, 0]] ∧
      Linalg.hsProject T [0, 0, 1] 2 false = some [[1/3, 2/3], [4/3, -1/3]] := by
  decide +kernel

/-- LinAlgError case: with macro state 1 unused the aggregated matrix is singular; translation raises `LinAlgError`
    (`Err.other`) and the model returns `none` -/
example :
    let T : Mat := [[1/2, 1/2], [1/4, 3/4]]
    Linalg.stationary T = some [1/3, 2/3] ∧
      Gen.StateTrajHS.estimate_markov_model exactPeq [10, 11] [3, 7] [3, 3] [0, 0] 2 2 false T = .error .other ∧
      Linalg.hsProject T [0, 0] 2 false = none := by
  decide +kernel

/-- `npInv_eq_inverse`: a square invertible and a square singular matrix -/
example : Gen.npInv [[2, 1], [1, 1]] = .ok [[1, -1], [-1, 2]] ∧ Linalg.inverse [[2, 1], [1, 1]] = some [[1, -1], [-1, 2]] ∧
    Gen.npInv [[1, 2], [2, 4]] = .error .other ∧ Linalg.inverse [[1, 2], [2, 4]] = none := by
  decide +kernel

/-- `row_normalize_refines`: a zero row is left unchanged (divided by 1) -/
example : Gen.MsmNorm.row_normalize_matrix [[1, 3], [0, 0]] = .ok [[1/4, 3/4], [0, 0]] := by decide +kernel

/-- oracle error is propagated -/
example : Gen.StateTrajHS.estimate_markov_model (fun _ => .error .value) [10, 11] [3, 7] [3, 7] [0, 1] 2 2 false
    [[1/2, 1/2], [1/4, 3/4]] = .error .value :=
  hs_oracle_error _ _ _ _ _ _ _ _ _ _ rfl

end MsmVerif.Refine.HS

section AxiomCheck
open MsmVerif.Refine.HS
end AxiomCheck
