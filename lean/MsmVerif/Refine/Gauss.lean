/-
Refine/Gauss.lean — the translated `gaussian_filter` (`utils/filtering.py`, regenerated into `Gen/UtilsGauss.lean` on every run) for a
1-d, a 2-d and a 3-d float array.  The two scipy filters are oracle parameters whose NAMES record the keyword arguments of the call
(`gaussian_filter1d(…, mode='nearest')`, `gaussian_filter(…, sigma=(sigma, 0), mode='nearest')`): a call with other keywords is not
translated.  Property C20.
-/
import MsmVerif.Gen.UtilsGauss
import MsmVerif.Props.C20

set_option linter.unusedSimpArgs false

namespace MsmVerif.Refine.Gauss
open MsmVerif MsmVerif.Gen MsmVerif.Filter

/-- a 1-d array goes to the 1-d filter (edge mode `nearest`), and nothing else happens: no error of its own, the 2-d filter is not consulted -/
theorem gaussian_filter_1d_eq (f1 : List Rat → Rat → Py (List Rat)) (f2 : List (List Rat) → Rat → Py (List (List Rat)))
    (a : List Rat) (σ : Rat) : Gen.UtilsGauss.gaussian_filter_1d f1 f2 a σ = f1 a σ := by
  unfold Gen.UtilsGauss.gaussian_filter_1d
  cases h : f1 a σ <;> simp [h, bind, Except.bind, pure, Except.pure]

/-- a 2-d array goes to the n-d filter with `sigma = (σ, 0)` — along axis 0 only — and edge mode `nearest`; the 1-d filter is not consulted -/
theorem gaussian_filter_2d_eq (f1 : List Rat → Rat → Py (List Rat)) (f2 : List (List Rat) → Rat → Py (List (List Rat)))
    (t : List (List Rat)) (σ : Rat) : Gen.UtilsGauss.gaussian_filter_2d f1 f2 t σ = f2 t σ := by
  unfold Gen.UtilsGauss.gaussian_filter_2d
  cases h : f2 t σ <;> simp [h, bind, Except.bind, pure, Except.pure]

/-- more than two dimensions: `ValueError`, whatever the filters would do (neither is consulted) -/
theorem gaussian_filter_3d_rejects (f1 : List Rat → Rat → Py (List Rat)) (f2 : List (List Rat) → Rat → Py (List (List Rat)))
    (a : List (List (List Rat))) (σ : Rat) : Gen.UtilsGauss.gaussian_filter_3d f1 f2 a σ = .error .value := rfl

/-- With the scipy contract (the axis-0 filter of width σ acts on a table as the model's `filtTable w`, `w` the weight vector of σ — validated by the
harness as impulse response of the real filter): the result is `filtTable w t`, it has the input's number of rows, and column `j` of the result is the
1-d filter of column `j` of the input alone (`C20.columns`) — columns never mix. -/
theorem gaussian_filter_2d_columns (f1 : List Rat → Rat → Py (List Rat)) (f2 : List (List Rat) → Rat → Py (List (List Rat)))
    (w : List Rat) (t : List (List Rat)) (σ : Rat) (h2 : f2 t σ = .ok (filtTable w t)) :
    Gen.UtilsGauss.gaussian_filter_2d f1 f2 t σ = .ok (filtTable w t) ∧ (filtTable w t).length = t.length ∧
      ∀ j, j < (t.headD []).length → column (filtTable w t) j = filt w (column t j) := by
  refine ⟨by rw [gaussian_filter_2d_eq, h2], C20.filtTable_rows w t, fun j hj => C20.columns w t j hj⟩

/-- 1-d: with the contract `f1 x σ = .ok (filt w x)` the result is the model's filter, of the input's length -/
theorem gaussian_filter_1d_model (f1 : List Rat → Rat → Py (List Rat)) (f2 : List (List Rat) → Rat → Py (List (List Rat)))
    (w x : List Rat) (σ : Rat) (h1 : f1 x σ = .ok (filt w x)) :
    Gen.UtilsGauss.gaussian_filter_1d f1 f2 x σ = .ok (filt w x) ∧ (filt w x).length = x.length := by
  refine ⟨by rw [gaussian_filter_1d_eq, h1], C20.filt_length w x⟩

/-! non-vacuity: a concrete filter stand-in (weights 1/4, 1/2, 1/4) -/
def exF1 : List Rat → Rat → Py (List Rat) := fun x _ => .ok (filt [1/4, 1/2, 1/4] x)
def exF2 : List (List Rat) → Rat → Py (List (List Rat)) := fun t _ => .ok (filtTable [1/4, 1/2, 1/4] t)

example : Gen.UtilsGauss.gaussian_filter_1d exF1 exF2 [0, 4, 0] 1 = .ok [1, 2, 1] := by decide +kernel
example : Gen.UtilsGauss.gaussian_filter_2d exF1 exF2 [[0, 8], [4, 8], [0, 8]] 1 = .ok [[1, 8], [2, 8], [1, 8]] := by decide +kernel
example : Gen.UtilsGauss.gaussian_filter_3d exF1 exF2 [[[1]]] 1 = .error .value := rfl

end MsmVerif.Refine.Gauss
