/-
Refine/CoringApi.lean — task RP12 (property C05): the TRANSLATED public wrapper `msmhelper.md.dynamical_coring`
(`Gen/MdCoringApi.lean`, generated from `src/msmhelper/md/corrections.py`) returns exactly what the hand-written public
model `Coring.dynamicalCoring` returns, when it is fed with the attributes of the `StateTraj` object built from the
trajectory set (`trajs_states = st.sts`, `trajs_index_trajs = st.idx`, `trajs_iter = ts`, `trajs_is_lumped = false`).

Result in one paragraph.  The equality holds whenever the index trajectories of the object are `≥ 0`
(`dynamical_coring_api_refines_partial`) — which the constructor guarantees under the project's label guards
(`dynamical_coring_api_refines`, `…_of_guard`, `…_of_cast`) — for every lag time, both modes and both values of the
configuration flag.  WITHOUT any guard the requested statement is FALSE (`dynamical_coring_api_refines_false`): for a label as
small as `-2^31` the `int32` cast inside `shift_data` makes the constructor model produce NEGATIVE indices; the translated
`states[cored_traj]` then follows Python's index rules (wrap once, else `IndexError`) whereas the model's `labelOf` reads
position 0.  Upper bounds never fail: indices are always `< number of states` (`idx_lt_of_mk'` in `CoringApiLemmas.lean`), and the
constructor model never raises (`constructor_total`).
-/
import MsmVerif.Refine.CoringApiLemmas

namespace MsmVerif.Refine.CoringApi
open MsmVerif MsmVerif.Gen

/-- the translated wrapper for a plain (not lumped) object, as a plain case distinction: `ValueError` for `lagtime ≤ 0`,
the label trajectories themselves for `lagtime = 1`, otherwise the translated kernel on the index trajectories followed by
the fancy read `states[cored_traj]` of every cored trajectory — for both values of the configuration flag. -/
theorem api_unfold (ss : List Int) (idx it : List (List Int)) (τ : Int) (iter flag : Bool) :
    MdCoringApi.dynamical_coring ss idx it false τ iter flag
      = if τ ≤ 0 then .error .value
        else if τ = 1 then .ok it
        else (MdCorrections.dynamical_coring idx τ iter >>= fun t2 =>
          t2.mapM (fun cored_traj => do let t3 ← npTake ss cored_traj; pure t3)) := by
  unfold MdCoringApi.dynamical_coring
  cases flag <;>
  · by_cases h0 : τ ≤ 0
    · simp only [Bool.false_eq_true, ↓reduceIte, h0, decide_true, pure_bind]
      rfl
    · by_cases h1 : τ = 1
      · simp only [Bool.false_eq_true, ↓reduceIte, h1, Int.reduceLE, decide_false, BEq.rfl, pure_bind]
        rfl
      · simp only [Bool.false_eq_true, ↓reduceIte, h0, decide_false, beq_iff_eq, h1, pure_bind]

/-- The wrapper on ARBITRARY attribute values (no constructor involved): if all index trajectories hold indices in
`[0, len(states))`, the translated wrapper returns `ValueError` for `lagtime ≤ 0`, `trajs_iter` for `lagtime = 1`,
`LagtimeError` iff the model kernel `Coring.kernelAll` fails on the index trajectories, and otherwise the cored index
trajectories decoded entry by entry through `states[·]` — in particular never an `IndexError`. -/
theorem dynamical_coring_api_attrs (ss : List Int) (idx it : List (List Int))
    (hidx : ∀ t ∈ idx, ∀ i ∈ t, 0 ≤ i ∧ i < ss.length) (τ : Int) (iter flag : Bool) :
    MdCoringApi.dynamical_coring ss idx it false τ iter flag
      = if τ ≤ 0 then .error .value
        else if τ = 1 then .ok it
        else match Coring.kernelAll τ.toNat iter idx with
          | none => .error .lagtime
          | some r => .ok (r.map (·.map (labelOf ss))) := by
  rw [api_unfold]
  by_cases h0 : τ ≤ 0
  · rw [if_pos h0, if_pos h0]
  rw [if_neg h0, if_neg h0]
  by_cases h1 : τ = 1
  · rw [if_pos h1, if_pos h1]
  rw [if_neg h1, if_neg h1]
  have hτ : 1 ≤ τ.toNat := by omega
  have hcast : ((τ.toNat : Nat) : Int) = τ := by omega
  have hk := Coring.dynamical_coring_refines idx τ.toNat hτ iter
  rw [hcast] at hk
  rw [hk]
  cases hr : Coring.kernelAll τ.toNat iter idx with
  | none => rfl
  | some r =>
    show r.mapM _ = _
    apply mapM_npTake_inrange
    intro q hq i hi
    obtain ⟨t, ht, hit⟩ := List.mem_flatten.mp (kernelAll_mem hr q hq i hi)
    exact hidx t ht i hit

example : ∀ t ∈ [[0, 0, 0, 1, 1, 1, 0], [2, 2]], ∀ i ∈ t, (0 : Int) ≤ i ∧ i < ([-1, 2, 5] : List Int).length := by
  decide

/-- the public model once the constructor's result is known: `ValueError` for `lagtime ≤ 0`, the input for `lagtime = 1`,
`LagtimeError` iff the model kernel fails on the index trajectories, otherwise its result decoded through `labelOf` -/
theorem dynamicalCoring_of_mk {ts : Trajs} {st : StateTraj} (h : StateTraj.mk' ts = .ok st) (τ : Int) (iter : Bool) :
    Coring.dynamicalCoring ts τ iter
      = if τ ≤ 0 then .error .value
        else if τ = 1 then .ok ts
        else match Coring.kernelAll τ.toNat iter st.idx with
          | none => .error .lagtime
          | some r => .ok (r.map (·.map (labelOf st.sts))) := by
  unfold Coring.dynamicalCoring
  rw [h]
  rfl

/-- **Main theorem (strongest true form).**  For every trajectory set `ts` and the object `st` the constructor builds from
it, provided the index trajectories of the object are non-negative, the translated wrapper — fed with the object's
attributes — returns exactly the public model's answer, for every lag time, both modes and both values of the configuration
flag: `ValueError` for `lagtime ≤ 0`, the input itself for `lagtime = 1`, `LagtimeError` iff some trajectory has no core at
some stage, otherwise the cored index trajectories mapped back through `states[·]` (no `IndexError`).
The hypothesis cannot be dropped, see `dynamical_coring_api_refines_false`. -/
theorem dynamical_coring_api_refines_partial (ts : Trajs) (st : StateTraj) (h : StateTraj.mk' ts = .ok st)
    (hnn : ∀ t ∈ st.idx, ∀ i ∈ t, 0 ≤ i) (τ : Int) (iter flag : Bool) :
    MdCoringApi.dynamical_coring st.sts st.idx ts false τ iter flag = Coring.dynamicalCoring ts τ iter := by
  rw [dynamical_coring_api_attrs st.sts st.idx ts
    (fun t ht i hi => ⟨hnn t ht i hi, idx_lt_of_mk' h t ht i hi⟩), dynamicalCoring_of_mk h]

/-- the harmless-cast condition in plain numbers: number of distinct labels minus `min (smallest label, 0)` is at
most `2^31` — then the `int32` cast inside the constructor's lookup-table branch changes nothing -/
def CastHarmless (ts : Trajs) : Prop := ((states ts).length : Int) - encOff ts ≤ 2147483648

instance (ts : Trajs) : Decidable (CastHarmless ts) := by unfold CastHarmless; infer_instance

/-- The requested statement under the sharpest simple guard: if the `int32` cast of the constructor's lookup table is
harmless (`CastHarmless ts`: number of distinct labels − min(smallest label, 0) ≤ 2^31), the translated wrapper fed with
the attributes of the object built from `ts` returns exactly the public model's answer (all lag times, both modes, both
flag values; errors included). -/
theorem dynamical_coring_api_refines_of_cast (ts : Trajs) (hc : CastHarmless ts) (st : StateTraj)
    (h : StateTraj.mk' ts = .ok st) (τ : Int) (iter flag : Bool) :
    MdCoringApi.dynamical_coring st.sts st.idx ts false τ iter flag = Coring.dynamicalCoring ts τ iter :=
  dynamical_coring_api_refines_partial ts st h (idx_nonneg_of_mk' h hc) τ iter flag

/-- **The requested statement under the project's general label window** (`LabelWindow ts lo hi`: all labels in `[lo, hi]`,
`lo ≤ 0`, `hi − 2·lo < 2^31`; e.g. all labels in `[0, 2^31)`): for every such trajectory set the translated wrapper, fed with
the attributes of the object built from `ts`, returns exactly the public model's answer — for both values of the
configuration flag: `ValueError` for `lagtime ≤ 0`, the input itself for `lagtime = 1`, `LagtimeError` iff some trajectory
has no core at some stage, otherwise the cored index trajectories mapped back through `states[·]` (no `IndexError`). -/
theorem dynamical_coring_api_refines (ts : Trajs) {lo hi : Int} (hw : LabelWindow ts lo hi) (st : StateTraj)
    (h : StateTraj.mk' ts = .ok st) (τ : Int) (iter flag : Bool) :
    MdCoringApi.dynamical_coring st.sts st.idx ts false τ iter flag = Coring.dynamicalCoring ts τ iter :=
  dynamical_coring_api_refines_of_cast ts (cast_ok_of_window hw) st h τ iter flag

/-- the same under the concrete guard used throughout the project (`LabelGuard`: every label in `[-2^29, 2^29]`) -/
theorem dynamical_coring_api_refines_of_guard (ts : Trajs) (hg : LabelGuard ts) (st : StateTraj)
    (h : StateTraj.mk' ts = .ok st) (τ : Int) (iter flag : Bool) :
    MdCoringApi.dynamical_coring st.sts st.idx ts false τ iter flag = Coring.dynamicalCoring ts τ iter :=
  dynamical_coring_api_refines ts hg.window st h τ iter flag

/-- Under the guard the statement needs no object at all: the translated wrapper on the rank trajectories and the
ascending distinct labels of `ts` equals the public model on `ts`. -/
theorem dynamical_coring_api_refines_rank (ts : Trajs) (hg : LabelGuard ts) (τ : Int) (iter flag : Bool) :
    MdCoringApi.dynamical_coring (states ts) (rankTrajs ts) ts false τ iter flag = Coring.dynamicalCoring ts τ iter :=
  dynamical_coring_api_refines_of_guard ts hg ⟨rankTrajs ts, states ts⟩ (mk'_eq_rank hg) τ iter flag

/-- a `LumpedStateTraj` is refused with `NotImplementedError` before anything else — whatever the attributes, the lag time
(also `≤ 0`), the mode and the configuration flag are -/
theorem dynamical_coring_api_lumped (ss : List Int) (idx it : List (List Int)) (τ : Int) (iter flag : Bool) :
    MdCoringApi.dynamical_coring ss idx it true τ iter flag = .error .notImplemented := by
  unfold MdCoringApi.dynamical_coring
  rfl

/-- the result does not depend on the configuration flag `numba.config.DISABLE_JIT` — for ALL attribute values, lumped
or not, in range or not -/
theorem dynamical_coring_api_flag_irrelevant (ss : List Int) (idx it : List (List Int)) (lumped : Bool) (τ : Int)
    (iter flag flag' : Bool) :
    MdCoringApi.dynamical_coring ss idx it lumped τ iter flag
      = MdCoringApi.dynamical_coring ss idx it lumped τ iter flag' := by
  cases lumped
  · rw [api_unfold, api_unfold]
  · rw [dynamical_coring_api_lumped, dynamical_coring_api_lumped]

/-- the constructor model never raises: every trajectory set has an object (states = ascending distinct labels) -/
theorem constructor_total (ts : Trajs) : ∃ st, StateTraj.mk' ts = .ok st ∧ st.sts = states ts :=
  ⟨_, mk'_eq_enc ts, rfl⟩

/-! ### the unguarded statement is false -/

/-- **Counterexample to the unguarded statement.**  For `ts = [[-2^31, -2^31, 5, 5]]` the constructor model succeeds, but
the `int32` cast of its lookup table turns the indices `0, 1` into `-2^32, 1 - 2^32`; with `lagtime = 2` the kernel
keeps them, the translated `states[cored_traj]` raises `IndexError` (Python index rules), while the public model's
`labelOf` reads position 0 and returns four times `-2^31`.  Hence `dynamical_coring_api_refines_partial` needs its
hypothesis.  (Not an `#eval`: the model's lookup table has `2^31 + 6` entries; the proof goes through `mk'_eq_enc`.) -/
theorem dynamical_coring_api_refines_false :
    ∃ (ts : Trajs) (st : StateTraj), StateTraj.mk' ts = .ok st ∧
      MdCoringApi.dynamical_coring st.sts st.idx ts false 2 false false = .error .index ∧
      Coring.dynamicalCoring ts 2 false = .ok [[-2147483648, -2147483648, -2147483648, -2147483648]] := by
  have h1 : ([[-2147483648, -2147483648, 5, 5]] : Trajs).map (·.map (enc [[-2147483648, -2147483648, 5, 5]]))
      = [[-4294967296, -4294967296, -4294967295, -4294967295]] := by rfl
  have h2 : states [[-2147483648, -2147483648, 5, 5]] = [-2147483648, 5] := by rfl
  have hmk := mk'_eq_enc [[-2147483648, -2147483648, 5, 5]]
  rw [h1, h2] at hmk
  exact ⟨_, _, hmk, by rfl, (dynamicalCoring_of_mk hmk 2 false).trans (by rfl)⟩

/-- the guard really fails on the counterexample -/
example : ¬ CastHarmless [[-2147483648, -2147483648, 5, 5]] := by decide

/-! ### non-vacuity on a ragged set with negative labels -/

example : LabelGuard [[-1, -1, -1, 2, 2, 2, -1], [5, 5]] := by decide
example : CastHarmless [[-1, -1, -1, 2, 2, 2, -1], [5, 5]] := by decide
example : StateTraj.mk' [[-1, -1, -1, 2, 2, 2, -1], [5, 5]] = .ok ⟨[[0, 0, 0, 1, 1, 1, 0], [2, 2]], [-1, 2, 5]⟩ := by rfl
example : ∀ t ∈ [[0, 0, 0, 1, 1, 1, 0], [2, 2]], ∀ i ∈ t, (0 : Int) ≤ i := by decide

/-- translation and model agree on the example, through the theorem … -/
example : MdCoringApi.dynamical_coring [-1, 2, 5] [[0, 0, 0, 1, 1, 1, 0], [2, 2]] [[-1, -1, -1, 2, 2, 2, -1], [5, 5]]
    false 2 false true = Coring.dynamicalCoring [[-1, -1, -1, 2, 2, 2, -1], [5, 5]] 2 false :=
  dynamical_coring_api_refines_of_guard _ (by decide) ⟨[[0, 0, 0, 1, 1, 1, 0], [2, 2]], [-1, 2, 5]⟩ (by rfl) 2 false true

/-- … and by direct evaluation of both sides: the first core `-1` is handled, the last frame joins core `2` -/
example : MdCoringApi.dynamical_coring [-1, 2, 5] [[0, 0, 0, 1, 1, 1, 0], [2, 2]] [[-1, -1, -1, 2, 2, 2, -1], [5, 5]]
    false 2 false true = .ok [[-1, -1, -1, 2, 2, 2, 2], [5, 5]] := by rfl
example : Coring.dynamicalCoring [[-1, -1, -1, 2, 2, 2, -1], [5, 5]] 2 false = .ok [[-1, -1, -1, 2, 2, 2, 2], [5, 5]] := by
  rfl
example : MdCoringApi.dynamical_coring [-1, 2, 5] [[0, 0, 0, 1, 1, 1, 0], [2, 2]] [[-1, -1, -1, 2, 2, 2, -1], [5, 5]]
    false 2 true false = .ok [[-1, -1, -1, 2, 2, 2, 2], [5, 5]] := by rfl
/-- `[5, 5]` has no window of three frames: `LagtimeError`, in both modes -/
example : MdCoringApi.dynamical_coring [-1, 2, 5] [[0, 0, 0, 1, 1, 1, 0], [2, 2]] [[-1, -1, -1, 2, 2, 2, -1], [5, 5]]
    false 3 true false = .error .lagtime := by rfl
example : Coring.dynamicalCoring [[-1, -1, -1, 2, 2, 2, -1], [5, 5]] 3 true = .error .lagtime := by rfl
/-- `lagtime = 1` returns the label trajectories, `lagtime = 0` is a `ValueError`, a lumped object is refused first -/
example : MdCoringApi.dynamical_coring [-1, 2, 5] [[0, 0, 0, 1, 1, 1, 0], [2, 2]] [[-1, -1, -1, 2, 2, 2, -1], [5, 5]]
    false 1 true false = .ok [[-1, -1, -1, 2, 2, 2, -1], [5, 5]] := by rfl
example : MdCoringApi.dynamical_coring [-1, 2, 5] [[0, 0, 0, 1, 1, 1, 0], [2, 2]] [[-1, -1, -1, 2, 2, 2, -1], [5, 5]]
    false 0 true false = .error .value := by rfl
example : MdCoringApi.dynamical_coring [-1, 2, 5] [[0, 0, 0, 1, 1, 1, 0], [2, 2]] [[-1, -1, -1, 2, 2, 2, -1], [5, 5]]
    true 0 true false = .error .notImplemented := by rfl

end MsmVerif.Refine.CoringApi
