"""C16 — text input/output round-trips data and honours columns and limits."""
import itertools
import os
import tempfile

import numpy as np

import core

PID = 'C16'
ANCHORS = [('src/msmhelper/io.py', ['opentxt', 'savetxt', 'opentxt_limits', 'openmicrostates', 'open_limits']),
           ('src/msmhelper/utils/_utils.py', ['swapcols', '_asindex'])]
RULE = ('integer tables 1-40 rows (a few 200) x 1-6 columns with negative and >16-bit values, header strings from printable ASCII incl. "#", newlines, '
        'empty lines; written with savetxt (both formats) and the real FILE BYTES compared with the model text; read back with opentxt for every column '
        'subset/permutation (<=4 columns, sampled above), nrows, integer dtypes, single and multiple comment characters; hand-formatted files (tabs, '
        'several spaces, comment lines in between, trailing comments); all compositions of the row count as limits for <=6 rows and random ones above, '
        'inconsistent limits (too short / too long / extra entry), openmicrostates dtype variants and rejections. Non-trivial = >=2 columns, >=2 limits '
        'pieces or a header containing "#" or a newline; distinct by (table, header, options).')
RELATION = 'file bytes of savetxt = TextIO.writeTable; opentxt / opentxt_limits / openmicrostates = TextIO.readTable + selectColsCode + splitLimits + microDtype'
TRUSTED = ['pandas / numpy tokenising and %-formatting are modelled by contract (TextIO) and validated on every generated file']
PARTIAL = 'third-party text parsing modelled by contract'
HDR_ALPH = 'abcXYZ 0123#,.;:-_/()[]{}=+*%$&!?<>|~"\''
DT = {'int8': np.int8, 'int16': np.int16, 'int32': np.int32, 'int64': np.int64}


def _mk(kind, **kw):
    d = {'op': kind, 'src': 'rand'}
    d.update(kw)
    return d


def rand_table(rng, rows=None, cols=None, wide=None):
    rows = rows or rng.choice([1, 1, 2, 3, 5, 8, 13, 40])
    cols = cols or rng.randint(1, 6)
    wide = rng.random() < 0.3 if wide is None else wide
    hi = 10 ** 9 if wide else 300
    return [[rng.randint(-hi, hi) if rng.random() < 0.7 else rng.randint(-3, 3) for _ in range(cols)] for _ in range(rows)]


def rand_header(rng):
    r = rng.random()
    if r < 0.15:
        return None
    n = rng.randint(0, 30)
    s = ''.join(rng.choice(HDR_ALPH) for _ in range(n))
    if rng.random() < 0.5:
        k = rng.randint(1, 3)
        for _ in range(k):
            p = rng.randint(0, len(s))
            s = s[:p] + '\n' + s[p:]
    return s


def compositions(n):
    for k in range(n):
        for cuts in itertools.combinations(range(1, n), k):
            b = (0,) + cuts + (n,)
            yield [y - x for x, y in zip(b, b[1:])]


def cases(tier, rng, boost=1):
    yield _mk('write', table=[[1, -2, 30000], [4, 5, -6]], hdr='my # header\nsecond line', fmt='f5', src='corpus')
    # a LONG single-column file whose limits miss the row count by one (a relative comparison of the totals would accept it) and one whose limits fit
    longcol = [[(k * 7) % 11] for k in range(150000)]
    for lims_ in ([50000, 60000, 40001], [50000, 60000, 39999], [50000, 60000, 40000]):
        yield _mk('read', table=longcol, transpose=False, usecols=None, nrows=None, dtype='int64', micro=False, limits=lims_, layout='plain', src='corpus-long')
    yield _mk('read', table=[[1, 40000, 3]], transpose=True, usecols=None, nrows=None, dtype='int32', micro=True, limits=None, layout='plain',
              src='corpus')                                                                  # D6
    yield _mk('read', table=[[10, 11, 12], [20, 21, 22]], transpose=False, usecols=[1, 2, 0], nrows=None, dtype='int64', micro=False,
              limits=None, layout='plain', src='corpus')
    n = {'quick': 500, 'thorough': 6000, 'search': 1500}[tier] * boost
    for i in range(n):
        r = rng.random()
        if r < 0.3:
            yield _mk('write', table=rand_table(rng, rows=200 if i % 97 == 0 else None), hdr=rand_header(rng), fmt=rng.choice(['f5', 'f5', 'f0']))
            continue
        tbl = rand_table(rng)
        ncol = len(tbl[0])
        usecols = None
        if rng.random() < 0.5:
            k = rng.randint(1, ncol)
            usecols = rng.sample(range(ncol), k)
        nrows = rng.choice([None, None, None, 1, len(tbl), max(1, len(tbl) // 2)])
        layout = rng.choice(['plain', 'plain', 'tabs', 'comments', 'multi_comment'])
        if r < 0.65:
            yield _mk('read', table=tbl, transpose=False, usecols=usecols, nrows=nrows, dtype=rng.choice(['int64', 'int32', 'int64']),
                      micro=False, limits=None, layout=layout)
        else:
            col = rand_table(rng, cols=1 if rng.random() < 0.7 else 2, wide=rng.random() < 0.3)
            nr = len(col)
            mode = rng.choice(['ok', 'ok', 'ok', 'short', 'long', 'extra'])
            if nr <= 6 and tier != 'quick':
                lims_list = list(compositions(nr))
            else:
                k = rng.randint(1, min(4, nr))
                cuts = sorted(rng.sample(range(1, nr), k - 1)) if nr > 1 else []
                b = [0] + cuts + [nr]
                lims_list = [[y - x for x, y in zip(b, b[1:])]]
            for lims in lims_list:
                lims = list(lims)
                if mode == 'short' and lims[-1] > 1:
                    lims[-1] -= 1
                elif mode == 'long':
                    lims[-1] += 1
                elif mode == 'extra':
                    lims.append(1)
                micro = rng.random() < 0.6
                fits16 = all(-32768 <= v <= 32767 for row in col for v in row)
                dtype = rng.choice([None, 'int16', 'int32', 'int64', 'float']) if micro else 'int64'
                if micro and dtype in (None, 'int16') and not fits16:
                    dtype = 'int32'
                yield _mk('read', table=col, transpose=False, usecols=None, nrows=None, dtype=dtype, micro=micro, limits=lims, layout='plain')


def _write_file(path, table, layout, rng):
    lines = []
    if layout in ('comments', 'multi_comment'):
        lines.append('# leading comment 1 2 3')
    for i, row in enumerate(table):
        sep = '\t' if layout == 'tabs' else (' ' * rng.randint(1, 3))
        line = sep.join(str(v) for v in row)
        if layout == 'tabs' and rng.random() < 0.5:
            line = ' ' + line + ' '
        if layout == 'comments' and rng.random() < 0.3:
            line += '  # trailing 7 8'
        lines.append(line)
        if layout in ('comments', 'multi_comment') and rng.random() < 0.2:
            lines.append('#mid comment' if layout == 'comments' else '@ other comment 5')
    with open(path, 'w') as fh:
        fh.write('\n'.join(lines) + '\n')
    return lines


def real(case):
    import msmhelper as mh
    rng = core.Rng(hash(str(case['table'])) & 0xffff)
    d = os.path.join(tempfile.gettempdir(), 'msmverif_io_%d' % os.getpid())     # the SAME paths are rewritten by every case of this process
    os.makedirs(d, exist_ok=True)
    f = os.path.join(d, 'data.dat')
    try:
        if case['op'] == 'write':
            arr = np.array(case['table'], dtype=np.int64)
            if arr.shape[1] == 1 and rng.random() < 0.5:
                arr = arr[:, 0]
            kw = {}
            if case['fmt'] == 'f0':
                kw['fmt'] = '%.0f'

            def run():
                mh.savetxt(f, arr, header=case['hdr'], **kw)
                text = open(f).read()
                lines = text.split('\n')
                if lines[-1] != '':
                    raise AssertionError('file does not end with a newline')
                lines = lines[:-1]
                back = mh.opentxt(f, dtype=np.int64)
                return {'lines': lines, 'back': np.asarray(back).reshape(len(case['table']), -1).tolist(),
                        'back_ndim': int(np.asarray(back).ndim)}
            out = core.call(run)
            out.pop('msg', None)
            return out
        table = case['table']
        lines = _write_file(f, table, case['layout'], rng)
        kw = {}
        if case['dtype'] is not None:
            kw['dtype'] = float if case['dtype'] == 'float' else DT[case['dtype']]
        if case['usecols'] is not None:
            kw['usecols'] = case['usecols']
        if case['nrows'] is not None:
            kw['nrows'] = case['nrows']
        if case['layout'] == 'multi_comment':
            kw['comment'] = ['#', '@']
            kw.pop('usecols', None)
        lim_file = None
        if case['limits'] is not None:
            lim_file = os.path.join(d, 'limits.dat')
            np.savetxt(lim_file, np.array(case['limits']), fmt='%d', header='limits')

        def run():
            if case['limits'] is not None or case['micro']:
                fn = mh.openmicrostates if case['micro'] else mh.opentxt_limits
                pieces = fn(f, lim_file, **kw)
                dts = {str(p.dtype) for p in pieces}
                return {'pieces': [np.asarray(p).reshape(len(p), -1).tolist() for p in pieces], 'dtype': sorted(dts),
                        'ndim': sorted({int(p.ndim) for p in pieces})}
            a = np.asarray(mh.opentxt(f, **kw))
            ndim = int(a.ndim)
            if case['layout'] == 'multi_comment' and a.ndim == 1:
                # the np.loadtxt fallback squeezes a single ROW to 1-d as well; the property only speaks about single columns
                nrow_eff = len(table) if case['nrows'] is None else min(case['nrows'], len(table))
                if nrow_eff == 1 and len(table[0]) > 1:
                    a = a.reshape(1, -1)
                    ndim = 2
            return {'table': a.reshape(-1, 1).tolist() if a.ndim == 1 else a.tolist(), 'dtype': [str(a.dtype)], 'ndim': [ndim]}
        out = core.call(run)
        out.pop('msg', None)
        out['lines'] = lines
        return out
    finally:
        for fn in os.listdir(d):
            os.unlink(os.path.join(d, fn))


def request(case, obs):
    if case['op'] == 'write':
        if 'ok' not in obs:
            return {'op': 'ping'}
        real_lines = obs['ok']['lines']
        rui = '\n'.join(l[2:] for l in real_lines[:4])         # run-time information block, passed through
        hdr = rui + ('\n' + case['hdr'] if case['hdr'] else '')
        return {'op': 'io_write', 'hdr': hdr, 'fmt': case['fmt'], 'table': case['table']}
    lines = obs['lines']
    if case['layout'] == 'multi_comment':
        lines = [l.replace('@', '#') for l in lines]      # contract: every listed comment character behaves like '#'
    r = {'op': 'io_read', 'lines': lines, 'usecols': None if case['layout'] == 'multi_comment' else case['usecols'],
         'nrows': case['nrows'], 'limits': case['limits']}
    if case['dtype'] and case['dtype'] != 'float':
        r['dtype'] = case['dtype']
    return r


def agree(case, obs, reply):
    m = reply.get('model', {})
    if case['op'] == 'write':
        if 'ok' not in obs:
            return False
        o = obs['ok']
        if not all(l.startswith('# ') or l == '#' for l in o['lines'][:4]):
            return False
        single = len(case['table'][0]) == 1
        return (m.get('ok') == o['lines'] and o['back'] == case['table'] and o['back_ndim'] == (1 if single else 2))
    # read
    if case['micro'] and case['dtype'] == 'float':
        return obs.get('err') == 'TypeError'
    if 'err' in m:
        return obs.get('err') == m['err']
    if case['micro'] and len(case['table'][0]) > 1:
        return obs.get('err') == 'FileError'
    if 'err' in obs:
        return False
    mo, oo = m['ok'], obs['ok']
    want_dt = mo['dtype'] if case['micro'] else (case['dtype'] or 'float64')
    if oo['dtype'] != [want_dt]:
        return False
    if 'pieces' in mo:
        return oo.get('pieces') == mo['pieces']
    if 'pieces' in oo:           # micro without limits: a single piece
        return oo['pieces'] == [mo['table']] and oo['ndim'] == [1]
    ncols = len(mo['table'][0]) if mo['table'] else 0
    return oo['table'] == mo['table'] and oo['ndim'] == [1 if ncols == 1 else 2]


def holds(case, obs, reply):
    return agree(case, obs, reply) and bool(reply.get('holds', True))


def nontrivial(case, obs, reply):
    if case['op'] == 'write':
        return len(case['table'][0]) >= 2 or (case['hdr'] and ('#' in case['hdr'] or '\n' in case['hdr']))
    return len(case['table'][0]) >= 2 or (case['limits'] is not None and len(case['limits']) >= 2)


def key(case):
    return [case['op'], case['table'], case.get('hdr'), case.get('fmt'), case.get('usecols'), case.get('nrows'), case.get('limits'),
            case.get('dtype'), case.get('micro'), case.get('layout')]


def classify(case, obs, reply):
    if case['op'] == 'write':
        return 'write/%s/%s' % (case['fmt'], obs.get('err', 'ok'))
    return 'read/%s/%s/%s/%s' % ('micro' if case['micro'] else 'txt', case['layout'], 'limits' if case['limits'] else 'nolimits', obs.get('err', 'ok'))


def known_match(k, case, obs, reply):
    return False
